(* C11TotalProofs.v — the in-memory writer does return without error: CreateFragment + AddFullSampleToTrack never
   fail on the track's own id, Fragment.Encode succeeds for a non-empty fragment below 2 GiB, and the written
   fragment satisfies the guard of the round trip.  Together with C11PipeProofs this removes the hypotheses
   "the writer returned Ok" and "every written fragment is small" in favour of a bound on the INPUT intervals. *)
From V.lib Require Import Base.
From V.c11 Require Import C11Model C11SegProofs.
From V.c09 Require Import C09Model C09Spec C09BaseProofs C09SttsProofs.
From V.c05 Require Import C05Model C05FragModel C05HistProofs C05GhostProofs C05ReadProofs C05RoundProofs C05OptProofs.
From V.c11 Require Import C11FetchModel C11Spec C11FetchProofs C11PipeProofs C11CopyProofs.

(* the fragment CreateFragment(seq, T) has become after full samples were added *)
Definition built (T : N) (dt : tfdt) (l : list sample) (data : list N) : frag :=
  mkFrag [mkTraf (create_tfhd T) dt [canon 0 l] 0] (mkMdat data [] 0 false) 1 0 0 0.

Lemma built_create T : create_fragment T = built T (mkTfdt 0 0) [] [].
Proof. reflexivity. Qed.

Lemma set_base_version t : td_version (set_base t) <= 1.
Proof. unfold set_base. destruct (4294967296 <=? t); cbn; lia. Qed.

Lemma step_full_built T dt l data (s : fullsample) : td_version dt <= 1 ->
  exists dt', step (built T dt l data) (op_of T s) = Ok (built T dt' (l ++ [fs_s s]) (data ++ fs_data s)) /\
              td_version dt' <= 1.
Proof.
  intros Hv. unfold op_of, built. cbn [step]. unfold add_sample_to_track. cbn [fr_trafs fr_next add_to_track_trafs tf_hd].
  cbn [create_tfhd tf_track]. rewrite N.eqb_refl.
  unfold add_to_traf. cbn [tf_truns last removelast tr_won canon tf_hd tf_extra app tf_dt].
  change (u32 (1 + 4294967295)) with 0. cbn [N.eqb negb rbind fr_with fr_mdat fr_trafs fr_next fr_pre fr_moofx fr_post].
  unfold md_add_data, md_set_lazy0, md_add_lazy. cbn [md_data md_parts md_lazy md_large].
  eexists. split; [reflexivity|]. destruct (u32 (lenN (tr_samples (canon 0 l))) =? 0); [apply set_base_version|exact Hv].
Qed.

Lemma add_fulls_built T : forall (l : list fullsample) dt l0 data, td_version dt <= 1 ->
  exists dt', add_fulls (built T dt l0 data) T l = Ok (built T dt' (l0 ++ map fs_s l) (data ++ flat_map fs_data l)) /\
              td_version dt' <= 1.
Proof.
  induction l as [|s l IH]; intros dt l0 data Hv; cbn [add_fulls map flat_map].
  - exists dt. rewrite !app_nil_r. split; [reflexivity|exact Hv].
  - destruct (step_full_built T dt l0 data s Hv) as [dt1 [Hs Hv1]]. rewrite Hs. cbn [rbind].
    destruct (IH dt1 (l0 ++ [fs_s s]) (data ++ fs_data s) Hv1) as [dt' [Ha Hv']]. rewrite Ha.
    exists dt'. rewrite <- !app_assoc. split; [reflexivity|exact Hv'].
Qed.

(* ------------------------------------------------------------------ sizes *)
Lemma b2n_le b : b2n b <= 1.
Proof. destruct b; cbn; lia. Qed.

Lemma trun_size_le r : trun_size r <= 24 + 16 * lenN (tr_samples r).
Proof.
  unfold trun_size. pose proof (b2n_le (has_doff r)). pose proof (b2n_le (has_fsf r)). pose proof (b2n_le (has_dur r)).
  pose proof (b2n_le (has_size r)). pose proof (b2n_le (has_sflags r)). pose proof (b2n_le (has_cto r)).
  assert (u32 (lenN (tr_samples r)) <= lenN (tr_samples r)) by (unfold u32; apply N.mod_le; discriminate). nia.
Qed.

Lemma tfhd_size_le h : tfhd_size h <= 40.
Proof.
  unfold tfhd_size. pose proof (b2n_le (tf_has_bdo h)). pose proof (b2n_le (tf_has_sdi h)).
  pose proof (b2n_le (tf_has_ddur h)). pose proof (b2n_le (tf_has_dsize h)). pose proof (b2n_le (tf_has_dflags h)). lia.
Qed.

(* ------------------------------------------------------------------ Fragment.Encode on a one-trun fragment *)
Definition one_m (h : tfhd) (dt : tfdt) (r : trun) (m : mdat) : frag := mkFrag [mkTraf h dt [r] 0] m 1 0 0 0.
Definition one (h : tfhd) (dt : tfdt) (r : trun) (data : list N) : frag := one_m h dt r (mkMdat data [] 0 false).

Lemma moof_size_one h dt r m : td_version dt <= 1 ->
  32 <= moof_size (one_m h dt r m) <= 116 + 16 * lenN (tr_samples r).
Proof.
  intros Hv. unfold moof_size, one_m, traf_size. cbn [fr_trafs fr_moofx map sumN tf_hd tf_dt tf_truns tf_extra].
  pose proof (trun_size_le r). pose proof (tfhd_size_le h). unfold tfdt_size. lia.
Qed.

Lemma touch_id m : md_large m = false -> md_payload m <= 4294967287 -> md_size_touch m = m.
Proof.
  intros Hl Hp. unfold md_size_touch. destruct (4294967287 <? md_payload m) eqn:E; [lia|].
  rewrite Hl. destruct m as [d ps lz lg]. cbn in *. subst lg. reflexivity.
Qed.

Lemma set_offsets_one h dt r m : md_large m = false -> md_payload m <= 4294967287 ->
  set_offsets (one_m h dt r m) = one_m h dt (tr_with_doff r (i32 (moof_size (one_m h dt r m) + 8))) m.
Proof.
  intros Hl Hp. unfold set_offsets. cbn [one_m fr_trafs all_truns flat_map tf_truns app fr_mdat].
  change (1 <? lenN [r]) with false. rewrite andb_false_r. rewrite (touch_id m Hl Hp).
  unfold md_header_size. rewrite Hl.
  cbn [sort_won fold_right insert_won assign_offsets map lookup_off tf_hd tf_dt tf_truns tf_extra].
  rewrite N.eqb_refl. reflexivity.
Qed.

(* what Encode returns: same mdat, header 8, nothing before the moof, moof size bounded by the sample count *)
Definition encoded_small (n : N) (m : mdat) (fe : frag) : Prop :=
  fr_mdat fe = m /\ fr_pre fe = 0 /\ moof_size fe <= 116 + 16 * n.

Lemma encode_one_m opt h dt r m :
  td_version dt <= 1 -> tr_samples r <> [] -> has_doff r = true ->
  md_large m = false -> 16 * lenN (tr_samples r) + md_payload m + 200 < 2147483648 ->
  exists fe, encode_frag opt (one_m h dt r m) = Ok fe /\ encoded_small (lenN (tr_samples r)) m fe.
Proof.
  intros Hv Hne Hdo Hlg Hsmall.
  assert (Hgen : forall h1 r1, tr_samples r1 = tr_samples r -> has_doff r1 = true ->
            exists fe, (let fr2 := set_offsets (one_m h1 dt r1 m) in
                        match fr_trafs fr2 with
                        | [] => Panic
                        | t :: ts => if existsb doff_unset (tf_truns t) then Err
                                     else if existsb doff_unset (all_truns ts) then Panic
                                     else Ok (fr_with fr2 (fr_trafs fr2) (md_size_touch (fr_mdat fr2)) (fr_next fr2))
                        end) = Ok fe /\ encoded_small (lenN (tr_samples r)) m fe).
  { intros h1 r1 Hs1 Hd1. pose proof (moof_size_one h1 dt r1 m Hv) as Hm. rewrite Hs1 in Hm.
    rewrite (set_offsets_one h1 dt r1 m Hlg ltac:(lia)). cbv zeta.
    set (base := moof_size (one_m h1 dt r1 m) + 8) in *.
    assert (Hi : i32 base = Z.of_N base).
    { unfold i32. rewrite N.mod_small by lia. destruct (base <? 2147483648) eqn:E; [reflexivity|lia]. }
    rewrite Hi. cbn [one_m fr_trafs tf_truns existsb all_truns flat_map fr_mdat fr_next].
    unfold doff_unset, has_doff in *. cbn [tr_with_doff tr_flags tr_doff]. rewrite Hd1.
    destruct (Z.of_N base =? 0)%Z eqn:Ez; [lia|]. cbn [andb orb].
    rewrite (touch_id m Hlg ltac:(lia)).
    eexists. split; [reflexivity|].
    unfold encoded_small, fr_with. cbn [fr_trafs fr_mdat fr_next fr_pre fr_moofx fr_post].
    assert (Hms : moof_size (mkFrag [mkTraf h1 dt [tr_with_doff r1 (Z.of_N base)] 0] m 1 0 0 0)
                  = moof_size (one_m h1 dt r1 m)) by reflexivity.
    cbn [one_m fr_pre fr_moofx fr_post]. rewrite Hms. repeat split. lia. }
  unfold encode_frag. destruct opt.
  - unfold optimize_first. cbn [one_m fr_trafs tf_truns tf_hd].
    destruct (optimize_total h r Hne) as [[h' r'] Ho]. unfold optimize, FIXED_FSF. rewrite Ho. cbn [rbind].
    destruct (optimize_frame true h r h' r' Ho) as (_ & Hd' & Hs' & _). cbn [fst snd] in *.
    cbn [fr_with tf_dt tf_extra fr_mdat fr_next fr_pre fr_moofx fr_post]. fold (one_m h' dt r' m).
    apply Hgen; [exact Hs'|rewrite Hd'; exact Hdo].
  - cbn [rbind]. apply Hgen; [reflexivity|exact Hdo].
Qed.

Lemma encode_one opt h dt r data pos0 :
  td_version dt <= 1 -> tr_samples r <> [] -> has_doff r = true ->
  16 * lenN (tr_samples r) + lenN data + 200 < 2147483648 -> pos0 < 4611686018427387904 ->
  exists fe, encode_frag opt (one h dt r data) = Ok fe /\ seg_guard pos0 fe = true.
Proof.
  intros Hv Hne Hdo Hsmall Hpos.
  destruct (encode_one_m opt h dt r (mkMdat data [] 0 false) Hv Hne Hdo eq_refl Hsmall) as [fe [He (Hm & Hp & Hs)]].
  exists fe. split; [exact He|]. unfold seg_guard. rewrite Hm, Hp. cbn [md_header_size md_large md_data].
  apply andb_true_intro. split; apply N.ltb_lt; lia.
Qed.

Lemma write_segment_total opt T (l : list fullsample) pos0 :
  l <> [] -> 16 * lenN l + lenN (flat_map fs_data l) + 200 < 2147483648 -> pos0 < 4611686018427387904 ->
  exists fe, write_segment opt T l = Ok fe /\ seg_guard pos0 fe = true.
Proof.
  intros Hne Hsmall Hpos. unfold write_segment. rewrite built_create.
  destruct (add_fulls_built T l (mkTfdt 0 0) [] [] ltac:(cbn; lia)) as [dt' [Ha Hv]]. rewrite Ha. cbn [rbind app].
  apply (encode_one opt (create_tfhd T) dt' (canon 0 (map fs_s l)) (flat_map fs_data l) pos0); try assumption.
  - cbn [canon tr_samples]. destruct l; [congruence|discriminate].
  - reflexivity.
  - cbn [canon tr_samples]. unfold lenN in *. rewrite map_length. exact Hsmall.
Qed.

(* ------------------------------------------------------------------ all segments of a track *)
(* a bound on the INPUT: 16 bytes of trun per sample + the samples' bytes + headers stay below 2 GiB *)
Definition seg_small (tb : tables) (iv : N * N) : bool :=
  16 * (snd iv + 1 - fst iv) + S_total_size tb (fst iv) (snd iv) + 200 <? 2147483648.

Lemma fulls_data_len f tb : C09Spec.consistent tb = true -> data_ok f tb = true ->
  forall k nr l, 1 <= nr -> nr + N.of_nat k <= nsamples tb + 1 ->
  map Some l = map (S_full f tb) (seqN nr k) ->
  lenN (flat_map fs_data l) = S_total_size tb nr (nr + N.of_nat k - 1).
Proof.
  intros H Hd. induction k as [|k IH]; intros nr l Hnr Hk Hl.
  - destruct l; [|discriminate]. unfold S_total_size. replace (nr + N.of_nat 0 - 1 + 1 - nr) with 0 by lia. reflexivity.
  - destruct l as [|x l']; [discriminate|]. cbn [seqN map] in Hl. injection Hl as Hx Hl'. symmetry in Hx.
    rewrite Nat2N.inj_succ in *.
    destruct (S_full_fields f tb nr x Hx) as [_ [_ [Hs _]]].
    pose proof (S_full_sized f tb nr x H Hd ltac:(lia) Hx) as Hsz. unfold sized_f in Hsz.
    cbn [flat_map]. rewrite lenN_app, <- Hsz.
    rewrite (IH (nr + 1) l' ltac:(lia) ltac:(lia) Hl').
    rewrite (total_size_cons tb nr (nr + N.succ (N.of_nat k) - 1) _ ltac:(lia) ltac:(lia) Hs).
    replace (nr + 1 + N.of_nat k - 1) with (nr + N.succ (N.of_nat k) - 1) by lia. reflexivity.
Qed.

Lemma seg_track_total opt f tb T pos0 : C09Spec.consistent tb = true -> data_ok f tb = true ->
  pos0 < 4611686018427387904 ->
  forall ivs,
  (forall iv x, In iv ivs -> In x (C11Model.range iv) -> 1 <= x <= nsamples tb) ->
  Forall (fun iv => fst iv <= snd iv + 1) ivs ->
  forallb (seg_small tb) ivs = true ->
  exists fes, seg_track opt f tb T ivs = Ok fes /\ Forall (fun fe => seg_guard pos0 fe = true) fes.
Proof.
  intros H Hd Hpos. induction ivs as [|[a b] ivs IH]; intros Hin Hord Hsm.
  - exists []. split; [reflexivity|constructor].
  - cbn [forallb] in Hsm. apply andb_prop in Hsm. destruct Hsm as [Hsm1 Hsm2].
    pose proof (Forall_inv Hord) as Ho1. pose proof (Forall_inv_tail Hord) as Ho2. cbn [fst snd] in Ho1.
    destruct (IH (fun iv x Hi => Hin iv x (or_intror Hi)) Ho2 Hsm2) as [fes [Hs Hg]].
    cbn [seg_track]. unfold fetch_or_skip, fetch_interval. cbn [fst snd].
    destruct (b + 1 <? a) eqn:E1; [lia|].
    destruct (N.eq_dec a (b + 1)) as [Eab|Nab].
    + replace (N.to_nat (b + 1 - a)) with O by lia. cbn [fetch_loop rbind]. exists fes. split; assumption.
    + assert (Ha : 1 <= a <= nsamples tb).
      { apply (Hin (a, b)); [left; reflexivity|]. rewrite range_seqN. apply in_seqN. lia. }
      assert (Hb : 1 <= b <= nsamples tb).
      { apply (Hin (a, b)); [left; reflexivity|]. rewrite range_seqN. apply in_seqN. lia. }
      destruct (fetch_loop_ok f tb H Hd (N.to_nat (b + 1 - a)) a ltac:(lia) ltac:(lia)) as [l [Hl Hm]].
      rewrite Hl. cbn [rbind].
      pose proof (map_Some_length _ _ Hm) as Hlen. rewrite map_length, seqN_length in Hlen.
      pose proof (fulls_data_len f tb H Hd (N.to_nat (b + 1 - a)) a l ltac:(lia) ltac:(lia) Hm) as Hdl.
      replace (a + N.of_nat (N.to_nat (b + 1 - a)) - 1) with b in Hdl by lia.
      unfold seg_small in Hsm1. cbn [fst snd] in Hsm1. apply N.ltb_lt in Hsm1.
      destruct (write_segment_total opt T l pos0) as [fe [Hw Hgf]].
      * destruct l; [cbn [length] in Hlen; lia|discriminate].
      * unfold lenN at 1. rewrite Hlen, Hdl. lia.
      * exact Hpos.
      * destruct l as [|x l']; [cbn [length] in Hlen; lia|]. rewrite Hw, Hs. cbn [rbind].
        exists (fe :: fes). split; [reflexivity|constructor; assumption].
Qed.

(* ------------------------------------------------------------------ the plan's intervals are ordered: start <= end + 1 *)
Lemma intervals_loop_ordered syncTs trk N : forall sps start nextStart ivs tlo,
  let s := if nextStart =? 0 then start else nextStart in
  sps <> [] ->
  1 <= s -> s <= N + 1 -> N < 4294967296 ->
  stts_total (C11Model.t_stts trk) <= N ->
  chain tlo (map sp_dts (tl sps)) ->
  (forall t n, tlo <= t -> get_sample_nr_at_time (C11Model.t_stts trk) (t * t_timescale trk / syncTs) = Ok n -> s <= n) ->
  intervals_loop syncTs trk N sps start nextStart = Ok ivs ->
  Forall (fun iv => fst iv <= snd iv + 1) ivs.
Proof.
  induction sps as [|sp rest IH]; intros start nextStart ivs tlo s Hne Hs1 HsN HN Htot Hch Hlook H;
    [congruence|].
  cbn [intervals_loop] in H. fold s in H.
  destruct rest as [|sp2 rest'].
  - inversion H; subst. constructor; [cbn [fst snd]; lia|constructor].
  - destruct (syncTs =? 0) eqn:Ets; [discriminate|].
    apply rbind_ok in H. destruct H as (n & Hn & H).
    apply rbind_ok in H. destruct H as (r & Hr & H). inversion H; subst. clear H.
    cbn [tl map chain] in Hch. destruct Hch as [Hc1 Hc2].
    pose proof (snat_ge1 _ _ _ Hn) as Hn1.
    pose proof (snat_upper _ _ _ Hn) as HnU.
    assert (Hsn : s <= n) by (eapply Hlook; [exact Hc1 | exact Hn]).
    assert (Hu : u32 (n + 4294967295) = n - 1) by (unfold u32; lia).
    specialize (IH s n r (sp_dts sp2)).
    assert (En : (n =? 0) = false) by lia. rewrite En in IH.
    constructor; [cbn [fst snd]; rewrite Hu; lia|].
    apply IH; try assumption; try lia; try discriminate.
    intros t m Ht Hm. eapply snat_mono; [ | exact Hn | exact Hm].
    apply N.div_le_mono; [lia|]. apply N.mul_le_mono_r. exact Ht.
Qed.

Lemma intervals_ordered syncTs sps trk ivs :
  sps <> [] -> chain 0 (map sp_dts sps) ->
  stts_total (C11Model.t_stts trk) <= t_nsamples trk -> t_nsamples trk < 4294967296 ->
  get_segment_intervals syncTs sps trk = Ok ivs -> Forall (fun iv => fst iv <= snd iv + 1) ivs.
Proof.
  intros Hne Hch Htot HN H. unfold get_segment_intervals in H.
  apply (intervals_loop_ordered syncTs trk (t_nsamples trk) sps 1 0 ivs
           (match sps with [] => 0 | sp :: _ => sp_dts sp end)); try assumption; cbn [N.eqb]; try lia.
  - destruct sps as [|sp [|sp2 r]]; cbn [tl map chain] in *; intuition.
  - intros t n _ Hn. eapply snat_ge1; exact Hn.
Qed.

Lemma all_intervals_ordered syncTs sps : forall ts ivss,
  sps <> [] -> chain 0 (map sp_dts sps) ->
  (forall t, In t ts -> stts_total (C11Model.t_stts t) <= t_nsamples t /\ t_nsamples t < 4294967296) ->
  all_intervals get_segment_intervals syncTs sps ts = Ok ivss ->
  Forall (Forall (fun iv => fst iv <= snd iv + 1)) ivss.
Proof.
  induction ts as [|t r IH]; intros ivss Hne Hch Hwf H; cbn [all_intervals] in H.
  - inversion H; subst. constructor.
  - apply rbind_ok in H. destruct H as (iv & Hiv & H).
    apply rbind_ok in H. destruct H as (rest & Hrest & H). inversion H; subst.
    constructor.
    + destruct (Hwf t (or_introl eq_refl)). eapply intervals_ordered; eassumption.
    + apply IH; try assumption. intros t' Ht'. apply Hwf. right. exact Ht'.
Qed.

Lemma plan_ordered ts d ivss :
  wf_tracks ts = true -> small_tracks ts = true ->
  segment_plan ts d = Ok ivss -> Forall (Forall (fun iv => fst iv <= snd iv + 1)) ivss.
Proof.
  intros Hwf Hsm H. unfold segment_plan, segment_plan_with in H.
  apply rbind_ok in H. destruct H as ([syncTs sps] & Hs & H).
  apply rbind_ok in H. destruct H as (ivs & Hiv & H).
  destruct sps as [|sp sps']; [discriminate|]. inversion H; subst.
  apply (all_intervals_ordered syncTs (sp :: sps') ts ivss);
    [discriminate | eapply starts_sorted; eassumption | | exact Hiv].
  intros t Ht. unfold wf_tracks, small_tracks in *. rewrite forallb_forall in Hwf, Hsm.
  specialize (Hwf _ Ht). specialize (Hsm _ Ht). unfold wf_track in Hwf.
  apply andb_true_iff in Hwf. lia.
Qed.

(* ------------------------------------------------------------------ the in-memory writer, total form *)
Lemma Forall2_Forall_r {A B} (P : A -> B -> Prop) (Q : B -> Prop) : forall l l2,
  Forall2 P l l2 -> Forall Q l2 -> Forall2 (fun x y => P x y /\ Q y) l l2.
Proof.
  induction 1 as [|x y l l2 Hp _ IH]; intros Hq; [constructor|].
  inversion Hq; subst. constructor; [split; assumption|apply IH; assumption].
Qed.

Lemma plan_total (f : pfile) (trs : list itrack) d ivss :
  Forall (fun t => C09Spec.consistent (snd t) = true /\ data_ok f (snd t) = true) trs ->
  segment_plan (map itrack_of trs) d = Ok ivss ->
  Forall2 (fun t ivs => forall opt T pos0 (tx : C05Model.trex),
             tx_track tx = T -> pos0 < 4611686018427387904 -> forallb (seg_small (snd t)) ivs = true ->
             exists fes outs, seg_track opt f (snd t) T ivs = Ok fes /\
                              read_all (read_back tx pos0 []) fes = Ok outs /\
                              map Some (concat outs) = expansion f (snd t) /\
                              Forall (fun o => o <> []) outs) trs ivss.
Proof.
  intros Hall Hp.
  assert (Hwf : wf_tracks (map itrack_of trs) = true /\ small_tracks (map itrack_of trs) = true).
  { unfold wf_tracks, small_tracks. rewrite !forallb_forall. split; intros x Hx; apply in_map_iff in Hx;
      destruct Hx as [t [<- Ht]]; rewrite Forall_forall in Hall; destruct (Hall t Ht) as [Hc _];
      destruct (itrack_wf t Hc) as [H1 [H2 _]]; assumption. }
  destruct Hwf as [Hwf Hsm].
  pose proof (plan_tile (map itrack_of trs) d ivss Hwf Hsm Hp) as Ht.
  pose proof (plan_ordered (map itrack_of trs) d ivss Hwf Hsm Hp) as Ho.
  apply Forall2_map_l in Ht. pose proof (Forall2_Forall_r _ _ _ _ Ht Ho) as Hto.
  eapply Forall2_impl_in; [|exact Hto].
  intros t ivs Hin [Htile Hord] opt T pos0 tx Htx Hpos Hsmall. cbv beta in Htile.
  rewrite Forall_forall in Hall. destruct (Hall t Hin) as [Hc Hd].
  destruct (itrack_wf t Hc) as [_ [_ Hn]]. rewrite Hn in Htile.
  assert (Hrange : forall iv x, In iv ivs -> In x (C11Model.range iv) -> 1 <= x <= nsamples (snd t)).
  { intros iv x Hiv Hx.
    assert (Hi : In x (concat (map C11Model.range ivs))).
    { apply in_concat. exists (C11Model.range iv). split; [apply in_map; exact Hiv|exact Hx]. }
    rewrite Htile, seqN1_seqN in Hi. apply in_seqN in Hi. lia. }
  destruct (seg_track_total opt f (snd t) T pos0 Hc Hd Hpos ivs Hrange Hord Hsmall) as [fes [Hs Hg]].
  destruct (seg_track_end_to_end opt f (snd t) T pos0 tx ivs fes Hc Hd Htx Htile Hs Hg) as [outs [Hr [He Hne]]].
  exists fes, outs. repeat split; assumption.
Qed.

(* ------------------------------------------------------------------ Resegment / Fragmentify, total form *)
From V.c11 Require Import C11FragProofs C11ResegProofs.

Definition bytes_of (ss : list C11Model.fsample) : N := sumN (map (fun s => lenN (C11Model.fs_data s)) ss).

Lemma bytes_of_app a b : bytes_of (a ++ b) = bytes_of a + bytes_of b.
Proof. unfold bytes_of. rewrite map_app, sumN_app. reflexivity. Qed.

Lemma to_full_data_len l : lenN (flat_map fs_data (map to_full l)) = bytes_of l.
Proof.
  unfold bytes_of. induction l as [|s l IH]; [reflexivity|]. cbn [map flat_map sumN]. rewrite lenN_app, IH. reflexivity.
Qed.

Lemma write_pieces_total opt T pos0 : pos0 < 4611686018427387904 ->
  forall segs, 16 * lenN (concat segs) + bytes_of (concat segs) + 200 < 2147483648 ->
  exists fes, Forall2 (fun seg fe => write_segment opt T (map to_full seg) = Ok fe) (nonempty_pieces segs) fes /\
              Forall (fun fe => seg_guard pos0 fe = true) fes.
Proof.
  intros Hpos. induction segs as [|seg r IH]; intros Hb.
  - exists []. split; constructor.
  - cbn [concat] in Hb. rewrite lenN_app, bytes_of_app in Hb. destruct (IH ltac:(lia)) as [fes [Hw Hg]].
    destruct seg as [|s seg']; [exists fes; split; assumption|].
    destruct (write_segment_total opt T (map to_full (s :: seg')) pos0) as [fe [Hwe Hge]].
    + discriminate.
    + rewrite to_full_data_len. unfold lenN in *. rewrite map_length. lia.
    + exact Hpos.
    + exists (fe :: fes). cbn [nonempty_pieces filter]. split; constructor; assumption.
Qed.

Lemma resegment_total d ss segs opt T pos0 (tx : C05Model.trex) :
  contiguous_list ss = true -> times_fit ss -> 16 * lenN ss + bytes_of ss + 200 < 2147483648 ->
  tx_track tx = T -> pos0 < 4611686018427387904 ->
  resegment d ss = Ok segs ->
  exists fes outs,
    Forall2 (fun seg fe => write_segment opt T (map to_full seg) = Ok fe) (nonempty_pieces segs) fes /\
    read_all (read_back tx pos0 []) fes = Ok outs /\ concat outs = map to_full ss.
Proof.
  intros Hc Hf Hb Htx Hpos Hr. destruct (resegment_conserves d ss segs Hr) as [Hcat _].
  destruct (write_pieces_total opt T pos0 Hpos segs ltac:(rewrite Hcat; exact Hb)) as [fes [Hw Hg]].
  destruct (resegment_end_to_end d ss segs opt T pos0 tx fes Hc Hf ltac:(lia) Htx Hr Hw Hg) as [outs [Hro Hco]].
  exists fes, outs. repeat split; assumption.
Qed.

Lemma fragmentify_total dur frags opt T pos0 (tx : C05Model.trex) :
  contiguous_list (concat frags) = true -> times_fit (concat frags) ->
  16 * lenN (concat frags) + bytes_of (concat frags) + 200 < 2147483648 ->
  tx_track tx = T -> pos0 < 4611686018427387904 ->
  exists pieces fes outs, fragmentify dur frags = Ok pieces /\
    Forall2 (fun p fe => write_segment opt T (map to_full p) = Ok fe) pieces fes /\
    read_all (read_back tx pos0 []) fes = Ok outs /\ concat outs = map to_full (concat frags).
Proof.
  intros Hc Hf Hb Htx Hpos.
  destruct (fragmentify_end_to_end dur frags opt T pos0 tx Hc Hf ltac:(lia) Htx) as (pieces & E & Hne & Hall).
  destruct (fragmentify_conserves dur frags) as (pieces' & E' & Hcat & _). rewrite E in E'. injection E' as <-.
  destruct (write_pieces_total opt T pos0 Hpos pieces ltac:(rewrite Hcat; exact Hb)) as [fes [Hw Hg]].
  rewrite (nonempty_pieces_id pieces Hne) in Hw.
  destruct (Hall fes Hw Hg) as [outs [Hro Hco]].
  exists pieces, fes, outs. repeat split; assumption.
Qed.

(* ------------------------------------------------------------------ the -lazy writer, total form *)
From V.c11 Require Import C11LazyProofs.

Lemma step_meta_built T dt l lz (s : sample) base : td_version dt <= 1 ->
  exists dt', step (one_m (create_tfhd T) dt (canon 0 l) (mkMdat [] [] lz false)) (OMetaTo T s base)
              = Ok (one_m (create_tfhd T) dt' (canon 0 (l ++ [s])) (mkMdat [] [] (u64 (lz + s_size s)) false)) /\
              td_version dt' <= 1.
Proof.
  intros Hv. unfold one_m. cbn [step]. unfold add_sample_to_track. cbn [fr_trafs fr_next add_to_track_trafs tf_hd].
  cbn [create_tfhd tf_track]. rewrite N.eqb_refl.
  unfold add_to_traf. cbn [tf_truns last removelast tr_won canon tf_hd tf_extra app tf_dt].
  change (u32 (1 + 4294967295)) with 0. cbn [N.eqb negb rbind fr_with fr_mdat fr_trafs fr_next fr_pre fr_moofx fr_post].
  unfold md_add_lazy. cbn [md_data md_parts md_lazy md_large].
  eexists. split; [reflexivity|]. destruct (u32 (lenN (tr_samples (canon 0 l))) =? 0); [apply set_base_version|exact Hv].
Qed.

Lemma add_metas_built T base : forall (metas : list sample) dt l lz, td_version dt <= 1 ->
  exists dt' lz', add_metas (one_m (create_tfhd T) dt (canon 0 l) (mkMdat [] [] lz false)) T base metas
                  = Ok (one_m (create_tfhd T) dt' (canon 0 (l ++ metas)) (mkMdat [] [] lz' false)) /\
                  td_version dt' <= 1 /\ lz' <= lz + sizes_sum metas.
Proof.
  induction metas as [|s metas IH]; intros dt l lz Hv; cbn [add_metas].
  - exists dt, lz. rewrite app_nil_r. repeat split; [exact Hv|unfold sizes_sum; cbn; lia].
  - destruct (step_meta_built T dt l lz s base Hv) as [dt1 [Hs Hv1]]. rewrite Hs. cbn [rbind].
    destruct (IH dt1 (l ++ [s]) (u64 (lz + s_size s)) Hv1) as [dt' [lz' [Ha [Hv' Hl]]]]. rewrite Ha.
    exists dt', lz'. rewrite <- app_assoc. split; [reflexivity|]. split; [exact Hv'|].
    assert (u64 (lz + s_size s) <= lz + s_size s) by (unfold u64; apply N.mod_le; discriminate).
    unfold sizes_sum in *. cbn [map sumN]. lia.
Qed.

Lemma sizes_sum_fulls (FL : list fullsample) : Forall sized_f FL -> sizes_sum (map fs_s FL) = lenN (flat_map fs_data FL).
Proof.
  unfold sizes_sum. induction 1 as [|x l Hx _ IH]; [reflexivity|]. cbn [map sumN flat_map]. rewrite lenN_app, IH.
  unfold sized_f in Hx. lia.
Qed.

Lemma write_lazy_total opt T base (FL : list fullsample) pos0 :
  FL <> [] -> Forall sized_f FL ->
  16 * lenN FL + lenN (flat_map fs_data FL) + 200 < 2147483648 -> pos0 < 4611686018427387904 ->
  exists fr fe, add_metas (create_fragment T) T base (map fs_s FL) = Ok fr /\ encode_frag opt fr = Ok fe /\
                lazy_guard pos0 (fe, flat_map fs_data FL) = true.
Proof.
  intros Hne Hsz Hsmall Hpos.
  change (create_fragment T) with (one_m (create_tfhd T) (mkTfdt 0 0) (canon 0 []) (mkMdat [] [] 0 false)).
  destruct (add_metas_built T base (map fs_s FL) (mkTfdt 0 0) [] 0 ltac:(cbn; lia)) as [dt' [lz' [Ha [Hv Hl]]]].
  rewrite (sizes_sum_fulls FL Hsz) in Hl. cbn [app] in Ha.
  destruct (encode_one_m opt (create_tfhd T) dt' (canon 0 (map fs_s FL)) (mkMdat [] [] lz' false)) as [fe [He (Hm & Hp & Hs)]].
  - exact Hv.
  - cbn [canon tr_samples]. destruct FL; [congruence|discriminate].
  - reflexivity.
  - reflexivity.
  - cbn [canon tr_samples]. unfold lenN at 1. rewrite map_length. fold (lenN FL).
    assert (md_payload (mkMdat [] [] lz' false) <= lz').
    { unfold md_payload, md_data_length. cbn [md_lazy md_parts md_data]. destruct (0 <? lz'); cbn; lia. }
    lia.
  - eexists. exists fe. split; [exact Ha|]. split; [exact He|].
    unfold lazy_guard. cbn [fst snd]. rewrite Hm, Hp. cbn [md_header_size md_large].
    cbn [canon tr_samples] in Hs. unfold lenN in Hs at 1. rewrite map_length in Hs. fold (lenN FL) in Hs.
    apply andb_true_intro. split; apply N.ltb_lt; lia.
Qed.

Lemma seg_track_lazy_total opt f tb T pos0 : C09Spec.consistent tb = true -> data_ok f tb = true ->
  one_offset_box tb = true -> pos0 < 4611686018427387904 ->
  forall ivs,
  (forall iv x, In iv ivs -> In x (C11Model.range iv) -> 1 <= x <= nsamples tb) ->
  Forall (fun iv => fst iv <= snd iv + 1) ivs ->
  forallb (seg_small tb) ivs = true ->
  exists outs, seg_track_lazy opt f tb T ivs = Ok outs /\ Forall (fun p => lazy_guard pos0 p = true) outs.
Proof.
  intros H Hd Hone Hpos. induction ivs as [|[a b] ivs IH]; intros Hin Hord Hsm.
  - exists []. split; [reflexivity|constructor].
  - cbn [forallb] in Hsm. apply andb_prop in Hsm. destruct Hsm as [Hsm1 Hsm2].
    pose proof (Forall_inv Hord) as Ho1. pose proof (Forall_inv_tail Hord) as Ho2. cbn [fst snd] in Ho1.
    destruct (IH (fun iv x Hi => Hin iv x (or_intror Hi)) Ho2 Hsm2) as [outs [Hs Hg]].
    cbn [seg_track_lazy]. unfold write_lazy_segment, fetch_meta_interval. cbn [fst snd].
    destruct (b + 1 <? a) eqn:E1; [lia|].
    destruct (N.eq_dec a (b + 1)) as [Eab|Nab].
    + replace (N.to_nat (b + 1 - a)) with O by lia. cbn [fetch_meta_loop rbind]. rewrite Hs. cbn [rbind].
      exists outs. split; [reflexivity|exact Hg].
    + assert (Ha : 1 <= a <= nsamples tb).
      { apply (Hin (a, b)); [left; reflexivity|]. rewrite range_seqN. apply in_seqN. lia. }
      assert (Hb : 1 <= b <= nsamples tb).
      { apply (Hin (a, b)); [left; reflexivity|]. rewrite range_seqN. apply in_seqN. lia. }
      set (k := N.to_nat (b + 1 - a)) in *.
      destruct (fetch_meta_loop_ok tb H k a ltac:(lia) ltac:(subst k; lia)) as [metas [Hml Hmm]].
      destruct (fetch_loop_ok f tb H Hd k a ltac:(lia) ltac:(subst k; lia)) as [l [_ Hm]].
      rewrite <- (fulls_metas f tb k a l Hm) in Hmm. apply map_Some_inj in Hmm. subst metas.
      rewrite Hml. cbn [rbind].
      pose proof (map_Some_length _ _ Hm) as Hlen. rewrite map_length, seqN_length in Hlen.
      pose proof (fulls_data_len f tb H Hd k a l ltac:(lia) ltac:(subst k; lia) Hm) as Hdl.
      replace (a + N.of_nat k - 1) with b in Hdl by (subst k; lia).
      unfold seg_small in Hsm1. cbn [fst snd] in Hsm1. apply N.ltb_lt in Hsm1.
      destruct (decode_time_correct tb H a Ha) as [t [d [_ [_ Hq]]]].
      destruct (write_lazy_total opt T t l pos0) as [fr [fe [Hadd [Henc Hgl]]]].
      * destruct l; [cbn [length] in Hlen; subst k; lia|discriminate].
      * apply (expansion_sized f tb H Hd k a); [lia|subst k; lia|exact Hm].
      * unfold lenN at 1. rewrite Hlen, Hdl. subst k. lia.
      * exact Hpos.
      * destruct l as [|x l']; [cbn [length] in Hlen; subst k; lia|].
        cbn [map]. cbv iota. change (fs_s x :: map fs_s l') with (map fs_s (x :: l')).
        rewrite Hq. cbn [rbind fst]. rewrite Hadd. cbn [rbind]. rewrite Henc. cbn [rbind].
        rewrite (copy_media_data_ok f tb H Hd Hone a b ltac:(lia) ltac:(lia) ltac:(lia)). cbn [rbind].
        rewrite Hs. cbn [rbind].
        assert (Hdata : S_data f tb a b = flat_map fs_data (x :: l')).
        { unfold S_data. fold k. symmetry. apply (S_data_fulls f tb k a _ Hm). }
        rewrite Hdata. eexists. split; [reflexivity|constructor; assumption].
Qed.

Lemma plan_lazy_total (f : pfile) (trs : list itrack) d ivss :
  Forall (fun t => C09Spec.consistent (snd t) = true /\ data_ok f (snd t) = true /\ one_offset_box (snd t) = true) trs ->
  segment_plan (map itrack_of trs) d = Ok ivss ->
  Forall2 (fun t ivs => forall opt T pos0 (tx : C05Model.trex),
             tx_track tx = T -> pos0 < 4611686018427387904 -> forallb (seg_small (snd t)) ivs = true ->
             exists outs res, seg_track_lazy opt f (snd t) T ivs = Ok outs /\
                              read_all (fun p => read_back tx pos0 (snd p) (fst p)) outs = Ok res /\
                              map Some (concat res) = expansion f (snd t) /\
                              Forall (fun o => o <> []) res) trs ivss.
Proof.
  intros Hall Hp.
  assert (Hwf : wf_tracks (map itrack_of trs) = true /\ small_tracks (map itrack_of trs) = true).
  { unfold wf_tracks, small_tracks. rewrite !forallb_forall. split; intros x Hx; apply in_map_iff in Hx;
      destruct Hx as [t [<- Ht]]; rewrite Forall_forall in Hall; destruct (Hall t Ht) as [Hc _];
      destruct (itrack_wf t Hc) as [H1 [H2 _]]; assumption. }
  destruct Hwf as [Hwf Hsm].
  pose proof (plan_tile (map itrack_of trs) d ivss Hwf Hsm Hp) as Ht.
  pose proof (plan_ordered (map itrack_of trs) d ivss Hwf Hsm Hp) as Ho.
  apply Forall2_map_l in Ht. pose proof (Forall2_Forall_r _ _ _ _ Ht Ho) as Hto.
  eapply Forall2_impl_in; [|exact Hto].
  intros t ivs Hin [Htile Hord] opt T pos0 tx Htx Hpos Hsmall. cbv beta in Htile.
  rewrite Forall_forall in Hall. destruct (Hall t Hin) as [Hc [Hd Hone]].
  destruct (itrack_wf t Hc) as [_ [_ Hn]]. rewrite Hn in Htile.
  assert (Hrange : forall iv x, In iv ivs -> In x (C11Model.range iv) -> 1 <= x <= nsamples (snd t)).
  { intros iv x Hiv Hx.
    assert (Hi : In x (concat (map C11Model.range ivs))).
    { apply in_concat. exists (C11Model.range iv). split; [apply in_map; exact Hiv|exact Hx]. }
    rewrite Htile, seqN1_seqN in Hi. apply in_seqN in Hi. lia. }
  destruct (seg_track_lazy_total opt f (snd t) T pos0 Hc Hd Hone Hpos ivs Hrange Hord Hsmall) as [outs [Hs Hg]].
  destruct (seg_track_lazy_end_to_end opt f (snd t) T pos0 tx ivs outs Hc Hd Hone Htx Htile Hs Hg) as [res [Hr [He Hne]]].
  exists outs, res. repeat split; assumption.
Qed.

(* ------------------------------------------------------------------ an EMPTY fragment (no trun optimisation) *)
(* Resegment's first piece is empty when the first sample already lies beyond the first boundary: the fragment is
   CreateFragment's, Encode without optimisation succeeds (with it, OptimizeTfhdTrun returns "no samples in trun"),
   and every reader gets no samples from it *)
Lemma frag_full_samples_nil h tx r base d : tr_samples r = [] ->
  frag_full_samples h tx [r] base d =
  (let bo0 := if tf_has_bdo h then tf_bdo h else df_moof_start d in
   let bo := if has_doff r then to_u64 (tr_doff r + Z.of_N bo0) else bo0 in
   let off := if 0 <? bo then u64 (bo + 18446744073709551616 - df_payload_abs d) else 0 in
   if (0 <? bo) && (lenN (df_data d) <? off) then Err else Ok []).
Proof.
  intros Hs. cbn [frag_full_samples]. unfold resolve. rewrite Hs. cbn [map_first]. cbv zeta.
  destruct ((0 <? (if has_doff r then to_u64 (tr_doff r + Z.of_N (if tf_has_bdo h then tf_bdo h else df_moof_start d))
                   else if tf_has_bdo h then tf_bdo h else df_moof_start d)) && _); reflexivity.
Qed.

Lemma write_segment_empty T pos0 : pos0 < 4611686018427387904 ->
  exists fe, write_segment false T [] = Ok fe /\ forall tx : C05Model.trex, read_back tx pos0 [] fe = Ok [].
Proof.
  intros Hpos. unfold write_segment. cbn [add_fulls rbind]. rewrite built_create. unfold built.
  change (mkFrag [mkTraf (create_tfhd T) (mkTfdt 0 0) [canon 0 []] 0] (mkMdat [] [] 0 false) 1 0 0 0)
    with (one_m (create_tfhd T) (mkTfdt 0 0) (canon 0 []) (mkMdat [] [] 0 false)).
  unfold encode_frag. cbn [rbind]. rewrite (set_offsets_one (create_tfhd T) (mkTfdt 0 0) (canon 0 []) (mkMdat [] [] 0 false) eq_refl ltac:(cbn; lia)).
  change (moof_size (one_m (create_tfhd T) (mkTfdt 0 0) (canon 0 []) (mkMdat [] [] 0 false)) + 8) with 92.
  change (i32 92) with 92%Z.
  cbn [one_m fr_trafs tf_truns existsb all_truns flat_map fr_mdat fr_next].
  unfold doff_unset, has_doff. cbn [tr_with_doff canon tr_flags tr_doff].
  change (N.testbit 3841 B_DOFF) with true. cbn [andb orb Z.eqb].
  rewrite (touch_id (mkMdat [] [] 0 false) eq_refl ltac:(cbn; lia)).
  eexists. split; [reflexivity|]. intros tx.
  unfold read_back, get_full_samples, decoded_view, fr_with.
  cbn [fr_trafs fr_mdat fr_pre fr_moofx fr_post map tf_hd tf_dt tf_truns tf_extra df_trafs find create_tfhd tf_track].
  destruct (T =? tx_track tx); [|reflexivity]. cbn [rbind].
  cbn [tf_hd tf_truns tf_dt td_base one_m fr_pre fr_moofx fr_post].
  rewrite frag_full_samples_nil by reflexivity. cbv zeta.
  cbn [df_moof_start df_payload_abs df_data md_lazy md_written md_parts md_data md_header_size md_large].
  change (has_doff (wire_trun (tr_with_doff (canon 0 []) 92))) with true.
  change (tr_doff (wire_trun (tr_with_doff (canon 0 []) 92))) with 92%Z.
  change (tf_has_bdo (create_tfhd T)) with false. cbv iota.
  change (moof_size (mkFrag [mkTraf (create_tfhd T) (mkTfdt 0 0) [tr_with_doff (canon 0 []) 92] 0]
                            (mkMdat [] [] 0 false) 1 0 0 0)) with 84.
  assert (Hbo : to_u64 (92 + Z.of_N (pos0 + 0)) = pos0 + 92).
  { unfold to_u64. rewrite Z.mod_small by lia. lia. }
  rewrite Hbo.
  assert (Hoff : u64 (pos0 + 92 + 18446744073709551616 - (pos0 + 0 + 84 + 8)) = 0).
  { replace (pos0 + 92 + 18446744073709551616 - (pos0 + 0 + 84 + 8)) with 18446744073709551616 by lia. reflexivity. }
  rewrite Hoff. destruct (0 <? pos0 + 92); cbn; reflexivity.
Qed.


Lemma insert_empties T pos0 (tx : C05Model.trex) : pos0 < 4611686018427387904 ->
  forall (segs : list (list C11Model.fsample)) fes' outs',
  Forall2 (fun seg fe => write_segment false T (map to_full seg) = Ok fe) (nonempty_pieces segs) fes' ->
  read_all (read_back tx pos0 []) fes' = Ok outs' ->
  exists fes outs, Forall2 (fun seg fe => write_segment false T (map to_full seg) = Ok fe) segs fes /\
                   read_all (read_back tx pos0 []) fes = Ok outs /\ concat outs = concat outs'.
Proof.
  intros Hpos. induction segs as [|seg r IH]; intros fes' outs' Hw Hr.
  - cbn in Hw. inversion Hw; subst. cbn in Hr. injection Hr as <-. exists [], []. repeat split. constructor.
  - destruct seg as [|s seg'].
    + cbn [nonempty_pieces filter] in Hw. destruct (IH fes' outs' Hw Hr) as [fes [outs [H1 [H2 H3]]]].
      destruct (write_segment_empty T pos0 Hpos) as [fe0 [Hw0 Hr0]].
      exists (fe0 :: fes), ([] :: outs). split; [constructor; [exact Hw0|exact H1]|]. split.
      * cbn [read_all]. rewrite (Hr0 tx). cbn [rbind]. rewrite H2. reflexivity.
      * exact H3.
    + cbn [nonempty_pieces filter] in Hw. inversion Hw as [|? fe ? fes1 Hw1 Hw2]; subst.
      cbn [read_all] in Hr. destruct (read_back tx pos0 [] fe) as [o| | |] eqn:Eo; cbn [rbind] in Hr; try discriminate.
      destruct (read_all (read_back tx pos0 []) fes1) as [rest| | |] eqn:Er; cbn [rbind] in Hr; try discriminate.
      injection Hr as <-. destruct (IH fes1 rest Hw2 Er) as [fes [outs [H1 [H2 H3]]]].
      exists (fe :: fes), (o :: outs). split; [constructor; assumption|]. split.
      * cbn [read_all]. rewrite Eo. cbn [rbind]. rewrite H2. reflexivity.
      * cbn [concat]. rewrite H3. reflexivity.
Qed.

(* Resegment as the tool runs it (no trun optimisation): EVERY output segment, the possibly empty first one
   included, is written without error, and the decoded segments concatenate to the input *)
Lemma resegment_total_all d ss segs T pos0 (tx : C05Model.trex) :
  contiguous_list ss = true -> times_fit ss -> 16 * lenN ss + bytes_of ss + 200 < 2147483648 ->
  tx_track tx = T -> pos0 < 4611686018427387904 ->
  resegment d ss = Ok segs ->
  exists fes outs,
    Forall2 (fun seg fe => write_segment false T (map to_full seg) = Ok fe) segs fes /\
    read_all (read_back tx pos0 []) fes = Ok outs /\ concat outs = map to_full ss.
Proof.
  intros Hc Hf Hb Htx Hpos Hr.
  destruct (resegment_total d ss segs false T pos0 tx Hc Hf Hb Htx Hpos Hr) as [fes' [outs' [Hw [Hro Hco]]]].
  destruct (insert_empties T pos0 tx Hpos segs fes' outs' Hw Hro) as [fes [outs [H1 [H2 H3]]]].
  exists fes, outs. split; [exact H1|]. split; [exact H2|]. rewrite H3. exact Hco.
Qed.
