(* C11LazyProofs.v — makeSingleTrackSegmentsLazyWrite end to end: metadata-only samples (GetSamplesForInterval)
   added with AddSampleToTrack, Fragment.Encode (mdat header only), copyMediaData writing the bytes after it;
   decode + GetFullSamples give back the expansion (C05_roundtrip_single_modes, metadata-only mode). *)
From V.lib Require Import Base.
From V.c11 Require Import C11Model C11SegProofs.
From V.c09 Require Import C09Model C09Spec C09BaseProofs C09SttsProofs.
From V.c05 Require Import C05Model C05FragModel C05HistProofs C05GhostProofs C05ReadProofs C05RoundProofs
  C05SingleProofs C05Theorems.
From V.c11 Require Import C11FetchModel C11Spec C11FetchProofs C11PipeProofs C11CopyProofs.

(* ------------------------------------------------------------------ the fragment a run of AddSampleToTrack builds *)
(* one traf of track T with its single trun (write order 0); the base time is `base` unless nothing was added *)
Definition lazy_inv (T base : N) (fr : frag) : Prop :=
  exists h dt r ex, fr_trafs fr = [mkTraf h dt [r] ex] /\ tf_track h = T /\ tr_won r = 0 /\ fr_next fr = 1 /\
                    (tr_samples r = [] \/ dt = set_base base).
Definition lazy_done (T base : N) (fr : frag) : Prop :=
  exists h r ex, fr_trafs fr = [mkTraf h (set_base base) [r] ex] /\ tf_track h = T /\ tr_won r = 0 /\ fr_next fr = 1.

Lemma lazy_inv_create T base : lazy_inv T base (create_fragment T).
Proof. do 4 eexists. repeat split. left. reflexivity. Qed.

Lemma lazy_done_inv T base fr : lazy_done T base fr -> lazy_inv T base fr.
Proof. intros (h & r & ex & H1 & H2 & H3 & H4). exists h, (set_base base), r, ex. repeat split; auto. Qed.

Lemma step_meta_done T base s fr fr' : lazy_inv T base fr -> step fr (OMetaTo T s base) = Ok fr' -> lazy_done T base fr'.
Proof.
  intros (h & dt & r & ex & Ht & Hh & Hw & Hn & Hd) Hs.
  cbn [step] in Hs. unfold add_sample_to_track in Hs. rewrite Ht, Hn in Hs.
  cbn [add_to_track_trafs tf_hd] in Hs. rewrite Hh, N.eqb_refl in Hs.
  unfold add_to_traf in Hs. cbn [tf_truns tf_dt tf_hd tf_extra last] in Hs. rewrite Hw in Hs.
  change (u32 (1 + 4294967295)) with 0 in Hs. cbn [N.eqb negb removelast app] in Hs.
  injection Hs as <-. cbn [fr_with fr_trafs fr_next].
  destruct (u32 (lenN (tr_samples r)) =? 0) eqn:E.
  - do 3 eexists. repeat split; try reflexivity; assumption.
  - destruct Hd as [Hd|Hd]; [rewrite Hd in E; discriminate|]. rewrite Hd.
    do 3 eexists. repeat split; try reflexivity; assumption.
Qed.

Lemma add_metas_done T base : forall l fr fr', lazy_inv T base fr -> l <> [] ->
  add_metas fr T base l = Ok fr' -> lazy_done T base fr'.
Proof.
  induction l as [|s l IH]; intros fr fr' Hi Hne Ha; [congruence|]. cbn [add_metas] in Ha.
  destruct (step fr (OMetaTo T s base)) as [fr1| | |] eqn:Es; cbn [rbind] in Ha; try discriminate.
  pose proof (step_meta_done T base s fr fr1 Hi Es) as Hd1.
  destruct l as [|s2 l']; [cbn [add_metas] in Ha; injection Ha as <-; exact Hd1|].
  apply (IH fr1 fr' (lazy_done_inv _ _ _ Hd1)); [discriminate|exact Ha].
Qed.

Lemma add_metas_run T base : forall l fr fr', add_metas fr T base l = Ok fr' ->
  run_ops fr (map (fun s => OMetaTo T s base) l) = (repeat COk (length l), Some fr').
Proof.
  induction l as [|s l IH]; intros fr fr' H; cbn [add_metas map run_ops repeat length] in *.
  - injection H as <-. reflexivity.
  - destruct (step fr (OMetaTo T s base)) as [fr1| | |] eqn:E; cbn [rbind] in H; try discriminate.
    rewrite (IH _ _ H). reflexivity.
Qed.

Lemma added1_metas T base l : added1 T (map (fun s => OMetaTo T s base) l) = l.
Proof.
  unfold added1. induction l as [|s l IH]; [reflexivity|].
  cbn [map filter]. unfold hits at 1. cbn [op_track]. rewrite N.eqb_refl. cbn [flat_map op_samples app].
  rewrite IH. reflexivity.
Qed.

(* ------------------------------------------------------------------ one lazily written segment *)
Definition lazy_guard (pos0 : N) (p : frag * list N) : bool :=
  (moof_size (fst p) + md_header_size (fr_mdat (fst p)) + lenN (snd p) <? 2147483648)
  && (pos0 + fr_pre (fst p) <? 4611686018427387904).

Lemma lazy_segment_read_back opt T pos0 (tx : C05Model.trex) (FL : list fullsample) base fr fe :
  FL <> [] -> Forall sized_f FL -> base < 18446744073709551616 ->
  C05ReadProofs.retime base FL = FL ->
  add_metas (create_fragment T) T base (map fs_s FL) = Ok fr ->
  encode_frag opt fr = Ok fe ->
  lazy_guard pos0 (fe, flat_map fs_data FL) = true ->
  read_back tx pos0 (flat_map fs_data FL) fe = Ok (if tx_track tx =? T then FL else []).
Proof.
  intros Hne Hsz Hb Hrt Ha He Hg. unfold lazy_guard in Hg. cbn [fst snd] in Hg.
  apply andb_prop in Hg. destruct Hg as [Hg1 Hg2].
  assert (Hne' : map fs_s FL <> []) by (destruct FL; [congruence|discriminate]).
  pose proof (add_metas_done T base _ _ _ (lazy_inv_create T base) Hne' Ha) as (h & r & ex & Htr & _).
  apply add_metas_run in Ha.
  destruct (C05_roundtrip_single_modes T (map (fun s => OMetaTo T s base) (map fs_s FL)) (repeat COk (length (map fs_s FL))) fr opt fe pos0 tx 0 0 0 []
              FL (flat_map fs_data FL)) as (t & ex' & Htr' & Hread).
  - clear - Hb. induction (map fs_s FL) as [|s l IH]; constructor; [exact Hb|exact IH].
  - exact Ha.
  - right. left. split; [|reflexivity]. clear. induction (map fs_s FL) as [|s l IH]; [reflexivity|exact IH].
  - rewrite added1_metas. reflexivity.
  - exact Hsz.
  - exact Hne.
  - exact He.
  - lia.
  - lia.
  - unfold read_back. rewrite Hread. rewrite Htr in Htr'.
    apply (f_equal (fun l => match l with [x] => td_base (tf_dt x) | _ => 0 end)) in Htr'.
    cbn [tf_dt set_base td_base] in Htr'. subst t.
    rewrite Hrt. reflexivity.
Qed.

(* ------------------------------------------------------------------ all segments of one track *)
Lemma map_Some_inj {A} : forall (l1 l2 : list A), map Some l1 = map Some l2 -> l1 = l2.
Proof.
  induction l1 as [|x l1 IH]; intros [|y l2] H; try discriminate; [reflexivity|].
  cbn [map] in H. injection H as -> H. f_equal. apply IH, H.
Qed.

Lemma fulls_metas f tb : forall k nr l, map Some l = map (S_full f tb) (seqN nr k) ->
  map Some (map fs_s l) = map (fun n => option_map meta_sample (S_meta tb n)) (seqN nr k).
Proof.
  induction k as [|k IH]; intros nr l Hl.
  - destruct l; [reflexivity|discriminate].
  - destruct l as [|x l']; [discriminate|]. cbn [seqN map] in Hl. injection Hl as Hx Hl'.
    cbn [seqN map]. rewrite (IH _ _ Hl'). f_equal. symmetry. apply (S_full_meta f tb nr x). symmetry. exact Hx.
Qed.

Lemma seg_track_lazy_read_back opt f tb T pos0 (tx : C05Model.trex) :
  C09Spec.consistent tb = true -> data_ok f tb = true -> one_offset_box tb = true -> tx_track tx = T ->
  forall ivs outs,
  (forall iv x, In iv ivs -> In x (C11Model.range iv) -> 1 <= x <= nsamples tb) ->
  seg_track_lazy opt f tb T ivs = Ok outs ->
  Forall (fun p => lazy_guard pos0 p = true) outs ->
  exists res, read_all (fun p => read_back tx pos0 (snd p) (fst p)) outs = Ok res /\
              map Some (concat res) = map (S_full f tb) (concat (map C11Model.range ivs)) /\
              Forall (fun o => o <> []) res.
Proof.
  intros H Hd Hone Htx. destruct (stts_facts tb H) as [_ [_ [HN _]]].
  induction ivs as [|[a b] ivs IH]; intros outs Hin Hs Hg.
  - cbn [seg_track_lazy] in Hs. injection Hs as <-. exists []. repeat split. constructor.
  - cbn [seg_track_lazy] in Hs.
    assert (Hin' : forall iv x, In iv ivs -> In x (C11Model.range iv) -> 1 <= x <= nsamples tb).
    { intros iv x Hi. apply Hin. right. exact Hi. }
    unfold write_lazy_segment, fetch_meta_interval in Hs. cbn [fst snd] in Hs.
    destruct (b + 1 <? a) eqn:E1; [cbn [rbind] in Hs; discriminate|].
    cbn [map concat]. rewrite map_app, range_seqN.
    destruct (N.eq_dec a (b + 1)) as [Eab|Nab].
    + replace (N.to_nat (b + 1 - a)) with O in Hs by lia. cbn [fetch_meta_loop rbind] in Hs.
      replace (N.to_nat (b + 1) - N.to_nat a)%nat with O by lia. cbn [seqN map app].
      destruct (seg_track_lazy opt f tb T ivs) as [r| | |] eqn:Er; cbn [rbind] in Hs; try discriminate.
      injection Hs as <-. apply (IH r Hin' eq_refl Hg).
    + assert (Ha : 1 <= a <= nsamples tb).
      { apply (Hin (a, b)); [left; reflexivity|]. rewrite range_seqN. apply in_seqN. lia. }
      assert (Hb : 1 <= b <= nsamples tb).
      { apply (Hin (a, b)); [left; reflexivity|]. rewrite range_seqN. apply in_seqN. lia. }
      set (k := N.to_nat (b + 1 - a)) in *.
      replace (N.to_nat (b + 1) - N.to_nat a)%nat with k by (subst k; lia).
      destruct (fetch_meta_loop_ok tb H k a ltac:(lia) ltac:(subst k; lia)) as [metas [Hml Hmm]].
      destruct (fetch_loop_ok f tb H Hd k a ltac:(lia) ltac:(subst k; lia)) as [l [_ Hm]].
      rewrite <- (fulls_metas f tb k a l Hm) in Hmm. apply map_Some_inj in Hmm. subst metas.
      rewrite Hml in Hs. cbn [rbind] in Hs.
      pose proof (map_Some_length _ _ Hm) as Hlen. rewrite map_length, seqN_length in Hlen.
      destruct l as [|x l']; [cbn [length] in Hlen; subst k; lia|].
      cbn [map] in Hs. cbv iota in Hs.
      change (fs_s x :: map fs_s l') with (map fs_s (x :: l')) in Hs.
      remember (x :: l') as FL eqn:EFL.
      destruct (decode_time_correct tb H a Ha) as [t [d [Ht [_ Hq]]]]. rewrite Hq in Hs. cbn [rbind fst] in Hs.
      destruct (add_metas (create_fragment T) T t (map fs_s FL)) as [fr| | |] eqn:Eadd; cbn [rbind] in Hs; try discriminate.
      destruct (encode_frag opt fr) as [fe| | |] eqn:Eenc; cbn [rbind] in Hs; try discriminate.
      rewrite (copy_media_data_ok f tb H Hd Hone a b ltac:(lia) ltac:(lia) ltac:(lia)) in Hs. cbn [rbind] in Hs.
      destruct (seg_track_lazy opt f tb T ivs) as [r| | |] eqn:Er; cbn [rbind] in Hs; try discriminate.
      injection Hs as <-.
      pose proof (Forall_inv Hg) as Hg1. pose proof (Forall_inv_tail Hg) as Hg2. cbv beta in Hg1.
      destruct (IH r Hin' eq_refl Hg2) as [res [Hr [Hc Hne]]].
      assert (Hdata : S_data f tb a b = flat_map fs_data FL).
      { unfold S_data. fold k. symmetry. apply (S_data_fulls f tb k a FL Hm). }
      rewrite Hdata in Hg1.
      pose proof (expansion_consistent f tb H k a FL ltac:(lia) Hm) as Hcons.
      assert (Hx : S_full f tb a = Some x).
      { rewrite EFL in Hm. destruct k as [|k']; [discriminate|]. cbn [seqN map] in Hm. injection Hm as Hx _. auto. }
      destruct (S_full_fields f tb a x Hx) as [Hxt _]. rewrite Ht in Hxt. injection Hxt as Hxt.
      unfold C05RoundProofs.consistent in Hcons. rewrite EFL in Hcons. destruct Hcons as [Hb64 Hrt].
      rewrite <- EFL, <- Hxt in Hrt. rewrite <- Hxt in Hb64.
      assert (Hrb : read_back tx pos0 (S_data f tb a b) fe = Ok FL).
      { rewrite Hdata. rewrite (lazy_segment_read_back opt T pos0 tx FL t fr fe); try assumption.
        - rewrite Htx, N.eqb_refl. reflexivity.
        - rewrite EFL. discriminate.
        - apply (expansion_sized f tb H Hd k a); [lia|subst k; lia|exact Hm]. }
      exists (FL :: res). split; [|split].
      * cbn [read_all fst snd]. rewrite Hrb. cbn [rbind]. rewrite Hr. reflexivity.
      * cbn [concat]. rewrite map_app, Hm, Hc. reflexivity.
      * constructor; [rewrite EFL; discriminate|exact Hne].
Qed.

Lemma seg_track_lazy_end_to_end opt f tb T pos0 (tx : C05Model.trex) ivs outs :
  C09Spec.consistent tb = true -> data_ok f tb = true -> one_offset_box tb = true -> tx_track tx = T ->
  concat (map C11Model.range ivs) = seqN1 (nsamples tb) ->
  seg_track_lazy opt f tb T ivs = Ok outs ->
  Forall (fun p => lazy_guard pos0 p = true) outs ->
  exists res, read_all (fun p => read_back tx pos0 (snd p) (fst p)) outs = Ok res /\
              map Some (concat res) = expansion f tb /\ Forall (fun o => o <> []) res.
Proof.
  intros H Hd Hone Htx Htile Hs Hg.
  destruct (seg_track_lazy_read_back opt f tb T pos0 tx H Hd Hone Htx ivs outs) as [res [Hr [Hc Hne]]]; try assumption.
  - intros iv x Hiv Hx.
    assert (Hi : In x (concat (map C11Model.range ivs))).
    { apply in_concat. exists (C11Model.range iv). split; [apply in_map; exact Hiv|exact Hx]. }
    rewrite Htile, seqN1_seqN in Hi. apply in_seqN in Hi. lia.
  - exists res. split; [exact Hr|]. split; [|exact Hne].
    rewrite Hc, Htile, seqN1_seqN. unfold expansion, S_interval.
    replace (nsamples tb + 1 - 1) with (nsamples tb) by lia. reflexivity.
Qed.

Lemma plan_lazy_end_to_end (f : pfile) (trs : list itrack) d ivss :
  Forall (fun t => C09Spec.consistent (snd t) = true /\ data_ok f (snd t) = true /\ one_offset_box (snd t) = true) trs ->
  segment_plan (map itrack_of trs) d = Ok ivss ->
  Forall2 (fun t ivs => forall opt T pos0 (tx : C05Model.trex) outs,
             tx_track tx = T -> seg_track_lazy opt f (snd t) T ivs = Ok outs ->
             Forall (fun p => lazy_guard pos0 p = true) outs ->
             exists res, read_all (fun p => read_back tx pos0 (snd p) (fst p)) outs = Ok res /\
                         map Some (concat res) = expansion f (snd t) /\
                         Forall (fun o => o <> []) res) trs ivss.
Proof.
  intros Hall Hp.
  assert (Hwf : wf_tracks (map itrack_of trs) = true /\ small_tracks (map itrack_of trs) = true).
  { unfold wf_tracks, small_tracks. rewrite !forallb_forall. split; intros x Hx; apply in_map_iff in Hx;
      destruct Hx as [t [<- Ht]]; rewrite Forall_forall in Hall; destruct (Hall t Ht) as [Hc _];
      destruct (itrack_wf t Hc) as [H1 [H2 _]]; assumption. }
  destruct Hwf as [Hwf Hsm].
  pose proof (plan_tile (map itrack_of trs) d ivss Hwf Hsm Hp) as Ht.
  apply Forall2_map_l in Ht.
  eapply Forall2_impl_in; [|exact Ht].
  intros t ivs Hin Htile opt T pos0 tx outs Htx Hs Hg. cbv beta in Htile.
  rewrite Forall_forall in Hall. destruct (Hall t Hin) as [Hc [Hd Ho]].
  destruct (itrack_wf t Hc) as [_ [_ Hn]]. rewrite Hn in Htile.
  apply (seg_track_lazy_end_to_end opt f (snd t) T pos0 tx ivs outs); assumption.
Qed.
