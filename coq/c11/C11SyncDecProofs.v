(* C11SyncDecProofs.v — "every produced segment starts with a sync sample of the reference track" at the DECODED
   level for the segmenter's in-memory writer: the plan-level statement (C11SyncProofs.video_starts_sync: every
   interval of the reference track starts at a sample number listed in stss) is composed with the per-segment form
   of the write / read-back pipeline (C11PipeProofs) and with the flag translation of the expansion
   (C09Spec.S_flags: a sample listed in stss gets sample_is_non_sync = 0, whatever sdtp says). *)
From V.lib Require Import Base.
From V.c11 Require Import C11Model C11SegProofs C11SyncProofs.
From V.c09 Require Import C09Model C09Spec C09BaseProofs C09SttsProofs.
From V.c05 Require Import C05Model C05FragModel C05HistProofs C05GhostProofs C05ReadProofs C05RoundProofs
  C05LazyProofs C05LazyRoundProofs C05Theorems.
From V.c11 Require Import C11FetchModel C11Spec C11FetchProofs C11PipeProofs C11TotalProofs.

(* bit 16 of the 32-bit sample flags is sample_is_non_sync_sample (mp4.SampleFlags.Encode / DecodeSampleFlags) *)
Definition starts_sync (o : list fullsample) : Prop :=
  match o with [] => False | x :: _ => N.testbit (s_flags (fs_s x)) 16 = false end.

(* the intervals that get a file: start <= end ("No more samples" otherwise) *)
Definition written_ivs (ivs : list (N * N)) : list (N * N) := filter (fun iv => fst iv <=? snd iv) ivs.

Lemma flags_encode_sync a b c d : N.testbit (flags_encode a b c d false) 16 = false.
Proof.
  unfold flags_encode. rewrite !N.lor_spec.
  rewrite !N.shiftl_spec_low by lia. reflexivity.
Qed.

Lemma existsb_eqb_in n l : In n l -> existsb (N.eqb n) l = true.
Proof. intros H. apply existsb_exists. exists n. split; [exact H|apply N.eqb_refl]. Qed.

Lemma S_full_sync_flag f tb n x l : S_full f tb n = Some x -> C09Model.t_stss tb = Some l -> In n l ->
  N.testbit (s_flags (fs_s x)) 16 = false.
Proof.
  unfold S_full, S_meta. intros Hx Hl Hin.
  destruct (S_flags tb n) as [fl|] eqn:Ef; [|discriminate].
  destruct (S_dur tb n); [|discriminate]. destruct (S_size tb n); [|discriminate].
  destruct (match C09Model.t_ctts tb with Some c => S_cto c n | None => Some 0%Z end); [|discriminate].
  destruct (S_decode_time tb n); [|discriminate]. destruct (S_bytes f tb n); [|discriminate].
  injection Hx as <-. cbn [fs_s meta_sample s_flags C09Model.s_flags].
  unfold S_flags in Ef. rewrite Hl in Ef. unfold S_is_sync in Ef. rewrite (existsb_eqb_in n l Hin) in Ef.
  destruct (C09Model.t_sdtp tb) as [sd|].
  - destruct (n =? 0); [discriminate|]. destruct (nthN sd (n - 1)); [|discriminate].
    injection Ef as <-. apply flags_encode_sync.
  - injection Ef as <-. apply flags_encode_sync.
Qed.

(* ------------------------------------------------------------------ the pipeline, segment by segment *)
Lemma seg_track_read_back_each opt f tb T pos0 (tx : C05Model.trex) :
  C09Spec.consistent tb = true -> data_ok f tb = true -> tx_track tx = T ->
  forall ivs fes,
  (forall iv x, In iv ivs -> In x (C11Model.range iv) -> 1 <= x <= nsamples tb) ->
  seg_track opt f tb T ivs = Ok fes ->
  Forall (fun fe => seg_guard pos0 fe = true) fes ->
  exists outs, read_all (read_back tx pos0 []) fes = Ok outs /\
               Forall2 (fun iv o => map Some o = map (S_full f tb) (C11Model.range iv)) (written_ivs ivs) outs.
Proof.
  intros H Hd Htx. destruct (stts_facts tb H) as [_ [_ [HN _]]].
  induction ivs as [|[a b] ivs IH]; intros fes Hin Hs Hg.
  - cbn [seg_track] in Hs. injection Hs as <-. exists []. split; [reflexivity|constructor].
  - cbn [seg_track] in Hs. unfold fetch_or_skip, fetch_interval in Hs. cbn [fst snd] in Hs.
    assert (Hin' : forall iv x, In iv ivs -> In x (C11Model.range iv) -> 1 <= x <= nsamples tb).
    { intros iv x Hi. apply Hin. right. exact Hi. }
    destruct (b + 1 <? a) eqn:E1; [cbn [rbind] in Hs; discriminate|].
    unfold written_ivs. cbn [filter fst snd]. fold (written_ivs ivs).
    destruct (N.eq_dec a (b + 1)) as [Eab|Nab].
    + replace (N.to_nat (b + 1 - a)) with O in Hs by lia. cbn [fetch_loop rbind] in Hs.
      replace (a <=? b) with false by (symmetry; apply N.leb_gt; lia).
      apply (IH fes Hin' Hs Hg).
    + assert (Ha : 1 <= a <= nsamples tb).
      { apply (Hin (a, b)); [left; reflexivity|]. rewrite range_seqN. apply in_seqN. lia. }
      assert (Hb : 1 <= b <= nsamples tb).
      { apply (Hin (a, b)); [left; reflexivity|]. rewrite range_seqN. apply in_seqN. lia. }
      replace (a <=? b) with true by (symmetry; apply N.leb_le; lia).
      destruct (fetch_loop_ok f tb H Hd (N.to_nat (b + 1 - a)) a ltac:(lia) ltac:(lia)) as [l [Hl Hm]].
      rewrite Hl in Hs. cbn [rbind] in Hs.
      pose proof (map_Some_length _ _ Hm) as Hlen. rewrite map_length, seqN_length in Hlen.
      destruct l as [|x l']; [cbn [length] in Hlen; lia|]. cbv iota in Hs.
      remember (x :: l') as l eqn:El.
      destruct (write_segment opt T l) as [fe| | |] eqn:Ew; cbn [rbind] in Hs; try discriminate.
      destruct (seg_track opt f tb T ivs) as [r| | |] eqn:Er; cbn [rbind] in Hs; try discriminate.
      injection Hs as <-. pose proof (Forall_inv Hg) as Hg1. pose proof (Forall_inv_tail Hg) as Hg2. cbv beta in Hg1.
      destruct (IH r Hin' eq_refl Hg2) as [outs [Hr Hc]].
      assert (Hrb : read_back tx pos0 [] fe = Ok l).
      { rewrite (write_read_segment opt T l fe pos0 tx); try assumption.
        - rewrite Htx, N.eqb_refl. reflexivity.
        - rewrite El. discriminate.
        - unfold lenN. lia.
        - apply (expansion_sized f tb H Hd (N.to_nat (b + 1 - a)) a); [lia|lia|exact Hm].
        - apply (expansion_consistent f tb H (N.to_nat (b + 1 - a)) a); [lia|exact Hm]. }
      exists (l :: outs). split; [apply read_all_app; assumption|].
      constructor; [|exact Hc].
      rewrite range_seqN. replace (N.to_nat (b + 1) - N.to_nat a)%nat with (N.to_nat (b + 1 - a)) by lia. exact Hm.
Qed.

Lemma Forall2_Forall_in {A B} (P : A -> B -> Prop) (Q : B -> Prop) : forall l l2,
  Forall2 P l l2 -> (forall x y, In x l -> P x y -> Q y) -> Forall Q l2.
Proof.
  induction 1 as [|x y l l2 Hp _ IH]; intros Hq; [constructor|].
  constructor; [apply (Hq x y); [left; reflexivity|exact Hp]|].
  apply IH. intros x' y' Hi. apply Hq. right. exact Hi.
Qed.

(* ------------------------------------------------------------------ the reference track's written segments *)
Lemma ref_segments_start_sync (f : pfile) (trs : list itrack) (t : itrack) d syncTs sps ivs stss :
  Forall (fun t => C09Spec.consistent (snd t) = true) trs -> In t trs -> data_ok f (snd t) = true ->
  first_video (map itrack_of trs) = Some (itrack_of t) ->
  C09Model.t_stss (snd t) = Some stss -> In 1 stss ->
  get_segment_starts (map itrack_of trs) d = Ok (syncTs, sps) -> sps <> [] ->
  get_segment_intervals syncTs sps (itrack_of t) = Ok ivs ->
  nonzero_dur_syncs (itrack_of t) sps = true ->
  forall opt T pos0 (tx : C05Model.trex),
  tx_track tx = T -> pos0 < 4611686018427387904 -> forallb (seg_small (snd t)) ivs = true ->
  exists fes outs, seg_track opt f (snd t) T ivs = Ok fes /\
                   read_all (read_back tx pos0 []) fes = Ok outs /\
                   map Some (concat outs) = expansion f (snd t) /\
                   Forall starts_sync outs.
Proof.
  intros Hall Hin Hd Hfv Hst H1 Hs Hne Hi Hg opt T pos0 tx Htx Hpos Hsmall.
  assert (Hwf : wf_tracks (map itrack_of trs) = true).
  { unfold wf_tracks. rewrite forallb_forall. intros x Hx. apply in_map_iff in Hx.
    destruct Hx as [t' [<- Ht']]. rewrite Forall_forall in Hall.
    destruct (itrack_wf t' (Hall t' Ht')) as [Hw _]. exact Hw. }
  pose proof (starts_sorted _ _ _ _ Hwf Hs) as Hch.
  assert (Hc : C09Spec.consistent (snd t) = true) by (rewrite Forall_forall in Hall; apply Hall; exact Hin).
  destruct (itrack_wf t Hc) as [Hw [Hsm Hn]].
  unfold wf_track in Hw. apply andb_true_iff in Hw. destruct Hw as [Hw _].
  assert (Htot : stts_total (C11Model.t_stts (itrack_of t)) <= t_nsamples (itrack_of t)) by lia.
  assert (HN : t_nsamples (itrack_of t) < 4294967296) by lia.
  pose proof (intervals_tile syncTs sps (itrack_of t) ivs Hne Hch Htot HN Hi) as Htile. rewrite Hn in Htile.
  pose proof (intervals_ordered syncTs sps (itrack_of t) ivs Hne Hch Htot HN Hi) as Hord.
  assert (Hrange : forall iv x, In iv ivs -> In x (C11Model.range iv) -> 1 <= x <= nsamples (snd t)).
  { intros iv x Hiv Hx.
    assert (Hi' : In x (concat (map C11Model.range ivs))).
    { apply in_concat. exists (C11Model.range iv). split; [apply in_map; exact Hiv|exact Hx]. }
    rewrite Htile, seqN1_seqN in Hi'. apply in_seqN in Hi'. lia. }
  destruct (seg_track_total opt f (snd t) T pos0 Hc Hd Hpos ivs Hrange Hord Hsmall) as [fes [Hst' Hgd]].
  destruct (seg_track_end_to_end opt f (snd t) T pos0 tx ivs fes Hc Hd Htx Htile Hst' Hgd) as [outs [Hr [He _]]].
  destruct (seg_track_read_back_each opt f (snd t) T pos0 tx Hc Hd Htx ivs fes Hrange Hst' Hgd) as [outs' [Hr' Hea]].
  rewrite Hr in Hr'. injection Hr' as <-.
  exists fes, outs. split; [exact Hst'|]. split; [exact Hr|]. split; [exact He|].
  assert (Hstss : C11Model.t_stss (itrack_of t) = Some stss).
  { destruct t as [[v ts] tb]. cbn [snd] in Hst. unfold itrack_of, track_of. cbn [C11Model.t_stss fst snd]. exact Hst. }
  destruct (video_starts_sync _ _ _ _ _ _ _ Hfv Hstss Hs Hi Hg) as [_ [_ Hsync]].
  specialize (Hsync H1). rewrite Forall_forall in Hsync.
  apply (Forall2_Forall_in _ _ _ _ Hea).
  intros [a b] o Hiv Hm. unfold written_ivs in Hiv. apply filter_In in Hiv. destruct Hiv as [Hiv Hab].
  cbn [fst snd] in Hab. apply N.leb_le in Hab.
  specialize (Hsync (a, b) Hiv). cbn [fst] in Hsync.
  rewrite range_seqN in Hm.
  destruct (N.to_nat (b + 1) - N.to_nat a)%nat as [|k] eqn:Ek; [lia|].
  cbn [seqN map] in Hm. destruct o as [|x o']; [discriminate|]. injection Hm as Hx _.
  unfold starts_sync. apply (S_full_sync_flag f (snd t) a x stss); [symmetry; exact Hx|exact Hst|exact Hsync].
Qed.
