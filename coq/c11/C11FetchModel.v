(* C11FetchModel.v — executable Gallina models (definitions only) of the part of examples/segmenter
   that turns sample-table entries into fragments, on top of the table model of C09 (coq/c09/C09Model.v:
   the Go structs SttsBox, CttsBox, StscBox, StszBox, StcoBox/Co64Box, StssBox, SdtpBox and their query
   functions) and the fragment model of C05 (coq/c05/C05Model.v, C05FragModel.v: CreateFragment,
   CreateMultiTrackFragment, AddFullSampleToTrack, AddSampleToTrack, Fragment.Encode, DecodeFile's view of
   the encoded fragment, Fragment.GetFullSamples).  Both are imported read-only.

     examples/segmenter/segmenter.go  GetFullSamplesForInterval  (per-sample fetch: chunk, offset, size,
                                      decode time, duration, cto, bytes from mdat.Data or from the
                                      ReadSeeker when the mdat was decoded lazily, flags)
                                      GetSamplesForInterval      (metadata only)
                                      TranslateSampleFlagsForFragment (textually the same function as
                                      mp4/trak.go createSampleFlagsFromProgressiveBoxes = C09's
                                      create_sample_flags; the correspondence runs the segmenter's copy)
     examples/segmenter/segment.go    makeSingleTrackSegments, makeSingleTrackSegmentsLazyWrite,
                                      makeMultiTrackSegments (the per-track / per-segment bodies),
                                      copyMediaData
   Widths: offsets are int64/uint64 in Go: written with u64 (same bit pattern), "negative" = >= 2^63. *)
From V.lib Require Import Base.
From V.c09 Require Import C09Model.
From V.c05 Require Import C05Model C05FragModel.

(* ------------------------------------------------------------------ the input file *)
(* pf_bytes: the whole file (what the io.ReadSeeker reads); the mdat payload is
   pf_bytes[pf_mdat_start : pf_mdat_start + pf_mdat_len] (mdat.PayloadAbsoluteOffset(), payload size);
   pf_lazy: decoded with DecModeLazyMdat (mdat.Data == nil, lazyDataSize = payload size) *)
Record pfile := mkPfile { pf_bytes : list N; pf_mdat_start : N; pf_mdat_len : N; pf_lazy : bool }.

(* mdat.GetLazyDataSize() > 0 *)
Definition is_lazy (f : pfile) : bool := pf_lazy f && (0 <? pf_mdat_len f).
(* mdat.Data *)
Definition mdat_data (f : pfile) : list N :=
  if pf_lazy f then [] else sub_list (pf_bytes f) (N.to_nat (pf_mdat_start f)) (N.to_nat (pf_mdat_len f)).

(* ------------------------------------------------------------------ GetFullSamplesForInterval *)
(* `if stbl.Stco != nil { offset = int64(stbl.Stco.ChunkOffset[chunkNr-1]) } else if stbl.Co64 != nil {...}` *)
Definition fetch_chunk_offset (tb : tables) (chunkNr : N) : res N :=
  match t_stco tb with
  | Some l => idx_m1 l chunkNr
  | None => match t_co64 tb with Some l => idx_m1 l chunkNr | None => Ok 0 end
  end.

(* `for sNr := from; sNr < to; sNr++ { offset += int64(stbl.Stsz.GetSampleSize(sNr)) }`, n = to - from *)
Fixpoint add_sizes (z : stsz_box) (n : nat) (sNr off : N) : res N :=
  match n with
  | O => Ok off
  | S n' => do s <- stsz_get_sample_size z sNr; add_sizes z n' (sNr + 1) (u64 (off + s))
  end.

Definition sample_offset (tb : tables) (nr : N) : res N :=
  do cf <- stsc_chunk_nr_from_sample_nr (sc_entries (t_stsc tb)) nr;
  let '(chunkNr, firstInChunk) := cf in
  do off <- fetch_chunk_offset tb chunkNr;
  add_sizes (t_stsz tb) (N.to_nat (nr - firstInChunk)) firstInChunk off.

(* the two ways of getting the bytes.  Lazy: rs.Seek(offset, io.SeekStart) fails for a negative offset;
   io.ReadFull of `size` bytes fails at EOF (an empty buffer reads nothing and succeeds).
   In memory: mdat.Data[o : o+uint64(size)] with o = uint64(offset) - mdatPayloadStart (uint64). *)
Definition sample_bytes (f : pfile) (off size : N) : res (list N) :=
  if is_lazy f then
    if 9223372036854775808 <=? off then Err
    else if size =? 0 then Ok []
    else if lenN (pf_bytes f) <? off + size then Err
    else Ok (sub_list (pf_bytes f) (N.to_nat off) (N.to_nat size))
  else
    let o := sub64 off (pf_mdat_start f) in
    let hi := u64 (o + size) in
    if (hi <? o) || (lenN (mdat_data f) <? hi) then Panic
    else Ok (sub_list (mdat_data f) (N.to_nat o) (N.to_nat size)).

(* the loop body for one sample number (same order of evaluation as the Go text) *)
Definition fetch_full_sample (f : pfile) (tb : tables) (nr : N) : res fullsample :=
  do off <- sample_offset tb nr;
  do size <- stsz_get_sample_size (t_stsz tb) nr;
  do td <- stts_get_decode_time (t_stts_count tb) (t_stts_delta tb) nr;
  do cto <- match t_ctts tb with None => Ok 0%Z | Some c => ctts_get_cto c nr end;
  do data <- sample_bytes f off size;
  do fl <- create_sample_flags (t_stss tb) (t_sdtp tb) nr;
  Ok (mkFull (mkSample fl (snd td) size cto) (fst td) data).

Fixpoint fetch_loop (f : pfile) (tb : tables) (n : nat) (nr : N) : res (list fullsample) :=
  match n with
  | O => Ok []
  | S n' => do s <- fetch_full_sample f tb nr; do rest <- fetch_loop f tb n' (nr + 1); Ok (s :: rest)
  end.

(* `for sampleNr := startSampleNr; sampleNr <= endSampleNr; sampleNr++`.  For end+1 < start Go first asks for
   a slice capacity of (end-start+1) mod 2^32 FullSamples: not modelled (OutOfFuel) *)
Definition fetch_interval (f : pfile) (tb : tables) (a b : N) : res (list fullsample) :=
  if b + 1 <? a then OutOfFuel else fetch_loop f tb (N.to_nat (b + 1 - a)) a.

(* ------------------------------------------------------------------ GetSamplesForInterval *)
Definition fetch_meta (tb : tables) (nr : N) : res sample :=
  do size <- stsz_get_sample_size (t_stsz tb) nr;
  do dur <- stts_get_dur (t_stts_count tb) (t_stts_delta tb) nr;
  do cto <- match t_ctts tb with None => Ok 0%Z | Some c => ctts_get_cto c nr end;
  do fl <- create_sample_flags (t_stss tb) (t_sdtp tb) nr;
  Ok (mkSample fl dur size cto).

Fixpoint fetch_meta_loop (tb : tables) (n : nat) (nr : N) : res (list sample) :=
  match n with
  | O => Ok []
  | S n' => do s <- fetch_meta tb nr; do rest <- fetch_meta_loop tb n' (nr + 1); Ok (s :: rest)
  end.

Definition fetch_meta_interval (tb : tables) (a b : N) : res (list sample) :=
  if b + 1 <? a then OutOfFuel else fetch_meta_loop tb (N.to_nat (b + 1 - a)) a.

(* ------------------------------------------------------------------ copyMediaData *)
(* one chunk of the loop: `offset` is declared outside the loop and keeps its value when neither co64 nor
   stco is there; co64 is looked at FIRST here (stco first in GetFullSamplesForInterval).
   rs.Seek(int64(offset)) + io.CopyN(w, rs, size): an error when fewer than size bytes are there. *)
Fixpoint copy_chunks (f : pfile) (tb : tables) (a b : N) (first : bool) (prev : N) (chunks : list chunk)
  : res (list N) :=
  match chunks with
  | [] => Ok []
  | c :: rest =>
    do off0 <- match t_co64 tb with
               | Some l => idx_m1 l (ch_nr c)
               | None => match t_stco tb with Some l => idx_m1 l (ch_nr c) | None => Ok prev end
               end;
    let endNr0 := u32 (sub32 (u32 (ch_start c + ch_n c)) 1) in
    do p <- (if first then
               do o <- add_sizes (t_stsz tb) (N.to_nat (a - ch_start c)) (ch_start c) off0; Ok (o, a)
             else Ok (off0, ch_start c));
    let '(off, startNr) := p in
    let endNr := match rest with [] => b | _ => endNr0 end in
    do size <- add_sizes (t_stsz tb) (N.to_nat (endNr + 1 - startNr)) startNr 0;
    if (9223372036854775808 <=? off) || (9223372036854775808 <=? size) then Err
    else if size =? 0 then copy_chunks f tb a b false off rest          (* CopyN of 0 bytes reads nothing *)
    else if lenN (pf_bytes f) <? off + size then Err
    else
      do more <- copy_chunks f tb a b false off rest;
      Ok (sub_list (pf_bytes f) (N.to_nat off) (N.to_nat size) ++ more)
  end.

Definition copy_media_data (f : pfile) (tb : tables) (a b : N) : res (list N) :=
  do chunks <- stsc_get_containing_chunks (sc_entries (t_stsc tb)) a b;
  copy_chunks f tb a b true 0 chunks.

(* ------------------------------------------------------------------ writing one segment *)
Definition op_of (T : N) (s : fullsample) : op := OFullTo T (fs_s s) (fs_dts s) (fs_data s).

(* `for _, fullSample := range fullSamples { err = frag.AddFullSampleToTrack(fullSample, id); if err != nil { return err } }` *)
Fixpoint add_fulls (fr : frag) (T : N) (l : list fullsample) : res frag :=
  match l with
  | [] => Ok fr
  | s :: r => do fr' <- step fr (op_of T s); add_fulls fr' T r
  end.

(* CreateFragment(segNr, trackID); the additions; mp4.WriteToFile -> MediaSegment.Encode -> Fragment.Encode.
   opt = EncOptimize has OptimizeTrun (false in the segmenter: NewMediaSegment sets OptimizeNone) *)
Definition write_segment (opt : bool) (T : N) (l : list fullsample) : res frag :=
  do fr <- add_fulls (create_fragment T) T l; encode_frag opt fr.

(* what a reader gets: DecodeFile of the written segment (the fragment starts at absolute position pos0,
   after styp), then Fragment.GetFullSamples(trex); lz = bytes the caller wrote after a lazy mdat header *)
Definition read_back (tx : trex) (pos0 : N) (lz : list N) (fe : frag) : res (list fullsample) :=
  get_full_samples (decoded_view fe pos0 lz) (Some tx).

Fixpoint read_all {A} (rd : A -> res (list fullsample)) (l : list A) : res (list (list fullsample)) :=
  match l with
  | [] => Ok []
  | x :: r => do o <- rd x; do rest <- read_all rd r; Ok (o :: rest)
  end.

(* `fullSamples, err := GetFullSamplesForInterval(...); if err != nil { return err }; if len(fullSamples) == 0 { continue }`
   (text after fix 8eb6c19: the error is returned; an empty interval is "No more samples") *)
Definition fetch_or_skip (f : pfile) (tb : tables) (iv : N * N) : res (list fullsample) :=
  fetch_interval f tb (fst iv) (snd iv).

(* the pinned text tested the length first, so an error return (nil slice) was taken for "No more samples" *)
Definition fetch_or_skip_pinned (f : pfile) (tb : tables) (iv : N * N) : res (list fullsample) :=
  match fetch_interval f tb (fst iv) (snd iv) with Err => Ok [] | r => r end.

(* makeSingleTrackSegments, one track: the encoded fragment of every segment that got samples.
   (The tool interleaves the tracks segment by segment and stops at the first error of any track.) *)
Fixpoint seg_track (opt : bool) (f : pfile) (tb : tables) (T : N) (ivs : list (N * N)) : res (list frag) :=
  match ivs with
  | [] => Ok []
  | iv :: rest =>
    do l <- fetch_or_skip f tb iv;
    match l with
    | [] => seg_track opt f tb T rest
    | _ => do fe <- write_segment opt T l; do r <- seg_track opt f tb T rest; Ok (fe :: r)
    end
  end.

(* ------------------------------------------------------------------ makeMultiTrackSegments *)
Fixpoint mux_add (fr : frag) (g : list (N * list fullsample)) : res frag :=
  match g with
  | [] => Ok fr
  | (T, l) :: r => do fr' <- add_fulls fr T l; mux_add fr' r
  end.

Definition write_mux_segment (opt : bool) (ids : list N) (g : list (N * list fullsample)) : res frag :=
  do fr <- mux_add (create_multi ids) g; encode_frag opt fr.

(* a track of the segmenter: tables, output track id, sample intervals *)
Definition strack := (tables * N * list (N * N))%type.

(* `for _, tr := range segmenter.tracks { start, end := tr.segments[segNr-1]...` for segment index k *)
Fixpoint mux_gather (f : pfile) (trs : list strack) (k : nat) : res (list (N * list fullsample)) :=
  match trs with
  | [] => Ok []
  | (tb, T, ivs) :: r =>
    match nth_error ivs k with
    | None => Panic
    | Some iv => do l <- fetch_or_skip f tb iv; do rest <- mux_gather f r k; Ok ((T, l) :: rest)
    end
  end.

Fixpoint mux_loop (opt : bool) (f : pfile) (ids : list N) (trs : list strack) (ks : list nat) : res (list frag) :=
  match ks with
  | [] => Ok []
  | k :: r =>
    do g <- mux_gather f trs k; do fe <- write_mux_segment opt ids g;
    do rest <- mux_loop opt f ids trs r; Ok (fe :: rest)
  end.

(* the do-while loop runs once even for nrSegs = 0 *)
Definition mux_segments (opt : bool) (f : pfile) (trs : list strack) (nrSegs : nat) : res (list frag) :=
  mux_loop opt f (map (fun t => snd (fst t)) trs) trs (seq 0 (Nat.max 1 nrSegs)).

(* ------------------------------------------------------------------ makeSingleTrackSegmentsLazyWrite *)
Fixpoint add_metas (fr : frag) (T base : N) (l : list sample) : res frag :=
  match l with
  | [] => Ok fr
  | s :: r => do fr' <- step fr (OMetaTo T s base); add_metas fr' T base r
  end.

(* one segment of one track: the encoded fragment and the bytes copyMediaData writes after it *)
Definition write_lazy_segment (opt : bool) (f : pfile) (tb : tables) (T : N) (iv : N * N)
  : res (option (frag * list N)) :=
  do metas <- fetch_meta_interval tb (fst iv) (snd iv);
  match metas with
  | [] => Ok None                                            (* "No more samples": continue *)
  | _ =>
    do td <- stts_get_decode_time (t_stts_count tb) (t_stts_delta tb) (fst iv);
    do fr <- add_metas (create_fragment T) T (fst td) metas;
    do fe <- encode_frag opt fr;
    do data <- copy_media_data f tb (fst iv) (snd iv);
    Ok (Some (fe, data))
  end.

Fixpoint seg_track_lazy (opt : bool) (f : pfile) (tb : tables) (T : N) (ivs : list (N * N))
  : res (list (frag * list N)) :=
  match ivs with
  | [] => Ok []
  | iv :: rest =>
    do o <- write_lazy_segment opt f tb T iv;
    do r <- seg_track_lazy opt f tb T rest;
    Ok (match o with None => r | Some x => x :: r end)
  end.
