(* C11SyncBoolProofs.v — the decoded-level sync theorems under ONE boolean hypothesis on the input
   (C11Spec.ref_sync_hyps), the form the correspondence evaluates on the files the built tool was run on. *)
From V.lib Require Import Base.
From V.c11 Require Import C11Model C11SegProofs C11SyncProofs.
From V.c09 Require Import C09Model C09Spec.
From V.c05 Require Import C05Model C05FragModel.
From V.c11 Require Import C11FetchModel C11Spec C11TotalProofs C11SyncDecProofs C11SyncLazyProofs.

Lemma first_video_at_sound : forall trs k, first_video_at trs k = true ->
  exists t, nth_error trs k = Some t /\ first_video (map itrack_of trs) = Some (itrack_of t).
Proof.
  induction trs as [|t r IH]; intros k H; [destruct k; discriminate|].
  destruct k as [|k]; cbn [first_video_at] in H.
  - exists t. split; [reflexivity|]. cbn [map first_video].
    destruct t as [[v ts] tb]. cbn [fst] in H. subst v. reflexivity.
  - apply andb_prop in H. destruct H as [Hv Hr]. destruct (IH k Hr) as [t' [Hn Hf]].
    exists t'. split; [exact Hn|]. cbn [map first_video].
    destruct t as [[v ts] tb]. cbn [fst] in Hv. destruct v; [discriminate|]. exact Hf.
Qed.

Lemma seg_small_b_eq tb iv : seg_small_b tb iv = seg_small tb iv.
Proof. reflexivity. Qed.

(* what the boolean says, as the hypotheses of ref_segments_start_sync / ref_segments_start_sync_lazy *)
Lemma ref_sync_hyps_sound lz f trs k d : ref_sync_hyps lz f trs k d = true ->
  exists t syncTs sps ivs stss,
    nth_error trs k = Some t /\
    Forall (fun t => C09Spec.consistent (snd t) = true) trs /\ In t trs /\ data_ok f (snd t) = true /\
    (lz = true -> one_offset_box (snd t) = true) /\
    first_video (map itrack_of trs) = Some (itrack_of t) /\
    C09Model.t_stss (snd t) = Some stss /\ In 1 stss /\
    get_segment_starts (map itrack_of trs) d = Ok (syncTs, sps) /\ sps <> [] /\
    get_segment_intervals syncTs sps (itrack_of t) = Ok ivs /\
    nonzero_dur_syncs (itrack_of t) sps = true /\
    forallb (seg_small (snd t)) ivs = true.
Proof.
  unfold ref_sync_hyps. intros H.
  apply andb_prop in H. destruct H as [H H3]. apply andb_prop in H. destruct H as [H1 H2].
  destruct (first_video_at_sound trs k H2) as [t [Hn Hfv]]. rewrite Hn in H3.
  apply andb_prop in H3. destruct H3 as [H3 H7]. apply andb_prop in H3. destruct H3 as [H3 H6].
  apply andb_prop in H3. destruct H3 as [H4 H5].
  destruct (C09Model.t_stss (snd t)) as [stss|] eqn:Est; [|discriminate].
  destruct (get_segment_starts (map itrack_of trs) d) as [[syncTs sps]| | |] eqn:Es; try discriminate.
  apply andb_prop in H7. destruct H7 as [H7 H8].
  destruct (get_segment_intervals syncTs sps (itrack_of t)) as [ivs| | |] eqn:Ei; try discriminate.
  apply andb_prop in H8. destruct H8 as [H8 H9].
  exists t, syncTs, sps, ivs, stss. split; [exact Hn|].
  split. { rewrite Forall_forall. rewrite forallb_forall in H1. exact H1. }
  split. { apply (nth_error_In _ _ Hn). }
  split; [exact H4|].
  split. { intros ->. cbn [negb orb] in H5. exact H5. }
  split; [exact Hfv|]. split; [first [exact Est|reflexivity]|].
  split. { apply existsb_exists in H6. destruct H6 as [x [Hx Hx1]]. apply N.eqb_eq in Hx1. subst x. exact Hx. }
  split; [first [exact Es|reflexivity]|].
  split. { destruct sps; [discriminate|discriminate]. }
  split; [first [exact Ei|reflexivity]|]. split; [exact H8|].
  rewrite forallb_forall in H9 |- *. intros iv Hiv. rewrite <- seg_small_b_eq. apply H9, Hiv.
Qed.

Lemma ref_sync_bool (f : pfile) (trs : list itrack) k d :
  ref_sync_hyps false f trs k d = true ->
  exists t syncTs sps ivs,
    nth_error trs k = Some t /\ get_segment_starts (map itrack_of trs) d = Ok (syncTs, sps) /\
    get_segment_intervals syncTs sps (itrack_of t) = Ok ivs /\
    forall opt T pos0 (tx : C05Model.trex), tx_track tx = T -> pos0 < 4611686018427387904 ->
    exists fes outs, seg_track opt f (snd t) T ivs = Ok fes /\
                     read_all (read_back tx pos0 []) fes = Ok outs /\
                     map Some (concat outs) = expansion f (snd t) /\
                     Forall starts_sync outs.
Proof.
  intros H. destruct (ref_sync_hyps_sound _ _ _ _ _ H)
    as (t & syncTs & sps & ivs & stss & Hn & Hall & Hin & Hd & _ & Hfv & Hst & H1 & Hs & Hne & Hi & Hg & Hsm).
  exists t, syncTs, sps, ivs. split; [exact Hn|]. split; [exact Hs|]. split; [exact Hi|].
  intros opt T pos0 tx Htx Hpos.
  exact (ref_segments_start_sync f trs t d syncTs sps ivs stss Hall Hin Hd Hfv Hst H1 Hs Hne Hi Hg opt T pos0 tx Htx Hpos Hsm).
Qed.

Lemma ref_sync_bool_lazy (f : pfile) (trs : list itrack) k d :
  ref_sync_hyps true f trs k d = true ->
  exists t syncTs sps ivs,
    nth_error trs k = Some t /\ get_segment_starts (map itrack_of trs) d = Ok (syncTs, sps) /\
    get_segment_intervals syncTs sps (itrack_of t) = Ok ivs /\
    forall opt T pos0 (tx : C05Model.trex), tx_track tx = T -> pos0 < 4611686018427387904 ->
    exists outs res, seg_track_lazy opt f (snd t) T ivs = Ok outs /\
                     read_all (fun p => read_back tx pos0 (snd p) (fst p)) outs = Ok res /\
                     map Some (concat res) = expansion f (snd t) /\
                     Forall starts_sync res.
Proof.
  intros H. destruct (ref_sync_hyps_sound _ _ _ _ _ H)
    as (t & syncTs & sps & ivs & stss & Hn & Hall & Hin & Hd & Hone & Hfv & Hst & H1 & Hs & Hne & Hi & Hg & Hsm).
  exists t, syncTs, sps, ivs. split; [exact Hn|]. split; [exact Hs|]. split; [exact Hi|].
  intros opt T pos0 tx Htx Hpos.
  exact (ref_segments_start_sync_lazy f trs t d syncTs sps ivs stss Hall Hin Hd (Hone eq_refl) Hfv Hst H1 Hs Hne Hi Hg
           opt T pos0 tx Htx Hpos Hsm).
Qed.
