(* C11BridgeProofs.v — the two models of the stts/ctts queries agree on consistent tables: C11Model's
   (run lists, used by the segment plan) and C09Model's (the Go structs, proved against the expansion by C09).
   This makes the definition itrack_of a theorem at the level of every query the plan makes. *)
From V.lib Require Import Base.
From V.c11 Require Import C11Model C11SegProofs.
From V.c09 Require Import C09Model C09Spec C09BaseProofs C09SttsProofs C09CttsProofs.
From V.c05 Require Import C05Model C05FragModel.
From V.c11 Require Import C11FetchModel C11Spec.

Lemma sumN_expand_cons c cs d ds : sumN (expand_rl (c :: cs) (d :: ds)) = c * d + sumN (expand_rl cs ds).
Proof. cbn [expand_rl]. rewrite sumN_app, sumN_repeat. lia. Qed.

(* ------------------------------------------------------------------ GetDecodeTime *)
Lemma gdt_bridge : forall cs ds rem acc, lenN cs = lenN ds ->
  acc + sumN (expand_rl cs ds) < 18446744073709551616 ->
  gdt_loop (combine cs ds) rem acc = decode_time_loop cs ds rem acc.
Proof.
  induction cs as [|c cs IH]; intros ds rem acc Hl Hb.
  - destruct ds; [reflexivity|rewrite lenN_cons, lenN_nil in Hl; lia].
  - destruct ds as [|d ds]; [rewrite lenN_cons, lenN_nil in Hl; lia|]. rewrite !lenN_cons in Hl.
    rewrite sumN_expand_cons in Hb. cbn [combine gdt_loop decode_time_loop].
    destruct (c <=? rem) eqn:E.
    + rewrite u64_small by lia. apply IH; lia.
    + destruct (0 <? rem) eqn:E0.
      * rewrite u64_small by nia. reflexivity.
      * replace rem with 0 by lia. do 2 f_equal. lia.
Qed.

Lemma get_decode_time_bridge tb : C09Spec.consistent tb = true -> forall n,
  C11Model.get_decode_time (combine (t_stts_count tb) (t_stts_delta tb)) n
  = stts_get_decode_time (t_stts_count tb) (t_stts_delta tb) n.
Proof.
  intros H n. destruct (stts_facts tb H) as [L [_ [_ [T _]]]].
  unfold C11Model.get_decode_time, stts_get_decode_time. destruct (n =? 0); [reflexivity|].
  apply gdt_bridge; [exact L|]. unfold C09Spec.durs in T. lia.
Qed.

(* ------------------------------------------------------------------ GetCompositionTimeOffset *)
Lemma cto_loop_spec : forall cnts (offs : list Z) nr acc x, acc < nr ->
  nthN (expand_rl cnts offs) (nr - acc - 1) = Some x -> cto_loop (combine cnts offs) nr acc = Ok x.
Proof.
  induction cnts as [|c cnts IH]; intros offs nr acc x Hlt Hn; [cbn [expand_rl] in Hn; rewrite nthN_nil in Hn; discriminate|].
  destruct offs as [|o offs]; [cbn [expand_rl] in Hn; rewrite nthN_nil in Hn; discriminate|].
  cbn [expand_rl combine cto_loop] in *. rewrite nthN_app, lenN_repeat, nthN_repeat in Hn.
  destruct (nr <=? acc + c) eqn:E.
  - destruct (nr - acc - 1 <? N.of_nat (N.to_nat c)) eqn:E1; [|lia]. congruence.
  - destruct (nr - acc - 1 <? N.of_nat (N.to_nat c)) eqn:E1; [lia|].
    apply IH; [lia|]. replace (nr - (acc + c) - 1) with (nr - acc - 1 - N.of_nat (N.to_nat c)) by lia. exact Hn.
Qed.

Lemma get_cto_bridge tb c : C09Spec.consistent tb = true -> C09Model.t_ctts tb = Some c ->
  forall n, 1 <= n <= nsamples tb ->
  C11Model.get_cto (combine (diffs (ct_end c)) (ct_off c)) n = ctts_get_cto c n.
Proof.
  intros H Hc n Hn. destruct (cto_correct tb c H Hc n Hn) as [x [Hx1 Hx2]]. rewrite Hx2.
  unfold S_cto, ctos_of in Hx1. unfold C11Model.get_cto. destruct (n =? 0) eqn:E; [lia|].
  apply cto_loop_spec; [lia|]. replace (n - 0 - 1) with (n - 1) by lia. exact Hx1.
Qed.

(* ------------------------------------------------------------------ GetSampleNrAtTime *)
Definition snat_tail (cl dl t accT accN : N) : res N :=
  if negb (dl =? 0) then Err else if (cl =? 1) && (t =? accT) then Ok accN else Err.

Lemma last_default {A} (l : list A) d1 d2 : l <> [] -> last l d1 = last l d2.
Proof.
  induction l as [|x l IH]; intros H; [congruence|]. destruct l as [|y l']; [reflexivity|].
  change (last (x :: y :: l') d1) with (last (y :: l') d1). change (last (x :: y :: l') d2) with (last (y :: l') d2).
  apply IH. discriminate.
Qed.

Lemma snat_bridge : forall cs ds t accT accN lc ld, lenN cs = lenN ds ->
  accT <= t -> accT + sumN (expand_rl cs ds) < 18446744073709551616 -> accN + sumN cs + 1 < 4294967296 ->
  snat_loop (combine cs ds) t accT accN lc ld =
  match sample_at_time_loop cs ds t accT accN with
  | Ok (Some nr, _, _) => Ok nr
  | Ok (None, aT, aN) => snat_tail (last cs lc) (last ds ld) t aT aN
  | Err => Err | Panic => Panic | OutOfFuel => OutOfFuel
  end.
Proof.
  induction cs as [|c cs IH]; intros ds t accT accN lc ld Hl Ht Hb Hn.
  - destruct ds; [|rewrite lenN_cons, lenN_nil in Hl; lia]. cbn [combine snat_loop sample_at_time_loop last].
    unfold snat_tail. destruct (ld =? 0), (lc =? 1), (t =? accT); reflexivity.
  - destruct ds as [|d ds]; [rewrite lenN_cons, lenN_nil in Hl; lia|]. rewrite !lenN_cons in Hl.
    rewrite sumN_expand_cons in Hb. cbn [sumN] in Hn. cbn [combine snat_loop sample_at_time_loop].
    rewrite (u64_small (accT + c * d)) by lia.
    destruct (t <? accT + c * d) eqn:E.
    + rewrite sub64_small by lia. destruct (d =? 0) eqn:Ed; [assert (d = 0) by lia; subst d; rewrite N.mul_0_r in E; lia|].
      pose proof (ceil_le_count (t - accT) c d ltac:(lia)) as Hc. unfold ceil_div in *.
      destruct ((t - accT) mod d =? 0); set (q := (t - accT) / d) in *; clearbody q.
      * rewrite (u32_small q) by (clear - Hc Hn; lia). rewrite u32_small by (clear - Hc Hn; lia). reflexivity.
      * rewrite (u64_small (q + 1)) by (clear - Hc Hn; lia). rewrite (u32_small (q + 1)) by (clear - Hc Hn; lia).
        rewrite u32_small by (clear - Hc Hn; lia). reflexivity.
    + rewrite (N.mul_comm d c). set (cd := c * d) in *. clearbody cd.
      rewrite (u64_small (accT + cd)) by lia. rewrite (u32_small (accN + c)) by lia.
      rewrite (IH ds t (accT + cd) (accN + c) c d); try lia.
      destruct (sample_at_time_loop cs ds t (accT + cd) (accN + c)) as [[[[nr|] aT] aN]| | |]; try reflexivity.
      destruct cs as [|c2 cs2]; destruct ds as [|d2 ds2]; try reflexivity.
      * exfalso. rewrite ?lenN_cons, ?lenN_nil in Hl. lia.
      * exfalso. rewrite ?lenN_cons, ?lenN_nil in Hl. lia.
      * change (last (c :: c2 :: cs2) lc) with (last (c2 :: cs2) lc).
        change (last (d :: d2 :: ds2) ld) with (last (d2 :: ds2) ld).
        rewrite (last_default (c2 :: cs2) c lc), (last_default (d2 :: ds2) d ld) by discriminate. reflexivity.
Qed.

Lemma idx_m1_last {A} (l : list A) d : l <> [] -> idx_m1 l (lenN l) = Ok (last l d).
Proof.
  intros Hne. apply idx_m1_Some.
  - destruct l; [congruence|rewrite lenN_cons; lia].
  - apply nthN_last. exact Hne.
Qed.

Lemma get_sample_nr_at_time_bridge tb : C09Spec.consistent tb = true -> forall t, t < 18446744073709551616 ->
  C11Model.get_sample_nr_at_time (combine (t_stts_count tb) (t_stts_delta tb)) t
  = stts_get_sample_nr_at_time (t_stts_count tb) (t_stts_delta tb) t.
Proof.
  intros H t Ht. destruct (stts_facts tb H) as [L [S [B [T _]]]].
  unfold C11Model.get_sample_nr_at_time, stts_get_sample_nr_at_time.
  destruct (t_stts_count tb) as [|c cs] eqn:Ec.
  - destruct (t_stts_delta tb); [reflexivity|rewrite lenN_cons, lenN_nil in L; lia].
  - destruct (t_stts_delta tb) as [|d ds] eqn:Ed; [rewrite lenN_cons, lenN_nil in L; lia|].
    change (combine (c :: cs) (d :: ds)) with ((c, d) :: combine cs ds).
    change ((c, d) :: combine cs ds) with (combine (c :: cs) (d :: ds)).
    rewrite (snat_bridge (c :: cs) (d :: ds) t 0 0 0 1 L ltac:(lia)).
    + destruct (sample_at_time_loop (c :: cs) (d :: ds) t 0 0) as [[[[nr|] aT] aN]| | |]; cbn [rbind]; try reflexivity.
      cbn [combine]. rewrite L at 1. rewrite (idx_m1_last (d :: ds) 1 ltac:(discriminate)). cbn [rbind].
      rewrite (idx_m1_last (c :: cs) 0 ltac:(discriminate)).
      unfold snat_tail. destruct (negb (last (d :: ds) 1 =? 0)); [reflexivity|]. cbn [rbind]. reflexivity.
    + unfold C09Spec.durs in T. rewrite ?Ec, ?Ed in T. lia.
    + destruct (consistent_parts tb H) as [Hn1 _]. unfold is_u32 in Hn1. rewrite ?Ec in S. cbn [sumN] in *. lia.
Qed.
