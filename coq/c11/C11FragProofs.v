(* C11FragProofs.v — Resegment, Fragmentify and combine-segs conserve the sample sequence. *)
From V.lib Require Import Base.
From V.c11 Require Import C11Model.

(* ------------------------------------------------------------------ list helpers *)
Lemma skipn_add {A} (l : list A) : forall a b, skipn (a + b) l = skipn b (skipn a l).
Proof.
  induction l as [|x t IH]; intros a b.
  - rewrite !skipn_nil. reflexivity.
  - destruct a as [|a']; [reflexivity|]. cbn [Nat.add skipn]. apply IH.
Qed.

Lemma skipn_cons_tail {A} (l : list A) : forall n x t, skipn n l = x :: t -> skipn (S n) l = t /\ (n < length l)%nat.
Proof.
  induction l as [|y l' IH]; intros n x t H.
  - rewrite skipn_nil in H. discriminate.
  - destruct n as [|n'].
    + cbn [skipn] in H. inversion H; subst. cbn [skipn length]. split; [reflexivity | lia].
    + cbn [skipn] in H. apply IH in H. destruct H as [H1 H2]. cbn [skipn length]. split; [exact H1 | lia].
Qed.

(* ------------------------------------------------------------------ Resegment *)
Section Reseg.
Variable d : N.
Variable all : list fsample.

Lemma reseg_concat : forall rest nr seq next,
  rest = skipn nr all -> (nr <= length all)%nat -> (1 <= next)%nat -> (next - 1 <= nr)%nat ->
  concat (reseg_loop d all rest nr seq next) = skipn (next - 1) all.
Proof.
  induction rest as [|s t IH]; intros nr seq next Hr Hn H1 H2; cbn [reseg_loop].
  - cbn [concat]. rewrite app_nil_r. unfold slice. apply firstn_all2. rewrite skipn_length. lia.
  - symmetry in Hr. apply skipn_cons_tail in Hr. destruct Hr as [Ht Hlt].
    assert (Hsplit : slice all next (nr + 1) ++ skipn nr all = skipn (next - 1) all).
    { unfold slice. replace nr with ((next - 1) + (nr + 1 - next))%nat at 2 by lia.
      rewrite skipn_add. apply firstn_skipn. }
    destruct ((u64 (d * seq) <=? pres_time s) && is_sync s).
    + cbn [concat]. rewrite (IH (S nr) (seq + 1) (nr + 1)%nat); [ | symmetry; exact Ht | lia | lia | lia ].
      replace (nr + 1 - 1)%nat with nr by lia. exact Hsplit.
    + apply IH; [symmetry; exact Ht | lia | lia | lia].
Qed.

(* the first produced segment is a slice that reaches at least up to the current position *)
Lemma reseg_first : forall rest nr seq next,
  rest = skipn nr all -> (nr <= length all)%nat ->
  exists b others, reseg_loop d all rest nr seq next = slice all next b :: others /\
                   (nr + 1 <= b)%nat /\ (b <= length all + 1)%nat.
Proof.
  induction rest as [|s t IH]; intros nr seq next Hr Hn; cbn [reseg_loop].
  - exists (length all + 1)%nat, []. split; [reflexivity | lia].
  - symmetry in Hr. apply skipn_cons_tail in Hr. destruct Hr as [Ht Hlt].
    destruct ((u64 (d * seq) <=? pres_time s) && is_sync s).
    + eexists (nr + 1)%nat, _. split; [reflexivity | lia].
    + destruct (IH (S nr) seq next (eq_sym Ht) ltac:(lia)) as (b & o & E & Hb1 & Hb2).
      exists b, o. split; [exact E | lia].
Qed.

Lemma reseg_starts : forall rest nr seq next seg others,
  rest = skipn nr all -> (nr <= length all)%nat ->
  reseg_loop d all rest nr seq next = seg :: others ->
  segs_start_ok d seq others.
Proof.
  induction rest as [|s t IH]; intros nr seq next seg others Hr Hn H; cbn [reseg_loop] in H.
  - inversion H; subst. exact I.
  - pose proof Hr as Hr0. symmetry in Hr. apply skipn_cons_tail in Hr. destruct Hr as [Ht Hlt].
    destruct ((u64 (d * seq) <=? pres_time s) && is_sync s) eqn:Ec.
    + inversion H; subst seg others. clear H.
      destruct (reseg_first t (S nr) (seq + 1) (nr + 1)%nat (eq_sym Ht) ltac:(lia)) as (b & o & E & Hb1 & Hb2).
      rewrite E. cbn [segs_start_ok]. split.
      * unfold slice. replace (nr + 1 - 1)%nat with nr by lia. rewrite <- Hr0.
        destruct (b - (nr + 1))%nat as [|k] eqn:Ek; [lia|]. cbn [firstn].
        apply andb_true_iff in Ec. destruct Ec as [E1 E2]. split; [exact E2 | lia].
      * eapply (IH (S nr) (seq + 1) (nr + 1)%nat); [symmetry; exact Ht | lia | exact E].
    + eapply IH; [symmetry; exact Ht | | exact H]. lia.
Qed.
End Reseg.

Lemma resegment_conserves d ss segs :
  resegment d ss = Ok segs ->
  concat segs = ss /\
  exists first others, segs = first :: others /\ segs_start_ok d 1 others.
Proof.
  unfold resegment. destruct (d =? 0); [discriminate|].
  destruct ss as [|s0 t0] eqn:Ess; [discriminate|]. rewrite <- Ess. intros H. inversion H; subst segs. clear H.
  split.
  - rewrite (reseg_concat d ss ss 0 1 1); [reflexivity | reflexivity | lia | lia | lia].
  - destruct (reseg_first d ss ss 0 1 1%nat eq_refl ltac:(lia)) as (b & o & E & _).
    exists (slice ss 1 b), o. split; [exact E|].
    eapply (reseg_starts d ss ss 0 1 1%nat); [reflexivity | lia | exact E].
Qed.

(* ------------------------------------------------------------------ Fragmentify *)
Definition frag_inv (done : list (list fsample)) (cur : option (list fsample)) : Prop :=
  Forall (fun f => f <> []) done /\ (forall c, cur = Some c -> c <> []).

Lemma close_frag_nonempty done cur : frag_inv done cur -> Forall (fun f => f <> []) (close_frag done cur).
Proof.
  intros [H1 H2]. destruct cur as [c|]; cbn [close_frag]; [|exact H1].
  apply Forall_app. split; [exact H1|]. constructor; [apply H2; reflexivity | constructor].
Qed.

Lemma fragmentify_samples_spec dur : forall ss cum done cur,
  frag_inv done cur -> (cum <> 0 -> cur <> None) ->
  exists cum' done' cur',
    fragmentify_samples dur ss cum done cur = Ok (cum', done', cur') /\
    frag_inv done' cur' /\ (cum' <> 0 -> cur' <> None) /\
    concat (close_frag done' cur') = concat (close_frag done cur) ++ ss.
Proof.
  induction ss as [|s t IH]; intros cum done cur HJ HK; cbn [fragmentify_samples].
  - exists cum, done, cur. rewrite app_nil_r. repeat split; try assumption; apply HJ.
  - destruct (cum =? 0) eqn:Ec.
    + set (cum1 := u32 (cum + fs_dur s)).
      destruct (IH (if dur <=? cum1 then 0 else cum1) (close_frag done cur) (Some ([] ++ [s])))
        as (c' & d' & u' & E & J' & K' & C').
      * split; [apply close_frag_nonempty; exact HJ|]. intros c Hc. inversion Hc. discriminate.
      * intros _. discriminate.
      * exists c', d', u'. split; [exact E|]. split; [exact J'|]. split; [exact K'|].
        rewrite C'. cbn [close_frag app]. rewrite concat_app. cbn [concat]. rewrite app_nil_r, <- app_assoc. reflexivity.
    + destruct cur as [c|]; [|exfalso; apply HK; [lia | reflexivity]].
      set (cum1 := u32 (cum + fs_dur s)).
      destruct (IH (if dur <=? cum1 then 0 else cum1) done (Some (c ++ [s])))
        as (c' & d' & u' & E & J' & K' & C').
      * split; [apply HJ|]. intros c0 Hc. inversion Hc. destruct c; discriminate.
      * intros _. discriminate.
      * exists c', d', u'. split; [exact E|]. split; [exact J'|]. split; [exact K'|].
        rewrite C'. cbn [close_frag]. rewrite !concat_app. cbn [concat]. rewrite !app_nil_r, <- !app_assoc. reflexivity.
Qed.

Lemma fragmentify_frags_spec dur : forall frags cum done cur,
  frag_inv done cur -> (cum <> 0 -> cur <> None) ->
  exists outs, fragmentify_frags dur frags cum done cur = Ok outs /\
               Forall (fun f => f <> []) outs /\
               concat outs = concat (close_frag done cur) ++ concat frags.
Proof.
  induction frags as [|f r IH]; intros cum done cur HJ HK; cbn [fragmentify_frags].
  - exists (close_frag done cur). cbn [concat]. rewrite app_nil_r.
    split; [reflexivity | split; [apply close_frag_nonempty; exact HJ | reflexivity]].
  - destruct (fragmentify_samples_spec dur f cum done cur HJ HK) as (c' & d' & u' & E & J' & K' & C').
    rewrite E. cbn [rbind]. destruct (IH c' d' u' J' K') as (outs & Eo & Fo & Co).
    exists outs. split; [exact Eo | split; [exact Fo|]]. rewrite Co, C'. cbn [concat]. rewrite app_assoc. reflexivity.
Qed.

Lemma fragmentify_conserves dur frags :
  exists outs, fragmentify dur frags = Ok outs /\ concat outs = concat frags /\ Forall (fun f => f <> []) outs.
Proof.
  unfold fragmentify.
  destruct (fragmentify_frags_spec dur frags 0 [] None) as (outs & E & F & C).
  - split; [constructor | intros c H; discriminate].
  - intros H; congruence.
  - exists outs. cbn [close_frag concat app] in C. auto.
Qed.

(* ------------------------------------------------------------------ combine-segs: reading without trex *)
Lemma add_defaults_ext t : forall ss i d1 d2 z1 z2 f1 f2,
  (ti_has_dur t = true \/ d1 = d2) ->
  (ti_has_size t = true \/ z1 = z2) ->
  (ti_has_flags t = true \/ f1 = f2 \/ (ti_has_first_flags t = true /\ i = O /\ (length ss <= 1)%nat)) ->
  add_defaults t d1 z1 f1 i ss = add_defaults t d2 z2 f2 i ss.
Proof.
  induction ss as [|[s sz] r IH]; intros i d1 d2 z1 z2 f1 f2 Hd Hz Hf; cbn [add_defaults]; [reflexivity|].
  f_equal.
  - f_equal. f_equal.
    + destruct (ti_has_dur t); [reflexivity | destruct Hd; [discriminate | assumption]].
    + destruct (ti_has_flags t); [reflexivity|].
      destruct Hf as [Hf | [Hf | (Hf1 & Hf2 & _)]]; [discriminate | subst; reflexivity |].
      subst i. rewrite Hf1. reflexivity.
    + destruct (ti_has_size t); [reflexivity | destruct Hz; [discriminate | assumption]].
  - destruct Hf as [Hf | [Hf | (Hf1 & Hf2 & Hf3)]].
    + apply IH; auto.
    + apply IH; auto.
    + destruct r; [reflexivity | cbn [length] in Hf3; lia].
Qed.

Lemma pick_some v tx tx' : pick (Some v) tx = pick (Some v) tx'.
Proof. reflexivity. Qed.

Lemma read_trun_indep f t sizes tx :
  trun_indep_of_trex f t = true -> read_trun f None t sizes = read_trun f (Some tx) t sizes.
Proof.
  unfold trun_indep_of_trex, read_trun. intros H.
  apply andb_true_iff in H. destruct H as [H Hf]. apply andb_true_iff in H. destruct H as [Hd Hz].
  apply add_defaults_ext.
  - destruct (ti_has_dur t); [left; reflexivity|]. right. destruct (fi_def_dur f); [reflexivity | discriminate].
  - destruct (ti_has_size t); [left; reflexivity|]. right. destruct (fi_def_size f); [reflexivity | discriminate].
  - destruct (ti_has_flags t); [left; reflexivity|]. right.
    destruct (fi_def_flags f); [left; reflexivity|]. right.
    cbn [orb] in Hf. apply andb_true_iff in Hf. destruct Hf as [Hf1 Hf2].
    split; [exact Hf1 | split; [reflexivity|]].
    apply Nat.leb_le in Hf2. rewrite combine_length. lia.
Qed.

(* without the hypothesis the two readings differ: a trun relying on the trex default duration *)
Lemma read_trun_needs_trex_refuted :
  exists f t sizes tx, read_trun f None t sizes <> read_trun f (Some tx) t sizes.
Proof.
  exists (mkFragIn None (Some 4) (Some 0) [mkTrunIn false true true false [mkFS 0 0 0%Z 0 [1]]]),
         (mkTrunIn false true true false [mkFS 0 0 0%Z 0 [1]]), [1], (mkTrex 1024 0 0).
  vm_compute. discriminate.
Qed.

(* ------------------------------------------------------------------ combine-segs: multiplexing *)
Definition samples_of (tf : traf_out) : list fsample := concat (map snd (tf_truns tf)).

Definition traf_ok (tf : traf_out) : Prop :=
  Forall (fun tr => snd tr <> []) (tf_truns tf) /\
  match samples_of tf with [] => True | s :: _ => tf_tfdt tf = fs_dts s end.

Lemma samples_of_nonempty tf p l : traf_ok tf -> tf_truns tf = p :: l -> samples_of tf <> [].
Proof.
  intros [H _] E. unfold samples_of. rewrite E in *. inversion H; subst. cbn [map concat].
  destruct (snd p); [congruence | discriminate].
Qed.

Lemma add_to_traf_spec tf n s :
  traf_ok tf ->
  tf_id (fst (add_to_traf tf n s)) = tf_id tf /\
  samples_of (fst (add_to_traf tf n s)) = samples_of tf ++ [s] /\
  traf_ok (fst (add_to_traf tf n s)).
Proof.
  intros Hok. unfold add_to_traf. destruct (tf_truns tf) as [|p l] eqn:Et.
  - cbn [rev app]. replace (n + 1 - 1) with n by lia. rewrite N.eqb_refl. cbn [fst tf_id].
    unfold samples_of at 1 2. cbn [tf_truns rev app map concat snd]. rewrite Et. cbn [map concat app].
    split; [reflexivity | split; [reflexivity|]].
    split; cbn [tf_truns tf_tfdt]; [constructor; [discriminate | constructor] | unfold samples_of; reflexivity].
  - assert (Hne : samples_of tf <> []) by (eapply samples_of_nonempty; eassumption).
    assert (Htf : match p :: l with [(_, [])] => fs_dts s | _ => tf_tfdt tf end = tf_tfdt tf).
    { destruct p as [w0 l0]. destruct l0; [|destruct l; reflexivity].
      destruct Hok as [Hf _]. rewrite Et in Hf. inversion Hf; subst. cbn [snd] in *. congruence. }
    rewrite Htf. clear Htf.
    destruct (rev (p :: l)) as [|[w lw] before] eqn:Er.
    { apply (f_equal (@length _)) in Er. rewrite rev_length in Er. discriminate. }
    assert (Epl : p :: l = rev before ++ [(w, lw)]).
    { rewrite <- (rev_involutive (p :: l)), Er. reflexivity. }
    assert (Hs : samples_of tf = concat (map snd (rev before)) ++ lw).
    { unfold samples_of. rewrite Et, Epl, map_app, concat_app. cbn [map concat snd]. rewrite app_nil_r. reflexivity. }
    destruct Hok as [Hf Hd]. rewrite Et, Epl in Hf. apply Forall_app in Hf. destruct Hf as [Hf1 Hf2].
    destruct (w =? n - 1); cbn [fst tf_id].
    + split; [reflexivity|].
      assert (Hs' : samples_of (mkTraf (tf_id tf) (tf_tfdt tf) (rev ((w, lw ++ [s]) :: before))) = samples_of tf ++ [s]).
      { unfold samples_of at 1. cbn [tf_truns rev]. rewrite map_app, concat_app. cbn [map concat snd].
        rewrite app_nil_r, Hs, <- app_assoc. reflexivity. }
      split; [exact Hs'|]. split.
      * cbn [tf_truns rev]. apply Forall_app. split; [exact Hf1|]. constructor; [|constructor].
        cbn [snd]. destruct lw; discriminate.
      * rewrite Hs'. cbn [tf_tfdt]. destruct (samples_of tf); [congruence | exact Hd].
    + split; [reflexivity|].
      assert (Hs' : samples_of (mkTraf (tf_id tf) (tf_tfdt tf) ((p :: l) ++ [(n, [s])])) = samples_of tf ++ [s]).
      { unfold samples_of at 1. cbn [tf_truns]. rewrite map_app, concat_app. cbn [map concat snd].
        rewrite app_nil_r. unfold samples_of. rewrite Et. reflexivity. }
      split; [exact Hs'|]. split.
      * cbn [tf_truns]. rewrite Epl. apply Forall_app. split; [apply Forall_app; split; assumption|].
        constructor; [discriminate | constructor].
      * rewrite Hs'. cbn [tf_tfdt]. destruct (samples_of tf); [congruence | exact Hd].
Qed.

Fixpoint find_traf (tfs : list traf_out) (id : N) : option traf_out :=
  match tfs with
  | [] => None
  | tf :: r => if tf_id tf =? id then Some tf else find_traf r id
  end.
Definition track_samples (tfs : list traf_out) (id : N) : option (list fsample) :=
  option_map samples_of (find_traf tfs id).

Lemma add_in_trafs_spec s : forall tfs id n,
  Forall traf_ok tfs -> In id (map tf_id tfs) ->
  exists tfs' n', add_in_trafs tfs id n s = Some (tfs', n') /\
    Forall traf_ok tfs' /\ map tf_id tfs' = map tf_id tfs /\
    forall id', track_samples tfs' id' =
                if id' =? id then option_map (fun l => l ++ [s]) (track_samples tfs id')
                else track_samples tfs id'.
Proof.
  induction tfs as [|tf r IH]; intros id n Hok Hin; [contradiction|].
  inversion Hok as [|? ? Hok1 Hok2]; subst. cbn [add_in_trafs].
  destruct (tf_id tf =? id) eqn:Eid.
  - destruct (add_to_traf_spec tf n s Hok1) as (Hi & Hs & Ht).
    destruct (add_to_traf tf n s) as [tf' n'] eqn:Ea. cbn [fst] in *.
    exists (tf' :: r), n'. split; [reflexivity|]. split; [constructor; assumption|].
    split; [cbn [map]; rewrite Hi; reflexivity|].
    intros id'. unfold track_samples. cbn [find_traf]. rewrite Hi.
    apply N.eqb_eq in Eid. subst id.
    destruct (tf_id tf =? id') eqn:E'.
    + apply N.eqb_eq in E'. subst id'. rewrite N.eqb_refl. cbn [option_map]. rewrite Hs. reflexivity.
    + assert (E2 : (id' =? tf_id tf) = false) by lia. rewrite E2. reflexivity.
  - cbn [map] in Hin. destruct Hin as [Hin | Hin]; [lia|].
    destruct (IH id n Hok2 Hin) as (r' & n' & E & Hok' & Hids & Hrd). rewrite E.
    exists (tf :: r'), n'. split; [reflexivity|]. split; [constructor; assumption|].
    split; [cbn [map]; rewrite Hids; reflexivity|].
    intros id'. unfold track_samples in *. cbn [find_traf].
    destruct (tf_id tf =? id') eqn:E'.
    + assert (E2 : (id' =? id) = false) by lia. rewrite E2. reflexivity.
    + apply Hrd.
Qed.

Definition fo_ok (fo : frag_out) (ids : list N) : Prop :=
  Forall traf_ok (fo_trafs fo) /\ map tf_id (fo_trafs fo) = ids.

Lemma add_all_spec ids id : forall ss fo,
  fo_ok fo ids -> In id ids ->
  fo_ok (add_all fo id ss) ids /\
  forall id', track_samples (fo_trafs (add_all fo id ss)) id' =
              if id' =? id then option_map (fun l => l ++ ss) (track_samples (fo_trafs fo) id')
              else track_samples (fo_trafs fo) id'.
Proof.
  unfold add_all. induction ss as [|s t IH]; intros fo [Hok Hids] Hin; cbn [fold_left].
  - split; [split; assumption|]. intros id'. destruct (id' =? id); [|reflexivity].
    destruct (track_samples (fo_trafs fo) id'); cbn [option_map]; [rewrite app_nil_r|]; reflexivity.
  - assert (Hin' : In id (map tf_id (fo_trafs fo))) by (rewrite Hids; exact Hin).
    destruct (add_in_trafs_spec s (fo_trafs fo) id (fo_next fo) Hok Hin') as (tfs' & n' & E & Hok' & Hids' & Hrd).
    unfold add_sample_to_track. rewrite E.
    destruct (IH (mkFragOut tfs' n')) as [Hfo Hrd2]; [split; cbn [fo_trafs]; [exact Hok' | congruence] | exact Hin |].
    split; [exact Hfo|]. intros id'. rewrite Hrd2. cbn [fo_trafs]. rewrite Hrd.
    destruct (id' =? id); [|reflexivity].
    destruct (track_samples (fo_trafs fo) id'); cbn [option_map]; [rewrite <- app_assoc|]; reflexivity.
Qed.

Lemma combine_fold_spec ids : forall pairs fo id ss,
  fo_ok fo ids -> (forall p, In p pairs -> In (fst p) ids) -> NoDup (map fst pairs) ->
  In (id, ss) pairs ->
  let fo' := fold_left (fun st p => add_all st (fst p) (snd p)) pairs fo in
  fo_ok fo' ids /\
  track_samples (fo_trafs fo') id = option_map (fun l => l ++ ss) (track_samples (fo_trafs fo) id).
Proof.
  induction pairs as [|[i0 s0] r IH]; intros fo id ss Hfo Hsub Hnd Hin; [contradiction|].
  cbn [fold_left fst snd].
  assert (Hi0 : In i0 ids) by (apply (Hsub (i0, s0)); left; reflexivity).
  destruct (add_all_spec ids i0 s0 fo Hfo Hi0) as [Hfo1 Hrd1].
  cbn [map fst] in Hnd. inversion Hnd as [|? ? Hni Hnd']; subst.
  destruct Hin as [Hin | Hin].
  - inversion Hin; subst i0 s0. clear Hin.
    (* the remaining pairs do not touch id *)
    assert (Hrest : forall pairs' fo1, fo_ok fo1 ids -> (forall p, In p pairs' -> In (fst p) ids) ->
              ~ In id (map fst pairs') ->
              fo_ok (fold_left (fun st p => add_all st (fst p) (snd p)) pairs' fo1) ids /\
              track_samples (fo_trafs (fold_left (fun st p => add_all st (fst p) (snd p)) pairs' fo1)) id =
              track_samples (fo_trafs fo1) id).
    { induction pairs' as [|[i1 s1] r' IH']; intros fo1 Hf1 Hs1 Hn1; cbn [fold_left]; [split; [exact Hf1 | reflexivity]|].
      cbn [map fst snd] in *.
      assert (Hi1 : In i1 ids) by (apply (Hs1 (i1, s1)); left; reflexivity).
      destruct (add_all_spec ids i1 s1 fo1 Hf1 Hi1) as [Hf2 Hr2].
      destruct (IH' (add_all fo1 i1 s1) Hf2) as [Hf3 Hr3].
      - intros p Hp. apply Hs1. right. exact Hp.
      - intros Hc. apply Hn1. right. exact Hc.
      - split; [exact Hf3|]. rewrite Hr3, Hr2.
        assert (E : (id =? i1) = false).
        { apply N.eqb_neq. intros ->. apply Hn1. left. reflexivity. }
        rewrite E. reflexivity. }
    destruct (Hrest r (add_all fo id ss) Hfo1) as [Hf Hr].
    + intros p Hp. apply Hsub. right. exact Hp.
    + exact Hni.
    + split; [exact Hf|]. rewrite Hr, Hrd1, N.eqb_refl. reflexivity.
  - destruct (IH (add_all fo i0 s0) id ss Hfo1) as [Hf Hr]; try assumption.
    + intros p Hp. apply Hsub. right. exact Hp.
    + split; [exact Hf|]. rewrite Hr, Hrd1.
      assert (E : (id =? i0) = false).
      { apply N.eqb_neq. intros ->. apply Hni. apply (in_map fst) in Hin. exact Hin. }
      rewrite E. reflexivity.
Qed.

Lemma create_multi_ok ids : fo_ok (create_multi ids) ids /\
  forall id, In id ids -> track_samples (fo_trafs (create_multi ids)) id = Some [].
Proof.
  unfold create_multi, fo_ok. cbn [fo_trafs]. split; [split|].
  - apply Forall_forall. intros tf Hin. apply in_map_iff in Hin. destruct Hin as (i & <- & _).
    split; [constructor | exact I].
  - rewrite map_map. cbn [tf_id]. apply map_id.
  - intros id Hin. unfold track_samples. induction ids as [|i r IH]; [contradiction|].
    cbn [map find_traf tf_id]. destruct (i =? id) eqn:E; [reflexivity|].
    destruct Hin as [-> | Hin]; [lia | apply IH; exact Hin].
Qed.

Lemma retime_contiguous : forall ss base, contiguous base ss = true -> retime base ss = ss.
Proof.
  induction ss as [|s t IH]; intros base H; cbn [retime contiguous] in *; [reflexivity|].
  apply andb_true_iff in H. destruct H as [H1 H2]. apply N.eqb_eq in H1. subst base.
  rewrite IH by exact H2. destruct s; reflexivity.
Qed.

Lemma read_track_find tfs id :
  read_track tfs id = option_map (fun tf => retime (tf_tfdt tf) (samples_of tf)) (find_traf tfs id).
Proof.
  induction tfs as [|tf r IH]; cbn [read_track find_traf]; [reflexivity|].
  destruct (tf_id tf =? id); [reflexivity | exact IH].
Qed.

Lemma find_traf_in tfs id tf : find_traf tfs id = Some tf -> In tf tfs.
Proof.
  induction tfs as [|t r IH]; cbn [find_traf]; [discriminate|].
  destruct (tf_id t =? id); intros H; [inversion H; subst; left; reflexivity | right; auto].
Qed.

Lemma mux_conserves ids inputs id ss :
  NoDup ids -> In (id, ss) (combine ids inputs) -> contiguous_list ss = true ->
  read_track (fo_trafs (combine_tracks ids inputs)) id = Some ss.
Proof.
  intros Hnd Hin Hc. unfold combine_tracks.
  destruct (create_multi_ok ids) as [Hfo0 Hrd0].
  assert (Hsub : forall p, In p (combine ids inputs) -> In (fst p) ids).
  { intros [a b] Hp. apply in_combine_l in Hp. exact Hp. }
  assert (Hnd' : NoDup (map fst (combine ids inputs))).
  { clear -Hnd. revert inputs. induction ids as [|i r IH]; intros inputs; [constructor|].
    destruct inputs as [|x xs]; [constructor|]. cbn [combine map fst].
    inversion Hnd; subst. constructor; [|apply IH; assumption].
    intros Hc. apply in_map_iff in Hc. destruct Hc as ([a b] & Ha & Hb). cbn [fst] in Ha. subst a.
    apply in_combine_l in Hb. contradiction. }
  destruct (combine_fold_spec ids (combine ids inputs) (create_multi ids) id ss Hfo0 Hsub Hnd' Hin) as [[Hok _] Hrd].
  rewrite Hrd0 in Hrd by (apply (Hsub (id, ss)); exact Hin). cbn [option_map app] in Hrd.
  rewrite read_track_find. unfold track_samples in Hrd.
  destruct (find_traf _ id) as [tf|] eqn:Ef; [|discriminate]. cbn [option_map] in *.
  inversion Hrd as [Hs]. rewrite Hs. f_equal.
  apply find_traf_in in Ef. rewrite Forall_forall in Hok. destruct (Hok tf Ef) as [_ Hd].
  rewrite Hs in Hd. unfold contiguous_list in Hc.
  destruct ss as [|s0 t0]; [reflexivity|]. rewrite Hd. apply retime_contiguous. exact Hc.
Qed.

(* ------------------------------------------------------------------ reading the pieces back *)
Fixpoint total_dur (ss : list fsample) : N :=
  match ss with [] => 0 | s :: t => fs_dur s + total_dur t end.

Lemma contiguous_app a : forall base b,
  contiguous base (a ++ b) = true -> contiguous base a = true /\ contiguous (base + total_dur a) b = true.
Proof.
  induction a as [|s t IH]; intros base b H; cbn [app contiguous total_dur] in *.
  - split; [reflexivity|]. rewrite N.add_0_r. exact H.
  - apply andb_true_iff in H. destruct H as [H1 H2]. apply IH in H2. destruct H2 as [H2 H3].
    rewrite H1, H2. split; [reflexivity|]. rewrite N.add_assoc. exact H3.
Qed.

Lemma retime_pieces : forall segs base,
  contiguous base (concat segs) = true -> map retime_seg segs = segs.
Proof.
  induction segs as [|seg r IH]; intros base H; cbn [map concat] in *; [reflexivity|].
  apply contiguous_app in H. destruct H as [H1 H2]. f_equal; [|eapply IH; exact H2].
  destruct seg as [|s t]; [reflexivity|]. cbn [retime_seg].
  pose proof H1 as H1'. cbn [contiguous] in H1'. apply andb_true_iff in H1'. destruct H1' as [E _].
  apply N.eqb_eq in E. rewrite E. apply retime_contiguous. exact H1.
Qed.

Lemma contiguous_list_base ss : contiguous_list ss = true -> exists base, contiguous base ss = true.
Proof. destruct ss as [|s t]; intros H; [exists 0; reflexivity | exists (fs_dts s); exact H]. Qed.

Lemma resegment_read_back d ss segs :
  contiguous_list ss = true -> resegment d ss = Ok segs -> concat (map retime_seg segs) = ss.
Proof.
  intros Hc H. destruct (resegment_conserves d ss segs H) as [Hcat _].
  destruct (contiguous_list_base ss Hc) as [base Hb]. rewrite <- Hcat in Hb.
  rewrite (retime_pieces segs base Hb). exact Hcat.
Qed.

Lemma fragmentify_read_back dur frags :
  contiguous_list (concat frags) = true ->
  exists outs, fragmentify dur frags = Ok outs /\ concat (map retime_seg outs) = concat frags.
Proof.
  intros Hc. destruct (fragmentify_conserves dur frags) as (outs & E & Hcat & _).
  exists outs. split; [exact E|].
  destruct (contiguous_list_base _ Hc) as [base Hb]. rewrite <- Hcat in Hb.
  rewrite (retime_pieces outs base Hb). exact Hcat.
Qed.

(* a decode-time gap inside an output piece is closed by the rewrite *)
Lemma read_back_gap_refuted :
  exists d ss segs outs,
    resegment d ss = Ok segs /\ concat (map retime_seg segs) <> ss /\
    fragmentify d [firstn 2 ss; skipn 2 ss] = Ok outs /\ concat (map retime_seg outs) <> ss.
Proof.
  pose (ss := [mkFS 0 40 0%Z 33554432 []; mkFS 40 40 0%Z 65536 []; mkFS 500 40 0%Z 65536 []]).
  exists 1000, ss, [ss], [ss].
  split; [vm_compute; reflexivity|]. split; [vm_compute; discriminate|].
  split; [vm_compute; reflexivity|]. vm_compute; discriminate.
Qed.

(* ------------------------------------------------------------------ combine-segs end to end *)
Lemma in_combine_map {A B C} (g : B -> C) : forall (l1 : list A) (l2 : list B) a b,
  In (a, b) (combine l1 l2) -> In (a, g b) (combine l1 (map g l2)).
Proof.
  induction l1 as [|x r IH]; intros l2 a b H; [contradiction|].
  destruct l2 as [|y l2']; [contradiction|]. cbn [combine map] in *.
  destruct H as [H | H]; [inversion H; subst; left; reflexivity | right; apply IH; exact H].
Qed.

Lemma mux_end_to_end ids xs id x :
  NoDup ids -> In (id, x) (combine ids xs) ->
  trun_indep_of_trex (mi_frag x) (mi_trun x) = true ->
  contiguous_list (mux_read true x) = true ->
  read_track (fo_trafs (combine_inputs ids xs)) id = Some (mux_read true x).
Proof.
  intros Hnd Hin Hind Hc. unfold combine_inputs.
  assert (E : mux_read false x = mux_read true x).
  { unfold mux_read. rewrite (read_trun_indep _ _ _ (mi_trex x) Hind). reflexivity. }
  apply mux_conserves; [exact Hnd | | exact Hc].
  rewrite <- E. apply in_combine_map. exact Hin.
Qed.

Lemma resegment_file_conserves d frags segs :
  resegment_file d frags = Ok segs ->
  concat segs = concat (map (@concat _) frags) /\
  exists first others, segs = first :: others /\ segs_start_ok d 1 others.
Proof. unfold resegment_file, in_samples. apply resegment_conserves. Qed.
