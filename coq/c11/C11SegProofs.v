(* C11SegProofs.v — the segmenter's intervals tile the sample numbers 1..N of every track. *)
From V.lib Require Import Base.
From V.c11 Require Import C11Model.

(* ------------------------------------------------------------------ ceil_div *)
Lemma ceil_le_count rel c d : rel < c * d -> ceil_div rel d <= c.
Proof.
  intros H. assert (Hd : d <> 0) by (intros ->; lia).
  assert (Hq : rel / d < c) by (apply N.div_lt_upper_bound; [exact Hd | lia]).
  unfold ceil_div. destruct (rel mod d =? 0); lia.
Qed.

Lemma ceil_mono a b d : d <> 0 -> a <= b -> ceil_div a d <= ceil_div b d.
Proof.
  intros Hd Hab. unfold ceil_div.
  pose proof (N.div_le_mono a b d Hd Hab) as Hq.
  pose proof (N.div_mod a d Hd) as Ha. pose proof (N.div_mod b d Hd) as Hb.
  pose proof (N.mod_lt a d Hd) as Hra. pose proof (N.mod_lt b d Hd) as Hrb.
  remember (a / d) as qa. remember (b / d) as qb.
  remember (a mod d) as ra. remember (b mod d) as rb.
  destruct (ra =? 0) eqn:E1; destruct (rb =? 0) eqn:E2; try lia.
  (* ra <> 0, rb = 0: need qa + 1 <= qb *)
  apply N.eqb_neq in E1. apply N.eqb_eq in E2.
  destruct (N.eq_dec qa qb) as [-> | Hne]; [ nia | lia ].
Qed.

(* ------------------------------------------------------------------ GetDecodeTime is monotone *)
Lemma gdt_loop_ge e : forall rem dec dt d, gdt_loop e rem dec = Ok (dt, d) -> dec <= dt.
Proof.
  induction e as [|[c d0] t IH]; intros rem dec dt d H; cbn [gdt_loop] in H; [discriminate|].
  destruct (c <=? rem) eqn:E.
  - apply IH in H. nia.
  - inversion H; subst. nia.
Qed.

Lemma gdt_loop_mono e : forall r1 r2 dec dt1 d1 dt2 d2,
  r1 <= r2 -> gdt_loop e r1 dec = Ok (dt1, d1) -> gdt_loop e r2 dec = Ok (dt2, d2) -> dt1 <= dt2.
Proof.
  induction e as [|[c d0] t IH]; intros r1 r2 dec dt1 d1 dt2 d2 Hr H1 H2;
    cbn [gdt_loop] in H1, H2; [discriminate|].
  destruct (c <=? r1) eqn:E1; destruct (c <=? r2) eqn:E2.
  - eapply IH; [ | exact H1 | exact H2 ]. lia.
  - lia.
  - inversion H1; subst. apply gdt_loop_ge in H2.
    assert (r1 * d1 <= c * d1) by nia. lia.
  - inversion H1; inversion H2; subst. nia.
Qed.

Lemma get_decode_time_mono e n1 n2 dt1 d1 dt2 d2 :
  n1 <= n2 -> get_decode_time e n1 = Ok (dt1, d1) -> get_decode_time e n2 = Ok (dt2, d2) -> dt1 <= dt2.
Proof.
  unfold get_decode_time. intros Hn H1 H2.
  destruct (n1 =? 0) eqn:E1; [discriminate|]. destruct (n2 =? 0) eqn:E2; [discriminate|].
  eapply gdt_loop_mono; [ | exact H1 | exact H2 ]. lia.
Qed.

(* ------------------------------------------------------------------ GetSampleNrAtTime *)
(* a successful lookup lands strictly after the samples already passed, except in the
   "final single zero duration" case *)
Lemma snat_loop_lower e : forall t aT aN lc ld n,
  snat_loop e t aT aN lc ld = Ok n -> aN + 1 <= n \/ (n = aN /\ lc = 1 /\ ld = 0).
Proof.
  induction e as [|[c d] rest IH]; intros t aT aN lc ld n H; cbn [snat_loop] in H.
  - destruct (ld =? 0) eqn:E1; destruct (lc =? 1) eqn:E2; destruct (t =? aT) eqn:E3;
      cbn [andb] in H; try discriminate.
    inversion H; subst. right. lia.
  - destruct (t <? aT + c * d) eqn:E.
    + inversion H; subst. left. lia.
    + apply IH in H. destruct H as [H | (H1 & H2 & H3)]; left; lia.
Qed.

Lemma snat_loop_upper e : forall t aT aN lc ld n,
  snat_loop e t aT aN lc ld = Ok n -> aT <= t -> n <= aN + stts_total e + 1.
Proof.
  induction e as [|[c d] rest IH]; intros t aT aN lc ld n H Ht; cbn [snat_loop] in H; cbn [stts_total].
  - destruct ((ld =? 0) && (lc =? 1) && (t =? aT)); [|discriminate]. inversion H; subst. lia.
  - destruct (t <? aT + c * d) eqn:E.
    + inversion H; subst. assert (ceil_div (t - aT) d <= c) by (apply ceil_le_count; lia). lia.
    + apply IH in H; lia.
Qed.

Lemma snat_loop_mono e : forall t1 t2 aT aN lc ld n1 n2,
  t1 <= t2 -> aT <= t1 ->
  snat_loop e t1 aT aN lc ld = Ok n1 -> snat_loop e t2 aT aN lc ld = Ok n2 -> n1 <= n2.
Proof.
  induction e as [|[c d] rest IH]; intros t1 t2 aT aN lc ld n1 n2 Ht Ha H1 H2;
    cbn [snat_loop] in H1, H2.
  - destruct ((ld =? 0) && (lc =? 1) && (t1 =? aT)); [|discriminate].
    destruct ((ld =? 0) && (lc =? 1) && (t2 =? aT)); [|discriminate].
    inversion H1; inversion H2; subst. lia.
  - destruct (t1 <? aT + c * d) eqn:E1; destruct (t2 <? aT + c * d) eqn:E2.
    + inversion H1; inversion H2; subst.
      assert (d <> 0) by (intros ->; lia).
      assert (ceil_div (t1 - aT) d <= ceil_div (t2 - aT) d) by (apply ceil_mono; lia). lia.
    + inversion H1; subst.
      assert (ceil_div (t1 - aT) d <= c) by (apply ceil_le_count; lia).
      apply snat_loop_lower in H2. destruct H2 as [H2 | (H2 & H3 & H4)]; [lia|].
      subst. lia.
    + lia.
    + eapply IH; [ | | exact H1 | exact H2 ]; lia.
Qed.

Lemma snat_ge1 e t n : get_sample_nr_at_time e t = Ok n -> 1 <= n.
Proof.
  unfold get_sample_nr_at_time. destruct e as [|p e']; [discriminate|].
  intros H. apply snat_loop_lower in H. lia.
Qed.

Lemma snat_upper e t n : get_sample_nr_at_time e t = Ok n -> n <= stts_total e + 1.
Proof.
  unfold get_sample_nr_at_time. destruct e as [|p e']; [discriminate|].
  intros H. apply snat_loop_upper in H; lia.
Qed.

Lemma snat_mono e t1 t2 n1 n2 :
  t1 <= t2 -> get_sample_nr_at_time e t1 = Ok n1 -> get_sample_nr_at_time e t2 = Ok n2 -> n1 <= n2.
Proof.
  unfold get_sample_nr_at_time. destruct e as [|p e']; [discriminate|].
  intros Ht H1 H2. eapply snat_loop_mono; [ | | exact H1 | exact H2 ]; lia.
Qed.

(* ------------------------------------------------------------------ sync points are time-sorted *)
Fixpoint chain (lo : N) (l : list N) : Prop :=
  match l with [] => True | x :: t => lo <= x /\ chain x t end.

Lemma chain_weaken l : forall lo lo', lo' <= lo -> chain lo l -> chain lo' l.
Proof. destruct l; cbn [chain]; intros; [exact I|]. intuition lia. Qed.

Lemma sorted_from_chain l : forall lo, sorted_from lo l = true -> chain lo l.
Proof.
  induction l as [|x t IH]; intros lo H; cbn [sorted_from chain] in *; [exact I|].
  apply andb_true_iff in H. destruct H as [H1 H2]. split; [lia|]. apply IH, H2.
Qed.

Lemma rbind_ok {A B} (r : res A) (f : A -> res B) b :
  rbind r f = Ok b -> exists a, r = Ok a /\ f a = Ok b.
Proof. destruct r; cbn [rbind]; intros H; try discriminate. eauto. Qed.

Lemma starts_loop_sorted st ct step : forall stss next lo dlo sps,
  chain lo stss ->
  (forall nr dt d, lo <= nr -> get_decode_time st nr = Ok (dt, d) -> dlo <= dt) ->
  starts_loop st ct step next stss = Ok sps ->
  chain dlo (map sp_dts sps).
Proof.
  induction stss as [|nr t IH]; intros next lo dlo sps Hc Hlo H; cbn [starts_loop] in H.
  - inversion H; subst. exact I.
  - cbn [chain] in Hc. destruct Hc as [Hc1 Hc2].
    apply rbind_ok in H. destruct H as ([dt d] & Hg & H). cbn [fst] in H.
    apply rbind_ok in H. destruct H as (pres & _ & H).
    destruct (Z.of_N next <=? pres)%Z.
    + apply rbind_ok in H. destruct H as (r & Hr & H). inversion H; subst.
      cbn [map chain sp_dts]. split.
      * eapply Hlo; [exact Hc1 | exact Hg].
      * eapply IH; [exact Hc2 | | exact Hr].
        intros nr' dt' d' Hn Hg'. eapply get_decode_time_mono; [exact Hn | exact Hg | exact Hg'].
    + eapply IH; [exact Hc2 | | exact H].
      intros nr' dt' d' Hn Hg'. eapply Hlo; [ | exact Hg']. lia.
Qed.

(* ------------------------------------------------------------------ tiling *)
Lemma range_nil_or s e : range (s, e) = map N.of_nat (seq (N.to_nat s) (N.to_nat (e + 1) - N.to_nat s)).
Proof. reflexivity. Qed.

Lemma seq_split a b c : (a <= b)%nat -> (b <= c)%nat ->
  seq a (c - a) = seq a (b - a) ++ seq b (c - b).
Proof.
  intros H1 H2. replace (c - a)%nat with ((b - a) + (c - b))%nat by lia.
  rewrite seq_app. do 2 f_equal. lia.
Qed.

(* the loop invariant: s = the effective start of the next interval; every later lookup lands at or
   after s; the result covers s .. last_end *)
Lemma intervals_loop_tile syncTs trk N : forall sps start nextStart ivs tlo,
  let s := if nextStart =? 0 then start else nextStart in
  sps <> [] ->
  1 <= s -> s <= N + 1 -> N < 4294967296 ->
  stts_total (t_stts trk) <= N ->
  chain tlo (map sp_dts (tl sps)) ->
  (forall t n, tlo <= t -> get_sample_nr_at_time (t_stts trk) (t * t_timescale trk / syncTs) = Ok n -> s <= n) ->
  intervals_loop syncTs trk N sps start nextStart = Ok ivs ->
  concat (map range ivs) = map N.of_nat (seq (N.to_nat s) (N.to_nat (N + 1) - N.to_nat s)).
Proof.
  induction sps as [|sp rest IH]; intros start nextStart ivs tlo s Hne Hs1 HsN HN Htot Hch Hlook H;
    [congruence|].
  cbn [intervals_loop] in H. fold s in H.
  destruct rest as [|sp2 rest'].
  - inversion H; subst. cbn [map concat]. rewrite app_nil_r. reflexivity.
  - destruct (syncTs =? 0) eqn:Ets; [discriminate|].
    apply rbind_ok in H. destruct H as (n & Hn & H).
    apply rbind_ok in H. destruct H as (r & Hr & H). inversion H; subst. clear H.
    cbn [tl map chain] in Hch. destruct Hch as [Hc1 Hc2].
    pose proof (snat_ge1 _ _ _ Hn) as Hn1.
    pose proof (snat_upper _ _ _ Hn) as HnU.
    assert (Hsn : s <= n) by (eapply Hlook; [exact Hc1 | exact Hn]).
    assert (Hu : u32 (n + 4294967295) = n - 1) by (unfold u32; lia).
    specialize (IH s n r (sp_dts sp2)).
    assert (En : (n =? 0) = false) by lia. rewrite En in IH.
    cbn [map concat]. rewrite IH; try assumption; try lia; try discriminate.
    + rewrite range_nil_or, Hu. rewrite <- map_app. f_equal.
      replace (N.to_nat (n - 1 + 1)) with (N.to_nat n) by lia.
      symmetry. apply seq_split; lia.
    + intros t m Ht Hm. eapply snat_mono; [ | exact Hn | exact Hm].
      apply N.div_le_mono; [lia|]. apply N.mul_le_mono_r. exact Ht.
Qed.

Lemma intervals_tile syncTs sps trk ivs :
  sps <> [] -> chain 0 (map sp_dts sps) ->
  stts_total (t_stts trk) <= t_nsamples trk -> t_nsamples trk < 4294967296 ->
  get_segment_intervals syncTs sps trk = Ok ivs ->
  concat (map range ivs) = seqN1 (t_nsamples trk).
Proof.
  intros Hne Hch Htot HN H. unfold get_segment_intervals in H.
  pose proof (intervals_loop_tile syncTs trk (t_nsamples trk) sps 1 0 ivs
                (match sps with [] => 0 | sp :: _ => sp_dts sp end)) as L.
  cbn [N.eqb] in L. unfold seqN1.
  rewrite L; try assumption; try lia.
  - f_equal. change (N.to_nat 1) with 1%nat. f_equal. lia.
  - destruct sps as [|sp [|sp2 r]]; cbn [tl map chain] in *; intuition.
  - intros t n _ Hn. eapply snat_ge1; exact Hn.
Qed.

(* ------------------------------------------------------------------ the whole plan *)
Lemma first_video_in ts rt : first_video ts = Some rt -> In rt ts.
Proof.
  induction ts as [|t r IH]; cbn [first_video]; [discriminate|].
  destruct (t_video t); intros H; [inversion H; subst; left; reflexivity | right; auto].
Qed.

Lemma starts_sorted ts d syncTs sps :
  wf_tracks ts = true -> get_segment_starts ts d = Ok (syncTs, sps) -> chain 0 (map sp_dts sps).
Proof.
  intros Hwf H. unfold get_segment_starts in H.
  destruct (first_video ts) as [rt|] eqn:Efv; [|discriminate].
  destruct (t_stss rt) as [stss|] eqn:Est; [|discriminate].
  apply rbind_ok in H. destruct H as (sps' & Hs & H). inversion H; subst.
  apply first_video_in in Efv.
  unfold wf_tracks in Hwf. rewrite forallb_forall in Hwf. specialize (Hwf _ Efv).
  unfold wf_track in Hwf. rewrite Est in Hwf. apply andb_true_iff in Hwf. destruct Hwf as [_ Hso].
  eapply starts_loop_sorted; [apply sorted_from_chain; exact Hso | | exact Hs].
  intros; lia.
Qed.

Lemma all_intervals_tile syncTs sps : forall ts ivss,
  sps <> [] -> chain 0 (map sp_dts sps) ->
  (forall t, In t ts -> stts_total (t_stts t) <= t_nsamples t /\ t_nsamples t < 4294967296) ->
  all_intervals get_segment_intervals syncTs sps ts = Ok ivss ->
  Forall2 (fun t ivs => concat (map range ivs) = seqN1 (t_nsamples t)) ts ivss.
Proof.
  induction ts as [|t r IH]; intros ivss Hne Hch Hwf H; cbn [all_intervals] in H.
  - inversion H; subst. constructor.
  - apply rbind_ok in H. destruct H as (iv & Hiv & H).
    apply rbind_ok in H. destruct H as (rest & Hrest & H). inversion H; subst.
    constructor.
    + destruct (Hwf t (or_introl eq_refl)). eapply intervals_tile; eassumption.
    + apply IH; try assumption. intros t' Ht'. apply Hwf. right. exact Ht'.
Qed.

Lemma plan_tile ts d ivss :
  wf_tracks ts = true -> small_tracks ts = true ->
  segment_plan ts d = Ok ivss ->
  Forall2 (fun t ivs => concat (map range ivs) = seqN1 (t_nsamples t)) ts ivss.
Proof.
  intros Hwf Hsm H. unfold segment_plan, segment_plan_with in H.
  apply rbind_ok in H. destruct H as ([syncTs sps] & Hs & H).
  apply rbind_ok in H. destruct H as (ivs & Hiv & H).
  destruct sps as [|sp sps']; [discriminate|]. inversion H; subst.
  apply (all_intervals_tile syncTs (sp :: sps') ts ivss);
    [discriminate | eapply starts_sorted; eassumption | | exact Hiv].
  intros t Ht. unfold wf_tracks, small_tracks in *. rewrite forallb_forall in Hwf, Hsm.
  specialize (Hwf _ Ht). specialize (Hsm _ Ht). unfold wf_track in Hwf.
  apply andb_true_iff in Hwf. lia.
Qed.

(* sample-level corollary: fetching the planned intervals from a track's sample sequence returns
   the sequence, each sample once, in order *)
Lemma nth_error_seq1 {A} (ss : list A) :
  map (fun k => nth_error ss (N.to_nat k - 1)) (seqN1 (lenN ss)) = map Some ss.
Proof.
  unfold seqN1, lenN. rewrite Nat2N.id, map_map.
  induction ss as [|x t IH] using rev_ind; [reflexivity|].
  rewrite app_length. cbn [length]. rewrite seq_app, !map_app. cbn [seq map].
  f_equal.
  - rewrite <- IH. apply map_ext_in. intros k Hk. apply in_seq in Hk.
    rewrite Nat2N.id. apply nth_error_app1. lia.
  - rewrite Nat2N.id. replace (1 + length t - 1)%nat with (length t) by lia.
    rewrite nth_error_app2 by lia. rewrite Nat.sub_diag. reflexivity.
Qed.

Lemma plan_conserves_samples {A} ts d ivss :
  wf_tracks ts = true -> small_tracks ts = true ->
  segment_plan ts d = Ok ivss ->
  Forall2 (fun t ivs => forall ss : list A, lenN ss = t_nsamples t ->
             concat (map (samples_for_interval ss) ivs) = map Some ss) ts ivss.
Proof.
  intros Hwf Hsm H. pose proof (plan_tile ts d ivss Hwf Hsm H) as T.
  clear Hwf Hsm H.
  induction T as [|t ivs ts' ivss' Ht _ IH]; constructor; [|exact IH].
  intros ss Hlen. unfold samples_for_interval.
  rewrite <- (nth_error_seq1 ss), Hlen, <- Ht, concat_map, map_map. reflexivity.
Qed.


(* ------------------------------------------------------------------ the pinned text loses the last sample *)
Lemma pinned_refuted : exists (ts : list track) (d : N) (ivss : list (list (N * N))),
  wf_tracks ts = true /\ small_tracks ts = true /\
  segment_plan_pinned ts d = Ok ivss /\
  ~ Forall2 (fun t ivs => concat (map range ivs) = seqN1 (t_nsamples t)) ts ivss.
Proof.
  exists [mkTrack true 1000 3 [(3, 40)] (Some [1]) None], 1000, [[(1, 2)]].
  repeat split; try (vm_compute; reflexivity).
  intros F. inversion F as [|? ? ? ? Hh _]; subst. vm_compute in Hh. discriminate.
Qed.
