(* C11SyncLazyProofs.v - the decoded-level sync clause for the -lazy writer (makeSingleTrackSegmentsLazyWrite):
   per-segment form of C11LazyProofs.seg_track_lazy_read_back + C11SyncDecProofs. *)
From V.lib Require Import Base.
From V.c11 Require Import C11Model C11SegProofs C11SyncProofs.
From V.c09 Require Import C09Model C09Spec C09BaseProofs C09SttsProofs.
From V.c05 Require Import C05Model C05FragModel C05HistProofs C05GhostProofs C05ReadProofs C05RoundProofs
  C05LazyProofs C05LazyRoundProofs C05Theorems.
From V.c11 Require Import C11FetchModel C11Spec C11FetchProofs C11PipeProofs C11CopyProofs C11LazyProofs C11TotalProofs
  C11SyncDecProofs.

Lemma seg_track_lazy_read_back_each opt f tb T pos0 (tx : C05Model.trex) :
  C09Spec.consistent tb = true -> data_ok f tb = true -> one_offset_box tb = true -> tx_track tx = T ->
  forall ivs outs,
  (forall iv x, In iv ivs -> In x (C11Model.range iv) -> 1 <= x <= nsamples tb) ->
  seg_track_lazy opt f tb T ivs = Ok outs ->
  Forall (fun p => lazy_guard pos0 p = true) outs ->
  exists res, read_all (fun p => read_back tx pos0 (snd p) (fst p)) outs = Ok res /\
              Forall2 (fun iv o => map Some o = map (S_full f tb) (C11Model.range iv)) (written_ivs ivs) res.
Proof.
  intros H Hd Hone Htx. destruct (stts_facts tb H) as [_ [_ [HN _]]].
  induction ivs as [|[a b] ivs IH]; intros outs Hin Hs Hg.
  - cbn [seg_track_lazy] in Hs. injection Hs as <-. exists []. split; [reflexivity|constructor].
  - cbn [seg_track_lazy] in Hs.
    assert (Hin' : forall iv x, In iv ivs -> In x (C11Model.range iv) -> 1 <= x <= nsamples tb).
    { intros iv x Hi. apply Hin. right. exact Hi. }
    unfold write_lazy_segment, fetch_meta_interval in Hs. cbn [fst snd] in Hs.
    destruct (b + 1 <? a) eqn:E1; [cbn [rbind] in Hs; discriminate|].
    unfold written_ivs. cbn [filter fst snd]. fold (written_ivs ivs).
    destruct (N.eq_dec a (b + 1)) as [Eab|Nab].
    + replace (N.to_nat (b + 1 - a)) with O in Hs by lia. cbn [fetch_meta_loop rbind] in Hs.
      replace (a <=? b) with false by (symmetry; apply N.leb_gt; lia).
      destruct (seg_track_lazy opt f tb T ivs) as [r| | |] eqn:Er; cbn [rbind] in Hs; try discriminate.
      injection Hs as <-. apply (IH r Hin' eq_refl Hg).
    + assert (Ha : 1 <= a <= nsamples tb).
      { apply (Hin (a, b)); [left; reflexivity|]. rewrite range_seqN. apply in_seqN. lia. }
      assert (Hb : 1 <= b <= nsamples tb).
      { apply (Hin (a, b)); [left; reflexivity|]. rewrite range_seqN. apply in_seqN. lia. }
      replace (a <=? b) with true by (symmetry; apply N.leb_le; lia).
      set (k := N.to_nat (b + 1 - a)) in *.
      destruct (fetch_meta_loop_ok tb H k a ltac:(lia) ltac:(subst k; lia)) as [metas [Hml Hmm]].
      destruct (fetch_loop_ok f tb H Hd k a ltac:(lia) ltac:(subst k; lia)) as [l [_ Hm]].
      rewrite <- (fulls_metas f tb k a l Hm) in Hmm. apply map_Some_inj in Hmm. subst metas.
      rewrite Hml in Hs. cbn [rbind] in Hs.
      pose proof (map_Some_length _ _ Hm) as Hlen. rewrite map_length, seqN_length in Hlen.
      destruct l as [|x l']; [cbn [length] in Hlen; subst k; lia|].
      cbn [map] in Hs. cbv iota in Hs.
      change (fs_s x :: map fs_s l') with (map fs_s (x :: l')) in Hs.
      remember (x :: l') as FL eqn:EFL.
      destruct (decode_time_correct tb H a Ha) as [t [d [Ht [_ Hq]]]]. rewrite Hq in Hs. cbn [rbind fst] in Hs.
      destruct (add_metas (create_fragment T) T t (map fs_s FL)) as [fr| | |] eqn:Eadd; cbn [rbind] in Hs; try discriminate.
      destruct (encode_frag opt fr) as [fe| | |] eqn:Eenc; cbn [rbind] in Hs; try discriminate.
      rewrite (copy_media_data_ok f tb H Hd Hone a b ltac:(lia) ltac:(lia) ltac:(lia)) in Hs. cbn [rbind] in Hs.
      destruct (seg_track_lazy opt f tb T ivs) as [r| | |] eqn:Er; cbn [rbind] in Hs; try discriminate.
      injection Hs as <-.
      pose proof (Forall_inv Hg) as Hg1. pose proof (Forall_inv_tail Hg) as Hg2. cbv beta in Hg1.
      destruct (IH r Hin' eq_refl Hg2) as [res [Hr Hc]].
      assert (Hdata : S_data f tb a b = flat_map fs_data FL).
      { unfold S_data. fold k. symmetry. apply (S_data_fulls f tb k a FL Hm). }
      rewrite Hdata in Hg1.
      pose proof (expansion_consistent f tb H k a FL ltac:(lia) Hm) as Hcons.
      assert (Hx : S_full f tb a = Some x).
      { rewrite EFL in Hm. destruct k as [|k']; [discriminate|]. cbn [seqN map] in Hm. injection Hm as Hx _. auto. }
      destruct (S_full_fields f tb a x Hx) as [Hxt _]. rewrite Ht in Hxt. injection Hxt as Hxt.
      unfold C05RoundProofs.consistent in Hcons. rewrite EFL in Hcons. destruct Hcons as [Hb64 Hrt].
      rewrite <- EFL, <- Hxt in Hrt. rewrite <- Hxt in Hb64.
      assert (Hrb : read_back tx pos0 (S_data f tb a b) fe = Ok FL).
      { rewrite Hdata. rewrite (lazy_segment_read_back opt T pos0 tx FL t fr fe); try assumption.
        - rewrite Htx, N.eqb_refl. reflexivity.
        - rewrite EFL. discriminate.
        - apply (expansion_sized f tb H Hd k a); [lia|subst k; lia|exact Hm]. }
      exists (FL :: res). split.
      * cbn [read_all fst snd]. rewrite Hrb. cbn [rbind]. rewrite Hr. reflexivity.
      * constructor; [|exact Hc]. rewrite range_seqN.
        replace (N.to_nat (b + 1) - N.to_nat a)%nat with k by (subst k; lia). exact Hm.
Qed.

(* ------------------------------------------------------------------ the reference track's lazily written segments *)
Lemma ref_segments_start_sync_lazy (f : pfile) (trs : list itrack) (t : itrack) d syncTs sps ivs stss :
  Forall (fun t => C09Spec.consistent (snd t) = true) trs -> In t trs -> data_ok f (snd t) = true ->
  one_offset_box (snd t) = true ->
  first_video (map itrack_of trs) = Some (itrack_of t) ->
  C09Model.t_stss (snd t) = Some stss -> In 1 stss ->
  get_segment_starts (map itrack_of trs) d = Ok (syncTs, sps) -> sps <> [] ->
  get_segment_intervals syncTs sps (itrack_of t) = Ok ivs ->
  nonzero_dur_syncs (itrack_of t) sps = true ->
  forall opt T pos0 (tx : C05Model.trex),
  tx_track tx = T -> pos0 < 4611686018427387904 -> forallb (seg_small (snd t)) ivs = true ->
  exists outs res, seg_track_lazy opt f (snd t) T ivs = Ok outs /\
                   read_all (fun p => read_back tx pos0 (snd p) (fst p)) outs = Ok res /\
                   map Some (concat res) = expansion f (snd t) /\
                   Forall starts_sync res.
Proof.
  intros Hall Hin Hd Hone Hfv Hst H1 Hs Hne Hi Hg opt T pos0 tx Htx Hpos Hsmall.
  assert (Hwf : wf_tracks (map itrack_of trs) = true).
  { unfold wf_tracks. rewrite forallb_forall. intros x Hx. apply in_map_iff in Hx.
    destruct Hx as [t' [<- Ht']]. rewrite Forall_forall in Hall.
    destruct (itrack_wf t' (Hall t' Ht')) as [Hw _]. exact Hw. }
  pose proof (starts_sorted _ _ _ _ Hwf Hs) as Hch.
  assert (Hc : C09Spec.consistent (snd t) = true) by (rewrite Forall_forall in Hall; apply Hall; exact Hin).
  destruct (itrack_wf t Hc) as [Hw [Hsm Hn]].
  unfold wf_track in Hw. apply andb_true_iff in Hw. destruct Hw as [Hw _].
  assert (Htot : stts_total (C11Model.t_stts (itrack_of t)) <= t_nsamples (itrack_of t)) by lia.
  assert (HN : t_nsamples (itrack_of t) < 4294967296) by lia.
  pose proof (intervals_tile syncTs sps (itrack_of t) ivs Hne Hch Htot HN Hi) as Htile. rewrite Hn in Htile.
  pose proof (intervals_ordered syncTs sps (itrack_of t) ivs Hne Hch Htot HN Hi) as Hord.
  assert (Hrange : forall iv x, In iv ivs -> In x (C11Model.range iv) -> 1 <= x <= nsamples (snd t)).
  { intros iv x Hiv Hx.
    assert (Hi' : In x (concat (map C11Model.range ivs))).
    { apply in_concat. exists (C11Model.range iv). split; [apply in_map; exact Hiv|exact Hx]. }
    rewrite Htile, seqN1_seqN in Hi'. apply in_seqN in Hi'. lia. }
  destruct (seg_track_lazy_total opt f (snd t) T pos0 Hc Hd Hone Hpos ivs Hrange Hord Hsmall) as [outs [Hst' Hgd]].
  destruct (seg_track_lazy_end_to_end opt f (snd t) T pos0 tx ivs outs Hc Hd Hone Htx Htile Hst' Hgd) as [res [Hr [He _]]].
  destruct (seg_track_lazy_read_back_each opt f (snd t) T pos0 tx Hc Hd Hone Htx ivs outs Hrange Hst' Hgd) as [res' [Hr' Hea]].
  rewrite Hr in Hr'. injection Hr' as <-.
  exists outs, res. split; [exact Hst'|]. split; [exact Hr|]. split; [exact He|].
  assert (Hstss : C11Model.t_stss (itrack_of t) = Some stss).
  { destruct t as [[v ts] tb]. cbn [snd] in Hst. unfold itrack_of, track_of. cbn [C11Model.t_stss fst snd]. exact Hst. }
  destruct (video_starts_sync _ _ _ _ _ _ _ Hfv Hstss Hs Hi Hg) as [_ [_ Hsync]].
  specialize (Hsync H1). rewrite Forall_forall in Hsync.
  apply (Forall2_Forall_in _ _ _ _ Hea).
  intros [a b] o Hiv Hm. unfold written_ivs in Hiv. apply filter_In in Hiv. destruct Hiv as [Hiv Hab].
  cbn [fst snd] in Hab. apply N.leb_le in Hab.
  specialize (Hsync (a, b) Hiv). cbn [fst] in Hsync.
  rewrite range_seqN in Hm.
  destruct (N.to_nat (b + 1) - N.to_nat a)%nat as [|k] eqn:Ek; [lia|].
  cbn [seqN map] in Hm. destruct o as [|x o']; [discriminate|]. injection Hm as Hx _.
  unfold starts_sync. apply (S_full_sync_flag f (snd t) a x stss); [symmetry; exact Hx|exact Hst|exact Hsync].
Qed.
