(* C11CopyProofs.v — copyMediaData (examples/segmenter/segment.go) writes exactly the bytes of samples a..b in
   sample order, for every consistent track whose tables point into the file (one chunk-offset box). *)
From V.lib Require Import Base.
From V.c09 Require Import C09Model C09Spec C09BaseProofs C09SttsProofs C09CttsProofs C09StscProofs C09TrakProofs.
From V.c05 Require Import C05Model C05FragModel.
From V.c11 Require Import C11FetchModel C11Spec C11FetchProofs.

(* ------------------------------------------------------------------ lists *)
Lemma sub_list_split {A} (l : list A) x p q :
  sub_list l x (p + q) = sub_list l x p ++ sub_list l (x + p) q.
Proof.
  unfold sub_list. rewrite <- skipn_skipn'. generalize (skipn x l) as l'. clear.
  induction p as [|p IH]; intros l'; [reflexivity|].
  destruct l' as [|y t]; cbn [Nat.add firstn skipn app]; [rewrite firstn_nil; reflexivity|].
  rewrite IH. reflexivity.
Qed.

Lemma sublist_split {A} (l : list A) s k1 k2 :
  sublist l s (k1 + k2) = sublist l s k1 ++ sublist l (s + k1) k2.
Proof.
  unfold sublist. replace (N.to_nat (k1 + k2)) with (N.to_nat k1 + N.to_nat k2)%nat by lia.
  replace (N.to_nat (s + k1)) with (N.to_nat s + N.to_nat k1)%nat by lia.
  apply (sub_list_split l (N.to_nat s) (N.to_nat k1) (N.to_nat k2)).
Qed.

Lemma sublist_one {A} (l : list A) k x : nthN l k = Some x -> sublist l k 1 = [x].
Proof.
  intros H. change 1 with (N.of_nat 1). rewrite (sublist_S l k x 0 H). unfold sublist. reflexivity.
Qed.

(* ------------------------------------------------------------------ total sizes *)
Lemma total_size_snoc tb a n x : 1 <= a -> a <= n -> S_size tb n = Some x ->
  S_total_size tb a n = S_total_size tb a (n - 1) + x.
Proof.
  intros Ha Han Hx. unfold S_total_size, S_size in *. destruct (n =? 0) eqn:E; [lia|].
  replace (n + 1 - a) with ((n - 1 + 1 - a) + 1) by lia.
  rewrite sublist_split, sumN_app. replace (a - 1 + (n - 1 + 1 - a)) with (n - 1) by lia.
  rewrite (sublist_one _ _ _ Hx). cbn [sumN]. lia.
Qed.

Lemma total_size_cons tb s e x : 1 <= s -> s <= e -> S_size tb s = Some x ->
  S_total_size tb s e = x + S_total_size tb (s + 1) e.
Proof.
  intros Hs Hse Hx. unfold S_total_size, S_size in *. destruct (s =? 0) eqn:E; [lia|].
  replace (e + 1 - s) with (1 + (e + 1 - (s + 1))) by lia.
  rewrite sublist_split, sumN_app, (sublist_one _ _ _ Hx). cbn [sumN].
  replace (s - 1 + 1) with (s + 1 - 1) by lia. lia.
Qed.

(* ------------------------------------------------------------------ which chunk a sample lies in *)
Lemma chunk_of_unique tb : C09Spec.consistent tb = true -> forall c cnt n,
  1 <= c <= nchunks tb -> S_chunk_count tb c = Some cnt ->
  S_first_in_chunk tb c <= n < S_first_in_chunk tb c + cnt -> S_chunk_of tb n = Some c.
Proof.
  intros H c cnt n Hc Hcnt Hn.
  destruct (get_chunk_correct tb H c Hc) as [cnt0 [Hcnt0 [_ [Hbd _]]]].
  rewrite Hcnt in Hcnt0. injection Hcnt0 as <-.
  pose proof (fic_ge1 tb c).
  destruct (chunk_of_sample_correct tb H n ltac:(lia)) as [c' [Hc' [Hcr' [Hf' [[cnt' [Hcnt' Hl']] _]]]]].
  rewrite Hc'. f_equal.
  destruct (N.lt_trichotomy c' c) as [Hlt|[Heq|Hgt]]; [|exact Heq|].
  - pose proof (fic_succ tb c' cnt' ltac:(lia) Hcnt'). pose proof (fic_mono tb (c' + 1) c ltac:(lia)). lia.
  - pose proof (fic_succ tb c cnt ltac:(lia) Hcnt). pose proof (fic_mono tb (c + 1) c' ltac:(lia)). lia.
Qed.

(* ------------------------------------------------------------------ the bytes of a run of samples inside one chunk *)
Lemma S_data_cons f tb s e : s <= e ->
  S_data f tb s e = match S_bytes f tb s with Some d => d | None => [] end ++ S_data f tb (s + 1) e.
Proof.
  intros Hse. unfold S_data. replace (N.to_nat (e + 1 - s)) with (S (N.to_nat (e + 1 - (s + 1)))) by lia.
  cbn [seqN flat_map]. reflexivity.
Qed.

Lemma S_data_empty f tb s e : e < s -> S_data f tb s e = [].
Proof. intros H. unfold S_data. replace (N.to_nat (e + 1 - s)) with O by lia. reflexivity. Qed.

Lemma S_data_app f tb s e b : s <= e + 1 -> e <= b -> S_data f tb s b = S_data f tb s e ++ S_data f tb (e + 1) b.
Proof.
  intros H1 H2. unfold S_data.
  replace (N.to_nat (b + 1 - s)) with (N.to_nat (e + 1 - s) + N.to_nat (b + 1 - (e + 1)))%nat by lia.
  rewrite seqN_app, flat_map_app. replace (s + N.of_nat (N.to_nat (e + 1 - s))) with (e + 1) by lia. reflexivity.
Qed.

Lemma chunk_bytes f tb : C09Spec.consistent tb = true -> data_ok f tb = true ->
  forall c cnt o, 1 <= c <= nchunks tb -> S_chunk_count tb c = Some cnt -> S_chunk_offset tb c = Some o ->
  forall k s, S_first_in_chunk tb c <= s -> s + N.of_nat k < S_first_in_chunk tb c + cnt ->
  let x := o + S_total_size tb (S_first_in_chunk tb c) (s - 1) in
  let e := s + N.of_nat k in
  sub_list (pf_bytes f) (N.to_nat x) (N.to_nat (S_total_size tb s e)) = S_data f tb s e /\
  x + S_total_size tb s e <= lenN (pf_bytes f).
Proof.
  intros H Hd c cnt o Hc Hcnt Ho.
  destruct (get_chunk_correct tb H c Hc) as [cnt0 [Hcnt0 [_ [Hbd _]]]].
  rewrite Hcnt in Hcnt0. injection Hcnt0 as <-.
  pose proof (fic_ge1 tb c) as Hf1.
  assert (Hone : forall s, S_first_in_chunk tb c <= s < S_first_in_chunk tb c + cnt ->
            exists z, S_size tb s = Some z /\
              S_bytes f tb s = Some (sub_list (pf_bytes f) (N.to_nat (o + S_total_size tb (S_first_in_chunk tb c) (s - 1))) (N.to_nat z)) /\
              o + S_total_size tb (S_first_in_chunk tb c) (s - 1) + z <= lenN (pf_bytes f)).
  { intros s Hs. destruct (size_correct tb H s ltac:(lia)) as [z [Hz _]]. exists z. split; [exact Hz|].
    assert (Hoff : S_offset_of tb s = Some (o + S_total_size tb (S_first_in_chunk tb c) (s - 1))).
    { unfold S_offset_of. rewrite (chunk_of_unique tb H c cnt s Hc Hcnt Hs), Ho. reflexivity. }
    destruct (sample_bytes_ok f tb s _ z Hd ltac:(lia) Hoff Hz) as [_ Hle].
    unfold S_bytes. rewrite Hoff, Hz. split; [reflexivity|exact Hle]. }
  induction k as [|k IH]; intros s Hs He x e.
  - subst x e. replace (s + N.of_nat 0) with s in * by lia.
    destruct (Hone s ltac:(lia)) as [z [Hz [Hb Hle]]].
    rewrite (S_data_cons f tb s s ltac:(lia)), Hb, (S_data_empty f tb (s + 1) s ltac:(lia)), app_nil_r.
    rewrite (total_size_cons tb s s z ltac:(lia) ltac:(lia) Hz).
    assert (S_total_size tb (s + 1) s = 0) as ->.
    { unfold S_total_size. replace (s + 1 - (s + 1)) with 0 by lia. reflexivity. }
    rewrite N.add_0_r. split; [reflexivity|exact Hle].
  - subst x e. rewrite Nat2N.inj_succ in *.
    destruct (Hone s ltac:(lia)) as [z [Hz [Hb Hle]]].
    destruct (IH (s + 1) ltac:(lia) ltac:(lia)) as [IH1 IH2]. cbv zeta in IH1, IH2.
    replace (s + 1 + N.of_nat k) with (s + N.succ (N.of_nat k)) in IH1, IH2 by lia.
    replace (s + 1 - 1) with s in IH1, IH2 by lia.
    rewrite (total_size_snoc tb (S_first_in_chunk tb c) s z Hf1 Hs Hz) in IH1, IH2.
    rewrite (S_data_cons f tb s (s + N.succ (N.of_nat k)) ltac:(lia)), Hb.
    rewrite (total_size_cons tb s (s + N.succ (N.of_nat k)) z ltac:(lia) ltac:(lia) Hz).
    replace (N.to_nat (z + S_total_size tb (s + 1) (s + N.succ (N.of_nat k))))
      with (N.to_nat z + N.to_nat (S_total_size tb (s + 1) (s + N.succ (N.of_nat k))))%nat by lia.
    rewrite sub_list_split. split; [|lia]. f_equal. rewrite <- IH1. f_equal. lia.
Qed.

(* ------------------------------------------------------------------ the loop *)
Lemma copy_offset_ok tb c o prev : one_offset_box tb = true -> S_chunk_offset tb c = Some o ->
  match t_co64 tb with
  | Some l => idx_m1 l c
  | None => match t_stco tb with Some l => idx_m1 l c | None => Ok prev end
  end = Ok o.
Proof.
  unfold one_offset_box, S_chunk_offset, offsets. destruct (c =? 0) eqn:E; [discriminate|].
  destruct (t_stco tb) as [l|]; destruct (t_co64 tb) as [l2|]; intros H1 Hn; try discriminate.
  - apply idx_m1_Some; [lia|exact Hn].
  - apply idx_m1_Some; [lia|exact Hn].
Qed.

Lemma copy_chunks_ok f tb a b cb : C09Spec.consistent tb = true -> data_ok f tb = true -> one_offset_box tb = true ->
  1 <= a -> a <= b -> b <= nsamples tb ->
  cb <= nchunks tb -> S_first_in_chunk tb cb <= b ->
  (forall cnt, S_chunk_count tb cb = Some cnt -> b < S_first_in_chunk tb cb + cnt) ->
  forall m c first prev l, 1 <= c -> c + N.of_nat m = cb + 1 ->
  map Some l = map (S_chunk tb) (seqN c m) ->
  (if first : bool then S_first_in_chunk tb c <= a else a < S_first_in_chunk tb c) ->
  (forall cnt, S_chunk_count tb c = Some cnt -> a < S_first_in_chunk tb c + cnt) ->
  (m = O -> b < N.max a (S_first_in_chunk tb c)) ->
  copy_chunks f tb a b first prev l = Ok (S_data f tb (N.max a (S_first_in_chunk tb c)) b).
Proof.
  intros H Hd Hone Ha Hab Hb Hcb Hfb Hlb.
  destruct (data_ok_parts f tb Hd) as [_ [_ [Hlen _]]].
  pose proof (sizes_bound tb H) as Hsb.
  induction m as [|m IH]; intros c first prev l Hc Hm Hl Hfirst Hlast Hm0.
  - destruct l; [|discriminate]. cbn [copy_chunks]. rewrite S_data_empty by (apply Hm0; reflexivity). reflexivity.
  - clear Hm0. destruct l as [|ch l']; [discriminate|]. cbn [seqN map] in Hl. injection Hl as Hch Hl'.
    destruct (get_chunk_correct tb H c ltac:(lia)) as [cnt [Hcnt [Hc1 [Hbd _]]]].
    unfold S_chunk in Hch. rewrite Hcnt in Hch. injection Hch as ->.
    destruct (get_offset_correct tb H c ltac:(lia)) as [o [Ho1 _]].
    pose proof (offset_bound tb c o H Ho1) as Hob.
    specialize (Hlast cnt Hcnt).
    destruct (stsc_facts tb H) as [_ [_ [_ [_ [_ [_ [HN _]]]]]]].
    pose proof (fic_ge1 tb c) as Hfic1.
    cbn [copy_chunks ch_nr ch_start ch_n]. rewrite (copy_offset_ok tb c o prev Hone Ho1). cbn [rbind].
    rewrite (u32_small (S_first_in_chunk tb c + cnt)) by lia.
    rewrite (sub32_small (S_first_in_chunk tb c + cnt)) by lia.
    rewrite (u32_small (S_first_in_chunk tb c + cnt - 1)) by lia.
    set (s := N.max a (S_first_in_chunk tb c)).
    assert (Hstart : (if first then
                        do o' <- add_sizes (t_stsz tb) (N.to_nat (a - S_first_in_chunk tb c)) (S_first_in_chunk tb c) o; Ok (o', a)
                      else Ok (o, S_first_in_chunk tb c))
                     = Ok (o + S_total_size tb (S_first_in_chunk tb c) (s - 1), s)).
    { subst s. destruct first.
      - rewrite (add_sizes_ok tb H); try lia.
        + cbn [rbind]. rewrite N2Nat.id. unfold S_total_size.
          replace (N.max a (S_first_in_chunk tb c)) with a by lia.
          replace (a - 1 + 1 - S_first_in_chunk tb c) with (a - S_first_in_chunk tb c) by lia. reflexivity.
        + pose proof (sumN_skipn_le (sizes tb) (N.to_nat (S_first_in_chunk tb c - 1))). lia.
      - replace (N.max a (S_first_in_chunk tb c)) with (S_first_in_chunk tb c) by lia.
        rewrite total_size_empty by lia. rewrite N.add_0_r. reflexivity. }
    rewrite Hstart. cbn [rbind].
    set (e := N.min b (S_first_in_chunk tb c + cnt - 1)).
    assert (Hend : (match l' with [] => b | _ :: _ => S_first_in_chunk tb c + cnt - 1 end) = e).
    { subst e. destruct m as [|m'].
      - destruct l'; [|discriminate]. assert (c = cb) by lia. subst c. pose proof (Hlb cnt Hcnt). lia.
      - destruct l' as [|x l'']; [discriminate|].
        pose proof (fic_succ tb c cnt Hc Hcnt). pose proof (fic_mono tb (c + 1) cb ltac:(lia)). lia. }
    rewrite Hend.
    assert (Hse : s <= e).
    { subst s e. destruct m as [|m'].
      - assert (c = cb) by lia. subst c. pose proof (Hlb cnt Hcnt). lia.
      - pose proof (fic_succ tb c cnt Hc Hcnt). pose proof (fic_mono tb (c + 1) cb ltac:(lia)). lia. }
    rewrite (add_sizes_ok tb H); try (subst s e; lia).
    2:{ pose proof (sumN_skipn_le (sizes tb) (N.to_nat (s - 1))). lia. }
    cbn [rbind]. rewrite N2Nat.id, N.add_0_l.
    change (sumN (sublist (sizes tb) (s - 1) (e + 1 - s))) with (S_total_size tb s e).
    destruct (chunk_bytes f tb H Hd c cnt o ltac:(lia) Hcnt Ho1 (N.to_nat (e - s)) s ltac:(subst s; lia) ltac:(subst s e; lia))
      as [Hbytes Hle]. cbv zeta in Hbytes, Hle.
    replace (s + N.of_nat (N.to_nat (e - s))) with e in Hbytes, Hle by lia.
    (* the rest of the loop *)
    assert (Hrest : copy_chunks f tb a b false (o + S_total_size tb (S_first_in_chunk tb c) (s - 1)) l'
                    = Ok (S_data f tb (e + 1) b)).
    { destruct m as [|m'].
      - destruct l'; [|discriminate]. cbn [copy_chunks]. assert (c = cb) by lia. subst c.
        pose proof (Hlb cnt Hcnt). rewrite S_data_empty by (subst e; lia). reflexivity.
      - pose proof (fic_succ tb c cnt Hc Hcnt) as Hfs. pose proof (fic_mono tb (c + 1) cb ltac:(lia)) as Hfm.
        rewrite (IH (c + 1) false _ l' ltac:(lia) ltac:(lia) Hl').
        + f_equal. f_equal. subst e. lia.
        + lia.
        + intros cnt' _. lia.
        + discriminate. }
    destruct ((9223372036854775808 <=? o + S_total_size tb (S_first_in_chunk tb c) (s - 1))
              || (9223372036854775808 <=? S_total_size tb s e)) eqn:Eg; [lia|].
    rewrite (S_data_app f tb s e b ltac:(lia) ltac:(subst e; lia)), <- Hbytes.
    destruct (S_total_size tb s e =? 0) eqn:E0.
    + rewrite Hrest. replace (S_total_size tb s e) with 0 by lia. unfold sub_list. cbn [N.to_nat firstn app]. reflexivity.
    + destruct (lenN (pf_bytes f) <? o + S_total_size tb (S_first_in_chunk tb c) (s - 1) + S_total_size tb s e) eqn:E1; [lia|].
      rewrite Hrest. cbn [rbind]. reflexivity.
Qed.

Lemma copy_media_data_ok f tb : C09Spec.consistent tb = true -> data_ok f tb = true -> one_offset_box tb = true ->
  forall a b, 1 <= a -> a <= b -> b <= nsamples tb ->
  copy_media_data f tb a b = Ok (S_data f tb a b).
Proof.
  intros H Hd Hone a b Ha Hab Hb.
  destruct (containing_chunks_correct tb H a b Ha Hab Hb) as [ca [cb [l [Hca [Hcb [H1 [H2 [H3 [Hl Hm]]]]]]]]].
  destruct (chunk_of_sample_correct tb H a ltac:(lia)) as [ca' [Hca' [_ [Hfa [[cnta [Hcnta Hla]] _]]]]].
  destruct (chunk_of_sample_correct tb H b ltac:(lia)) as [cb' [Hcb' [_ [Hfb [[cntb [Hcntb Hlb]] _]]]]].
  rewrite Hca in Hca'. injection Hca' as <-. rewrite Hcb in Hcb'. injection Hcb' as <-.
  unfold copy_media_data. rewrite Hl. cbn [rbind].
  rewrite (copy_chunks_ok f tb a b cb H Hd Hone Ha Hab Hb H3 Hfb) with (m := N.to_nat (cb + 1 - ca)) (c := ca);
    try assumption; try lia.
  - f_equal. f_equal. lia.
  - intros cnt Hc. rewrite Hcntb in Hc. injection Hc as <-. exact Hlb.
  - intros cnt Hc. rewrite Hcnta in Hc. injection Hc as <-. exact Hla.
Qed.

(* the bytes copied are the data of the full samples of the interval, in order *)
Lemma S_data_fulls f tb : forall k nr l, map Some l = map (S_full f tb) (seqN nr k) ->
  flat_map fs_data l = flat_map (fun n => match S_bytes f tb n with Some d => d | None => [] end) (seqN nr k).
Proof.
  induction k as [|k IH]; intros nr l Hl.
  - destruct l; [reflexivity|discriminate].
  - destruct l as [|x l']; [discriminate|]. cbn [seqN map] in Hl. injection Hl as Hx Hl'.
    cbn [seqN flat_map]. rewrite (IH _ _ Hl'). f_equal.
    unfold S_full in Hx. destruct (S_meta tb nr); [|discriminate]. destruct (S_decode_time tb nr); [|discriminate].
    destruct (S_bytes f tb nr); [|discriminate]. injection Hx as ->. reflexivity.
Qed.
