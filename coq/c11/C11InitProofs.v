(* C11InitProofs.v — the init segments written by the segmenter (one per track / multiplexed), the resegmenter
   (passed through) and combine-segs (merged) describe the same tracks as their inputs. *)
From V.lib Require Import Base.
From V.c11 Require Import C11InitModel.

(* ------------------------------------------------------------------ segmenter *)
(* a track the segmenter supports: one sample entry of a kind the copy block looks for *)
Definition entry_supported (t : itrak) : bool :=
  match it_entries t with
  | [e] => if it_hdlr t =? H_SOUN then (se_kind e =? K_MP4A) || (se_kind e =? K_AC3) || (se_kind e =? K_EC3)
           else (se_kind e =? K_AVC) || (se_kind e =? K_HVC)
  | _ => false
  end.

Lemma copy_entry_supported t : entry_supported t = true -> copy_entry (it_hdlr t) (it_entries t) = Ok (it_entries t).
Proof.
  unfold entry_supported, copy_entry, last_of_kind. destruct (it_entries t) as [|e [|e2 r]]; try discriminate.
  cbn [rev app find]. destruct (it_hdlr t =? H_SOUN); intros H.
  - destruct (se_kind e =? K_MP4A) eqn:E1; [reflexivity|]. destruct (se_kind e =? K_AC3) eqn:E2; [reflexivity|].
    destruct (se_kind e =? K_EC3) eqn:E3; [reflexivity|discriminate].
  - destruct (se_kind e =? K_AVC) eqn:E1; [reflexivity|]. destruct (se_kind e =? K_HVC) eqn:E2; [reflexivity|discriminate].
Qed.

Lemma find_rev_in {A} (p : A -> bool) l x : find p (rev l) = Some x -> In x l.
Proof. intros H. apply find_some in H. apply in_rev. exact (proj1 H). Qed.

(* whatever the stsd holds: when the copy block succeeds it yields exactly one entry, and it is one of the input's *)
Lemma copy_entry_from_input h es out : copy_entry h es = Ok out -> exists e, out = [e] /\ In e es.
Proof.
  unfold copy_entry, last_of_kind. intros H.
  destruct (h =? H_SOUN).
  - destruct (find (fun e => se_kind e =? K_MP4A) (rev es)) as [e|] eqn:E1; [injection H as <-; exists e; split; [reflexivity|exact (find_rev_in _ _ _ E1)]|].
    destruct (find (fun e => se_kind e =? K_AC3) (rev es)) as [e|] eqn:E2; [injection H as <-; exists e; split; [reflexivity|exact (find_rev_in _ _ _ E2)]|].
    destruct (find (fun e => se_kind e =? K_EC3) (rev es)) as [e|] eqn:E3; [injection H as <-; exists e; split; [reflexivity|exact (find_rev_in _ _ _ E3)]|discriminate].
  - destruct (find (fun e => se_kind e =? K_AVC) (rev es)) as [e|] eqn:E1; [injection H as <-; exists e; split; [reflexivity|exact (find_rev_in _ _ _ E1)]|].
    destruct (find (fun e => se_kind e =? K_HVC) (rev es)) as [e|] eqn:E2; [injection H as <-; exists e; split; [reflexivity|exact (find_rev_in _ _ _ E2)]|discriminate].
Qed.

Lemma seg_inits_shape : forall ts outs, seg_inits_with copy_entry ts = Ok outs ->
  Forall2 (fun t o => exists e, In e (it_entries t) /\
                      o = mkInit [mkITrak 1 (it_hdlr t) (it_timescale t) [e]] (Some [create_trex 1])) ts outs.
Proof.
  induction ts as [|t ts IH]; intros outs H; cbn [seg_inits_with] in H; [injection H as <-; constructor|].
  destruct (copy_entry (it_hdlr t) (it_entries t)) as [es| | |] eqn:Ec; cbn [rbind] in H; try discriminate.
  destruct (seg_inits_with copy_entry ts) as [rest| | |] eqn:Er; cbn [rbind] in H; try discriminate.
  injection H as <-. destruct (copy_entry_from_input _ _ _ Ec) as [e [-> Hin]].
  constructor; [exists e; split; [exact Hin|reflexivity]|apply IH; reflexivity].
Qed.

(* whenever MakeInitSegments returns, every init carries handler, timescale and ONE sample entry of its input track,
   with a trex for the id the media segments use *)
Lemma seg_inits_never_drop ts outs : seg_inits ts = Ok outs ->
  Forall2 (fun t o => exists e tk, In e (it_entries t) /\ find_trak o 1 = Some tk /\ it_hdlr tk = it_hdlr t /\
                      it_timescale tk = it_timescale t /\ it_entries tk = [e] /\
                      find_trex o (seg_track_id false 0) = Some (create_trex 1)) ts outs.
Proof.
  unfold seg_inits. destruct (forallb hdlr_ok ts); [|discriminate]. intros H.
  pose proof (seg_inits_shape ts outs H) as HF. clear H. induction HF as [|t o ts' outs' [e [Hin ->]] _ IH]; [constructor|].
  constructor; [|exact IH]. exists e. eexists. split; [exact Hin|]. repeat split; reflexivity.
Qed.

(* total form: supported tracks *)
Lemma seg_inits_total ts : forallb hdlr_ok ts = true -> forallb entry_supported ts = true ->
  exists outs, seg_inits ts = Ok outs /\
    Forall2 (fun t o => same_track t None o 1 /\ find_trex o 1 = Some (create_trex 1)) ts outs.
Proof.
  intros Hh Hs. unfold seg_inits. rewrite Hh. clear Hh. induction ts as [|t ts IH]; [exists []; split; [reflexivity|constructor]|].
  cbn [forallb] in Hs. apply andb_prop in Hs. destruct Hs as [Ht Hs]. destruct (IH Hs) as [outs [Ho Hf]].
  cbn [seg_inits_with]. rewrite (copy_entry_supported t Ht). cbn [rbind]. rewrite Ho. cbn [rbind].
  eexists. split; [reflexivity|]. constructor; [|exact Hf]. split; [|reflexivity].
  eexists. split; [reflexivity|]. repeat split; reflexivity.
Qed.

(* the pinned text wrote an init without any sample entry *)
Lemma seg_inits_pinned_refuted : exists t o,
  hdlr_ok t = true /\ it_entries t <> [] /\ seg_inits_pinned [t] = Ok [o] /\
  exists tk, in_traks o = [tk] /\ it_entries tk = [].
Proof.
  exists (mkITrak 1 H_VIDE 90000 [mkSE K_OTHER [0; 0; 0; 16; 97; 118; 48; 49]]). eexists.
  split; [reflexivity|]. split; [discriminate|]. split; [vm_compute; reflexivity|]. eexists. split; reflexivity.
Qed.

(* multiplexed init *)
Lemma seg_mux_traks_spec : forall ts k p, seg_mux_traks ts k = Ok p ->
  length (fst p) = length ts /\ length (snd p) = length ts /\
  forall i t, nth_error ts i = Some t ->
    exists e, In e (it_entries t) /\
      nth_error (fst p) i = Some (mkITrak (k + N.of_nat i + 1) (it_hdlr t) (it_timescale t) [e]) /\
      nth_error (snd p) i = Some (create_trex (k + N.of_nat i + 1)).
Proof.
  induction ts as [|t ts IH]; intros k p H; cbn [seg_mux_traks] in H.
  - injection H as <-. repeat split. intros [|i] t H; discriminate.
  - destruct (copy_entry (it_hdlr t) (it_entries t)) as [es| | |] eqn:Ec; cbn [rbind] in H; try discriminate.
    destruct (seg_mux_traks ts (k + 1)) as [rest| | |] eqn:Er; cbn [rbind] in H; try discriminate.
    injection H as <-. destruct (IH _ _ Er) as [L1 [L2 Hn]]. cbn [fst snd length]. split; [lia|]. split; [lia|].
    destruct (copy_entry_from_input _ _ _ Ec) as [e [-> Hin]].
    intros [|i] t' Ht'; cbn [nth_error] in *.
    + injection Ht' as <-. exists e. split; [exact Hin|]. rewrite N.add_0_r. split; reflexivity.
    + destruct (Hn i t' Ht') as [e' [Hin' [H1 H2]]]. exists e'. split; [exact Hin'|].
      replace (k + N.of_nat (S i) + 1) with (k + 1 + N.of_nat i + 1) by lia. split; assumption.
Qed.

Lemma find_nth_unique {A} (key : A -> N) (l : list A) : forall i x,
  nth_error l i = Some x -> (forall j y, nth_error l j = Some y -> key y = key x -> j = i) ->
  find (fun y => key y =? key x) l = Some x.
Proof.
  induction l as [|a l IH]; intros i x Hn Hu; [destruct i; discriminate|]. cbn [find].
  destruct (key a =? key x) eqn:E.
  - apply N.eqb_eq in E. pose proof (Hu O a eq_refl E) as Hi. subst i. cbn in Hn. congruence.
  - destruct i as [|i]; [cbn in Hn; injection Hn as ->; rewrite N.eqb_refl in E; discriminate|].
    apply (IH i x Hn). intros j y Hj Hk. specialize (Hu (S j) y Hj Hk). lia.
Qed.

Lemma seg_mux_init_same ts o : seg_mux_init ts = Ok o ->
  forall i t, nth_error ts i = Some t ->
    let T := seg_track_id true i in
    exists e tk, In e (it_entries t) /\ find_trak o T = Some tk /\ it_hdlr tk = it_hdlr t /\
                 it_timescale tk = it_timescale t /\ it_entries tk = [e] /\ find_trex o T = Some (create_trex T).
Proof.
  unfold seg_mux_init. destruct (forallb hdlr_ok ts); [|discriminate].
  destruct (seg_mux_traks ts 0) as [p| | |] eqn:E; cbn [rbind]; try discriminate. intros H. injection H as <-.
  destruct (seg_mux_traks_spec ts 0 p E) as [L1 [L2 Hn]]. intros i t Ht. set (T := seg_track_id true i).
  destruct (Hn i t Ht) as [e [Hin [H1 H2]]]. cbn [N.add] in H1, H2.
  replace (0 + N.of_nat i + 1) with T in H1, H2 by (unfold T, seg_track_id; lia).
  exists e. exists (mkITrak T (it_hdlr t) (it_timescale t) [e]). split; [exact Hin|]. unfold find_trak, find_trex. cbn [in_traks in_mvex].
  split; [|split; [reflexivity|split; [reflexivity|split; [reflexivity|]]]].
  - apply (find_nth_unique it_id (fst p) i _ H1). intros j y Hj Hk. cbn [it_id] in Hk.
    assert (Hjl : (j < length ts)%nat) by (rewrite <- L1; apply nth_error_Some; congruence).
    destruct (nth_error ts j) as [tj|] eqn:Etj; [|apply nth_error_None in Etj; lia].
    destruct (Hn j tj Etj) as [ej [_ [Hj1 _]]]. rewrite Hj in Hj1. injection Hj1 as ->. cbn [it_id] in Hk.
    unfold T, seg_track_id in Hk. lia.
  - change (create_trex T) with (create_trex (ix_id (create_trex T))) at 1.
    apply (find_nth_unique ix_id (snd p) i _ H2). intros j y Hj Hk. cbn [ix_id create_trex] in Hk.
    assert (Hjl : (j < length ts)%nat) by (rewrite <- L2; apply nth_error_Some; congruence).
    destruct (nth_error ts j) as [tj|] eqn:Etj; [|apply nth_error_None in Etj; lia].
    destruct (Hn j tj Etj) as [ej [_ [_ Hj2]]]. rewrite Hj in Hj2. injection Hj2 as ->. cbn [ix_id create_trex] in Hk.
    unfold T, seg_track_id in Hk. lia.
Qed.

(* ------------------------------------------------------------------ combine-segs *)
Definition out_trak (p : N * init) : itrak :=
  let t := first_trak (snd p) in mkITrak (fst p) (it_hdlr t) (it_timescale t) (it_entries t).
Definition out_trex (p : N * init) : itrex :=
  match first_trex (snd p) with
  | Some tx => mkITrex (fst p) (ix_sdi tx) (ix_ddur tx) (ix_dsize tx) (ix_dflags tx)
  | None => mkITrex (fst p) 0 0 0 0
  end.

Lemma skipn_cons_nth' {A} (l : list A) : forall i x tl, skipn i l = x :: tl -> nth_error l i = Some x /\ skipn (S i) l = tl.
Proof.
  induction l as [|a l IH]; intros i x tl H; [destruct i; discriminate|].
  destruct i as [|i]; [cbn in H; injection H as -> ->; split; reflexivity|]. cbn [skipn] in H.
  destruct (IH i x tl H) as [H1 H2]. split; [exact H1|exact H2].
Qed.

Lemma comb_loop_spec ids : forall xs i rem tr tx,
  skipn i ids = rem -> (length xs <= length rem)%nat -> forallb (comb_in_ok false) xs = true ->
  comb_init_loop ids xs i (Some (mkInit tr (Some tx))) =
    Ok (Some (mkInit (tr ++ map out_trak (combine rem xs)) (Some (tx ++ map out_trex (combine rem xs))))).
Proof.
  induction xs as [|x xs IH]; intros i rem tr tx Hsk Hlen Hok; subst rem.
  - cbn [comb_init_loop]. destruct (skipn i ids); cbn [combine map]; rewrite !app_nil_r; reflexivity.
  - destruct (skipn i ids) as [|T tl] eqn:Es; [cbn [length] in Hlen; lia|].
    destruct (skipn_cons_nth' ids i T tl Es) as [Hn Hs']. cbn [forallb] in Hok. apply andb_prop in Hok. destruct Hok as [Hx Hok].
    cbn [comb_init_loop]. rewrite Hn. unfold comb_in_ok in Hx.
    destruct (in_traks x) as [|t [|t2 r]] eqn:Et; try discriminate.
    destruct (in_mvex x) as [[|x0 r0]|] eqn:Em; try discriminate.
    unfold renumber. rewrite Et, Em. cbn [rbind]. unfold comb_add. cbn [in_mvex in_traks rbind].
    rewrite (IH (S i) tl _ _ Hs'); [|cbn [length] in Hlen; lia|exact Hok].
    cbn [combine map]. unfold out_trak at 2, out_trex at 2, first_trak, first_trex. cbn [fst snd]. rewrite Et, Em.
    rewrite <- !app_assoc. reflexivity.
Qed.

Lemma find_map_combine {B} (key : B -> N) (f : N * init -> B) : (forall p, key (f p) = fst p) ->
  forall ids xs T x, NoDup ids -> In (T, x) (combine ids xs) ->
  find (fun y => key y =? T) (map f (combine ids xs)) = Some (f (T, x)).
Proof.
  intros Hk. induction ids as [|a ids IH]; intros xs T x Hnd Hin; [contradiction|].
  destruct xs as [|x0 xs]; [contradiction|]. cbn [combine map find] in *. rewrite Hk. cbn [fst].
  inversion Hnd as [|? ? Hni Hnd']; subst. destruct Hin as [E|Hin].
  - injection E as -> ->. rewrite N.eqb_refl. reflexivity.
  - destruct (a =? T) eqn:E; [apply N.eqb_eq in E; subst a; exfalso; apply Hni; exact (in_combine_l _ _ _ _ Hin)|].
    apply IH; assumption.
Qed.

Lemma comb_init_same ids xs :
  NoDup ids -> length ids = length xs ->
  match xs with x0 :: r => comb_in_ok true x0 && forallb (comb_in_ok false) r | [] => false end = true ->
  exists o, comb_init ids xs = Ok o /\
    forall T x, In (T, x) (combine ids xs) -> same_track (first_trak x) (first_trex x) o T.
Proof.
  intros Hnd Hlen Hok. destruct xs as [|x0 xs]; [discriminate|]. destruct ids as [|T0 ids]; [discriminate|].
  apply andb_prop in Hok. destruct Hok as [H0 Hok]. unfold comb_init. cbn [comb_init_loop nth_error].
  unfold comb_in_ok in H0. destruct (in_traks x0) as [|t [|t2 r]] eqn:Et; try discriminate.
  destruct (in_mvex x0) as [[|tx0 [|? ?]]|] eqn:Em; try discriminate; [|apply andb_prop in H0; destruct H0; discriminate].
  unfold renumber. rewrite Et, Em. cbn [rbind].
  rewrite (comb_loop_spec (T0 :: ids) xs 1 ids _ _ eq_refl); [|cbn [length] in Hlen; lia|exact Hok]. cbn [rbind].
  eexists. split; [reflexivity|]. intros T x Hin.
  set (f1 := out_trak). set (f2 := out_trex).
  assert (E1 : [mkITrak T0 (it_hdlr t) (it_timescale t) (it_entries t)] ++ map f1 (combine ids xs) = map f1 (combine (T0 :: ids) (x0 :: xs))).
  { cbn [combine map app]. unfold f1 at 2, out_trak, first_trak. cbn [fst snd]. rewrite Et. reflexivity. }
  assert (E2 : [mkITrex T0 (ix_sdi tx0) (ix_ddur tx0) (ix_dsize tx0) (ix_dflags tx0)] ++ map f2 (combine ids xs) = map f2 (combine (T0 :: ids) (x0 :: xs))).
  { cbn [combine map app]. unfold f2 at 2, out_trex, first_trex. cbn [fst snd]. rewrite Em. reflexivity. }
  rewrite E1, E2. unfold same_track, find_trak, find_trex. cbn [in_traks in_mvex].
  exists (f1 (T, x)). split.
  - apply (find_map_combine it_id f1); [intros p; reflexivity|exact Hnd|exact Hin].
  - split; [reflexivity|]. split; [reflexivity|]. split; [reflexivity|].
    assert (Hx : exists tx, first_trex x = Some tx).
    { destruct Hin as [E|Hin]; [injection E as <- <-; unfold first_trex; rewrite Em; eexists; reflexivity|].
      apply in_combine_r in Hin. rewrite forallb_forall in Hok. specialize (Hok x Hin). unfold comb_in_ok in Hok.
      unfold first_trex. destruct (in_traks x) as [|? [|? ?]]; try discriminate.
      destruct (in_mvex x) as [[|? ?]|]; try discriminate. eexists; reflexivity. }
    destruct Hx as [tx Htx]. rewrite Htx.
    rewrite (find_map_combine ix_id f2 (fun p => ltac:(unfold f2, out_trex; destruct (first_trex (snd p)); reflexivity))
               (T0 :: ids) (x0 :: xs) T x Hnd Hin).
    unfold f2, out_trex. cbn [fst snd]. rewrite Htx. reflexivity.
Qed.
