(* C11InitModel.v — executable Gallina model (definitions only) of the init segments the tools write, on track
   records (what a reader of the media segments needs of an init segment: per track the id, the handler, the media
   timescale, the sample entries of the stsd, and the trex of the track):

     examples/segmenter/segmenter.go   NewSegmenter (handler check), MakeInitSegments (one init per track, track id 1),
                                       MakeMuxedInitSegment (one init, ids 1..n); text AFTER fix 0e3bed8 (a track without
                                       a supported sample entry is an error; the pinned text wrote an empty stsd)
     examples/resegmenter/resegment.go the input's ftyp + moov are passed through
     examples/combine-segs/main.go     combineInitSegments
     mp4/stsd.go                       StsdBox.AddChild: AvcX / HvcX / Mp4a / AC3 / EC3 hold the LAST child of their kind
     mp4/initsegment.go, trex.go       CreateEmptyInit, AddEmptyTrack (id = number of traks + 1), CreateTrex *)
From V.lib Require Import Base.

(* kinds of sample entries as StsdBox.AddChild files them *)
Definition K_OTHER : N := 0.
Definition K_AVC : N := 1.    (* avc1, avc3 *)
Definition K_HVC : N := 2.    (* hvc1, hev1 *)
Definition K_MP4A : N := 3.
Definition K_AC3 : N := 4.
Definition K_EC3 : N := 5.
Record sentry := mkSE { se_kind : N; se_bytes : list N }.       (* the encoded box, opaque *)

Definition H_OTHER : N := 0.
Definition H_VIDE : N := 1.
Definition H_SOUN : N := 2.
Record itrak := mkITrak { it_id : N; it_hdlr : N; it_timescale : N; it_entries : list sentry }.
Record itrex := mkITrex { ix_id : N; ix_sdi : N; ix_ddur : N; ix_dsize : N; ix_dflags : N }.
(* moov: the traks in order; mvex = None when the box is absent, else its trex boxes in order *)
Record init := mkInit { in_traks : list itrak; in_mvex : option (list itrex) }.

(* the trex a reader uses for track T: the first one with that id *)
Definition find_trex (i : init) (T : N) : option itrex :=
  match in_mvex i with
  | None => None
  | Some l => find (fun x => ix_id x =? T) l
  end.
Definition find_trak (i : init) (T : N) : option itrak := find (fun t => it_id t =? T) (in_traks i).

(* ------------------------------------------------------------------ segmenter *)
Definition last_of_kind (k : N) (es : list sentry) : option sentry := find (fun e => se_kind e =? k) (rev es).

(* the `switch tr.trackType` block *)
Definition copy_entry (hdlr : N) (es : list sentry) : res (list sentry) :=
  if hdlr =? H_SOUN then
    match last_of_kind K_MP4A es with
    | Some e => Ok [e]
    | None => match last_of_kind K_AC3 es with
              | Some e => Ok [e]
              | None => match last_of_kind K_EC3 es with Some e => Ok [e] | None => Err end
              end
    end
  else
    match last_of_kind K_AVC es with
    | Some e => Ok [e]
    | None => match last_of_kind K_HVC es with Some e => Ok [e] | None => Err end
    end.

(* the pinned text: nothing is added, no error *)
Definition copy_entry_pinned (hdlr : N) (es : list sentry) : res (list sentry) :=
  match copy_entry hdlr es with Err => Ok [] | r => r end.

(* NewSegmenter: `default: return nil, fmt.Errorf("hdlr typpe %q not supported", hdlrType)` *)
Definition hdlr_ok (t : itrak) : bool := (it_hdlr t =? H_VIDE) || (it_hdlr t =? H_SOUN).

(* CreateTrex(trackID): DefaultSampleDescriptionIndex 1, the other defaults 0 *)
Definition create_trex (T : N) : itrex := mkITrex T 1 0 0 0.

(* MakeInitSegments: every init holds one trak with id 1 *)
Fixpoint seg_inits_with (cp : N -> list sentry -> res (list sentry)) (ts : list itrak) : res (list init) :=
  match ts with
  | [] => Ok []
  | t :: r =>
      do es <- cp (it_hdlr t) (it_entries t);
      do rest <- seg_inits_with cp r;
      Ok (mkInit [mkITrak 1 (it_hdlr t) (it_timescale t) es] (Some [create_trex 1]) :: rest)
  end.
Definition seg_inits (ts : list itrak) : res (list init) :=
  if forallb hdlr_ok ts then seg_inits_with copy_entry ts else Err.
Definition seg_inits_pinned (ts : list itrak) : res (list init) :=
  if forallb hdlr_ok ts then seg_inits_with copy_entry_pinned ts else Err.

(* MakeMuxedInitSegment: ids 1, 2, ... in input order; k = number of traks already added *)
Fixpoint seg_mux_traks (ts : list itrak) (k : N) : res (list itrak * list itrex) :=
  match ts with
  | [] => Ok ([], [])
  | t :: r =>
      do es <- copy_entry (it_hdlr t) (it_entries t);
      do rest <- seg_mux_traks r (k + 1);
      Ok (mkITrak (k + 1) (it_hdlr t) (it_timescale t) es :: fst rest, create_trex (k + 1) :: snd rest)
  end.
Definition seg_mux_init (ts : list itrak) : res init :=
  if forallb hdlr_ok ts then do p <- seg_mux_traks ts 0; Ok (mkInit (fst p) (Some (snd p))) else Err.

(* the track id the writers put into tfhd: tr.trackID = outTrak.Tkhd.TrackID *)
Definition seg_track_id (mux : bool) (index : nat) : N := if mux then N.of_nat index + 1 else 1.

(* ------------------------------------------------------------------ resegmenter *)
(* `if in.Init != nil { oFile.AddChild(in.Ftyp, 0); oFile.AddChild(in.Moov, 0) }` *)
Definition reseg_init (i : option init) : option init := i.

(* ------------------------------------------------------------------ combine-segs: combineInitSegments *)
(* set Tkhd.TrackID of the only trak and the TrackID of the FIRST trex *)
Definition renumber (x : init) (T : N) : res init :=
  match in_traks x with
  | [t] =>
      Ok (mkInit [mkITrak T (it_hdlr t) (it_timescale t) (it_entries t)]
                 (match in_mvex x with
                  | Some (tx :: r) => Some (mkITrex T (ix_sdi tx) (ix_ddur tx) (ix_dsize tx) (ix_dflags tx) :: r)
                  | m => m
                  end))
  | _ => Err                                  (* expected exactly one track per init file *)
  end.

(* `combinedInit.Moov.AddChild(init.Moov.Trak)`; `if init.Moov.Mvex != nil { if Trex != nil {
   combinedInit.Moov.Mvex.AddChild(trex) } }`: a nil combined mvex is dereferenced *)
Definition comb_add (acc x : init) : res init :=
  match in_mvex x with
  | Some (tx :: _) =>
      match in_mvex acc with
      | None => Panic
      | Some l => Ok (mkInit (in_traks acc ++ in_traks x) (Some (l ++ [tx])))
      end
  | _ => Ok (mkInit (in_traks acc ++ in_traks x) (in_mvex acc))
  end.

Fixpoint comb_init_loop (ids : list N) (xs : list init) (i : nat) (acc : option init) : res (option init) :=
  match xs with
  | [] => Ok acc
  | x :: r =>
      match nth_error ids i with
      | None => match in_traks x with [_] => Panic | _ => Err end      (* newTrackIDs[i] after the trak-count check *)
      | Some T =>
          do x' <- renumber x T;
          do acc' <- match acc with None => Ok x' | Some a => comb_add a x' end;
          comb_init_loop ids r (S i) (Some acc')
      end
  end.

(* + writeSeg: Encode of a nil *InitSegment panics *)
Definition comb_init (ids : list N) (xs : list init) : res init :=
  do o <- comb_init_loop ids xs 0 None;
  match o with None => Panic | Some i => Ok i end.

(* what "describes the same track" means: same handler, timescale and sample entries, and the trex of the output
   track carries the same defaults *)
Definition same_track (tin : itrak) (txin : option itrex) (out : init) (T : N) : Prop :=
  exists tk, find_trak out T = Some tk /\ it_hdlr tk = it_hdlr tin /\ it_timescale tk = it_timescale tin /\
             it_entries tk = it_entries tin /\
             match txin with
             | None => True
             | Some tx => find_trex out T = Some (mkITrex T (ix_sdi tx) (ix_ddur tx) (ix_dsize tx) (ix_dflags tx))
             end.

(* an input init of combine-segs: one trak, an mvex whose first trex names the trak *)
Definition comb_in_ok (first : bool) (x : init) : bool :=
  match in_traks x, in_mvex x with
  | [t], Some (tx :: r) => (ix_id tx =? it_id t) && (if first then match r with [] => true | _ => false end else true)
  | _, _ => false
  end.
Definition first_trex (x : init) : option itrex :=
  match in_mvex x with Some (tx :: _) => Some tx | _ => None end.
Definition first_trak (x : init) : itrak :=
  match in_traks x with t :: _ => t | [] => mkITrak 0 0 0 [] end.
