(* C11CombModel.v — executable Gallina model (definitions only) of examples/combine-segs/main.go at the
   DECODED level, on the fragment model of C05 (coq/c05/C05Model.v, C05FragModel.v, imported read-only):

     combineMediaSegments(files, newTrackIDs)   per file: exactly one segment / one fragment / one traf (else an
                                                error); i == 0: CreateMultiTrackFragment(seqNr, newTrackIDs);
                                                frag.GetFullSamples(nil)  (trex = nil: "Here we should have the trex
                                                from the corresponding init segment");
                                                `_ = outFrag.AddFullSampleToTrack(fs, newTrackIDs[i])` (error ignored)
     writeSeg -> MediaSegment.Encode            NewMediaSegmentWith(out)Styp sets EncOptimize = OptimizeNone
     combineInitSegments(files, newTrackIDs)    on track records (C11InitModel.v)

   An input file is what DecodeFile makes of it: segments -> fragments, each fragment a C05FragModel.dfrag
   (trafs with tfhd / tfdt / truns in wire form, the mdat payload, the absolute positions of moof and payload). *)
From V.lib Require Import Base.
From V.c05 Require Import C05Model C05FragModel.
From V.c11 Require Import C11FetchModel.

Definition dsegment := list dfrag.          (* MediaSegment.Fragments *)
Definition dfile := list dsegment.          (* File.Segments *)

(* the three `expected exactly one ...` checks, in the order of the Go text *)
Definition single_frag (f : dfile) : res dfrag :=
  match f with
  | [seg] =>
      match seg with
      | [d] => match df_trafs d with [_] => Ok d | _ => Err end
      | _ => Err
      end
  | _ => Err
  end.

(* `for _, fs := range fss { _ = outFrag.AddFullSampleToTrack(fs, id) }`: an error changes nothing and is dropped *)
Fixpoint add_fulls_ign (fr : frag) (T : N) (l : list fullsample) : res frag :=
  match l with
  | [] => Ok fr
  | s :: r =>
      match step fr (op_of T s) with
      | Ok fr' => add_fulls_ign fr' T r
      | Err => add_fulls_ign fr T r
      | Panic => Panic
      | OutOfFuel => OutOfFuel
      end
  end.

(* the loop `for i := 0; i < len(files); i++`; out = outFrag.  newTrackIDs[i] is evaluated once per sample:
   an index beyond the slice panics only when the file has a sample *)
Fixpoint combine_loop (ids : list N) (files : list dfile) (i : nat) (out : frag) : res frag :=
  match files with
  | [] => Ok out
  | f :: rest =>
      do d <- single_frag f;
      do fss <- get_full_samples d None;
      do out' <- match fss with
                 | [] => Ok out
                 | _ => match nth_error ids i with
                        | None => Panic
                        | Some T => add_fulls_ign out T fss
                        end
                 end;
      combine_loop ids rest (S i) out'
  end.

(* Fragment.Encode without optimisation.  After fix 1704b4c MoofBox.Encode no longer dereferences a missing first
   traf: a fragment WITHOUT any traf (newTrackIDs empty) is encoded (C05FragModel.encode_frag carries the text before
   that fix for this corner: Panic); with at least one traf this is C05's encode_frag *)
Definition encode_frag_nz (fr : frag) : res frag :=
  match fr_trafs fr with
  | [] => Ok (fr_with fr [] (md_size_touch (md_size_touch (fr_mdat fr))) (fr_next fr))
  | _ => encode_frag false fr
  end.

(* combineMediaSegments + writeSeg: no file at all leaves combinedSeg nil, and Encode dereferences it *)
Definition combine_media (ids : list N) (files : list dfile) : res frag :=
  match files with
  | [] => Panic
  | _ => do fr <- combine_loop ids files 0 (create_multi ids); encode_frag_nz fr
  end.

(* ------------------------------------------------------------------ the guard of the property text *)
(* "inputs that do not rely on trex defaults": every trun of the (only) traf gets duration, size and flags
   of every sample from the trun itself or from the tfhd.  The flags of a trun with first-sample-flags come
   from the trun for sample 1 only. *)
Definition trun_indep (h : tfhd) (r : trun) : bool :=
  match tr_samples r with
  | [] => true
  | _ => (has_dur r || tf_has_ddur h) && (has_size r || tf_has_dsize h) &&
         (has_sflags r || tf_has_dflags h || (has_fsf r && (length (tr_samples r) <=? 1)%nat))
  end.

Definition no_trex_reliance (d : dfrag) : bool :=
  match df_trafs d with
  | [t] => forallb (trun_indep (tf_hd t)) (tf_truns t)
  | _ => false
  end.

(* what the decoder guarantees of a decoded input: sizes are uint32, the tfdt value is uint64 *)
Definition din_wf (d : dfrag) : bool :=
  match df_trafs d with
  | [t] => (td_base (tf_dt t) <? 18446744073709551616) &&
           forallb (fun r => forallb (fun s => s_size s <? 4294967296) (resolve (tf_hd t) None r)) (tf_truns t)
  | _ => false
  end.

(* the track a single-traf input carries *)
Definition din_track (d : dfrag) : N :=
  match df_trafs d with t :: _ => tf_track (tf_hd t) | [] => 0 end.

(* the reference reading of input i: with the trex of ITS init segment *)
Definition read_input (tx : trex) (f : dfile) : res (list fullsample) :=
  do d <- single_frag f; get_full_samples d (Some tx).

(* reading track T of the combined output: the combined init's trex for T carries defaults dd / ds / df
   (whatever they are: the written truns hold every field) *)
Definition read_output (T dd ds df pos0 : N) (fe : frag) : res (list fullsample) :=
  read_back (mkTrex T dd ds df) pos0 [] fe.

(* sizes: sample count and payload bytes of the inputs as read (for the 2 GiB bound of int32 data offsets) *)
Definition fulls_count (ls : list (list fullsample)) : N := sumN (map (fun l => lenN l) ls).
Definition fulls_bytes (ls : list (list fullsample)) : N := sumN (map (fun l => lenN (flat_map fs_data l)) ls).
