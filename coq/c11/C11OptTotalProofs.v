(* C11OptTotalProofs.v — total forms WITH trun optimisation (EncOptimize = OptimizeTrun) for multi-track fragments:
   Fragment.Encode optimises the first trun of the first traf (OptimizeTfhdTrun cannot fail: the trun is not empty),
   SetTrunDataOffsets sees the same (write order, data size) pairs, no data offset is 0, and the encoded fragment
   satisfies the round trip's guard.  Tracks without a sample in the interval (also all of them) are included. *)
From V.lib Require Import Base.
From Coq Require Import Permutation.
From V.c11 Require Import C11Model C11SegProofs.
From V.c09 Require Import C09Model C09Spec C09BaseProofs C09SttsProofs.
From V.c05 Require Import C05Model C05FragModel C05OptProofs C05HistProofs C05GhostProofs C05OffProofs C05ReadProofs C05RoundProofs
  C05LazyRoundProofs C05Theorems.
From V.c11 Require Import C11FetchModel C11Spec C11FetchProofs C11PipeProofs C11CopyProofs C11MuxProofs C11TotalProofs
  C11MuxTotalProofs.

Lemma count_ghost tracks : forall ops g, count (ghost tracks g ops) <= count g + N.of_nat (length ops).
Proof.
  induction ops as [|o ops IH]; intros g; cbn [ghost length]; [lia|].
  destruct (op_track o) as [T|]; [|specialize (IH g); lia].
  destruct (existsb (N.eqb T) tracks); [|specialize (IH g); lia].
  specialize (IH (fruns_add g T (op_full o))). rewrite count_add in IH. lia.
Qed.

Lemma trun_size_canon k l : lenN l < 4294967296 -> trun_size (canon k l) = 20 + 16 * lenN l.
Proof.
  intros H. unfold trun_size, canon, has_doff, has_fsf, has_dur, has_size, has_sflags, has_cto. cbn [tr_flags tr_samples].
  change (N.testbit 3841 B_DOFF) with true. change (N.testbit 3841 B_FSF) with false. change (N.testbit 3841 B_DUR) with true.
  change (N.testbit 3841 B_SIZE) with true. change (N.testbit 3841 B_SFLAGS) with true. change (N.testbit 3841 B_CTO) with true.
  cbn [b2n]. rewrite u32_small by exact H. lia.
Qed.

Lemma tfhd_size_ge h : 16 <= tfhd_size h.
Proof. unfold tfhd_size. lia. Qed.

Lemma ops_full_to g : forallb is_full_to (ops_of g) = true.
Proof.
  unfold ops_of. induction g as [|[T l] g IH]; [reflexivity|]. cbn [flat_map fst snd].
  rewrite forallb_app, IH, andb_true_r. clear. induction l as [|s l IH]; [reflexivity|exact IH].
Qed.

Lemma ops_sized g : Forall (fun p => Forall sized_f (snd p)) g -> Forall (fun o => sized_f (op_full o)) (ops_of g).
Proof.
  intros Hsz. unfold ops_of. induction Hsz as [|[T l] g Hl _ IH]; [constructor|]. cbn [flat_map fst snd] in *.
  apply Forall_app. split; [|exact IH]. clear - Hl. induction Hl as [|s l Hs _ IH]; [constructor|].
  cbn [map]. constructor; [destruct s as [s t d]; exact Hs|exact IH].
Qed.

(* Fragment.Encode with OptimizeTrun on a multi-track fragment built by the writers *)
Lemma write_mux_total_opt ids g pos0 fr :
  NoDup ids -> ids <> [] -> map fst g = ids ->
  Forall (fun p => Forall sized_f (snd p)) g ->
  64 * g_count g + g_bytes g + 40 * lenN ids + 300 < 2147483648 -> pos0 < 4611686018427387904 ->
  mux_add (create_multi ids) g = Ok fr ->
  exists fe, encode_frag true fr = Ok fe /\ seg_guard pos0 fe = true.
Proof.
  intros Hnd Hne Hids Hsz Hsmall Hpos Ha.
  destruct (mux_add_growth g _ _ Ha) as [Hm [Hpre Hd]]. rewrite moof_size_create_multi in Hm.
  cbn [create_multi fr_mdat md_data fr_pre] in Hd, Hpre. change (lenN (@nil N)) with 0 in Hd.
  destruct (mux_add_run _ _ _ Ha) as [cs Hrun].
  assert (Hlen : N.of_nat (length (ops_of g)) < 4294967296) by (rewrite ops_of_length; lia).
  set (gg := ghost ids [] (ops_of g)).
  assert (Hgi : ginv ids gg fr).
  { apply (ghost_ginv ids (ops_of g) cs (create_multi ids) fr Hnd Hlen (ops_full_to g)); [apply create_multi_ginv; exact Hnd|exact Hrun]. }
  assert (Hsg : sized gg) by (apply ghost_sized; [constructor|apply ops_sized; exact Hsz]).
  assert (Hcnt : count gg < 4294967296).
  { pose proof (count_ghost ids (ops_of g) []) as Hc. cbn [count] in Hc. fold gg in Hc. lia. }
  (* optimisation of the first trun cannot fail and grows the moof by at most 28 bytes *)
  assert (Hopt : exists fr1, optimize_first fr = Ok fr1 /\ moof_size fr1 <= moof_size fr + 28).
  { unfold optimize_first. destruct (fr_trafs fr) as [|t ts] eqn:Et; [exists fr; split; [reflexivity|lia]|].
    destruct (tf_truns t) as [|r rs] eqn:Er; [exists fr; split; [reflexivity|lia]|].
    destruct Hgi as ((_ & _ & Hf) & _ & Hnein & _). rewrite Et in Hf. pose proof (Forall_inv Hf) as Ht. cbv beta in Ht.
    pose proof (mk_truns_samples_bounds ids (tf_track (tf_hd t)) gg Hnein) as Hb. rewrite <- Ht, Er in Hb.
    pose proof (Forall_inv Hb) as [Hrne Hrlen].
    assert (Hcan : exists k l, r = canon k l).
    { rewrite mk_truns_specs in Ht. rewrite Er in Ht. destruct (specs_of (tf_track (tf_hd t)) gg) as [|p ps]; [discriminate|].
      cbn [map] in Ht. injection Ht as -> _. eexists; eexists; reflexivity. }
    destruct Hcan as [k [l ->]]. cbn [canon tr_samples] in Hrne, Hrlen.
    destruct (optimize_total (tf_hd t) (canon k l) Hrne) as [[h' r'] Ho].
    unfold optimize, FIXED_FSF. rewrite Ho. cbn [rbind]. eexists. split; [reflexivity|].
    pose proof (optimize_frame _ _ _ _ _ Ho) as (_ & _ & Hsame & _ & _). cbn [fst snd canon tr_samples] in Hsame.
    unfold moof_size. cbn [fr_with fr_trafs fr_moofx]. rewrite Et. cbn [map sumN]. unfold traf_size.
    cbn [tf_hd tf_dt tf_truns tf_extra]. rewrite Er. cbn [map sumN].
    pose proof (tfhd_size_le h'). pose proof (tfhd_size_ge (tf_hd t)).
    pose proof (trun_size_le r') as Hr'. rewrite Hsame in Hr'.
    rewrite (trun_size_canon k l) by lia. lia. }
  destruct Hopt as [fr1 [Hopt Hm1]].
  destruct (opt_first_props ids gg fr true fr1 Hgi Hopt) as ((Em & Ep & Ex & Eq & En) & HT).
  assert (Hperm : Permutation (map pr (all_truns (fr_trafs fr1))) (prs (runs_of gg))).
  { rewrite (pr_all_truns _ _ HT). apply (all_truns_perm ids); assumption. }
  assert (Hdata : lenN (all_data gg) = g_bytes g).
  { destruct Hgi as (_ & _ & _ & _ & Hdt & _). rewrite <- Hdt. lia. }
  assert (Hhdr : md_header_size (md_size_touch (fr_mdat fr1)) <= 16).
  { unfold md_header_size. destruct (md_large (md_size_touch (fr_mdat fr1))); lia. }
  pose proof (set_offsets_runs fr1 (runs_of gg)) as Hset. cbv zeta in Hset. specialize (Hset Hperm).
  rewrite (tsum_prs_sized gg Hsg), Hdata in Hset. specialize (Hset ltac:(lia)).
  set (f := fun r => Z.of_N (moof_size fr1 + md_header_size (md_size_touch (fr_mdat fr1)) + run_pos (runs_of gg) (tr_won r))) in *.
  assert (Hnz : forall l, existsb doff_unset (map (fun r => tr_with_doff r (f r)) l) = false).
  { induction l as [|r l IH]; [reflexivity|]. cbn [map existsb]. rewrite IH, orb_false_r.
    unfold doff_unset. cbn [tr_with_doff tr_doff]. subst f. cbv beta.
    pose proof (moof_size_pos fr1). destruct (Z.of_N _ =? 0)%Z eqn:E; [lia|apply andb_false_r]. }
  assert (Hmap : map C05HistProofs.track_of (fr_trafs fr1) = ids).
  { rewrite (topt_tracks _ _ HT). destruct Hgi as (_ & Hmp & _). exact Hmp. }
  unfold encode_frag. rewrite Hopt. cbn [rbind]. rewrite Hset. cbn [fr_with fr_trafs fr_mdat fr_next]. unfold with_offsets.
  destruct (fr_trafs fr1) as [|t ts] eqn:Et; [cbn [map] in Hmap; congruence|].
  cbn [map tf_truns]. rewrite Hnz.
  assert (Hall : existsb doff_unset (all_truns (map (fun t0 => mkTraf (tf_hd t0) (tf_dt t0)
                   (map (fun r => tr_with_doff r (f r)) (tf_truns t0)) (tf_extra t0)) ts)) = false).
  { unfold all_truns. clear - Hnz. induction ts as [|t1 ts1 IH]; [reflexivity|]. cbn [map flat_map tf_truns].
    rewrite existsb_app, Hnz. cbn [orb]. apply IH. }
  rewrite Hall. eexists. split; [reflexivity|].
  unfold seg_guard, fr_with. cbn [fr_trafs fr_mdat fr_next fr_pre fr_moofx fr_post].
  pose proof (moof_size_with_offsets fr1 f (md_size_touch (md_size_touch (fr_mdat fr1))) (fr_next fr1)) as Hw.
  unfold with_offsets, fr_with in Hw. rewrite Et in Hw. cbn [map] in Hw. rewrite Hw, md_touch_idem, Ep, Hpre, Em.
  cbn [md_size_touch md_data]. rewrite Em in Hhdr. apply andb_true_intro. split; apply N.ltb_lt; lia.
Qed.

(* both settings of EncOptimize *)
Lemma write_mux_total_any opt ids g pos0 fr :
  NoDup ids -> ids <> [] -> map fst g = ids ->
  Forall (fun p => Forall sized_f (snd p)) g ->
  64 * g_count g + g_bytes g + 40 * lenN ids + 300 < 2147483648 -> pos0 < 4611686018427387904 ->
  mux_add (create_multi ids) g = Ok fr ->
  exists fe, encode_frag opt fr = Ok fe /\ seg_guard pos0 fe = true.
Proof.
  intros. destruct opt; [apply (write_mux_total_opt ids g); assumption|apply (write_mux_total ids g); try assumption; lia].
Qed.

(* one multi-track segment, total, any optimisation setting, tracks without samples included: it is written and every
   track reads back what was added to it *)
Lemma write_mux_segment_total opt ids g pos0 :
  NoDup ids -> ids <> [] -> map fst g = ids ->
  Forall (fun p => Forall sized_f (snd p) /\ C05RoundProofs.consistent (snd p)) g ->
  64 * g_count g + g_bytes g + 40 * lenN ids + 300 < 2147483648 -> pos0 < 4611686018427387904 ->
  exists fe, write_mux_segment opt ids g = Ok fe /\
    forall tx : C05Model.trex, read_back tx pos0 [] fe = Ok (pick_track (tx_track tx) g).
Proof.
  intros Hnd Hne Hids Hall Hsmall Hpos.
  assert (Hsz : Forall (fun p => Forall sized_f (snd p)) g) by (eapply Forall_impl; [|exact Hall]; intros p [H _]; exact H).
  destruct (mux_add_ok g (create_multi ids)) as [fr Hadd].
  { intros p Hp. rewrite tracks_of_create_multi, <- Hids. apply in_map. exact Hp. }
  destruct (write_mux_total_any opt ids g pos0 fr Hnd Hne Hids Hsz Hsmall Hpos Hadd) as [fe [He Hg]].
  assert (Hw : write_mux_segment opt ids g = Ok fe) by (unfold write_mux_segment; rewrite Hadd; cbn [rbind]; exact He).
  exists fe. split; [exact Hw|]. intros tx.
  apply (write_read_mux opt ids g fe pos0 tx Hnd Hids); try assumption.
  - rewrite ops_of_length. lia.
  - destruct (in_dec N.eq_dec (tx_track tx) ids) as [Hin|Hnin].
    + rewrite <- Hids in Hin. apply in_map_iff in Hin. destruct Hin as [[T l] [HT Hp]]. cbn [fst] in HT. subst T.
      rewrite (pick_track_unique (tx_track tx) l g); [|rewrite Hids; exact Hnd|exact Hp].
      rewrite Forall_forall in Hall. exact (proj2 (Hall _ Hp)).
    + rewrite pick_track_absent by (rewrite Hids; exact Hnin). exact I.
Qed.

(* the empty multi-track segment (no track has a sample in the interval): written with and without optimisation,
   every reader gets no sample *)
Lemma write_mux_segment_empty opt ids pos0 :
  NoDup ids -> ids <> [] -> lenN ids < 1000000 -> pos0 < 4611686018427387904 ->
  exists fe, write_mux_segment opt ids (map (fun T => (T, [])) ids) = Ok fe /\
    forall tx : C05Model.trex, read_back tx pos0 [] fe = Ok [].
Proof.
  intros Hnd Hne Hk Hpos. set (g := map (fun T : N => (T, @nil fullsample)) ids).
  assert (Hids : map fst g = ids) by (unfold g; rewrite map_map; apply map_id).
  assert (Hc : g_count g = 0 /\ g_bytes g = 0).
  { unfold g, g_count, g_bytes. rewrite !map_map. cbn [snd flat_map]. clear. induction ids; [split; reflexivity|cbn [map sumN]; exact IHids]. }
  destruct Hc as [Hc Hb].
  destruct (write_mux_segment_total opt ids g pos0 Hnd Hne Hids) as [fe [Hw Hr]].
  - unfold g. apply Forall_forall. intros p Hp. apply in_map_iff in Hp. destruct Hp as [T [<- _]]. split; [constructor|exact I].
  - rewrite Hc, Hb. lia.
  - exact Hpos.
  - exists fe. split; [exact Hw|]. intros tx. rewrite Hr.
    unfold pick_track, g. clear. induction ids as [|T ids IH]; [reflexivity|]. cbn [map flat_map fst snd].
    destruct (T =? tx_track tx); exact IH.
Qed.

(* ------------------------------------------------------------------ makeMultiTrackSegments, any optimisation *)
Definition mux_seg_small_opt (trs : list strack) (k : nat) : bool :=
  64 * sumN (map (fun t => snd (iv_at t k) + 1 - fst (iv_at t k)) trs)
  + sumN (map (fun t => S_total_size (st_tb t) (fst (iv_at t k)) (snd (iv_at t k))) trs)
  + 40 * lenN trs + 300 <? 2147483648.

Lemma mux_loop_total_any opt f nsegs pos0 trs : NoDup (map st_id trs) -> trs <> [] -> pos0 < 4611686018427387904 ->
  Forall (mtrack_ok f nsegs) trs ->
  forall ks, (forall k, In k ks -> (k < nsegs)%nat /\ mux_seg_small_opt trs k = true) ->
  exists fes, mux_loop opt f (map st_id trs) trs ks = Ok fes /\ Forall (fun fe => seg_guard pos0 fe = true) fes.
Proof.
  intros Hnd Hne Hpos Hok. induction ks as [|k ks IH]; intros Hks.
  - exists []. split; [reflexivity|constructor].
  - destruct (IH (fun k' Hk' => Hks k' (or_intror Hk'))) as [fes [Hl Hg]].
    destruct (Hks k (or_introl eq_refl)) as [Hk Hsm].
    destruct (mux_gather_total f nsegs k Hk trs Hok) as [g [Hgg [Hids [Hsz [Hc Hb]]]]].
    unfold mux_seg_small_opt in Hsm. apply N.ltb_lt in Hsm. rewrite <- Hc, <- Hb in Hsm.
    cbn [mux_loop]. rewrite Hgg. cbn [rbind]. unfold write_mux_segment.
    destruct (mux_add_ok g (create_multi (map st_id trs))) as [fr Hadd].
    { intros p Hp. rewrite tracks_of_create_multi, <- Hids. apply in_map. exact Hp. }
    rewrite Hadd. cbn [rbind].
    destruct (write_mux_total_any opt (map st_id trs) g pos0 fr Hnd) as [fe [He Hgf]]; try assumption.
    + destruct trs; [congruence|discriminate].
    + unfold lenN in *. rewrite map_length. lia.
    + rewrite He, Hl. cbn [rbind]. exists (fe :: fes). split; [reflexivity|constructor; assumption].
Qed.

Lemma mux_total_any opt f pos0 trs nsegs :
  NoDup (map st_id trs) -> trs <> [] -> total_samples trs < 4294967296 -> (1 <= nsegs)%nat ->
  pos0 < 4611686018427387904 ->
  Forall (fun t => C09Spec.consistent (st_tb t) = true /\ data_ok f (st_tb t) = true /\
                   length (st_ivs t) = nsegs /\
                   concat (map C11Model.range (st_ivs t)) = seqN1 (nsamples (st_tb t)) /\
                   Forall (fun iv => fst iv <= snd iv + 1) (st_ivs t)) trs ->
  forallb (mux_seg_small_opt trs) (seq 0 nsegs) = true ->
  exists fes, mux_segments opt f trs nsegs = Ok fes /\
    Forall (fun t => forall tx : C05Model.trex, tx_track tx = st_id t ->
              exists outs, read_all (read_back tx pos0 []) fes = Ok outs /\
                           map Some (concat outs) = expansion f (st_tb t)) trs.
Proof.
  intros Hnd Hne Htot Hn Hpos Hall Hsm.
  assert (Hok : Forall (mtrack_ok f nsegs) trs).
  { rewrite Forall_forall in *. intros t Ht. destruct (Hall t Ht) as [H [Hd [Hlen [Htile Hord]]]].
    split; [exact H|]. split; [exact Hd|]. split; [exact Hlen|]. split; [|exact Hord].
    intros iv0 x0 Hiv Hx.
    assert (Hi : In x0 (concat (map C11Model.range (st_ivs t))))
      by (apply in_concat; exists (C11Model.range iv0); split; [apply in_map; exact Hiv|exact Hx]).
    rewrite Htile, seqN1_seqN in Hi. apply in_seqN in Hi. lia. }
  destruct (mux_loop_total_any opt f nsegs pos0 trs Hnd Hne Hpos Hok (seq 0 nsegs)) as [fes [Hl Hg]].
  { intros k Hk. apply in_seq in Hk. split; [lia|]. rewrite forallb_forall in Hsm. apply Hsm. apply in_seq. lia. }
  assert (Hs : mux_segments opt f trs nsegs = Ok fes).
  { unfold mux_segments. replace (Nat.max 1 nsegs) with nsegs by lia.
    change (map (fun t : strack => snd (fst t)) trs) with (map st_id trs). exact Hl. }
  exists fes. split; [exact Hs|].
  apply (mux_end_to_end_all opt f pos0 trs nsegs fes Hnd Htot Hn); [|exact Hs|exact Hg].
  rewrite Forall_forall in *. intros t Ht. destruct (Hall t Ht) as [H [Hd [Hlen [Htile _]]]]. repeat split; assumption.
Qed.

(* ------------------------------------------------------------------ single-track fragment: an EMPTY one under optimisation *)
(* CreateFragment + no sample + Encode with OptimizeTrun: OptimizeTfhdTrun returns "no samples in trun", Encode fails.
   (This is why Resegment's possibly empty first segment is written without optimisation, and the segmenter's writers
   skip a track that has no sample in an interval.) *)
Lemma write_segment_empty_opt_fails T : write_segment true T [] = Err.
Proof. reflexivity. Qed.
