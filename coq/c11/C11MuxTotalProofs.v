(* C11MuxTotalProofs.v — the multiplexed writer as the tool runs it (no trun optimisation) does return without error:
   additions to a track the multi-track fragment has never fail, every addition grows the moof by at most 64 bytes,
   Fragment.Encode succeeds (C05_offsets gives the data offsets: none is 0) and the written fragment satisfies the
   round trip's guard, under a bound on the INPUT of every segment. *)
From V.lib Require Import Base.
From V.c11 Require Import C11Model C11SegProofs.
From V.c09 Require Import C09Model C09Spec C09BaseProofs C09SttsProofs.
From V.c05 Require Import C05Model C05FragModel C05HistProofs C05GhostProofs C05OffProofs C05ReadProofs C05RoundProofs
  C05LazyRoundProofs C05Theorems.
From V.c11 Require Import C11FetchModel C11Spec C11FetchProofs C11PipeProofs C11CopyProofs C11MuxProofs C11TotalProofs.

(* ------------------------------------------------------------------ how much one addition can grow the moof *)
Lemma u32_succ_le x : u32 (x + 1) <= u32 x + 1.
Proof. unfold u32. lia. Qed.

Lemma trun_size_add r s : trun_size (tr_add r [s]) <= trun_size r + 16.
Proof.
  unfold trun_size, tr_add, has_doff, has_fsf, has_dur, has_size, has_sflags, has_cto.
  cbn [tr_with_samples tr_flags tr_samples]. rewrite lenN_app. change (lenN [s]) with 1.
  pose proof (u32_succ_le (lenN (tr_samples r))).
  pose proof (b2n_le (N.testbit (tr_flags r) B_DUR)). pose proof (b2n_le (N.testbit (tr_flags r) B_SIZE)).
  pose proof (b2n_le (N.testbit (tr_flags r) B_SFLAGS)). pose proof (b2n_le (N.testbit (tr_flags r) B_CTO)).
  set (K := 4 * b2n (N.testbit (tr_flags r) B_DUR) + 4 * b2n (N.testbit (tr_flags r) B_SIZE) +
            4 * b2n (N.testbit (tr_flags r) B_SFLAGS) + 4 * b2n (N.testbit (tr_flags r) B_CTO)).
  assert (HK : K <= 16) by (subst K; lia).
  assert (Hmul : u32 (lenN (tr_samples r) + 1) * K <= (u32 (lenN (tr_samples r)) + 1) * K) by (apply N.mul_le_mono_r; assumption).
  rewrite N.mul_add_distr_r, N.mul_1_l in Hmul. clearbody K. lia.
Qed.

Lemma sum_truns_removelast l d s : l <> [] ->
  sumN (map trun_size (removelast l ++ [tr_add (last l d) [s]])) <= sumN (map trun_size l) + 16.
Proof.
  intros Hne.
  assert (E : sumN (map trun_size l) = sumN (map trun_size (removelast l)) + trun_size (last l d)).
  { rewrite (app_removelast_last d Hne) at 1. rewrite map_app, sumN_app. cbn [map sumN]. lia. }
  rewrite E, map_app, sumN_app. cbn [map sumN].
  pose proof (trun_size_add (last l d) s). lia.
Qed.

Lemma tfdt_size_bounds dt dts : tfdt_size (set_base dts) <= tfdt_size dt + 4.
Proof. unfold tfdt_size. pose proof (set_base_version dts). lia. Qed.

Lemma traf_size_add t next s dts : traf_size (fst (add_to_traf t next s dts)) <= traf_size t + 64.
Proof.
  unfold add_to_traf. destruct (tf_truns t) as [|r0 l0] eqn:Et.
  - (* first trun created *)
    cbn [last]. pose proof (tfdt_size_bounds (tf_dt t) dts) as Hb.
    change (u32 (lenN (@nil sample)) =? 0) with true.
    destruct (negb (tr_won (create_trun next) =? u32 (u32 (next + 1) + 4294967295))); cbn [fst];
      unfold traf_size; cbn [tf_hd tf_dt tf_truns tf_extra]; rewrite Et;
      cbn [map sumN app removelast tr_samples create_trun].
    + change (u32 (lenN (@nil sample)) =? 0) with true. cbv iota.
      change (trun_size (create_trun next)) with 20.
      change (trun_size (tr_add (create_trun (u32 (next + 1))) [s])) with 36. lia.
    + change (u32 (lenN (@nil sample)) =? 0) with true. cbv iota.
      change (trun_size (tr_add (create_trun next) [s])) with 36. lia.
  - set (l := r0 :: l0) in *.
    assert (Hne : l <> []) by discriminate.
    assert (Hdt : forall dt', (dt' = tf_dt t \/ dt' = set_base dts) -> tfdt_size dt' <= tfdt_size (tf_dt t) + 4).
    { intros dt' [->| ->]; [lia|apply tfdt_size_bounds]. }
    set (dt' := match l0 with [] => if u32 (lenN (tr_samples r0)) =? 0 then set_base dts else tf_dt t | _ :: _ => tf_dt t end).
    assert (Hd' : dt' = tf_dt t \/ dt' = set_base dts).
    { subst dt'. destruct l0; auto. destruct (u32 (lenN (tr_samples r0)) =? 0); auto. }
    specialize (Hdt dt' Hd').
    destruct (negb (tr_won (last l (create_trun 0)) =? u32 (next + 4294967295))); cbn [fst];
      unfold traf_size; cbn [tf_hd tf_dt tf_truns tf_extra]; rewrite Et; fold l; fold dt'.
    + rewrite map_app, sumN_app. cbn [map sumN].
      change (trun_size (tr_add (create_trun next) [s])) with 36. lia.
    + pose proof (sum_truns_removelast l (create_trun 0) s Hne). lia.
Qed.

Lemma attt_size T next s d : forall ts ts' n', add_to_track_trafs ts T next s d = Some (ts', n') ->
  sumN (map traf_size ts') <= sumN (map traf_size ts) + 64.
Proof.
  induction ts as [|t ts IH]; intros ts' n' H; cbn [add_to_track_trafs] in H; [discriminate|].
  destruct (tf_track (tf_hd t) =? T).
  - pose proof (traf_size_add t next s d) as Hs. destruct (add_to_traf t next s d) as [t' n1]. injection H as <- <-.
    cbn [map sumN fst] in *. lia.
  - destruct (add_to_track_trafs ts T next s d) as [[r n1]|] eqn:E; [|discriminate]. injection H as <- <-.
    specialize (IH r n1 eq_refl). cbn [map sumN]. lia.
Qed.

Lemma step_full_growth fr T (x : fullsample) fr' : step fr (op_of T x) = Ok fr' ->
  moof_size fr' <= moof_size fr + 64 /\ fr_pre fr' = fr_pre fr /\
  md_data (fr_mdat fr') = md_data (fr_mdat fr) ++ fs_data x.
Proof.
  unfold op_of. cbn [step]. unfold add_sample_to_track.
  destruct (add_to_track_trafs (fr_trafs fr) T (fr_next fr) (fs_s x) (fs_dts x)) as [[ts n]|] eqn:E; [|discriminate].
  cbn [rbind]. intros H. injection H as <-. pose proof (attt_size _ _ _ _ _ _ _ E).
  unfold moof_size. cbn [fr_with fr_trafs fr_moofx fr_pre fr_mdat md_add_data md_set_lazy0 md_add_lazy md_data]. repeat split. lia.
Qed.

Lemma add_fulls_growth T : forall (l : list fullsample) fr fr', add_fulls fr T l = Ok fr' ->
  moof_size fr' <= moof_size fr + 64 * lenN l /\ fr_pre fr' = fr_pre fr /\
  md_data (fr_mdat fr') = md_data (fr_mdat fr) ++ flat_map fs_data l.
Proof.
  induction l as [|x l IH]; intros fr fr' H; cbn [add_fulls] in H.
  - injection H as <-. rewrite app_nil_r. split; [cbn; lia|split; reflexivity].
  - destruct (step fr (op_of T x)) as [fr1| | |] eqn:E; cbn [rbind] in H; try discriminate.
    destruct (step_full_growth fr T x fr1 E) as [H1 [Hp H2]]. destruct (IH fr1 fr' H) as [H3 [Hp' H4]].
    rewrite lenN_cons. split; [lia|]. split; [congruence|]. rewrite H4, H2. cbn [flat_map]. rewrite app_assoc. reflexivity.
Qed.

Definition g_count (g : list (N * list fullsample)) : N := sumN (map (fun p => lenN (snd p)) g).
Definition g_bytes (g : list (N * list fullsample)) : N := sumN (map (fun p => lenN (flat_map fs_data (snd p))) g).

Lemma mux_add_growth : forall g fr fr', mux_add fr g = Ok fr' ->
  moof_size fr' <= moof_size fr + 64 * g_count g /\ fr_pre fr' = fr_pre fr /\
  lenN (md_data (fr_mdat fr')) = lenN (md_data (fr_mdat fr)) + g_bytes g.
Proof.
  induction g as [|[T l] g IH]; intros fr fr' H; cbn [mux_add] in H.
  - injection H as <-. unfold g_count, g_bytes. cbn. repeat split; lia.
  - destruct (add_fulls fr T l) as [fr1| | |] eqn:E; cbn [rbind] in H; try discriminate.
    destruct (add_fulls_growth T l fr fr1 E) as [H1 [Hp H2]]. destruct (IH fr1 fr' H) as [H3 [Hp' H4]].
    unfold g_count, g_bytes in *. cbn [map sumN snd]. rewrite H4, H2, lenN_app. split; [lia|]. split; [congruence|lia].
Qed.

Lemma moof_size_create_multi ids : moof_size (create_multi ids) = 24 + 40 * lenN ids.
Proof.
  unfold moof_size, create_multi. cbn [fr_trafs fr_moofx]. rewrite map_map.
  induction ids as [|i ids IH]; [reflexivity|]. cbn [map sumN]. rewrite lenN_cons.
  change (traf_size (mkTraf (create_tfhd i) (mkTfdt 0 0) [] 0)) with 40. lia.
Qed.

Lemma ops_of_length g : N.of_nat (length (ops_of g)) = g_count g.
Proof.
  unfold ops_of, g_count. induction g as [|[T l] g IH]; [reflexivity|]. cbn [flat_map map sumN fst snd].
  rewrite app_length, map_length. unfold lenN in *. lia.
Qed.

(* ------------------------------------------------------------------ Encode of the multi-track fragment (no optimisation) *)
Lemma write_mux_total ids g pos0 fr :
  NoDup ids -> ids <> [] -> map fst g = ids ->
  Forall (fun p => Forall sized_f (snd p)) g ->
  64 * g_count g + g_bytes g + 40 * lenN ids + 200 < 2147483648 -> pos0 < 4611686018427387904 ->
  mux_add (create_multi ids) g = Ok fr ->
  exists fe, encode_frag false fr = Ok fe /\ seg_guard pos0 fe = true.
Proof.
  intros Hnd Hne Hids Hsz Hsmall Hpos Ha.
  destruct (mux_add_growth g _ _ Ha) as [Hm [Hpre Hd]]. rewrite moof_size_create_multi in Hm.
  cbn [create_multi fr_mdat md_data fr_pre] in Hd, Hpre. change (lenN (@nil N)) with 0 in Hd.
  destruct (mux_add_run _ _ _ Ha) as [cs Hrun].
  assert (Hhdr : md_header_size (md_size_touch (fr_mdat fr)) <= 16).
  { unfold md_header_size. destruct (md_large (md_size_touch (fr_mdat fr))); lia. }
  assert (Hlen : N.of_nat (length (ops_of g)) < 4294967296) by (rewrite ops_of_length; lia).
  assert (Hfull : forallb is_full_to (ops_of g) = true).
  { clear. unfold ops_of. induction g as [|[T l] g IH]; [reflexivity|]. cbn [flat_map fst snd].
    rewrite forallb_app, IH, andb_true_r. clear. induction l as [|s l IH]; [reflexivity|exact IH]. }
  assert (Hrun' : run_ops (with_extras (create_multi ids) 0 0 0 []) (ops_of g) = (cs, Some fr)).
  { unfold with_extras. cbn [create_multi fr_trafs fr_mdat fr_next]. rewrite set_extras_nil. exact Hrun. }
  pose proof (C05_offsets ids 0 0 0 [] (ops_of g) cs fr Hnd Hlen Hfull) as Hoff. cbv zeta in Hoff.
  destruct Hoff as [Hset _].
  - clear - Hsz. unfold ops_of. induction Hsz as [|[T l] g Hl _ IH]; [constructor|]. cbn [flat_map fst snd] in *.
    apply Forall_app. split; [|exact IH]. clear - Hl. induction Hl as [|s l Hs _ IH]; [constructor|].
    cbn [map]. constructor; [destruct s as [s t d]; exact Hs|exact IH].
  - exact Hrun'.
  - lia.
  - set (f := fun r => Z.of_N (moof_size fr + md_header_size (md_size_touch (fr_mdat fr)) +
                                 run_pos (runs_of (ghost ids [] (ops_of g))) (tr_won r))) in *.
    assert (Hnz : forall l, existsb doff_unset (map (fun r => tr_with_doff r (f r)) l) = false).
    { induction l as [|r l IH]; [reflexivity|]. cbn [map existsb]. rewrite IH, orb_false_r.
      unfold doff_unset. cbn [tr_with_doff tr_doff]. subst f. cbv beta.
      pose proof (moof_size_pos fr). destruct (Z.of_N _ =? 0)%Z eqn:E; [lia|apply andb_false_r]. }
    assert (Hmap : map C05HistProofs.track_of (fr_trafs fr) = ids).
    { assert (Hto : forallb to_track_op (ops_of g) = true).
      { clear. unfold ops_of. induction g as [|[T l] g IH]; [reflexivity|]. cbn [flat_map fst snd].
        rewrite forallb_app, IH, andb_true_r. clear. induction l as [|s l IH]; [reflexivity|exact IH]. }
      destruct (C05_history_inv ids (ops_of g) cs fr Hnd Hlen Hto Hrun) as [rr [_ [Hmp _]]]. exact Hmp. }
    unfold encode_frag. cbn [rbind]. rewrite Hset. cbn [fr_with fr_trafs fr_mdat fr_next]. unfold with_offsets.
    destruct (fr_trafs fr) as [|t ts] eqn:Et; [cbn [map] in Hmap; congruence|].
    cbn [map tf_truns]. rewrite Hnz.
    assert (Hall : existsb doff_unset (all_truns (map (fun t0 => mkTraf (tf_hd t0) (tf_dt t0)
                     (map (fun r => tr_with_doff r (f r)) (tf_truns t0)) (tf_extra t0)) ts)) = false).
    { unfold all_truns. clear - Hnz. induction ts as [|t1 ts1 IH]; [reflexivity|]. cbn [map flat_map tf_truns].
      rewrite existsb_app, Hnz. cbn [orb]. apply IH. }
    rewrite Hall. eexists. split; [reflexivity|].
    unfold seg_guard, fr_with. cbn [fr_trafs fr_mdat fr_next fr_pre fr_moofx fr_post].
    pose proof (moof_size_with_offsets fr f (md_size_touch (md_size_touch (fr_mdat fr))) (fr_next fr)) as Hw.
    unfold with_offsets, fr_with in Hw. rewrite Et in Hw. cbn [map] in Hw. rewrite Hw, md_touch_idem, Hpre.
    cbn [md_size_touch md_data]. apply andb_true_intro. split; apply N.ltb_lt; lia.
Qed.

(* ------------------------------------------------------------------ all segments *)
Definition iv_at (t : strack) (k : nat) : N * N :=
  match nth_error (st_ivs t) k with Some iv => iv | None => (1, 0) end.

(* a bound on the INPUT of segment k: 64 bytes of moof per sample + 40 per track + the samples' bytes + headers *)
Definition mux_seg_small (trs : list strack) (k : nat) : bool :=
  64 * sumN (map (fun t => snd (iv_at t k) + 1 - fst (iv_at t k)) trs)
  + sumN (map (fun t => S_total_size (st_tb t) (fst (iv_at t k)) (snd (iv_at t k))) trs)
  + 40 * lenN trs + 200 <? 2147483648.

Definition mtrack_ok (f : pfile) (nsegs : nat) (t : strack) : Prop :=
  C09Spec.consistent (st_tb t) = true /\ data_ok f (st_tb t) = true /\ length (st_ivs t) = nsegs /\
  (forall iv x, In iv (st_ivs t) -> In x (C11Model.range iv) -> 1 <= x <= nsamples (st_tb t)) /\
  Forall (fun iv => fst iv <= snd iv + 1) (st_ivs t).

Lemma mux_gather_total f nsegs k : (k < nsegs)%nat -> forall trs, Forall (mtrack_ok f nsegs) trs ->
  exists g, mux_gather f trs k = Ok g /\ map fst g = map st_id trs /\
            Forall (fun p => Forall sized_f (snd p)) g /\
            g_count g = sumN (map (fun t => snd (iv_at t k) + 1 - fst (iv_at t k)) trs) /\
            g_bytes g = sumN (map (fun t => S_total_size (st_tb t) (fst (iv_at t k)) (snd (iv_at t k))) trs).
Proof.
  intros Hk. induction trs as [|[[tb T] ivs] trs IH]; intros Hok.
  - exists []. repeat split; constructor.
  - inversion Hok as [|? ? (H & Hd & Hlen & Hin & Hord) Hok']; subst.
    unfold st_tb, st_id, st_ivs in *. cbn [fst snd] in *.
    destruct (IH Hok') as [g [Hg [Hids [Hsz [Hc Hb]]]]].
    destruct (nth_error ivs k) as [[a b]|] eqn:En; [|apply nth_error_None in En; lia].
    pose proof (nth_error_In _ _ En) as Hini. rewrite Forall_forall in Hord. pose proof (Hord _ Hini) as Ho. cbn [fst snd] in Ho.
    cbn [mux_gather]. rewrite En. unfold fetch_or_skip, fetch_interval. cbn [fst snd].
    destruct (b + 1 <? a) eqn:E1; [lia|].
    assert (Hiv : iv_at (tb, T, ivs) k = (a, b)) by (unfold iv_at, st_ivs; cbn [snd]; rewrite En; reflexivity).
    cbn [map sumN]. rewrite Hiv. cbn [fst snd].
    destruct (N.eq_dec a (b + 1)) as [Eab|Nab].
    + replace (N.to_nat (b + 1 - a)) with O by lia. cbn [fetch_loop rbind]. rewrite Hg. cbn [rbind].
      eexists. split; [reflexivity|]. cbn [map fst snd]. split; [rewrite Hids; reflexivity|].
      split; [constructor; [constructor|exact Hsz]|].
      unfold g_count, g_bytes in *. cbn [map sumN snd flat_map]. rewrite Hc, Hb.
      unfold S_total_size. replace (b + 1 - a) with 0 by lia. split; reflexivity.
    + assert (Ha : 1 <= a <= nsamples tb).
      { apply (Hin (a, b)); [exact Hini|]. rewrite range_seqN. apply in_seqN. lia. }
      assert (Hbb : 1 <= b <= nsamples tb).
      { apply (Hin (a, b)); [exact Hini|]. rewrite range_seqN. apply in_seqN. lia. }
      destruct (fetch_loop_ok f tb H Hd (N.to_nat (b + 1 - a)) a ltac:(lia) ltac:(lia)) as [l [Hl Hm]].
      rewrite Hl. cbn [rbind]. rewrite Hg. cbn [rbind].
      pose proof (map_Some_length _ _ Hm) as Hlen'. rewrite map_length, seqN_length in Hlen'.
      pose proof (fulls_data_len f tb H Hd (N.to_nat (b + 1 - a)) a l ltac:(lia) ltac:(lia) Hm) as Hdl.
      replace (a + N.of_nat (N.to_nat (b + 1 - a)) - 1) with b in Hdl by lia.
      eexists. split; [reflexivity|]. cbn [map fst snd]. split; [rewrite Hids; reflexivity|].
      split; [constructor; [apply (expansion_sized f tb H Hd (N.to_nat (b + 1 - a)) a); [lia|lia|exact Hm]|exact Hsz]|].
      unfold g_count, g_bytes in *. cbn [map sumN snd]. rewrite Hc, Hb, Hdl. unfold lenN. rewrite Hlen'.
      split; [lia|reflexivity].
Qed.

(* additions to a track the fragment has never fail *)
Definition tracks_of (fr : frag) : list N := map (fun t => tf_track (tf_hd t)) (fr_trafs fr).

Lemma attt_some T next s d : forall ts, In T (map (fun t => tf_track (tf_hd t)) ts) ->
  exists ts' n', add_to_track_trafs ts T next s d = Some (ts', n') /\
                 map (fun t => tf_track (tf_hd t)) ts' = map (fun t => tf_track (tf_hd t)) ts.
Proof.
  induction ts as [|t ts IH]; intros Hin; [contradiction|]. cbn [add_to_track_trafs map In] in *.
  destruct (tf_track (tf_hd t) =? T) eqn:E.
  - unfold add_to_traf.
    destruct (match tf_truns t with [] => ([create_trun next], u32 (next + 1)) | r :: l => (r :: l, next) end) as [tr1 n1].
    destruct (negb (tr_won (last tr1 (create_trun 0)) =? u32 (n1 + 4294967295))); eexists; eexists; split; reflexivity.
  - destruct Hin as [Hh|Hin]; [apply N.eqb_neq in E; congruence|].
    destruct (IH Hin) as [ts' [n' [H1 H2]]]. rewrite H1. eexists; eexists. split; [reflexivity|]. cbn [map]. rewrite H2. reflexivity.
Qed.

Lemma add_fulls_ok_multi T : forall (l : list fullsample) fr, In T (tracks_of fr) ->
  exists fr', add_fulls fr T l = Ok fr' /\ tracks_of fr' = tracks_of fr.
Proof.
  induction l as [|x l IH]; intros fr Hin; cbn [add_fulls]; [exists fr; split; reflexivity|].
  unfold op_of. cbn [step]. unfold add_sample_to_track.
  destruct (attt_some T (fr_next fr) (fs_s x) (fs_dts x) (fr_trafs fr) Hin) as [ts' [n' [H1 H2]]]. rewrite H1. cbn [rbind].
  set (fr1 := fr_with _ _ _ _).
  assert (Ht1 : tracks_of fr1 = tracks_of fr) by (subst fr1; unfold tracks_of; cbn [fr_with fr_trafs]; exact H2).
  destruct (IH fr1 ltac:(rewrite Ht1; exact Hin)) as [fr' [Ha Ht]]. exists fr'. split; [exact Ha|congruence].
Qed.

Lemma mux_add_ok : forall g fr, (forall p, In p g -> In (fst p) (tracks_of fr)) -> exists fr', mux_add fr g = Ok fr'.
Proof.
  induction g as [|[T l] g IH]; intros fr Hin; cbn [mux_add]; [exists fr; reflexivity|].
  destruct (add_fulls_ok_multi T l fr (Hin (T, l) (or_introl eq_refl))) as [fr1 [Ha Ht]]. rewrite Ha. cbn [rbind].
  apply IH. intros p Hp. rewrite Ht. apply Hin. right. exact Hp.
Qed.

Lemma tracks_of_create_multi ids : tracks_of (create_multi ids) = ids.
Proof. unfold tracks_of, create_multi. cbn [fr_trafs]. rewrite map_map. cbn [tf_hd create_tfhd tf_track]. apply map_id. Qed.

Lemma mux_loop_total f nsegs pos0 trs : NoDup (map st_id trs) -> trs <> [] -> pos0 < 4611686018427387904 ->
  Forall (mtrack_ok f nsegs) trs ->
  forall ks, (forall k, In k ks -> (k < nsegs)%nat /\ mux_seg_small trs k = true) ->
  exists fes, mux_loop false f (map st_id trs) trs ks = Ok fes /\ Forall (fun fe => seg_guard pos0 fe = true) fes.
Proof.
  intros Hnd Hne Hpos Hok. induction ks as [|k ks IH]; intros Hks.
  - exists []. split; [reflexivity|constructor].
  - destruct (IH (fun k' Hk' => Hks k' (or_intror Hk'))) as [fes [Hl Hg]].
    destruct (Hks k (or_introl eq_refl)) as [Hk Hsm].
    destruct (mux_gather_total f nsegs k Hk trs Hok) as [g [Hgg [Hids [Hsz [Hc Hb]]]]].
    unfold mux_seg_small in Hsm. apply N.ltb_lt in Hsm. rewrite <- Hc, <- Hb in Hsm.
    cbn [mux_loop]. rewrite Hgg. cbn [rbind]. unfold write_mux_segment.
    destruct (mux_add_ok g (create_multi (map st_id trs))) as [fr Hadd].
    { intros p Hp. rewrite tracks_of_create_multi, <- Hids. apply in_map. exact Hp. }
    rewrite Hadd. cbn [rbind].
    destruct (write_mux_total (map st_id trs) g pos0 fr Hnd) as [fe [He Hgf]]; try assumption.
    + destruct trs; [congruence|discriminate].
    + unfold lenN in *. rewrite map_length. lia.
    + rewrite He, Hl. cbn [rbind]. exists (fe :: fes). split; [reflexivity|constructor; assumption].
Qed.

(* the multiplexed writer as the tool runs it (no trun optimisation), total form *)
Lemma mux_total f pos0 trs nsegs :
  NoDup (map st_id trs) -> trs <> [] -> total_samples trs < 4294967296 -> (1 <= nsegs)%nat ->
  pos0 < 4611686018427387904 ->
  Forall (fun t => C09Spec.consistent (st_tb t) = true /\ data_ok f (st_tb t) = true /\
                   length (st_ivs t) = nsegs /\
                   concat (map C11Model.range (st_ivs t)) = seqN1 (nsamples (st_tb t)) /\
                   Forall (fun iv => fst iv <= snd iv + 1) (st_ivs t)) trs ->
  forallb (mux_seg_small trs) (seq 0 nsegs) = true ->
  exists fes, mux_segments false f trs nsegs = Ok fes /\
    Forall (fun t => forall tx : C05Model.trex, tx_track tx = st_id t ->
              exists outs, read_all (read_back tx pos0 []) fes = Ok outs /\
                           map Some (concat outs) = expansion f (st_tb t)) trs.
Proof.
  intros Hnd Hne Htot Hn Hpos Hall Hsm.
  assert (Hok : Forall (mtrack_ok f nsegs) trs).
  { rewrite Forall_forall in *. intros t Ht. destruct (Hall t Ht) as [H [Hd [Hlen [Htile Hord]]]].
    split; [exact H|]. split; [exact Hd|]. split; [exact Hlen|]. split; [|exact Hord].
    intros iv0 x0 Hiv Hx.
    assert (Hi : In x0 (concat (map C11Model.range (st_ivs t))))
      by (apply in_concat; exists (C11Model.range iv0); split; [apply in_map; exact Hiv|exact Hx]).
    rewrite Htile, seqN1_seqN in Hi. apply in_seqN in Hi. lia. }
  destruct (mux_loop_total f nsegs pos0 trs Hnd Hne Hpos Hok (seq 0 nsegs)) as [fes [Hl Hg]].
  { intros k Hk. apply in_seq in Hk. split; [lia|]. rewrite forallb_forall in Hsm. apply Hsm. apply in_seq. lia. }
  assert (Hs : mux_segments false f trs nsegs = Ok fes).
  { unfold mux_segments. replace (Nat.max 1 nsegs) with nsegs by lia.
    change (map (fun t : strack => snd (fst t)) trs) with (map st_id trs). exact Hl. }
  exists fes. split; [exact Hs|].
  apply (mux_end_to_end_all false f pos0 trs nsegs fes Hnd Htot Hn); [|exact Hs|exact Hg].
  rewrite Forall_forall in *. intros t Ht. destruct (Hall t Ht) as [H [Hd [Hlen [Htile _]]]]. repeat split; assumption.
Qed.
