(* C11ResegProofs.v — Resegment's and Fragmentify's output pieces, written with CreateFragment +
   AddFullSampleToTrack + Fragment.Encode and read back with GetFullSamples (C05's round trip), give the input
   samples: the list-level theorems of C11FragProofs become statements about decoded output. *)
From V.lib Require Import Base.
From V.c11 Require Import C11Model C11FragProofs.
From V.c05 Require Import C05Model C05FragModel C05ReadProofs C05RoundProofs.
From V.c11 Require Import C11FetchModel C11Spec C11PipeProofs.

Lemma to_full_sized l : Forall sized_f (map to_full l).
Proof. induction l as [|s l IH]; constructor; [reflexivity|exact IH]. Qed.

Lemma retime_to_full : forall l base, contiguous base l = true -> times_fit l ->
  C05ReadProofs.retime base (map to_full l) = map to_full l.
Proof.
  induction l as [|s l IH]; intros base Hc Hf; [reflexivity|].
  cbn [contiguous] in Hc. apply andb_true_iff in Hc. destruct Hc as [E Hc]. apply N.eqb_eq in E.
  inversion Hf as [|? ? Hs Hf']; subst.
  cbn [map C05ReadProofs.retime]. unfold to_full at 1 3. cbn [fs_s C05Model.fs_dts C05Model.fs_data s_dur].
  f_equal. rewrite C09BaseProofs.u64_small by exact Hs. apply IH; assumption.
Qed.

Lemma to_full_consistent l base : contiguous base l = true -> times_fit l ->
  C05RoundProofs.consistent (map to_full l).
Proof.
  intros Hc Hf. unfold C05RoundProofs.consistent. destruct l as [|s l']; [exact I|].
  pose proof Hc as Hc'. cbn [contiguous] in Hc'. apply andb_true_iff in Hc'. destruct Hc' as [E _]. apply N.eqb_eq in E.
  pose proof (retime_to_full (s :: l') base Hc Hf) as Hr.
  cbn [map] in *. change (C05Model.fs_dts (to_full s)) with (C11Model.fs_dts s). rewrite E.
  split; [inversion Hf; subst; lia|exact Hr].
Qed.

Lemma times_fit_app a b : times_fit (a ++ b) -> times_fit a /\ times_fit b.
Proof. unfold times_fit. intros H. apply Forall_app in H. exact H. Qed.

Lemma pieces_read_back opt T pos0 (tx : C05Model.trex) : tx_track tx = T ->
  forall segs base fes,
  contiguous base (concat segs) = true -> times_fit (concat segs) -> lenN (concat segs) < 4294967296 ->
  Forall2 (fun seg fe => write_segment opt T (map to_full seg) = Ok fe) (nonempty_pieces segs) fes ->
  Forall (fun fe => seg_guard pos0 fe = true) fes ->
  exists outs, read_all (read_back tx pos0 []) fes = Ok outs /\ concat outs = map to_full (concat segs).
Proof.
  intros Htx. subst T. induction segs as [|seg r IH]; intros base fes Hc Hf Hlen Hw Hg.
  - cbn in Hw. inversion Hw; subst. exists []. split; reflexivity.
  - cbn [concat] in *. apply contiguous_app in Hc. destruct Hc as [Hc1 Hc2].
    apply times_fit_app in Hf. destruct Hf as [Hf1 Hf2]. rewrite lenN_app in Hlen.
    destruct seg as [|s seg'].
    + cbn [nonempty_pieces filter] in Hw. cbn [app]. apply (IH _ fes Hc2 Hf2); [lia|exact Hw|exact Hg].
    + cbn [nonempty_pieces filter] in Hw. inversion Hw as [|? fe ? fes' Hw1 Hw2]; subst.
      pose proof (Forall_inv Hg) as Hg1. pose proof (Forall_inv_tail Hg) as Hg2. cbv beta in Hg1.
      destruct (IH _ fes' Hc2 Hf2 ltac:(lia) Hw2 Hg2) as [outs [Hr Hcat]].
      assert (Hrb : read_back tx pos0 [] fe = Ok (map to_full (s :: seg'))).
      { rewrite (write_read_segment opt (tx_track tx) (map to_full (s :: seg')) fe pos0 tx); try assumption.
        - rewrite N.eqb_refl. reflexivity.
        - discriminate.
        - unfold lenN in *. rewrite map_length. lia.
        - apply to_full_sized.
        - apply (to_full_consistent _ base); assumption. }
      exists (map to_full (s :: seg') :: outs). split; [apply read_all_app; assumption|].
      cbn [concat]. rewrite Hcat, map_app. reflexivity.
Qed.

Lemma resegment_end_to_end d ss segs opt T pos0 (tx : C05Model.trex) fes :
  contiguous_list ss = true -> times_fit ss -> lenN ss < 4294967296 -> tx_track tx = T ->
  resegment d ss = Ok segs ->
  Forall2 (fun seg fe => write_segment opt T (map to_full seg) = Ok fe) (nonempty_pieces segs) fes ->
  Forall (fun fe => seg_guard pos0 fe = true) fes ->
  exists outs, read_all (read_back tx pos0 []) fes = Ok outs /\ concat outs = map to_full ss.
Proof.
  intros Hc Hf Hl Htx Hr Hw Hg. destruct (resegment_conserves d ss segs Hr) as [Hcat _].
  destruct (contiguous_list_base ss Hc) as [base Hb]. rewrite <- Hcat in *.
  exact (pieces_read_back opt T pos0 tx Htx segs base fes Hb Hf Hl Hw Hg).
Qed.

Lemma nonempty_pieces_id {A} (l : list (list A)) : Forall (fun f => f <> []) l -> nonempty_pieces l = l.
Proof.
  induction 1 as [|x l Hx _ IH]; [reflexivity|]. cbn [nonempty_pieces filter].
  destruct x; [congruence|]. f_equal. exact IH.
Qed.

Lemma fragmentify_end_to_end dur frags opt T pos0 (tx : C05Model.trex) :
  contiguous_list (concat frags) = true -> times_fit (concat frags) -> lenN (concat frags) < 4294967296 ->
  tx_track tx = T ->
  exists pieces, fragmentify dur frags = Ok pieces /\ Forall (fun p => p <> []) pieces /\
    forall fes, Forall2 (fun p fe => write_segment opt T (map to_full p) = Ok fe) pieces fes ->
                Forall (fun fe => seg_guard pos0 fe = true) fes ->
                exists outs, read_all (read_back tx pos0 []) fes = Ok outs /\
                             concat outs = map to_full (concat frags).
Proof.
  intros Hc Hf Hl Htx. destruct (fragmentify_conserves dur frags) as (pieces & E & Hcat & Hne).
  exists pieces. split; [exact E|]. split; [exact Hne|]. intros fes Hw Hg.
  destruct (contiguous_list_base _ Hc) as [base Hb]. rewrite <- Hcat in *.
  rewrite <- (nonempty_pieces_id pieces Hne) in Hw.
  exact (pieces_read_back opt T pos0 tx Htx pieces base fes Hb Hf Hl Hw Hg).
Qed.
