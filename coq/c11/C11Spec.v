(* C11Spec.v — what "the complete ordered sample sequence of a progressive track" is: the naive
   per-sample expansion of the ISO 14496-12 sample tables (C09Spec.v: durs/starts/ctos/sizes/chunk
   structure, one line each) plus the bytes the tables point at.  Definitions only. *)
From V.lib Require Import Base.
From V.c11 Require Import C11Model.
From V.c09 Require Import C09Model C09Spec.
From V.c05 Require Import C05Model C05FragModel.
From V.c11 Require Import C11FetchModel.

(* the C09 metadata record as an mp4.Sample of the fragment layer *)
Definition meta_sample (m : C09Model.sample) : sample :=
  mkSample (C09Model.s_flags m) (C09Model.s_dur m) (C09Model.s_size m) (C09Model.s_cto m).

(* bytes of sample n: file[offset of n, + size of n) where the offset is the chunk's offset plus the sizes of the
   chunk's earlier samples (S_offset_of) *)
Definition S_bytes (f : pfile) (tb : tables) (n : N) : option (list N) :=
  match S_offset_of tb n, S_size tb n with
  | Some o, Some s => Some (sub_list (pf_bytes f) (N.to_nat o) (N.to_nat s))
  | _, _ => None
  end.

(* sample n of the track: flags from stss/sdtp, duration, size, composition offset (S_meta), decode time =
   sum of the earlier durations, bytes *)
Definition S_full (f : pfile) (tb : tables) (n : N) : option fullsample :=
  match S_meta tb n, S_decode_time tb n, S_bytes f tb n with
  | Some m, Some t, Some d => Some (mkFull (meta_sample m) t d)
  | _, _, _ => None
  end.

Definition S_interval (f : pfile) (tb : tables) (a b : N) : list (option fullsample) :=
  map (S_full f tb) (seqN a (N.to_nat (b + 1 - a))).

(* the whole track: samples 1..N in order *)
Definition expansion (f : pfile) (tb : tables) : list (option fullsample) := S_interval f tb 1 (nsamples tb).

(* the tables point into the file: every sample's byte range lies in the mdat payload (file decoded in
   memory) resp. in the file (mdat decoded lazily, payload not empty) *)
Definition sample_in (f : pfile) (tb : tables) (n : N) : bool :=
  match S_offset_of tb n, S_size tb n with
  | Some o, Some s =>
    if pf_lazy f then o + s <=? lenN (pf_bytes f)
    else (pf_mdat_start f <=? o) && (o + s <=? pf_mdat_start f + pf_mdat_len f)
  | _, _ => false
  end.

Definition data_ok (f : pfile) (tb : tables) : bool :=
  forallb (sample_in f tb) (seqN 1 (N.to_nat (nsamples tb)))
  && (pf_mdat_start f + pf_mdat_len f <=? lenN (pf_bytes f))
  && (lenN (pf_bytes f) <? 9223372036854775808)
  && (if pf_lazy f then 0 <? pf_mdat_len f else true).

(* copyMediaData looks at co64 before stco, GetFullSamplesForInterval at stco before co64 (as the expansion
   does): the two agree when a track does not carry both boxes *)
Definition one_offset_box (tb : tables) : bool :=
  match t_stco tb, t_co64 tb with Some _, Some _ => false | _, _ => true end.

(* the part of a trak that getSegmentStartsFromVideo / getSegmentIntervals look at (C11Model.track), read off the
   C09 tables: handler type and timescale come from hdlr/mdhd, the sample count is Stsz.SampleNumber, stts and
   ctts as (count, value) runs (C11Model scans the ctts runs linearly; the counts are the differences of
   CttsBox.EndSampleNr) *)
Definition track_of (video : bool) (timescale : N) (tb : tables) : C11Model.track :=
  C11Model.mkTrack video timescale (sz_number (t_stsz tb))
    (combine (t_stts_count tb) (t_stts_delta tb)) (C09Model.t_stss tb)
    (option_map (fun c => combine (diffs (ct_end c)) (ct_off c)) (C09Model.t_ctts tb)).

(* a track of the input file: (is video, timescale, tables) *)
Definition itrack := (bool * N * tables)%type.
Definition itrack_of (t : itrack) : C11Model.track := track_of (fst (fst t)) (snd (fst t)) (snd t).

(* a sample of the fragmented side (C11Model.fsample, where fs_data stands for Size + Data) as the mp4.FullSample
   Fragment.GetFullSamples returns and AddFullSampleToTrack takes: Size = len(Data) *)
Definition to_full (s : C11Model.fsample) : fullsample :=
  mkFull (mkSample (C11Model.fs_flags s) (C11Model.fs_dur s) (lenN (C11Model.fs_data s)) (C11Model.fs_cto s))
         (C11Model.fs_dts s) (C11Model.fs_data s).

(* the output pieces that hold samples (Resegment's first segment is empty when the first sample already lies
   beyond the first boundary) *)
Definition nonempty_pieces {A} (segs : list (list A)) : list (list A) :=
  filter (fun seg => match seg with [] => false | _ => true end) segs.

(* decode times and durations are uint64/uint32 values whose sums do not wrap *)
Definition times_fit (ss : list C11Model.fsample) : Prop :=
  Forall (fun s => C11Model.fs_dts s + C11Model.fs_dur s < 18446744073709551616) ss.

(* the bytes of samples a..b in sample order: what a reader of a lazily written segment finds after the mdat header *)
Definition S_data (f : pfile) (tb : tables) (a b : N) : list N :=
  flat_map (fun n => match S_bytes f tb n with Some d => d | None => [] end) (seqN a (N.to_nat (b + 1 - a))).

(* ------------------------------------------------------------------ the hypotheses of the decoded-level sync theorems
   (C11_segmenter_segments_start_sync / C11_segmenter_lazy_segments_start_sync) as ONE boolean on the input, so that the
   correspondence can evaluate them on the files the built tool was run on: file, tracks as DecodeFile sees them, the
   index k of the reference track, target duration d; lz = the -lazy writer (needs one chunk-offset box). *)
Definition seg_small_b (tb : tables) (iv : N * N) : bool :=
  16 * (snd iv + 1 - fst iv) + S_total_size tb (fst iv) (snd iv) + 200 <? 2147483648.

(* track k is the first video track (what getSegmentStartsFromVideo picks) *)
Fixpoint first_video_at (trs : list itrack) (k : nat) : bool :=
  match trs, k with
  | t :: _, O => fst (fst t)
  | t :: r, S k' => negb (fst (fst t)) && first_video_at r k'
  | [], _ => false
  end.

Definition ref_sync_hyps (lz : bool) (f : pfile) (trs : list itrack) (k : nat) (d : N) : bool :=
  forallb (fun t => C09Spec.consistent (snd t)) trs && first_video_at trs k &&
  match nth_error trs k with
  | None => false
  | Some t =>
    data_ok f (snd t) && (negb lz || one_offset_box (snd t)) &&
    match C09Model.t_stss (snd t) with Some stss => existsb (N.eqb 1) stss | None => false end &&
    match get_segment_starts (map itrack_of trs) d with
    | Ok (syncTs, sps) =>
      match sps with [] => false | _ => true end &&
      match get_segment_intervals syncTs sps (itrack_of t) with
      | Ok ivs => nonzero_dur_syncs (itrack_of t) sps && forallb (seg_small_b (snd t)) ivs
      | _ => false
      end
    | _ => false
    end
  end.
