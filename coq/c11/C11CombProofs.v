(* C11CombProofs.v — combine-segs end to end at the decoded level: under the guard "no trun relies on trex
   defaults" GetFullSamples(nil) reads what GetFullSamples(trex of the input's init) reads; what it reads has
   Size = len(Data) and decode times consistent with the durations (C05's round-trip hypotheses are PROVED of every
   decoded input); the loop of combineMediaSegments is the multi-track history of C11MuxProofs; Encode succeeds
   (write_mux_total) and every track reads back its input (write_read_mux = C05_roundtrip). *)
From V.lib Require Import Base.
From V.c11 Require Import C11Model C11SegProofs.
From V.c09 Require Import C09Model C09Spec C09BaseProofs C09SttsProofs.
From V.c05 Require Import C05Model C05FragModel C05HistProofs C05GhostProofs C05OffProofs C05ReadProofs C05RoundProofs
  C05LazyRoundProofs C05Theorems.
From V.c11 Require Import C11FetchModel C11Spec C11FetchProofs C11PipeProofs C11CopyProofs C11MuxProofs C11TotalProofs
  C11MuxTotalProofs C11CombModel.

(* ------------------------------------------------------------------ the guard *)
Lemma resolve_sample_indep r dd ds df dd' ds' df' first s :
  (has_dur r = true \/ dd = dd') -> (has_size r = true \/ ds = ds') ->
  (has_sflags r = true \/ df = df' \/ (has_fsf r = true /\ first = true)) ->
  resolve_sample r (dd, ds, df) first s = resolve_sample r (dd', ds', df') first s.
Proof.
  intros Hd Hz Hf. unfold resolve_sample. f_equal.
  - destruct (has_sflags r); [reflexivity|]. destruct Hf as [Hf|[->|[-> ->]]]; [discriminate|reflexivity|reflexivity].
  - destruct (has_dur r); [reflexivity|]. destruct Hd as [Hd| ->]; [discriminate|reflexivity].
  - destruct (has_size r); [reflexivity|]. destruct Hz as [Hz| ->]; [discriminate|reflexivity].
Qed.

Lemma trun_indep_resolve h r tx : trun_indep h r = true -> resolve h (Some tx) r = resolve h None r.
Proof.
  unfold trun_indep, resolve. destruct (tr_samples r) as [|s0 rest] eqn:Es; [reflexivity|].
  intros H. apply andb_prop in H. destruct H as [H Hf]. apply andb_prop in H. destruct H as [Hd Hz].
  unfold defaults.
  assert (Ed : has_dur r = true \/ (if tf_has_ddur h then tf_ddur h else tx_ddur tx) = (if tf_has_ddur h then tf_ddur h else 0)).
  { apply orb_prop in Hd. destruct Hd as [Hd|Hd]; [left; exact Hd|right; rewrite Hd; reflexivity]. }
  assert (Ez : has_size r = true \/ (if tf_has_dsize h then tf_dsize h else tx_dsize tx) = (if tf_has_dsize h then tf_dsize h else 0)).
  { apply orb_prop in Hz. destruct Hz as [Hz|Hz]; [left; exact Hz|right; rewrite Hz; reflexivity]. }
  cbn [map_first]. f_equal.
  - apply resolve_sample_indep; [exact Ed|exact Ez|].
    apply orb_prop in Hf. destruct Hf as [Hf|Hf].
    + apply orb_prop in Hf. destruct Hf as [Hf|Hf]; [left; exact Hf|right; left; rewrite Hf; reflexivity].
    + apply andb_prop in Hf. destruct Hf as [Hf _]. right. right. split; [exact Hf|reflexivity].
  - apply map_ext_in. intros s Hs. apply resolve_sample_indep; [exact Ed|exact Ez|].
    apply orb_prop in Hf. destruct Hf as [Hf|Hf].
    + apply orb_prop in Hf. destruct Hf as [Hf|Hf]; [left; exact Hf|right; left; rewrite Hf; reflexivity].
    + apply andb_prop in Hf. destruct Hf as [_ Hl]. apply Nat.leb_le in Hl. cbn [length] in Hl.
      destruct rest; [contradiction|cbn [length] in Hl; lia].
Qed.

(* the guard is exact: a trun outside it is read differently with some trex *)
Lemma trun_indep_exact h r : (forall tx, resolve h (Some tx) r = resolve h None r) -> trun_indep h r = true.
Proof.
  intros H. specialize (H (mkTrex 0 1 1 1)). revert H. unfold trun_indep, resolve, defaults.
  destruct (tr_samples r) as [|s0 rest]; [reflexivity|]. cbn [map_first tx_ddur tx_dsize tx_dflags].
  intros H.
  pose proof (f_equal (fun l => match l with x :: _ => s_dur x | [] => 0 end) H) as Hdu.
  pose proof (f_equal (fun l => match l with x :: _ => s_size x | [] => 0 end) H) as Hsi.
  pose proof (f_equal (fun l => match l with x :: _ => s_flags x | [] => 0 end) H) as Hfl.
  pose proof (f_equal (fun l => match l with _ :: x :: _ => s_flags x | _ => 0 end) H) as Hf1.
  unfold resolve_sample in Hdu, Hsi, Hfl. cbn [s_dur s_size s_flags negb orb] in Hdu, Hsi, Hfl. clear H.
  destruct rest as [|s1 rest].
  - clear Hf1. revert Hdu Hsi Hfl. cbn [length Nat.leb].
    destruct (has_dur r), (tf_has_ddur h), (has_size r), (tf_has_dsize h), (has_sflags r), (tf_has_dflags h), (has_fsf r);
      cbn [negb orb andb]; intros; try reflexivity; discriminate.
  - cbn [map] in Hf1. unfold resolve_sample in Hf1. cbn [s_flags negb orb] in Hf1. revert Hdu Hsi Hfl Hf1. cbn [length Nat.leb].
    destruct (has_dur r), (tf_has_ddur h), (has_size r), (tf_has_dsize h), (has_sflags r), (tf_has_dflags h), (has_fsf r);
      cbn [negb orb andb]; intros; try reflexivity; discriminate.
Qed.

(* ------------------------------------------------------------------ what GetFullSamples returns *)
Lemma sub_list_length {A} (l : list A) a n : (a + n <= length l)%nat -> length (sub_list l a n) = n.
Proof. intros H. unfold sub_list. rewrite firstn_length, skipn_length. lia. Qed.

Lemma trun_full_samples_props : forall ss off t data l,
  trun_full_samples ss off t data = Ok l ->
  Forall (fun s => s_size s < 4294967296) ss -> off < 4294967296 ->
  map fs_s l = ss /\ Forall sized_f l /\ retime t l = l.
Proof.
  induction ss as [|s ss IH]; intros off t data l H Hs Ho; cbn [trun_full_samples] in H.
  - injection H as <-. repeat split. constructor.
  - inversion Hs as [|? ? Hs0 Hs']; subst.
    destruct ((u32 (off + s_size s) <? off) || (lenN data <? u32 (off + s_size s))) eqn:E; [discriminate|].
    apply orb_false_iff in E. destruct E as [E1 E2]. apply N.ltb_ge in E1. apply N.ltb_ge in E2.
    destruct (trun_full_samples ss (u32 (off + s_size s)) (u64 (t + s_dur s)) data) as [tl| | |] eqn:Et;
      cbn [rbind] in H; try discriminate.
    injection H as <-.
    assert (Hu : u32 (off + s_size s) < 4294967296) by (unfold u32; apply N.mod_lt; discriminate).
    destruct (IH _ _ _ _ Et Hs' Hu) as [Hm [Hz Hr]].
    assert (Hsm : off + s_size s < 4294967296).
    { destruct (N.lt_ge_cases (off + s_size s) 4294967296) as [Hlt|Hge]; [exact Hlt|].
      exfalso. unfold u32 in E1.
      assert (Hq : (off + s_size s) mod 4294967296 = off + s_size s - 4294967296).
      { rewrite <- (N.mod_small (off + s_size s - 4294967296) 4294967296) by lia.
        replace (off + s_size s) with ((off + s_size s - 4294967296) + 1 * 4294967296) at 1 by lia.
        apply N.mod_add. discriminate. }
      rewrite Hq in E1. lia. }
    rewrite u32_small in E2 by exact Hsm.
    split; [cbn [map fs_s]; rewrite Hm; reflexivity|]. split.
    + constructor; [|exact Hz]. unfold sized_f. cbn [fs_s fs_data]. unfold lenN at 1.
      rewrite sub_list_length; [lia|]. unfold lenN in E2. lia.
    + cbn [retime fs_s fs_data]. rewrite Hr. reflexivity.
Qed.

Lemma frag_full_samples_props h tx d : forall truns base l,
  frag_full_samples h tx truns base d = Ok l ->
  base < 18446744073709551616 ->
  Forall (fun r => Forall (fun s => s_size s < 4294967296) (resolve h tx r)) truns ->
  Forall sized_f l /\ retime base l = l.
Proof.
  induction truns as [|r truns IH]; intros base l H Hb Hs; cbn [frag_full_samples] in H.
  - injection H as <-. split; [constructor|reflexivity].
  - inversion Hs as [|? ? Hs0 Hs']; subst. cbv zeta in H.
    match type of H with (if ?c then _ else _) = _ => destruct c; [discriminate|] end.
    match type of H with (do l1 <- trun_full_samples ?ss ?off ?t ?dt; _) = _ =>
      destruct (trun_full_samples ss off t dt) as [l1| | |] eqn:E1; cbn [rbind] in H; try discriminate;
      assert (Hu : off < 4294967296) by (unfold u32; apply N.mod_lt; discriminate);
      destruct (trun_full_samples_props ss off t dt l1 E1 Hs0 Hu) as [Hm [Hz Hr]] end.
    match type of H with (do l2 <- frag_full_samples ?h0 ?tx0 ?tr ?b ?d0; _) = _ =>
      destruct (frag_full_samples h0 tx0 tr b d0) as [l2| | |] eqn:E2; cbn [rbind] in H; try discriminate;
      assert (Hb2 : b < 18446744073709551616) by (unfold u64; apply N.mod_lt; discriminate);
      destruct (IH b l2 E2 Hb2 Hs') as [Hz2 Hr2] end.
    injection H as <-. split; [apply Forall_app; split; assumption|].
    rewrite retime_app by exact Hb. rewrite Hr. f_equal.
    replace (durs l1) with (total_dur (resolve h tx r)); [exact Hr2|].
    unfold durs, total_dur. rewrite Hm. reflexivity.
Qed.

Lemma retime_consistent base l : base < 18446744073709551616 -> retime base l = l -> C05RoundProofs.consistent l.
Proof.
  intros Hb Hr. unfold C05RoundProofs.consistent. destruct l as [|f l]; [exact I|].
  assert (Hf : fs_dts f = base).
  { cbn [retime] in Hr. injection Hr as Hr0 _. rewrite <- Hr0. reflexivity. }
  rewrite Hf. split; [exact Hb|exact Hr].
Qed.

(* a decoded single-traf input: reading with nil = reading with the input's trex; the result satisfies C05's
   round-trip hypotheses *)
Lemma read_guarded d tx l :
  no_trex_reliance d = true -> din_wf d = true -> tx_track tx = din_track d ->
  get_full_samples d (Some tx) = Ok l ->
  get_full_samples d None = Ok l /\ Forall sized_f l /\ C05RoundProofs.consistent l.
Proof.
  unfold no_trex_reliance, din_wf, din_track, get_full_samples.
  destruct (df_trafs d) as [|t [|t2 ts]]; try discriminate.
  intros Hg Hw Ht. cbn [find]. rewrite Ht, N.eqb_refl. cbn [rbind].
  apply andb_prop in Hw. destruct Hw as [Hb Hsz]. apply N.ltb_lt in Hb.
  assert (Heq : forall truns base, forallb (trun_indep (tf_hd t)) truns = true ->
            frag_full_samples (tf_hd t) (Some tx) truns base d = frag_full_samples (tf_hd t) None truns base d).
  { induction truns as [|r truns IH]; intros base Hall; [reflexivity|]. cbn [forallb] in Hall.
    apply andb_prop in Hall. destruct Hall as [Hr Hall]. cbn [frag_full_samples].
    rewrite (trun_indep_resolve _ _ tx Hr). cbv zeta. rewrite !IH by exact Hall. reflexivity. }
  rewrite Heq by exact Hg. intros H. split; [exact H|].
  destruct (frag_full_samples_props (tf_hd t) None d (tf_truns t) (td_base (tf_dt t)) l H Hb) as [Hz Hr].
  { rewrite forallb_forall in Hsz. apply Forall_forall. intros r Hr. specialize (Hsz r Hr).
    rewrite forallb_forall in Hsz. apply Forall_forall. intros s Hs. apply N.ltb_lt. apply Hsz. exact Hs. }
  split; [exact Hz|]. apply (retime_consistent (td_base (tf_dt t))); assumption.
Qed.

(* ------------------------------------------------------------------ the loop is a multi-track history *)
Lemma add_fulls_ign_eq T : forall (l : list fullsample) fr, In T (tracks_of fr) -> add_fulls_ign fr T l = add_fulls fr T l.
Proof.
  induction l as [|x l IH]; intros fr Hin; cbn [add_fulls_ign add_fulls]; [reflexivity|].
  destruct (add_fulls_ok_multi T [x] fr Hin) as [fr1 [Ha Ht]]. cbn [add_fulls] in Ha.
  destruct (step fr (op_of T x)) as [fr2| | |] eqn:Es; cbn [rbind] in Ha; try discriminate.
  injection Ha as ->. cbn [rbind]. apply IH. rewrite Ht. exact Hin.
Qed.

Lemma skipn_cons_nth {A} (l : list A) : forall i x tl, skipn i l = x :: tl -> nth_error l i = Some x /\ skipn (S i) l = tl.
Proof.
  induction l as [|a l IH]; intros i x tl H; [destruct i; discriminate|].
  destruct i as [|i]; [cbn in H; injection H as -> ->; split; reflexivity|]. cbn [skipn] in H.
  destruct (IH i x tl H) as [H1 H2]. split; [exact H1|exact H2].
Qed.

Lemma combine_loop_mux ids : forall files ls i rem out,
  Forall2 (fun f l => exists d, single_frag f = Ok d /\ get_full_samples d None = Ok l) files ls ->
  skipn i ids = rem -> (length files <= length rem)%nat -> (forall T, In T rem -> In T (tracks_of out)) ->
  combine_loop ids files i out = mux_add out (combine rem ls).
Proof.
  induction files as [|f files IH]; intros ls i rem out HF Hsk Hlen Hin; subst rem;
    inversion HF as [|? l ? ls' [d [Hd Hr]] HF']; subst.
  - cbn [combine_loop]. destruct (skipn i ids); reflexivity.
  - destruct (skipn i ids) as [|T tl] eqn:Es; [cbn [length] in Hlen; lia|].
    destruct (skipn_cons_nth ids i T tl Es) as [Hn Hs']. cbn [combine_loop combine mux_add].
    rewrite Hd. cbn [rbind]. rewrite Hr. cbn [rbind]. rewrite Hn.
    assert (HT : In T (tracks_of out)) by (apply Hin; left; reflexivity).
    assert (E : match l with [] => Ok out | _ :: _ => add_fulls_ign out T l end = add_fulls out T l).
    { destruct l; [reflexivity|]. apply add_fulls_ign_eq. exact HT. }
    rewrite E. destruct (add_fulls_ok_multi T l out HT) as [fr1 [Ha Ht]]. rewrite Ha. cbn [rbind].
    apply (IH ls' (S i) tl fr1 HF' Hs'); [cbn [length] in Hlen; lia|].
    intros T' HT'. rewrite Ht. apply Hin. right. exact HT'.
Qed.

(* with at least one traf (C05's encode_frag succeeds only then) the two agree *)
Lemma encode_frag_nz_ok fr fe : encode_frag false fr = Ok fe -> encode_frag_nz fr = encode_frag false fr.
Proof.
  intros He. unfold encode_frag_nz. destruct (fr_trafs fr) as [|t ts] eqn:Et; [|reflexivity].
  exfalso. unfold encode_frag in He. cbn [rbind] in He.
  assert (H0 : fr_trafs (set_offsets fr) = []) by (unfold set_offsets; rewrite Et; reflexivity).
  rewrite H0 in He. discriminate.
Qed.

(* ------------------------------------------------------------------ bookkeeping on combine *)
Lemma combine_fst {A B} : forall (a : list A) (b : list B), length a = length b -> map fst (combine a b) = a.
Proof. induction a as [|x a IH]; intros [|y b] H; try discriminate; [reflexivity|]. cbn [combine map fst]. rewrite IH; [reflexivity|]. cbn in H. lia. Qed.
Lemma combine_snd {A B} : forall (a : list A) (b : list B), length a = length b -> map snd (combine a b) = b.
Proof. induction a as [|x a IH]; intros [|y b] H; try discriminate; [reflexivity|]. cbn [combine map snd]. rewrite IH; [reflexivity|]. cbn in H. lia. Qed.

Lemma g_count_combine ids ls : length ids = length ls -> g_count (combine ids ls) = fulls_count ls.
Proof. intros H. unfold g_count, fulls_count. rewrite <- (combine_snd ids ls H) at 2. rewrite map_map. reflexivity. Qed.
Lemma g_bytes_combine ids ls : length ids = length ls -> g_bytes (combine ids ls) = fulls_bytes ls.
Proof. intros H. unfold g_bytes, fulls_bytes. rewrite <- (combine_snd ids ls H) at 2. rewrite map_map. reflexivity. Qed.

Lemma Forall2_length {A B} (P : A -> B -> Prop) l1 l2 : Forall2 P l1 l2 -> length l1 = length l2.
Proof. induction 1; [reflexivity|cbn; lia]. Qed.

Lemma Forall2_combine_in {A B} (P : A -> B -> Prop) : forall (a : list A) (b : list B),
  length a = length b -> (forall x y, In (x, y) (combine a b) -> P x y) -> Forall2 P a b.
Proof.
  induction a as [|x a IH]; intros [|y b] H Hp; try discriminate; constructor.
  - apply Hp. left. reflexivity.
  - apply IH; [cbn in H; lia|]. intros x' y' Hi. apply Hp. right. exact Hi.
Qed.

(* ------------------------------------------------------------------ end to end *)
(* an input: the decoded media file and the trex of its init segment *)
Definition cinput := (dfile * C05Model.trex)%type.

Definition input_ok (x : cinput) : Prop :=
  exists d, single_frag (fst x) = Ok d /\ no_trex_reliance d = true /\ din_wf d = true /\ tx_track (snd x) = din_track d.

Lemma combine_end_to_end ids (ins : list cinput) ls pos0 :
  NoDup ids -> ins <> [] -> length ids = length ins ->
  Forall input_ok ins ->
  Forall2 (fun x l => read_input (snd x) (fst x) = Ok l) ins ls ->
  64 * fulls_count ls + fulls_bytes ls + 40 * lenN ids + 200 < 2147483648 -> pos0 < 4611686018427387904 ->
  exists fe, combine_media ids (map fst ins) = Ok fe /\
             Forall2 (fun T l => forall dd ds df, read_output T dd ds df pos0 fe = Ok l) ids ls.
Proof.
  intros Hnd Hne Hlen Hok Hrd Hsmall Hpos.
  pose proof (Forall2_length _ _ _ Hrd) as Hll.
  (* every input: nil reading, sized, consistent *)
  assert (Hnil : Forall2 (fun f l => exists d, single_frag f = Ok d /\ get_full_samples d None = Ok l) (map fst ins) ls /\
                 Forall (fun l => Forall sized_f l /\ C05RoundProofs.consistent l) ls).
  { clear - Hok Hrd. induction Hrd as [|x l ins ls Hx _ IH]; [split; constructor|].
    inversion Hok as [|? ? [d [Hd [Hg [Hw Ht]]]] Hok']; subst. destruct (IH Hok') as [IH1 IH2].
    unfold read_input in Hx. rewrite Hd in Hx. cbn [rbind] in Hx.
    destruct (read_guarded d (snd x) l Hg Hw Ht Hx) as [Hn [Hz Hc]].
    split; [cbn [map]; constructor; [exists d; split; assumption|exact IH1]|constructor; [split; assumption|exact IH2]]. }
  destruct Hnil as [Hnil Hprops].
  set (g := combine ids ls).
  assert (Hlg : length ids = length ls) by (rewrite Hlen; exact Hll).
  assert (Hids : map fst g = ids) by (apply combine_fst; exact Hlg).
  assert (Hloop : combine_loop ids (map fst ins) 0 (create_multi ids) = mux_add (create_multi ids) g).
  { apply (combine_loop_mux ids (map fst ins) ls 0 ids); [exact Hnil|reflexivity|rewrite map_length; lia|].
    intros T HT. rewrite tracks_of_create_multi. exact HT. }
  destruct (mux_add_ok g (create_multi ids)) as [fr Hadd].
  { intros p Hp. rewrite tracks_of_create_multi, <- Hids. apply in_map. exact Hp. }
  assert (Hsz : Forall (fun p => Forall sized_f (snd p)) g).
  { apply Forall_forall. intros p Hp. apply (in_map snd) in Hp. unfold g in Hp. rewrite combine_snd in Hp by exact Hlg.
    rewrite Forall_forall in Hprops. exact (proj1 (Hprops _ Hp)). }
  assert (Hidne : ids <> []) by (destruct ids; [destruct ins; [congruence|discriminate]|discriminate]).
  destruct (write_mux_total ids g pos0 fr Hnd Hidne Hids Hsz) as [fe [He Hgd]]; try assumption.
  { unfold g. rewrite g_count_combine, g_bytes_combine by exact Hlg. exact Hsmall. }
  exists fe. split.
  - assert (Hcm : combine_media ids (map fst ins) = do fr0 <- combine_loop ids (map fst ins) 0 (create_multi ids); encode_frag_nz fr0).
    { destruct ins; [congruence|reflexivity]. }
    rewrite Hcm, Hloop, Hadd. cbn [rbind]. rewrite (encode_frag_nz_ok fr fe He). exact He.
  - apply Forall2_combine_in; [exact Hlg|]. intros T l Hin dd ds df. unfold read_output.
    assert (Hw : write_mux_segment false ids g = Ok fe) by (unfold write_mux_segment; rewrite Hadd; cbn [rbind]; exact He).
    rewrite (write_read_mux false ids g fe pos0 (mkTrex T dd ds df) Hnd Hids); try assumption.
    + cbn [tx_track]. rewrite (pick_track_unique T l g); [reflexivity|rewrite Hids; exact Hnd|exact Hin].
    + rewrite ops_of_length. unfold g. rewrite g_count_combine by exact Hlg. lia.
    + cbn [tx_track]. rewrite (pick_track_unique T l g); [|rewrite Hids; exact Hnd|exact Hin].
      apply (in_map snd) in Hin. unfold g in Hin. rewrite combine_snd in Hin by exact Hlg. cbn [snd] in Hin.
      rewrite Forall_forall in Hprops. exact (proj2 (Hprops _ Hin)).
Qed.

(* ------------------------------------------------------------------ without the guard the statement is false *)
(* one input, one trun without the duration flag, the tfhd has no default duration, the init's trex says 10:
   a reader with the init sees durations 10 and decode times 100, 110; combine-segs writes durations 0 and 100, 100 *)
Definition wit_d : dfrag :=
  mkDfrag [mkTraf (mkTfhd 131072 1 0 0 0 0 0) (mkTfdt 0 100)
             [mkTrun 0 1537 104 0 [mkSample 33554432 0 2 0; mkSample 16842752 0 1 0] 0] 0]
          [7; 8; 9] 0 104.
Definition wit_in : cinput := ([[wit_d]], mkTrex 1 10 0 0).

Lemma combine_unguarded_refuted :
  exists (x : cinput) l fe,
    (exists d, single_frag (fst x) = Ok d /\ din_wf d = true /\ tx_track (snd x) = din_track d /\ no_trex_reliance d = false) /\
    read_input (snd x) (fst x) = Ok l /\ combine_media [1] [fst x] = Ok fe /\
    exists l', read_output 1 10 0 0 24 fe = Ok l' /\ l' <> l /\ map fs_data l' = map fs_data l.
Proof.
  exists wit_in. eexists. eexists. split.
  { exists wit_d. repeat split; reflexivity. }
  split; [vm_compute; reflexivity|]. split; [vm_compute; reflexivity|].
  eexists. split; [vm_compute; reflexivity|]. split; [discriminate|reflexivity].
Qed.
