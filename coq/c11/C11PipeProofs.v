(* C11PipeProofs.v — the segmenter's in-memory writer end to end: fetch (C11FetchProofs) -> CreateFragment +
   AddFullSampleToTrack -> Fragment.Encode -> decode -> GetFullSamples (C05's round-trip theorem) gives back
   the naive expansion of the input track, segment after segment. *)
From V.lib Require Import Base.
From V.c11 Require Import C11Model C11SegProofs.
From V.c09 Require Import C09Model C09Spec C09BaseProofs C09SttsProofs.
From V.c05 Require Import C05Model C05FragModel C05HistProofs C05GhostProofs C05ReadProofs C05RoundProofs
  C05LazyProofs C05LazyRoundProofs C05Theorems.
From V.c11 Require Import C11FetchModel C11Spec C11FetchProofs.

(* ------------------------------------------------------------------ the expansion's samples *)
Lemma S_full_fields f tb n x : S_full f tb n = Some x ->
  S_decode_time tb n = Some (fs_dts x) /\ S_dur tb n = Some (s_dur (fs_s x)) /\
  S_size tb n = Some (s_size (fs_s x)) /\
  exists o, S_offset_of tb n = Some o /\
            fs_data x = sub_list (pf_bytes f) (N.to_nat o) (N.to_nat (s_size (fs_s x))).
Proof.
  unfold S_full, S_meta, S_bytes.
  destruct (S_flags tb n); [|discriminate]. destruct (S_dur tb n) as [d|]; [|discriminate].
  destruct (S_size tb n) as [s|]; [|discriminate].
  destruct (match C09Model.t_ctts tb with Some c => S_cto c n | None => Some 0%Z end); [|discriminate].
  destruct (S_decode_time tb n) as [t|]; [|discriminate].
  destruct (S_offset_of tb n) as [o|]; [|discriminate].
  intros E. injection E as <-. cbn. repeat split. eexists. split; reflexivity.
Qed.

Lemma S_full_sized f tb n x : C09Spec.consistent tb = true -> data_ok f tb = true -> 1 <= n <= nsamples tb ->
  S_full f tb n = Some x -> sized_f x.
Proof.
  intros H Hd Hn Hx. destruct (S_full_fields f tb n x Hx) as [_ [_ [Hs [o [Ho Hdat]]]]].
  destruct (sample_bytes_ok f tb n o _ Hd Hn Ho Hs) as [_ Hle].
  unfold sized_f. rewrite Hdat. unfold lenN in *. rewrite sub_list_length; lia.
Qed.

Lemma starts_step ds : forall acc i t d,
  nthN (starts ds acc) i = Some t -> nthN ds i = Some d ->
  t + d <= acc + sumN ds /\ (forall t', nthN (starts ds acc) (i + 1) = Some t' -> t' = t + d).
Proof.
  induction ds as [|d0 ds IH]; intros acc i t d Ht Hd; [discriminate|].
  cbn [starts] in *. rewrite nthN_cons in Ht, Hd. cbn [sumN]. destruct (i =? 0) eqn:E.
  - injection Ht as <-. injection Hd as <-. split; [lia|].
    intros t'. replace i with 0 by lia. cbn [N.add]. rewrite nthN_cons. cbn [N.eqb Pos.eqb].
    destruct ds as [|d1 ds']; cbn [starts]; [rewrite nthN_nil; discriminate|].
    rewrite nthN_cons. cbn. intros E'. injection E' as <-. reflexivity.
  - destruct (IH (acc + d0) (i - 1) t d Ht Hd) as [H1 H2]. split; [lia|].
    intros t'. rewrite nthN_cons. destruct (i + 1 =? 0) eqn:E2; [lia|].
    replace (i + 1 - 1) with (i - 1 + 1) by lia. apply H2.
Qed.

Lemma nthN_starts_bound ds : forall acc i t, nthN (starts ds acc) i = Some t -> t <= acc + sumN ds.
Proof.
  induction ds as [|d0 ds IH]; intros acc i t Ht; [discriminate|].
  cbn [starts sumN] in *. rewrite nthN_cons in Ht. destruct (i =? 0).
  - injection Ht as <-. lia.
  - specialize (IH _ _ _ Ht). lia.
Qed.

(* decode times of consecutive samples of the expansion are consistent with the durations *)
Lemma expansion_consistent f tb : C09Spec.consistent tb = true ->
  forall k nr l, 1 <= nr -> map Some l = map (S_full f tb) (seqN nr k) -> C05RoundProofs.consistent l.
Proof.
  intros H. destruct (stts_facts tb H) as [_ [_ [_ [Htot _]]]].
  assert (Hstep : forall k nr l, 1 <= nr -> map Some l = map (S_full f tb) (seqN nr k) ->
                  match l with [] => True | x :: _ => retime (fs_dts x) l = l end).
  { induction k as [|k IH]; intros nr l Hnr Hl.
    - destruct l; [exact I|discriminate].
    - destruct l as [|x l']; [discriminate|]. cbn [seqN map] in Hl. injection Hl as Hx Hl'.
      symmetry in Hx. destruct (S_full_fields f tb nr x Hx) as [Ht [Hd _]].
      cbn [retime]. destruct x as [s t dat]. cbn [fs_s fs_dts fs_data] in *. f_equal.
      specialize (IH (nr + 1) l' ltac:(lia) Hl'). destruct l' as [|y l'']; [reflexivity|].
      destruct k as [|k']; [discriminate|]. cbn [seqN map] in Hl'. injection Hl' as Hy _.
      symmetry in Hy. destruct (S_full_fields f tb (nr + 1) y Hy) as [Hty _].
      unfold S_decode_time, S_dur in *. destruct (nr =? 0) eqn:E0; [lia|]. destruct (nr + 1 =? 0) eqn:E1; [lia|].
      destruct (starts_step (C09Spec.durs tb) 0 (nr - 1) t (s_dur s) Ht Hd) as [Hb Hn].
      replace (nr + 1 - 1) with (nr - 1 + 1) in Hty by lia. specialize (Hn _ Hty).
      rewrite u64_small by lia. rewrite <- Hn. exact IH. }
  intros k nr l Hnr Hl. specialize (Hstep k nr l Hnr Hl). unfold C05RoundProofs.consistent.
  destruct l as [|x l']; [exact I|]. split; [|exact Hstep].
  destruct k as [|k]; [discriminate|]. cbn [seqN map] in Hl. injection Hl as Hx _. symmetry in Hx.
  destruct (S_full_fields f tb nr x Hx) as [Ht _]. unfold S_decode_time in Ht. destruct (nr =? 0); [discriminate|].
  pose proof (nthN_starts_bound _ _ _ _ Ht). lia.
Qed.

Lemma expansion_sized f tb : C09Spec.consistent tb = true -> data_ok f tb = true ->
  forall k nr l, 1 <= nr -> nr + N.of_nat k <= nsamples tb + 1 ->
  map Some l = map (S_full f tb) (seqN nr k) -> Forall sized_f l.
Proof.
  intros H Hd. induction k as [|k IH]; intros nr l Hnr Hk Hl.
  - destruct l; [constructor|discriminate].
  - destruct l as [|x l']; [discriminate|]. cbn [seqN map] in Hl. injection Hl as Hx Hl'.
    constructor.
    + apply (S_full_sized f tb nr x H Hd); [lia|auto].
    + apply (IH (nr + 1)); [lia|lia|exact Hl'].
Qed.

Lemma map_Some_length {A} (l : list A) (m : list (option A)) : map Some l = m -> length l = length m.
Proof. intros <-. rewrite map_length. reflexivity. Qed.

Lemma seqN_length : forall k s, length (seqN s k) = k.
Proof. induction k as [|k IH]; intros s; cbn [seqN length]; [reflexivity|rewrite IH; reflexivity]. Qed.

(* ------------------------------------------------------------------ one segment *)
Definition seg_guard (pos0 : N) (fe : frag) : bool :=
  (moof_size fe + md_header_size (fr_mdat fe) + lenN (md_data (fr_mdat fe)) <? 2147483648)
  && (pos0 + fr_pre fe <? 4611686018427387904).

Lemma add_fulls_run T : forall l fr fr', add_fulls fr T l = Ok fr' ->
  run_ops fr (map (op_of T) l) = (repeat COk (length l), Some fr').
Proof.
  induction l as [|s l IH]; intros fr fr' H; cbn [add_fulls map run_ops repeat length] in *.
  - injection H as <-. reflexivity.
  - destruct (step fr (op_of T s)) as [fr1| | |] eqn:E; cbn [rbind] in H; try discriminate.
    rewrite (IH _ _ H). reflexivity.
Qed.

Lemma added1_fulls_ops T l : added1_fulls T (map (op_of T) l) = l.
Proof.
  unfold added1_fulls. induction l as [|s l IH]; [reflexivity|].
  cbn [map filter]. unfold hits at 1. cbn [op_of op_track]. rewrite N.eqb_refl. cbn [map].
  rewrite IH. f_equal. destruct s as [s t d]. reflexivity.
Qed.

Lemma encode_frag_data opt fr fe : encode_frag opt fr = Ok fe -> md_data (fr_mdat fe) = md_data (fr_mdat fr).
Proof.
  intros H. pose proof (encode_frag_meta opt fr fr) as G. rewrite H in G.
  assert (Hm : same_meta fr fr) by (repeat split).
  destruct (G Hm eq_refl) as [_ [_ [[_ [Hd _]] _]]]. exact Hd.
Qed.

Lemma write_read_segment opt T l fe pos0 (tx : C05Model.trex) :
  l <> [] -> lenN l < 4294967296 -> Forall sized_f l -> C05RoundProofs.consistent l ->
  write_segment opt T l = Ok fe -> seg_guard pos0 fe = true ->
  read_back tx pos0 [] fe = Ok (if tx_track tx =? T then l else []).
Proof.
  intros Hne Hlen Hsz Hc Hw Hg. unfold write_segment in Hw.
  destruct (add_fulls (create_fragment T) T l) as [fr| | |] eqn:Ea; cbn [rbind] in Hw; try discriminate.
  apply add_fulls_run in Ea. unfold seg_guard in Hg. apply andb_prop in Hg. destruct Hg as [Hg1 Hg2].
  pose proof (encode_frag_data opt fr fe Hw) as Hdat.
  unfold read_back.
  rewrite (C05_roundtrip_single T (map (op_of T) l) (repeat COk (length l)) fr opt fe pos0 tx 0 0 0 []).
  - rewrite added1_fulls_ops. reflexivity.
  - rewrite map_length. exact Hlen.
  - clear. induction l as [|s l IH]; [reflexivity|]. cbn [map forallb op_of is_full]. exact IH.
  - clear - Hsz. induction Hsz as [|s l Hs _ IH]; [constructor|]. cbn [map]. constructor; [|exact IH].
    destruct s as [s t d]. exact Hs.
  - exact Ea.
  - exact Hw.
  - rewrite added1_fulls_ops. exact Hne.
  - rewrite <- Hdat. lia.
  - lia.
  - rewrite added1_fulls_ops. exact Hc.
Qed.

(* ------------------------------------------------------------------ all segments of one track *)
Lemma range_seqN a b : C11Model.range (a, b) = seqN a (N.to_nat (b + 1) - N.to_nat a).
Proof.
  unfold C11Model.range. cbn [fst snd]. generalize (N.to_nat (b + 1) - N.to_nat a)%nat as k.
  intros k. revert a. induction k as [|k IH]; intros a; [reflexivity|].
  cbn [seq map seqN]. rewrite N2Nat.id. f_equal.
  replace (S (N.to_nat a)) with (N.to_nat (a + 1)) by lia. apply IH.
Qed.

Lemma read_all_app {A} (rd : A -> res (list fullsample)) x r o outs :
  rd x = Ok o -> read_all rd r = Ok outs -> read_all rd (x :: r) = Ok (o :: outs).
Proof. intros H1 H2. cbn [read_all]. rewrite H1, H2. reflexivity. Qed.

Lemma seg_track_read_back opt f tb T pos0 (tx : C05Model.trex) :
  C09Spec.consistent tb = true -> data_ok f tb = true -> tx_track tx = T ->
  forall ivs fes,
  (forall iv x, In iv ivs -> In x (C11Model.range iv) -> 1 <= x <= nsamples tb) ->
  seg_track opt f tb T ivs = Ok fes ->
  Forall (fun fe => seg_guard pos0 fe = true) fes ->
  exists outs, read_all (read_back tx pos0 []) fes = Ok outs /\
               map Some (concat outs) = map (S_full f tb) (concat (map C11Model.range ivs)) /\
               Forall (fun o => o <> []) outs.
Proof.
  intros H Hd Htx. destruct (stts_facts tb H) as [_ [_ [HN _]]].
  induction ivs as [|[a b] ivs IH]; intros fes Hin Hs Hg.
  - cbn [seg_track] in Hs. injection Hs as <-. exists []. repeat split. constructor.
  - cbn [seg_track] in Hs. unfold fetch_or_skip, fetch_interval in Hs. cbn [fst snd] in Hs.
    assert (Hin' : forall iv x, In iv ivs -> In x (C11Model.range iv) -> 1 <= x <= nsamples tb).
    { intros iv x Hi. apply Hin. right. exact Hi. }
    destruct (b + 1 <? a) eqn:E1; [cbn [rbind] in Hs; discriminate|].
    cbn [map concat]. rewrite map_app, range_seqN.
    destruct (N.eq_dec a (b + 1)) as [Eab|Nab].
    + (* empty interval: "No more samples" *)
      replace (N.to_nat (b + 1 - a)) with O in Hs by lia. cbn [fetch_loop rbind] in Hs.
      replace (N.to_nat (b + 1) - N.to_nat a)%nat with O by lia. cbn [seqN map app].
      apply (IH fes Hin' Hs Hg).
    + assert (Ha : 1 <= a <= nsamples tb).
      { apply (Hin (a, b)); [left; reflexivity|]. rewrite range_seqN. apply in_seqN. lia. }
      assert (Hb : 1 <= b <= nsamples tb).
      { apply (Hin (a, b)); [left; reflexivity|]. rewrite range_seqN. apply in_seqN. lia. }
      destruct (fetch_loop_ok f tb H Hd (N.to_nat (b + 1 - a)) a ltac:(lia) ltac:(lia)) as [l [Hl Hm]].
      rewrite Hl in Hs. cbn [rbind] in Hs.
      replace (N.to_nat (b + 1) - N.to_nat a)%nat with (N.to_nat (b + 1 - a)) by lia.
      pose proof (map_Some_length _ _ Hm) as Hlen. rewrite map_length, seqN_length in Hlen.
      destruct l as [|x l']; [cbn [length] in Hlen; lia|]. cbv iota in Hs.
      remember (x :: l') as l eqn:El.
      destruct (write_segment opt T l) as [fe| | |] eqn:Ew; cbn [rbind] in Hs; try discriminate.
      destruct (seg_track opt f tb T ivs) as [r| | |] eqn:Er; cbn [rbind] in Hs; try discriminate.
      injection Hs as <-. pose proof (Forall_inv Hg) as Hg1. pose proof (Forall_inv_tail Hg) as Hg2. cbv beta in Hg1.
      destruct (IH r Hin' eq_refl Hg2) as [outs [Hr [Hc Hne]]].
      assert (Hrb : read_back tx pos0 [] fe = Ok l).
      { rewrite (write_read_segment opt T l fe pos0 tx); try assumption.
        - rewrite Htx, N.eqb_refl. reflexivity.
        - rewrite El. discriminate.
        - unfold lenN. lia.
        - apply (expansion_sized f tb H Hd (N.to_nat (b + 1 - a)) a); [lia|lia|exact Hm].
        - apply (expansion_consistent f tb H (N.to_nat (b + 1 - a)) a); [lia|exact Hm]. }
      exists (l :: outs). split; [apply read_all_app; assumption|]. split.
      * cbn [concat]. rewrite map_app, Hm, Hc. reflexivity.
      * constructor; [rewrite El; discriminate|exact Hne].
Qed.

Lemma seqN1_seqN n : seqN1 n = seqN 1 (N.to_nat n).
Proof.
  unfold seqN1. change 1%nat with (N.to_nat 1). generalize 1 as s. generalize (N.to_nat n) as k.
  induction k as [|k IH]; intros s; [reflexivity|]. cbn [seq map seqN]. rewrite N2Nat.id. f_equal.
  replace (S (N.to_nat s)) with (N.to_nat (s + 1)) by lia. apply IH.
Qed.

(* the composition: intervals that tile 1..N (C11_intervals_tile) give back the whole expansion *)
Lemma seg_track_end_to_end opt f tb T pos0 (tx : C05Model.trex) ivs fes :
  C09Spec.consistent tb = true -> data_ok f tb = true -> tx_track tx = T ->
  concat (map C11Model.range ivs) = seqN1 (nsamples tb) ->
  seg_track opt f tb T ivs = Ok fes ->
  Forall (fun fe => seg_guard pos0 fe = true) fes ->
  exists outs, read_all (read_back tx pos0 []) fes = Ok outs /\
               map Some (concat outs) = expansion f tb /\ Forall (fun o => o <> []) outs.
Proof.
  intros H Hd Htx Htile Hs Hg.
  destruct (seg_track_read_back opt f tb T pos0 tx H Hd Htx ivs fes) as [outs [Hr [Hc Hne]]]; try assumption.
  - intros iv x Hiv Hx.
    assert (Hi : In x (concat (map C11Model.range ivs))).
    { apply in_concat. exists (C11Model.range iv). split; [apply in_map; exact Hiv|exact Hx]. }
    rewrite Htile, seqN1_seqN in Hi. apply in_seqN in Hi. lia.
  - exists outs. split; [exact Hr|]. split; [|exact Hne].
    rewrite Hc, Htile, seqN1_seqN. unfold expansion, S_interval.
    replace (nsamples tb + 1 - 1) with (nsamples tb) by lia. reflexivity.
Qed.

(* ------------------------------------------------------------------ from the file's tables to the plan *)
Lemma stts_total_combine cs : forall ds, lenN cs = lenN ds -> stts_total (combine cs ds) = sumN cs.
Proof.
  induction cs as [|c cs IH]; intros ds Hl; [reflexivity|].
  destruct ds as [|d ds]; [rewrite lenN_cons, lenN_nil in Hl; lia|].
  cbn [combine stts_total sumN]. rewrite IH; [reflexivity|]. rewrite !lenN_cons in Hl. lia.
Qed.

Lemma sorted_lt_from l : forall lo, match l with [] => True | x :: _ => lo <= x end ->
  sorted_lt l = true -> sorted_from lo l = true.
Proof.
  induction l as [|x t IH]; intros lo Hlo Hs; [reflexivity|].
  cbn [sorted_from]. apply andb_true_intro. split; [lia|].
  destruct t as [|y t']; [reflexivity|]. cbn [sorted_lt] in Hs. apply andb_prop in Hs. destruct Hs as [Hxy Hs].
  apply IH; [lia|exact Hs].
Qed.

Lemma itrack_wf (t : itrack) : C09Spec.consistent (snd t) = true ->
  wf_track (itrack_of t) = true /\ (C11Model.t_nsamples (itrack_of t) <? 4294967296) = true /\
  C11Model.t_nsamples (itrack_of t) = nsamples (snd t).
Proof.
  intros H. destruct t as [[v ts] tb]. cbn [snd fst] in *. unfold itrack_of, track_of, wf_track. cbn [fst snd].
  cbn [C11Model.t_stts C11Model.t_nsamples C11Model.t_stss].
  destruct (stts_facts tb H) as [L [S [B _]]].
  destruct (stsz_facts tb H) as [_ [HN _]].
  rewrite stts_total_combine by exact L. split; [|split; [lia|lia]].
  apply andb_true_intro. split; [lia|].
  destruct (consistent_parts tb H) as [_ [_ [_ [_ [_ [_ [Hss _]]]]]]]. unfold stss_ok in Hss.
  destruct (C09Model.t_stss tb) as [l|]; [|reflexivity].
  apply andb_prop in Hss. destruct Hss as [Hs _]. apply sorted_lt_from; [destruct l; [exact I|lia]|exact Hs].
Qed.

Lemma Forall2_map_l {A B C} (g : A -> B) (P : B -> C -> Prop) : forall l l2,
  Forall2 P (map g l) l2 -> Forall2 (fun x y => P (g x) y) l l2.
Proof.
  induction l as [|x l IH]; intros l2 H; inversion H; subst; constructor; auto.
Qed.

Lemma Forall2_impl_in {A B} (P Q : A -> B -> Prop) : forall l l2,
  (forall x y, In x l -> P x y -> Q x y) -> Forall2 P l l2 -> Forall2 Q l l2.
Proof.
  induction l as [|x l IH]; intros l2 Himp H; inversion H; subst; constructor.
  - apply Himp; [left; reflexivity|assumption].
  - apply IH; [intros; apply Himp; [right|]; assumption|assumption].
Qed.

(* for every progressive file whose tracks have consistent tables pointing into the file, every target duration:
   whatever plan the tool computes, every track's written segments read back as the track's expansion *)
Lemma plan_end_to_end (f : pfile) (trs : list itrack) d ivss :
  Forall (fun t => C09Spec.consistent (snd t) = true /\ data_ok f (snd t) = true) trs ->
  segment_plan (map itrack_of trs) d = Ok ivss ->
  Forall2 (fun t ivs => forall opt T pos0 (tx : C05Model.trex) fes,
             tx_track tx = T -> seg_track opt f (snd t) T ivs = Ok fes ->
             Forall (fun fe => seg_guard pos0 fe = true) fes ->
             exists outs, read_all (read_back tx pos0 []) fes = Ok outs /\
                          map Some (concat outs) = expansion f (snd t) /\
                          Forall (fun o => o <> []) outs) trs ivss.
Proof.
  intros Hall Hp.
  assert (Hwf : wf_tracks (map itrack_of trs) = true /\ small_tracks (map itrack_of trs) = true).
  { unfold wf_tracks, small_tracks. rewrite !forallb_forall. split; intros x Hx; apply in_map_iff in Hx;
      destruct Hx as [t [<- Ht]]; rewrite Forall_forall in Hall; destruct (Hall t Ht) as [Hc _];
      destruct (itrack_wf t Hc) as [H1 [H2 _]]; assumption. }
  destruct Hwf as [Hwf Hsm].
  pose proof (plan_tile (map itrack_of trs) d ivss Hwf Hsm Hp) as Ht.
  apply Forall2_map_l in Ht.
  eapply Forall2_impl_in; [|exact Ht].
  intros t ivs Hin Htile opt T pos0 tx fes Htx Hs Hg. cbv beta in Htile.
  rewrite Forall_forall in Hall. destruct (Hall t Hin) as [Hc Hd].
  destruct (itrack_wf t Hc) as [_ [_ Hn]]. rewrite Hn in Htile.
  apply (seg_track_end_to_end opt f (snd t) T pos0 tx ivs fes); assumption.
Qed.
