(* C11Theorems.v — the property theorems of C11 and nothing else.  Each is closed by `exact <lemma>`
   and followed by Print Assumptions (audited by ./check on every run). *)
From V.lib Require Import Base.
From V.c11 Require Import C11Model C11SegProofs.

(* ---- segmenter (examples/segmenter, text after the fix commit) ----
   For every progressive file (any number of tracks, any tables), every target duration: if the tool
   gets as far as writing (segment_plan = Ok: no panic, no error return), then for EVERY track the
   sample numbers visited by the writers, segment after segment, are exactly 1, 2, ..., N. *)
Theorem C11_intervals_tile : forall (ts : list track) (d : N) (ivss : list (list (N * N))),
  wf_tracks ts = true -> small_tracks ts = true ->
  segment_plan ts d = Ok ivss ->
  Forall2 (fun t ivs => concat (map range ivs) = seqN1 (t_nsamples t)) ts ivss.
Proof. exact plan_tile. Qed.
Print Assumptions C11_intervals_tile.

(* the same at the level of samples: whatever the per-track sample sequence ss is (bytes, duration,
   flags, composition offset, decode time: any type A), fetching the planned intervals returns every
   sample exactly once, in order, nothing dropped at the end *)
Theorem C11_segmenter_conserves : forall (A : Type) (ts : list track) (d : N) (ivss : list (list (N * N))),
  wf_tracks ts = true -> small_tracks ts = true ->
  segment_plan ts d = Ok ivss ->
  Forall2 (fun t ivs => forall ss : list A, lenN ss = t_nsamples t ->
             concat (map (samples_for_interval ss) ivs) = map Some ss) ts ivss.
Proof. exact @plan_conserves_samples. Qed.
Print Assumptions C11_segmenter_conserves.

(* the hypotheses are satisfiable by a non-trivial file: video 6 samples (sync 1, 3, 5) + audio 9 *)
Definition ex_video : track := mkTrack true 1000 6 [(6, 40)] (Some [1; 3; 5]) (Some [(1, 40%Z); (5, 0%Z)]).
Definition ex_audio : track := mkTrack false 48000 9 [(8, 1024); (1, 512)] None None.
Example C11_plan_example :
  wf_tracks [ex_video; ex_audio] = true /\ small_tracks [ex_video; ex_audio] = true /\
  segment_plan [ex_video; ex_audio] 80 = Ok [[(1, 2); (3, 4); (5, 6)]; [(1, 4); (5, 8); (9, 9)]].
Proof. vm_compute. repeat split. Qed.

(* ---- the text of the pinned tree (endSampleNr = totNrSamples - 1) loses the last sample ---- *)
Theorem C11_last_sample_dropped_refuted : exists (ts : list track) (d : N) (ivss : list (list (N * N))),
  wf_tracks ts = true /\ small_tracks ts = true /\
  segment_plan_pinned ts d = Ok ivss /\
  ~ Forall2 (fun t ivs => concat (map range ivs) = seqN1 (t_nsamples t)) ts ivss.
Proof. exact pinned_refuted. Qed.
Print Assumptions C11_last_sample_dropped_refuted.
