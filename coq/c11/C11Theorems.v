(* C11Theorems.v — the property theorems of C11 and nothing else.  Each is closed by `exact <lemma>`
   and followed by Print Assumptions (audited by ./check on every run). *)
From V.lib Require Import Base.
From V.c11 Require Import C11Model C11SegProofs C11SyncProofs C11FragProofs.

(* ---- segmenter (examples/segmenter, text after the fix commit) ----
   For every progressive file (any number of tracks, any tables), every target duration: if the tool
   gets as far as writing (segment_plan = Ok: no panic, no error return), then for EVERY track the
   sample numbers visited by the writers, segment after segment, are exactly 1, 2, ..., N. *)
Theorem C11_intervals_tile : forall (ts : list track) (d : N) (ivss : list (list (N * N))),
  wf_tracks ts = true -> small_tracks ts = true ->
  segment_plan ts d = Ok ivss ->
  Forall2 (fun t ivs => concat (map range ivs) = seqN1 (t_nsamples t)) ts ivss.
Proof. exact plan_tile. Qed.
Print Assumptions C11_intervals_tile.

(* the same at the level of samples: whatever the per-track sample sequence ss is (bytes, duration,
   flags, composition offset, decode time: any type A), fetching the planned intervals returns every
   sample exactly once, in order, nothing dropped at the end *)
Theorem C11_segmenter_conserves : forall (A : Type) (ts : list track) (d : N) (ivss : list (list (N * N))),
  wf_tracks ts = true -> small_tracks ts = true ->
  segment_plan ts d = Ok ivss ->
  Forall2 (fun t ivs => forall ss : list A, lenN ss = t_nsamples t ->
             concat (map (samples_for_interval ss) ivs) = map Some ss) ts ivss.
Proof. exact @plan_conserves_samples. Qed.
Print Assumptions C11_segmenter_conserves.

(* the hypotheses are satisfiable by a non-trivial file: video 6 samples (sync 1, 3, 5) + audio 9 *)
Definition ex_video : track := mkTrack true 1000 6 [(6, 40)] (Some [1; 3; 5]) (Some [(1, 40%Z); (5, 0%Z)]).
Definition ex_audio : track := mkTrack false 48000 9 [(8, 1024); (1, 512)] None None.
Example C11_plan_example :
  wf_tracks [ex_video; ex_audio] = true /\ small_tracks [ex_video; ex_audio] = true /\
  segment_plan [ex_video; ex_audio] 80 = Ok [[(1, 2); (3, 4); (5, 6)]; [(1, 4); (5, 8); (9, 9)]].
Proof. vm_compute. repeat split. Qed.

(* ---- the text of the pinned tree (endSampleNr = totNrSamples - 1) loses the last sample ---- *)
Theorem C11_last_sample_dropped_refuted : exists (ts : list track) (d : N) (ivss : list (list (N * N))),
  wf_tracks ts = true /\ small_tracks ts = true /\
  segment_plan_pinned ts d = Ok ivss /\
  ~ Forall2 (fun t ivs => concat (map range ivs) = seqN1 (t_nsamples t)) ts ivss.
Proof. exact pinned_refuted. Qed.
Print Assumptions C11_last_sample_dropped_refuted.

(* ---- the reference (first video) track's segments start at the chosen sync samples ----
   guard: the chosen sync samples after the first have non-zero duration (see the _refuted statement) *)
Theorem C11_video_starts_sync :
  forall (ts : list track) (d : N) (rt : track) (syncTs : N) (sps : list sync_point)
         (ivs : list (N * N)) (stss : list N),
  first_video ts = Some rt -> t_stss rt = Some stss ->
  get_segment_starts ts d = Ok (syncTs, sps) ->
  get_segment_intervals syncTs sps rt = Ok ivs ->
  nonzero_dur_syncs rt sps = true ->
  map fst ivs = expected_starts sps /\
  Forall (fun sp => In (sp_nr sp) stss) sps /\
  (In 1 stss -> Forall (fun iv => In (fst iv) stss) ivs).
Proof. exact video_starts_sync. Qed.
Print Assumptions C11_video_starts_sync.

Example C11_video_starts_sync_example :
  nonzero_dur_syncs ex_video [mkSP 1 0 40; mkSP 3 80 80; mkSP 5 160 160] = true /\
  get_segment_starts [ex_video; ex_audio] 80 = Ok (1000, [mkSP 1 0 40; mkSP 3 80 80; mkSP 5 160 160]).
Proof. vm_compute. split; reflexivity. Qed.

Theorem C11_video_starts_sync_unguarded_refuted :
  exists ts d rt syncTs sps ivs stss,
    first_video ts = Some rt /\ t_stss rt = Some stss /\ In 1 stss /\
    wf_tracks ts = true /\
    get_segment_starts ts d = Ok (syncTs, sps) /\
    get_segment_intervals syncTs sps rt = Ok ivs /\
    ~ Forall (fun iv => In (fst iv) stss) ivs.
Proof. exact video_starts_sync_unguarded_refuted. Qed.
Print Assumptions C11_video_starts_sync_unguarded_refuted.

(* ---- examples/resegmenter: for every sample list and every chunk duration the tool accepts ----
   the output segments' samples concatenate to the input, and every segment after the first is
   non-empty and starts with a sync sample whose presentation time is >= d * (number of the segment
   before it), computed as the tool computes it (uint64) *)
Theorem C11_resegment_conserves : forall (d : N) (ss : list fsample) (segs : list (list fsample)),
  resegment d ss = Ok segs ->
  concat segs = ss /\
  exists first others, segs = first :: others /\ segs_start_ok d 1 others.
Proof. exact resegment_conserves. Qed.
Print Assumptions C11_resegment_conserves.

Definition ex_samples : list fsample :=
  [mkFS 0 10 0%Z 33554432 [1]; mkFS 10 10 5%Z 65536 [2; 2]; mkFS 20 10 0%Z 33554432 [3];
   mkFS 30 10 0%Z 65536 []; mkFS 40 10 0%Z 33554432 [5]].
Example C11_resegment_example :
  option_map (map (map fs_dts)) (match resegment 15 ex_samples with Ok l => Some l | _ => None end)
  = Some [[0; 10]; [20; 30]; [40]].
Proof. vm_compute. reflexivity. Qed.

(* ---- MediaSegment.Fragmentify: never fails in the split loop, conserves, no empty fragment ---- *)
Theorem C11_fragmentify_conserves : forall (duration : N) (frags : list (list fsample)),
  exists outs, fragmentify duration frags = Ok outs /\ concat outs = concat frags /\
               Forall (fun f => f <> []) outs.
Proof. exact fragmentify_conserves. Qed.
Print Assumptions C11_fragmentify_conserves.

Example C11_fragmentify_example :
  option_map (map (map fs_dts)) (match fragmentify 20 [firstn 3 ex_samples; skipn 3 ex_samples] with Ok l => Some l | _ => None end)
  = Some [[0; 10]; [20; 30]; [40]].
Proof. vm_compute. reflexivity. Qed.

(* ---- combine-segs: multiplexing single-track sample lists into one multi-track fragment ----
   for distinct new track ids, reading track id back (first traf with that id, truns in order, decode
   times from tfdt + accumulated durations) returns exactly the list that was put in *)
Theorem C11_mux_conserves : forall (ids : list N) (inputs : list (list fsample)) (id : N) (ss : list fsample),
  NoDup ids -> In (id, ss) (combine ids inputs) -> contiguous_list ss = true ->
  read_track (fo_trafs (combine_tracks ids inputs)) id = Some ss.
Proof. exact mux_conserves. Qed.
Print Assumptions C11_mux_conserves.

Example C11_mux_example :
  contiguous_list ex_samples = true /\
  read_track (fo_trafs (combine_tracks [1; 2] [ex_samples; firstn 2 ex_samples])) 2 = Some (firstn 2 ex_samples) /\
  trun_layout (combine_tracks [1; 2] [ex_samples; firstn 2 ex_samples]) = [(1, 0, 5); (2, 1, 2)].
Proof. vm_compute. repeat split. Qed.

(* the documented limitation of combine-segs (it reads its inputs with trex = nil) as a hypothesis:
   a trun whose duration/size/flags come from the trun itself or from tfhd defaults reads the same
   with and without the trex box; without the hypothesis it does not *)
Theorem C11_mux_reads_without_trex : forall (f : frag_in) (t : trun_in) (sizes : list N) (tx : trex),
  trun_indep_of_trex f t = true -> read_trun f None t sizes = read_trun f (Some tx) t sizes.
Proof. exact read_trun_indep. Qed.
Print Assumptions C11_mux_reads_without_trex.

Theorem C11_mux_needs_trex_refuted :
  exists f t sizes tx, read_trun f None t sizes <> read_trun f (Some tx) t sizes.
Proof. exact read_trun_needs_trex_refuted. Qed.
Print Assumptions C11_mux_needs_trex_refuted.

(* ---- decode times when the written pieces are read back ----
   A fragment stores one base decode time (tfdt) and durations.  For an input whose decode times are
   contiguous (dts(k+1) = dts(k) + dur(k)) the pieces read back are exactly the input; an input with a
   decode-time gap between two fragments is NOT conserved when both sides land in one output piece. *)
Theorem C11_resegment_read_back : forall (d : N) (ss : list fsample) (segs : list (list fsample)),
  contiguous_list ss = true -> resegment d ss = Ok segs -> concat (map retime_seg segs) = ss.
Proof. exact resegment_read_back. Qed.
Print Assumptions C11_resegment_read_back.

Theorem C11_fragmentify_read_back : forall (duration : N) (frags : list (list fsample)),
  contiguous_list (concat frags) = true ->
  exists outs, fragmentify duration frags = Ok outs /\ concat (map retime_seg outs) = concat frags.
Proof. exact fragmentify_read_back. Qed.
Print Assumptions C11_fragmentify_read_back.

Theorem C11_read_back_gap_refuted :
  exists d ss segs outs,
    resegment d ss = Ok segs /\ concat (map retime_seg segs) <> ss /\
    fragmentify d [firstn 2 ss; skipn 2 ss] = Ok outs /\ concat (map retime_seg outs) <> ss.
Proof. exact read_back_gap_refuted. Qed.
Print Assumptions C11_read_back_gap_refuted.

(* ---- combine-segs end to end: each input is read with trex = nil (as the tool does), multiplexed, and
   read back; the result is what a reader WITH the input's trex sees, for inputs that do not rely on
   trex defaults (the limitation documented in the tool's source is exactly this hypothesis) ---- *)
Theorem C11_mux_end_to_end : forall (ids : list N) (xs : list mux_input) (id : N) (x : mux_input),
  NoDup ids -> In (id, x) (combine ids xs) ->
  trun_indep_of_trex (mi_frag x) (mi_trun x) = true ->
  contiguous_list (mux_read true x) = true ->
  read_track (fo_trafs (combine_inputs ids xs)) id = Some (mux_read true x).
Proof. exact mux_end_to_end. Qed.
Print Assumptions C11_mux_end_to_end.

Definition ex_mux_in : mux_input :=
  mkMuxIn (mkFragIn (Some 10) None (Some 65536) [])
          (mkTrunIn false true false true [mkFS 0 0 0%Z 33554432 [1]; mkFS 10 0 5%Z 0 [2; 2]]) [1; 2] (mkTrex 99 99 99).
Example C11_mux_end_to_end_example :
  trun_indep_of_trex (mi_frag ex_mux_in) (mi_trun ex_mux_in) = true /\
  contiguous_list (mux_read true ex_mux_in) = true /\
  map fs_dur (mux_read true ex_mux_in) = [10; 10] /\ map fs_flags (mux_read true ex_mux_in) = [33554432; 65536].
Proof. vm_compute. repeat split. Qed.

(* ---- Resegment on a file: every sample of every trun of every input fragment is conserved (the
   first-trun count the code keeps for bookkeeping plays no role in what is written) ---- *)
Theorem C11_resegment_file_conserves :
  forall (d : N) (frags : list (list (list fsample))) (segs : list (list fsample)),
  resegment_file d frags = Ok segs ->
  concat segs = concat (map (@concat _) frags) /\
  exists first others, segs = first :: others /\ segs_start_ok d 1 others.
Proof. exact resegment_file_conserves. Qed.
Print Assumptions C11_resegment_file_conserves.

(* ====================================================================================================
   Composition with C09 (sample tables = naive expansion) and C05 (fragment add-history -> encode -> decode ->
   GetFullSamples = added samples).  The names of C09Model/C05Model shadow some of C11Model's from here on
   (range, trex, fs_dts, t_stss ...): C11Model's are written qualified below. *)
From V.c09 Require Import C09Model C09Spec.
From V.c05 Require Import C05Model C05FragModel C05ReadProofs C05RoundProofs.
From V.c11 Require Import C11FetchModel C11Spec C11FetchProofs C11PipeProofs.

(* ---- (a) the segmenter's per-sample fetch = sample n of the expansion ----
   For every consistent set of sample tables (C09Spec.consistent) that point into the file (data_ok), mdat in
   memory or decoded lazily: what GetFullSamplesForInterval builds for sample number n (chunk lookup in stsc,
   chunk offset from stco/co64 plus the sizes of the chunk's earlier samples, size from stsz, decode time and
   duration from stts, composition offset from ctts, flags from stss/sdtp, bytes from mdat.Data or the
   ReadSeeker) is sample n of the naive expansion: S_full = (S_flags, S_dur, S_size, S_cto, S_decode_time, bytes at
   S_offset_of). *)
Theorem C11_fetch_full_sample : forall (f : pfile) (tb : tables),
  C09Spec.consistent tb = true -> data_ok f tb = true ->
  forall n, 1 <= n <= nsamples tb ->
  exists s, S_full f tb n = Some s /\ fetch_full_sample f tb n = Ok s.
Proof. exact fetch_full_sample_ok. Qed.
Print Assumptions C11_fetch_full_sample.

Theorem C11_fetch_interval : forall (f : pfile) (tb : tables),
  C09Spec.consistent tb = true -> data_ok f tb = true ->
  forall a b, 1 <= a -> a <= b + 1 -> b <= nsamples tb ->
  exists l, fetch_interval f tb a b = Ok l /\ map Some l = S_interval f tb a b.
Proof. exact fetch_interval_ok. Qed.
Print Assumptions C11_fetch_interval.

(* GetSamplesForInterval (the -lazy writer): the same metadata, without decode time and bytes *)
Theorem C11_fetch_meta_interval : forall (tb : tables), C09Spec.consistent tb = true ->
  forall a b, 1 <= a -> a <= b + 1 -> b <= nsamples tb ->
  exists l, fetch_meta_interval tb a b = Ok l /\
            map Some l = map (fun n => option_map meta_sample (S_meta tb n)) (seqN a (N.to_nat (b + 1 - a))).
Proof. exact fetch_meta_interval_ok. Qed.
Print Assumptions C11_fetch_meta_interval.

(* the hypotheses C05's round trip needs of the samples added to a fragment hold for every run of consecutive
   samples of the expansion: Sample.Size = len(Data), decode times consistent with the durations (no uint64 wrap) *)
Theorem C11_expansion_roundtrip_hyps : forall (f : pfile) (tb : tables),
  C09Spec.consistent tb = true -> data_ok f tb = true ->
  forall k nr l, 1 <= nr -> nr + N.of_nat k <= nsamples tb + 1 ->
  map Some l = map (S_full f tb) (seqN nr k) ->
  Forall sized_f l /\ C05RoundProofs.consistent l.
Proof.
  intros f tb H Hd k nr l H1 H2 Hl. split.
  - exact (expansion_sized f tb H Hd k nr l H1 H2 Hl).
  - exact (expansion_consistent f tb H k nr l H1 Hl).
Qed.
Print Assumptions C11_expansion_roundtrip_hyps.

(* ---- (b) makeSingleTrackSegments end to end, one track ----
   seg_track: for every interval, GetFullSamplesForInterval, (skip when empty), CreateFragment +
   AddFullSampleToTrack per sample, Fragment.Encode (optimisation on or off); read_back: DecodeFile's view of
   the written fragment at ANY file position pos0 + Fragment.GetFullSamples(trex of the track).
   For every consistent track, ANY intervals that tile 1..N: if the writer returns without error and every
   fragment stays below 2 GiB (seg_guard: int32 trun data offsets; beyond it the real code wraps, known finding
   C05-F5), then reading the segments back in order gives exactly the expansion of the input track - bytes,
   size, duration, flags, composition offset, decode time - and no segment file is empty. *)
Theorem C11_segmenter_track_end_to_end :
  forall opt (f : pfile) (tb : tables) T pos0 (tx : C05Model.trex) ivs fes,
  C09Spec.consistent tb = true -> data_ok f tb = true -> tx_track tx = T ->
  concat (map C11Model.range ivs) = seqN1 (nsamples tb) ->
  seg_track opt f tb T ivs = Ok fes ->
  Forall (fun fe => seg_guard pos0 fe = true) fes ->
  exists outs, read_all (read_back tx pos0 []) fes = Ok outs /\
               map Some (concat outs) = expansion f tb /\ Forall (fun o => o <> []) outs.
Proof. exact seg_track_end_to_end. Qed.
Print Assumptions C11_segmenter_track_end_to_end.

(* the whole tool: for every progressive file (any number of tracks with consistent tables pointing into the
   file), every target duration d: whatever plan the tool computes (segment_plan = Ok: C11_intervals_tile applies),
   every track's segments read back as that track's expansion *)
Theorem C11_segmenter_end_to_end : forall (f : pfile) (trs : list itrack) d ivss,
  Forall (fun t => C09Spec.consistent (snd t) = true /\ data_ok f (snd t) = true) trs ->
  segment_plan (map itrack_of trs) d = Ok ivss ->
  Forall2 (fun t ivs => forall opt T pos0 (tx : C05Model.trex) fes,
             tx_track tx = T -> seg_track opt f (snd t) T ivs = Ok fes ->
             Forall (fun fe => seg_guard pos0 fe = true) fes ->
             exists outs, read_all (read_back tx pos0 []) fes = Ok outs /\
                          map Some (concat outs) = expansion f (snd t) /\
                          Forall (fun o => o <> []) outs) trs ivss.
Proof. exact plan_end_to_end. Qed.
Print Assumptions C11_segmenter_end_to_end.

(* the hypotheses are satisfiable: a 7-sample video track (3 stts runs, ctts, 2 stsc entries over 3 chunks at file
   offsets 100/200/300, explicit sizes, stss [1;5], sdtp) in a 330-byte file, target duration 30 ms: two segments
   (samples 1-4 and 5-7), both written and read back *)
Definition ex_e2e_tb : tables :=
  mkTables [3; 1; 3] [10; 20; 5]
           (Some (mkCtts [0; 2; 7] [0%Z; (-3)%Z]))
           (mkStsc [mkEntry 1 2 1; mkEntry 3 3 5] 0 [1; 2])
           (mkStsz 0 7 [4; 5; 6; 7; 8; 9; 10])
           (Some [100; 200; 300]) None
           (Some [1; 5]) (Some [0; 16; 32; 64; 4; 8; 1]).
Definition ex_e2e_file : pfile := mkPfile (map (fun i => N.of_nat i mod 256) (seq 0 330)) 8 322 false.
Example C11_segmenter_end_to_end_example :
  C09Spec.consistent ex_e2e_tb = true /\ data_ok ex_e2e_file ex_e2e_tb = true /\
  segment_plan [itrack_of (true, 1000, ex_e2e_tb)] 30 = Ok [[(1, 4); (5, 7)]] /\
  exists fes, seg_track false ex_e2e_file ex_e2e_tb 1 [(1, 4); (5, 7)] = Ok fes /\
              forallb (seg_guard 24) fes = true /\
              option_map (map (map fs_dts))
                (match read_all (read_back (C05Model.mkTrex 1 0 0 0) 24 []) fes with Ok o => Some o | _ => None end)
              = Some [[0; 10; 20; 30]; [50; 55; 60]].
Proof.
  split; [vm_compute; reflexivity|]. split; [vm_compute; reflexivity|]. split; [vm_compute; reflexivity|].
  eexists. split; [vm_compute; reflexivity|]. split; vm_compute; reflexivity.
Qed.

(* ---- (c) Resegment and Fragmentify: statements about the DECODED output ----
   The output pieces are written as the tools write them (CreateFragment(seq, trackID), AddFullSampleToTrack for
   every sample of the piece, Fragment.Encode with optimisation on or off) and read back (decode at any position,
   GetFullSamples with the track's trex).  to_full makes an mp4.FullSample of a list-level sample (Size = len(Data),
   which holds for everything GetFullSamples returns).  For every input whose decode times are contiguous and fit
   uint64 (times_fit), fewer than 2^32 samples, every chunk duration the tool accepts: the concatenation of what
   the output segments decode to is the input sample list - bytes, size, duration, flags, composition offset,
   decode time.  Pieces without samples (only Resegment's first segment can be one, C11_resegment_conserves) are
   not read (nonempty_pieces): an empty fragment is explored by the search only. *)
From V.c11 Require Import C11ResegProofs.
Theorem C11_resegment_end_to_end :
  forall d (ss : list C11Model.fsample) segs opt T pos0 (tx : C05Model.trex) fes,
  contiguous_list ss = true -> times_fit ss -> lenN ss < 4294967296 -> tx_track tx = T ->
  resegment d ss = Ok segs ->
  Forall2 (fun seg fe => write_segment opt T (map to_full seg) = Ok fe) (nonempty_pieces segs) fes ->
  Forall (fun fe => seg_guard pos0 fe = true) fes ->
  exists outs, read_all (read_back tx pos0 []) fes = Ok outs /\ concat outs = map to_full ss.
Proof. exact resegment_end_to_end. Qed.
Print Assumptions C11_resegment_end_to_end.

Theorem C11_fragmentify_end_to_end :
  forall dur (frags : list (list C11Model.fsample)) opt T pos0 (tx : C05Model.trex),
  contiguous_list (concat frags) = true -> times_fit (concat frags) -> lenN (concat frags) < 4294967296 ->
  tx_track tx = T ->
  exists pieces, fragmentify dur frags = Ok pieces /\ Forall (fun p => p <> []) pieces /\
    forall fes, Forall2 (fun p fe => write_segment opt T (map to_full p) = Ok fe) pieces fes ->
                Forall (fun fe => seg_guard pos0 fe = true) fes ->
                exists outs, read_all (read_back tx pos0 []) fes = Ok outs /\
                             concat outs = map to_full (concat frags).
Proof. exact fragmentify_end_to_end. Qed.
Print Assumptions C11_fragmentify_end_to_end.

(* hypotheses satisfiable: the five samples of ex_samples, chunk duration 15: three pieces, written with trun
   optimisation on and read back *)
Example C11_resegment_end_to_end_example :
  contiguous_list ex_samples = true /\ times_fit ex_samples /\
  exists segs fes, resegment 15 ex_samples = Ok segs /\ nonempty_pieces segs = segs /\ length segs = 3%nat /\
    Forall2 (fun seg fe => write_segment true 7 (map to_full seg) = Ok fe) segs fes /\
    forallb (seg_guard 1000) fes = true /\
    (match read_all (read_back (C05Model.mkTrex 7 1 2 3) 1000 []) fes with Ok o => Some (concat o) | _ => None end)
    = Some (map to_full ex_samples).
Proof.
  split; [vm_compute; reflexivity|]. split; [repeat constructor|].
  eexists. eexists. split; [vm_compute; reflexivity|]. split; [reflexivity|]. split; [reflexivity|].
  split; [repeat (apply Forall2_cons; [vm_compute; reflexivity|]); apply Forall2_nil|].
  split; vm_compute; reflexivity.
Qed.

(* ---- (b, -lazy) makeSingleTrackSegmentsLazyWrite ----
   copyMediaData (containing chunks from stsc, chunk offset from co64/stco plus the sizes of the chunk's samples
   before the interval, one Seek + CopyN per chunk) writes exactly the bytes of samples a..b in sample order,
   for every consistent track pointing into the file that carries one chunk-offset box *)
From V.c11 Require Import C11CopyProofs C11LazyProofs.
Theorem C11_copy_media_data : forall (f : pfile) (tb : tables),
  C09Spec.consistent tb = true -> data_ok f tb = true -> one_offset_box tb = true ->
  forall a b, 1 <= a -> a <= b -> b <= nsamples tb ->
  copy_media_data f tb a b = Ok (S_data f tb a b).
Proof. exact copy_media_data_ok. Qed.
Print Assumptions C11_copy_media_data.

(* seg_track_lazy: per interval GetSamplesForInterval (metadata only), CreateFragment, AddSampleToTrack with the
   decode time of the interval's first sample, Fragment.Encode (moof + mdat header), copyMediaData after it.
   Reading every (fragment, copied bytes) pair back gives the expansion of the track, as in the in-memory case
   (C05_roundtrip_single_modes, metadata-only mode; the tfdt the reader starts from is shown to be the decode time
   of the interval's first sample). *)
Theorem C11_segmenter_lazy_track_end_to_end :
  forall opt (f : pfile) (tb : tables) T pos0 (tx : C05Model.trex) ivs outs,
  C09Spec.consistent tb = true -> data_ok f tb = true -> one_offset_box tb = true -> tx_track tx = T ->
  concat (map C11Model.range ivs) = seqN1 (nsamples tb) ->
  seg_track_lazy opt f tb T ivs = Ok outs ->
  Forall (fun p => lazy_guard pos0 p = true) outs ->
  exists res, read_all (fun p => read_back tx pos0 (snd p) (fst p)) outs = Ok res /\
              map Some (concat res) = expansion f tb /\ Forall (fun o => o <> []) res.
Proof. exact seg_track_lazy_end_to_end. Qed.
Print Assumptions C11_segmenter_lazy_track_end_to_end.

Theorem C11_segmenter_lazy_end_to_end : forall (f : pfile) (trs : list itrack) d ivss,
  Forall (fun t => C09Spec.consistent (snd t) = true /\ data_ok f (snd t) = true /\ one_offset_box (snd t) = true) trs ->
  segment_plan (map itrack_of trs) d = Ok ivss ->
  Forall2 (fun t ivs => forall opt T pos0 (tx : C05Model.trex) outs,
             tx_track tx = T -> seg_track_lazy opt f (snd t) T ivs = Ok outs ->
             Forall (fun p => lazy_guard pos0 p = true) outs ->
             exists res, read_all (fun p => read_back tx pos0 (snd p) (fst p)) outs = Ok res /\
                         map Some (concat res) = expansion f (snd t) /\
                         Forall (fun o => o <> []) res) trs ivss.
Proof. exact plan_lazy_end_to_end. Qed.
Print Assumptions C11_segmenter_lazy_end_to_end.

(* satisfiable: the same file decoded lazily *)
Definition ex_e2e_lazy_file : pfile := mkPfile (pf_bytes ex_e2e_file) 8 322 true.
Example C11_segmenter_lazy_end_to_end_example :
  data_ok ex_e2e_lazy_file ex_e2e_tb = true /\ one_offset_box ex_e2e_tb = true /\
  exists outs, seg_track_lazy false ex_e2e_lazy_file ex_e2e_tb 1 [(1, 4); (5, 7)] = Ok outs /\
               forallb (lazy_guard 24) outs = true /\
               map (fun p => lenN (snd p)) outs = [22; 27] /\
               option_map (map (map fs_dts))
                 (match read_all (fun p => read_back (C05Model.mkTrex 1 0 0 0) 24 (snd p) (fst p)) outs
                  with Ok o => Some o | _ => None end)
               = Some [[0; 10; 20; 30]; [50; 55; 60]].
Proof.
  split; [vm_compute; reflexivity|]. split; [reflexivity|].
  eexists. split; [vm_compute; reflexivity|]. split; [vm_compute; reflexivity|]. split; vm_compute; reflexivity.
Qed.

(* ---- (b, -m) makeMultiTrackSegments ----
   mux_segments: for every segment number, CreateMultiTrackFragment(ids), then per track in order
   GetFullSamplesForInterval + AddFullSampleToTrack, Fragment.Encode.  For ANY number of tracks with pairwise
   different output ids, consistent tables pointing into the file, fewer than 2^32 samples in total, and interval
   lists of one common length that tile each track (which is what the plan gives: C11_plan_shape,
   C11_intervals_tile): reading ANY of the tracks back from the multiplexed segments, in order, gives exactly that
   track's expansion (C05_roundtrip in its multi-track form: runs of different tracks in one mdat). *)
From V.c11 Require Import C11MuxProofs.
Theorem C11_segmenter_mux_end_to_end : forall opt (f : pfile) pos0 (trs : list strack) nsegs fes,
  NoDup (map st_id trs) -> total_samples trs < 4294967296 -> (1 <= nsegs)%nat ->
  Forall (fun t => C09Spec.consistent (st_tb t) = true /\ data_ok f (st_tb t) = true /\
                   length (st_ivs t) = nsegs /\
                   concat (map C11Model.range (st_ivs t)) = seqN1 (nsamples (st_tb t))) trs ->
  mux_segments opt f trs nsegs = Ok fes ->
  Forall (fun fe => seg_guard pos0 fe = true) fes ->
  Forall (fun t => forall tx : C05Model.trex, tx_track tx = st_id t ->
            exists outs, read_all (read_back tx pos0 []) fes = Ok outs /\
                         map Some (concat outs) = expansion f (st_tb t)) trs.
Proof. exact mux_end_to_end_all. Qed.
Print Assumptions C11_segmenter_mux_end_to_end.

Theorem C11_plan_shape : forall (ts : list C11Model.track) d ivss, segment_plan ts d = Ok ivss ->
  exists nsegs, (1 <= nsegs)%nat /\ Forall (fun ivs => length ivs = nsegs) ivss.
Proof. exact plan_shape. Qed.
Print Assumptions C11_plan_shape.

(* satisfiable: the video track above + a 5-sample audio track in the same file, multiplexed into two segments *)
Definition ex_e2e_audio_tb : tables :=
  mkTables [5] [1024] None (mkStsc [mkEntry 1 5 1] 1 []) (mkStsz 2 5 []) (Some [60]) None None None.
Example C11_segmenter_mux_end_to_end_example :
  C09Spec.consistent ex_e2e_audio_tb = true /\ data_ok ex_e2e_file ex_e2e_audio_tb = true /\
  segment_plan [itrack_of (true, 1000, ex_e2e_tb); itrack_of (false, 48000, ex_e2e_audio_tb)] 30
    = Ok [[(1, 4); (5, 7)]; [(1, 3); (4, 5)]] /\
  let trs := [(ex_e2e_tb, 1, [(1, 4); (5, 7)]); (ex_e2e_audio_tb, 2, [(1, 3); (4, 5)])] in
  exists fes, mux_segments false ex_e2e_file trs 2 = Ok fes /\ forallb (seg_guard 24) fes = true /\
    option_map (map (map fs_dts))
      (match read_all (read_back (C05Model.mkTrex 2 0 0 0) 24 []) fes with Ok o => Some o | _ => None end)
    = Some [[0; 1024; 2048]; [3072; 4096]].
Proof.
  split; [vm_compute; reflexivity|]. split; [vm_compute; reflexivity|]. split; [vm_compute; reflexivity|].
  eexists. split; [vm_compute; reflexivity|]. split; vm_compute; reflexivity.
Qed.

(* ---- no silent drop (text after fix 8eb6c19) ----
   For EVERY file and tables (also inconsistent ones, a truncated file, a lazily decoded mdat): if the writer
   returns without error, every planned interval of every track was fetched completely (as many full samples as
   the interval has sample numbers).  The pinned text tested len(fullSamples) == 0 before err != nil: a failed
   fetch (a read error with -m -lazy) was taken for "no more samples" and the tool went on (refuted below;
   reproduced on the built tool: a truncated prog_8s.mp4 gives empty segments and exit code 0). *)
Theorem C11_segmenter_fetches_all : forall opt (f : pfile) (tb : tables) T ivs fes,
  seg_track opt f tb T ivs = Ok fes -> Forall (fetched f tb) ivs.
Proof. exact seg_track_fetched. Qed.
Print Assumptions C11_segmenter_fetches_all.

Theorem C11_segmenter_mux_fetches_all : forall opt (f : pfile) (trs : list strack) nsegs fes,
  mux_segments opt f trs nsegs = Ok fes ->
  forall k, (k < nsegs)%nat ->
  Forall (fun t => exists iv, nth_error (st_ivs t) k = Some iv /\ fetched f (st_tb t) iv) trs.
Proof. exact mux_segments_fetched. Qed.
Print Assumptions C11_segmenter_mux_fetches_all.

Definition ex_truncated_file : pfile := mkPfile (firstn 250 (pf_bytes ex_e2e_file)) 8 322 true.
Theorem C11_fetch_error_swallowed_refuted :
  exists (f : pfile) (tb : tables) (iv : N * N),
    C09Spec.consistent tb = true /\ fst iv <= snd iv /\
    fetch_interval f tb (fst iv) (snd iv) = Err /\ fetch_or_skip_pinned f tb iv = Ok [].
Proof.
  exists ex_truncated_file, ex_e2e_tb, (5, 7). split; [vm_compute; reflexivity|]. split; [cbn; lia|].
  split; vm_compute; reflexivity.
Qed.
Print Assumptions C11_fetch_error_swallowed_refuted.

(* ---- (b) in total form: hypotheses on the INPUT only ----
   CreateFragment + AddFullSampleToTrack never fail on the fragment's own track id, Fragment.Encode (optimisation on
   or off) succeeds for a non-empty one-trun fragment, and the written fragment satisfies the round trip's guard,
   provided 16 bytes of trun per sample + the samples' bytes + 200 stay below 2 GiB. *)
From V.c11 Require Import C11TotalProofs.
Theorem C11_write_segment_total : forall opt T (l : list fullsample) pos0,
  l <> [] -> 16 * lenN l + lenN (flat_map fs_data l) + 200 < 2147483648 -> pos0 < 4611686018427387904 ->
  exists fe, write_segment opt T l = Ok fe /\ seg_guard pos0 fe = true.
Proof. exact write_segment_total. Qed.
Print Assumptions C11_write_segment_total.

(* For every progressive file whose tracks have consistent tables pointing into the file, every target duration:
   if the tool computes a plan at all (segment_plan = Ok: a video track with stss, sync points found, no lookup
   error) and every planned segment is smaller than 2 GiB (seg_small, a condition on the tables), then for EVERY track
   the in-memory writer returns without error, and reading the written segments back in order (decode at any
   position, GetFullSamples with the track's trex) gives exactly the track's expansion; no segment is empty. *)
Theorem C11_segmenter_total : forall (f : pfile) (trs : list itrack) d ivss,
  Forall (fun t => C09Spec.consistent (snd t) = true /\ data_ok f (snd t) = true) trs ->
  segment_plan (map itrack_of trs) d = Ok ivss ->
  Forall2 (fun t ivs => forall opt T pos0 (tx : C05Model.trex),
             tx_track tx = T -> pos0 < 4611686018427387904 -> forallb (seg_small (snd t)) ivs = true ->
             exists fes outs, seg_track opt f (snd t) T ivs = Ok fes /\
                              read_all (read_back tx pos0 []) fes = Ok outs /\
                              map Some (concat outs) = expansion f (snd t) /\
                              Forall (fun o => o <> []) outs) trs ivss.
Proof. exact plan_total. Qed.
Print Assumptions C11_segmenter_total.

Example C11_segmenter_total_example : forallb (seg_small ex_e2e_tb) [(1, 4); (5, 7)] = true.
Proof. vm_compute. reflexivity. Qed.

(* ---- (c) in total form: for every contiguous input below 2 GiB the pieces ARE written without error and
   decode to the input (Resegment: the pieces that hold samples; Fragmentify: all pieces) ---- *)
Theorem C11_resegment_total :
  forall d (ss : list C11Model.fsample) segs opt T pos0 (tx : C05Model.trex),
  contiguous_list ss = true -> times_fit ss -> 16 * lenN ss + bytes_of ss + 200 < 2147483648 ->
  tx_track tx = T -> pos0 < 4611686018427387904 ->
  resegment d ss = Ok segs ->
  exists fes outs,
    Forall2 (fun seg fe => write_segment opt T (map to_full seg) = Ok fe) (nonempty_pieces segs) fes /\
    read_all (read_back tx pos0 []) fes = Ok outs /\ concat outs = map to_full ss.
Proof. exact resegment_total. Qed.
Print Assumptions C11_resegment_total.

Theorem C11_fragmentify_total :
  forall dur (frags : list (list C11Model.fsample)) opt T pos0 (tx : C05Model.trex),
  contiguous_list (concat frags) = true -> times_fit (concat frags) ->
  16 * lenN (concat frags) + bytes_of (concat frags) + 200 < 2147483648 ->
  tx_track tx = T -> pos0 < 4611686018427387904 ->
  exists pieces fes outs, fragmentify dur frags = Ok pieces /\
    Forall2 (fun p fe => write_segment opt T (map to_full p) = Ok fe) pieces fes /\
    read_all (read_back tx pos0 []) fes = Ok outs /\ concat outs = map to_full (concat frags).
Proof. exact fragmentify_total. Qed.
Print Assumptions C11_fragmentify_total.

Example C11_resegment_total_example : 16 * lenN ex_samples + bytes_of ex_samples + 200 < 2147483648.
Proof. vm_compute. reflexivity. Qed.

(* the -lazy writer in total form: the same statement as C11_segmenter_total for makeSingleTrackSegmentsLazyWrite
   (AddSampleToTrack never fails on the own id, Encode of the metadata-only fragment succeeds, copyMediaData
   succeeds: C11_copy_media_data) *)
Theorem C11_segmenter_lazy_total : forall (f : pfile) (trs : list itrack) d ivss,
  Forall (fun t => C09Spec.consistent (snd t) = true /\ data_ok f (snd t) = true /\ one_offset_box (snd t) = true) trs ->
  segment_plan (map itrack_of trs) d = Ok ivss ->
  Forall2 (fun t ivs => forall opt T pos0 (tx : C05Model.trex),
             tx_track tx = T -> pos0 < 4611686018427387904 -> forallb (seg_small (snd t)) ivs = true ->
             exists outs res, seg_track_lazy opt f (snd t) T ivs = Ok outs /\
                              read_all (fun p => read_back tx pos0 (snd p) (fst p)) outs = Ok res /\
                              map Some (concat res) = expansion f (snd t) /\
                              Forall (fun o => o <> []) res) trs ivss.
Proof. exact plan_lazy_total. Qed.
Print Assumptions C11_segmenter_lazy_total.

(* the EMPTY fragment: CreateFragment + Encode without trun optimisation (the resegmenter's configuration) succeeds
   and every reader gets no samples from it; so Resegment's total statement covers EVERY output segment, the
   possibly empty first one included *)
Theorem C11_write_segment_empty : forall T pos0, pos0 < 4611686018427387904 ->
  exists fe, write_segment false T [] = Ok fe /\ forall tx : C05Model.trex, read_back tx pos0 [] fe = Ok [].
Proof. exact write_segment_empty. Qed.
Print Assumptions C11_write_segment_empty.

Theorem C11_resegment_total_all :
  forall d (ss : list C11Model.fsample) segs T pos0 (tx : C05Model.trex),
  contiguous_list ss = true -> times_fit ss -> 16 * lenN ss + bytes_of ss + 200 < 2147483648 ->
  tx_track tx = T -> pos0 < 4611686018427387904 ->
  resegment d ss = Ok segs ->
  exists fes outs,
    Forall2 (fun seg fe => write_segment false T (map to_full seg) = Ok fe) segs fes /\
    read_all (read_back tx pos0 []) fes = Ok outs /\ concat outs = map to_full ss.
Proof. exact resegment_total_all. Qed.
Print Assumptions C11_resegment_total_all.

(* the multiplexed writer in total form (no trun optimisation, as the tool runs: NewMediaSegment sets OptimizeNone):
   for tracks with pairwise different ids, consistent tables pointing into the file, interval lists of one common
   length that tile each track in order, and every segment below 2 GiB (mux_seg_small: a condition on the tables),
   makeMultiTrackSegments' loop returns without error and every track reads back as its expansion *)
From V.c11 Require Import C11MuxTotalProofs.
Theorem C11_segmenter_mux_total : forall (f : pfile) pos0 (trs : list strack) nsegs,
  NoDup (map st_id trs) -> trs <> [] -> total_samples trs < 4294967296 -> (1 <= nsegs)%nat ->
  pos0 < 4611686018427387904 ->
  Forall (fun t => C09Spec.consistent (st_tb t) = true /\ data_ok f (st_tb t) = true /\
                   length (st_ivs t) = nsegs /\
                   concat (map C11Model.range (st_ivs t)) = seqN1 (nsamples (st_tb t)) /\
                   Forall (fun iv => fst iv <= snd iv + 1) (st_ivs t)) trs ->
  forallb (mux_seg_small trs) (seq 0 nsegs) = true ->
  exists fes, mux_segments false f trs nsegs = Ok fes /\
    Forall (fun t => forall tx : C05Model.trex, tx_track tx = st_id t ->
              exists outs, read_all (read_back tx pos0 []) fes = Ok outs /\
                           map Some (concat outs) = expansion f (st_tb t)) trs.
Proof. exact mux_total. Qed.
Print Assumptions C11_segmenter_mux_total.

(* the plan's intervals are ordered (start <= end + 1), the remaining hypothesis of the total forms *)
Theorem C11_plan_ordered : forall (ts : list C11Model.track) d ivss,
  wf_tracks ts = true -> small_tracks ts = true ->
  segment_plan ts d = Ok ivss -> Forall (Forall (fun iv => fst iv <= snd iv + 1)) ivss.
Proof. exact plan_ordered. Qed.
Print Assumptions C11_plan_ordered.

Example C11_segmenter_mux_total_example :
  forallb (mux_seg_small [(ex_e2e_tb, 1, [(1, 4); (5, 7)]); (ex_e2e_audio_tb, 2, [(1, 3); (4, 5)])]) (seq 0 2) = true.
Proof. vm_compute. reflexivity. Qed.

(* ---- the two views of a trak agree ----
   The plan is computed by C11Model's stts/ctts queries on run lists (itrack_of), the fetch by C09Model's on the Go
   structs; both transcribe the same Go functions.  On consistent tables they return the same results for every
   argument the plan uses: decode time + duration of any sample number, composition offset of every sample,
   the sample number at any uint64 time. *)
From V.c11 Require Import C11BridgeProofs.
Theorem C11_itrack_decode_time : forall tb, C09Spec.consistent tb = true -> forall n,
  C11Model.get_decode_time (C11Model.t_stts (itrack_of (true, 1, tb))) n
  = stts_get_decode_time (t_stts_count tb) (t_stts_delta tb) n.
Proof. exact get_decode_time_bridge. Qed.
Print Assumptions C11_itrack_decode_time.

Theorem C11_itrack_cto : forall tb c, C09Spec.consistent tb = true -> C09Model.t_ctts tb = Some c ->
  forall n, 1 <= n <= nsamples tb ->
  C11Model.get_cto (combine (diffs (ct_end c)) (ct_off c)) n = ctts_get_cto c n.
Proof. exact get_cto_bridge. Qed.
Print Assumptions C11_itrack_cto.

Theorem C11_itrack_sample_nr_at_time : forall tb, C09Spec.consistent tb = true ->
  forall t, t < 18446744073709551616 ->
  C11Model.get_sample_nr_at_time (C11Model.t_stts (itrack_of (true, 1, tb))) t
  = stts_get_sample_nr_at_time (t_stts_count tb) (t_stts_delta tb) t.
Proof. exact get_sample_nr_at_time_bridge. Qed.
Print Assumptions C11_itrack_sample_nr_at_time.

(* ---- combine-segs end to end at the decoded level (examples/combine-segs/main.go) ----
   Inputs: any number k >= 1 of decoded single-track media files, each with the trex of its own init segment; output
   track ids pairwise different, one per file.  Hypotheses on the INPUT only: every file is what the tool accepts (one
   segment, one fragment, one traf: single_frag), the trex names the traf's track, sizes are uint32 and tfdt uint64
   (din_wf, what DecodeFile guarantees), a reader with the init segment can read the file (read_input = Ok l), the
   whole input stays below 2 GiB (int32 trun data offsets, C05-F5), and the guard of the property text: NO trun relies
   on trex defaults (no_trex_reliance; any mixture of trun / tfhd flag usage, any number of truns, any base-data-offset
   mode).  Then combineMediaSegments + MediaSegment.Encode DO return without error, and reading track ids[i] of the
   decoded output with the combined init's trex (whatever defaults dd ds df it carries) returns exactly the samples a
   reader of input i saw: bytes, size, duration, flags, composition offset and decode time, in order, none dropped. *)
From V.c11 Require Import C11CombModel C11CombProofs.
Theorem C11_combine_end_to_end : forall (ids : list N) (ins : list cinput) (ls : list (list C05Model.fullsample)) pos0,
  NoDup ids -> ins <> [] -> length ids = length ins ->
  Forall input_ok ins ->
  Forall2 (fun x l => read_input (snd x) (fst x) = Ok l) ins ls ->
  64 * fulls_count ls + fulls_bytes ls + 40 * lenN ids + 200 < 2147483648 -> pos0 < 4611686018427387904 ->
  exists fe, combine_media ids (map fst ins) = Ok fe /\
             Forall2 (fun T l => forall dd ds df, read_output T dd ds df pos0 fe = Ok l) ids ls.
Proof. exact combine_end_to_end. Qed.
Print Assumptions C11_combine_end_to_end.

(* the guard is stated exactly: a trun satisfies trun_indep iff AddSampleDefaultValues gives the same samples with
   every trex as with trex = nil (the tool's call) *)
Theorem C11_combine_guard_exact : forall h r,
  trun_indep h r = true <-> (forall tx, resolve h (Some tx) r = resolve h None r).
Proof. intros h r. split; [intros H tx; exact (trun_indep_resolve h r tx H)|exact (trun_indep_exact h r)]. Qed.
Print Assumptions C11_combine_guard_exact.

(* C05's round-trip hypotheses hold of EVERY decoded input that reads without error: Size = len(Data) and decode
   times consistent with the durations (so they are not assumptions of C11_combine_end_to_end) *)
Theorem C11_combine_read_hyps : forall d tx l,
  no_trex_reliance d = true -> din_wf d = true -> tx_track tx = din_track d ->
  get_full_samples d (Some tx) = Ok l ->
  get_full_samples d None = Ok l /\ Forall C05ReadProofs.sized_f l /\ C05RoundProofs.consistent l.
Proof. exact read_guarded. Qed.
Print Assumptions C11_combine_read_hyps.

(* without the guard the statement is false (all other hypotheses hold): the trun has no duration flag, the tfhd no
   default duration, the init's trex says 10; the tool writes durations 0 and decode times 100, 100 instead of 100, 110.
   Replayed on the built tool: search class combine-segs-trex/..., harness witness combx|...|defaults=3 *)
Theorem C11_combine_unguarded_refuted :
  exists (x : cinput) l fe,
    (exists d, single_frag (fst x) = Ok d /\ din_wf d = true /\ tx_track (snd x) = din_track d /\ no_trex_reliance d = false) /\
    read_input (snd x) (fst x) = Ok l /\ combine_media [1] [fst x] = Ok fe /\
    exists l', read_output 1 10 0 0 24 fe = Ok l' /\ l' <> l /\ map C05Model.fs_data l' = map C05Model.fs_data l.
Proof. exact combine_unguarded_refuted. Qed.
Print Assumptions C11_combine_unguarded_refuted.

(* the hypotheses are satisfiable: video with two truns (the first with first-sample-flags + tfhd default flags and
   duration, base-data-offset in the tfhd), audio with everything per sample; ids 1 and 2; conclusion computed too *)
Definition ex_comb_v : dfrag :=
  mkDfrag [mkTraf (mkTfhd 41 7 1000 0 10 0 16842752) (mkTfdt 0 500)
             [mkTrun 0 517 108 33554432 [mkSample 33554432 0 2 0; mkSample 0 0 1 0] 0;
              mkTrun 0 3841 111 0 [mkSample 16842752 12 1 3%Z] 0] 0]
          [1; 2; 3; 4] 1000 1108.
Definition ex_comb_a : dfrag :=
  mkDfrag [mkTraf (mkTfhd 131072 9 0 0 0 0 0) (mkTfdt 0 0)
             [mkTrun 0 1793 100 0 [mkSample 33554432 1024 1 0; mkSample 33554432 1024 2 0] 0] 0]
          [5; 6; 7] 24 124.
Definition ex_comb_ins : list cinput := [([[ex_comb_v]], mkTrex 7 99 99 99); ([[ex_comb_a]], mkTrex 9 5 5 5)].
Example C11_combine_end_to_end_example :
  Forall input_ok ex_comb_ins /\
  exists ls fe, Forall2 (fun x l => read_input (snd x) (fst x) = Ok l) ex_comb_ins ls /\
    64 * fulls_count ls + fulls_bytes ls + 40 * lenN [1; 2] + 200 < 2147483648 /\
    combine_media [1; 2] (map fst ex_comb_ins) = Ok fe /\
    read_output 1 0 0 0 24 fe = Ok (nth 0 ls []) /\ read_output 2 0 0 0 24 fe = Ok (nth 1 ls []) /\
    map (fun l => map C05Model.fs_dts l) ls = [[500; 510; 520]; [0; 1024]].
Proof.
  split.
  { repeat constructor; [exists ex_comb_v|exists ex_comb_a]; repeat split; reflexivity. }
  eexists. eexists. split; [constructor; [vm_compute; reflexivity|constructor; [vm_compute; reflexivity|constructor]]|].
  split; [vm_compute; reflexivity|]. split; [vm_compute; reflexivity|]. repeat split; vm_compute; reflexivity.
Qed.

(* ---- the init segments the tools write describe the same tracks (C11InitModel.v: per track id, handler, media
   timescale, sample entries, trex) ----
   Segmenter, one init per track (MakeInitSegments, text after fix 0e3bed8): WHENEVER it returns, every init carries
   the handler and timescale of its input track and exactly one sample entry, which is one of the input's, under the
   track id (1) that the media segments use, with a trex for that id. *)
From V.c11 Require Import C11InitModel C11InitProofs.
Theorem C11_segmenter_inits_never_drop : forall ts outs, seg_inits ts = Ok outs ->
  Forall2 (fun t o => exists e tk, In e (it_entries t) /\ find_trak o 1 = Some tk /\ it_hdlr tk = it_hdlr t /\
                      it_timescale tk = it_timescale t /\ it_entries tk = [e] /\
                      find_trex o (seg_track_id false 0) = Some (create_trex 1)) ts outs.
Proof. exact seg_inits_never_drop. Qed.
Print Assumptions C11_segmenter_inits_never_drop.

(* total form: video / audio tracks with one sample entry of a supported kind: the inits ARE written and describe the
   same tracks (handler, timescale, the sample entry) *)
Theorem C11_segmenter_inits_total : forall ts, forallb hdlr_ok ts = true -> forallb entry_supported ts = true ->
  exists outs, seg_inits ts = Ok outs /\
    Forall2 (fun t o => same_track t None o 1 /\ find_trex o 1 = Some (create_trex 1)) ts outs.
Proof. exact seg_inits_total. Qed.
Print Assumptions C11_segmenter_inits_total.

(* the pinned text (before 0e3bed8) wrote an init segment WITHOUT a sample entry for e.g. an av01 track, exit status 0:
   reproduced on the built tool with mp4/testdata/prog_8s.mp4 whose avc1 entry was replaced by av01 *)
Theorem C11_segmenter_init_entry_dropped_refuted : exists t o,
  hdlr_ok t = true /\ it_entries t <> [] /\ seg_inits_pinned [t] = Ok [o] /\
  exists tk, in_traks o = [tk] /\ it_entries tk = [].
Proof. exact seg_inits_pinned_refuted. Qed.
Print Assumptions C11_segmenter_init_entry_dropped_refuted.

(* multiplexed init (MakeMuxedInitSegment): track number i of the input is described under id i+1, the id
   makeMultiTrackSegments writes into the tfhd of that track *)
Theorem C11_segmenter_mux_init_same_tracks : forall ts o, seg_mux_init ts = Ok o ->
  forall i t, nth_error ts i = Some t ->
    let T := seg_track_id true i in
    exists e tk, In e (it_entries t) /\ find_trak o T = Some tk /\ it_hdlr tk = it_hdlr t /\
                 it_timescale tk = it_timescale t /\ it_entries tk = [e] /\ find_trex o T = Some (create_trex T).
Proof. exact seg_mux_init_same. Qed.
Print Assumptions C11_segmenter_mux_init_same_tracks.

(* resegmenter: the init is passed through *)
Theorem C11_resegment_init_same : forall i, reseg_init i = i.
Proof. reflexivity. Qed.
Print Assumptions C11_resegment_init_same.

(* combine-segs (combineInitSegments): k >= 1 single-track inits whose first trex names the trak (the first input
   with exactly one trex), pairwise different new ids: the combined init IS written, and under id ids[i] it holds
   handler, timescale and sample entries of input i and a trex with input i's defaults: the trex that
   C11_combine_end_to_end's reader uses *)
Theorem C11_combine_init_same_tracks : forall ids xs,
  NoDup ids -> length ids = length xs ->
  match xs with x0 :: r => comb_in_ok true x0 && forallb (comb_in_ok false) r | [] => false end = true ->
  exists o, comb_init ids xs = Ok o /\
    forall T x, In (T, x) (combine ids xs) -> same_track (first_trak x) (first_trex x) o T.
Proof. exact comb_init_same. Qed.
Print Assumptions C11_combine_init_same_tracks.

Example C11_init_example :
  let v := mkITrak 7 H_VIDE 90000 [mkSE K_AVC [1; 2; 3]] in
  let a := mkITrak 7 H_SOUN 48000 [mkSE K_MP4A [4; 5]] in
  forallb hdlr_ok [v; a] = true /\ forallb entry_supported [v; a] = true /\
  (comb_in_ok true (mkInit [v] (Some [mkITrex 7 1 512 0 65536])) && forallb (comb_in_ok false) [mkInit [a] (Some [mkITrex 7 1 1024 9 0])]) = true /\
  comb_init [1; 2] [mkInit [v] (Some [mkITrex 7 1 512 0 65536]); mkInit [a] (Some [mkITrex 7 1 1024 9 0])]
    = Ok (mkInit [mkITrak 1 H_VIDE 90000 [mkSE K_AVC [1; 2; 3]]; mkITrak 2 H_SOUN 48000 [mkSE K_MP4A [4; 5]]]
                 (Some [mkITrex 1 1 512 0 65536; mkITrex 2 1 1024 9 0])).
Proof. vm_compute. repeat split. Qed.

(* ---- total forms WITH trun optimisation, and tracks without a sample in an interval ----
   One multi-track segment (CreateMultiTrackFragment(ids) + per track AddFullSampleToTrack of its samples, in track
   order + Fragment.Encode), EncOptimize on or off, any number of tracks, any of them (also all) without a sample:
   for pairwise different ids, Size = len(Data), decode times consistent with the durations and the input of the
   segment below 2 GiB the segment IS written (OptimizeTfhdTrun of the first traf's first trun cannot fail, no data
   offset is 0) and every track reads back exactly what was added to it (nothing for a track without samples). *)
From V.c11 Require Import C11MuxProofs C11OptTotalProofs.
Theorem C11_mux_segment_total_opt : forall opt ids (g : list (N * list C05Model.fullsample)) pos0,
  NoDup ids -> ids <> [] -> map fst g = ids ->
  Forall (fun p => Forall C05ReadProofs.sized_f (snd p) /\ C05RoundProofs.consistent (snd p)) g ->
  64 * g_count g + g_bytes g + 40 * lenN ids + 300 < 2147483648 -> pos0 < 4611686018427387904 ->
  exists fe, write_mux_segment opt ids g = Ok fe /\
    forall tx : C05Model.trex, read_back tx pos0 [] fe = Ok (pick_track (tx_track tx) g).
Proof. exact write_mux_segment_total. Qed.
Print Assumptions C11_mux_segment_total_opt.

(* no track has a sample in the interval: the multiplexed writer still writes the (empty) segment, with and without
   optimisation, and every reader gets no sample from it *)
Theorem C11_mux_segment_empty : forall opt ids pos0,
  NoDup ids -> ids <> [] -> lenN ids < 1000000 -> pos0 < 4611686018427387904 ->
  exists fe, write_mux_segment opt ids (map (fun T => (T, [])) ids) = Ok fe /\
    forall tx : C05Model.trex, read_back tx pos0 [] fe = Ok [].
Proof. exact write_mux_segment_empty. Qed.
Print Assumptions C11_mux_segment_empty.

(* the multiplexed writer over all segments, ANY optimisation setting (C11_segmenter_mux_total is the opt = false
   instance the tool runs); intervals may be empty (fst iv = snd iv + 1: the track has no sample in that segment) *)
Theorem C11_segmenter_mux_total_opt : forall opt (f : pfile) pos0 (trs : list strack) nsegs,
  NoDup (map st_id trs) -> trs <> [] -> total_samples trs < 4294967296 -> (1 <= nsegs)%nat ->
  pos0 < 4611686018427387904 ->
  Forall (fun t => C09Spec.consistent (st_tb t) = true /\ data_ok f (st_tb t) = true /\
                   length (st_ivs t) = nsegs /\
                   concat (map C11Model.range (st_ivs t)) = seqN1 (nsamples (st_tb t)) /\
                   Forall (fun iv => fst iv <= snd iv + 1) (st_ivs t)) trs ->
  forallb (mux_seg_small_opt trs) (seq 0 nsegs) = true ->
  exists fes, mux_segments opt f trs nsegs = Ok fes /\
    Forall (fun t => forall tx : C05Model.trex, tx_track tx = st_id t ->
              exists outs, read_all (read_back tx pos0 []) fes = Ok outs /\
                           map Some (concat outs) = expansion f (st_tb t)) trs.
Proof. exact mux_total_any. Qed.
Print Assumptions C11_segmenter_mux_total_opt.

(* a single-track fragment WITHOUT samples cannot be encoded with optimisation (OptimizeTfhdTrun: "no samples in
   trun"): the reason Resegment's possibly empty first segment is covered by C11_write_segment_empty (no optimisation)
   only, and the segmenter's single-track writers skip a track without samples in an interval *)
Theorem C11_write_segment_empty_opt_fails : forall T, write_segment true T [] = Err.
Proof. exact write_segment_empty_opt_fails. Qed.
Print Assumptions C11_write_segment_empty_opt_fails.

(* hypotheses satisfiable: two tracks, the audio track has NO sample in the second segment *)
Example C11_segmenter_mux_total_opt_example :
  forallb (mux_seg_small_opt [(ex_e2e_tb, 1, [(1, 4); (5, 7)]); (ex_e2e_audio_tb, 2, [(1, 5); (6, 5)])]) (seq 0 2) = true /\
  concat (map C11Model.range [(1, 5); (6, 5)]) = seqN1 5.
Proof. vm_compute. split; reflexivity. Qed.

(* ---- "every produced segment starts with a sync sample of the reference track", at the DECODED level ----
   C11_video_starts_sync is a statement about the plan (sample numbers).  Here the same clause for what a reader of the
   written files sees: for every progressive file whose tracks have consistent tables, the reference track t (the first
   video track, as getSegmentStartsFromVideo picks it) pointing into the file and listing sample 1 in its stss, every
   target duration for which segment starts are found, under the guard of C11_video_starts_sync (chosen sync samples
   have non-zero duration; without it refuted, known finding) and every planned segment below 2 GiB: the in-memory
   writer DOES write the reference track's segments, they read back (decode at any position, GetFullSamples with the
   track's trex, trun optimisation on or off) as the track's expansion, and EVERY written segment's first sample has
   sample_is_non_sync_sample = 0 (bit 16 of the flags a reader gets), whatever the track's sdtp says. *)
From V.c11 Require Import C11SyncDecProofs.
Theorem C11_segmenter_segments_start_sync :
  forall (f : pfile) (trs : list itrack) (t : itrack) d syncTs sps ivs stss,
  Forall (fun t => C09Spec.consistent (snd t) = true) trs -> In t trs -> data_ok f (snd t) = true ->
  first_video (map itrack_of trs) = Some (itrack_of t) ->
  C09Model.t_stss (snd t) = Some stss -> In 1 stss ->
  get_segment_starts (map itrack_of trs) d = Ok (syncTs, sps) -> sps <> [] ->
  get_segment_intervals syncTs sps (itrack_of t) = Ok ivs ->
  nonzero_dur_syncs (itrack_of t) sps = true ->
  forall opt T pos0 (tx : C05Model.trex),
  tx_track tx = T -> pos0 < 4611686018427387904 -> forallb (seg_small (snd t)) ivs = true ->
  exists fes outs, seg_track opt f (snd t) T ivs = Ok fes /\
                   read_all (read_back tx pos0 []) fes = Ok outs /\
                   map Some (concat outs) = expansion f (snd t) /\
                   Forall starts_sync outs.
Proof. exact ref_segments_start_sync. Qed.
Print Assumptions C11_segmenter_segments_start_sync.

(* hypotheses satisfiable: the 7-sample video track above (stss [1;5], sdtp present) + the audio track, 30 ms: the video
   segments 1-4 and 5-7 read back with flags whose bit 16 is clear on the first sample (and set on the second) *)
Example C11_segmenter_segments_start_sync_example :
  let trs := [(true, 1000, ex_e2e_tb); (false, 48000, ex_e2e_audio_tb)] in
  first_video (map itrack_of trs) = Some (itrack_of (true, 1000, ex_e2e_tb)) /\
  get_segment_starts (map itrack_of trs) 30 = Ok (1000, [mkSP 1 0 0; mkSP 5 50 47]) /\
  get_segment_intervals 1000 [mkSP 1 0 0; mkSP 5 50 47] (itrack_of (true, 1000, ex_e2e_tb)) = Ok [(1, 4); (5, 7)] /\
  nonzero_dur_syncs (itrack_of (true, 1000, ex_e2e_tb)) [mkSP 1 0 0; mkSP 5 50 47] = true /\
  forallb (seg_small ex_e2e_tb) [(1, 4); (5, 7)] = true /\
  exists fes, seg_track false ex_e2e_file ex_e2e_tb 1 [(1, 4); (5, 7)] = Ok fes /\
    option_map (map (map (fun x => N.testbit (s_flags (fs_s x)) 16)))
      (match read_all (read_back (C05Model.mkTrex 1 0 0 0) 24 []) fes with Ok o => Some o | _ => None end)
    = Some [[false; true; true; true]; [false; true; true]].
Proof.
  cbv zeta. split; [vm_compute; reflexivity|]. split; [vm_compute; reflexivity|]. split; [vm_compute; reflexivity|].
  split; [vm_compute; reflexivity|]. split; [vm_compute; reflexivity|].
  eexists. split; [vm_compute; reflexivity|]. vm_compute. reflexivity.
Qed.

(* the same for the -lazy writer (makeSingleTrackSegmentsLazyWrite: metadata-only samples, Encode of the mdat header,
   copyMediaData behind it; one chunk-offset box): every written file of the reference track reads back with
   sample_is_non_sync_sample = 0 on its first sample *)
From V.c11 Require Import C11SyncLazyProofs.
Theorem C11_segmenter_lazy_segments_start_sync :
  forall (f : pfile) (trs : list itrack) (t : itrack) d syncTs sps ivs stss,
  Forall (fun t => C09Spec.consistent (snd t) = true) trs -> In t trs -> data_ok f (snd t) = true ->
  one_offset_box (snd t) = true ->
  first_video (map itrack_of trs) = Some (itrack_of t) ->
  C09Model.t_stss (snd t) = Some stss -> In 1 stss ->
  get_segment_starts (map itrack_of trs) d = Ok (syncTs, sps) -> sps <> [] ->
  get_segment_intervals syncTs sps (itrack_of t) = Ok ivs ->
  nonzero_dur_syncs (itrack_of t) sps = true ->
  forall opt T pos0 (tx : C05Model.trex),
  tx_track tx = T -> pos0 < 4611686018427387904 -> forallb (seg_small (snd t)) ivs = true ->
  exists outs res, seg_track_lazy opt f (snd t) T ivs = Ok outs /\
                   read_all (fun p => read_back tx pos0 (snd p) (fst p)) outs = Ok res /\
                   map Some (concat res) = expansion f (snd t) /\
                   Forall starts_sync res.
Proof. exact ref_segments_start_sync_lazy. Qed.
Print Assumptions C11_segmenter_lazy_segments_start_sync.

Example C11_segmenter_lazy_segments_start_sync_example :
  one_offset_box ex_e2e_tb = true /\
  exists outs, seg_track_lazy false (mkPfile (pf_bytes ex_e2e_file) 8 322 true) ex_e2e_tb 1 [(1, 4); (5, 7)] = Ok outs /\
    option_map (map (map (fun x => N.testbit (s_flags (fs_s x)) 16)))
      (match read_all (fun p => read_back (C05Model.mkTrex 1 0 0 0) 24 (snd p) (fst p)) outs with Ok o => Some o | _ => None end)
    = Some [[false; true; true; true]; [false; true; true]].
Proof.
  split; [vm_compute; reflexivity|].
  eexists. split; [vm_compute; reflexivity|]. vm_compute. reflexivity.
Qed.

(* the two theorems under ONE boolean hypothesis on the input (C11Spec.ref_sync_hyps lz f trs k d: all tracks consistent,
   track k is the first video track, points into the file, lists sample 1 in stss, segment starts are found, the guard
   nonzero_dur_syncs, every planned segment of it below 2 GiB; lz: one chunk-offset box).  This is the form the W
   correspondence EVALUATES on the files the built segmenter was run on: where it is true, the files the tool wrote for
   the reference track must each start with a sync sample (evidence: coverage.correspondence.sync_theorem_applies). *)
From V.c11 Require Import C11SyncBoolProofs.
Theorem C11_segmenter_segments_start_sync_applies : forall (f : pfile) (trs : list itrack) k d,
  ref_sync_hyps false f trs k d = true ->
  exists t syncTs sps ivs,
    nth_error trs k = Some t /\ get_segment_starts (map itrack_of trs) d = Ok (syncTs, sps) /\
    get_segment_intervals syncTs sps (itrack_of t) = Ok ivs /\
    forall opt T pos0 (tx : C05Model.trex), tx_track tx = T -> pos0 < 4611686018427387904 ->
    exists fes outs, seg_track opt f (snd t) T ivs = Ok fes /\
                     read_all (read_back tx pos0 []) fes = Ok outs /\
                     map Some (concat outs) = expansion f (snd t) /\
                     Forall starts_sync outs.
Proof. exact ref_sync_bool. Qed.
Print Assumptions C11_segmenter_segments_start_sync_applies.

Theorem C11_segmenter_lazy_segments_start_sync_applies : forall (f : pfile) (trs : list itrack) k d,
  ref_sync_hyps true f trs k d = true ->
  exists t syncTs sps ivs,
    nth_error trs k = Some t /\ get_segment_starts (map itrack_of trs) d = Ok (syncTs, sps) /\
    get_segment_intervals syncTs sps (itrack_of t) = Ok ivs /\
    forall opt T pos0 (tx : C05Model.trex), tx_track tx = T -> pos0 < 4611686018427387904 ->
    exists outs res, seg_track_lazy opt f (snd t) T ivs = Ok outs /\
                     read_all (fun p => read_back tx pos0 (snd p) (fst p)) outs = Ok res /\
                     map Some (concat res) = expansion f (snd t) /\
                     Forall starts_sync res.
Proof. exact ref_sync_bool_lazy. Qed.
Print Assumptions C11_segmenter_lazy_segments_start_sync_applies.

(* satisfiable (audio first, the video track is track 1), and false for a track that is not the reference *)
Example C11_ref_sync_hyps_example :
  ref_sync_hyps false ex_e2e_file [(false, 48000, ex_e2e_audio_tb); (true, 1000, ex_e2e_tb)] 1 30 = true /\
  ref_sync_hyps true (mkPfile (pf_bytes ex_e2e_file) 8 322 true)
                [(false, 48000, ex_e2e_audio_tb); (true, 1000, ex_e2e_tb)] 1 30 = true /\
  ref_sync_hyps false ex_e2e_file [(false, 48000, ex_e2e_audio_tb); (true, 1000, ex_e2e_tb)] 0 30 = false.
Proof. vm_compute. repeat split. Qed.
