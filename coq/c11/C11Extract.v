(* Extraction of the C11 models for the correspondence check. ExtrOcamlBasic only. *)
From V.lib Require Import Base.
From V.c11 Require Import C11Model.
Require Import ExtrOcamlBasic.
Separate Extraction
  nat track sync_point fsample trun_in frag_in trex traf_out frag_out
  get_decode_time get_sample_nr_at_time get_cto
  get_segment_starts get_segment_intervals get_segment_intervals_pinned
  segment_plan segment_plan_pinned
  resegment resegment_file nr_samples_first_truns fragmentify
  create_multi add_sample_to_track add_all combine_tracks read_track trun_layout
  read_trun.
