(* Extraction of the C11 models for the correspondence check. ExtrOcamlBasic only. *)
From V.lib Require Import Base.
From V.c09 Require Import C09Model C09Spec.
From V.c05 Require Import C05Model C05FragModel.
From V.c11 Require Import C11Model C11FetchModel C11Spec C11CombModel C11InitModel.
Require Import ExtrOcamlBasic.
Separate Extraction
  nat track sync_point fsample trun_in frag_in C11Model.trex traf_out frag_out
  get_decode_time get_sample_nr_at_time get_cto
  get_segment_starts get_segment_intervals get_segment_intervals_pinned
  segment_plan segment_plan_pinned
  resegment resegment_file nr_samples_first_truns fragmentify
  C11Model.create_multi C11Model.add_sample_to_track add_all combine_tracks read_track trun_layout
  read_trun
  fetch_interval fetch_meta_interval copy_media_data create_sample_flags
  C09Spec.consistent data_ok one_offset_box expansion
  seg_track seg_track_lazy mux_segments read_back read_all itrack_of to_full write_segment
  combine_media read_input read_output no_trex_reliance din_wf din_track single_frag
  seg_inits seg_mux_init comb_init reseg_init write_mux_segment
  ref_sync_hyps.
