(* C11SyncProofs.v — the reference track's intervals start at the chosen sync samples. *)
From V.lib Require Import Base.
From V.c11 Require Import C11Model C11SegProofs.

Lemma ceil_exact r d : d <> 0 -> ceil_div (r * d) d = r.
Proof.
  intros Hd. unfold ceil_div. rewrite N.mod_mul by exact Hd. cbn [N.eqb].
  apply N.div_mul. exact Hd.
Qed.

(* looking up the decode time of a sample with non-zero duration finds that sample *)
Lemma snat_of_gdt e : forall rem dec dt d aN lc ld,
  gdt_loop e rem dec = Ok (dt, d) -> d <> 0 ->
  snat_loop e dt dec aN lc ld = Ok (aN + rem + 1).
Proof.
  induction e as [|[c d0] t IH]; intros rem dec dt d aN lc ld H Hd; cbn [gdt_loop] in H; [discriminate|].
  cbn [snat_loop]. destruct (c <=? rem) eqn:E.
  - pose proof (gdt_loop_ge _ _ _ _ _ H) as Hge.
    assert (Hlt : (dt <? dec + c * d0) = false) by lia. rewrite Hlt.
    rewrite (N.mul_comm d0 c). rewrite (IH _ _ _ _ (aN + c) c d0 H Hd). f_equal. lia.
  - inversion H; subst.
    assert (Hlt : (dec + rem * d <? dec + c * d) = true) by nia. rewrite Hlt.
    replace (dec + rem * d - dec) with (rem * d) by lia.
    rewrite ceil_exact by exact Hd. reflexivity.
Qed.

Lemma snat_of_decode_time e nr dt d :
  get_decode_time e nr = Ok (dt, d) -> d <> 0 -> get_sample_nr_at_time e dt = Ok nr.
Proof.
  unfold get_decode_time, get_sample_nr_at_time. intros H Hd.
  destruct (nr =? 0) eqn:E; [discriminate|].
  destruct e as [|p e']; [cbn [gdt_loop] in H; discriminate|].
  rewrite (snat_of_gdt _ _ _ _ _ 0 0 1 H Hd). f_equal. lia.
Qed.

(* every chosen sync point is an stss entry and carries that sample's decode time *)
Lemma starts_loop_sound st ct step : forall stss next sps,
  starts_loop st ct step next stss = Ok sps ->
  Forall (fun sp => In (sp_nr sp) stss /\ exists d, get_decode_time st (sp_nr sp) = Ok (sp_dts sp, d)) sps.
Proof.
  induction stss as [|nr t IH]; intros next sps H; cbn [starts_loop] in H.
  - inversion H; subst. constructor.
  - apply rbind_ok in H. destruct H as ([dt d] & Hg & H). cbn [fst] in H.
    apply rbind_ok in H. destruct H as (pres & _ & H).
    destruct (Z.of_N next <=? pres)%Z.
    + apply rbind_ok in H. destruct H as (r & Hr & H). inversion H; subst.
      constructor.
      * cbn [sp_nr sp_dts]. split; [left; reflexivity | exists d; exact Hg].
      * eapply Forall_impl; [ | eapply IH; exact Hr ].
        intros sp (Hin & Hd). split; [right; exact Hin | exact Hd].
    + eapply Forall_impl; [ | eapply IH; exact H ].
      intros sp (Hin & Hd). split; [right; exact Hin | exact Hd].
Qed.

(* the interval starts are the looked-up sample numbers *)
Lemma intervals_loop_starts trk last : forall sps start nextStart ivs,
  t_timescale trk <> 0 ->
  Forall (fun sp => get_sample_nr_at_time (t_stts trk) (sp_dts sp) = Ok (sp_nr sp)) (tl sps) ->
  sps <> [] ->
  intervals_loop (t_timescale trk) trk last sps start nextStart = Ok ivs ->
  map fst ivs = (if nextStart =? 0 then start else nextStart) :: map sp_nr (tl sps).
Proof.
  induction sps as [|sp rest IH]; intros start nextStart ivs Hts Hall Hne H; [congruence|].
  cbn [intervals_loop] in H. destruct rest as [|sp2 rest'].
  - inversion H; subst. reflexivity.
  - destruct (t_timescale trk =? 0) eqn:E0; [lia|].
    apply rbind_ok in H. destruct H as (n & Hn & H).
    apply rbind_ok in H. destruct H as (r & Hr & H). inversion H; subst ivs. clear H.
    cbn [tl] in Hall. inversion Hall as [|? ? Hsp2 Hrest]; subst.
    rewrite N.div_mul in Hn by exact Hts. rewrite Hsp2 in Hn. inversion Hn; subst n.
    cbn [map fst tl]. f_equal.
    rewrite (IH _ _ _ Hts Hrest ltac:(discriminate) Hr).
    assert (Hnz : (sp_nr sp2 =? 0) = false).
    { apply snat_ge1 in Hsp2. lia. }
    rewrite Hnz. reflexivity.
Qed.

Definition expected_starts (sps : list sync_point) : list N :=
  match sps with [] => [] | _ :: r => 1 :: map sp_nr r end.

Lemma video_starts_sync ts d rt syncTs sps ivs stss :
  first_video ts = Some rt -> t_stss rt = Some stss ->
  get_segment_starts ts d = Ok (syncTs, sps) ->
  get_segment_intervals syncTs sps rt = Ok ivs ->
  nonzero_dur_syncs rt sps = true ->
  map fst ivs = expected_starts sps /\
  Forall (fun sp => In (sp_nr sp) stss) sps /\
  (In 1 stss -> Forall (fun iv => In (fst iv) stss) ivs).
Proof.
  intros Hfv Hst Hs Hi Hg. unfold get_segment_starts in Hs. rewrite Hfv, Hst in Hs.
  apply rbind_ok in Hs. destruct Hs as (sps' & Hl & Hs). inversion Hs; subst syncTs sps'. clear Hs.
  pose proof (starts_loop_sound _ _ _ _ _ _ Hl) as Hsound.
  assert (Hin : Forall (fun sp => In (sp_nr sp) stss) sps).
  { eapply Forall_impl; [ | exact Hsound ]. intros sp [H _]. exact H. }
  assert (Hstarts : map fst ivs = expected_starts sps).
  { destruct sps as [|sp0 rest].
    - unfold get_segment_intervals in Hi. cbn [intervals_loop] in Hi. inversion Hi; subst. reflexivity.
    - destruct rest as [|sp1 rest'].
      + unfold get_segment_intervals in Hi. cbn [intervals_loop N.eqb] in Hi. inversion Hi; subst. reflexivity.
      + assert (Hts : t_timescale rt <> 0).
        { intros E0. unfold get_segment_intervals in Hi. cbn [intervals_loop] in Hi.
          rewrite E0 in Hi. cbn [N.eqb] in Hi. discriminate. }
        unfold get_segment_intervals in Hi.
        rewrite (intervals_loop_starts rt (t_nsamples rt) (sp0 :: sp1 :: rest') 1 0 ivs
                   Hts); [reflexivity | | discriminate | exact Hi].
        cbn [tl]. unfold nonzero_dur_syncs in Hg. cbn [tl] in Hg. rewrite forallb_forall in Hg.
        inversion Hsound as [|? ? _ Hs1]; subst.
        rewrite Forall_forall in Hs1 |- *. intros sp Hsp.
        destruct (Hs1 sp Hsp) as (_ & dd & Hd). specialize (Hg sp Hsp). rewrite Hd in Hg.
        eapply snat_of_decode_time; [exact Hd|]. intros ->. discriminate. }
  split; [exact Hstarts | split; [exact Hin|]].
  intros H1. rewrite Forall_forall. intros iv Hiv.
  apply (in_map fst) in Hiv. rewrite Hstarts in Hiv.
  destruct sps as [|sp0 rest]; cbn [expected_starts] in Hiv; [contradiction|].
  destruct Hiv as [<- | Hiv]; [exact H1|].
  apply in_map_iff in Hiv. destruct Hiv as (sp & <- & Hsp).
  rewrite Forall_forall in Hin. apply Hin. right. exact Hsp.
Qed.

(* without the guard the statement fails: a chosen sync sample of duration 0 *)
Lemma video_starts_sync_unguarded_refuted :
  exists ts d rt syncTs sps ivs stss,
    first_video ts = Some rt /\ t_stss rt = Some stss /\ In 1 stss /\
    wf_tracks ts = true /\
    get_segment_starts ts d = Ok (syncTs, sps) /\
    get_segment_intervals syncTs sps rt = Ok ivs /\
    ~ Forall (fun iv => In (fst iv) stss) ivs.
Proof.
  pose (rt := mkTrack true 1000 3 [(1, 40); (1, 0); (1, 40)] (Some [1; 2]) None).
  exists [rt], 1, rt, 1000, [mkSP 1 0 0; mkSP 2 40 40], [(1, 2); (3, 3)], [1; 2].
  repeat split; try (vm_compute; reflexivity); try (left; reflexivity).
  intros F. inversion F as [|? ? _ F2]; subst. inversion F2 as [|? ? H3 _]; subst.
  cbn [fst] in H3. destruct H3 as [H | [H | []]]; discriminate.
Qed.
