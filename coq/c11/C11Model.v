(* C11Model.v — executable Gallina models (definitions only) of
     examples/segmenter/segment.go   getSegmentStartsFromVideo, getSegmentIntervals (text AFTER the
                                     `fix:` commit: the last interval ends at totNrSamples),
                                     getSegmentIntervalsPinned = the text of the pinned tree
     examples/segmenter/segmenter.go SetTargetSegmentation + the `tr.segments[segNr-1]` access of the writers
     mp4/stts.go                     GetDecodeTime, GetSampleNrAtTime        (the two queries the segmenter uses)
     mp4/ctts.go                     GetCompositionTimeOffset                (linear scan instead of the binary search
                                                                             over the cumulated EndSampleNr table)
     examples/resegmenter/resegment.go Resegment (the split loop)
     mp4/mediasegment.go             MediaSegment.Fragmentify (the split loop)
     examples/combine-segs/main.go   combineMediaSegments + Fragment.AddSampleToTrack / trun defaults
   Integer widths: sample numbers and uint32 counters that can wrap on small inputs are written with
   explicit u32/u64; decode-time accumulators (uint64 sums of uint32*uint32 products) are left unbounded:
   the check records "total duration < 2^63" as an assumption. *)
From V.lib Require Import Base.

(* ------------------------------------------------------------------ sample tables of one trak *)
Definition stts_t := list (N * N).            (* (SampleCount[i], SampleTimeDelta[i]) *)
Definition ctts_t := list (N * Z).            (* (sample count, SampleOffset[i]) *)

Record track := mkTrack {
  t_video : bool;                             (* Mdia.Hdlr.HandlerType == "vide" *)
  t_timescale : N;                            (* Mdia.Mdhd.Timescale *)
  t_nsamples : N;                             (* Stsz.SampleNumber *)
  t_stts : stts_t;
  t_stss : option (list N);                   (* nil pointer when the box is absent *)
  t_ctts : option ctts_t
}.

(* func (b *SttsBox) GetDecodeTime(sampleNr uint32) (decTime uint64, dur uint32) *)
Fixpoint gdt_loop (e : stts_t) (rem dec : N) : res (N * N) :=
  match e with
  | [] => Panic                                (* b.SampleTimeDelta[i]: index out of range *)
  | (c, d) :: t =>
      if c <=? rem then gdt_loop t (rem - c) (dec + c * d)
      else Ok (dec + rem * d, d)
  end.
Definition get_decode_time (e : stts_t) (nr : N) : res (N * N) :=
  if nr =? 0 then Panic else gdt_loop e (nr - 1) 0.

(* nrInInterval := relTime / timeDelta; if relTime%timeDelta != 0 { nrInInterval++ } *)
Definition ceil_div (rel d : N) : N := if rel mod d =? 0 then rel / d else rel / d + 1.

(* func (b *SttsBox) GetSampleNrAtTime(sampleStartTime uint64) (sampleNr uint32, err error)
   lc/ld = count and delta of the entry before the current position (the last entry when e = []). *)
Fixpoint snat_loop (e : stts_t) (t accT accNr lc ld : N) : res N :=
  match e with
  | [] => if (ld =? 0) && (lc =? 1) && (t =? accT) then Ok accNr else Err
  | (c, d) :: rest =>
      if t <? accT + c * d then
        Ok (accNr + ceil_div (t - accT) d + 1)
      else snat_loop rest t (accT + d * c) (accNr + c) c d
  end.
Definition get_sample_nr_at_time (e : stts_t) (t : N) : res N :=
  match e with
  | [] => Panic                                (* b.SampleTimeDelta[nrEntries-1] with nrEntries = 0 *)
  | _ => snat_loop e t 0 0 0 1
  end.

(* func (b *CttsBox) GetCompositionTimeOffset(sampleNr uint32) int32 : entry containing sampleNr *)
Fixpoint cto_loop (e : ctts_t) (nr acc : N) : res Z :=
  match e with
  | [] => Panic                                (* b.SampleOffset[i-1] out of range *)
  | (c, o) :: t => if nr <=? acc + c then Ok o else cto_loop t nr (acc + c)
  end.
Definition get_cto (e : ctts_t) (nr : N) : res Z :=
  if nr =? 0 then Panic else cto_loop e nr 0.

(* ------------------------------------------------------------------ getSegmentStartsFromVideo *)
Record sync_point := mkSP { sp_nr : N; sp_dts : N; sp_pts : N }.

(* the loop `for _, sampleNr := range stss.SampleNumber`; next = nextSegmentStart (uint32) *)
Fixpoint starts_loop (st : stts_t) (ct : option ctts_t) (step next : N) (stss : list N)
  : res (list sync_point) :=
  match stss with
  | [] => Ok []
  | nr :: t =>
      do dd <- get_decode_time st nr;
      let dt := fst dd in
      do pres <- (match ct with
                  | None => Ok (Z.of_N dt)
                  | Some c => do o <- get_cto c nr; Ok (Z.of_N dt + o)%Z
                  end);
      if (Z.of_N next <=? pres)%Z then
        do r <- starts_loop st ct step (u32 (next + step)) t;
        Ok (mkSP nr dt (Z.to_N pres) :: r)
      else starts_loop st ct step next t
  end.

Fixpoint first_video (ts : list track) : option track :=
  match ts with
  | [] => None
  | t :: r => if t_video t then Some t else first_video r
  end.

(* returns (timeScale, syncPoints) *)
Definition get_segment_starts (ts : list track) (segDurMS : N) : res (N * list sync_point) :=
  match first_video ts with
  | None => Panic                              (* panic("Cannot handle case with no video track yet") *)
  | Some rt =>
      match t_stss rt with
      | None => Panic                          (* stss.EntryCount() on a nil *StssBox *)
      | Some stss =>
          let step := u32 (u32 segDurMS * t_timescale rt / 1000) in
          do sps <- starts_loop (t_stts rt) (t_ctts rt) step 0 stss;
          Ok (t_timescale rt, sps)
      end
  end.

(* ------------------------------------------------------------------ getSegmentIntervals *)
(* intervals are (startNr, endNr), endNr included.  `last_end` is what the final interval ends at:
   totNrSamples after the fix, uint32(totNrSamples - 1) in the pinned tree. *)
Fixpoint intervals_loop (syncTs : N) (trk : track) (last_end : N) (sps : list sync_point)
         (start nextStart : N) : res (list (N * N)) :=
  match sps with
  | [] => Ok []
  | _ :: rest =>
      let start' := if nextStart =? 0 then start else nextStart in
      match rest with
      | [] => Ok [(start', last_end)]
      | sp2 :: _ =>
          if syncTs =? 0 then Panic            (* integer divide by zero *)
          else
            let nextStartTime := sp_dts sp2 * t_timescale trk / syncTs in
            do n <- get_sample_nr_at_time (t_stts trk) nextStartTime;
            do r <- intervals_loop syncTs trk last_end rest start' n;
            Ok ((start', u32 (n + 4294967295)) :: r)      (* endSampleNr = nextStartSampleNr - 1 *)
      end
  end.

Definition get_segment_intervals (syncTs : N) (sps : list sync_point) (trk : track) : res (list (N * N)) :=
  intervals_loop syncTs trk (t_nsamples trk) sps 1 0.

Definition get_segment_intervals_pinned (syncTs : N) (sps : list sync_point) (trk : track) : res (list (N * N)) :=
  intervals_loop syncTs trk (u32 (t_nsamples trk + 4294967295)) sps 1 0.

(* SetTargetSegmentation: intervals of every track, first error wins *)
Fixpoint all_intervals (f : N -> list sync_point -> track -> res (list (N * N)))
         (syncTs : N) (sps : list sync_point) (ts : list track) : res (list (list (N * N))) :=
  match ts with
  | [] => Ok []
  | t :: r =>
      do iv <- f syncTs sps t;
      do rest <- all_intervals f syncTs sps r;
      Ok (iv :: rest)
  end.

(* main.run up to the writers: the plan of what every track writes into every segment.  The writers
   start with `tr.segments[segNr-1]` for segNr = 1, which panics when no segment start was found. *)
Definition segment_plan_with (f : N -> list sync_point -> track -> res (list (N * N)))
           (ts : list track) (segDurMS : N) : res (list (list (N * N))) :=
  do ss <- get_segment_starts ts segDurMS;
  let '(syncTs, sps) := ss in
  do ivs <- all_intervals f syncTs sps ts;
  match sps with
  | [] => Panic                                (* index out of range [0] with length 0 *)
  | _ => Ok ivs
  end.

Definition segment_plan := segment_plan_with get_segment_intervals.
Definition segment_plan_pinned := segment_plan_with get_segment_intervals_pinned.

(* the sample numbers a writer visits: `for sampleNr := startSampleNr; sampleNr <= endSampleNr; sampleNr++` *)
Definition range (iv : N * N) : list N :=
  map N.of_nat (seq (N.to_nat (fst iv)) (N.to_nat (snd iv + 1) - N.to_nat (fst iv))).
Definition seqN1 (n : N) : list N := map N.of_nat (seq 1 (N.to_nat n)).

(* GetFullSamplesForInterval at the level of an abstract per-track sample sequence: sample number k is
   element k-1 (None = the Go code would index outside the tables). *)
Definition samples_for_interval {A} (ss : list A) (iv : N * N) : list (option A) :=
  map (fun k => nth_error ss (N.to_nat k - 1)) (range iv).

(* expanded view of the tables, used to state well-formedness and the sync property *)
Fixpoint stts_total (e : stts_t) : N :=
  match e with [] => 0 | (c, _) :: t => c + stts_total t end.

Fixpoint sorted_from (lo : N) (l : list N) : bool :=
  match l with [] => true | x :: t => (lo <=? x) && sorted_from x t end.

(* what the tiling theorem needs of a file: every track's stts does not describe more samples than
   stsz counts, and the reference track's stss is sorted (non-decreasing is enough). *)
Definition wf_track (t : track) : bool :=
  (stts_total (t_stts t) <=? t_nsamples t) &&
  match t_stss t with None => true | Some l => sorted_from 0 l end.
Definition wf_tracks (ts : list track) : bool := forallb wf_track ts.

(* sample counts are uint32 *)
Definition small_tracks (ts : list track) : bool := forallb (fun t => t_nsamples t <? 4294967296) ts.

(* chosen sync samples of the reference track have non-zero duration (guard of C11_video_starts_sync) *)
Definition nonzero_dur_syncs (rt : track) (sps : list sync_point) : bool :=
  forallb (fun sp => match get_decode_time (t_stts rt) (sp_nr sp) with
                     | Ok (_, d) => negb (d =? 0)
                     | _ => false
                     end) (tl sps).

(* ================================================================== fragmented side *)
(* mp4.FullSample: what the property says must be conserved.  fs_data stands for Size + Data. *)
Record fsample := mkFS { fs_dts : N; fs_dur : N; fs_cto : Z; fs_flags : N; fs_data : list N }.

(* func (s *Sample) IsSync(): !SampleIsNonSync && SampleDependsOn == 2 *)
Definition is_sync (s : fsample) : bool :=
  negb (N.testbit (fs_flags s) 16) && ((fs_flags s / 16777216) mod 4 =? 2).

(* func (s *FullSample) PresentationTime(): clipped at 0 *)
Definition pres_time (s : fsample) : N :=
  let p := (Z.of_N (fs_dts s) + fs_cto s)%Z in if (p <? 0)%Z then 0 else Z.to_N p.

(* ------------------------------------------------------------------ examples/resegmenter Resegment *)
(* addSamplesToFrag(frag, samples, nextSampleNrToWrite, stopNr): samples[nr-1] for next <= nr < stop *)
Definition slice {A} (all : list A) (next stop : nat) : list A :=
  firstn (stop - next) (skipn (next - 1) all).

(* `for nr, s := range inSamples`: rest = inSamples[nr:], seq = currOutSeqNr, next = nextSampleNrToWrite.
   Returns the sample lists of the output segments in order. *)
Fixpoint reseg_loop (d : N) (all rest : list fsample) (nr : nat) (seq : N) (next : nat)
  : list (list fsample) :=
  match rest with
  | [] => [slice all next (length all + 1)]
  | s :: t =>
      if (u64 (d * seq) <=? pres_time s) && is_sync s
      then slice all next (nr + 1) :: reseg_loop d all t (S nr) (seq + 1) (nr + 1)
      else reseg_loop d all t (S nr) seq next
  end.

(* the tool: main.run rejects chunkDur = 0; Resegment indexes inSamples[0] *)
Definition resegment (d : N) (ss : list fsample) : res (list (list fsample)) :=
  if d =? 0 then Err
  else match ss with
       | [] => Panic
       | _ => Ok (reseg_loop d ss ss 0 1 1)
       end.

(* what the property asks of segment number k+1 (k = seq of the segment before it) *)
Fixpoint segs_start_ok (d k : N) (segs : list (list fsample)) : Prop :=
  match segs with
  | [] => True
  | seg :: t =>
      match seg with
      | [] => False
      | s :: _ => is_sync s = true /\ u64 (d * k) <= pres_time s
      end /\ segs_start_ok d (k + 1) t
  end.

(* ------------------------------------------------------------------ MediaSegment.Fragmentify *)
(* done = outFragments without the fragment `of` points to; cur = the samples of `of` (None = nil) *)
Definition close_frag (done : list (list fsample)) (cur : option (list fsample)) : list (list fsample) :=
  match cur with None => done | Some c => done ++ [c] end.

Fixpoint fragmentify_samples (duration : N) (ss : list fsample) (cum : N)
         (done : list (list fsample)) (cur : option (list fsample))
  : res (N * list (list fsample) * option (list fsample)) :=
  match ss with
  | [] => Ok (cum, done, cur)
  | s :: t =>
      let '(done1, cur1) := if cum =? 0 then (close_frag done cur, Some []) else (done, cur) in
      match cur1 with
      | None => Panic                          (* of.AddFullSampleToTrack on a nil *Fragment *)
      | Some c =>
          let cum1 := u32 (cum + fs_dur s) in  (* cumDur += s.Dur  (uint32) *)
          fragmentify_samples duration t (if duration <=? cum1 then 0 else cum1) done1 (Some (c ++ [s]))
      end
  end.

Fixpoint fragmentify_frags (duration : N) (frags : list (list fsample)) (cum : N)
         (done : list (list fsample)) (cur : option (list fsample)) : res (list (list fsample)) :=
  match frags with
  | [] => Ok (close_frag done cur)
  | f :: r =>
      do st <- fragmentify_samples duration f cum done cur;
      let '(cum1, done1, cur1) := st in
      fragmentify_frags duration r cum1 done1 cur1
  end.

Definition fragmentify (duration : N) (frags : list (list fsample)) : res (list (list fsample)) :=
  fragmentify_frags duration frags 0 [] None.

(* ------------------------------------------------------------------ combine-segs *)
(* an input fragment as decoded: tfhd defaults, truns with their flag bits and stored per-sample fields *)
Record trun_in := mkTrunIn {
  ti_has_dur : bool; ti_has_size : bool; ti_has_flags : bool; ti_has_first_flags : bool;
  ti_samples : list fsample                     (* fields as stored in the box; absent fields decode as 0 *)
}.
Record frag_in := mkFragIn {
  fi_def_dur : option N; fi_def_size : option N; fi_def_flags : option N;   (* tfhd *)
  fi_truns : list trun_in
}.
Record trex := mkTrex { tx_dur : N; tx_size : N; tx_flags : N }.

(* the size is carried by fs_data in fsample; for the default-value logic it is kept as a separate
   observable: (sample, size) *)
Definition pick (own : option N) (tx : option N) : N :=
  match own with Some v => v | None => match tx with Some v => v | None => 0 end end.

(* func (t *TrunBox) AddSampleDefaultValues(tfhd, trex): i = index in the trun *)
Fixpoint add_defaults (t : trun_in) (ddur dsize dflags : N) (i : nat) (ss : list (fsample * N))
  : list (fsample * N) :=
  match ss with
  | [] => []
  | (s, sz) :: r =>
      let dur := if ti_has_dur t then fs_dur s else ddur in
      let size := if ti_has_size t then sz else dsize in
      let flags := if ti_has_flags t then fs_flags s
                   else if (match i with O => false | _ => true end) || negb (ti_has_first_flags t)
                        then dflags else fs_flags s in
      (mkFS (fs_dts s) dur (fs_cto s) flags (fs_data s), size) :: add_defaults t ddur dsize dflags (S i) r
  end.

(* Fragment.GetFullSamples(trex) restricted to (dur, size, flags): trex = None is combine-segs' call *)
Definition read_trun (f : frag_in) (tx : option trex) (t : trun_in) (sizes : list N) : list (fsample * N) :=
  add_defaults t (pick (fi_def_dur f) (option_map tx_dur tx))
                 (pick (fi_def_size f) (option_map tx_size tx))
                 (pick (fi_def_flags f) (option_map tx_flags tx)) 0 (combine (ti_samples t) sizes).

Definition trun_indep_of_trex (f : frag_in) (t : trun_in) : bool :=
  (ti_has_dur t || match fi_def_dur f with Some _ => true | None => false end) &&
  (ti_has_size t || match fi_def_size f with Some _ => true | None => false end) &&
  (ti_has_flags t || match fi_def_flags f with Some _ => true | None => false end
   || (ti_has_first_flags t && (length (ti_samples t) <=? 1)%nat)).

(* the multi-track output fragment: trafs in moof order, each with its tfdt and its truns
   (writeOrderNr, samples) *)
Record traf_out := mkTraf { tf_id : N; tf_tfdt : N; tf_truns : list (N * list fsample) }.
Record frag_out := mkFragOut { fo_trafs : list traf_out; fo_next : N (* nextTrunNr *) }.

(* CreateMultiTrackFragment(seqNr, trackIDs) *)
Definition create_multi (ids : list N) : frag_out := mkFragOut (map (fun i => mkTraf i 0 []) ids) 0.

(* the body of AddSampleToTrack once the traf is chosen; returns the traf and the new nextTrunNr *)
Definition add_to_traf (tf : traf_out) (next : N) (s : fsample) : traf_out * N :=
  let '(truns1, next1) :=
    match tf_truns tf with
    | [] => ([(next, [])], next + 1)           (* create first trun *)
    | _ => (tf_truns tf, next)
    end in
  let tfdt1 :=                                 (* len(traf.Truns) == 1 && traf.Trun.SampleCount() == 0 *)
    match truns1 with
    | [(_, [])] => fs_dts s
    | _ => tf_tfdt tf
    end in
  match rev truns1 with
  | [] => (tf, next1)                          (* unreachable: truns1 is not empty *)
  | (w, l) :: before =>
      if w =? next1 - 1                        (* trun.writeOrderNr == f.nextTrunNr-1 (uint32, next1 >= 1) *)
      then (mkTraf (tf_id tf) tfdt1 (rev ((w, l ++ [s]) :: before)), next1)
      else (mkTraf (tf_id tf) tfdt1 (truns1 ++ [(next1, [s])]), next1 + 1)
  end.

(* `for _, tr := range f.Moof.Trafs { if tr.Tfhd.TrackID == trackID { traf = tr; break } }`: the first
   match; no match -> error (text after commit c6a2326; the pinned text left the LAST traf in the loop
   variable) *)
Fixpoint add_in_trafs (tfs : list traf_out) (id next : N) (s : fsample) : option (list traf_out * N) :=
  match tfs with
  | [] => None
  | tf :: r =>
      if tf_id tf =? id
      then let '(tf', n') := add_to_traf tf next s in Some (tf' :: r, n')
      else match add_in_trafs r id next s with
           | Some (r', n') => Some (tf :: r', n')
           | None => None
           end
  end.

Definition add_sample_to_track (fo : frag_out) (s : fsample) (id : N) : res frag_out :=
  match add_in_trafs (fo_trafs fo) id (fo_next fo) s with
  | None => Err
  | Some (tfs, n) => Ok (mkFragOut tfs n)
  end.

(* `for _, fs := range fss { _ = outFrag.AddFullSampleToTrack(fs, id) }`: errors are ignored *)
Definition add_all (fo : frag_out) (id : N) (ss : list fsample) : frag_out :=
  fold_left (fun st s => match add_sample_to_track st s id with Ok st' => st' | _ => st end) ss fo.

(* combineMediaSegments: tracks in order, ids = newTrackIDs *)
Definition combine_tracks (ids : list N) (inputs : list (list fsample)) : frag_out :=
  fold_left (fun st p => add_all st (fst p) (snd p)) (combine ids inputs) (create_multi ids).

(* decode times when reading back: tfdt, then accumulated durations (also across truns) *)
Fixpoint retime (base : N) (ss : list fsample) : list fsample :=
  match ss with
  | [] => []
  | s :: t => mkFS base (fs_dur s) (fs_cto s) (fs_flags s) (fs_data s) :: retime (base + fs_dur s) t
  end.

Fixpoint contiguous (base : N) (ss : list fsample) : bool :=
  match ss with
  | [] => true
  | s :: t => (fs_dts s =? base) && contiguous (base + fs_dur s) t
  end.
Definition contiguous_list (ss : list fsample) : bool :=
  match ss with [] => true | s :: _ => contiguous (fs_dts s) ss end.

(* GetFullSamples(trex) for a trex with TrackID id: the first traf with that id, truns in order *)
Fixpoint read_track (tfs : list traf_out) (id : N) : option (list fsample) :=
  match tfs with
  | [] => None
  | tf :: r => if tf_id tf =? id then Some (retime (tf_tfdt tf) (concat (map snd (tf_truns tf))))
               else read_track r id
  end.

(* the write-order layout of the truns (for the correspondence): (trackID, writeOrderNr, sample count) *)
Definition trun_layout (fo : frag_out) : list (N * N * N) :=
  concat (map (fun tf => map (fun tr => (tf_id tf, fst tr, lenN (snd tr))) (tf_truns tf)) (fo_trafs fo)).

(* what a reader of one written fragment / single-fragment segment sees: tfdt is the first sample's
   decode time, every later decode time is accumulated from the durations *)
Definition retime_seg (seg : list fsample) : list fsample :=
  match seg with [] => [] | s :: _ => retime (fs_dts s) seg end.

(* combine-segs end to end: one single-trun input fragment per track, read with trex = nil *)
Record mux_input := mkMuxIn { mi_frag : frag_in; mi_trun : trun_in; mi_sizes : list N; mi_trex : trex }.
Definition mux_read (tx : bool) (x : mux_input) : list fsample :=
  map fst (read_trun (mi_frag x) (if tx then Some (mi_trex x) else None) (mi_trun x) (mi_sizes x)).
Definition combine_inputs (ids : list N) (xs : list mux_input) : frag_out :=
  combine_tracks ids (map (mux_read false) xs).

(* Resegment's input collection: a fragmented file as fragments -> truns of the first traf -> samples.
   inSamples is GetFullSamples over ALL truns of every fragment; nrSamples (the count the code keeps for
   capacity bookkeeping and the nrChunksOut estimate) looks at the FIRST trun of each fragment only. *)
Definition in_samples (frags : list (list (list fsample))) : list fsample := concat (map (@concat _) frags).
Definition nr_samples_first_truns (frags : list (list (list fsample))) : N :=
  sumN (map (fun f => match f with [] => 0 | t :: _ => lenN t end) frags).
(* the final flush ends at len(inSamples)+1 (reseg_loop's [] case), NOT at nrSamples+1 *)
Definition resegment_file (d : N) (frags : list (list (list fsample))) : res (list (list fsample)) :=
  resegment d (in_samples frags).
