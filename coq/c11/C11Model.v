(* C11Model.v — executable Gallina models (definitions only) of
     examples/segmenter/segment.go   getSegmentStartsFromVideo, getSegmentIntervals (text AFTER the
                                     `fix:` commit: the last interval ends at totNrSamples),
                                     getSegmentIntervalsPinned = the text of the pinned tree
     examples/segmenter/segmenter.go SetTargetSegmentation + the `tr.segments[segNr-1]` access of the writers
     mp4/stts.go                     GetDecodeTime, GetSampleNrAtTime        (the two queries the segmenter uses)
     mp4/ctts.go                     GetCompositionTimeOffset                (linear scan instead of the binary search
                                                                             over the cumulated EndSampleNr table)
     examples/resegmenter/resegment.go Resegment (the split loop)
     mp4/mediasegment.go             MediaSegment.Fragmentify (the split loop)
     examples/combine-segs/main.go   combineMediaSegments + Fragment.AddSampleToTrack / trun defaults
   Integer widths: sample numbers and uint32 counters that can wrap on small inputs are written with
   explicit u32/u64; decode-time accumulators (uint64 sums of uint32*uint32 products) are left unbounded:
   the check records "total duration < 2^63" as an assumption. *)
From V.lib Require Import Base.

(* ------------------------------------------------------------------ sample tables of one trak *)
Definition stts_t := list (N * N).            (* (SampleCount[i], SampleTimeDelta[i]) *)
Definition ctts_t := list (N * Z).            (* (sample count, SampleOffset[i]) *)

Record track := mkTrack {
  t_video : bool;                             (* Mdia.Hdlr.HandlerType == "vide" *)
  t_timescale : N;                            (* Mdia.Mdhd.Timescale *)
  t_nsamples : N;                             (* Stsz.SampleNumber *)
  t_stts : stts_t;
  t_stss : option (list N);                   (* nil pointer when the box is absent *)
  t_ctts : option ctts_t
}.

(* func (b *SttsBox) GetDecodeTime(sampleNr uint32) (decTime uint64, dur uint32) *)
Fixpoint gdt_loop (e : stts_t) (rem dec : N) : res (N * N) :=
  match e with
  | [] => Panic                                (* b.SampleTimeDelta[i]: index out of range *)
  | (c, d) :: t =>
      if c <=? rem then gdt_loop t (rem - c) (dec + c * d)
      else Ok (dec + rem * d, d)
  end.
Definition get_decode_time (e : stts_t) (nr : N) : res (N * N) :=
  if nr =? 0 then Panic else gdt_loop e (nr - 1) 0.

(* nrInInterval := relTime / timeDelta; if relTime%timeDelta != 0 { nrInInterval++ } *)
Definition ceil_div (rel d : N) : N := if rel mod d =? 0 then rel / d else rel / d + 1.

(* func (b *SttsBox) GetSampleNrAtTime(sampleStartTime uint64) (sampleNr uint32, err error)
   lc/ld = count and delta of the entry before the current position (the last entry when e = []). *)
Fixpoint snat_loop (e : stts_t) (t accT accNr lc ld : N) : res N :=
  match e with
  | [] => if (ld =? 0) && (lc =? 1) && (t =? accT) then Ok accNr else Err
  | (c, d) :: rest =>
      if t <? accT + c * d then
        Ok (accNr + ceil_div (t - accT) d + 1)
      else snat_loop rest t (accT + d * c) (accNr + c) c d
  end.
Definition get_sample_nr_at_time (e : stts_t) (t : N) : res N :=
  match e with
  | [] => Panic                                (* b.SampleTimeDelta[nrEntries-1] with nrEntries = 0 *)
  | _ => snat_loop e t 0 0 0 1
  end.

(* func (b *CttsBox) GetCompositionTimeOffset(sampleNr uint32) int32 : entry containing sampleNr *)
Fixpoint cto_loop (e : ctts_t) (nr acc : N) : res Z :=
  match e with
  | [] => Panic                                (* b.SampleOffset[i-1] out of range *)
  | (c, o) :: t => if nr <=? acc + c then Ok o else cto_loop t nr (acc + c)
  end.
Definition get_cto (e : ctts_t) (nr : N) : res Z :=
  if nr =? 0 then Panic else cto_loop e nr 0.

(* ------------------------------------------------------------------ getSegmentStartsFromVideo *)
Record sync_point := mkSP { sp_nr : N; sp_dts : N; sp_pts : N }.

(* the loop `for _, sampleNr := range stss.SampleNumber`; next = nextSegmentStart (uint32) *)
Fixpoint starts_loop (st : stts_t) (ct : option ctts_t) (step next : N) (stss : list N)
  : res (list sync_point) :=
  match stss with
  | [] => Ok []
  | nr :: t =>
      do dd <- get_decode_time st nr;
      let dt := fst dd in
      do pres <- (match ct with
                  | None => Ok (Z.of_N dt)
                  | Some c => do o <- get_cto c nr; Ok (Z.of_N dt + o)%Z
                  end);
      if (Z.of_N next <=? pres)%Z then
        do r <- starts_loop st ct step (u32 (next + step)) t;
        Ok (mkSP nr dt (Z.to_N pres) :: r)
      else starts_loop st ct step next t
  end.

Fixpoint first_video (ts : list track) : option track :=
  match ts with
  | [] => None
  | t :: r => if t_video t then Some t else first_video r
  end.

(* returns (timeScale, syncPoints) *)
Definition get_segment_starts (ts : list track) (segDurMS : N) : res (N * list sync_point) :=
  match first_video ts with
  | None => Panic                              (* panic("Cannot handle case with no video track yet") *)
  | Some rt =>
      match t_stss rt with
      | None => Panic                          (* stss.EntryCount() on a nil *StssBox *)
      | Some stss =>
          let step := u32 (u32 segDurMS * t_timescale rt / 1000) in
          do sps <- starts_loop (t_stts rt) (t_ctts rt) step 0 stss;
          Ok (t_timescale rt, sps)
      end
  end.

(* ------------------------------------------------------------------ getSegmentIntervals *)
(* intervals are (startNr, endNr), endNr included.  `last_end` is what the final interval ends at:
   totNrSamples after the fix, uint32(totNrSamples - 1) in the pinned tree. *)
Fixpoint intervals_loop (syncTs : N) (trk : track) (last_end : N) (sps : list sync_point)
         (start nextStart : N) : res (list (N * N)) :=
  match sps with
  | [] => Ok []
  | _ :: rest =>
      let start' := if nextStart =? 0 then start else nextStart in
      match rest with
      | [] => Ok [(start', last_end)]
      | sp2 :: _ =>
          if syncTs =? 0 then Panic            (* integer divide by zero *)
          else
            let nextStartTime := sp_dts sp2 * t_timescale trk / syncTs in
            do n <- get_sample_nr_at_time (t_stts trk) nextStartTime;
            do r <- intervals_loop syncTs trk last_end rest start' n;
            Ok ((start', u32 (n + 4294967295)) :: r)      (* endSampleNr = nextStartSampleNr - 1 *)
      end
  end.

Definition get_segment_intervals (syncTs : N) (sps : list sync_point) (trk : track) : res (list (N * N)) :=
  intervals_loop syncTs trk (t_nsamples trk) sps 1 0.

Definition get_segment_intervals_pinned (syncTs : N) (sps : list sync_point) (trk : track) : res (list (N * N)) :=
  intervals_loop syncTs trk (u32 (t_nsamples trk + 4294967295)) sps 1 0.

(* SetTargetSegmentation: intervals of every track, first error wins *)
Fixpoint all_intervals (f : N -> list sync_point -> track -> res (list (N * N)))
         (syncTs : N) (sps : list sync_point) (ts : list track) : res (list (list (N * N))) :=
  match ts with
  | [] => Ok []
  | t :: r =>
      do iv <- f syncTs sps t;
      do rest <- all_intervals f syncTs sps r;
      Ok (iv :: rest)
  end.

(* main.run up to the writers: the plan of what every track writes into every segment.  The writers
   start with `tr.segments[segNr-1]` for segNr = 1, which panics when no segment start was found. *)
Definition segment_plan_with (f : N -> list sync_point -> track -> res (list (N * N)))
           (ts : list track) (segDurMS : N) : res (list (list (N * N))) :=
  do ss <- get_segment_starts ts segDurMS;
  let '(syncTs, sps) := ss in
  do ivs <- all_intervals f syncTs sps ts;
  match sps with
  | [] => Panic                                (* index out of range [0] with length 0 *)
  | _ => Ok ivs
  end.

Definition segment_plan := segment_plan_with get_segment_intervals.
Definition segment_plan_pinned := segment_plan_with get_segment_intervals_pinned.

(* the sample numbers a writer visits: `for sampleNr := startSampleNr; sampleNr <= endSampleNr; sampleNr++` *)
Definition range (iv : N * N) : list N :=
  map N.of_nat (seq (N.to_nat (fst iv)) (N.to_nat (snd iv + 1) - N.to_nat (fst iv))).
Definition seqN1 (n : N) : list N := map N.of_nat (seq 1 (N.to_nat n)).

(* GetFullSamplesForInterval at the level of an abstract per-track sample sequence: sample number k is
   element k-1 (None = the Go code would index outside the tables). *)
Definition samples_for_interval {A} (ss : list A) (iv : N * N) : list (option A) :=
  map (fun k => nth_error ss (N.to_nat k - 1)) (range iv).

(* expanded view of the tables, used to state well-formedness and the sync property *)
Fixpoint stts_total (e : stts_t) : N :=
  match e with [] => 0 | (c, _) :: t => c + stts_total t end.

Fixpoint sorted_from (lo : N) (l : list N) : bool :=
  match l with [] => true | x :: t => (lo <=? x) && sorted_from x t end.

(* what the tiling theorem needs of a file: every track's stts does not describe more samples than
   stsz counts, and the reference track's stss is sorted (non-decreasing is enough). *)
Definition wf_track (t : track) : bool :=
  (stts_total (t_stts t) <=? t_nsamples t) &&
  match t_stss t with None => true | Some l => sorted_from 0 l end.
Definition wf_tracks (ts : list track) : bool := forallb wf_track ts.

(* sample counts are uint32 *)
Definition small_tracks (ts : list track) : bool := forallb (fun t => t_nsamples t <? 4294967296) ts.
