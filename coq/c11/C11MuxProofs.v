(* C11MuxProofs.v — makeMultiTrackSegments end to end: every segment is one multi-track fragment
   (CreateMultiTrackFragment, then per track in order AddFullSampleToTrack of the track's interval); reading any
   track back from the written segments gives that track's expansion (C05_roundtrip, multi-track form). *)
From V.lib Require Import Base.
From V.c11 Require Import C11Model C11SegProofs.
From V.c09 Require Import C09Model C09Spec C09BaseProofs C09SttsProofs.
From V.c05 Require Import C05Model C05FragModel C05HistProofs C05GhostProofs C05ReadProofs C05RoundProofs C05Theorems.
From V.c11 Require Import C11FetchModel C11Spec C11FetchProofs C11PipeProofs.

Definition st_tb (t : strack) : tables := fst (fst t).
Definition st_id (t : strack) : N := snd (fst t).
Definition st_ivs (t : strack) : list (N * N) := snd t.

Definition ops_of (g : list (N * list fullsample)) : list op := flat_map (fun p => map (op_of (fst p)) (snd p)) g.
Definition pick_track (T : N) (g : list (N * list fullsample)) : list fullsample :=
  flat_map (fun p => if fst p =? T then snd p else []) g.

(* ------------------------------------------------------------------ histories *)
Lemma run_ops_app : forall o1 fr cs1 fr1 o2, run_ops fr o1 = (cs1, Some fr1) ->
  exists cs2, run_ops fr (o1 ++ o2) = (cs1 ++ cs2, snd (run_ops fr1 o2)) /\ cs2 = fst (run_ops fr1 o2).
Proof.
  induction o1 as [|o o1 IH]; intros fr cs1 fr1 o2 H; cbn [run_ops app] in *.
  - injection H as <- <-. eexists. split; [|reflexivity]. cbn [app]. destruct (run_ops fr o2). reflexivity.
  - destruct (step fr o) as [fr'| | |] eqn:E.
    + destruct (run_ops fr' o1) as [cs r] eqn:E1. injection H as <- ->.
      destruct (IH fr' cs fr1 o2 E1) as [cs2 [H2 Hc]]. rewrite H2. eexists. split; [reflexivity|exact Hc].
    + destruct (run_ops fr o1) as [cs r] eqn:E1. injection H as <- ->.
      destruct (IH fr cs fr1 o2 E1) as [cs2 [H2 Hc]]. rewrite H2. eexists. split; [reflexivity|exact Hc].
    + discriminate.
    + discriminate.
Qed.

Lemma mux_add_run : forall g fr fr', mux_add fr g = Ok fr' -> exists cs, run_ops fr (ops_of g) = (cs, Some fr').
Proof.
  induction g as [|[T l] g IH]; intros fr fr' H; cbn [mux_add] in H.
  - injection H as <-. exists []. reflexivity.
  - destruct (add_fulls fr T l) as [fr1| | |] eqn:E; cbn [rbind] in H; try discriminate.
    apply add_fulls_run in E. destruct (IH fr1 fr' H) as [cs2 H2].
    unfold ops_of. cbn [flat_map fst snd]. fold (ops_of g).
    destruct (run_ops_app _ _ _ _ (ops_of g) E) as [cs' [H3 _]]. rewrite H3, H2. eexists. reflexivity.
Qed.

Lemma added_fulls_app tracks T o1 o2 : added_fulls tracks T (o1 ++ o2) = added_fulls tracks T o1 ++ added_fulls tracks T o2.
Proof. unfold added_fulls. apply flat_map_app. Qed.

Lemma added_fulls_run tracks T T' l : existsb (N.eqb T') tracks = true ->
  added_fulls tracks T (map (op_of T') l) = if T' =? T then l else [].
Proof.
  intros Hin. unfold added_fulls. induction l as [|s l IH]; [destruct (T' =? T); reflexivity|].
  cbn [map flat_map]. unfold op_of at 1. cbn [op_track]. rewrite Hin, andb_true_r, IH.
  destruct (T' =? T); [|reflexivity]. cbn [app]. f_equal. destruct s as [s t d]. reflexivity.
Qed.

Lemma added_fulls_ops tracks T : forall g, (forall p, In p g -> In (fst p) tracks) ->
  added_fulls tracks T (ops_of g) = pick_track T g.
Proof.
  induction g as [|[T' l] g IH]; intros Hin; [reflexivity|].
  unfold ops_of, pick_track. cbn [flat_map fst snd]. fold (ops_of g). fold (pick_track T g).
  rewrite added_fulls_app, added_fulls_run, IH; [reflexivity| |].
  - intros p Hp. apply Hin. right. exact Hp.
  - apply existsb_eqb_in. apply (Hin (T', l)). left. reflexivity.
Qed.

Lemma pick_track_unique T l : forall g, NoDup (map fst g) -> In (T, l) g -> pick_track T g = l.
Proof.
  induction g as [|[T' l'] g IH]; intros Hnd Hin; [contradiction|].
  unfold pick_track. cbn [flat_map fst snd map] in *. fold (pick_track T g).
  inversion Hnd as [|? ? Hni Hnd']; subst. destruct Hin as [E|Hin].
  - injection E as -> ->. rewrite N.eqb_refl.
    assert (pick_track T g = []) as ->; [|apply app_nil_r].
    clear - Hni. unfold pick_track. induction g as [|[T2 l2] g IH]; [reflexivity|]. cbn [flat_map fst snd map In] in *.
    destruct (T2 =? T) eqn:E; [apply N.eqb_eq in E; tauto|]. cbn [app]. apply IH. tauto.
  - destruct (T' =? T) eqn:E.
    + apply N.eqb_eq in E. subst T'. exfalso. apply Hni. apply (in_map fst) in Hin. exact Hin.
    + cbn [app]. apply IH; assumption.
Qed.

Lemma pick_track_absent T : forall g, ~ In T (map fst g) -> pick_track T g = [].
Proof.
  induction g as [|[T2 l2] g IH]; intros Hni; [reflexivity|]. unfold pick_track. cbn [flat_map fst snd map In] in *.
  fold (pick_track T g). destruct (T2 =? T) eqn:E; [apply N.eqb_eq in E; tauto|]. cbn [app]. apply IH. tauto.
Qed.

Lemma set_extras_nil ts : set_extras ts [] = ts.
Proof. destruct ts; reflexivity. Qed.

(* ------------------------------------------------------------------ one multi-track segment *)
Lemma write_read_mux opt ids g fe pos0 (tx : C05Model.trex) :
  NoDup ids -> map fst g = ids ->
  N.of_nat (length (ops_of g)) < 4294967296 ->
  Forall (fun p => Forall sized_f (snd p)) g ->
  C05RoundProofs.consistent (pick_track (tx_track tx) g) ->
  write_mux_segment opt ids g = Ok fe -> seg_guard pos0 fe = true ->
  read_back tx pos0 [] fe = Ok (pick_track (tx_track tx) g).
Proof.
  intros Hnd Hids Hlen Hsz Hc Hw Hg. unfold write_mux_segment in Hw.
  destruct (mux_add (create_multi ids) g) as [fr| | |] eqn:Ea; cbn [rbind] in Hw; try discriminate.
  destruct (mux_add_run _ _ _ Ea) as [cs Hrun]. unfold seg_guard in Hg. apply andb_prop in Hg. destruct Hg as [Hg1 Hg2].
  pose proof (encode_frag_data opt fr fe Hw) as Hdat.
  assert (Hin : forall p, In p g -> In (fst p) ids) by (intros p Hp; rewrite <- Hids; apply in_map; exact Hp).
  unfold read_back.
  rewrite (C05_roundtrip ids 0 0 0 [] (ops_of g) cs fr opt fe pos0 tx); try assumption.
  - rewrite added_fulls_ops by exact Hin. reflexivity.
  - clear. unfold ops_of. induction g as [|[T l] g IH]; [reflexivity|]. cbn [flat_map fst snd].
    rewrite forallb_app, IH, andb_true_r. clear. induction l as [|s l IH]; [reflexivity|exact IH].
  - clear - Hsz. unfold ops_of. induction Hsz as [|[T l] g Hl _ IH]; [constructor|]. cbn [flat_map fst snd] in *.
    apply Forall_app. split; [|exact IH]. clear - Hl. induction Hl as [|s l Hs _ IH]; [constructor|].
    cbn [map]. constructor; [destruct s as [s t d]; exact Hs|exact IH].
  - unfold with_extras. cbn [create_multi fr_trafs fr_mdat fr_next]. rewrite set_extras_nil. exact Hrun.
  - rewrite <- Hdat. lia.
  - lia.
  - rewrite added_fulls_ops by exact Hin. exact Hc.
Qed.

(* ------------------------------------------------------------------ gathering the tracks' intervals *)
Definition track_ok (f : pfile) (t : strack) : Prop :=
  C09Spec.consistent (st_tb t) = true /\ data_ok f (st_tb t) = true /\
  forall iv x, In iv (st_ivs t) -> In x (C11Model.range iv) -> 1 <= x <= nsamples (st_tb t).

Lemma fetch_or_skip_ok f tb iv l : C09Spec.consistent tb = true -> data_ok f tb = true ->
  (forall x, In x (C11Model.range iv) -> 1 <= x <= nsamples tb) ->
  fetch_or_skip f tb iv = Ok l ->
  map Some l = map (S_full f tb) (C11Model.range iv) /\ Forall sized_f l /\ C05RoundProofs.consistent l /\
  lenN l <= nsamples tb.
Proof.
  intros H Hd Hin Hf. destruct iv as [a b]. unfold fetch_or_skip, fetch_interval in Hf. cbn [fst snd] in Hf.
  rewrite range_seqN in *. destruct (b + 1 <? a) eqn:E1; [discriminate|].
  destruct (N.eq_dec a (b + 1)) as [Eab|Nab].
  - replace (N.to_nat (b + 1 - a)) with O in Hf by lia. cbn [fetch_loop] in Hf. injection Hf as <-.
    replace (N.to_nat (b + 1) - N.to_nat a)%nat with O by lia. cbn. repeat split; try constructor. lia.
  - assert (Ha : 1 <= a <= nsamples tb) by (apply Hin, in_seqN; lia).
    assert (Hb : 1 <= b <= nsamples tb) by (apply Hin, in_seqN; lia).
    destruct (fetch_loop_ok f tb H Hd (N.to_nat (b + 1 - a)) a ltac:(lia) ltac:(lia)) as [l0 [Hl Hm]].
    rewrite Hl in Hf. injection Hf as <-.
    replace (N.to_nat (b + 1) - N.to_nat a)%nat with (N.to_nat (b + 1 - a)) by lia.
    split; [exact Hm|]. split; [apply (expansion_sized f tb H Hd (N.to_nat (b + 1 - a)) a); [lia|lia|exact Hm]|].
    split; [apply (expansion_consistent f tb H (N.to_nat (b + 1 - a)) a); [lia|exact Hm]|].
    pose proof (map_Some_length _ _ Hm) as Hlen. rewrite map_length, seqN_length in Hlen. unfold lenN. lia.
Qed.

Lemma mux_gather_spec f k : forall trs g, Forall (track_ok f) trs -> mux_gather f trs k = Ok g ->
  Forall2 (fun t p => fst p = st_id t /\
                      exists iv, nth_error (st_ivs t) k = Some iv /\
                                 map Some (snd p) = map (S_full f (st_tb t)) (C11Model.range iv) /\
                                 Forall sized_f (snd p) /\ C05RoundProofs.consistent (snd p) /\
                                 lenN (snd p) <= nsamples (st_tb t)) trs g.
Proof.
  induction trs as [|[[tb T] ivs] trs IH]; intros g Hok Hg; cbn [mux_gather] in Hg.
  - injection Hg as <-. constructor.
  - inversion Hok as [|? ? [H [Hd Hin]] Hok']; subst. unfold st_tb, st_id, st_ivs in *. cbn [fst snd] in *.
    destruct (nth_error ivs k) as [iv|] eqn:En; [|discriminate].
    destruct (fetch_or_skip f tb iv) as [l| | |] eqn:Ef; cbn [rbind] in Hg; try discriminate.
    destruct (mux_gather f trs k) as [rest| | |] eqn:Er; cbn [rbind] in Hg; try discriminate.
    injection Hg as <-. constructor; [|apply IH; [exact Hok'|reflexivity]].
    cbn [fst snd]. split; [reflexivity|]. exists iv. split; [exact En|].
    apply (fetch_or_skip_ok f tb iv l H Hd); [|exact Ef].
    intros x Hx. apply (Hin iv); [apply (nth_error_In _ _ En)|exact Hx].
Qed.

(* ------------------------------------------------------------------ the segment loop *)
Lemma Forall2_in_l {A B} (P : A -> B -> Prop) x : forall l l2, In x l -> Forall2 P l l2 -> exists y, In y l2 /\ P x y.
Proof.
  induction l as [|a l IH]; intros l2 Hin H; [contradiction|]. inversion H as [|? y ? l2' Hp Hr]; subst.
  destruct Hin as [->|Hin]; [exists y; split; [left; reflexivity|exact Hp]|].
  destruct (IH l2' Hin Hr) as [y' [Hy Hp']]. exists y'. split; [right; exact Hy|exact Hp'].
Qed.

Definition total_samples (trs : list strack) : N := sumN (map (fun t => nsamples (st_tb t)) trs).

Lemma gather_facts f k trs g :
  Forall2 (fun t p => fst p = st_id t /\
                      exists iv, nth_error (st_ivs t) k = Some iv /\
                                 map Some (snd p) = map (S_full f (st_tb t)) (C11Model.range iv) /\
                                 Forall sized_f (snd p) /\ C05RoundProofs.consistent (snd p) /\
                                 lenN (snd p) <= nsamples (st_tb t)) trs g ->
  map fst g = map st_id trs /\ Forall (fun p => Forall sized_f (snd p)) g /\
  N.of_nat (length (ops_of g)) <= total_samples trs.
Proof.
  induction 1 as [|t p trs g [Hid [iv [_ [_ [Hsz [_ Hlen]]]]]] _ IH]; [repeat split; [constructor|cbn; lia]|].
  destruct IH as [IH1 [IH2 IH3]]. split; [cbn [map]; rewrite Hid, IH1; reflexivity|]. split; [constructor; assumption|].
  unfold ops_of, total_samples in *. cbn [flat_map map sumN]. rewrite app_length, map_length. unfold lenN in Hlen. lia.
Qed.

Definition ivs_at (t : strack) (ks : list nat) : list N :=
  flat_map (fun k => match nth_error (st_ivs t) k with Some iv => C11Model.range iv | None => [] end) ks.

Lemma mux_loop_read opt f pos0 trs :
  NoDup (map st_id trs) -> Forall (track_ok f) trs -> total_samples trs < 4294967296 ->
  forall t (tx : C05Model.trex), In t trs -> tx_track tx = st_id t ->
  forall ks fes, mux_loop opt f (map st_id trs) trs ks = Ok fes ->
  Forall (fun fe => seg_guard pos0 fe = true) fes ->
  exists outs, read_all (read_back tx pos0 []) fes = Ok outs /\
               map Some (concat outs) = map (S_full f (st_tb t)) (ivs_at t ks).
Proof.
  intros Hnd Hok Htot t tx Hin Htx. induction ks as [|k ks IH]; intros fes Hl Hg; cbn [mux_loop] in Hl.
  - injection Hl as <-. exists []. split; reflexivity.
  - destruct (mux_gather f trs k) as [g| | |] eqn:Eg; cbn [rbind] in Hl; try discriminate.
    destruct (write_mux_segment opt (map st_id trs) g) as [fe| | |] eqn:Ew; cbn [rbind] in Hl; try discriminate.
    destruct (mux_loop opt f (map st_id trs) trs ks) as [rest| | |] eqn:Er; cbn [rbind] in Hl; try discriminate.
    injection Hl as <-.
    pose proof (Forall_inv Hg) as Hg1. pose proof (Forall_inv_tail Hg) as Hg2. cbv beta in Hg1.
    destruct (IH rest eq_refl Hg2) as [outs [Hr Hc]].
    pose proof (mux_gather_spec f k trs g Hok Eg) as Hspec.
    destruct (gather_facts f k trs g Hspec) as [Hids [Hsz Hlen]].
    destruct (Forall2_in_l _ t trs g Hin Hspec) as [p [Hp [Hpid [iv [Hiv [Hm [_ [Hcons _]]]]]]]].
    assert (Hpick : pick_track (tx_track tx) g = snd p).
    { apply pick_track_unique; [rewrite Hids; exact Hnd|]. rewrite Htx, <- Hpid. destruct p; exact Hp. }
    assert (Hrb : read_back tx pos0 [] fe = Ok (snd p)).
    { rewrite (write_read_mux opt (map st_id trs) g fe pos0 tx); try assumption.
      - rewrite Hpick. reflexivity.
      - lia.
      - rewrite Hpick. exact Hcons. }
    exists (snd p :: outs). split; [apply read_all_app; assumption|].
    cbn [concat]. unfold ivs_at. cbn [flat_map]. fold (ivs_at t ks). rewrite Hiv, !map_app, Hm, Hc. reflexivity.
Qed.

Lemma ivs_at_all t : ivs_at t (seq 0 (length (st_ivs t))) = concat (map C11Model.range (st_ivs t)).
Proof.
  unfold ivs_at. generalize (st_ivs t) as l. clear.
  assert (G : forall (l : list (N * N)) pre,
            flat_map (fun k => match nth_error (pre ++ l) k with Some iv => C11Model.range iv | None => [] end)
                     (seq (length pre) (length l)) = concat (map C11Model.range l)).
  { induction l as [|iv l IH]; intros pre; [reflexivity|]. cbn [length seq flat_map map concat].
    rewrite nth_error_app2 by lia. rewrite Nat.sub_diag. cbn [nth_error]. f_equal.
    specialize (IH (pre ++ [iv])). rewrite <- app_assoc in IH. cbn [app] in IH.
    rewrite app_length in IH. cbn [length] in IH. replace (length pre + 1)%nat with (S (length pre)) in IH by lia.
    exact IH. }
  intros l. apply (G l []).
Qed.

(* every track of a multiplexed output reads back as its expansion *)
Lemma mux_end_to_end_all opt f pos0 trs nsegs fes :
  NoDup (map st_id trs) -> total_samples trs < 4294967296 -> (1 <= nsegs)%nat ->
  Forall (fun t => C09Spec.consistent (st_tb t) = true /\ data_ok f (st_tb t) = true /\
                   length (st_ivs t) = nsegs /\
                   concat (map C11Model.range (st_ivs t)) = seqN1 (nsamples (st_tb t))) trs ->
  mux_segments opt f trs nsegs = Ok fes ->
  Forall (fun fe => seg_guard pos0 fe = true) fes ->
  Forall (fun t => forall tx : C05Model.trex, tx_track tx = st_id t ->
            exists outs, read_all (read_back tx pos0 []) fes = Ok outs /\
                         map Some (concat outs) = expansion f (st_tb t)) trs.
Proof.
  intros Hnd Htot Hn Hall Hs Hg. unfold mux_segments in Hs. replace (Nat.max 1 nsegs) with nsegs in Hs by lia.
  assert (Hok : Forall (track_ok f) trs).
  { rewrite Forall_forall in *. intros t Ht. destruct (Hall t Ht) as [H [Hd [_ Htile]]]. split; [exact H|]. split; [exact Hd|].
    intros iv x Hiv Hx.
    assert (Hi : In x (concat (map C11Model.range (st_ivs t)))).
    { apply in_concat. exists (C11Model.range iv). split; [apply in_map; exact Hiv|exact Hx]. }
    rewrite Htile, seqN1_seqN in Hi. apply in_seqN in Hi. lia. }
  rewrite Forall_forall. intros t Ht tx Htx.
  change (map (fun t0 : strack => snd (fst t0)) trs) with (map st_id trs) in Hs.
  destruct (mux_loop_read opt f pos0 trs Hnd Hok Htot t tx Ht Htx _ fes Hs Hg) as [outs [Hr Hc]].
  exists outs. split; [exact Hr|]. rewrite Forall_forall in Hall. destruct (Hall t Ht) as [_ [_ [Hlen Htile]]].
  rewrite <- Hlen, ivs_at_all, Htile, seqN1_seqN in Hc. rewrite Hc. unfold expansion, S_interval.
  replace (nsamples (st_tb t) + 1 - 1) with (nsamples (st_tb t)) by lia. reflexivity.
Qed.

(* ------------------------------------------------------------------ the plan gives every track the same number of intervals *)
Lemma intervals_loop_length syncTs trk last_end : forall sps start next ivs,
  intervals_loop syncTs trk last_end sps start next = Ok ivs -> length ivs = length sps.
Proof.
  induction sps as [|sp sps IH]; intros start next ivs H; cbn [intervals_loop] in H.
  - injection H as <-. reflexivity.
  - destruct sps as [|sp2 rest].
    + injection H as <-. reflexivity.
    + destruct (syncTs =? 0); [discriminate|].
      apply rbind_ok in H. destruct H as (n & _ & H). apply rbind_ok in H. destruct H as (r & Hr & H).
      injection H as <-. cbn [length]. f_equal. apply (IH _ _ _ Hr).
Qed.

Lemma all_intervals_length syncTs sps : forall ts ivss,
  all_intervals get_segment_intervals syncTs sps ts = Ok ivss -> Forall (fun ivs => length ivs = length sps) ivss.
Proof.
  induction ts as [|t r IH]; intros ivss H; cbn [all_intervals] in H.
  - injection H as <-. constructor.
  - apply rbind_ok in H. destruct H as (iv & Hiv & H). apply rbind_ok in H. destruct H as (rest & Hrest & H).
    injection H as <-. constructor; [|apply IH; exact Hrest].
    unfold get_segment_intervals in Hiv. apply (intervals_loop_length _ _ _ _ _ _ _ Hiv).
Qed.

Lemma plan_shape ts d ivss : segment_plan ts d = Ok ivss ->
  exists nsegs, (1 <= nsegs)%nat /\ Forall (fun ivs => length ivs = nsegs) ivss.
Proof.
  intros H. unfold segment_plan, segment_plan_with in H.
  apply rbind_ok in H. destruct H as ([syncTs sps] & Hs & H).
  apply rbind_ok in H. destruct H as (ivs & Hiv & H).
  destruct sps as [|sp sps']; [discriminate|]. injection H as <-.
  exists (length (sp :: sps')). split; [cbn [length]; lia|]. apply (all_intervals_length _ _ _ _ Hiv).
Qed.

(* ------------------------------------------------------------------ no silent drop (text after fix 8eb6c19) *)
Lemma fetch_loop_length f tb : forall k nr l, fetch_loop f tb k nr = Ok l -> length l = k.
Proof.
  induction k as [|k IH]; intros nr l H; cbn [fetch_loop] in H.
  - injection H as <-. reflexivity.
  - apply rbind_ok in H. destruct H as (s & _ & H). apply rbind_ok in H. destruct H as (r & Hr & H).
    injection H as <-. cbn [length]. f_equal. apply (IH _ _ Hr).
Qed.

Definition fetched (f : pfile) (tb : tables) (iv : N * N) : Prop :=
  exists l, fetch_interval f tb (fst iv) (snd iv) = Ok l /\ lenN l = snd iv + 1 - fst iv.

Lemma fetch_or_skip_fetched f tb iv l : fetch_or_skip f tb iv = Ok l -> fetched f tb iv.
Proof.
  intros H. exists l. split; [exact H|]. unfold fetch_or_skip, fetch_interval in H.
  destruct (snd iv + 1 <? fst iv); [discriminate|]. apply fetch_loop_length in H. unfold lenN. lia.
Qed.

Lemma seg_track_fetched opt f tb T : forall ivs fes, seg_track opt f tb T ivs = Ok fes -> Forall (fetched f tb) ivs.
Proof.
  induction ivs as [|iv ivs IH]; intros fes H; [constructor|]. cbn [seg_track] in H.
  apply rbind_ok in H. destruct H as (l & Hl & H). constructor; [apply (fetch_or_skip_fetched _ _ _ _ Hl)|].
  destruct l as [|x l'].
  - apply (IH _ H).
  - apply rbind_ok in H. destruct H as (fe & _ & H). apply rbind_ok in H. destruct H as (r & Hr & _). apply (IH _ Hr).
Qed.

Lemma mux_gather_fetched f k : forall trs g, mux_gather f trs k = Ok g ->
  Forall (fun t => exists iv, nth_error (st_ivs t) k = Some iv /\ fetched f (st_tb t) iv) trs.
Proof.
  induction trs as [|[[tb T] ivs] trs IH]; intros g H; [constructor|]. cbn [mux_gather] in H.
  destruct (nth_error ivs k) as [iv|] eqn:En; [|discriminate].
  apply rbind_ok in H. destruct H as (l & Hl & H). apply rbind_ok in H. destruct H as (r & Hr & _).
  constructor; [|apply (IH _ Hr)]. exists iv. split; [exact En|apply (fetch_or_skip_fetched _ _ _ _ Hl)].
Qed.

Lemma mux_loop_fetched opt f ids trs : forall ks fes, mux_loop opt f ids trs ks = Ok fes ->
  forall k, In k ks -> Forall (fun t => exists iv, nth_error (st_ivs t) k = Some iv /\ fetched f (st_tb t) iv) trs.
Proof.
  induction ks as [|k0 ks IH]; intros fes H k Hk; [contradiction|]. cbn [mux_loop] in H.
  apply rbind_ok in H. destruct H as (g & Hg & H).
  apply rbind_ok in H. destruct H as (fe & _ & H). apply rbind_ok in H. destruct H as (rest & Hr & _).
  destruct Hk as [<-|Hk]; [apply (mux_gather_fetched _ _ _ _ Hg)|apply (IH _ Hr _ Hk)].
Qed.

Lemma mux_segments_fetched opt f trs nsegs fes : mux_segments opt f trs nsegs = Ok fes ->
  forall k, (k < nsegs)%nat ->
  Forall (fun t => exists iv, nth_error (st_ivs t) k = Some iv /\ fetched f (st_tb t) iv) trs.
Proof.
  intros H k Hk. apply (mux_loop_fetched _ _ _ _ _ _ H). apply in_seq. lia.
Qed.
