(* C15TieHevcProofs.v — hevc.ParsePPSNALUnit (and the pieces shared with the SPS and slice parsers):
   the parser models of C15HevcModel instantiated with the C13 machine model of bits.EBSPReader and
   with the ideal bit-list reader return the same result on every escaped byte string whose bits hold
   no run of more than 56 zero bits.  No axioms. *)
From V.lib Require Import Base.
From V.c13 Require Import C13Spec C13Model C13ReaderProofs.
From V.c15 Require Import C15Model C15HevcModel C15TieBaseProofs C15TieRelProofs C15TieAvcProofs.

Ltac split_orb :=
  repeat match goal with
         | H : (_ || _) = false |- _ => apply orb_false_iff in H; destruct H
         end.

(* what the slice parser needs of the SPS it is given: log2_max_pic_order_cnt_lsb (minus 4 <= 12 in the
   standard) fits the accumulator *)
Definition hsps_narrow (s : hsps) : bool := h_log2_poc s <=? 52.
Lemma hsps_narrow_w (spsmap : N -> option hsps) id s :
  (forall id s, spsmap id = Some s -> hsps_narrow s = true) -> spsmap id = Some s -> h_log2_poc s <= 52.
Proof. intros H E. specialize (H _ _ E). unfold hsps_narrow in H. lia. Qed.

Section Hevc.
  Variable raw : list N.
  Hypothesis raw_ok : Forall lt256 raw.

  Lemma MRel_mapM {A B} st (f1 : A -> rstate -> res (B * rstate)) f2 :
    (forall a, MRel raw st st (f1 a) (f2 a)) -> forall l, MRel raw st st (mapM f1 l) (mapM f2 l).
  Proof.
    intros Hf l. induction l as [|a t IH]; cbn [mapM]; [apply MRel_ret|].
    eapply MRel_bind; [apply Hf|]. intros x. eapply MRel_bind; [exact IH|]. intros y. apply MRel_ret.
  Qed.

  Lemma MRel_rep_until_err {A} st (b1 : rstate -> res (A * rstate)) b2 : MRel raw st st b1 b2 ->
    forall n, MRel raw st st (rep_until_err ER n b1) (rep_until_err BR n b2).
  Proof.
    intros Hb n. induction n as [|n IH]; cbn [rep_until_err]; [apply MRel_ret|].
    eapply MRel_bind; [exact Hb|]. intros x. eapply MRel_bind; [apply MRel_get_err|]. intros e.
    destruct e; [apply MRel_ret|]. eapply MRel_bind; [exact IH|]. intros t. apply MRel_ret.
  Qed.

  Lemma MRel_rep_until_err_n {A} st n (b1 : rstate -> res (A * rstate)) b2 : MRel raw st st b1 b2 ->
    MRel raw st st (rep_until_err_n ER n b1) (rep_until_err_n BR n b2).
  Proof.
    intros Hb. unfold rep_until_err_n. destruct (n <=? loop_bound); [apply MRel_rep_until_err; exact Hb|apply MRel_oof].
  Qed.

  Lemma rel_hext_data st : forall fuel acc, MRel raw st st (hext_data_loop ER fuel acc) (hext_data_loop BR fuel acc).
  Proof. induction fuel as [|f IH]; intros acc; cbn [hext_data_loop]; tie. Qed.

  Lemma rel_hparse_end {A} st (a : A) : MRel raw st st (hparse_end ER a) (hparse_end BR a).
  Proof. unfold hparse_end. tie. Qed.

  Ltac tie_sub ::= first [ apply MRel_rep_until_err_n | apply MRel_rep ].
  Lemma rel_hskip_entry st k : MRel raw st st (hskip_scaling_entry ER k) (hskip_scaling_entry BR k).
  Proof. unfold hskip_scaling_entry. tie. Qed.

  Ltac tie_sub ::= first [ apply MRel_rep_until_err_n | apply MRel_rep | apply rel_hskip_entry ].
  Lemma rel_hskip st : MRel raw st st (hskip_scaling_list_data ER) (hskip_scaling_list_data BR).
  Proof. unfold hskip_scaling_list_data. tie. Qed.

  (* ---------------------------------------------------------------- PPS *)
  Ltac tie_sub ::= first [ apply MRel_rep_until_err_n | apply MRel_rep ].
  Ltac tie_rd_side ::= first [ tie_width | (split_orb; unfold u64; lia) ].

  Lemma rel_hpps_range st t : MRel raw st st (hparse_pps_range ER t) (hparse_pps_range BR t).
  Proof. unfold hparse_pps_range. tie. Qed.

  Lemma rel_hpps_scc st : MRel raw st st (hparse_pps_scc ER) (hparse_pps_scc BR).
  Proof. unfold hparse_pps_scc. tie. Qed.

  Ltac tie_sub ::= first [ apply MRel_rep_until_err_n | apply MRel_rep | apply rel_hskip | apply rel_hpps_range
                         | apply rel_hpps_scc | apply rel_hext_data | apply rel_hparse_end ].

  Lemma rel_hparse_pps st spsmap : MRel raw st st (hparse_pps ER spsmap) (hparse_pps BR spsmap).
  Proof. unfold hparse_pps. tie. Qed.

  (* ---------------------------------------------------------------- slice segment header *)
  Ltac tie_sub ::= first [ apply MRel_rep_until_err_n | apply MRel_rep ].
  Ltac tie_rd_side ::= first [ tie_width | (split_orb; unfold u64, u8 in *; lia) ].

  Lemma rel_hrps_inter st : MRel raw st st (hparse_rps_inter_entry ER) (hparse_rps_inter_entry BR).
  Proof. unfold hparse_rps_inter_entry. tie. Qed.

  Ltac tie_sub ::= first [ apply MRel_rep_until_err_n | apply MRel_rep | apply rel_hrps_inter ].
  Lemma rel_hst_rps idx num sets :
    MRel raw false false (hparse_st_rps ER idx num sets) (hparse_st_rps BR idx num sets).
  Proof. unfold hparse_st_rps. tie. Qed.

  Lemma rel_hlt_loop st sp : h_log2_poc sp <= 52 -> forall cnt i nlsps acc npt,
    MRel raw st st (hlt_loop ER cnt i nlsps sp acc npt) (hlt_loop BR cnt i nlsps sp acc npt).
  Proof. intros Hn. induction cnt as [|c IH]; intros i nlsps acc npt; cbn [hlt_loop]; tie. Qed.

  Lemma rel_hrplm st is_b l0 l1 npt : MRel raw st st (hparse_rplm ER is_b l0 l1 npt) (hparse_rplm BR is_b l0 l1 npt).
  Proof. unfold hparse_rplm. tie. Qed.

  Lemma rel_hpwt_values st fl : MRel raw st st (hparse_pwt_values ER fl) (hparse_pwt_values BR fl).
  Proof. unfold hparse_pwt_values. tie. Qed.

  Lemma rel_hpwt_list st c n : MRel raw st st (hparse_pwt_list ER c n) (hparse_pwt_list BR c n).
  Proof. unfold hparse_pwt_list. tie. all: apply MRel_mapM; intros; apply rel_hpwt_values. Qed.

  Ltac tie_sub ::= first [ apply rel_hpwt_list ].
  Lemma rel_hpwt st is_b c l0 l1 : MRel raw st st (hparse_pwt ER is_b c l0 l1) (hparse_pwt BR is_b c l0 l1).
  Proof. unfold hparse_pwt. tie. Qed.

  Ltac tie_sub ::= first [ apply MRel_rep_until_err_n | apply rel_hst_rps | (apply rel_hlt_loop; assumption)
                         | apply rel_hrplm | apply rel_hpwt ].
  Lemma rel_hslice_main nt sp pp : h_log2_poc sp <= 52 ->
    MRel raw false false (hparse_slice_main ER nt sp pp) (hparse_slice_main BR nt sp pp).
  Proof. intros Hn. unfold hparse_slice_main. tie. Qed.

  (* byte_alignment(): entered only after alignment_bit_equal_to_one was read as 1, i.e. from an
     error-free state; while NrBitsReadInCurrentByte < 8 the accumulator holds bits, so the reads succeed *)
  Lemma br_flag_true b : fst (br_flag b) = true -> berr (snd (br_flag b)) = false.
  Proof.
    unfold br_flag, br_read. destruct (berr b) eqn:E; cbn [fst snd]; [discriminate|].
    destruct (1 <=? lenN (bbits b)); cbn [fst snd]; [intros _; reflexivity|discriminate].
  Qed.

  Lemma align_good : forall fuel s b,
    Good raw s b -> braw b = raw -> rdata s = escape raw ->
    ORel raw false (halign_loop ER er_bib fuel s) (halign_loop BR br_bib fuel b).
  Proof.
    induction fuel as [|f IH]; intros s b G Hr Hd; [exact I|]. cbn [halign_loop].
    unfold er_bib, br_bib. rewrite <- (bib_good raw s b G).
    destruct (8 - rn s <? 8) eqn:Eb.
    - destruct (bbits b) as [|x t] eqn:Ebb.
      + exfalso. destruct G as [_ [_ [_ [Hbits _]]]]. rewrite Ebb in Hbits. unfold rbits in Hbits.
        apply app_eq_nil in Hbits. destruct Hbits as [H1 _]. apply (f_equal (@length bool)) in H1.
        rewrite C13Bits.bits_of_length in H1. cbn in H1. lia.
      + destruct (read1_good raw s b x t G Hr Hd Ebb) as [E [G1 D1]].
        assert (Hbf : br_flag b = (x, mkB raw t (bpos b + 1) false)).
        { unfold br_flag, br_read. destruct G as [_ [Hbe _]]. rewrite Hbe, Ebb, lenN_cons.
          replace (1 <=? 1 + lenN t) with true by lia. change (N.to_nat 1) with 1%nat.
          cbn [firstn skipn]. rewrite Hr. destruct x; reflexivity. }
        unfold bind, rd_flag. cbn [r_flag ER BR]. rewrite Hbf. unfold read_flag.
        destruct (read s 1) as [v s1]. cbn [fst snd] in *. subst v.
        destruct x; cbn [b2n].
        * change (1 =? 1) with true. exact I.
        * change (0 =? 1) with false. cbv iota. apply IH; [exact G1|reflexivity|exact D1].
    - cbn. split; [reflexivity|]. apply Good_Sim; assumption.
  Qed.

  Lemma MRel_align {A} (k1 : unit -> rstate -> res (A * rstate)) k2 :
    (forall u, MRel raw false false (k1 u) (k2 u)) ->
    MRel raw false false
      (bind (rd_flag ER) (fun ab => if negb ab then fail else bind (halign_loop ER er_bib 9) k1))
      (bind (rd_flag BR) (fun ab => if negb ab then fail else bind (halign_loop BR br_bib 9) k2)).
  Proof.
    intros Hk s b H. unfold bind at 1 3. unfold rd_flag. cbn [r_flag ER BR].
    pose proof (flag_sim raw false s b H) as [E S1].
    pose proof (br_flag_true b) as Ht.
    destruct (read_flag s) as [v s1], (br_flag b) as [v' b1]. cbn [fst snd] in *. subst v'.
    destruct v; cbn [negb]; [|exact I].
    pose proof (Sim_good raw false s1 b1 S1 (Ht eq_refl)) as G1.
    pose proof (align_good 9 s1 b1 G1 (Sim_raw raw _ _ _ S1) (Sim_data raw _ _ _ S1)) as HA.
    unfold bind. unfold ORel in HA.
    destruct (halign_loop ER er_bib 9 s1) as [[u s2]| | |], (halign_loop BR br_bib 9 b1) as [[u' b2]| | |];
      try contradiction; try exact I.
    destruct HA as [-> S2]. apply Hk. exact S2.
  Qed.

  (* `if r.AccError() != nil { return } ; Size = NrBytesRead()`: the counter is read in an error-free state *)
  Lemma MRel_err_nbytes {A} (k1 : N -> rstate -> res (A * rstate)) k2 :
    (forall a, MRel raw false false (k1 a) (k2 a)) ->
    MRel raw false false
      (bind (get_err ER) (fun e => if e then fail else bind (get_nbytes ER) k1))
      (bind (get_err BR) (fun e => if e then fail else bind (get_nbytes BR) k2)).
  Proof.
    intros Hk s b H. unfold bind, get_err, get_nbytes. cbn [r_err r_nbytes ER BR].
    rewrite (Sim_err raw false s b H). destruct (berr b) eqn:Eb; [exact I|].
    rewrite (nbytes_good raw s b (Sim_raw raw _ _ _ H) (Sim_good raw false s b H Eb)). apply Hk. exact H.
  Qed.

  Ltac tie_sub ::= first [ apply MRel_rep_until_err_n
                         | (apply rel_hslice_main; eapply hsps_narrow_w; eassumption)
                         | (eapply MRel_align; intros ?) | (eapply MRel_err_nbytes; intros ?) ].
  Ltac tie_rd_side ::= first [ tie_width | (unfold u8; lia) ].

  Lemma rel_hparse_slice spsmap ppsmap :
    (forall id s, spsmap id = Some s -> hsps_narrow s = true) ->
    MRel raw false false (hparse_slice ER er_bib spsmap ppsmap) (hparse_slice BR br_bib spsmap ppsmap).
  Proof. intros Hs. unfold hparse_slice. tie. Qed.
End Hevc.

Lemma tie_hevc_pps raw spsmap :
  bytes_ok raw = true -> zrun_ok raw = true ->
  hparse_pps_er spsmap (escape raw) = hparse_pps_br spsmap (escape raw).
Proof.
  intros Hb Hz. unfold hparse_pps_er, hparse_pps_br.
  apply (MRel_run raw (bytes_ok_lt256 raw Hb) true true); [apply rel_hparse_pps|exact Hz].
Qed.

Lemma tie_hevc_slice raw spsmap ppsmap :
  bytes_ok raw = true -> zrun_ok raw = true ->
  (forall id s, spsmap id = Some s -> hsps_narrow s = true) ->
  hparse_slice_er spsmap ppsmap (escape raw) = hparse_slice_br spsmap ppsmap (escape raw).
Proof.
  intros Hb Hz Hs. unfold hparse_slice_er, hparse_slice_br.
  apply (MRel_run raw (bytes_ok_lt256 raw Hb) false false); [apply rel_hparse_slice; exact Hs|exact Hz].
Qed.
