(* C15TieHevcProofs.v — hevc.ParsePPSNALUnit (and the pieces shared with the SPS and slice parsers):
   the parser models of C15HevcModel instantiated with the C13 machine model of bits.EBSPReader and
   with the ideal bit-list reader return the same result on every escaped byte string whose bits hold
   no run of more than 56 zero bits.  No axioms. *)
From V.lib Require Import Base.
From V.c13 Require Import C13Spec C13Model C13ReaderProofs.
From V.c15 Require Import C15Model C15HevcModel C15TieBaseProofs C15TieRelProofs C15TieAvcProofs.

Ltac split_orb :=
  repeat match goal with
         | H : (_ || _) = false |- _ => apply orb_false_iff in H; destruct H
         end.

Section Hevc.
  Variable raw : list N.
  Hypothesis raw_ok : Forall lt256 raw.

  Lemma MRel_mapM {A B} st (f1 : A -> rstate -> res (B * rstate)) f2 :
    (forall a, MRel raw st st (f1 a) (f2 a)) -> forall l, MRel raw st st (mapM f1 l) (mapM f2 l).
  Proof.
    intros Hf l. induction l as [|a t IH]; cbn [mapM]; [apply MRel_ret|].
    eapply MRel_bind; [apply Hf|]. intros x. eapply MRel_bind; [exact IH|]. intros y. apply MRel_ret.
  Qed.

  Lemma MRel_rep_until_err {A} st (b1 : rstate -> res (A * rstate)) b2 : MRel raw st st b1 b2 ->
    forall n, MRel raw st st (rep_until_err ER n b1) (rep_until_err BR n b2).
  Proof.
    intros Hb n. induction n as [|n IH]; cbn [rep_until_err]; [apply MRel_ret|].
    eapply MRel_bind; [exact Hb|]. intros x. eapply MRel_bind; [apply MRel_get_err|]. intros e.
    destruct e; [apply MRel_ret|]. eapply MRel_bind; [exact IH|]. intros t. apply MRel_ret.
  Qed.

  Lemma MRel_rep_until_err_n {A} st n (b1 : rstate -> res (A * rstate)) b2 : MRel raw st st b1 b2 ->
    MRel raw st st (rep_until_err_n ER n b1) (rep_until_err_n BR n b2).
  Proof.
    intros Hb. unfold rep_until_err_n. destruct (n <=? loop_bound); [apply MRel_rep_until_err; exact Hb|apply MRel_oof].
  Qed.

  Lemma rel_hext_data st : forall fuel acc, MRel raw st st (hext_data_loop ER fuel acc) (hext_data_loop BR fuel acc).
  Proof. induction fuel as [|f IH]; intros acc; cbn [hext_data_loop]; tie. Qed.

  Lemma rel_hparse_end {A} st (a : A) : MRel raw st st (hparse_end ER a) (hparse_end BR a).
  Proof. unfold hparse_end. tie. Qed.

  Ltac tie_sub ::= first [ apply MRel_rep_until_err_n | apply MRel_rep ].
  Lemma rel_hskip_entry st k : MRel raw st st (hskip_scaling_entry ER k) (hskip_scaling_entry BR k).
  Proof. unfold hskip_scaling_entry. tie. Qed.

  Ltac tie_sub ::= first [ apply MRel_rep_until_err_n | apply MRel_rep | apply rel_hskip_entry ].
  Lemma rel_hskip st : MRel raw st st (hskip_scaling_list_data ER) (hskip_scaling_list_data BR).
  Proof. unfold hskip_scaling_list_data. tie. Qed.

  (* ---------------------------------------------------------------- PPS *)
  Ltac tie_sub ::= first [ apply MRel_rep_until_err_n | apply MRel_rep ].
  Ltac tie_rd_side ::= first [ tie_width | (split_orb; unfold u64; lia) ].

  Lemma rel_hpps_range st t : MRel raw st st (hparse_pps_range ER t) (hparse_pps_range BR t).
  Proof. unfold hparse_pps_range. tie. Qed.

  Lemma rel_hpps_scc st : MRel raw st st (hparse_pps_scc ER) (hparse_pps_scc BR).
  Proof. unfold hparse_pps_scc. tie. Qed.

  Ltac tie_sub ::= first [ apply MRel_rep_until_err_n | apply MRel_rep | apply rel_hskip | apply rel_hpps_range
                         | apply rel_hpps_scc | apply rel_hext_data | apply rel_hparse_end ].

  Lemma rel_hparse_pps st spsmap : MRel raw st st (hparse_pps ER spsmap) (hparse_pps BR spsmap).
  Proof. unfold hparse_pps. tie. Qed.
End Hevc.

Lemma tie_hevc_pps raw spsmap :
  bytes_ok raw = true -> zrun_ok raw = true ->
  hparse_pps_er spsmap (escape raw) = hparse_pps_br spsmap (escape raw).
Proof.
  intros Hb Hz. unfold hparse_pps_er, hparse_pps_br.
  apply (MRel_run raw (bytes_ok_lt256 raw Hb) true true); [apply rel_hparse_pps|exact Hz].
Qed.
