(* C15HevcConfSpsProofs.v — CreateHEVCDecConfRec with the real SPS parser: hevc_confrec_create
   composed with C15_hevc_sps (hparse_sps_br returns the coded values of every valid SPS). *)
From V.lib Require Import Base.
From V.c13 Require Import C13Spec C13Model.
From V.c15 Require Import C15Model C15Spec C15HevcModel C15HevcSpec C15HevcSpsProofs
  C15HevcConfModel C15HevcConfSpec C15HevcConfProofs.
From V.c16 Require Import C16ConfRecModel.

Lemma hevc_confrec_create_sps v vps sps_rest pps vc sc pc inc :
  hsps_valid v = true ->
  hconf_create hparse_sps_br vps (hnalu_sps v :: sps_rest) pps vc sc pc inc
  = Ok (expected_hconf v vps (hnalu_sps v :: sps_rest) pps vc sc pc inc).
Proof. intros Hv. apply hevc_confrec_create, hevc_sps, Hv. Qed.
