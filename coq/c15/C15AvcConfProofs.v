(* C15AvcConfProofs.v — the model of avc/avcdecoderconfigurationrecord.go and avc/mime.go against the
   independent reading of ISO/IEC 14496-15 5.3.3.1.2 / RFC 6381 in C15AvcConfSpec.v. *)
From V.lib Require Import Base.
From V.c13 Require Import C13Spec C13Model.
From V.c15 Require Import C15Model C15Spec C15BitProofs C15AvcSpsProofs C15AvcVuiProofs
  C15AvcConfModel C15AvcConfSpec.

(* ------------------------------------------------------------------ CreateAVCDecConfRec *)
Lemma u8_id x : x < 256 -> u8 x = x.
Proof. intros H. unfold u8. apply N.mod_small. exact H. Qed.

Lemma avc_confrec_create sp rest ppss inc :
  sps_valid sp = true ->
  create_confrec_br (nalu_sps sp :: rest) ppss inc
  = Ok (expected_created sp (nalu_sps sp :: rest) ppss inc).
Proof.
  intros Hv. unfold create_confrec_br, create_confrec.
  rewrite (avc_sps_go sp false Hv).
  pose proof (eff_chroma_le3 sp Hv) as Hc. pose proof (compat_byte_lt sp) as Hcb.
  unfold expected_sps_gen. cbv zeta.
  cbn [sps_chroma_format_idc sps_bit_depth_luma_minus8 sps_bit_depth_chroma_minus8 sps_profile sps_compat sps_level].
  unfold sps_valid in Hv. split_all.
  assert (Hd : (if has_chroma_block (profile_idc sp) then bit_depth_luma_minus8 sp else 0) <= 6
               /\ (if has_chroma_block (profile_idc sp) then bit_depth_chroma_minus8 sp else 0) <= 6).
  { destruct (has_chroma_block (profile_idc sp)); [split_all; lia | lia]. }
  destruct Hd as [Hd1 Hd2].
  replace (3 <? eff_chroma_format_idc sp) with false by lia.
  replace (7 <? (if has_chroma_block (profile_idc sp) then bit_depth_luma_minus8 sp else 0)) with false by lia.
  replace (7 <? (if has_chroma_block (profile_idc sp) then bit_depth_chroma_minus8 sp else 0)) with false by lia.
  cbn [orb].
  rewrite !u8_id by lia.
  unfold expected_created, confrec_of_sps. cbv zeta.
  cbn [AVCProfileIndication profile_compatibility AVCLevelIndication sequenceParameterSetNALUnits
       pictureParameterSetNALUnits chroma_format cr_bit_depth_luma_minus8 cr_bit_depth_chroma_minus8].
  reflexivity.
Qed.

(* ------------------------------------------------------------------ CodecString *)
Fixpoint list_n_eqb (a b : list N) : bool :=
  match a, b with
  | [], [] => true
  | x :: a', y :: b' => (x =? y) && list_n_eqb a' b'
  | _, _ => false
  end.
Lemma list_n_eqb_eq a : forall b, list_n_eqb a b = true -> a = b.
Proof.
  induction a as [|x a IH]; intros [|y b] H; cbn [list_n_eqb] in H; try discriminate; [reflexivity|].
  apply andb_prop in H. destruct H as [H1 H2]. apply N.eqb_eq in H1. subst. f_equal. apply IH. exact H2.
Qed.

Lemma fmt_02X_bytes_all :
  forallb (fun k => list_n_eqb (fmt_02X (N.of_nat k)) (hex_byte (N.of_nat k))) (seq 0 256) = true.
Proof. vm_compute. reflexivity. Qed.

Lemma fmt_02X_byte x : x < 256 -> fmt_02X x = hex_byte x.
Proof.
  intros H. pose proof fmt_02X_bytes_all as A. rewrite forallb_forall in A.
  specialize (A (N.to_nat x)). rewrite N2Nat.id in A. apply list_n_eqb_eq. apply A.
  apply in_seq. lia.
Qed.

Lemma avc_codec_string entry sp beyond s :
  sps_valid sp = true -> parse_sps_br beyond (nalu_sps sp) = Ok s ->
  codec_string entry s = codec_string_spec entry sp.
Proof.
  intros Hv Hs. rewrite (avc_sps_go sp beyond Hv) in Hs. injection Hs as <-.
  pose proof (compat_byte_lt sp) as Hcb.
  unfold codec_string, codec_string_spec, expected_sps_gen. cbv zeta. cbn [sps_profile sps_compat sps_level].
  unfold sps_valid in Hv. split_all.
  rewrite !fmt_02X_byte by lia. reflexivity.
Qed.

(* ------------------------------------------------------------------ the record layout, byte by byte *)
Definition ser_ps (nalu : list N) : list N := [lenN nalu / 256; lenN nalu mod 256] ++ nalu.
Definition ser_trailer (x : confrec_syntax) : list N :=
  if has_trailer (AVCProfileIndication x)
  then [252 + chroma_format x; 248 + cr_bit_depth_luma_minus8 x; 248 + cr_bit_depth_chroma_minus8 x; 0]
  else [].
Definition ser_confrec_bytes (x : confrec_syntax) : list N :=
  [1; AVCProfileIndication x; profile_compatibility x; AVCLevelIndication x; 255;
   224 + lenN (sequenceParameterSetNALUnits x)]
  ++ flat_map ser_ps (sequenceParameterSetNALUnits x)
  ++ [lenN (pictureParameterSetNALUnits x)]
  ++ flat_map ser_ps (pictureParameterSetNALUnits x)
  ++ ser_trailer x.

Lemma bob_8 (l8 rest : list bool) : length l8 = 8%nat ->
  bytes_of_bits (l8 ++ rest) = bytes_of_bits l8 ++ bytes_of_bits rest.
Proof.
  intros H.
  destruct l8 as [|b7 [|b6 [|b5 [|b4 [|b3 [|b2 [|b1 [|b0 [|x t]]]]]]]]]; cbn [length] in H; try lia.
  reflexivity.
Qed.

Lemma bob_u8_all :
  forallb (fun k => list_n_eqb (bytes_of_bits (u 8 (N.of_nat k))) [N.of_nat k]) (seq 0 256) = true.
Proof. vm_compute. reflexivity. Qed.

Lemma bob_u8_exact x : x < 256 -> bytes_of_bits (u 8 x) = [x].
Proof.
  intros H. pose proof bob_u8_all as A. rewrite forallb_forall in A.
  specialize (A (N.to_nat x)). rewrite N2Nat.id in A. apply list_n_eqb_eq. apply A. apply in_seq. lia.
Qed.

Lemma length_u n x : length (u n x) = N.to_nat n.
Proof. unfold u. apply ubits_length. Qed.

Lemma bob_u8 x rest : x < 256 -> bytes_of_bits (u 8 x ++ rest) = x :: bytes_of_bits rest.
Proof. intros H. rewrite bob_8 by (rewrite length_u; reflexivity). rewrite bob_u8_exact by exact H. reflexivity. Qed.

(* a byte made of a reserved all-ones prefix and a small field *)
Lemma bob_pair (a b pre : N) (v : N) rest (base : N) :
  (a + b = 8) ->
  (forall k, k < 2 ^ b -> bytes_of_bits (u a pre ++ u b k) = [base + k]) ->
  v < 2 ^ b ->
  bytes_of_bits (u a pre ++ u b v ++ rest) = (base + v) :: bytes_of_bits rest.
Proof.
  intros Hab Hall Hv. rewrite app_assoc.
  rewrite bob_8 by (rewrite app_length, !length_u; lia).
  rewrite Hall by exact Hv. reflexivity.
Qed.

Lemma small_cases (P : N -> Prop) (n : nat) :
  (forall k : nat, (k < n)%nat -> P (N.of_nat k)) -> forall x, x < N.of_nat n -> P x.
Proof. intros H x Hx. rewrite <- (N2Nat.id x). apply H. lia. Qed.

Lemma bob_6_2 k : k < 2 ^ 2 -> bytes_of_bits (u 6 63 ++ u 2 k) = [252 + k].
Proof.
  revert k. apply (small_cases _ 4). intros k Hk.
  do 4 (destruct k as [|k]; [reflexivity|]). lia.
Qed.
Lemma bob_5_3 k : k < 2 ^ 3 -> bytes_of_bits (u 5 31 ++ u 3 k) = [248 + k].
Proof.
  revert k. apply (small_cases _ 8). intros k Hk.
  do 8 (destruct k as [|k]; [reflexivity|]). lia.
Qed.
Lemma bob_3_5 k : k < 2 ^ 5 -> bytes_of_bits (u 3 7 ++ u 5 k) = [224 + k].
Proof.
  revert k. apply (small_cases _ 32). intros k Hk.
  do 32 (destruct k as [|k]; [reflexivity|]). lia.
Qed.

(* u(16) is two bytes, most significant first *)
Lemma ubits_split : forall a b x, ubits (a + b) x = ubits a (x / 2 ^ N.of_nat b) ++ ubits b x.
Proof.
  induction a as [|a IH]; intros b x; cbn [Nat.add ubits app]; [reflexivity|].
  rewrite IH. f_equal. rewrite N.div_pow2_bits. f_equal. lia.
Qed.

Lemma ubits_mod : forall k n x, (k <= n)%nat -> ubits k (x mod 2 ^ N.of_nat n) = ubits k x.
Proof.
  induction k as [|k IH]; intros n x Hk; cbn [ubits]; [reflexivity|].
  rewrite IH by lia. f_equal. apply N.mod_pow2_bits_low. lia.
Qed.

Lemma bob_u16 x rest : x < 65536 ->
  bytes_of_bits (u 16 x ++ rest) = (x / 256) :: (x mod 256) :: bytes_of_bits rest.
Proof.
  intros H. unfold u. change (N.to_nat 16) with (8 + 8)%nat. rewrite ubits_split.
  change (2 ^ N.of_nat 8) with 256.
  rewrite <- (ubits_mod 8 8 x) by lia. change (2 ^ N.of_nat 8) with 256.
  rewrite <- app_assoc.
  change (ubits 8 (x / 256)) with (u 8 (x / 256)). change (ubits 8 (x mod 256)) with (u 8 (x mod 256)).
  rewrite bob_u8 by lia. rewrite bob_u8 by lia. reflexivity.
Qed.

Lemma bob_bytes : forall l rest, forallb is_byte l = true ->
  bytes_of_bits (flat_map ser_byte_bits l ++ rest) = l ++ bytes_of_bits rest.
Proof.
  induction l as [|b t IH]; intros rest H; cbn [flat_map app]; [reflexivity|].
  cbn [forallb] in H. apply andb_prop in H. destruct H as [Hb Ht]. unfold is_byte in Hb.
  unfold ser_byte_bits at 1. rewrite <- app_assoc. rewrite bob_u8 by lia. rewrite IH by exact Ht. reflexivity.
Qed.

Lemma bob_ps_list : forall l rest, forallb ps_ok l = true ->
  bytes_of_bits (flat_map ser_ps_bits l ++ rest) = flat_map ser_ps l ++ bytes_of_bits rest.
Proof.
  induction l as [|n t IH]; intros rest H; cbn [flat_map app]; [reflexivity|].
  cbn [forallb] in H. apply andb_prop in H. destruct H as [Hn Ht]. unfold ps_ok in Hn.
  apply andb_prop in Hn. destruct Hn as [Hl Hb].
  unfold ser_ps_bits at 1. rewrite <- !app_assoc. rewrite bob_u16 by lia. rewrite bob_bytes by exact Hb.
  rewrite IH by exact Ht. unfold ser_ps. cbn [app]. rewrite <- ?app_assoc. reflexivity.
Qed.

Lemma ser_confrec_eq x : confrec_syntax_valid x = true -> ser_confrec x = ser_confrec_bytes x.
Proof.
  intros Hv. unfold confrec_syntax_valid in Hv. split_all.
  unfold ser_confrec, ser_confrec_bits, ser_confrec_bytes, ser_trailer.
  rewrite bob_u8 by lia. rewrite bob_u8 by lia. rewrite bob_u8 by lia. rewrite bob_u8 by lia.
  rewrite (bob_pair 6 2 63 3 _ 252) by (try apply bob_6_2; reflexivity).
  rewrite (bob_pair 3 5 7 _ _ 224) by (try apply bob_3_5; try reflexivity; change (2 ^ 5) with 32; lia).
  rewrite bob_ps_list by assumption.
  rewrite bob_u8 by lia.
  rewrite bob_ps_list by assumption.
  cbn [app]. do 6 f_equal. f_equal. f_equal.
  destruct (has_trailer (AVCProfileIndication x)); [|reflexivity].
  rewrite (bob_pair 6 2 63 _ _ 252) by (try apply bob_6_2; try reflexivity; change (2 ^ 2) with 4; lia).
  rewrite (bob_pair 5 3 31 _ _ 248) by (try apply bob_5_3; try reflexivity; change (2 ^ 3) with 8; lia).
  rewrite (bob_pair 5 3 31 _ _ 248) by (try apply bob_5_3; try reflexivity; change (2 ^ 3) with 8; lia).
  rewrite <- (app_nil_r (u 8 0)). rewrite bob_u8 by lia. reflexivity.
Qed.

(* ------------------------------------------------------------------ DecodeAVCDecConfRec *)
Lemma byte_at_app_r pre l k : byte_at (pre ++ l) (lenN pre + k) = byte_at l k.
Proof.
  unfold byte_at, lenN. replace (N.to_nat (N.of_nat (length pre) + k)) with (length pre + N.to_nat k)%nat by lia.
  apply app_nth2_plus.
Qed.

Lemma slice_app pre n post : slice (pre ++ n ++ post) (lenN pre) (lenN pre + lenN n) = n.
Proof.
  unfold slice, lenN.
  replace (N.to_nat (N.of_nat (length pre) + N.of_nat (length n) - N.of_nat (length pre))) with (length n) by lia.
  rewrite Nat2N.id, skipn_len_app. apply firstn_len_app.
Qed.

Lemma decode_nalus_ser : forall l pre post, forallb ps_ok l = true ->
  decode_nalus (length l) (pre ++ flat_map ser_ps l ++ post) (lenN pre)
  = Ok (l, lenN pre + lenN (flat_map ser_ps l)).
Proof.
  induction l as [|n t IH]; intros pre post Hok; cbn [length decode_nalus flat_map].
  - rewrite lenN_nil, N.add_0_r. reflexivity.
  - cbn [forallb] in Hok. apply andb_prop in Hok. destruct Hok as [Hn Ht].
    unfold ps_ok in Hn. apply andb_prop in Hn. destruct Hn as [Hl _].
    set (L := lenN n) in *.
    set (data := pre ++ (ser_ps n ++ flat_map ser_ps t) ++ post).
    assert (Hd : data = pre ++ [L / 256; L mod 256] ++ (n ++ flat_map ser_ps t ++ post)).
    { unfold data, ser_ps. fold L. rewrite <- !app_assoc. reflexivity. }
    assert (Hlen : lenN data = lenN pre + 2 + L + lenN (flat_map ser_ps t ++ post)).
    { rewrite Hd. rewrite !lenN_app. change (lenN [L / 256; L mod 256]) with 2. fold L. lia. }
    replace (lenN data <? lenN pre + 2) with false by lia.
    assert (B0 : byte_at data (lenN pre) = L / 256).
    { rewrite <- (N.add_0_r (lenN pre)). rewrite Hd. rewrite byte_at_app_r. reflexivity. }
    assert (B1 : byte_at data (lenN pre + 1) = L mod 256).
    { rewrite Hd. rewrite byte_at_app_r. reflexivity. }
    cbv zeta. rewrite B0, B1.
    replace (256 * (L / 256) + L mod 256) with L by lia.
    replace (lenN data <? lenN pre + 2 + L) with false by lia.
    assert (Hd2 : data = (pre ++ [L / 256; L mod 256]) ++ n ++ (flat_map ser_ps t ++ post)).
    { rewrite Hd. rewrite <- !app_assoc. reflexivity. }
    assert (Hp2 : lenN pre + 2 = lenN (pre ++ [L / 256; L mod 256])).
    { rewrite lenN_app. reflexivity. }
    assert (Hd3 : data = (pre ++ [L / 256; L mod 256] ++ n) ++ flat_map ser_ps t ++ post).
    { rewrite Hd. rewrite <- !app_assoc. reflexivity. }
    assert (Hp3 : lenN pre + 2 + L = lenN (pre ++ [L / 256; L mod 256] ++ n)).
    { rewrite !lenN_app. fold L. change (lenN [L / 256; L mod 256]) with 2. lia. }
    rewrite Hd3 at 1. rewrite Hp3. rewrite (IH _ post Ht).
    rewrite <- Hp3. rewrite Hd2. rewrite Hp2. unfold L. rewrite slice_app.
    f_equal. f_equal. rewrite !lenN_app. unfold ser_ps. rewrite !lenN_app.
    change (lenN [lenN n / 256; lenN n mod 256]) with 2. lia.
Qed.

Lemma no_trailer_has_trailer p : no_trailer_profile p = negb (has_trailer p).
Proof.
  unfold no_trailer_profile, has_trailer. cbn [existsb].
  destruct (p =? 66), (p =? 77), (p =? 88); reflexivity.
Qed.

Lemma land_low (base v : N) (k : N) : v < 2 ^ k -> base mod 2 ^ k = 0 -> N.land (base + v) (N.ones k) = v.
Proof.
  intros Hv Hb. rewrite N.land_ones.
  rewrite N.add_mod by (apply N.pow_nonzero; discriminate).
  rewrite Hb, N.add_0_l, N.mod_mod by (apply N.pow_nonzero; discriminate).
  apply N.mod_small. exact Hv.
Qed.

Lemma avc_confrec_decode_bytes x :
  confrec_syntax_valid x = true -> decode_confrec (ser_confrec_bytes x) = Ok (expected_confrec x).
Proof.
  intros Hv. unfold confrec_syntax_valid in Hv. split_all.
  set (p := AVCProfileIndication x) in *. set (spss := sequenceParameterSetNALUnits x) in *.
  set (ppss := pictureParameterSetNALUnits x) in *.
  set (hdr := [1; p; profile_compatibility x; AVCLevelIndication x; 255; 224 + lenN spss]).
  set (data := ser_confrec_bytes x).
  assert (Hd : data = hdr ++ flat_map ser_ps spss ++ ([lenN ppss] ++ flat_map ser_ps ppss ++ ser_trailer x))
    by reflexivity.
  set (pre2 := hdr ++ flat_map ser_ps spss ++ [lenN ppss]).
  assert (Hd2 : data = pre2 ++ flat_map ser_ps ppss ++ ser_trailer x).
  { rewrite Hd. unfold pre2. rewrite <- !app_assoc. reflexivity. }
  set (pre3 := pre2 ++ flat_map ser_ps ppss).
  assert (Hd3 : data = pre3 ++ ser_trailer x).
  { rewrite Hd2. unfold pre3. rewrite <- !app_assoc. reflexivity. }
  assert (Hlen : lenN data = lenN pre3 + lenN (ser_trailer x)) by (rewrite Hd3, lenN_app; reflexivity).
  assert (Hl3 : lenN pre3 = 6 + lenN (flat_map ser_ps spss) + 1 + lenN (flat_map ser_ps ppss)).
  { unfold pre3, pre2. rewrite !lenN_app. change (lenN hdr) with 6. change (lenN [lenN ppss]) with 1. lia. }
  unfold decode_confrec.
  replace (lenN data <? 6) with false by lia.
  change (byte_at data 0) with 1. change (byte_at data 1) with p.
  change (byte_at data 2) with (profile_compatibility x). change (byte_at data 3) with (AVCLevelIndication x).
  change (byte_at data 4) with 255. change (byte_at data 5) with (224 + lenN spss).
  change (negb (1 =? 1)) with false. change (negb (N.land 255 3 =? 3)) with false. cbv iota zeta.
  change 31 with (N.ones 5).
  rewrite (land_low 224 (lenN spss) 5) by (try reflexivity; change (2 ^ 5) with 32; lia).
  unfold lenN at 1. rewrite Nat2N.id.
  change 6 with (lenN hdr) at 1.
  rewrite Hd at 1. rewrite decode_nalus_ser by assumption.
  replace (lenN data <=? lenN hdr + lenN (flat_map ser_ps spss)) with false
    by (change (lenN hdr) with 6; lia).
  assert (Bn : byte_at data (lenN hdr + lenN (flat_map ser_ps spss)) = lenN ppss).
  { rewrite Hd, app_assoc. rewrite <- lenN_app. rewrite <- (N.add_0_r (lenN (hdr ++ _))).
    rewrite byte_at_app_r. reflexivity. }
  rewrite Bn.
  unfold lenN at 1. rewrite Nat2N.id.
  replace (lenN hdr + lenN (flat_map ser_ps spss) + 1) with (lenN pre2)
    by (unfold pre2; rewrite !lenN_app; change (lenN [lenN ppss]) with 1; lia).
  rewrite Hd2 at 1. rewrite decode_nalus_ser by assumption.
  fold pre3. rewrite <- lenN_app. fold pre3.
  rewrite no_trailer_has_trailer.
  unfold expected_confrec. cbv zeta. fold p spss ppss.
  unfold ser_trailer in *. fold p in Hlen, Hd3 |- *.
  destruct (has_trailer p); cbn [negb].
  - change (lenN [252 + chroma_format x; 248 + cr_bit_depth_luma_minus8 x;
                   248 + cr_bit_depth_chroma_minus8 x; 0]) with 4 in Hlen.
    replace (lenN pre3 =? lenN data) with false by lia.
    replace (lenN data <? lenN pre3 + 4) with false by lia.
    assert (B0 : byte_at data (lenN pre3) = 252 + chroma_format x).
    { rewrite <- (N.add_0_r (lenN pre3)). rewrite Hd3, byte_at_app_r. reflexivity. }
    assert (B1 : byte_at data (lenN pre3 + 1) = 248 + cr_bit_depth_luma_minus8 x).
    { rewrite Hd3, byte_at_app_r. reflexivity. }
    assert (B2 : byte_at data (lenN pre3 + 2) = 248 + cr_bit_depth_chroma_minus8 x).
    { rewrite Hd3, byte_at_app_r. reflexivity. }
    assert (B3 : byte_at data (lenN pre3 + 3) = 0).
    { rewrite Hd3, byte_at_app_r. reflexivity. }
    rewrite B0, B1, B2, B3. change (negb (0 =? 0)) with false. cbv iota.
    change 3 with (N.ones 2). change 7 with (N.ones 3).
    rewrite (land_low 252 _ 2) by (try reflexivity; change (2 ^ 2) with 4; lia).
    rewrite !(land_low 248 _ 3) by (try reflexivity; change (2 ^ 3) with 8; lia).
    reflexivity.
  - reflexivity.
Qed.

(* decoding the record laid out bit by bit as in 5.3.3.1.2 *)
Lemma avc_confrec_decode x :
  confrec_syntax_valid x = true -> decode_confrec (ser_confrec x) = Ok (expected_confrec x).
Proof. intros Hv. rewrite (ser_confrec_eq x Hv). apply avc_confrec_decode_bytes. exact Hv. Qed.

(* ------------------------------------------------------------------ Size / Encode *)
Definition syntax_of (a : confrec) : confrec_syntax :=
  mkConfSyn (cr_profile a) (cr_compat a) (cr_level a) (cr_sps a) (cr_pps a) (cr_chroma a) (cr_bdl a) (cr_bdc a).

Lemma fsw_put_ok out cap e bs :
  lenN out + lenN bs <= cap -> fsw_put (mkFsw out cap e) bs = mkFsw (out ++ bs) cap e.
Proof. intros H. unfold fsw_put. cbn [fw_out fw_cap fw_err]. replace (cap <? lenN out + lenN bs) with false by lia. reflexivity. Qed.

Lemma encode_nalus_ok : forall l out cap,
  forallb ps_ok l = true -> lenN out + lenN (flat_map ser_ps l) <= cap ->
  encode_nalus (mkFsw out cap false) l = mkFsw (out ++ flat_map ser_ps l) cap false.
Proof.
  induction l as [|n t IH]; intros out cap Hok Hc.
  - cbn [encode_nalus fold_left flat_map]. rewrite app_nil_r. reflexivity.
  - cbn [forallb] in Hok. apply andb_prop in Hok. destruct Hok as [Hn Ht].
    unfold ps_ok in Hn. apply andb_prop in Hn. destruct Hn as [Hl _].
    change (encode_nalus (mkFsw out cap false) (n :: t))
      with (encode_nalus (fsw_bytes (fsw_u16 (mkFsw out cap false) (lenN n mod 65536)) n) t).
    cbn [flat_map] in Hc |- *. rewrite lenN_app in Hc. unfold ser_ps in Hc at 1. rewrite lenN_app in Hc.
    change (lenN [lenN n / 256; lenN n mod 256]) with 2 in Hc.
    rewrite (N.mod_small (lenN n) 65536) by lia.
    unfold fsw_u16, fsw_bytes.
    rewrite fsw_put_ok by (change (lenN [lenN n / 256; lenN n mod 256]) with 2; lia).
    rewrite fsw_put_ok by (rewrite lenN_app; change (lenN [lenN n / 256; lenN n mod 256]) with 2; lia).
    rewrite IH by (try assumption; rewrite !lenN_app; change (lenN [lenN n / 256; lenN n mod 256]) with 2; lia).
    f_equal. unfold ser_ps. rewrite <- !app_assoc. reflexivity.
Qed.

Lemma nalus_size_eq l : nalus_size l = lenN (flat_map ser_ps l).
Proof.
  unfold nalus_size.
  assert (G : forall l acc, fold_left (fun acc n => acc + (2 + lenN n)) l acc = acc + lenN (flat_map ser_ps l)).
  { induction l0 as [|n t IH]; intros acc; cbn [fold_left flat_map]; [rewrite lenN_nil; lia|].
    rewrite IH. rewrite lenN_app. unfold ser_ps. rewrite lenN_app.
    change (lenN [lenN n / 256; lenN n mod 256]) with 2. lia. }
  rewrite G. lia.
Qed.

Lemma lor_224 k : k < 32 -> N.lor k 224 = 224 + k.
Proof. revert k. apply (small_cases _ 32). intros k Hk. do 32 (destruct k as [|k]; [reflexivity|]). lia. Qed.
Lemma lor_252 k : k < 4 -> N.lor 252 k = 252 + k.
Proof. revert k. apply (small_cases _ 4). intros k Hk. do 4 (destruct k as [|k]; [reflexivity|]). lia. Qed.
Lemma lor_248 k : k < 8 -> N.lor 248 k = 248 + k.
Proof. revert k. apply (small_cases _ 8). intros k Hk. do 8 (destruct k as [|k]; [reflexivity|]). lia. Qed.

Ltac len_side := rewrite ?lenN_app; repeat rewrite lenN_cons; rewrite ?lenN_nil; lia.

Lemma avc_confrec_encode a :
  confrec_syntax_valid (syntax_of a) = true -> cr_num_sps_ext a = 0 -> cr_no_trailing a = false ->
  encode_confrec a = Ok (ser_confrec_bytes (syntax_of a))
  /\ confrec_size a = lenN (ser_confrec_bytes (syntax_of a)).
Proof.
  intros Hv He Hn. unfold confrec_syntax_valid, syntax_of in Hv.
  cbn [AVCProfileIndication profile_compatibility AVCLevelIndication sequenceParameterSetNALUnits
       pictureParameterSetNALUnits chroma_format cr_bit_depth_luma_minus8 cr_bit_depth_chroma_minus8] in Hv.
  split_all.
  assert (Hsz : confrec_size a = lenN (ser_confrec_bytes (syntax_of a))).
  { unfold confrec_size, ser_confrec_bytes, ser_trailer, syntax_of.
    cbn [AVCProfileIndication profile_compatibility AVCLevelIndication sequenceParameterSetNALUnits
         pictureParameterSetNALUnits chroma_format cr_bit_depth_luma_minus8 cr_bit_depth_chroma_minus8].
    rewrite !nalus_size_eq, Hn, no_trailer_has_trailer, !lenN_app.
    destruct (has_trailer (cr_profile a)); cbn [negb]; unfold lenN; cbn [length]; lia. }
  split; [|exact Hsz].
  unfold encode_confrec. rewrite Hsz.
  set (cap := lenN (ser_confrec_bytes (syntax_of a))).
  assert (Hcap : cap = 6 + lenN (flat_map ser_ps (cr_sps a)) + 1 + lenN (flat_map ser_ps (cr_pps a))
                       + (if has_trailer (cr_profile a) then 4 else 0)).
  { unfold cap, ser_confrec_bytes, ser_trailer, syntax_of.
    cbn [AVCProfileIndication profile_compatibility AVCLevelIndication sequenceParameterSetNALUnits
         pictureParameterSetNALUnits chroma_format cr_bit_depth_luma_minus8 cr_bit_depth_chroma_minus8].
    rewrite !lenN_app. destruct (has_trailer (cr_profile a)); unfold lenN; cbn [length]; lia. }
  assert (Hcap2 : 6 + lenN (flat_map ser_ps (cr_sps a)) + 1 + lenN (flat_map ser_ps (cr_pps a)) <= cap)
    by (rewrite Hcap; destruct (has_trailer (cr_profile a)); lia).
  unfold encode_sw, fsw_new, fsw_u8. cbv zeta.
  rewrite (u8_id (lenN (cr_sps a))) by lia. rewrite (u8_id (lenN (cr_pps a))) by lia.
  rewrite lor_224 by lia.
  do 6 (rewrite fsw_put_ok by len_side).
  rewrite encode_nalus_ok by (try assumption; len_side).
  rewrite fsw_put_ok by len_side.
  rewrite encode_nalus_ok by (try assumption; len_side).
  rewrite no_trailer_has_trailer, Hn, He.
  unfold ser_confrec_bytes, ser_trailer, syntax_of.
  cbn [AVCProfileIndication profile_compatibility AVCLevelIndication sequenceParameterSetNALUnits
       pictureParameterSetNALUnits chroma_format cr_bit_depth_luma_minus8 cr_bit_depth_chroma_minus8].
  destruct (has_trailer (cr_profile a)); cbn [negb].
  - rewrite lor_252, !lor_248 by lia.
    do 4 (rewrite fsw_put_ok by len_side).
    cbn [fw_err fw_out]. f_equal. cbn [app]. rewrite <- !app_assoc. reflexivity.
  - cbn [fw_err fw_out]. f_equal. cbn [app]. rewrite <- !app_assoc, ?app_nil_r. reflexivity.
Qed.

(* create -> encode -> decode for the records the constructor produces *)
Lemma avc_confrec_roundtrip sp rest ppss inc :
  sps_valid sp = true ->
  (inc = true -> lenN (nalu_sps sp :: rest) < 32 /\ lenN ppss < 256
                 /\ forallb ps_ok (nalu_sps sp :: rest) = true /\ forallb ps_ok ppss = true) ->
  let spss := nalu_sps sp :: rest in
  let x := confrec_of_sps sp spss ppss inc in
  exists a bs,
    create_confrec_br spss ppss inc = Ok a
    /\ encode_confrec a = Ok bs /\ bs = ser_confrec x /\ confrec_size a = lenN bs
    /\ decode_confrec bs = Ok (expected_confrec x)
    /\ (has_trailer (profile_idc sp) = true -> decode_confrec bs = Ok a).
Proof.
  intros Hv Hinc. cbv zeta.
  set (spss := nalu_sps sp :: rest). set (x := confrec_of_sps sp spss ppss inc).
  assert (Hx : confrec_syntax_valid x = true).
  { pose proof (eff_chroma_le3 sp Hv) as Hc. pose proof (compat_byte_lt sp) as Hcb.
    unfold sps_valid in Hv. split_all.
    assert (Hd : (if has_chroma_block (profile_idc sp) then bit_depth_luma_minus8 sp else 0) <= 6
                 /\ (if has_chroma_block (profile_idc sp) then bit_depth_chroma_minus8 sp else 0) <= 6).
    { destruct (has_chroma_block (profile_idc sp)); [split_all; lia | lia]. }
    destruct Hd as [Hd1 Hd2].
    unfold confrec_syntax_valid, x, confrec_of_sps. cbv zeta.
    cbn [AVCProfileIndication profile_compatibility AVCLevelIndication sequenceParameterSetNALUnits
         pictureParameterSetNALUnits chroma_format cr_bit_depth_luma_minus8 cr_bit_depth_chroma_minus8].
    destruct inc.
    - destruct (Hinc eq_refl) as (H1 & H2 & H3 & H4). fold spss in H1, H3.
      rewrite H3, H4. repeat (apply andb_true_intro; split); try reflexivity; lia.
    - repeat (apply andb_true_intro; split); try reflexivity; lia. }
  exists (expected_created sp spss ppss inc), (ser_confrec x).
  assert (Hs : syntax_of (expected_created sp spss ppss inc) = x) by reflexivity.
  destruct (avc_confrec_encode (expected_created sp spss ppss inc)) as [He Hz];
    [rewrite Hs; exact Hx | reflexivity | reflexivity |].
  rewrite Hs in He, Hz. rewrite <- (ser_confrec_eq x Hx) in He, Hz.
  split; [apply avc_confrec_create; exact Hv|].
  split; [exact He|]. split; [reflexivity|]. split; [exact Hz|].
  split; [apply avc_confrec_decode; exact Hx|].
  intros Ht. rewrite (avc_confrec_decode x Hx). f_equal.
  unfold expected_confrec, expected_created. cbv zeta.
  replace (has_trailer (AVCProfileIndication x)) with true by (symmetry; exact Ht).
  reflexivity.
Qed.
