(* C15HevcSliceMainProofs.v — the block `if !sh.DependentSliceSegmentFlag { ... }` of
   hevc.ParseSliceHeader: reserved flags .. slice_loop_filter_across_slices_enabled_flag. *)
From V.lib Require Import Base.
From V.c13 Require Import C13Spec C13Model.
From V.c15 Require Import C15Model C15Spec C15BitProofs C15AvcSpsProofs C15AvcPpsProofs
  C15HevcModel C15HevcSpec C15HevcBitProofs C15HevcSpsRpsProofs C15HevcPpsProofs C15HevcSliceBaseProofs
  C15HevcSliceRpsProofs C15HevcSliceInterProofs.

Local Notation "x <- m ;; k" := (bind m (fun x => k))
  (at level 61, m at next level, right associativity).

Lemma cat_eq sp :
  (if hs_sep_plane sp && (sx_chroma_format_idc sp =? 3) then 0 else sx_chroma_format_idc sp)
  = hs_chroma_array_type sp.
Proof.
  unfold hs_chroma_array_type, hs_sep_plane.
  destruct (sx_chroma_format_idc sp =? 3), (sx_separate_colour_plane_flag sp); reflexivity.
Qed.

(* the value of the block, in the form expected_hslice uses *)
Definition exp_main sp pp v :=
  let n (c : bool) (x : N) := if c then x else 0 in
  let zz (c : bool) (k : Z) := if c then k else 0%Z in
  let m := hs_main pp v in
  let cq := m && sx_pps_slice_chroma_qp_offsets_present_flag pp in
  let aq := m && hs_act_qp pp in
  let bt := hs_dbf_override pp v && negb (sx_slice_deblocking_filter_disabled_flag v) in
  (n m (sx_slice_type v),
   m && sx_output_flag_present_flag pp && sx_pic_output_flag v,
   n (m && hs_sep_plane sp) (sx_colour_plane_id v),
   n (hs_nidr pp v) (sx_slice_pic_order_cnt_lsb v),
   hs_nidr pp v && sx_short_term_ref_pic_set_sps_flag v,
   expected_hslice_rps sp pp v, hs_st_idx sp pp v,
   (lenN (hs_lt_sps_entries sp pp v), lenN (hs_lt_pics_entries sp pp v),
    map (lt_val_sps sp) (hs_lt_sps_entries sp pp v) ++ map lt_val_pics (hs_lt_pics_entries sp pp v)),
   hs_tmvp sp pp v, (hs_sao_luma sp pp v, hs_sao_chroma sp pp v),
   (hs_override pp v, n (hs_inter pp v) (hs_l0 pp v), n (hs_inter pp v) (hs_l1 pp v),
    (if hs_rplm sp pp v
     then Some (sx_ref_pic_list_modification_flag_l0 v,
                (if sx_ref_pic_list_modification_flag_l0 v then sx_list_entry_l0 v else []),
                hs_is_b pp v && sx_ref_pic_list_modification_flag_l1 v,
                (if hs_is_b pp v && sx_ref_pic_list_modification_flag_l1 v then sx_list_entry_l1 v else []))
     else None),
    hs_is_b pp v && sx_mvd_l1_zero_flag v,
    hs_inter pp v && sx_cabac_init_present_flag pp && sx_cabac_init_flag v,
    (if hs_inter pp v && hs_tmvp sp pp v then hs_col_l0 pp v else true),
    n (hs_col_idx sp pp v) (sx_collocated_ref_idx v),
    (if hs_pwt pp v
     then Some (sx_luma_log2_weight_denom v, zz (hs_cat_nz sp) (sx_delta_chroma_log2_weight_denom v),
                map (expected_hpwt sp) (sx_pwt_l0 v),
                (if hs_is_b pp v then map (expected_hpwt sp) (sx_pwt_l1 v) else []))
     else None),
    n (hs_inter pp v) (sx_five_minus_max_num_merge_cand v),
    hs_inter pp v && hs_mvres2 sp && sx_use_integer_mv_flag v),
   (zz m (sx_slice_qp_delta v), zz cq (sx_slice_cb_qp_offset v), zz cq (sx_slice_cr_qp_offset v),
    zz aq (sx_slice_act_y_qp_offset v), zz aq (sx_slice_act_cb_qp_offset v),
    zz aq (sx_slice_act_cr_qp_offset v),
    m && hs_cqp_list pp && sx_cu_chroma_qp_offset_enabled_flag v),
   (hs_dbf_override pp v, m && hs_dbf_disabled pp v,
    zz bt (sx_slice_beta_offset_div2 v), zz bt (sx_slice_tc_offset_div2 v),
    hs_lf_across sp pp v && sx_slice_loop_filter_across_slices_enabled_flag v)).

Lemma exp_main_dep sp pp v : hs_main pp v = false -> exp_main sp pp v = hslice_main_zero.
Proof.
  intros Hm. unfold exp_main, hslice_main_zero. cbv zeta.
  unfold expected_hslice_rps, hs_st_idx, hs_st_idx_coded, hs_lt_sps_entries, hs_lt_pics_entries, hs_lt_on,
    hs_tmvp, hs_sao_luma, hs_sao_chroma, hs_override, hs_rplm, hs_col_idx, hs_pwt, hs_inter, hs_is_p, hs_is_b,
    hs_dbf_override, hs_lf_across, hs_nidr.
  rewrite Hm. cbn [andb negb orb map app lenN length N.of_nat]. rewrite !Bool.andb_false_r. reflexivity.
Qed.

Lemma parses_slice_main raw sp pp v pos :
  hsps_valid sp = true -> hpps_valid pp = true -> hslice_valid sp pp v = true ->
  hs_main pp v = true ->
  parses raw (hparse_slice_main BR (hs_nt v) (expected_hsps sp) (expected_hpps pp)) pos
         (ser_hslice_main sp pp v) (exp_main sp pp v).
Proof.
  intros Hs Hp Hv Hm.
  assert (Hv' := Hv). unfold hslice_valid in Hv'. split_all.
  unfold hparse_slice_main, ser_hslice_main. cbv zeta.
  esp_rewrite. rewrite !cat_eq. fold (hs_cat_nz sp). fold (hs_idr v).
  (* slice_reserved_flag *)
  eapply parses_bind.
  { pose proof (parses_rep_n raw (rd_flag BR) fl (fun b : bool => b) (sx_slice_reserved_flags v)
                  (sx_num_extra_slice_header_bits pp) pos) as P.
    rewrite flat_map_fl, map_id in P. apply P; [lia | unfold loop_bound; unfold hpps_valid in Hp; cbv zeta in Hp; split_all; lia|].
    intros. apply parses_flag. }
  cbv beta.
  pbind ltac:(apply parses_ue).
  pbind ltac:(apply (parses_opt raw _ (sx_output_flag_present_flag pp) _ (sx_pic_output_flag v) false);
              intros _; apply parses_flag).
  pbind ltac:(apply (parses_opt raw _ (hs_sep_plane sp) _ (sx_colour_plane_id v) 0);
              intros _; plast ltac:(apply parses_rd; change (2 ^ 2) with 4; lia);
              apply parses_ret_eq; apply hu8_id; lia).
  pbind ltac:(apply (parses_sl_rf raw sp pp v); assumption).
  (* sao *)
  eapply parses_bind.
  { instantiate (1 := (hs_sao_luma sp pp v, hs_sao_chroma sp pp v)).
    unfold hs_sao_luma, hs_sao_chroma. rewrite Hm. cbn [andb].
    destruct (sx_sample_adaptive_offset_enabled_flag sp); cbn [opt_bits andb]; [|apply parses_ret].
    pbind ltac:(apply parses_flag).
    plast ltac:(apply (parses_opt raw _ (hs_cat_nz sp) _ (sx_slice_sao_chroma_flag v) false);
                intros _; apply parses_flag).
    apply parses_ret_eq. destruct (hs_cat_nz sp); reflexivity. }
  cbv beta.
  pbind ltac:(apply (parses_sl_inter raw sp pp v); assumption).
  pbind ltac:(apply parses_se).
  (* chroma qp offsets *)
  eapply parses_bind.
  { instantiate (1 := ((if sx_pps_slice_chroma_qp_offsets_present_flag pp then sx_slice_cb_qp_offset v else 0%Z),
                       (if sx_pps_slice_chroma_qp_offsets_present_flag pp then sx_slice_cr_qp_offset v else 0%Z))).
    destruct (sx_pps_slice_chroma_qp_offsets_present_flag pp); cbn [opt_bits]; [|apply parses_ret].
    pbind ltac:(apply parses_se). plast ltac:(apply parses_se).
    apply parses_ret_eq. rewrite !i8_id by assumption. reflexivity. }
  cbv beta.
  (* act qp offsets *)
  eapply parses_bind.
  { instantiate (1 := ((if hs_act_qp pp then sx_slice_act_y_qp_offset v else 0%Z),
                       (if hs_act_qp pp then sx_slice_act_cb_qp_offset v else 0%Z),
                       (if hs_act_qp pp then sx_slice_act_cr_qp_offset v else 0%Z))).
    unfold hs_act_qp.
    destruct (hpps_ext_on pp sx_pps_scc_extension_flag); cbn [andb opt_bits]; [|apply parses_ret].
    cbn [ps_slice_act_qp_present expected_hppsscc].
    destruct (sx_residual_adaptive_colour_transform_enabled_flag (sx_pps_scc_extension pp)
              && sx_pps_slice_act_qp_offsets_present_flag (sx_pps_scc_extension pp)); cbn [opt_bits];
      [|apply parses_ret].
    pbind ltac:(apply parses_se). pbind ltac:(apply parses_se). plast ltac:(apply parses_se).
    apply parses_ret_eq. rewrite !i8_id by assumption. reflexivity. }
  cbv beta.
  (* cu_chroma_qp_offset_enabled_flag *)
  eapply parses_bind.
  { instantiate (1 := hs_cqp_list pp && sx_cu_chroma_qp_offset_enabled_flag v).
    unfold hs_cqp_list.
    destruct (hpps_ext_on pp sx_pps_range_extension_flag); cbn [andb opt_bits]; [|apply parses_ret].
    cbn [pr_cqp_list_enabled expected_hppsrange].
    destruct (sx_chroma_qp_offset_list_enabled_flag (sx_pps_range_extension pp)); cbn [opt_bits andb];
      [apply parses_flag | apply parses_ret]. }
  cbv beta.
  (* deblocking *)
  eapply parses_bind.
  { apply (parses_optv raw _ (sx_deblocking_filter_control_present_flag pp
                              && sx_deblocking_filter_override_enabled_flag pp) _
             (hs_dbf_override pp v) false).
    - intros Hc. apply andb_prop in Hc. destruct Hc as [Hc1 Hc2].
      unfold hs_dbf_override. rewrite Hm, Hc1, Hc2. cbn [andb]. apply parses_flag.
    - intros Hc. unfold hs_dbf_override. rewrite Hm. cbn [andb]. rewrite Hc. reflexivity. }
  cbv beta.
  eapply parses_bind.
  { instantiate (1 := (hs_dbf_disabled pp v,
                       ((if hs_dbf_override pp v && negb (sx_slice_deblocking_filter_disabled_flag v)
                         then sx_slice_beta_offset_div2 v else 0%Z),
                        (if hs_dbf_override pp v && negb (sx_slice_deblocking_filter_disabled_flag v)
                         then sx_slice_tc_offset_div2 v else 0%Z)))).
    unfold hs_dbf_disabled.
    destruct (hs_dbf_override pp v); cbn [opt_bits andb]; [|apply parses_ret].
    pbind ltac:(apply parses_flag).
    destruct (sx_slice_deblocking_filter_disabled_flag v); cbn [negb opt_bits].
    - apply parses_bind_ret. apply parses_ret.
    - eapply parses_bind_nil.
      { pbind ltac:(apply parses_se). plast ltac:(apply parses_se). apply parses_ret. }
      cbv beta. apply parses_ret_eq. rewrite !i8_id by assumption. reflexivity. }
  cbv beta iota zeta. cbn [fst snd].
  plast ltac:(apply (parses_opt raw _ (sx_pps_loop_filter_across_slices_enabled_flag pp
                                       && (hs_sao_luma sp pp v || hs_sao_chroma sp pp v
                                           || negb (hs_dbf_disabled pp v))) _
                       (sx_slice_loop_filter_across_slices_enabled_flag v) false);
              intros _; apply parses_flag).
  apply parses_ret_eq.
  unfold exp_main. cbv zeta. unfold hs_lf_across. rewrite Hm. cbn [andb].
  destruct (sx_pps_loop_filter_across_slices_enabled_flag pp
            && (hs_sao_luma sp pp v || hs_sao_chroma sp pp v || negb (hs_dbf_disabled pp v)));
    reflexivity.
Qed.
