(* C15InitTheorems.v — property C15 for sample descriptions built from parameter sets
   (mp4 TrakBox.SetAVCDescriptor / SetHEVCDescriptor): tkhd width/height (16.16 fixed point), the
   sample entry's 16-bit width/height = the cropped picture size of the first SPS; the avcC / hvcC
   record = the configuration record of the specification, encoded as laid out in ISO/IEC 14496-15. *)
From V.lib Require Import Base.
From V.c13 Require Import C13Spec C13Model.
From V.c15 Require Import C15Model C15Spec C15AvcConfModel C15AvcConfSpec C15HevcModel C15HevcSpec
  C15HevcConfModel C15HevcConfSpec C15InitModel C15InitSpec C15InitProofs C15Examples C15HevcConfExamples
  C15SliceMapsProofs.
From V.c16 Require Import C16ConfRecModel.

(* strict = "hvc1" (parameter sets required and flagged complete), otherwise "hev1" *)
Theorem C15_hevc_init : forall v strict vps rest ppss inc,
  hsps_valid v = true -> hconf_depths_fit v = true ->
  nalus_fit vps = true -> nalus_fit (hnalu_sps v :: rest) = true -> nalus_fit ppss = true ->
  (strict = true -> inc = true) ->
  hinit_observe hparse_sps_br strict vps (hnalu_sps v :: rest) ppss inc
  = Ok (expected_hinit v strict vps (hnalu_sps v :: rest) ppss inc).
Proof. exact hevc_init. Qed.
Print Assumptions C15_hevc_init.

(* 1920x1088 coded, conformance window -> 1920x1080: 125829120 = 1920 * 65536, 70778880 = 1080 * 65536 *)
Example C15_hevc_init_hyp :
  hsps_valid ex_hconf_sps = true /\ hconf_depths_fit ex_hconf_sps = true
  /\ nalus_fit ex_hconf_vps = true /\ nalus_fit [hnalu_sps ex_hconf_sps] = true /\ nalus_fit ex_hconf_pps = true
  /\ hinit_observe hparse_sps_br true ex_hconf_vps [hnalu_sps ex_hconf_sps] ex_hconf_pps true
     = Ok (expected_hinit ex_hconf_sps true ex_hconf_vps [hnalu_sps ex_hconf_sps] ex_hconf_pps true)
  /\ firstn 4 (expected_hinit ex_hconf_sps true ex_hconf_vps [hnalu_sps ex_hconf_sps] ex_hconf_pps true)
     = [125829120; 70778880; 1920; 1080]%Z.
Proof. vm_compute. repeat split; reflexivity. Qed.

(* strict = "avc1" (parameter sets required), otherwise "avc3".  The last hypothesis: the record fits the
   syntax of 14496-15 5.3.3.1.2 (<= 31 SPS, <= 255 PPS, NAL units of <= 65535 bytes) *)
Theorem C15_avc_init : forall sp strict rest ppss inc,
  sps_valid sp = true -> ainit_fits sp = true -> (strict = true -> inc = true) ->
  confrec_syntax_valid (confrec_of_sps sp (nalu_sps sp :: rest) ppss inc) = true ->
  ainit_observe (parse_sps_br false) strict (nalu_sps sp :: rest) ppss inc
  = Ok (expected_ainit sp (nalu_sps sp :: rest) ppss inc).
Proof. exact avc_init. Qed.
Print Assumptions C15_avc_init.

(* 1914x1080 (cropped): 125435904 = 1914 * 65536 *)
Example C15_avc_init_hyp :
  sps_valid ex_sps = true /\ ainit_fits ex_sps = true
  /\ confrec_syntax_valid (confrec_of_sps ex_sps [nalu_sps ex_sps] [nalu_pps ex_pps] true) = true
  /\ ainit_observe (parse_sps_br false) true [nalu_sps ex_sps] [nalu_pps ex_pps] true
     = Ok (expected_ainit ex_sps [nalu_sps ex_sps] [nalu_pps ex_pps] true)
  /\ firstn 4 (expected_ainit ex_sps [nalu_sps ex_sps] [nalu_pps ex_pps] true)
     = [125435904; 70778880; 1914; 1080]%Z.
Proof. vm_compute. repeat split; reflexivity. Qed.

(* ---- the slice-header parsers see the parse history only through the contents of the maps they are
   handed: PPS parsed earlier against another SPS map, parameter sets replaced or deleted in between,
   several ids alive - nothing of that matters beyond what spsMap / ppsMap hold AT THE CALL.  (In the
   models a parsed PPS is a plain record with no reference to an SPS and the parsers take exactly the
   two maps; C15_avc_slice / C15_hevc_slice are stated for arbitrary maps.)  The correspondence replays
   such histories on the real API. *)
Theorem C15_avc_slice_maps_only : forall sm sm' pm pm' nalu,
  (forall id, pm id = pm' id) -> (forall id, sm id = sm' id) ->
  parse_slice_br sm pm nalu = parse_slice_br sm' pm' nalu
  /\ parse_slice_er sm pm nalu = parse_slice_er sm' pm' nalu.
Proof. exact (fun sm sm' pm pm' nalu Hp Hs =>
                conj (avc_slice_br_maps_only sm sm' pm pm' nalu Hp Hs)
                     (avc_slice_er_maps_only sm sm' pm pm' nalu Hp Hs)). Qed.
Print Assumptions C15_avc_slice_maps_only.

Theorem C15_hevc_slice_maps_only : forall sm sm' pm pm' nalu,
  (forall id, pm id = pm' id) -> (forall id, sm id = sm' id) ->
  hparse_slice_br sm pm nalu = hparse_slice_br sm' pm' nalu
  /\ hparse_slice_er sm pm nalu = hparse_slice_er sm' pm' nalu.
Proof. exact (fun sm sm' pm pm' nalu Hp Hs =>
                conj (hevc_slice_br_maps_only sm sm' pm pm' nalu Hp Hs)
                     (hevc_slice_er_maps_only sm sm' pm pm' nalu Hp Hs)). Qed.
Print Assumptions C15_hevc_slice_maps_only.
