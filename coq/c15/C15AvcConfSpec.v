(* C15AvcConfSpec.v — INDEPENDENT reading of ISO/IEC 14496-15 5.3.3.1.2 (AVCDecoderConfigurationRecord)
   and of RFC 6381 3.3 / ISO/IEC 14496-15 Annex E ("avc1.PPCCLL": the hexadecimal representation of
   profile_idc, the byte holding the constraint_set flags, and level_idc of the SPS).  Definitions only;
   trusted base.

     aligned(8) class AVCDecoderConfigurationRecord {
       unsigned int(8) configurationVersion = 1;
       unsigned int(8) AVCProfileIndication;  unsigned int(8) profile_compatibility;
       unsigned int(8) AVCLevelIndication;
       bit(6) reserved = '111111'b;  unsigned int(2) lengthSizeMinusOne;
       bit(3) reserved = '111'b;     unsigned int(5) numOfSequenceParameterSets;
       for (i = 0; i < numOfSequenceParameterSets; i++) {
         unsigned int(16) sequenceParameterSetLength;
         bit(8*sequenceParameterSetLength) sequenceParameterSetNALUnit; }
       unsigned int(8) numOfPictureParameterSets;
       for (i = 0; i < numOfPictureParameterSets; i++) {
         unsigned int(16) pictureParameterSetLength;
         bit(8*pictureParameterSetLength) pictureParameterSetNALUnit; }
       if (AVCProfileIndication != 66 && AVCProfileIndication != 77 && AVCProfileIndication != 88) {
         bit(6) reserved = '111111'b;  unsigned int(2) chroma_format;
         bit(5) reserved = '11111'b;   unsigned int(3) bit_depth_luma_minus8;
         bit(5) reserved = '11111'b;   unsigned int(3) bit_depth_chroma_minus8;
         unsigned int(8) numOfSequenceParameterSetExt;   (* 0: no SPS extension NAL units *)
       } }                                                                                   *)
From V.lib Require Import Base.
From V.c13 Require Import C13Spec.
From V.c15 Require Import C15Model C15Spec C15AvcConfModel.

Record confrec_syntax := mkConfSyn {
  AVCProfileIndication : N; profile_compatibility : N; AVCLevelIndication : N;
  sequenceParameterSetNALUnits : list (list N); pictureParameterSetNALUnits : list (list N);
  chroma_format : N; cr_bit_depth_luma_minus8 : N; cr_bit_depth_chroma_minus8 : N }.

Definition has_trailer (profile : N) : bool := negb (existsb (N.eqb profile) [66; 77; 88]).

(* the bits of the record, field by field, with the descriptors of C15Spec (u(n), most significant bit first) *)
Definition ser_byte_bits (b : N) : list bool := u 8 b.
Definition ser_ps_bits (nalu : list N) : list bool := u 16 (lenN nalu) ++ flat_map ser_byte_bits nalu.
Definition ser_confrec_bits (x : confrec_syntax) : list bool :=
  u 8 1 ++ u 8 (AVCProfileIndication x) ++ u 8 (profile_compatibility x) ++ u 8 (AVCLevelIndication x)
  ++ u 6 63 ++ u 2 3                                    (* reserved, lengthSizeMinusOne = 3 (4-byte NAL lengths) *)
  ++ u 3 7 ++ u 5 (lenN (sequenceParameterSetNALUnits x))
  ++ flat_map ser_ps_bits (sequenceParameterSetNALUnits x)
  ++ u 8 (lenN (pictureParameterSetNALUnits x))
  ++ flat_map ser_ps_bits (pictureParameterSetNALUnits x)
  ++ (if has_trailer (AVCProfileIndication x)
      then u 6 63 ++ u 2 (chroma_format x) ++ u 5 31 ++ u 3 (cr_bit_depth_luma_minus8 x)
           ++ u 5 31 ++ u 3 (cr_bit_depth_chroma_minus8 x) ++ u 8 0
      else []).
Definition ser_confrec (x : confrec_syntax) : list N := bytes_of_bits (ser_confrec_bits x).

Definition is_byte (b : N) : bool := b <? 256.
Definition ps_ok (nalu : list N) : bool := (lenN nalu <? 65536) && forallb is_byte nalu.

Definition confrec_syntax_valid (x : confrec_syntax) : bool :=
  (AVCProfileIndication x <? 256) && (profile_compatibility x <? 256) && (AVCLevelIndication x <? 256)
  && (lenN (sequenceParameterSetNALUnits x) <? 32) && (lenN (pictureParameterSetNALUnits x) <? 256)
  && forallb ps_ok (sequenceParameterSetNALUnits x) && forallb ps_ok (pictureParameterSetNALUnits x)
  && (chroma_format x <? 4) && (cr_bit_depth_luma_minus8 x <? 8) && (cr_bit_depth_chroma_minus8 x <? 8).

(* what a reader of the record knows: the trailer fields exist only for the profiles that carry them *)
Definition expected_confrec (x : confrec_syntax) : confrec :=
  let t := has_trailer (AVCProfileIndication x) in
  mkConf (AVCProfileIndication x) (profile_compatibility x) (AVCLevelIndication x)
         (sequenceParameterSetNALUnits x) (pictureParameterSetNALUnits x)
         (if t then chroma_format x else 0) (if t then cr_bit_depth_luma_minus8 x else 0)
         (if t then cr_bit_depth_chroma_minus8 x else 0) 0 false.

(* the record that describes a stream whose first SPS is sp (5.3.3.1.2: "AVCProfileIndication contains
   the profile code as defined in ISO/IEC 14496-10", "profile_compatibility is a byte defined exactly
   the same as the byte which occurs between the profile_IDC and level_IDC in a sequence parameter
   set", chroma_format / bit depths = those of the SPS, inferred 4:2:0 8 bit when not coded) *)
Definition confrec_of_sps (sp : sps_syntax) (spss ppss : list (list N)) (include_ps : bool) : confrec_syntax :=
  let hp := has_chroma_block (profile_idc sp) in
  mkConfSyn (profile_idc sp) (compat_byte sp) (level_idc sp)
            (if include_ps then spss else []) (if include_ps then ppss else [])
            (eff_chroma_format_idc sp) (if hp then bit_depth_luma_minus8 sp else 0)
            (if hp then bit_depth_chroma_minus8 sp else 0).

(* the Go structure that CreateAVCDecConfRec is expected to return for it (every field, also for 66/77/88) *)
Definition expected_created (sp : sps_syntax) (spss ppss : list (list N)) (include_ps : bool) : confrec :=
  let x := confrec_of_sps sp spss ppss include_ps in
  mkConf (AVCProfileIndication x) (profile_compatibility x) (AVCLevelIndication x)
         (sequenceParameterSetNALUnits x) (pictureParameterSetNALUnits x)
         (chroma_format x) (cr_bit_depth_luma_minus8 x) (cr_bit_depth_chroma_minus8 x) 0 false.

(* ---- codec string: "<sample entry>.PPCCLL", two upper-case hexadecimal digits per byte *)
Definition hex_char (d : N) : N := nth (N.to_nat d) [48; 49; 50; 51; 52; 53; 54; 55; 56; 57; 65; 66; 67; 68; 69; 70] 63.
Definition hex_byte (b : N) : list N := [hex_char (b / 16); hex_char (b mod 16)].
Definition codec_string_spec (sample_entry : list N) (sp : sps_syntax) : list N :=
  sample_entry ++ [46] ++ hex_byte (profile_idc sp) ++ hex_byte (compat_byte sp) ++ hex_byte (level_idc sp).

(* ---- the observables of one create -> encode -> decode -> codec-string run (C15AvcConfModel.conf_obs)
   computed from the specification only *)
Definition expected_conf_obs (sp : sps_syntax) (spss ppss : list (list N)) (include_ps : bool)
           (entry : list N) : list Z :=
  let x := confrec_of_sps sp spss ppss include_ps in
  let bs := ser_confrec x in
  flat_confrec (expected_created sp spss ppss include_ps) ++ [zn (lenN bs)]
  ++ 1%Z :: flat_bytes bs ++ 1%Z :: flat_confrec (expected_confrec x)
  ++ flat_bytes (codec_string_spec entry sp).


(* the observables of DecodeAVCDecConfRec (C15AvcConfModel.decode_obs) on the serialised record:
   the record a reader knows, its size, and a re-encoding equal to the input *)
Definition expected_decode_obs (x : confrec_syntax) : list Z :=
  let bs := ser_confrec x in
  flat_confrec (expected_confrec x) ++ [zn (lenN bs)] ++ 1%Z :: flat_bytes bs.
