(* C15InitSpec.v — what a sample description built from parameter sets must carry (ISO/IEC 14496-12
   8.3.2 tkhd width/height as 16.16 fixed point, 12.1.3 VisualSampleEntry width/height, 14496-15 avcC /
   hvcC): the cropped picture size of the first SPS and the configuration record of C15AvcConfSpec /
   C15HevcConfSpec.  Definitions only; trusted base. *)
From V.lib Require Import Base.
From V.c13 Require Import C13Spec.
From V.c15 Require Import C15Model C15Spec C15AvcConfModel C15AvcConfSpec C15HevcModel C15HevcSpec
     C15HevcConfModel C15HevcConfSpec.
From V.c16 Require Import C16ConfRecModel.

(* the 16-bit fields of the sample entry hold the size *)
Definition ainit_fits (sp : sps_syntax) : bool := (display_width sp <? 65536) && (display_height sp <? 65536).

Definition expected_ainit (sp : sps_syntax) (spss ppss : list (list N)) (include_ps : bool) : list Z :=
  [zn (display_width sp * 65536); zn (display_height sp * 65536); zn (display_width sp); zn (display_height sp)]
  ++ flat_confrec (expected_created sp spss ppss include_ps)
  ++ 1%Z :: flat_bytes (ser_confrec (confrec_of_sps sp spss ppss include_ps)).

Definition expected_hinit (v : hsps_syntax) (strict : bool) (vps spss ppss : list (list N))
           (include_ps : bool) : list Z :=
  let '(w, h) := expected_himage_size v in
  [zn (w * 65536); zn (h * 65536); zn w; zn h]
  ++ flat_hevc_rec (expected_hconf v vps spss ppss strict strict strict include_ps)
  ++ flat_nlist (spec_hvcc v vps spss ppss strict strict strict include_ps).
