(* C15InitProofs.v — sample descriptions built from parameter sets (models of TrakBox.SetAVCDescriptor /
   SetHEVCDescriptor): track-header and sample-entry width/height are the cropped picture size of the
   first SPS, the avcC / hvcC record is the configuration record of the spec and its encoding the byte
   layout of ISO/IEC 14496-15.  Composition of the SPS, dimension and configuration-record theorems. *)
From V.lib Require Import Base.
From V.c13 Require Import C13Spec C13Model.
From V.c15 Require Import C15Model C15Spec C15BitProofs C15AvcSpsProofs C15AvcVuiProofs
  C15AvcConfModel C15AvcConfSpec C15AvcConfProofs
  C15HevcModel C15HevcSpec C15HevcSpsProofs C15HevcConfModel C15HevcConfSpec C15HevcConfProofs
  C15HevcConfEncProofs C15InitModel C15InitSpec.
From V.c16 Require Import C16ConfRecModel.

Lemma dim_fix w : w < 65536 -> u32 (w * 65536) = w * 65536 /\ u16 w = w /\ u32 (u64 (w * 65536)) = w * 65536.
Proof. intros H. unfold u32, u16, u64. rewrite !N.mod_small by lia. repeat split. Qed.

(* ------------------------------------------------------------------ HEVC *)
Lemma hevc_init v strict vps rest ppss inc :
  hsps_valid v = true -> hconf_depths_fit v = true ->
  nalus_fit vps = true -> nalus_fit (hnalu_sps v :: rest) = true -> nalus_fit ppss = true ->
  (strict = true -> inc = true) ->
  hinit_observe hparse_sps_br strict vps (hnalu_sps v :: rest) ppss inc
  = Ok (expected_hinit v strict vps (hnalu_sps v :: rest) ppss inc).
Proof.
  intros Hv Hd _ _ _ Hs.
  assert (Hw : h_display_width v < 65536 /\ h_display_height v < 65536).
  { pose proof Hv as Hv'. unfold hsps_valid in Hv'. cbv zeta in Hv'. split_all.
    unfold h_display_width, h_display_height. lia. }
  destruct Hw as [Hw Hh].
  destruct (dim_fix _ Hw) as (W1 & W2 & _). destruct (dim_fix _ Hh) as (H1 & H2 & _).
  unfold hinit_observe, expected_hinit.
  rewrite (hevc_sps v Hv), (hevc_dims v Hv). unfold expected_himage_size.
  replace (strict && negb inc) with false by (destruct strict, inc; try reflexivity; specialize (Hs eq_refl); discriminate).
  rewrite (hevc_confrec_create hparse_sps_br v vps rest ppss strict strict strict inc (hevc_sps v Hv)).
  rewrite (hevc_confrec_encode_eq v vps (hnalu_sps v :: rest) ppss strict strict strict inc Hv Hd).
  rewrite W1, W2, H1, H2. reflexivity.
Qed.

(* ------------------------------------------------------------------ AVC *)
Lemma avc_init sp strict rest ppss inc :
  sps_valid sp = true -> ainit_fits sp = true -> (strict = true -> inc = true) ->
  confrec_syntax_valid (confrec_of_sps sp (nalu_sps sp :: rest) ppss inc) = true ->
  ainit_observe (parse_sps_br false) strict (nalu_sps sp :: rest) ppss inc
  = Ok (expected_ainit sp (nalu_sps sp :: rest) ppss inc).
Proof.
  intros Hv Hf Hs Hx.
  unfold ainit_fits in Hf. apply andb_prop in Hf. destruct Hf as [Hw Hh].
  destruct (dim_fix (display_width sp) ltac:(lia)) as (_ & W2 & W3).
  destruct (dim_fix (display_height sp) ltac:(lia)) as (_ & H2 & H3).
  set (spss := nalu_sps sp :: rest) in *.
  set (x := confrec_of_sps sp spss ppss inc) in *.
  assert (Hsx : syntax_of (expected_created sp spss ppss inc) = x) by reflexivity.
  destruct (avc_confrec_encode (expected_created sp spss ppss inc)) as [He _];
    [rewrite Hsx; exact Hx | reflexivity | reflexivity |].
  rewrite Hsx in He. rewrite <- (ser_confrec_eq x Hx) in He.
  pose proof (avc_confrec_create sp rest ppss inc Hv) as Hc. fold spss in Hc.
  unfold create_confrec_br in Hc.
  unfold ainit_observe, expected_ainit.
  replace (strict && negb inc) with false by (destruct strict, inc; try reflexivity; specialize (Hs eq_refl); discriminate).
  unfold spss at 1. fold spss.
  rewrite (avc_sps_go sp false Hv). rewrite Hc, He.
  cbn [sps_width sps_height expected_sps_gen].
  rewrite W2, W3, H2, H3. reflexivity.
Qed.
