(* C15Avc2Theorems.v — property C15 for the AVC slice header after the repair of finding F7
   (/repo 174cc8e): the parser model of the repaired text (C15Avc2Model.parse_slice_header2) returns the
   coded values on EVERY valid slice, slice-group map types 3..5 (slice_group_change_cycle) included. *)
From V.lib Require Import Base.
From V.c13 Require Import C13Spec C13Model.
From V.c15 Require Import C15Model C15Spec C15Examples C15Avc2Model C15Avc2DimsProofs C15Avc2Proofs
  C15TieBaseProofs C15TieAvcProofs C15TieAvc2Proofs.

(* the statement of C15_avc_slice without its guard sl_has_fmo_cycle pp = false.  PicSizeInMapUnits < 2^32
   (the widths go through bits.CeilLog2, which answers at most 32; level limits keep PicSizeInMapUnits
   below 2^18) *)
Theorem C15_avc_slice_all : forall spsmap ppsmap sp pp v beyond cm s p,
  sps_valid sp = true -> pps_valid (eff_chroma_format_idc sp) pp = true -> slice_valid sp pp v = true ->
  pic_size_in_map_units sp < 4294967296 ->
  (pps_has_tail pp && pic_scaling_matrix_present_flag pp = true ->
   cm (pps_seq_parameter_set_id pp) = Some (eff_chroma_format_idc sp)) ->
  parse_sps_br beyond (nalu_sps sp) = Ok s -> parse_pps_br cm (nalu_pps pp) = Ok p ->
  ppsmap (sl_pic_parameter_set_id v) = Some p -> spsmap (pps_seq_parameter_set_id pp) = Some s ->
  parse_slice2_br spsmap ppsmap (nalu_slice sp pp v) = Ok (expected_slice sp pp v).
Proof. exact avc_slice2. Qed.
Print Assumptions C15_avc_slice_all.
(* the former witness of finding F7 (C15_avc_slice_fmo_refuted, about the text before the repair) *)
Example C15_avc_slice_all_hyps :
  sps_valid ex_fmo_sps = true /\ pps_valid (eff_chroma_format_idc ex_fmo_sps) ex_fmo_pps = true
  /\ slice_valid ex_fmo_sps ex_fmo_pps ex_fmo_slice = true /\ sl_has_fmo_cycle ex_fmo_pps = true
  /\ pic_size_in_map_units ex_fmo_sps < 4294967296
  /\ 0 < slice_group_change_cycle_bits ex_fmo_sps ex_fmo_pps
  /\ parse_slice2_br (fun _ => Some (expected_sps true ex_fmo_sps)) (fun _ => Some (expected_pps ex_fmo_pps))
       (nalu_slice ex_fmo_sps ex_fmo_pps ex_fmo_slice) = Ok (expected_slice ex_fmo_sps ex_fmo_pps ex_fmo_slice).
Proof. vm_compute. repeat split; reflexivity. Qed.

(* the derivation behind the repair: PicSizeInMapUnits = PicWidthInMbs * PicHeightInMapUnits is
   recomputed exactly from the fields avc.SPS keeps (cropped Width / Height, crop offsets,
   ChromaFormatIDC, FrameMbsOnlyFlag, FrameCroppingFlag) *)
Theorem C15_avc_pic_size_derivable : forall sp beyond s,
  sps_valid sp = true -> parse_sps_br beyond (nalu_sps sp) = Ok s ->
  sps_pic_size_in_map_units s = (pic_width_in_mbs_minus1 sp + 1) * (pic_height_in_map_units_minus1 sp + 1).
Proof. exact avc_pic_size_derivable. Qed.
Print Assumptions C15_avc_pic_size_derivable.

Theorem C15_reader_tie_avc_slice_all : forall raw spsmap ppsmap,
  bytes_ok raw = true -> zrun_ok raw = true ->
  (forall id s, spsmap id = Some s -> sps_narrow s = true) ->
  parse_slice2_er spsmap ppsmap (escape raw) = parse_slice2_br spsmap ppsmap (escape raw).
Proof. exact tie_avc_slice2. Qed.
Print Assumptions C15_reader_tie_avc_slice_all.

Theorem C15_avc_slice_all_er : forall spsmap ppsmap sp pp v beyond cm s p,
  sps_valid sp = true -> pps_valid (eff_chroma_format_idc sp) pp = true -> slice_valid sp pp v = true ->
  pic_size_in_map_units sp < 4294967296 ->
  (pps_has_tail pp && pic_scaling_matrix_present_flag pp = true ->
   cm (pps_seq_parameter_set_id pp) = Some (eff_chroma_format_idc sp)) ->
  zrun_ok (raw_sps sp) = true -> zrun_ok (raw_pps pp) = true -> zrun_ok (raw_slice sp pp v) = true ->
  (forall id x, spsmap id = Some x -> sps_narrow x = true) ->
  parse_sps_er beyond (nalu_sps sp) = Ok s -> parse_pps_er cm (nalu_pps pp) = Ok p ->
  ppsmap (sl_pic_parameter_set_id v) = Some p -> spsmap (pps_seq_parameter_set_id pp) = Some s ->
  parse_slice2_er spsmap ppsmap (nalu_slice sp pp v) = Ok (expected_slice sp pp v).
Proof. exact avc_slice2_er. Qed.
Print Assumptions C15_avc_slice_all_er.
