(* C15HevcSliceBaseProofs.v — tools for the HEVC slice segment header proof: bits.CeilLog2 =
   Ceil(Log2(.)), the byte_alignment() loop on the ideal bit reader, the bit reader started on a slice
   NAL unit (header bits, alignment bits, slice data), PicSizeInCtbsY in the model's uint arithmetic,
   the fields of the expected SPS / PPS, the uint8 NumPicTotalCurr accumulator. *)
From V.lib Require Import Base.
From V.c13 Require Import C13Spec C13Model C13EscProofs.
From V.c15 Require Import C15Model C15Spec C15BitProofs C15AvcSpsProofs C15AvcPpsProofs
  C15HevcModel C15HevcSpec C15HevcBitProofs C15HevcPpsProofs.

(* ------------------------------------------------------------------ bits.CeilLog2 *)
Lemma ceil_log2_from_eq : forall fuel i n,
  N.of_nat fuel + i = 32 -> n <= 2 ^ 32 -> (i = 0 \/ 2 ^ (i - 1) < n) ->
  ceil_log2_from fuel i n = N.log2_up n.
Proof.
  induction fuel as [|f IH]; intros i n Hf Hn Hi; cbn [ceil_log2_from].
  - assert (i = 32) by lia. subst i. destruct Hi as [Hi | Hi]; [lia|].
    symmetry. apply N.log2_up_unique; [lia|]. change (N.pred 32) with 31. change (32 - 1) with 31 in Hi.
    split; assumption.
  - destruct (n <=? 2 ^ i) eqn:E.
    + apply N.leb_le in E. symmetry.
      destruct (N.eq_dec i 0) as [-> | Hnz].
      * apply N.log2_up_eqn0. change (2 ^ 0) with 1 in E. exact E.
      * destruct Hi as [Hi | Hi]; [lia|].
        apply N.log2_up_unique; [lia|]. replace (N.pred i) with (i - 1) by lia. split; assumption.
    + apply N.leb_gt in E. apply IH; [lia | exact Hn | right].
      replace (i + 1 - 1) with i by lia. exact E.
Qed.

Lemma ceil_log2_eq n : n <= 2 ^ 32 -> ceil_log2 n = N.log2_up n.
Proof. intros H. unfold ceil_log2. apply ceil_log2_from_eq; [reflexivity | exact H | left; reflexivity]. Qed.

Lemma log2_up_bound n : 1 <= n -> n <= 2 ^ N.log2_up n.
Proof.
  intros H. destruct (N.eq_dec n 1) as [-> | Hn]; [cbn; lia|].
  apply N.log2_up_spec. lia.
Qed.

(* ------------------------------------------------------------------ byte_alignment() *)
Lemma halign_ok raw D : forall (k fuel : nat) pos,
  (k < fuel)%nat -> N.of_nat k = (8 - pos mod 8) mod 8 ->
  halign_loop BR br_bib fuel (mkB raw (repeat false k ++ D) pos false)
  = Ok (tt, mkB raw D (pos + N.of_nat k) false).
Proof.
  induction k as [|k IH]; intros fuel pos Hf Hk; (destruct fuel as [|f]; [lia|]); cbn [halign_loop].
  - assert (E : pos mod 8 = 0) by lia.
    unfold br_bib. cbn [bpos]. rewrite E. change (0 =? 0) with true. cbv iota.
    change (8 <? 8) with false. cbv iota. cbn [repeat app]. do 3 f_equal. lia.
  - assert (E : pos mod 8 <> 0) by lia.
    unfold br_bib. cbn [bpos].
    replace (pos mod 8 =? 0) with false by lia.
    replace (pos mod 8 <? 8) with true by lia.
    change (repeat false (S k) ++ D) with (fl false ++ (repeat false k ++ D)).
    rewrite (bind_parses raw _ _ pos (fl false) false _ (parses_flag raw false pos)).
    cbv iota. rewrite lenN_fl.
    rewrite IH by lia. do 3 f_equal. lia.
Qed.

(* ------------------------------------------------------------------ the bit reader on a slice NAL unit *)
Lemma bits_of_bytes_app a b : bits_of_bytes (a ++ b) = bits_of_bytes a ++ bits_of_bytes b.
Proof. unfold bits_of_bytes. apply flat_map_app. Qed.

Lemma binit_hslice sp pp v :
  binit (hnalu_slice sp pp v) =
  mkB (hraw_slice sp pp v)
      (hslice_hdr_bits sp pp v ++ trailing_bits (lenN (hslice_hdr_bits sp pp v))
       ++ bits_of_bytes (sx_slice_segment_data v)) 0 false.
Proof.
  unfold binit, hnalu_slice. rewrite unescape_escape. f_equal.
  unfold hraw_slice. rewrite bits_of_bytes_app.
  set (b := hslice_hdr_bits sp pp v).
  destruct (trailing_aligns (lenN b)) as [m Hm].
  rewrite (bits_of_bytes_of_bits m).
  - now rewrite <- app_assoc.
  - rewrite app_length. unfold lenN in Hm. rewrite Nat2N.id in Hm. exact Hm.
Qed.

(* ------------------------------------------------------------------ fields of the expected SPS / PPS *)
Lemma esp_log2_min_cb sp : h_log2_min_cb (expected_hsps sp) = sx_log2_min_luma_coding_block_size_minus3 sp.
Proof. reflexivity. Qed.
Lemma esp_log2_diff_cb sp : h_log2_diff_cb (expected_hsps sp) = sx_log2_diff_max_min_luma_coding_block_size sp.
Proof. reflexivity. Qed.
Lemma esp_width sp : h_width (expected_hsps sp) = sx_pic_width_in_luma_samples sp.
Proof. reflexivity. Qed.
Lemma esp_height sp : h_height (expected_hsps sp) = sx_pic_height_in_luma_samples sp.
Proof. reflexivity. Qed.
Lemma esp_sep_plane sp : h_sep_plane (expected_hsps sp) = hs_sep_plane sp.
Proof. reflexivity. Qed.
Lemma esp_chroma sp : h_chroma (expected_hsps sp) = sx_chroma_format_idc sp.
Proof. reflexivity. Qed.
Lemma esp_log2_poc sp : h_log2_poc (expected_hsps sp) = sx_log2_max_pic_order_cnt_lsb_minus4 sp.
Proof. reflexivity. Qed.
Lemma esp_num_st_rps sp : h_num_st_rps (expected_hsps sp) = hs_num_st sp.
Proof. reflexivity. Qed.
Lemma esp_st_rps sp :
  h_st_rps (expected_hsps sp)
  = map (fun p => expected_hrps (fst p) (snd p)) (combine (hs_sps_derived sp) (sx_st_ref_pic_sets sp)).
Proof. reflexivity. Qed.
Lemma esp_lt_present sp : h_lt_present (expected_hsps sp) = sx_long_term_ref_pics_present_flag sp.
Proof. reflexivity. Qed.
Lemma esp_num_lt sp : h_num_lt (expected_hsps sp) = hs_num_lt_sps_in_sps sp.
Proof. reflexivity. Qed.
Lemma esp_lt sp :
  h_lt (expected_hsps sp)
  = if sx_long_term_ref_pics_present_flag sp
    then map (fun e => mkHLt (fst e) (snd e) false 0) (sx_lt_ref_pics_sps sp) else [].
Proof. reflexivity. Qed.
Lemma esp_tmvp sp : h_tmvp (expected_hsps sp) = sx_sps_temporal_mvp_enabled_flag sp.
Proof. reflexivity. Qed.
Lemma esp_sao sp : h_sao (expected_hsps sp) = sx_sample_adaptive_offset_enabled_flag sp.
Proof. reflexivity. Qed.
Lemma esp_scc sp :
  h_scc (expected_hsps sp)
  = if hsps_ext_on sp sx_sps_scc_extension_flag
    then Some (expected_hspsscc (sx_sps_scc_extension sp)) else None.
Proof. reflexivity. Qed.

Lemma epp_sps_id pp : pp_sps_id (expected_hpps pp) = sx_pps_seq_parameter_set_id pp.
Proof. reflexivity. Qed.
Lemma epp_dep_slices pp : pp_dep_slices (expected_hpps pp) = sx_dependent_slice_segments_enabled_flag pp.
Proof. reflexivity. Qed.
Lemma epp_num_extra_bits pp : pp_num_extra_bits (expected_hpps pp) = sx_num_extra_slice_header_bits pp.
Proof. reflexivity. Qed.
Lemma epp_output_flag_present pp : pp_output_flag_present (expected_hpps pp) = sx_output_flag_present_flag pp.
Proof. reflexivity. Qed.
Lemma epp_l0 pp : pp_l0 (expected_hpps pp) = sx_num_ref_idx_l0_default_active_minus1 pp.
Proof. reflexivity. Qed.
Lemma epp_l1 pp : pp_l1 (expected_hpps pp) = sx_num_ref_idx_l1_default_active_minus1 pp.
Proof. reflexivity. Qed.
Lemma epp_lists_mod pp : pp_lists_mod (expected_hpps pp) = sx_lists_modification_present_flag pp.
Proof. reflexivity. Qed.
Lemma epp_scc pp :
  pp_scc (expected_hpps pp)
  = if hpps_ext_on pp sx_pps_scc_extension_flag then Some (expected_hppsscc (sx_pps_scc_extension pp)) else None.
Proof. reflexivity. Qed.
Lemma epp_range pp :
  pp_range (expected_hpps pp)
  = if hpps_ext_on pp sx_pps_range_extension_flag
    then Some (expected_hppsrange (sx_transform_skip_enabled_flag pp) (sx_pps_range_extension pp)) else None.
Proof. reflexivity. Qed.
Lemma epp_cabac_init_present pp : pp_cabac_init_present (expected_hpps pp) = sx_cabac_init_present_flag pp.
Proof. reflexivity. Qed.
Lemma epp_weighted_pred pp : pp_weighted_pred (expected_hpps pp) = sx_weighted_pred_flag pp.
Proof. reflexivity. Qed.
Lemma epp_weighted_bipred pp : pp_weighted_bipred (expected_hpps pp) = sx_weighted_bipred_flag pp.
Proof. reflexivity. Qed.
Lemma epp_slice_chroma_qp_present pp :
  pp_slice_chroma_qp_present (expected_hpps pp) = sx_pps_slice_chroma_qp_offsets_present_flag pp.
Proof. reflexivity. Qed.
Lemma epp_dbf_override_enabled pp :
  pp_dbf_override_enabled (expected_hpps pp)
  = sx_deblocking_filter_control_present_flag pp && sx_deblocking_filter_override_enabled_flag pp.
Proof. reflexivity. Qed.
Lemma epp_dbf_disabled pp :
  pp_dbf_disabled (expected_hpps pp)
  = sx_deblocking_filter_control_present_flag pp && sx_pps_deblocking_filter_disabled_flag pp.
Proof. reflexivity. Qed.
Lemma epp_lf_across_slices pp :
  pp_lf_across_slices (expected_hpps pp) = sx_pps_loop_filter_across_slices_enabled_flag pp.
Proof. reflexivity. Qed.
Lemma epp_tiles pp : pp_tiles (expected_hpps pp) = sx_tiles_enabled_flag pp.
Proof. reflexivity. Qed.
Lemma epp_entropy_sync pp : pp_entropy_sync (expected_hpps pp) = sx_entropy_coding_sync_enabled_flag pp.
Proof. reflexivity. Qed.
Lemma epp_slice_ext_present pp :
  pp_slice_ext_present (expected_hpps pp) = sx_slice_segment_header_extension_present_flag pp.
Proof. reflexivity. Qed.

Ltac esp_rewrite :=
  rewrite ?esp_log2_min_cb, ?esp_log2_diff_cb, ?esp_width, ?esp_height, ?esp_sep_plane, ?esp_chroma,
    ?esp_log2_poc, ?esp_num_st_rps, ?esp_st_rps, ?esp_lt_present, ?esp_num_lt, ?esp_lt, ?esp_tmvp,
    ?esp_sao, ?esp_scc,
    ?epp_sps_id, ?epp_dep_slices, ?epp_num_extra_bits, ?epp_output_flag_present, ?epp_l0, ?epp_l1,
    ?epp_lists_mod, ?epp_scc, ?epp_range, ?epp_cabac_init_present, ?epp_weighted_pred,
    ?epp_weighted_bipred, ?epp_slice_chroma_qp_present, ?epp_dbf_override_enabled, ?epp_dbf_disabled,
    ?epp_lf_across_slices, ?epp_tiles, ?epp_entropy_sync, ?epp_slice_ext_present.

(* ------------------------------------------------------------------ PicSizeInCtbsY *)
Lemma ceil_div_pow w c : 1 <= w -> w < 65536 -> (c = 16 \/ c = 32 \/ c = 64) ->
  ceil_div w c = (w + c - 1) / c /\ 1 <= (w + c - 1) / c /\ (w + c - 1) / c <= 4096.
Proof.
  intros H1 H2 Hc. unfold ceil_div, u64.
  destruct Hc as [-> | [-> | ->]].
  - replace ((w + 16 + 18446744073709551615) mod 18446744073709551616) with (w + 16 - 1) by lia. lia.
  - replace ((w + 32 + 18446744073709551615) mod 18446744073709551616) with (w + 32 - 1) by lia. lia.
  - replace ((w + 64 + 18446744073709551615) mod 18446744073709551616) with (w + 64 - 1) by lia. lia.
Qed.

Lemma hslice_ctb sp : hsps_valid sp = true ->
  let shift := u8 (sx_log2_min_luma_coding_block_size_minus3 sp + 3
                   + sx_log2_diff_max_min_luma_coding_block_size sp) in
  (shift <? 64) = true /\ (2 ^ shift =? 0) = false
  /\ u64 (ceil_div (sx_pic_width_in_luma_samples sp) (2 ^ shift)
          * ceil_div (sx_pic_height_in_luma_samples sp) (2 ^ shift)) = hs_pic_size_in_ctbs sp
  /\ 1 <= hs_pic_size_in_ctbs sp /\ hs_pic_size_in_ctbs sp <= 2 ^ 32.
Proof.
  intros Hv. unfold hsps_valid in Hv. cbv zeta in Hv. split_all. cbv zeta.
  unfold hs_pic_size_in_ctbs, hs_pic_width_in_ctbs, hs_pic_height_in_ctbs, hs_ctb_size, hs_ctb_log2.
  set (a := sx_log2_min_luma_coding_block_size_minus3 sp) in *.
  set (d := sx_log2_diff_max_min_luma_coding_block_size sp) in *.
  set (w := sx_pic_width_in_luma_samples sp) in *.
  set (h := sx_pic_height_in_luma_samples sp) in *.
  rewrite (hu8_id (a + 3 + d)) by lia.
  assert (Hs : a + 3 + d = 4 \/ a + 3 + d = 5 \/ a + 3 + d = 6) by lia.
  assert (Hc : 2 ^ (a + 3 + d) = 16 \/ 2 ^ (a + 3 + d) = 32 \/ 2 ^ (a + 3 + d) = 64)
    by (destruct Hs as [-> | [-> | ->]]; [left | right; left | right; right]; reflexivity).
  set (c := 2 ^ (a + 3 + d)) in *.
  destruct (ceil_div_pow w c) as (Ew & Lw & Uw); [lia | lia | exact Hc|].
  destruct (ceil_div_pow h c) as (Eh & Lh & Uh); [lia | lia | exact Hc|].
  rewrite Ew, Eh.
  set (qw := (w + c - 1) / c) in *. set (qh := (h + c - 1) / c) in *.
  assert (Hp : qw * qh <= 4096 * 4096) by (apply N.mul_le_mono; assumption).
  assert (Hq : 1 * 1 <= qw * qh) by (apply N.mul_le_mono; assumption).
  change (4096 * 4096) with 16777216 in Hp. change (1 * 1) with 1 in Hq.
  change (2 ^ 32) with 4294967296.
  repeat split; try lia.
  apply hu64_id. lia.
Qed.

(* ------------------------------------------------------------------ NumPicTotalCurr (uint8 accumulator) *)
Definition lt_acc (npt : N) (l : list bool) : N :=
  fold_left (fun a (b : bool) => if b then u8 (a + 1) else a) l npt.

Lemma countb_cons b l : countb (b :: l) = (if b then 1 else 0) + countb l.
Proof. unfold countb. cbn [filter]. destruct b; [rewrite lenN_cons|]; lia. Qed.

Lemma lt_acc_small : forall l a, a + countb l < 256 -> lt_acc a l = a + countb l.
Proof.
  induction l as [|b t IH]; intros a H; unfold lt_acc; cbn [fold_left].
  - unfold countb. cbn. lia.
  - rewrite countb_cons in *. fold (lt_acc (if b then u8 (a + 1) else a) t).
    destruct b.
    + rewrite hu8_id by lia. rewrite IH by lia. lia.
    + rewrite IH by lia. lia.
Qed.

Lemma lt_acc_app l1 l2 a : lt_acc a (l1 ++ l2) = lt_acc (lt_acc a l1) l2.
Proof. unfold lt_acc. apply fold_left_app. Qed.
