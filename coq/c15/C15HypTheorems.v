(* C15HypTheorems.v — round 4: (a) a hypothesis of the AVC slice reader ties discharged as an invariant
   of the decoder: EVERY SPS avc.ParseSPSNALUnit returns, on any bytes, has log2_max_frame_num_minus4 and
   log2_max_pic_order_cnt_lsb_minus4 <= 12 (the guards of /repo 6a5a0a9), so the hypothesis
   `forall id s, spsmap id = Some s -> sps_narrow s = true` holds of every spsMap filled by the parser;
   (b) the hypotheses of all reader ties as ONE executable predicate hyp_tie_raw on the NAL unit the
   parser is given; the extracted predicate is evaluated by the model driver on every case of every run
   (evidence: coverage.theorem_hypotheses_evaluated) and the ties' conclusion is compared there. *)
From V.lib Require Import Base.
From V.c13 Require Import C13Spec C13Model.
From V.c15 Require Import C15Model C15Spec C15Examples C15HevcModel C15HevcSpec C15HevcExamples
  C15Hevc2Model C15Avc2Model C15Avc2DimsProofs C15HypModel
  C15TieBaseProofs C15TieAvcProofs C15TieHevcProofs C15TieHevcSpsProofs C15HypProofs.

(* decoder invariant, both reader instances, EVERY input (well formed or not) *)
Theorem C15_avc_sps_parsed_narrow : forall beyond nalu s,
  parse_sps_er beyond nalu = Ok s \/ parse_sps_br beyond nalu = Ok s -> sps_narrow s = true.
Proof. intros b n s [H | H]; [exact (sps_narrow_parsed_er b n s H) | exact (sps_narrow_parsed_br b n s H)]. Qed.
Print Assumptions C15_avc_sps_parsed_narrow.

(* C15_reader_tie_avc_slice_all without its hypothesis on the parameter sets: sps_map_parsed spsmap =
   every entry of the map was returned by the SPS parser (on whatever bytes, by either instance) *)
Theorem C15_reader_tie_avc_slice_all_parsed : forall raw spsmap ppsmap,
  bytes_ok raw = true -> zrun_ok raw = true -> sps_map_parsed spsmap ->
  parse_slice2_er spsmap ppsmap (escape raw) = parse_slice2_br spsmap ppsmap (escape raw).
Proof. exact tie_avc_slice2_parsed. Qed.
Print Assumptions C15_reader_tie_avc_slice_all_parsed.

(* C15_avc_slice_all_er likewise *)
Theorem C15_avc_slice_all_er_parsed : forall spsmap ppsmap sp pp v beyond cm s p,
  sps_valid sp = true -> pps_valid (eff_chroma_format_idc sp) pp = true -> slice_valid sp pp v = true ->
  pic_size_in_map_units sp < 4294967296 ->
  (pps_has_tail pp && pic_scaling_matrix_present_flag pp = true ->
   cm (pps_seq_parameter_set_id pp) = Some (eff_chroma_format_idc sp)) ->
  zrun_ok (raw_sps sp) = true -> zrun_ok (raw_pps pp) = true -> zrun_ok (raw_slice sp pp v) = true ->
  sps_map_parsed spsmap ->
  parse_sps_er beyond (nalu_sps sp) = Ok s -> parse_pps_er cm (nalu_pps pp) = Ok p ->
  ppsmap (sl_pic_parameter_set_id v) = Some p -> spsmap (pps_seq_parameter_set_id pp) = Some s ->
  parse_slice2_er spsmap ppsmap (nalu_slice sp pp v) = Ok (expected_slice sp pp v).
Proof. exact avc_slice2_er_parsed. Qed.
Print Assumptions C15_avc_slice_all_er_parsed.

(* a parser-filled map; a log2 value of 13 is refused (the guard the invariant rests on) *)
Example C15_sps_map_parsed_hyps :
  sps_map_parsed (fun _ => Some (expected_sps true ex_sl_sps))
  /\ parse_sps_er true (nalu_sps ex_fmo_sps) = Ok (expected_sps true ex_fmo_sps)
  /\ sps_narrow (expected_sps true ex_fmo_sps) = true.
Proof.
  split; [|vm_compute; split; reflexivity].
  intros id s E. injection E as <-. exists true, (nalu_sps ex_sl_sps). left. vm_compute. reflexivity.
Qed.

(* the executable predicate is the ties' hypothesis, exactly *)
Theorem C15_tie_hypothesis_predicate :
  (forall nalu, hyp_tie_raw nalu = true ->
     exists raw, bytes_ok raw = true /\ zrun_ok raw = true /\ nalu = escape raw)
  /\ (forall raw, bytes_ok raw = true -> zrun_ok raw = true -> unescape (escape raw) = raw ->
        hyp_tie_raw (escape raw) = true)
  /\ (forall s, hyp_sps_narrow s = sps_narrow s) /\ (forall p, hyp_pps_narrow p = pps_narrow p)
  /\ (forall s, hyp_hsps_narrow s = hsps_narrow s) /\ (forall s, hyp_hsps_depths_ok s = hsps_depths_ok s).
Proof.
  exact (conj hyp_tie_raw_sound (conj hyp_tie_raw_complete (conj hyp_sps_narrow_eq (conj hyp_pps_narrow_eq
    (conj hyp_hsps_narrow_eq hyp_hsps_depths_ok_eq))))).
Qed.
Print Assumptions C15_tie_hypothesis_predicate.

(* the reader ties in the form the driver evaluates on the NAL units of a run: whenever the executable
   predicate holds of the bytes handed to the Go parser, the EBSP-reader instance and the ideal-reader
   instance (the one the C15_* value theorems are about) agree *)
Theorem C15_tie_applies :
  (forall nalu beyond, hyp_tie_raw nalu = true -> parse_sps_er beyond nalu = parse_sps_br beyond nalu)
  /\ (forall nalu spsmap, hyp_tie_raw nalu = true -> parse_pps_er spsmap nalu = parse_pps_br spsmap nalu)
  /\ (forall nalu spsmap ppsmap, hyp_tie_raw nalu = true ->
        (forall id s, spsmap id = Some s -> hyp_sps_narrow s = true) ->
        parse_slice2_er spsmap ppsmap nalu = parse_slice2_br spsmap ppsmap nalu)
  /\ (forall nalu spsmap, hyp_tie_raw nalu = true -> hparse_pps_er spsmap nalu = hparse_pps_br spsmap nalu)
  /\ (forall nalu spsmap, hyp_tie_raw nalu = true -> hparse_pps2_er spsmap nalu = hparse_pps2_br spsmap nalu)
  /\ (forall nalu spsmap ppsmap, hyp_tie_raw nalu = true ->
        (forall id s, spsmap id = Some s -> hyp_hsps_narrow s = true) ->
        hparse_slice_er spsmap ppsmap nalu = hparse_slice_br spsmap ppsmap nalu)
  /\ (forall nalu s, hyp_tie_raw nalu = true -> hparse_sps_br nalu = Ok s -> hyp_hsps_depths_ok s = true ->
        hparse_sps_er nalu = Ok s).
Proof.
  exact (conj tie_applies_avc_sps (conj tie_applies_avc_pps (conj tie_applies_avc_slice2 (conj tie_applies_hevc_pps
    (conj tie_applies_hevc_pps2 (conj tie_applies_hevc_slice tie_applies_hevc_sps)))))).
Qed.
Print Assumptions C15_tie_applies.

(* the predicate on concrete NAL units: a serialised SPS (true), an HEVC SPS with 4 emulation-prevention
   bytes (true), a dangling 00 00 03 (false: not a canonical escape), an unescaped 00 00 01 (false),
   a 64-bit zero run (false) *)
Example C15_tie_hypothesis_hyps :
  hyp_tie_raw (nalu_sps ex_sps) = true /\ hyp_tie_raw (hnalu_sps ex_hsps) = true
  /\ hyp_tie_raw [103; 66; 0; 0; 3] = false /\ hyp_tie_raw [103; 0; 0; 1; 128] = false
  /\ hyp_tie_raw [104; 0; 0; 3; 0; 0; 3; 0; 0; 3; 0; 0; 3; 0; 128] = false
  /\ hyp_tie_raw [104; 0; 0; 3; 1; 0; 0; 3; 0; 0; 3; 0; 2; 200; 128] = true.
Proof. vm_compute. repeat split; reflexivity. Qed.
