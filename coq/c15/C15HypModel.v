(* C15HypModel.v — the hypotheses of the C15 reader-tie theorems as executable predicates on the NAL
   unit bytes the code is actually given (extracted; the driver evaluates them on every case of a run).
   Definitions only.  hyp_zr / hyp_zrun_ok / hyp_*_narrow / hyp_hsps_depths_ok are copies of the
   predicates of the proof files C15TieBaseProofs / C15TieAvcProofs / C15TieHevcProofs /
   C15TieHevcSpsProofs (proved equal in C15HypProofs.v). *)
From V.lib Require Import Base.
From V.c13 Require Import C13Spec.
From V.c15 Require Import C15Model C15HevcModel.

(* with c zero bits already seen, no run of zero bits in l grows beyond 56 *)
Fixpoint hyp_zr (c : N) (l : list bool) : bool :=
  match l with
  | [] => true
  | true :: t => hyp_zr 0 t
  | false :: t => (c <? 56) && hyp_zr (c + 1) t
  end.
Definition hyp_zrun_ok (raw : list N) : bool := hyp_zr 0 (bits_of_bytes raw).

Fixpoint hyp_list_eqb (a b : list N) : bool :=
  match a, b with
  | [], [] => true
  | x :: a', y :: b' => (x =? y) && hyp_list_eqb a' b'
  | _, _ => false
  end.

(* the NAL unit as the parser receives it IS escape raw for a raw within the ties' hypotheses:
   raw = the bytes after removal of the emulation-prevention bytes; all bytes < 256; no run of more
   than 56 zero bits; and the NAL unit is the canonical escape of raw (false e.g. for a dangling
   00 00 03 at the end, an unneeded 00 00 03 05, or an unescaped 00 00 01) *)
Definition hyp_tie_raw (nalu : list N) : bool :=
  let raw := unescape nalu in
  bytes_ok raw && hyp_zrun_ok raw && hyp_list_eqb (escape raw) nalu.

Definition hyp_sps_narrow (s : sps) : bool :=
  (sps_log2_max_frame_num_minus4 s <=? 12) && (sps_log2_max_pic_order_cnt_lsb_minus4 s <=? 12).
Definition hyp_pps_narrow (p : pps) : bool := pps_pic_size_in_map_units_minus1 p <? 4294967296.
Definition hyp_hsps_narrow (s : hsps) : bool := h_log2_poc s <=? 52.
Definition hyp_hsps_depths_ok (s : hsps) : bool :=
  (h_bdl s <=? 48) && (h_bdc s <=? 48) && (h_log2_poc s <=? 52).
