(* C15Hevc2PpsProofs.v — hevc.ParsePPSNALUnit with the multilayer and 3D extensions: the parser model
   hparse_pps2 over the ideal bit reader, applied to the NAL unit produced by the independent serialiser
   of C15Hevc2Spec, returns the coded values (the script of C15HevcPpsProofs.hevc_pps with the two
   extension payloads in place). *)
From V.lib Require Import Base.
From V.c13 Require Import C13Spec C13Model.
From V.c15 Require Import C15Model C15Spec C15BitProofs C15AvcSpsProofs C15AvcPpsProofs C15HevcModel C15HevcSpec C15HevcBitProofs
  C15HevcSpsPtlProofs C15HevcSpsExtProofs C15HevcPpsProofs C15Hevc2Model C15Hevc2Spec C15Hevc2Proofs.

Ltac noext := cbn [hpps_no_ext sx_pps_nuh_layer_id sx_pps_nuh_temporal_id_plus1 sx_pps_pic_parameter_set_id sx_pps_seq_parameter_set_id sx_dependent_slice_segments_enabled_flag sx_output_flag_present_flag sx_num_extra_slice_header_bits sx_sign_data_hiding_enabled_flag sx_cabac_init_present_flag sx_num_ref_idx_l0_default_active_minus1 sx_num_ref_idx_l1_default_active_minus1 sx_init_qp_minus26 sx_constrained_intra_pred_flag sx_transform_skip_enabled_flag sx_cu_qp_delta_enabled_flag sx_diff_cu_qp_delta_depth sx_pps_cb_qp_offset sx_pps_cr_qp_offset sx_pps_slice_chroma_qp_offsets_present_flag sx_weighted_pred_flag sx_weighted_bipred_flag sx_transquant_bypass_enabled_flag sx_tiles_enabled_flag sx_entropy_coding_sync_enabled_flag sx_num_tile_columns_minus1 sx_num_tile_rows_minus1 sx_uniform_spacing_flag sx_column_width_minus1 sx_row_height_minus1 sx_loop_filter_across_tiles_enabled_flag sx_pps_loop_filter_across_slices_enabled_flag sx_deblocking_filter_control_present_flag sx_deblocking_filter_override_enabled_flag sx_pps_deblocking_filter_disabled_flag sx_pps_beta_offset_div2 sx_pps_tc_offset_div2 sx_pps_scaling_list_data_present_flag sx_pps_scaling_list sx_lists_modification_present_flag sx_log2_parallel_merge_level_minus2 sx_slice_segment_header_extension_present_flag sx_pps_extension_present_flag sx_pps_range_extension_flag sx_pps_multilayer_extension_flag sx_pps_3d_extension_flag sx_pps_scc_extension_flag sx_pps_extension_4bits sx_pps_range_extension sx_pps_scc_extension sx_pps_extension_data_flags] in *.

Lemma hevc_pps2 spsmap x :
  hpps2_valid x = true -> spsmap (sx_pps_seq_parameter_set_id (sx2_base x)) = true ->
  hparse_pps2_br spsmap (hnalu_pps2 x) = Ok (expected_hpps2 x).
Proof.
  intros Hv2 Hmap. set (v := sx2_base x) in *.
  unfold hpps2_valid in Hv2. fold v in Hv2.
  apply andb_true_iff in Hv2. destruct Hv2 as [Hv2 Hd3]. apply andb_true_iff in Hv2. destruct Hv2 as [Hv Hml].
  pose proof (parses_hpps_tiles (hraw_pps2 x) (hpps_no_ext v)) as Ptiles. cbv zeta in Ptiles.
  specialize (fun pos => Ptiles pos Hv).
  pose proof (parses_hpps_db (hraw_pps2 x) (hpps_no_ext v)) as Pdb. cbv zeta in Pdb.
  specialize (fun pos => Pdb pos Hv).
  unfold hpps_valid in Hv. cbv zeta in Hv. unfold hpps_ext_on, hpps_ext4 in Hv. noext. split_all.
  destruct (hnal_header_u16 34 (sx_pps_nuh_layer_id v) (sx_pps_nuh_temporal_id_plus1 v))
    as (Hh & Hlt & Hty); [lia | lia | lia |].
  unfold hparse_pps2_br, hnalu_pps2. fold v. rewrite binit_hnalu. fold v. fold (hraw_pps2 x).
  set (raw := hraw_pps2 x) in *.
  set (n := lenN (hnal_header 34 (sx_pps_nuh_layer_id v) (sx_pps_nuh_temporal_id_plus1 v) ++ ser_hpps2 x)).
  rewrite app_assoc.
  change (runs_to raw (hparse_pps2 BR spsmap) 0
            (hnal_header 34 (sx_pps_nuh_layer_id v) (sx_pps_nuh_temporal_id_plus1 v) ++ ser_hpps2 x)
            (trailing_bits n) (expected_hpps2 x)).
  rewrite Hh. unfold hparse_pps2, ser_hpps2. fold v. cbv zeta.
  rbind ltac:(apply parses_rd; exact Hlt).
  rewrite Hty. change (negb (34 =? 34)) with false. cbv iota.
  rbind ltac:(apply parses_ue). rbind ltac:(apply parses_ue).
  rewrite (hu32_id (sx_pps_seq_parameter_set_id v)) by lia. rewrite Hmap. cbn [negb]. cbv iota.
  rbind ltac:(apply parses_flag). rbind ltac:(apply parses_flag).
  rbind ltac:(apply parses_rd; change (2 ^ 3) with 8; lia).
  rbind ltac:(apply parses_flag). rbind ltac:(apply parses_flag).
  rbind ltac:(apply parses_ue). rbind ltac:(apply parses_ue).
  rbind ltac:(apply parses_se).
  rbind ltac:(apply parses_flag). rbind ltac:(apply parses_flag). rbind ltac:(apply parses_flag).
  rbind ltac:(apply (parses_opt raw _ (sx_cu_qp_delta_enabled_flag v) _ (sx_diff_cu_qp_delta_depth v) 0);
              intros _; apply parses_ue).
  rbind ltac:(apply parses_se). rbind ltac:(apply parses_se).
  rbind ltac:(apply parses_flag). rbind ltac:(apply parses_flag). rbind ltac:(apply parses_flag).
  rbind ltac:(apply parses_flag). rbind ltac:(apply parses_flag). rbind ltac:(apply parses_flag).
  rbind ltac:(apply Ptiles).
  rbind ltac:(apply parses_flag). rbind ltac:(apply parses_flag).
  rbind ltac:(apply Pdb).
  rbind ltac:(apply parses_flag).
  rbind ltac:(apply (parses_opt raw _ (sx_pps_scaling_list_data_present_flag v) _ tt tt);
              intros Hs; apply parses_hskip_sl;
              match goal with H : (if sx_pps_scaling_list_data_present_flag v then _ else true) = true |- _ =>
                rewrite Hs in H; exact H end).
  rbind ltac:(apply parses_flag). rbind ltac:(apply parses_ue).
  rbind ltac:(apply parses_flag). rbind ltac:(apply parses_flag).
  rbind ltac:(apply parses_hpps_extflags; lia).
  rpeek ltac:(apply parses_get_err).
  rbind ltac:(apply parses_opt_some; intros _; apply parses_hppsrange; [lia | lia | assumption]).
  rbind ltac:(apply parses_opt_some; intros Hc; apply parses_ppsml; rewrite Hc in Hml; exact Hml).
  rbind ltac:(apply parses_opt_some; intros Hc; apply parses_pps3d; rewrite Hc in Hd3; exact Hd3).
  rbind ltac:(apply parses_opt_some; intros _; apply parses_hppsscc; assumption).
  eapply runs_bind_t.
  { instantiate (1 := if 0 <? hpps_ext4 v then sx_pps_extension_data_flags v else []).
    destruct (0 <? hpps_ext4 v); cbn [opt_bits].
    - apply (hext_data_loop_ok raw n (sx_pps_extension_data_flags v) ext_fuel [] _).
      unfold ext_fuel, lenN in *. lia.
    - apply parses_t_ret. }
  rewrite hparse_end_ok. f_equal.
  unfold expected_hpps2, expected_hpps. fold v. cbv zeta. unfold hpps_ext_on, hpps_ext4. noext.
  cbn [pp_id pp_sps_id pp_dep_slices pp_output_flag_present pp_num_extra_bits pp_sign_hiding pp_cabac_init_present
       pp_l0 pp_l1 pp_init_qp pp_constrained_intra pp_transform_skip pp_cu_qp_delta pp_diff_cu_qp_delta_depth
       pp_cb_qp pp_cr_qp pp_slice_chroma_qp_present pp_weighted_pred pp_weighted_bipred pp_transquant_bypass
       pp_tiles pp_entropy_sync pp_tile_cols pp_tile_rows pp_uniform pp_col_widths pp_row_heights pp_lf_across_tiles
       pp_lf_across_slices pp_dbf_control pp_dbf_override_enabled pp_dbf_disabled pp_beta pp_tc pp_scaling_data
       pp_lists_mod pp_log2_par_merge pp_slice_ext_present pp_ext_present pp_range_flag pp_range pp_ml_flag
       pp_3d_flag pp_scc_flag pp_scc pp_ext4 pp_ext_data].
  rewrite (hu32_id (sx_pps_pic_parameter_set_id v)) by lia.
  rewrite (hu8_id (sx_num_extra_slice_header_bits v)) by lia.
  rewrite (hu8_id (sx_num_ref_idx_l0_default_active_minus1 v)) by lia.
  rewrite (hu8_id (sx_num_ref_idx_l1_default_active_minus1 v)) by lia.
  rewrite !i8_id by assumption.
  reflexivity.
Qed.
