(* C15SliceMapsProofs.v — the slice-header parsers (models of avc.ParseSliceHeader and
   hevc.ParseSliceHeader) depend on the parse history only through the CONTENTS of the two maps they
   are handed: two pairs of maps that agree pointwise give the same result on every reader state.
   (In the models a parsed PPS is a plain record without any reference to an SPS, and the parsers take
   the maps as arguments; these lemmas state that nothing else is consulted.)  For any reader instance. *)
From V.lib Require Import Base.
From V.c13 Require Import C13Spec C13Model.
From V.c15 Require Import C15Model C15HevcModel.

Lemma bind_ext {St A B} (m : St -> res (A * St)) (k k' : A -> St -> res (B * St)) (s : St) :
  (forall a s', k a s' = k' a s') -> bind m k s = bind m k' s.
Proof. intros H. unfold bind. destruct (m s) as [[a s']| | |]; auto. Qed.

Lemma avc_slice_maps_only {St} (R : reader St) sm sm' pm pm' (s : St) :
  (forall id, pm id = pm' id) -> (forall id, sm id = sm' id) ->
  parse_slice_header R sm pm s = parse_slice_header R sm' pm' s.
Proof.
  intros Hp Hs. unfold parse_slice_header.
  apply bind_ext. intros hdr s1. cbv beta iota zeta.
  match goal with |- (if ?c then _ else _) _ = _ => destruct c; [reflexivity|] end.
  apply bind_ext. intros fm s2.
  apply bind_ext. intros st s3.
  apply bind_ext. intros pid s4.
  rewrite Hp. destruct (pm' (u32 pid)) as [pp|]; [|reflexivity].
  rewrite Hs. reflexivity.
Qed.

Lemma hevc_slice_maps_only {St} (R : reader St) (bib : St -> N) sm sm' pm pm' (s : St) :
  (forall id, pm id = pm' id) -> (forall id, sm id = sm' id) ->
  hparse_slice R bib sm pm s = hparse_slice R bib sm' pm' s.
Proof.
  intros Hp Hs. unfold hparse_slice.
  apply bind_ext. intros hdr s1. cbv beta iota zeta.
  apply bind_ext. intros first s2.
  apply bind_ext. intros nop s3.
  apply bind_ext. intros pid s4.
  rewrite Hp. destruct (pm' (u32 pid)) as [pp|]; [|reflexivity].
  rewrite Hs. reflexivity.
Qed.

(* the entry points used by the theorems and the correspondence *)
Lemma avc_slice_br_maps_only sm sm' pm pm' nalu :
  (forall id, pm id = pm' id) -> (forall id, sm id = sm' id) ->
  parse_slice_br sm pm nalu = parse_slice_br sm' pm' nalu.
Proof. intros Hp Hs. unfold parse_slice_br, run. rewrite (avc_slice_maps_only BR sm sm' pm pm' _ Hp Hs). reflexivity. Qed.

Lemma avc_slice_er_maps_only sm sm' pm pm' nalu :
  (forall id, pm id = pm' id) -> (forall id, sm id = sm' id) ->
  parse_slice_er sm pm nalu = parse_slice_er sm' pm' nalu.
Proof. intros Hp Hs. unfold parse_slice_er, run. rewrite (avc_slice_maps_only ER sm sm' pm pm' _ Hp Hs). reflexivity. Qed.

Lemma hevc_slice_br_maps_only sm sm' pm pm' nalu :
  (forall id, pm id = pm' id) -> (forall id, sm id = sm' id) ->
  hparse_slice_br sm pm nalu = hparse_slice_br sm' pm' nalu.
Proof. intros Hp Hs. unfold hparse_slice_br, run. rewrite (hevc_slice_maps_only BR br_bib sm sm' pm pm' _ Hp Hs). reflexivity. Qed.

Lemma hevc_slice_er_maps_only sm sm' pm pm' nalu :
  (forall id, pm id = pm' id) -> (forall id, sm id = sm' id) ->
  hparse_slice_er sm pm nalu = hparse_slice_er sm' pm' nalu.
Proof. intros Hp Hs. unfold hparse_slice_er, run. rewrite (hevc_slice_maps_only ER er_bib sm sm' pm pm' _ Hp Hs). reflexivity. Qed.
