(* C15HevcSliceExamples.v — concrete HEVC PPS / SPS / slice-header values used by the Examples of
   C15HevcSliceTheorems.v (the hypotheses of the theorems are satisfiable by non-trivial values). *)
From V.lib Require Import Base.
From V.c13 Require Import C13Spec C13Model.
From V.c15 Require Import C15Model C15Spec C15HevcModel C15HevcSpec.

Definition ex_hsl_none : hsl_syntax := mkHSlSyn [] [] [] [].

(* a PPS with 3x2 non-uniform tiles, deblocking offsets, range extension (chroma qp offset list of 2),
   SCC extension (act offsets, 2 palette initialisers x 3 components), extension data flags *)
Definition ex_hpps_tiles : hpps_syntax :=
  mkHPpsSyn 0 1 5 3 true true 2 true true 2 1 (-3)%Z false true true 1 2%Z (-2)%Z true true true false
            true false 2 1 false [3; 4] [7] true true true true false 1%Z (-1)%Z
            false ex_hsl_none false 2 true
            true true false false true 5
            (mkHPpsRangeSyn 1 true true 1 [(1, -1); (-12, 12)]%Z 2 1)
            (mkHPpsSccSyn true true true 4%Z (-5)%Z 3%Z true false 2 1 [[1000; 3]; [5; 6]; [511; 0]])
            [true; false; true; true].
