(* C15HevcSliceExamples.v — concrete HEVC PPS / SPS / slice-header values used by the Examples of
   C15HevcSliceTheorems.v (the hypotheses of the theorems are satisfiable by non-trivial values). *)
From V.lib Require Import Base.
From V.c13 Require Import C13Spec C13Model.
From V.c15 Require Import C15Model C15Spec C15HevcModel C15HevcSpec.

Definition ex_hsl_none : hsl_syntax := mkHSlSyn [] [] [] [].

(* a PPS with 3x2 non-uniform tiles, deblocking offsets, range extension (chroma qp offset list of 2),
   SCC extension (act offsets, 2 palette initialisers x 3 components), extension data flags *)
Definition ex_hpps_tiles : hpps_syntax :=
  mkHPpsSyn 0 1 5 3 true true 2 true true 2 1 (-3)%Z false true true 1 2%Z (-2)%Z true true true false
            true false 2 1 false [3; 4] [7] true true true true false 1%Z (-1)%Z
            false ex_hsl_none false 2 true
            true true false false true 5
            (mkHPpsRangeSyn 1 true true 1 [(1, -1); (-12, 12)]%Z 2 1)
            (mkHPpsSccSyn true true true 4%Z (-5)%Z 3%Z true false 2 1 [[1000; 3]; [5; 6]; [511; 0]])
            [true; false; true; true].

(* ------------------------------------------------------------------ an SPS: 960x540, 64x64 CTBs (135 CTBs: 8 address
   bits), two short-term sets (explicit; inter-predicted from it with used entries), two long-term
   pictures, temporal mvp, SAO, SCC extension with motion_vector_resolution_control_idc = 2 *)
Definition ex_hs_prof : hprofile_syntax := mkHProfSyn 0 false 1 1610612736 true false true true 0 false.
Definition ex_hs_hrd : hhrd_syntax := mkHHrdSyn false false false 0 0 false 0 0 0 0 0 0 0 [].
Definition ex_hs_vui : hvui_syntax :=
  mkHVuiSyn false 0 0 0 false false false 0 false false 0 0 0 false 0 0 false false false
            false 0 0 0 0 false 0 0 false 0 false ex_hs_hrd false false false false 0 0 0 0 0.
Definition ex_hs_3d : hsps3d :=
  mkHSps3d false false 0 false false false false false false false 0 false false false false false.

Definition ex_hsps : hsps_syntax :=
  mkHSpsSyn 0 1 0 0 true (mkHPtlSyn ex_hs_prof 93 []) 2 1 false 960 540 false 0 0 0 0 0 0 4 true [(4, 2, 0)]
            0 3 0 3 1 1 false false ex_hsl_none true true false 0 0 0 0 false
            [RpsExplicit [(0, true)] [(1, true)];
             RpsInter 0 true 0 [(true, true); (false, true); (true, true)]]
            true [(5, true); (9, false)] true true false ex_hs_vui
            true false false false true 0
            [false; false; false; false; false; false; false; false; false] false
            ex_hs_3d (mkHSpsSccSyn false false 0 0 false [] 2 false) [].

Definition ex_hpps_range0 : hppsrange_syntax := mkHPpsRangeSyn 0 false false 0 [(0, 0)]%Z 0 0.
Definition ex_hpps_scc0 : hppsscc_syntax := mkHPpsSccSyn false false false 0%Z 0%Z 0%Z false false 0 0 [].

(* PPS 5 -> SPS 2: dependent slices, output flag, one extra header bit, weighted bi-prediction, wavefronts
   (entry points), deblocking override, header extension; lists_modification_present_flag = 0 *)
Definition ex_hpps_b : hpps_syntax :=
  mkHPpsSyn 0 1 5 2 true true 1 false true 1 0 0%Z false false false 0 0%Z 0%Z true false true false
            false true 0 0 true [] [] false true true true false 0%Z 0%Z
            false ex_hsl_none false 0 true
            false false false false false 0 ex_hpps_range0 ex_hpps_scc0 [].

(* PPS 9 -> SPS 2: weighted prediction, lists_modification_present_flag = 1 *)
Definition ex_hpps_e : hpps_syntax :=
  mkHPpsSyn 0 1 9 2 false false 0 false false 1 0 0%Z false false false 0 0%Z 0%Z false true false false
            false false 0 0 true [] [] false false false false false 0%Z 0%Z
            false ex_hsl_none true 0 false
            false false false false false 0 ex_hpps_range0 ex_hpps_scc0 [].

(* PPS 7 -> SPS 2: lists_modification_present_flag = 1, nothing else *)
Definition ex_hpps_r : hpps_syntax :=
  mkHPpsSyn 0 1 7 2 false false 0 false false 0 0 0%Z false false false 0 0%Z 0%Z false false false false
            false false 0 0 true [] [] false false false false false 0%Z 0%Z
            false ex_hsl_none true 0 false
            false false false false false 0 ex_hpps_range0 ex_hpps_scc0 [].

Definition ex_spsmap (id : N) : option hsps := if id =? 2 then Some (expected_hsps ex_hsps) else None.
Definition ex_ppsmap (id : N) : option hpps :=
  if id =? 5 then Some (expected_hpps ex_hpps_b)
  else if id =? 9 then Some (expected_hpps ex_hpps_e)
  else if id =? 7 then Some (expected_hpps ex_hpps_r) else None.

(* a B slice, non-first segment (address 77), RPS coded in the slice header and inter-predicted from
   set 1, one long-term entry from the SPS and one coded, overrides, pred weight table, entry points,
   header extension, slice data containing 00 00 01 *)
Definition ex_hslice_b : hslice_syntax :=
  mkHSliceSyn 1 0 1 false false 5 false 77 [true]
              0 true 0 37 false
              (RpsInter 0 true 0 [(true, true); (true, true); (false, false); (true, true)]) 0
              [(1, true, 3)] [(200, true, false, 0)]
              true true false true 2 1 false [] false []
              true true false 1
              3 (-1)%Z
              [mkHPwt true true 5%Z (-7)%Z 1%Z (-1)%Z 100%Z (-100)%Z;
               mkHPwt false true 0%Z 0%Z 2%Z 3%Z 4%Z 5%Z;
               mkHPwt true false (-128)%Z 127%Z 0%Z 0%Z 0%Z 0%Z]
              [mkHPwt false false 0%Z 0%Z 0%Z 0%Z 0%Z 0%Z;
               mkHPwt true true 1%Z 2%Z 3%Z 4%Z 5%Z 6%Z]
              2 true (-4)%Z 1%Z (-1)%Z 0%Z 0%Z 0%Z false true false 2%Z (-2)%Z true
              9 [100; 1000] [1; 2; 3] [0; 0; 1; 37; 255].

(* a P slice with an explicit RPS coded in the slice header and ref_pic_lists_modification *)
Definition ex_hslice_e : hslice_syntax :=
  mkHSliceSyn 1 0 1 true false 9 false 0 []
              1 false 0 41 false
              (RpsExplicit [(0, true); (2, true)] [(1, false)]) 0
              [] [(17, true, true, 1)]
              false false true false 0 0 true [2; 0] false []
              false false true 1
              2 1%Z
              [mkHPwt true true 5%Z (-7)%Z 1%Z (-1)%Z 100%Z (-100)%Z;
               mkHPwt false false 0%Z 0%Z 0%Z 0%Z 0%Z 0%Z]
              []
              1 false 3%Z 0%Z 0%Z 0%Z 0%Z 0%Z false false false 0%Z 0%Z false
              0 [] [] [128; 0; 0; 3].

(* the shape of the former finding C15-F11 (fixed): a P slice that selects the inter-predicted set 1 of
   the SPS (two used entries) while lists_modification_present_flag = 1; with one used long-term
   picture NumPicTotalCurr = 3, list_entry_l0 has 2 bits *)
Definition ex_hslice_f : hslice_syntax :=
  mkHSliceSyn 1 0 1 true false 7 false 0 []
              1 false 0 3 true (RpsExplicit [] []) 1
              [] [(30, true, false, 0)]
              false false false false 0 0 true [2] false []
              false false true 0
              0 0%Z [] []
              0 false 0%Z 0%Z 0%Z 0%Z 0%Z 0%Z false false false 0%Z 0%Z false
              0 [] [] [1; 2].
