(* C15AvcPpsProofs.v — ParsePPSNALUnit (model, ideal bit reader) on the serialised
   pic_parameter_set_rbsp returns the coded values. *)
From V.lib Require Import Base.
From V.c13 Require Import C13Spec C13Model.
From V.c15 Require Import C15Model C15Spec C15BitProofs C15AvcSpsProofs.

(* run a `parses` fact as a rewrite rule under a bind *)
Lemma bind_parses {A B} raw (p : bstate -> res (A * bstate)) (k : A -> bstate -> res (B * bstate))
      pos e a rest :
  parses raw p pos e a ->
  bind p k (mkB raw (e ++ rest) pos false) = k a (mkB raw rest (pos + lenN e) false).
Proof. intros H. unfold bind. rewrite H. reflexivity. Qed.

Lemma parses_rep_break {A X} raw (body : bstate -> res (A * bstate)) (enc : X -> list bool) (val : X -> A) :
  forall (xs : list X) pos,
    (forall x pos', In x xs -> parses raw body pos' (enc x) (val x)) ->
    parses raw (rep_break BR (length xs) body) pos (flat_map enc xs) (map val xs).
Proof.
  induction xs as [|x t IH]; intros pos H; cbn [length rep_break flat_map map].
  - apply parses_ret.
  - eapply parses_bind_peek; [apply parses_get_err|]. cbv beta iota.
    eapply parses_bind; [apply H; left; reflexivity|].
    eapply parses_bind_nil; [apply IH; intros; apply H; right; assumption|].
    apply parses_ret.
Qed.

Lemma parses_rep_break_n {A X} raw (body : bstate -> res (A * bstate)) (enc : X -> list bool) (val : X -> A)
      (xs : list X) n pos :
  n = lenN xs -> n <= loop_bound ->
  (forall x pos', In x xs -> parses raw body pos' (enc x) (val x)) ->
  parses raw (rep_break_n BR n body) pos (flat_map enc xs) (map val xs).
Proof.
  intros -> Hb H. unfold rep_break_n.
  replace (lenN xs <=? loop_bound) with true by lia.
  unfold lenN. rewrite Nat2N.id. apply parses_rep_break. exact H.
Qed.

Lemma ceil_log2_small n : 1 <= n <= 7 ->
  ceil_log2 (n + 1) = N.log2_up (n + 1) /\ n < 2 ^ N.log2_up (n + 1).
Proof.
  intros H.
  assert (C : n = 1 \/ n = 2 \/ n = 3 \/ n = 4 \/ n = 5 \/ n = 6 \/ n = 7) by lia.
  repeat (destruct C as [-> | C]; [split; reflexivity|]). subst. split; reflexivity.
Qed.

(* ------------------------------------------------------------------ slice groups *)
Lemma parses_pps_slice_groups raw chroma v pos :
  pps_valid chroma v = true ->
  parses raw (parse_pps_slice_groups BR (num_slice_groups_minus1 v)) pos (ser_pps_slice_groups v)
    (let sg := 0 <? num_slice_groups_minus1 v in
     let mt := if sg then slice_group_map_type v else 0 in
     let t0 := sg && (mt =? 0) in
     let t2 := sg && (mt =? 2) in
     let t345 := sg && ((mt =? 3) || (mt =? 4) || (mt =? 5)) in
     let t6 := sg && (mt =? 6) in
     (mt, (if t0 then run_length_minus1 v else []),
      (if t2 then map fst (top_left_bottom_right v) else []),
      (if t2 then map snd (top_left_bottom_right v) else []),
      t345 && slice_group_change_direction_flag v,
      (if t345 then slice_group_change_rate_minus1 v else 0),
      (if t6 then lenN (slice_group_id v) - 1 else 0),
      (if t6 then slice_group_id v else []))).
Proof.
  intros Hv. unfold pps_valid in Hv. split_all.
  unfold parse_pps_slice_groups, ser_pps_slice_groups. cbv zeta.
  destruct (0 <? num_slice_groups_minus1 v) eqn:Hsg; cbn [opt_bits andb]; [|apply parses_ret].
  split_all.
  pbind ltac:(apply parses_ue).
  set (mt := slice_group_map_type v) in *.
  destruct (mt =? 0) eqn:E0.
  { assert (mt = 0) by lia.
    replace (mt =? 2) with false by lia. replace (mt =? 3) with false by lia.
    replace (mt =? 4) with false by lia. replace (mt =? 5) with false by lia.
    replace (mt =? 6) with false by lia. cbn [orb].
    split_all.
    plast ltac:(apply (parses_rep_n raw (rd_ue BR) ue_bits (fun x : N => x) (run_length_minus1 v));
                [lia | unfold loop_bound; lia | intros; apply parses_ue]).
    rewrite map_id. apply parses_ret. }
  destruct (mt =? 2) eqn:E2.
  { replace (mt =? 3) with false by lia. replace (mt =? 4) with false by lia.
    replace (mt =? 5) with false by lia. replace (mt =? 6) with false by lia. cbn [orb].
    split_all.
    plast ltac:(apply (parses_rep_n raw _ (fun p : N * N => ue_bits (fst p) ++ ue_bits (snd p))
                         (fun p : N * N => (fst p, snd p)) (top_left_bottom_right v));
                [lia | unfold loop_bound; lia
                 | intros; pbind ltac:(apply parses_ue); plast ltac:(apply parses_ue); apply parses_ret]).
    rewrite !map_map. cbn [fst snd]. apply parses_ret. }
  destruct ((mt =? 3) || (mt =? 4) || (mt =? 5)) eqn:E345.
  { replace (mt =? 6) with false by lia.
    pbind ltac:(apply parses_flag). plast ltac:(apply parses_ue). apply parses_ret. }
  destruct (mt =? 6) eqn:E6; [|apply parses_ret].
  split_all.
  destruct (ceil_log2_small (num_slice_groups_minus1 v)) as [Hc Hlt]; [lia|].
  pbind ltac:(apply parses_ue).
  rewrite Hc. unfold slice_group_id_bits.
  plast ltac:(apply (parses_rep_break_n raw _ (u (N.log2_up (num_slice_groups_minus1 v + 1)))
                       (fun x : N => x) (slice_group_id v));
              [lia | unfold loop_bound; lia | ]).
  { intros x pos' Hin. apply parses_rd.
    match goal with H : forallb _ (slice_group_id v) = true |- _ =>
      rewrite forallb_forall in H; specialize (H x Hin) end. lia. }
  rewrite map_id. apply parses_ret.
Qed.

(* ------------------------------------------------------------------ prefix *)
Lemma parses_pps_pre raw chroma v pos :
  pps_valid chroma v = true ->
  parses raw (parse_pps_pre BR) pos (ser_pps_pre v)
    (pic_parameter_set_id v, pps_seq_parameter_set_id v, entropy_coding_mode_flag v,
     bottom_field_pic_order_in_frame_present_flag v, num_slice_groups_minus1 v,
     (let sg := 0 <? num_slice_groups_minus1 v in
      let mt := if sg then slice_group_map_type v else 0 in
      let t0 := sg && (mt =? 0) in
      let t2 := sg && (mt =? 2) in
      let t345 := sg && ((mt =? 3) || (mt =? 4) || (mt =? 5)) in
      let t6 := sg && (mt =? 6) in
      (mt, (if t0 then run_length_minus1 v else []),
       (if t2 then map fst (top_left_bottom_right v) else []),
       (if t2 then map snd (top_left_bottom_right v) else []),
       t345 && slice_group_change_direction_flag v,
       (if t345 then slice_group_change_rate_minus1 v else 0),
       (if t6 then lenN (slice_group_id v) - 1 else 0),
       (if t6 then slice_group_id v else []))),
     num_ref_idx_l0_default_active_minus1 v, num_ref_idx_l1_default_active_minus1 v,
     weighted_pred_flag v, weighted_bipred_idc v,
     pic_init_qp_minus26 v, pic_init_qs_minus26 v, chroma_qp_index_offset v,
     deblocking_filter_control_present_flag v, constrained_intra_pred_flag v,
     redundant_pic_cnt_present_flag v).
Proof.
  intros Hv. pose proof (parses_pps_slice_groups raw chroma v) as Hsg. specialize (fun p => Hsg p Hv).
  unfold pps_valid in Hv. split_all.
  unfold parse_pps_pre, ser_pps_pre.
  pbind ltac:(apply parses_ue). pbind ltac:(apply parses_ue).
  pbind ltac:(apply parses_flag). pbind ltac:(apply parses_flag).
  pbind ltac:(apply parses_ue).
  replace (7 <? num_slice_groups_minus1 v) with false by lia.
  pbind ltac:(apply Hsg).
  pbind ltac:(apply parses_ue). pbind ltac:(apply parses_ue).
  pbind ltac:(apply parses_flag). pbind ltac:(apply parses_rd; lia).
  pbind ltac:(apply parses_se). pbind ltac:(apply parses_se). pbind ltac:(apply parses_se).
  pbind ltac:(apply parses_flag). pbind ltac:(apply parses_flag).
  plast ltac:(apply parses_flag).
  apply parses_ret.
Qed.

(* ------------------------------------------------------------------ the part behind more_rbsp_data() *)
Lemma parses_pps_tail raw chroma v spsmap pos :
  pps_valid chroma v = true -> pps_has_tail v = true ->
  (pic_scaling_matrix_present_flag v = true -> spsmap (pps_seq_parameter_set_id v) = Some chroma) ->
  parses raw (parse_pps_tail BR spsmap (pps_seq_parameter_set_id v)) pos (ser_pps_tail v)
    (transform_8x8_mode_flag v, pic_scaling_matrix_present_flag v,
     (if pic_scaling_matrix_present_flag v then expected_scaling_lists 0 (pic_scaling_lists v) else []),
     second_chroma_qp_index_offset v).
Proof.
  intros Hv Ht Hmap. unfold pps_valid in Hv. split_all.
  match goal with H : (if pps_has_tail v then _ else true) = true |- _ => rewrite Ht in H; split_all end.
  unfold parse_pps_tail, ser_pps_tail.
  pbind ltac:(apply parses_flag). pbind ltac:(apply parses_flag).
  eapply parses_bind.
  { apply (parses_opt raw _ (pic_scaling_matrix_present_flag v) _
             (expected_scaling_lists 0 (pic_scaling_lists v)) []).
    intros Hs. rewrite (Hmap Hs).
    match goal with H : (if pic_scaling_matrix_present_flag v then _ else true) = true |- _ =>
      rewrite Hs in H; apply andb_prop in H; destruct H as [Hlen Hsl] end.
    replace (if transform_8x8_mode_flag v then if negb (chroma =? 3) then 8%nat else 12%nat else 6%nat)
      with (length (pic_scaling_lists v)).
    - apply parses_scaling_lists. exact Hsl.
    - unfold pps_nr_scaling_lists, lenN in Hlen.
      destruct (transform_8x8_mode_flag v), (chroma =? 3); cbn [negb]; lia. }
  cbv beta.
  plast ltac:(apply parses_se). apply parses_ret.
Qed.

(* ------------------------------------------------------------------ more_rbsp_data / trailing bits *)
Lemma all_zero_repeat k : all_zero (repeat false k) = true.
Proof. induction k; [reflexivity | exact IHk]. Qed.

Lemma all_zero_app_true a b : all_zero (a ++ true :: b) = false.
Proof. unfold all_zero. rewrite forallb_app. cbn [forallb negb andb]. apply andb_false_r. Qed.

Lemma br_more_trailing raw n pos :
  br_more (mkB raw (trailing_bits n) pos false) = (false, mkB raw (trailing_bits n) pos false).
Proof. unfold br_more, trailing_bits. cbn [berr bbits]. rewrite all_zero_repeat. reflexivity. Qed.

Lemma br_more_data raw b l n pos :
  br_more (mkB raw ((b :: l) ++ trailing_bits n) pos false)
  = (true, mkB raw ((b :: l) ++ trailing_bits n) pos false).
Proof.
  unfold br_more, trailing_bits. cbn [berr bbits app]. destruct b; [|reflexivity].
  rewrite all_zero_app_true. reflexivity.
Qed.

Lemma br_trailing_ok raw n pos :
  br_trailing (mkB raw (trailing_bits n) pos false) = (false, mkB raw [] (8 * lenN raw) false).
Proof. unfold br_trailing, trailing_bits. cbn [berr bbits braw]. rewrite all_zero_repeat. reflexivity. Qed.

Lemma pps_post raw chroma v spsmap pos n :
  pps_valid chroma v = true ->
  (pps_has_tail v && pic_scaling_matrix_present_flag v = true ->
   spsmap (pps_seq_parameter_set_id v) = Some chroma) ->
  run (parse_pps_post BR spsmap
         (pic_parameter_set_id v, pps_seq_parameter_set_id v, entropy_coding_mode_flag v,
          bottom_field_pic_order_in_frame_present_flag v, num_slice_groups_minus1 v,
          (let sg := 0 <? num_slice_groups_minus1 v in
           let mt := if sg then slice_group_map_type v else 0 in
           let t0 := sg && (mt =? 0) in
           let t2 := sg && (mt =? 2) in
           let t345 := sg && ((mt =? 3) || (mt =? 4) || (mt =? 5)) in
           let t6 := sg && (mt =? 6) in
           (mt, (if t0 then run_length_minus1 v else []),
            (if t2 then map fst (top_left_bottom_right v) else []),
            (if t2 then map snd (top_left_bottom_right v) else []),
            t345 && slice_group_change_direction_flag v,
            (if t345 then slice_group_change_rate_minus1 v else 0),
            (if t6 then lenN (slice_group_id v) - 1 else 0),
            (if t6 then slice_group_id v else []))),
          num_ref_idx_l0_default_active_minus1 v, num_ref_idx_l1_default_active_minus1 v,
          weighted_pred_flag v, weighted_bipred_idc v,
          pic_init_qp_minus26 v, pic_init_qs_minus26 v, chroma_qp_index_offset v,
          deblocking_filter_control_present_flag v, constrained_intra_pred_flag v,
          redundant_pic_cnt_present_flag v))
      (mkB raw (opt_bits (pps_has_tail v) (ser_pps_tail v) ++ trailing_bits n) pos false)
  = Ok (expected_pps v).
Proof.
  intros Hv Hmap. pose proof Hv as Hv0. unfold pps_valid in Hv. split_all.
  assert (E1 : u32 (pic_parameter_set_id v) = pic_parameter_set_id v) by (unfold u32; apply N.mod_small; lia).
  assert (E2 : u32 (pps_seq_parameter_set_id v) = pps_seq_parameter_set_id v) by (unfold u32; apply N.mod_small; lia).
  unfold parse_pps_post, run. cbv beta iota zeta.
  unfold rd_more at 1. unfold bind at 1. cbn [r_more BR].
  destruct (pps_has_tail v) eqn:Ht; cbn [opt_bits].
  - assert (Hne : exists b l, ser_pps_tail v = b :: l) by (unfold ser_pps_tail, fl; cbn [app]; eauto).
    destruct Hne as (b & l & Hbl).
    rewrite Hbl, br_more_data, <- Hbl. cbv iota.
    rewrite E2.
    rewrite (bind_parses raw _ _ pos (ser_pps_tail v) _ (trailing_bits n)
               (parses_pps_tail raw chroma v spsmap pos Hv0 Ht
                  (fun Hs => Hmap (eq_ind_r (fun b => true && b = true) eq_refl Hs)))).
    cbv beta iota zeta.
    unfold rd_trailing at 1. unfold bind at 1. cbn [r_trailing BR]. rewrite br_trailing_ok. cbv iota.
    unfold get_err at 1. unfold bind at 1. cbn [r_err BR berr]. cbv iota.
    unfold rd at 1. unfold bind at 1. cbn [r_read BR]. unfold br_read. cbn [berr bbits lenN length].
    change (1 <=? N.of_nat 0) with false. cbv iota.
    unfold get_err at 1. unfold bind at 1. cbn [r_err BR berr bfail negb]. cbv iota.
    unfold ret. rewrite E1. unfold expected_pps. cbv zeta. rewrite Ht. cbn [andb].
    reflexivity.
  - cbn [app]. rewrite br_more_trailing. cbv iota.
    unfold ret at 1. unfold bind at 1. cbv beta iota zeta.
    unfold rd_trailing at 1. unfold bind at 1. cbn [r_trailing BR]. rewrite br_trailing_ok. cbv iota.
    unfold get_err at 1. unfold bind at 1. cbn [r_err BR berr]. cbv iota.
    unfold rd at 1. unfold bind at 1. cbn [r_read BR]. unfold br_read. cbn [berr bbits lenN length].
    change (1 <=? N.of_nat 0) with false. cbv iota.
    unfold get_err at 1. unfold bind at 1. cbn [r_err BR berr bfail negb]. cbv iota.
    unfold ret. rewrite E1, E2. unfold expected_pps. cbv zeta. rewrite Ht. cbn [andb].
    reflexivity.
Qed.

(* ------------------------------------------------------------------ the NAL unit *)
Lemma avc_pps chroma spsmap v :
  pps_valid chroma v = true ->
  (pps_has_tail v && pic_scaling_matrix_present_flag v = true ->
   spsmap (pps_seq_parameter_set_id v) = Some chroma) ->
  parse_pps_br spsmap (nalu_pps v) = Ok (expected_pps v).
Proof.
  intros Hv Hmap.
  assert (Hr : pps_nal_ref_idc v < 4) by (unfold pps_valid in Hv; split_all; lia).
  destruct (nal_header_u8 (pps_nal_ref_idc v) 8 Hr) as (Hh & Hland & Hlt & _); [auto|].
  unfold parse_pps_br, nalu_pps. rewrite binit_nalu. fold (raw_pps v).
  rewrite Hh. unfold ser_pps. rewrite <- !app_assoc.
  unfold parse_pps, run.
  rewrite (bind_parses (raw_pps v) _ _ 0 _ _ _ (parses_rd (raw_pps v) 8 _ 0 Hlt)).
  rewrite Hland. change (negb (8 =? 8)) with false. cbv iota.
  rewrite (bind_parses (raw_pps v) _ _ _ _ _ _ (parses_pps_pre (raw_pps v) chroma v _ Hv)).
  apply (pps_post (raw_pps v) chroma v spsmap _ _ Hv Hmap).
Qed.
