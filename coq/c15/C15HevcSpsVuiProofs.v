(* C15HevcSpsVuiProofs.v — hrd_parameters / sub_layer_hrd_parameters / vui_parameters of the HEVC SPS:
   the model parsers on the ideal bit reader return the coded values. *)
From V.lib Require Import Base.
From V.c13 Require Import C13Spec C13Model.
From V.c15 Require Import C15Model C15Spec C15BitProofs C15AvcSpsProofs C15AvcVuiProofs C15AvcPpsProofs
  C15HevcModel C15HevcSpec C15HevcBitProofs.

Lemma u32_small x : x < 4294967296 -> u32 x = x.
Proof. intros H. unfold u32. apply N.mod_small. exact H. Qed.

Lemma u16_small x : x < 65536 -> u16 x = x.
Proof. intros H. unfold u16. apply N.mod_small. exact H. Qed.

Lemma u8_small x : x < 256 -> u8 x = x.
Proof. intros H. unfold u8. apply N.mod_small. exact H. Qed.

(* ------------------------------------------------------------------ sub_layer_hrd_parameters entry *)
Lemma parses_hcpb raw subpic c pos : hcpb_valid c = true ->
  parses raw (hparse_cpb BR subpic) pos (ser_hcpb subpic c) (expected_hcpb subpic c).
Proof.
  intros Hv. unfold hcpb_valid in Hv. split_all. unfold ue_ok in *.
  unfold hparse_cpb, ser_hcpb, expected_hcpb.
  pbind ltac:(apply parses_ue).
  pbind ltac:(apply parses_ue).
  eapply parses_bind.
  { apply (parses_opt raw _ subpic _
             (sx_cpb_size_du_value_minus1 c, sx_bit_rate_du_value_minus1 c) (0, 0)).
    intros _. pbind ltac:(apply parses_ue). plast ltac:(apply parses_ue).
    apply parses_ret_eq. rewrite !u32_small by lia. reflexivity. }
  cbv beta.
  plast ltac:(apply parses_flag).
  apply parses_ret_eq. rewrite !u32_small by lia.
  destruct subpic; reflexivity.
Qed.

(* ------------------------------------------------------------------ one sub-layer of hrd_parameters *)
Lemma parses_hcpb_list raw subpic (l : list hcpb_syntax) cnt pos :
  (lenN l =? cnt + 1) && forallb hcpb_valid l = true -> cnt <= 31 ->
  parses raw (rep_n (cnt + 1) (hparse_cpb BR subpic)) pos (flat_map (ser_hcpb subpic) l)
         (map (expected_hcpb subpic) l).
Proof.
  intros H Hc. apply andb_prop in H. destruct H as [Hl Hf].
  apply (parses_rep_n raw (hparse_cpb BR subpic) (ser_hcpb subpic) (expected_hcpb subpic) l);
    [lia | unfold loop_bound; lia |].
  intros x pos' Hin. rewrite forallb_forall in Hf. apply parses_hcpb. apply Hf. exact Hin.
Qed.

Lemma parses_hsubhrd_tail raw (nal vcl sp : bool) s cnt pos fg fc el ld :
  (if nal then (lenN (sx_nal_cpbs s) =? cnt + 1) && forallb hcpb_valid (sx_nal_cpbs s) else true) = true ->
  (if vcl then (lenN (sx_vcl_cpbs s) =? cnt + 1) && forallb hcpb_valid (sx_vcl_cpbs s) else true) = true ->
  cnt <= 31 ->
  parses raw
    (bind (if nal then rep_n (cnt + 1) (hparse_cpb BR sp) else ret [])
       (fun n => bind (if vcl then rep_n (cnt + 1) (hparse_cpb BR sp) else ret [])
          (fun v => ret (mkHSubHrd fg fc el ld cnt n v))))
    pos
    (opt_bits nal (flat_map (ser_hcpb sp) (sx_nal_cpbs s))
     ++ opt_bits vcl (flat_map (ser_hcpb sp) (sx_vcl_cpbs s)))
    (mkHSubHrd fg fc el ld cnt
       (if nal then map (expected_hcpb sp) (sx_nal_cpbs s) else [])
       (if vcl then map (expected_hcpb sp) (sx_vcl_cpbs s) else [])).
Proof.
  intros Hn Hvc Hc.
  pbind ltac:(apply (parses_opt raw _ nal _ (map (expected_hcpb sp) (sx_nal_cpbs s)) []);
              intros E; rewrite E in Hn; apply parses_hcpb_list; assumption).
  plast ltac:(apply (parses_opt raw _ vcl _ (map (expected_hcpb sp) (sx_vcl_cpbs s)) []);
              intros E; rewrite E in Hvc; apply parses_hcpb_list; assumption).
  apply parses_ret.
Qed.

Lemma parses_hsubhrd raw nal vcl sp s pos : hsubhrd_valid nal vcl s = true ->
  parses raw (hparse_subhrd BR nal vcl sp) pos (ser_hsubhrd nal vcl sp s) (expected_hsubhrd nal vcl sp s).
Proof.
  intros Hv. unfold hsubhrd_valid in Hv. split_all.
  unfold hparse_subhrd, ser_hsubhrd, expected_hsubhrd, hsubhrd_cpb_cnt, hsub_low_delay, hsub_fixed_cvs in *.
  assert (Hc8 : u8 (sx_cpb_cnt_minus1 s) = sx_cpb_cnt_minus1 s) by (apply u8_small; lia).
  assert (He16 : u16 (sx_elemental_duration_in_tc_minus1 s) = sx_elemental_duration_in_tc_minus1 s)
    by (apply u16_small; lia).
  destruct (sx_fixed_pic_rate_general_flag s) eqn:Eg;
    [| destruct (sx_fixed_pic_rate_within_cvs_flag s) eqn:Ec;
       [| destruct (sx_low_delay_hrd_flag s) eqn:El ] ];
    cbn [opt_bits negb orb andb app] in *.
  - pbind ltac:(apply parses_flag).
    apply parses_bind_ret.
    pbind ltac:(plast ltac:(apply parses_ue); apply parses_ret).
    rewrite He16. cbn [negb].
    pbind ltac:(plast ltac:(apply parses_ue);
                replace (31 <? sx_cpb_cnt_minus1 s) with false by lia; apply parses_ret).
    rewrite Hc8.
    apply parses_hsubhrd_tail; try assumption; lia.
  - pbind ltac:(apply parses_flag).
    pbind ltac:(apply parses_flag).
    pbind ltac:(plast ltac:(apply parses_ue); apply parses_ret).
    rewrite He16. cbn [negb].
    pbind ltac:(plast ltac:(apply parses_ue);
                replace (31 <? sx_cpb_cnt_minus1 s) with false by lia; apply parses_ret).
    rewrite Hc8.
    apply parses_hsubhrd_tail; try assumption; lia.
  - pbind ltac:(apply parses_flag).
    pbind ltac:(apply parses_flag).
    pbind ltac:(plast ltac:(apply parses_flag); apply parses_ret).
    cbn [negb].
    apply parses_bind_ret.
    apply (parses_hsubhrd_tail raw nal vcl sp s 0); try assumption; lia.
  - pbind ltac:(apply parses_flag).
    pbind ltac:(apply parses_flag).
    pbind ltac:(plast ltac:(apply parses_flag); apply parses_ret).
    cbn [negb].
    pbind ltac:(plast ltac:(apply parses_ue);
                replace (31 <? sx_cpb_cnt_minus1 s) with false by lia; apply parses_ret).
    rewrite Hc8.
    apply parses_hsubhrd_tail; try assumption; lia.
Qed.

(* ------------------------------------------------------------------ hrd_parameters(1, maxNumSubLayersMinus1) *)
Lemma parses_hhrd raw ms h pos : hhrd_valid ms h = true -> ms <= 6 ->
  parses raw (hparse_hrd BR ms) pos (ser_hhrd h) (expected_hhrd h).
Proof.
  intros Hv Hms. unfold hhrd_valid in Hv. split_all.
  assert (Hloop : forall b pos',
    parses raw (rep_n (ms + 1) (hparse_subhrd BR (sx_nal_hrd_parameters_present_flag h)
                                              (sx_vcl_hrd_parameters_present_flag h) b)) pos'
      (flat_map (ser_hsubhrd (sx_nal_hrd_parameters_present_flag h)
                             (sx_vcl_hrd_parameters_present_flag h) b) (sx_hrd_sub_layers h))
      (map (expected_hsubhrd (sx_nal_hrd_parameters_present_flag h)
                             (sx_vcl_hrd_parameters_present_flag h) b) (sx_hrd_sub_layers h))).
  { intros b pos'.
    apply (parses_rep_n raw _ (ser_hsubhrd _ _ b) (expected_hsubhrd _ _ b) (sx_hrd_sub_layers h));
      [lia | unfold loop_bound; lia |].
    intros x p' Hin.
    match goal with H : forallb _ _ = true |- _ => rewrite forallb_forall in H; specialize (H x Hin) end.
    apply parses_hsubhrd. assumption. }
  unfold hparse_hrd, ser_hhrd, expected_hhrd. cbv beta zeta.
  revert Hloop.
  destruct (sx_nal_hrd_parameters_present_flag h), (sx_vcl_hrd_parameters_present_flag h);
    cbn [orb andb opt_bits app]; intros Hloop.
  4:{ pbind ltac:(apply parses_flag). pbind ltac:(apply parses_flag).
      cbn [orb]. apply parses_bind_ret. cbv beta iota zeta.
      plast ltac:(apply Hloop). apply parses_ret. }
  all: destruct (sx_sub_pic_hrd_params_present_flag h); cbn [orb andb opt_bits app].
  1,3,5:
    (pbind ltac:(apply parses_flag); pbind ltac:(apply parses_flag); cbn [orb];
     eapply parses_bind;
     [ pbind ltac:(apply parses_flag);
       eapply parses_bind;
       [ pbind ltac:(apply parses_rd; lia); pbind ltac:(apply parses_rd; lia);
         pbind ltac:(apply parses_flag); plast ltac:(apply parses_rd; lia); apply parses_ret
       | cbv beta ];
       pbind ltac:(apply parses_rd; lia); pbind ltac:(apply parses_rd; lia);
       pbind ltac:(apply parses_rd; lia);
       pbind ltac:(apply parses_rd; lia); pbind ltac:(apply parses_rd; lia);
       plast ltac:(apply parses_rd; lia); apply parses_ret
     | cbv beta iota zeta ];
     plast ltac:(apply Hloop); apply parses_ret_eq; rewrite !u8_small by lia; reflexivity).
  all:
    (pbind ltac:(apply parses_flag); pbind ltac:(apply parses_flag); cbn [orb];
     eapply parses_bind;
     [ pbind ltac:(apply parses_flag);
       apply parses_bind_ret;
       pbind ltac:(apply parses_rd; lia); pbind ltac:(apply parses_rd; lia);
       apply parses_bind_ret;
       pbind ltac:(apply parses_rd; lia); pbind ltac:(apply parses_rd; lia);
       plast ltac:(apply parses_rd; lia); apply parses_ret
     | cbv beta iota zeta ];
     plast ltac:(apply Hloop); apply parses_ret_eq; rewrite !u8_small by lia; reflexivity).
Qed.

(* ------------------------------------------------------------------ vui_parameters (E.2.1) *)
Lemma parses_hbsr raw a b c d e f g i pos :
  parses raw (hparse_bsr BR) pos
    (fl a ++ fl b ++ fl c ++ ue_bits d ++ ue_bits e ++ ue_bits f ++ ue_bits g ++ ue_bits i)
    (mkHBsr a b c d e f g i).
Proof.
  unfold hparse_bsr.
  pbind ltac:(apply parses_flag). pbind ltac:(apply parses_flag). pbind ltac:(apply parses_flag).
  pbind ltac:(apply parses_ue). pbind ltac:(apply parses_ue). pbind ltac:(apply parses_ue).
  pbind ltac:(apply parses_ue). plast ltac:(apply parses_ue). apply parses_ret.
Qed.

Lemma parses_hvui raw ms x pos : hvui_valid ms x = true -> ms <= 6 ->
  parses raw (hparse_vui BR ms) pos (ser_hvui x) (expected_hvui x).
Proof.
  intros Hv Hms. unfold hvui_valid in Hv. split_all. unfold ue_ok in *.
  unfold hparse_vui, ser_hvui.
  (* aspect ratio *)
  pbind ltac:(apply parses_flag).
  eapply parses_bind.
  { apply (parses_opt raw _ (sx_aspect_ratio_info_present_flag x) _
             (if sx_aspect_ratio_idc x =? 255 then (sx_sar_width x, sx_sar_height x)
              else sar_of_idc (sx_aspect_ratio_idc x)) (0, 0)).
    intros _.
    pbind ltac:(apply parses_rd; lia).
    destruct (sx_aspect_ratio_idc x =? 255) eqn:E; cbn [opt_bits].
    - pbind ltac:(apply parses_rd; lia). plast ltac:(apply parses_rd; lia). apply parses_ret.
    - rewrite sar_table_agrees by lia. apply parses_ret. }
  cbv beta.
  pbind ltac:(apply parses_flag).
  pbind ltac:(apply parses_opt; intros _; apply parses_flag).
  pbind ltac:(apply parses_flag).
  eapply parses_bind.
  { apply (parses_opt raw _ (sx_video_signal_type_present_flag x) _
             (u8 (sx_video_format x), sx_video_full_range_flag x, sx_colour_description_present_flag x,
              (if sx_colour_description_present_flag x
               then (u8 (sx_colour_primaries x), u8 (sx_transfer_characteristics x), u8 (sx_matrix_coeffs x))
               else (0, 0, 0))) (0, false, false, (0, 0, 0))).
    intros _.
    pbind ltac:(apply parses_rd; lia).
    pbind ltac:(apply parses_flag).
    pbind ltac:(apply parses_flag).
    plast ltac:(apply parses_opt; intros _;
                pbind ltac:(apply parses_rd; lia); pbind ltac:(apply parses_rd; lia);
                plast ltac:(apply parses_rd; lia); apply parses_ret).
    apply parses_ret. }
  cbv beta.
  pbind ltac:(apply parses_flag).
  eapply parses_bind.
  { apply (parses_opt raw _ (sx_chroma_loc_info_present_flag x) _
             (sx_chroma_sample_loc_type_top_field x, sx_chroma_sample_loc_type_bottom_field x) (0, 0)).
    intros _. pbind ltac:(apply parses_ue). plast ltac:(apply parses_ue). apply parses_ret. }
  cbv beta.
  pbind ltac:(apply parses_flag).
  pbind ltac:(apply parses_flag).
  pbind ltac:(apply parses_flag).
  pbind ltac:(apply parses_flag).
  eapply parses_bind.
  { apply (parses_opt raw _ (sx_default_display_window_flag x) _
             (sx_def_disp_win_left_offset x, sx_def_disp_win_right_offset x,
              sx_def_disp_win_top_offset x, sx_def_disp_win_bottom_offset x) (0, 0, 0, 0)).
    intros _. pbind ltac:(apply parses_ue). pbind ltac:(apply parses_ue). pbind ltac:(apply parses_ue).
    plast ltac:(apply parses_ue). apply parses_ret. }
  cbv beta.
  pbind ltac:(apply parses_flag).
  eapply parses_bind.
  { apply (parses_opt raw _ (sx_vui_timing_info_present_flag x) _
             (sx_vui_num_units_in_tick x, sx_vui_time_scale x, sx_vui_poc_proportional_to_timing_flag x,
              (if sx_vui_poc_proportional_to_timing_flag x
               then sx_vui_num_ticks_poc_diff_one_minus1 x else 0),
              sx_vui_hrd_parameters_present_flag x,
              (if sx_vui_hrd_parameters_present_flag x
               then Some (expected_hhrd (sx_vui_hrd x)) else None))
             (0, 0, false, 0, false, None)).
    intros Ht.
    pbind ltac:(apply parses_rd; lia).
    pbind ltac:(apply parses_rd; lia).
    pbind ltac:(apply parses_flag).
    pbind ltac:(apply parses_opt; intros _; apply parses_ue).
    pbind ltac:(apply parses_flag).
    plast ltac:(apply parses_opt_some; intros Hh; apply (parses_hhrd raw ms); [|exact Hms];
                match goal with H : (if _ && _ then _ else _) = true |- _ =>
                  rewrite Ht, Hh in H; exact H end).
    apply parses_ret. }
  cbv beta.
  pbind ltac:(apply parses_flag).
  plast ltac:(apply parses_opt_some; intros _; apply parses_hbsr).
  unfold expected_hvui, expected_hsar. cbv beta zeta.
  rewrite !u8_small by lia.
  destruct (sx_video_signal_type_present_flag x), (sx_colour_description_present_flag x),
    (sx_default_display_window_flag x), (sx_vui_timing_info_present_flag x),
    (sx_vui_poc_proportional_to_timing_flag x), (sx_vui_hrd_parameters_present_flag x),
    (sx_overscan_info_present_flag x), (sx_chroma_loc_info_present_flag x);
    apply parses_ret_eq; reflexivity.
Qed.
