(* C15TieAvc2Proofs.v — the reader tie for the repaired avc.ParseSliceHeader (C15Avc2Model.parse_slice_header2)
   and the slice theorem for the EBSP-reader instance.  No axioms. *)
From V.lib Require Import Base.
From V.c13 Require Import C13Spec C13Model C13ReaderProofs.
From V.c15 Require Import C15Model C15Spec C15BitProofs C15Avc2Model C15Avc2DimsProofs C15Avc2Proofs
  C15TieBaseProofs C15TieRelProofs C15TieAvcProofs C15TieMainProofs.

Section Avc2.
  Variable raw : list N.
  Hypothesis raw_ok : Forall lt256 raw.

  Ltac tie_sub ::= first [ apply rel_rplm | apply rel_mmco | apply rel_pwt_entry ].
  Ltac tie_rd_side ::=
    first [ tie_width | (eapply sps_narrow_w1; eassumption) | (eapply sps_narrow_w2; eassumption) ].

  Lemma rel_parse_slice2 spsmap ppsmap :
    (forall id s, spsmap id = Some s -> sps_narrow s = true) ->
    MRel raw true true (parse_slice_header2 ER spsmap ppsmap) (parse_slice_header2 BR spsmap ppsmap).
  Proof. intros Hs. unfold parse_slice_header2. tie. Qed.
End Avc2.

Lemma tie_avc_slice2 raw spsmap ppsmap :
  bytes_ok raw = true -> zrun_ok raw = true ->
  (forall id s, spsmap id = Some s -> sps_narrow s = true) ->
  parse_slice2_er spsmap ppsmap (escape raw) = parse_slice2_br spsmap ppsmap (escape raw).
Proof.
  intros Hb Hz Hs. unfold parse_slice2_er, parse_slice2_br.
  apply (MRel_run raw (bytes_ok_lt256 raw Hb) true true); [apply rel_parse_slice2; assumption|exact Hz].
Qed.

Lemma avc_slice2_er spsmap ppsmap sp pp v beyond cm s p :
  sps_valid sp = true -> pps_valid (eff_chroma_format_idc sp) pp = true -> slice_valid sp pp v = true ->
  pic_size_in_map_units sp < 4294967296 ->
  (pps_has_tail pp && pic_scaling_matrix_present_flag pp = true ->
   cm (pps_seq_parameter_set_id pp) = Some (eff_chroma_format_idc sp)) ->
  zrun_ok (raw_sps sp) = true -> zrun_ok (raw_pps pp) = true -> zrun_ok (raw_slice sp pp v) = true ->
  (forall id x, spsmap id = Some x -> sps_narrow x = true) ->
  parse_sps_er beyond (nalu_sps sp) = Ok s -> parse_pps_er cm (nalu_pps pp) = Ok p ->
  ppsmap (sl_pic_parameter_set_id v) = Some p -> spsmap (pps_seq_parameter_set_id pp) = Some s ->
  parse_slice2_er spsmap ppsmap (nalu_slice sp pp v) = Ok (expected_slice sp pp v).
Proof.
  intros Hs Hp Hv Hps Hm Z1 Z2 Z3 N1 Es Ep Mp Ms.
  unfold nalu_sps, nalu_of in Es. fold (raw_sps sp) in Es.
  rewrite (tie_avc_sps (raw_sps sp) beyond (raw_nalu_ok _ _ _) Z1) in Es.
  unfold nalu_pps, nalu_of in Ep. fold (raw_pps pp) in Ep.
  rewrite (tie_avc_pps (raw_pps pp) cm (raw_nalu_ok _ _ _) Z2) in Ep.
  unfold nalu_slice, nalu_of. fold (raw_slice sp pp v).
  rewrite (tie_avc_slice2 (raw_slice sp pp v) spsmap ppsmap (raw_nalu_ok _ _ _) Z3 N1).
  exact (avc_slice2 spsmap ppsmap sp pp v beyond cm s p Hs Hp Hv Hps Hm Es Ep Mp Ms).
Qed.
