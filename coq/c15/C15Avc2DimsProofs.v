(* C15Avc2DimsProofs.v (first part of the C15Avc2 proofs) — avc.ParseSliceHeader, repaired text (C15Avc2Model.parse_slice_header2): the slice
   theorem WITHOUT the guard of finding F7 — slice-group map types 3..5 included — and the derivation
   lemma behind the repair: PicSizeInMapUnits is recomputed exactly from the fields the SPS keeps. *)
From V.lib Require Import Base.
From V.c13 Require Import C13Spec C13Model C13EscProofs.
From V.c15 Require Import C15Model C15Spec C15BitProofs C15AvcSpsProofs C15AvcVuiProofs C15AvcPpsProofs C15AvcSliceProofs
  C15HevcPpsProofs C15HevcSliceBaseProofs C15Avc2Model.

(* PicSizeInMapUnits (7-17) on the syntax elements *)
Definition pic_size_in_map_units (sp : sps_syntax) : N :=
  (pic_width_in_mbs_minus1 sp + 1) * (pic_height_in_map_units_minus1 sp + 1).

(* the derivation: SPS.picSizeInMapUnits() applied to what ParseSPSNALUnit returns is PicSizeInMapUnits *)
Lemma pic_size_expected offmap nb0 nb1 beyond sp : sps_valid sp = true ->
  sps_pic_size_in_map_units (expected_sps_gen offmap nb0 nb1 beyond sp) = pic_size_in_map_units sp.
Proof.
  intros Hv. unfold sps_pic_size_in_map_units, pic_size_in_map_units.
  cbn [sps_frame_mbs_only sps_frame_cropping sps_chroma_format_idc sps_width sps_height sps_crop_left sps_crop_right
       sps_crop_top sps_crop_bottom expected_sps_gen].
  unfold sps_valid in Hv. split_all.
  unfold display_width, display_height, crop_w, crop_h, crop_unit_x, crop_unit_y, chroma_array_type,
    sub_width_c, sub_height_c, eff_separate_colour_plane, eff_chroma_format_idc, pic_width_in_samples,
    frame_height_in_samples, fmo_n, has_chroma_block, high_profile_idcs in *.
  remember (pic_width_in_mbs_minus1 sp + 1) as W eqn:EW. remember (pic_height_in_map_units_minus1 sp + 1) as H eqn:EH.
  assert (HW : W <= 65536) by lia. assert (HH : H <= 65536) by lia.
  assert (HWH : W * H <= 4294967296) by nia.
  assert (Hgoal : forall w h fmo, w = W * 16 -> h = (2 - fmo) * H * 16 -> (fmo = 0 \/ fmo = 1) ->
            u64 (w / 16 * (h / (16 * (2 - fmo)))) = W * H).
  { intros w h fmo -> -> Hf. replace (W * 16 / 16) with W by (rewrite N.div_mul; lia).
    replace ((2 - fmo) * H * 16 / (16 * (2 - fmo))) with H.
    2:{ replace ((2 - fmo) * H * 16) with (H * (16 * (2 - fmo))) by lia. rewrite N.div_mul; [reflexivity|lia]. }
    apply hu64_id. lia. }
  set (high := existsb _ _) in *.
  assert (Hu : forall x, x < 18446744073709551616 -> u64 x = x) by (intros; apply hu64_id; assumption).
  destruct high, (frame_cropping_flag sp), (frame_mbs_only_flag sp), (separate_colour_plane_flag sp);
    cbn [andb N.eqb Pos.eqb fst snd] in *;
    destruct (chroma_format_idc sp =? 3) eqn:E3; cbn [andb N.eqb fst snd] in *;
    destruct (chroma_format_idc sp =? 1) eqn:E1; cbn [andb N.eqb fst snd] in *;
    destruct (chroma_format_idc sp =? 2) eqn:E2; cbn [andb N.eqb fst snd] in *;
    destruct (chroma_format_idc sp =? 0) eqn:E0; cbn [andb N.eqb fst snd] in *;
    try lia;
    unfold ue_ok in *;
    (first [ apply (Hgoal _ _ 1); [| |right; reflexivity] | apply (Hgoal _ _ 0); [| |left; reflexivity] ]);
    repeat match goal with |- context [u64 ?x] => rewrite (Hu x) by lia end; lia.
Qed.

