(* C15HevcSpsPtlProofs.v — profile_tier_level and scaling_list_data of the HEVC SPS: the model
   parsers on the ideal bit reader return the coded values. *)
From V.lib Require Import Base.
From V.c13 Require Import C13Spec C13Model.
From V.c15 Require Import C15Model C15Spec C15BitProofs C15AvcSpsProofs C15AvcPpsProofs
  C15HevcModel C15HevcSpec C15HevcBitProofs.

(* ------------------------------------------------------------------ profile_tier_level (7.3.3) *)
Lemma parses_hprofile raw p pos :
  hprofile_valid p = true ->
  parses raw (hparse_profile BR) pos (ser_hprofile p)
    (sx_profile_space p, sx_tier_flag p, sx_profile_idc p, sx_profile_compatibility_flags p,
     constraint48 p).
Proof.
  intros Hv. unfold hprofile_valid in Hv. split_all.
  destruct (constraint48_bits p) as [Hbits Hlt]; [lia|].
  unfold hparse_profile, ser_hprofile. rewrite Hbits.
  pbind ltac:(apply parses_rd; lia).
  pbind ltac:(apply parses_flag).
  pbind ltac:(apply parses_rd; lia).
  pbind ltac:(apply parses_rd; lia).
  plast ltac:(apply parses_rd; exact Hlt).
  apply parses_ret_eq.
  unfold u8, u32, u64.
  change (2 ^ 48) with 281474976710656 in Hlt. change (2 ^ 32) with 4294967296 in *.
  rewrite !N.mod_small by lia. reflexivity.
Qed.

Lemma parses_hsub raw s pos :
  hprofile_valid (sx_sub_profile s) = true -> sx_sub_level_idc s < 256 ->
  parses raw (hparse_sub BR (sx_sub_profile_present s, sx_sub_level_present s)) pos
    (opt_bits (sx_sub_profile_present s) (ser_hprofile (sx_sub_profile s))
     ++ opt_bits (sx_sub_level_present s) (u 8 (sx_sub_level_idc s)))
    (expected_hsub s).
Proof.
  intros Hp Hl. unfold hparse_sub, expected_hsub. cbn [fst snd]. cbv zeta.
  eapply parses_bind.
  { apply (parses_opt raw _ (sx_sub_profile_present s) _
             (sx_profile_space (sx_sub_profile s), sx_tier_flag (sx_sub_profile s),
              sx_profile_idc (sx_sub_profile s), sx_profile_compatibility_flags (sx_sub_profile s),
              constraint48 (sx_sub_profile s)) (0, false, 0, 0, 0)).
    intros _. apply parses_hprofile. exact Hp. }
  cbv beta.
  eapply parses_bind_nil.
  { apply (parses_opt raw _ (sx_sub_level_present s) _ (sx_sub_level_idc s) 0).
    intros _. plast ltac:(apply parses_rd; lia). apply parses_ret_eq. unfold u8. apply N.mod_small. lia. }
  cbv beta.
  destruct (sx_sub_profile_present s); cbv beta iota zeta; cbn [andb]; apply parses_ret.
Qed.

Lemma parses_hptl raw ms p pos :
  hptl_valid ms p = true -> ms <= 6 ->
  parses raw (hparse_ptl BR ms) pos (ser_hptl ms p) (expected_hptl p).
Proof.
  intros Hv Hms. unfold hptl_valid in Hv. split_all.
  unfold hparse_ptl, ser_hptl, expected_hptl. cbv zeta.
  pbind ltac:(apply parses_hprofile; assumption).
  pbind ltac:(apply parses_rd; lia).
  assert (E8 : u8 (sx_general_level_idc p) = sx_general_level_idc p) by (unfold u8; apply N.mod_small; lia).
  rewrite E8.
  destruct (0 <? ms) eqn:H0; cbn [opt_bits].
  - eapply parses_bind_nil; [|apply parses_ret].
    pbind ltac:(apply (parses_rep_n raw _
                         (fun s => fl (sx_sub_profile_present s) ++ fl (sx_sub_level_present s))
                         (fun s => (sx_sub_profile_present s, sx_sub_level_present s)) (sx_sub_layers p));
                [lia | unfold loop_bound; lia
                 | intros; pbind ltac:(apply parses_flag); plast ltac:(apply parses_flag); apply parses_ret]).
    replace (ms <? 8) with true by lia.
    pbind ltac:(apply parses_rd; apply N.neq_0_lt_0, N.pow_nonzero; discriminate).
    apply parses_mapM. intros x pos' Hin.
    match goal with H : forallb _ (sx_sub_layers p) = true |- _ =>
      rewrite forallb_forall in H; specialize (H x Hin); apply andb_prop in H; destruct H as [Hx1 Hx2] end.
    apply parses_hsub; [exact Hx1 | lia].
  - assert (Hn : sx_sub_layers p = []).
    { destruct (sx_sub_layers p); [reflexivity|]. rewrite lenN_cons in *. lia. }
    rewrite Hn. cbn [flat_map map app].
    plast ltac:(apply parses_ret). apply parses_ret.
Qed.

(* ------------------------------------------------------------------ scaling_list_data (7.3.4) *)
Lemma parses_hskip_entry raw size_id e pos :
  hsl_entry_valid size_id e = true ->
  parses raw (hskip_scaling_entry BR size_id) pos (ser_hsl_entry size_id e) tt.
Proof.
  intros Hv. unfold hskip_scaling_entry. destruct e as [d | dc cs]; cbn [ser_hsl_entry hsl_entry_valid] in *.
  - pbind ltac:(apply parses_flag). cbn [negb].
    plast ltac:(apply parses_ue). apply parses_ret.
  - split_all. pbind ltac:(apply parses_flag). cbn [negb].
    eapply parses_bind.
    { apply (parses_opt raw _ (1 <? size_id) _ tt tt).
      intros _. plast ltac:(apply parses_ue_of_se). apply parses_ret. }
    cbv beta.
    eapply parses_bind_nil; [|apply parses_ret].
    apply (parses_rep_len raw (rd_ue BR) se_bits se_code cs).
    + unfold sl_coef_num, lenN in *. lia.
    + intros. apply parses_ue_of_se.
  Unshelve. all: exact tt.
Qed.

Lemma parses_hskip_entries raw size_id (k : nat) l pos :
  lenN l = N.of_nat k -> forallb (hsl_entry_valid size_id) l = true ->
  parses raw (rep k (hskip_scaling_entry BR size_id)) pos (flat_map (ser_hsl_entry size_id) l)
         (map (fun _ => tt) l).
Proof.
  intros Hl Hv.
  apply (parses_rep_len raw _ (ser_hsl_entry size_id) (fun _ => tt) l); [unfold lenN in Hl; lia|].
  intros x pos' Hin. rewrite forallb_forall in Hv. apply parses_hskip_entry. apply Hv. exact Hin.
Qed.

Lemma parses_hskip_sl raw s pos :
  hsl_valid s = true ->
  parses raw (hskip_scaling_list_data BR) pos (ser_hsl s) tt.
Proof.
  intros Hv. unfold hsl_valid in Hv. split_all.
  unfold hskip_scaling_list_data, ser_hsl.
  pbind ltac:(apply (parses_hskip_entries raw 0 6 (sx_sl0 s)); [lia | assumption]).
  pbind ltac:(apply (parses_hskip_entries raw 1 6 (sx_sl1 s)); [lia | assumption]).
  pbind ltac:(apply (parses_hskip_entries raw 2 6 (sx_sl2 s)); [lia | assumption]).
  plast ltac:(apply (parses_hskip_entries raw 3 2 (sx_sl3 s)); [lia | assumption]).
  apply parses_ret.
Qed.
