(* C15AvcSliceProofs.v — ParseSliceHeader (model, ideal bit reader) applied to the slice NAL unit
   built by the independent serialiser of slice_header() (7.3.3) returns the coded values, resolves
   the PPS through the slice's pic_parameter_set_id and the SPS through that PPS's
   seq_parameter_set_id, and Size = bytes of the escaped NAL unit holding the header. *)
From V.lib Require Import Base.
From V.c13 Require Import C13Spec C13Model.
From V.c15 Require Import C15Model C15Spec C15BitProofs C15AvcSpsProofs C15AvcVuiProofs C15AvcPpsProofs.

(* ------------------------------------------------------------------ small tools *)
(* optional element whose value is given in its final (guarded) form *)
Lemma parses_opt' {A} raw (p : bstate -> res (A * bstate)) (c : bool) e (a d : A) pos :
  (c = true -> parses raw p pos e a) -> (c = false -> d = a) ->
  parses raw (if c then p else ret d) pos (opt_bits c e) a.
Proof. destruct c; intros H1 H2; [apply H1; reflexivity | rewrite (H2 eq_refl); apply parses_ret]. Qed.

Lemma u32_id x : x < 4294967296 -> u32 x = x.
Proof. intros H. unfold u32. apply N.mod_small. exact H. Qed.

Lemma i32_id k : se_ok k = true -> i32 k = k.
Proof. unfold se_ok, int32_ok, i32. intros H. lia. Qed.

Lemma i32_zz (c : bool) k : se_ok k = true -> i32 (if c then k else 0%Z) = (if c then k else 0%Z).
Proof. intros H. destruct c; [apply i32_id; exact H | reflexivity]. Qed.

Lemma u32_n (c : bool) x : x < 4294967296 -> u32 (if c then x else 0) = (if c then x else 0).
Proof. intros H. destruct c; [apply u32_id; exact H | reflexivity]. Qed.

Lemma ue_ok_lt x : ue_ok x = true -> x < 4294967296.
Proof. unfold ue_ok. lia. Qed.

(* ------------------------------------------------------------------ ref_pic_list_modification *)
Lemma parses_rplm_loop raw : forall l fuel i ad lt av pos,
  forallb rplm_entry_ok l = true -> (length l < fuel)%nat ->
  parses raw (rplm_loop BR fuel (i, ad, lt, av)) pos (flat_map ser_rplm_entry l ++ ue_bits 3)
    (3, last_rplm (fun i => (i =? 0) || (i =? 1)) l ad, last_rplm (fun i => i =? 2) l lt, av).
Proof.
  induction l as [|e t IH]; intros fuel i ad lt av pos Hok Hf;
    (destruct fuel as [|f]; [cbn [length] in Hf; lia|]); cbn [rplm_loop flat_map app].
  - plast ltac:(apply parses_ue). change (u32 3) with 3. cbn [N.eqb Pos.eqb orb].
    apply parses_ret.
  - cbn [forallb] in Hok. apply andb_prop in Hok. destruct Hok as [He Ht].
    destruct e as [i' x]. unfold rplm_entry_ok in He. cbn [fst snd] in He.
    apply andb_prop in He. destruct He as [Hi Hx]. apply ue_ok_lt in Hx.
    unfold ser_rplm_entry. cbn [fst snd]. rewrite <- !app_assoc.
    pbind ltac:(apply parses_ue).
    rewrite (u32_id i') by lia.
    assert (C : i' = 0 \/ i' = 1 \/ i' = 2) by lia.
    cbn [length] in Hf.
    destruct C as [-> | [-> | ->]]; cbn [N.eqb Pos.eqb orb];
      (pbind ltac:(apply parses_ue));
      (eapply parses_bind_peek; [apply parses_get_err|]); cbv beta iota;
      rewrite (u32_id x) by exact Hx;
      (apply IH; [exact Ht | lia]).
Qed.

(* flag + loop, as it appears twice in ParseSliceHeader *)
Lemma parses_rplm_block raw (c flag : bool) l i ad lt av pos :
  forallb rplm_entry_ok l = true -> lenN l <= 1000 ->
  parses raw
    (if c then
       bind (rd_flag BR) (fun f =>
       bind (if f then rplm_loop BR loop_fuel (i, ad, lt, av) else ret (i, ad, lt, av)) (fun stt =>
       ret (f, stt)))
     else ret (false, (i, ad, lt, av)))
    pos (opt_bits c (ser_rplm flag l))
    (c && flag,
     ((if c && flag then 3 else i),
      last_rplm (fun i => (i =? 0) || (i =? 1)) (if c && flag then l else []) ad,
      last_rplm (fun i => i =? 2) (if c && flag then l else []) lt, av)).
Proof.
  intros Hok Hlen.
  apply parses_opt'; [intros -> | intros ->; reflexivity]. cbn [andb].
  unfold ser_rplm.
  pbind ltac:(apply parses_flag).
  destruct flag; cbn [opt_bits].
  - plast ltac:(apply parses_rplm_loop; [exact Hok | unfold loop_fuel, loop_bound, lenN in *; lia]).
    apply parses_ret.
  - apply parses_bind_ret. apply parses_ret.
Qed.

(* ------------------------------------------------------------------ dec_ref_pic_marking *)
Definition last_mm (sel : N -> bool) (proj : N * N * N -> N) (l : list (N * N * N)) (d : N) : N :=
  fold_left (fun acc e => if sel (fst (fst e)) then proj e else acc) l d.

Lemma last_mmco_eq v sel proj d : last_mmco v sel proj d = last_mm sel proj (mmco_run v) d.
Proof. reflexivity. Qed.

Lemma parses_mmco_loop raw : forall l fuel df lt fi mx pos,
  forallb mmco_ok l = true -> (length l < fuel)%nat ->
  parses raw (mmco_loop BR fuel (df, lt, fi, mx)) pos (flat_map ser_mmco l ++ ue_bits 0)
    (last_mm (fun op => (op =? 1) || (op =? 3)) (fun e => snd (fst e)) l df,
     last_mm (fun op => op =? 2) (fun e => snd (fst e)) l lt,
     last_mm (fun op => (op =? 3) || (op =? 6)) (fun e => if fst (fst e) =? 3 then snd e else snd (fst e)) l fi,
     last_mm (fun op => op =? 4) (fun e => snd (fst e)) l mx).
Proof.
  induction l as [|e t IH]; intros fuel df lt fi mx pos Hok Hf;
    (destruct fuel as [|f]; [cbn [length] in Hf; lia|]); cbn [mmco_loop flat_map app].
  - plast ltac:(apply parses_ue). cbn [N.eqb Pos.eqb orb].
    apply parses_bind_ret. cbv beta iota. apply parses_ret.
  - cbn [forallb] in Hok. apply andb_prop in Hok. destruct Hok as [He Ht].
    destruct e as [[op a] b]. unfold mmco_ok in He.
    apply andb_prop in He. destruct He as [He Hb]. apply andb_prop in He. destruct He as [He Ha].
    apply andb_prop in He. destruct He as [Hop1 Hop6].
    apply ue_ok_lt in Ha. apply ue_ok_lt in Hb.
    cbn [length] in Hf.
    assert (C : op = 1 \/ op = 2 \/ op = 3 \/ op = 4 \/ op = 5 \/ op = 6) by lia.
    unfold ser_mmco.
    destruct C as [-> | [-> | [-> | [-> | [-> | ->]]]]];
      cbn [N.eqb Pos.eqb orb opt_bits app]; rewrite <- ?app_assoc, ?app_nil_r.
    + pbind ltac:(apply parses_ue).
      eapply parses_bind; [plast ltac:(apply parses_ue); apply parses_ret|]. cbv beta iota.
      eapply parses_bind_peek; [apply parses_get_err|]. cbv beta iota.
      rewrite (u32_id a) by exact Ha. apply IH; [exact Ht | lia].
    + pbind ltac:(apply parses_ue).
      eapply parses_bind; [plast ltac:(apply parses_ue); apply parses_ret|]. cbv beta iota.
      eapply parses_bind_peek; [apply parses_get_err|]. cbv beta iota.
      rewrite (u32_id a) by exact Ha. apply IH; [exact Ht | lia].
    + pbind ltac:(apply parses_ue).
      eapply parses_bind; [plast ltac:(apply parses_ue); apply parses_ret|]. cbv beta iota.
      pbind ltac:(apply parses_ue).
      eapply parses_bind_peek; [apply parses_get_err|]. cbv beta iota.
      rewrite (u32_id a) by exact Ha. rewrite (u32_id b) by exact Hb. apply IH; [exact Ht | lia].
    + pbind ltac:(apply parses_ue).
      apply parses_bind_ret. cbv beta iota.
      pbind ltac:(apply parses_ue).
      eapply parses_bind_peek; [apply parses_get_err|]. cbv beta iota.
      rewrite (u32_id a) by exact Ha. apply IH; [exact Ht | lia].
    + pbind ltac:(apply parses_ue).
      apply parses_bind_ret. cbv beta iota.
      eapply parses_bind_peek; [apply parses_get_err|]. cbv beta iota.
      apply IH; [exact Ht | lia].
    + pbind ltac:(apply parses_ue).
      apply parses_bind_ret. cbv beta iota.
      pbind ltac:(apply parses_ue).
      eapply parses_bind_peek; [apply parses_get_err|]. cbv beta iota.
      rewrite (u32_id a) by exact Ha. apply IH; [exact Ht | lia].
Qed.

(* ------------------------------------------------------------------ pred_weight_table *)
Lemma parses_pwt_chroma raw (cat : bool) (ch : option (Z * Z * Z * Z)) pos :
  parses raw
    (if cat then
       bind (rd_flag BR) (fun cw =>
       if cw then bind (rd_ue BR) (fun a => bind (rd_ue BR) (fun b => bind (rd_ue BR) (fun c =>
                  bind (rd_ue BR) (fun d => ret tt))))
       else ret tt)
     else ret tt) pos
    (opt_bits cat
       (match ch with
        | None => fl false
        | Some (w0, o0, w1, o1) => fl true ++ se_bits w0 ++ se_bits o0 ++ se_bits w1 ++ se_bits o1
        end)) tt.
Proof.
  destruct cat; cbn [opt_bits]; [|apply parses_ret].
  destruct ch as [[[[a b] c] d]|].
  - pbind ltac:(apply parses_flag).
    pbind ltac:(apply parses_ue_of_se). pbind ltac:(apply parses_ue_of_se).
    pbind ltac:(apply parses_ue_of_se). plast ltac:(apply parses_ue_of_se). apply parses_ret.
  - plast ltac:(apply parses_flag). apply parses_ret.
Qed.

Lemma parses_pwt_entry raw sp e pos :
  parses raw (pwt_entry BR (sl_cat_nonzero sp)) pos (ser_pwt_entry sp e) tt.
Proof.
  unfold pwt_entry, ser_pwt_entry.
  destruct e as [lu ch]. cbn [pwt_luma pwt_chroma].
  destruct lu as [[w o]|].
  - rewrite <- app_assoc.
    pbind ltac:(apply parses_flag).
    eapply parses_bind.
    { pbind ltac:(apply parses_ue_of_se). plast ltac:(apply parses_ue_of_se). apply parses_ret. }
    cbv beta. apply parses_pwt_chroma.
  - pbind ltac:(apply parses_flag).
    apply parses_bind_ret. apply parses_pwt_chroma.
Qed.

(* ------------------------------------------------------------------ what the slice parser consults in the parameter sets *)
Definition sps_view (s : sps) (sp : sps_syntax) : Prop :=
  sps_separate_colour_plane s = eff_separate_colour_plane sp
  /\ sps_chroma_format_idc s = eff_chroma_format_idc sp
  /\ sps_log2_max_frame_num_minus4 s = log2_max_frame_num_minus4 sp
  /\ sps_frame_mbs_only s = frame_mbs_only_flag sp
  /\ sps_pic_order_cnt_type s = pic_order_cnt_type sp
  /\ sps_log2_max_pic_order_cnt_lsb_minus4 s
     = (if pic_order_cnt_type sp =? 0 then log2_max_pic_order_cnt_lsb_minus4 sp else 0)
  /\ sps_delta_pic_order_always_zero s
     = ((pic_order_cnt_type sp =? 1) && delta_pic_order_always_zero_flag sp).

Definition pps_view (p : pps) (pp : pps_syntax) : Prop :=
  pps_sps_id p = pps_seq_parameter_set_id pp
  /\ pps_bottom_field_pic_order p = bottom_field_pic_order_in_frame_present_flag pp
  /\ pps_redundant_pic_cnt_present p = redundant_pic_cnt_present_flag pp
  /\ pps_num_ref_idx_l0_default_active_minus1 p = num_ref_idx_l0_default_active_minus1 pp
  /\ pps_num_ref_idx_l1_default_active_minus1 p = num_ref_idx_l1_default_active_minus1 pp
  /\ pps_weighted_pred p = weighted_pred_flag pp
  /\ pps_weighted_bipred_idc p = weighted_bipred_idc pp
  /\ pps_entropy_coding_mode p = entropy_coding_mode_flag pp
  /\ pps_deblocking_filter_control_present p = deblocking_filter_control_present_flag pp
  /\ ((0 <? pps_num_slice_groups_minus1 p) && (3 <=? pps_slice_group_map_type p)
      && (pps_slice_group_map_type p <=? 5)) = sl_has_fmo_cycle pp.

Lemma sps_view_expected offmap nb0 nb1 beyond sp : sps_view (expected_sps_gen offmap nb0 nb1 beyond sp) sp.
Proof. unfold sps_view, expected_sps_gen. cbn. repeat split. Qed.

Lemma pps_view_expected pp : pps_view (expected_pps pp) pp.
Proof.
  unfold pps_view, expected_pps, sl_has_fmo_cycle. cbn. repeat split.
  destruct (0 <? num_slice_groups_minus1 pp); reflexivity.
Qed.

(* ------------------------------------------------------------------ the conditional blocks of slice_header() *)
Ltac pbind_val a tac := eapply (parses_bind _ _ _ _ _ _ a); [ tac | cbv beta iota zeta ].

Lemma parses_fld raw (nfmo fpf bff : bool) pos :
  parses raw
    (if nfmo then bind (rd_flag BR) (fun f => bind (if f then rd_flag BR else ret false) (fun b => ret (f, b)))
     else ret (false, false)) pos
    (opt_bits nfmo (fl fpf ++ opt_bits fpf (fl bff)))
    (nfmo && fpf, nfmo && fpf && bff).
Proof.
  destruct nfmo; cbn [opt_bits andb]; [|apply parses_ret].
  pbind ltac:(apply parses_flag).
  destruct fpf; cbn [opt_bits andb].
  - plast ltac:(apply parses_flag). apply parses_ret.
  - apply parses_bind_ret. apply parses_ret.
Qed.

Lemma parses_poc raw poc L dz (bd : bool) lsb dbot d0 d1 pos :
  lsb < 2 ^ (L + 4) ->
  parses raw
    (if poc =? 0 then
       bind (rd BR ((if poc =? 0 then L else 0) + 4)) (fun lsb =>
       bind (if bd then rd_se BR else ret 0%Z) (fun d => ret (lsb, d, 0%Z, 0%Z)))
     else if (poc =? 1) && negb ((poc =? 1) && dz) then
       bind (rd_se BR) (fun d0 => bind (if bd then rd_se BR else ret 0%Z) (fun d1 => ret (0, 0%Z, d0, d1)))
     else ret (0, 0%Z, 0%Z, 0%Z)) pos
    (opt_bits (poc =? 0) (u (L + 4) lsb ++ opt_bits bd (se_bits dbot))
     ++ opt_bits ((poc =? 1) && negb dz) (se_bits d0 ++ opt_bits bd (se_bits d1)))
    ((if poc =? 0 then lsb else 0), (if (poc =? 0) && bd then dbot else 0%Z),
     (if (poc =? 1) && negb dz then d0 else 0%Z), (if (poc =? 1) && negb dz && bd then d1 else 0%Z)).
Proof.
  intros Hl.
  destruct (poc =? 0) eqn:E0.
  - assert (E1 : (poc =? 1) = false) by lia. rewrite E1. cbn [andb opt_bits]. rewrite app_nil_r.
    pbind ltac:(apply parses_rd; exact Hl).
    plast ltac:(apply parses_opt; intros _; apply parses_se).
    apply parses_ret.
  - cbn [opt_bits app andb].
    replace ((poc =? 1) && negb ((poc =? 1) && dz)) with ((poc =? 1) && negb dz)
      by (destruct (poc =? 1), dz; reflexivity).
    destruct ((poc =? 1) && negb dz); cbn [opt_bits andb]; [|apply parses_ret].
    pbind ltac:(apply parses_se).
    plast ltac:(apply parses_opt; intros _; apply parses_se).
    apply parses_ret.
Qed.

Lemma parses_nri raw (has tB ovf : bool) l0 l1 d0 d1 pos :
  l0 <= 31 -> l1 <= 31 -> d0 <= 31 -> d1 <= 31 ->
  parses raw
    (if has then
       bind (rd_flag BR) (fun ov =>
       if ov then bind (rd_ue BR) (fun l0 => bind (if tB then rd_ue BR else ret 0) (fun l1 =>
                  ret (ov, u32 l0, u32 l1)))
       else ret (ov, u32 d0, u32 d1))
     else ret (false, 0, 0)) pos
    (opt_bits has (fl ovf ++ opt_bits ovf (ue_bits l0 ++ opt_bits tB (ue_bits l1))))
    (has && ovf, (if has then (if has && ovf then l0 else d0) else 0),
     (if has then (if has && ovf then (if tB then l1 else 0) else d1) else 0)).
Proof.
  intros H0 H1 H2 H3.
  destruct has; cbn [opt_bits andb]; [|apply parses_ret].
  pbind ltac:(apply parses_flag).
  destruct ovf; cbn [opt_bits].
  - pbind ltac:(apply parses_ue).
    plast ltac:(apply parses_opt; intros _; apply parses_ue).
    rewrite (u32_id l0) by lia. rewrite u32_n by lia. apply parses_ret.
  - rewrite (u32_id d0), (u32_id d1) by lia. apply parses_ret.
Qed.

Lemma parses_pwt_block raw sp (hp tB : bool) l0 l1 ld cd (w0 w1 : list pwt_entry_syntax) pos :
  ue_ok ld = true -> ue_ok cd = true ->
  (hp = true -> lenN w0 = l0 + 1 /\ l0 <= 31 /\ (tB = true -> lenN w1 = l1 + 1 /\ l1 <= 31)) ->
  parses raw
    (if hp then
       bind (rd_ue BR) (fun ld =>
       bind (if sl_cat_nonzero sp then rd_ue BR else ret 0) (fun cd =>
       bind (rep_break_n BR (l0 + 1) (pwt_entry BR (sl_cat_nonzero sp))) (fun x0 =>
       bind (if tB then rep_break_n BR (l1 + 1) (pwt_entry BR (sl_cat_nonzero sp)) else ret []) (fun x1 =>
       ret (u32 ld, u32 cd)))))
     else ret (0, 0)) pos
    (opt_bits hp (ue_bits ld ++ opt_bits (sl_cat_nonzero sp) (ue_bits cd)
                  ++ flat_map (ser_pwt_entry sp) w0 ++ opt_bits tB (flat_map (ser_pwt_entry sp) w1)))
    ((if hp then ld else 0), (if hp && sl_cat_nonzero sp then cd else 0)).
Proof.
  intros Hld Hcd Hlen. apply ue_ok_lt in Hld. apply ue_ok_lt in Hcd.
  destruct hp; cbn [opt_bits andb]; [|apply parses_ret].
  destruct (Hlen eq_refl) as (Hw0 & Hl0 & Hw1).
  pbind ltac:(apply parses_ue).
  pbind ltac:(apply parses_opt; intros _; apply parses_ue).
  pbind ltac:(apply (parses_rep_break_n raw _ (ser_pwt_entry sp) (fun _ => tt) w0);
              [lia | unfold loop_bound; lia | intros; apply parses_pwt_entry]).
  eapply parses_bind_nil.
  { apply (parses_opt' raw _ tB _ (if tB then map (fun _ : pwt_entry_syntax => tt) w1 else []) []).
    - intros ->. destruct (Hw1 eq_refl) as (Hw1' & Hl1).
      apply (parses_rep_break_n raw _ (ser_pwt_entry sp) (fun _ => tt) w1);
        [lia | unfold loop_bound; lia | intros; apply parses_pwt_entry].
    - intros ->. reflexivity. }
  cbv beta.
  rewrite (u32_id ld) by exact Hld. rewrite u32_n by exact Hcd. apply parses_ret.
Qed.

Lemma parses_marking raw (mk idr a b ad : bool) l ltpn0 pos :
  forallb mmco_ok l = true -> lenN l <= 1000 ->
  parses raw
    (if mk then
       if idr then bind (rd_flag BR) (fun a => bind (rd_flag BR) (fun b => ret (a, b, false, (0, ltpn0, 0, 0))))
       else bind (rd_flag BR) (fun ad =>
            bind (if ad then mmco_loop BR loop_fuel (0, ltpn0, 0, 0) else ret (0, ltpn0, 0, 0)) (fun stt =>
            ret (false, false, ad, stt)))
     else ret (false, false, false, (0, ltpn0, 0, 0))) pos
    (opt_bits mk (if idr then fl a ++ fl b
                  else fl ad ++ opt_bits ad (flat_map ser_mmco l ++ ue_bits 0)))
    (mk && idr && a, mk && idr && b, mk && negb idr && ad,
     (last_mm (fun op => (op =? 1) || (op =? 3)) (fun e => snd (fst e))
              (if mk && negb idr && ad then l else []) 0,
      last_mm (fun op => op =? 2) (fun e => snd (fst e)) (if mk && negb idr && ad then l else []) ltpn0,
      last_mm (fun op => (op =? 3) || (op =? 6)) (fun e => if fst (fst e) =? 3 then snd e else snd (fst e))
              (if mk && negb idr && ad then l else []) 0,
      last_mm (fun op => op =? 4) (fun e => snd (fst e)) (if mk && negb idr && ad then l else []) 0)).
Proof.
  intros Hok Hlen.
  destruct mk; cbn [opt_bits andb]; [|apply parses_ret].
  destruct idr; cbn [negb andb].
  - pbind ltac:(apply parses_flag). plast ltac:(apply parses_flag). apply parses_ret.
  - pbind ltac:(apply parses_flag).
    destruct ad; cbn [opt_bits].
    + plast ltac:(apply parses_mmco_loop; [exact Hok | unfold loop_fuel, loop_bound, lenN in *; lia]).
      apply parses_ret.
    + apply parses_bind_ret. apply parses_ret.
Qed.

Lemma parses_qs raw (tSP tSI sw : bool) qsd pos :
  parses raw
    (if tSP || tSI then
       bind (if tSP then rd_flag BR else ret false) (fun sw => bind (rd_se BR) (fun d => ret (sw, d)))
     else ret (false, 0%Z)) pos
    (opt_bits (tSP || tSI) (opt_bits tSP (fl sw) ++ se_bits qsd))
    (tSP && sw, (if tSP || tSI then qsd else 0%Z)).
Proof.
  destruct tSP; cbn [orb opt_bits andb].
  - pbind ltac:(apply parses_flag). plast ltac:(apply parses_se). apply parses_ret.
  - destruct tSI; cbn [opt_bits app]; [|apply parses_ret].
    apply parses_bind_ret. plast ltac:(apply parses_se). apply parses_ret.
Qed.

Lemma parses_db raw (dfc : bool) idc a b pos :
  idc <= 2 ->
  parses raw
    (if dfc then
       bind (rd_ue BR) (fun idc =>
       if negb (u32 idc =? 1) then bind (rd_se BR) (fun a => bind (rd_se BR) (fun b => ret (u32 idc, a, b)))
       else ret (u32 idc, 0%Z, 0%Z))
     else ret (0, 0%Z, 0%Z)) pos
    (opt_bits dfc (ue_bits idc ++ opt_bits (negb (idc =? 1)) (se_bits a ++ se_bits b)))
    ((if dfc then idc else 0), (if dfc && negb (idc =? 1) then a else 0%Z),
     (if dfc && negb (idc =? 1) then b else 0%Z)).
Proof.
  intros Hi.
  destruct dfc; cbn [opt_bits andb]; [|apply parses_ret].
  pbind ltac:(apply parses_ue).
  rewrite (u32_id idc) by lia.
  destruct (negb (idc =? 1)); cbn [opt_bits].
  - pbind ltac:(apply parses_se). plast ltac:(apply parses_se). apply parses_ret.
  - apply parses_ret.
Qed.

(* ------------------------------------------------------------------ slice_header() *)
Lemma has_pwt_has_ref (wp wb tP tSP tB : bool) :
  wp && (tP || tSP) || wb && tB = true -> tP || tSP || tB = true.
Proof. destruct wp, wb, tP, tSP, tB; cbn; intros H; try reflexivity; discriminate. Qed.

Lemma if_false_and (b d : bool) : (if b then d else false) = b && d.
Proof. destruct b; reflexivity. Qed.

Lemma pow_le_16 L : L <= 12 -> 2 ^ (L + 4) <= 65536.
Proof. intros HL. change 65536 with (2 ^ 16). apply N.pow_le_mono_r; lia. Qed.

Lemma if3_or (a b : bool) : (if b then 3 else if a then 3 else 0) = (if a || b then 3 else 0).
Proof. destruct a, b; reflexivity. Qed.

Lemma last_rplm_app sel a b d : last_rplm sel (a ++ b) d = last_rplm sel b (last_rplm sel a d).
Proof. unfold last_rplm. apply fold_left_app. Qed.

Lemma parses_slice_header s p c spsmap ppsmap sp pp v :
  sps_valid sp = true -> pps_valid c pp = true -> slice_valid sp pp v = true ->
  sl_has_fmo_cycle pp = false ->
  nbytes_at (raw_slice sp pp v) (8 + lenN (ser_slice_header sp pp v)) < 4294967296 ->
  sps_view s sp -> pps_view p pp ->
  ppsmap (sl_pic_parameter_set_id v) = Some p -> spsmap (pps_seq_parameter_set_id pp) = Some s ->
  parses (raw_slice sp pp v) (parse_slice_header BR spsmap ppsmap) 0
    (u 8 (32 * sl_nal_ref_idc v + sl_nal_unit_type v) ++ ser_slice_header sp pp v)
    (expected_slice sp pp v).
Proof.
  intros Hsv Hpv Hv Hg Hsz Vs Vp Hpm Hsm.
  destruct Vs as (S1 & S2 & S3 & S4 & S5 & S6 & S7).
  destruct Vp as (P1 & P2 & P3 & P4 & P5 & P6 & P7 & P8 & P9 & P10).
  assert (Hpp : pic_parameter_set_id pp <= 255 /\ num_ref_idx_l0_default_active_minus1 pp <= 31
                /\ num_ref_idx_l1_default_active_minus1 pp <= 31)
    by (unfold pps_valid in Hpv; split_all; lia).
  assert (Hsp : log2_max_frame_num_minus4 sp <= 12 /\ log2_max_pic_order_cnt_lsb_minus4 sp <= 12)
    by (unfold sps_valid in Hsv; split_all; lia).
  destruct Hpp as (Hppid & Hd0 & Hd1). destruct Hsp as (Hfn & Hpoc).
  unfold slice_valid in Hv. split_all. unfold ue_ok in *.
  assert (Hr : sl_nal_ref_idc v < 4) by lia.
  assert (Ht : sl_nal_unit_type v = 1 \/ sl_nal_unit_type v = 5) by lia.
  destruct (nal_header_u8 (sl_nal_ref_idc v) (sl_nal_unit_type v) Hr) as (_ & Hland & Hlt & Hshr); [lia|].
  assert (Hchk : negb ((sl_nal_unit_type v =? 1) || (sl_nal_unit_type v =? 2) || (sl_nal_unit_type v =? 5)
                       || (sl_nal_unit_type v =? 19)) = false)
    by (destruct Ht as [-> | ->]; reflexivity).
  set (raw := raw_slice sp pp v) in *.
  unfold parse_slice_header.
  pbind ltac:(apply parses_rd; exact Hlt).
  rewrite Hland, Hshr, Hchk. cbv iota.
  unfold ser_slice_header.
  pbind ltac:(apply parses_ue). pbind ltac:(apply parses_ue). pbind ltac:(apply parses_ue).
  rewrite (u32_id (sl_pic_parameter_set_id v)) by lia.
  rewrite Hpm. cbv beta iota. rewrite P1, Hsm. cbv beta iota.
  unfold sps_chroma_array_type.
  rewrite ?S1, ?S2, ?S3, ?S4, ?S5, ?S6, ?S7, ?P2, ?P3, ?P4, ?P5, ?P6, ?P7, ?P8, ?P9, ?P10, Hg.
  cbv iota.
  fold (chroma_array_type sp). fold (sl_cat_nonzero sp).
  unfold expected_slice. cbv zeta beta.
  unfold eff_l0, eff_l1, sl_override, rplm_all, last_mmco, mmco_run in *.
  unfold sl_separate_colour_plane, idr_pic, sl_poc0, sl_poc1, sl_bottom_delta, sl_field_pic, sl_has_ref_idx,
    sl_has_pwt, is_P, is_B, is_I, is_SP, is_SI, sl_type5 in *.
  set (tP := slice_type v mod 5 =? 0) in *. set (tB := slice_type v mod 5 =? 1) in *.
  set (tI := slice_type v mod 5 =? 2) in *. set (tSP := slice_type v mod 5 =? 3) in *.
  set (tSI := slice_type v mod 5 =? 4) in *.
  pbind ltac:(apply parses_opt; intros _; apply parses_rd; lia).
  pbind ltac:(apply parses_rd; lia).
  pbind ltac:(apply parses_fld).
  pbind ltac:(apply parses_opt; intros _; apply parses_ue).
  rewrite (app_assoc (opt_bits (pic_order_cnt_type sp =? 0) _)).
  pbind ltac:(apply parses_poc; lia).
  pbind ltac:(apply parses_opt; intros _; apply parses_ue).
  pbind ltac:(apply parses_opt; intros _; apply parses_flag).
  pbind ltac:(apply parses_nri; lia).
  pbind ltac:(apply parses_rplm_block; [assumption | lia]).
  pbind ltac:(apply parses_rplm_block; [assumption | lia]).
  pbind ltac:(apply parses_pwt_block; [assumption | assumption | ]).
  { intros Hhp.
    match goal with H : (if _ then _ else true) = true |- _ =>
      rewrite Hhp in H; apply andb_prop in H; destruct H as [Hw0 Hw1] end.
    assert (Hhas : tP || tSP || tB = true) by (apply (has_pwt_has_ref _ _ _ _ _ Hhp)).
    rewrite Hhas in *. cbn [andb] in *.
    split; [lia|]. split; [destruct (num_ref_idx_active_override_flag v); lia|].
    intros HtB. rewrite HtB in *.
    split; [lia | destruct (num_ref_idx_active_override_flag v); lia]. }
  pbind ltac:(apply parses_marking; [assumption | lia]).
  pbind ltac:(apply parses_opt; intros _; apply parses_ue).
  pbind ltac:(apply parses_se).
  pbind ltac:(apply parses_qs).
  cbn [opt_bits]. 
  pbind ltac:(apply parses_db; lia).
  apply parses_bind_ret.
  eapply parses_bind_peek; [apply parses_get_nbytes|]. cbv beta.
  apply parses_ret_eq.
  rewrite Hg.
  pose proof (pow_le_16 _ Hfn) as Hp1. pose proof (pow_le_16 _ Hpoc) as Hp2.
  rewrite (u32_id (first_mb_in_slice v)) by lia.
  rewrite (u32_id (frame_num v)) by lia.
  rewrite !u32_n by lia.
  rewrite !i32_zz by assumption.
  rewrite (i32_id (slice_qp_delta v)) by assumption.
  change (u32 0) with 0.
  rewrite if_false_and, if3_or, !last_rplm_app.
  unfold last_mm. cbv beta.
  match goal with |- context [u32 (nbytes_at ?r ?e)] =>
    replace e with (8 + lenN (ser_slice_header sp pp v)) end.
  - rewrite (u32_id _ Hsz). subst raw. reflexivity.
  - subst tP tB tI tSP tSI.
    unfold ser_slice_header, sl_separate_colour_plane, idr_pic, sl_poc0, sl_poc1, sl_bottom_delta, sl_field_pic,
      sl_has_ref_idx, sl_has_pwt, is_P, is_B, is_I, is_SP, is_SI, sl_type5.
    rewrite Hg. rewrite !lenN_app. cbn [opt_bits]. rewrite !lenN_u. change (lenN (@nil bool)) with 0. lia.
Qed.

(* ------------------------------------------------------------------ the header fits in 2^32 bytes *)
Lemma escape_from_len : forall l z, lenN (escape_from z l) <= 2 * lenN l.
Proof.
  induction l as [|b t IH]; intros z; cbn [escape_from].
  - rewrite lenN_nil. lia.
  - destruct ((z =? 2) && (b <=? 3)); rewrite !lenN_cons;
      match goal with |- context [escape_from ?z' t] => specialize (IH z') end; lia.
Qed.

Lemma nbytes_at_le raw bits : nbytes_at raw bits <= 2 * ((bits + 7) / 8).
Proof.
  unfold nbytes_at, escape.
  eapply N.le_trans; [apply escape_from_len|].
  unfold lenN. rewrite firstn_length. lia.
Qed.

Lemma len_ue_le v : v < 4294967295 -> lenN (ue_bits v) <= 63.
Proof.
  intros H. rewrite lenN_ue_bits.
  assert (N.log2 (v + 1) < 32); [|lia].
  apply N.log2_lt_pow2; [lia|]. change (2 ^ 32) with 4294967296. lia.
Qed.

Lemma len_se_le k : se_ok k = true -> lenN (se_bits k) <= 63.
Proof.
  unfold se_ok, int32_ok, se_bits. intros H. apply len_ue_le.
  destruct k as [|q|q]; cbn [se_code]; lia.
Qed.

Lemma len_opt_le (c : bool) (e : list bool) b : (c = true -> lenN e <= b) -> lenN (opt_bits c e) <= b.
Proof. destruct c; cbn [opt_bits]; intros H; [apply H; reflexivity | rewrite lenN_nil; lia]. Qed.

Lemma len_app_le {A} (a b : list A) x y : lenN a <= x -> lenN b <= y -> lenN (a ++ b) <= x + y.
Proof. intros. rewrite lenN_app. lia. Qed.

Lemma len_flat_map_le {X} (f : X -> list bool) c : forall l,
  (forall x, In x l -> lenN (f x) <= c) -> lenN (flat_map f l) <= c * lenN l.
Proof.
  induction l as [|x t IH]; intros H; cbn [flat_map].
  - rewrite lenN_nil. lia.
  - rewrite lenN_app, lenN_cons.
    assert (lenN (f x) <= c) by (apply H; left; reflexivity).
    assert (lenN (flat_map f t) <= c * lenN t) by (apply IH; intros; apply H; right; assumption).
    lia.
Qed.

Lemma len_rplm_le flag l :
  forallb rplm_entry_ok l = true -> lenN l <= 1000 -> lenN (ser_rplm flag l) <= 200000.
Proof.
  intros Hok Hl. unfold ser_rplm.
  assert (H1 : lenN (flat_map ser_rplm_entry l) <= 126 * lenN l).
  { apply len_flat_map_le. intros [i x] Hin. rewrite forallb_forall in Hok. specialize (Hok _ Hin).
    unfold rplm_entry_ok in Hok. cbn [fst snd] in Hok. apply andb_prop in Hok. destruct Hok as [Hi Hx].
    unfold ue_ok in Hx. unfold ser_rplm_entry. cbn [fst snd]. rewrite lenN_app.
    pose proof (len_ue_le i). pose proof (len_ue_le x). lia. }
  rewrite lenN_app, lenN_fl.
  assert (lenN (opt_bits flag (flat_map ser_rplm_entry l ++ ue_bits 3)) <= 126 * lenN l + 63).
  { apply len_opt_le. intros _. rewrite lenN_app. pose proof (len_ue_le 3). lia. }
  lia.
Qed.

Lemma len_mmco_le l :
  forallb mmco_ok l = true -> lenN l <= 1000 -> lenN (flat_map ser_mmco l ++ ue_bits 0) <= 400000.
Proof.
  intros Hok Hl.
  assert (H1 : lenN (flat_map ser_mmco l) <= 378 * lenN l).
  { apply len_flat_map_le. intros [[op a] b] Hin. rewrite forallb_forall in Hok. specialize (Hok _ Hin).
    unfold mmco_ok in Hok. apply andb_prop in Hok. destruct Hok as [Hok Hb].
    apply andb_prop in Hok. destruct Hok as [Hok Ha]. apply andb_prop in Hok. destruct Hok as [H1 H6].
    unfold ue_ok in *. unfold ser_mmco. rewrite !lenN_app.
    pose proof (len_ue_le op). pose proof (len_ue_le a). pose proof (len_ue_le b).
    assert (Hopt : forall c e, lenN e <= 63 -> lenN (opt_bits c e) <= 63) by (intros; apply len_opt_le; auto).
    pose proof (Hopt ((op =? 1) || (op =? 3)) (ue_bits a)). pose proof (Hopt (op =? 2) (ue_bits a)).
    pose proof (Hopt (op =? 3) (ue_bits b)). pose proof (Hopt (op =? 6) (ue_bits a)).
    pose proof (Hopt (op =? 4) (ue_bits a)). lia. }
  rewrite lenN_app. pose proof (len_ue_le 0). lia.
Qed.

Lemma len_pwt_entry_le sp e : pwt_entry_ok e = true -> lenN (ser_pwt_entry sp e) <= 400.
Proof.
  intros Hok. unfold pwt_entry_ok in Hok. apply andb_prop in Hok. destruct Hok as [Hl Hc].
  unfold ser_pwt_entry. rewrite lenN_app.
  assert (H1 : lenN (match pwt_luma e with
                     | None => fl false
                     | Some (w, o) => fl true ++ se_bits w ++ se_bits o end) <= 127).
  { destruct (pwt_luma e) as [[w o]|]; [|rewrite lenN_fl; lia].
    apply andb_prop in Hl. destruct Hl as [Hw Ho].
    rewrite !lenN_app, lenN_fl. pose proof (len_se_le _ Hw). pose proof (len_se_le _ Ho). lia. }
  assert (H2 : lenN (opt_bits (sl_cat_nonzero sp)
                       (match pwt_chroma e with
                        | None => fl false
                        | Some (w0, o0, w1, o1) =>
                            fl true ++ se_bits w0 ++ se_bits o0 ++ se_bits w1 ++ se_bits o1 end)) <= 253).
  { apply len_opt_le. intros _.
    destruct (pwt_chroma e) as [[[[a b] c] d]|]; [|rewrite lenN_fl; lia].
    apply andb_prop in Hc. destruct Hc as [Hc Hd]. apply andb_prop in Hc. destruct Hc as [Hc Hc'].
    apply andb_prop in Hc. destruct Hc as [Ha Hb].
    rewrite !lenN_app, lenN_fl.
    pose proof (len_se_le _ Ha). pose proof (len_se_le _ Hb). pose proof (len_se_le _ Hc').
    pose proof (len_se_le _ Hd). lia. }
  lia.
Qed.

Lemma len_pwt_list_le sp l n :
  forallb pwt_entry_ok l = true -> lenN l = n + 1 -> n <= 31 ->
  lenN (flat_map (ser_pwt_entry sp) l) <= 12800.
Proof.
  intros Hok Hl Hn.
  assert (lenN (flat_map (ser_pwt_entry sp) l) <= 400 * lenN l); [|lia].
  apply len_flat_map_le. intros x Hin. apply len_pwt_entry_le.
  rewrite forallb_forall in Hok. apply Hok. exact Hin.
Qed.

Lemma len_u_le n x b : n <= b -> lenN (u n x) <= b.
Proof. rewrite lenN_u. exact (fun H => H). Qed.

Lemma len_if_le {A} (c : bool) (a b : list A) x y : lenN a <= x -> lenN b <= y -> lenN (if c then a else b) <= x + y.
Proof. destruct c; lia. Qed.

Ltac len_bound :=
  lazymatch goal with
  | |- lenN (flat_map ser_mmco _ ++ ue_bits 0) <= _ => apply len_mmco_le; [assumption | lia]
  | |- lenN (opt_bits (sl_has_pwt _ _) _) <= _ =>
      match goal with H : lenN (opt_bits (sl_has_pwt _ _) _) <= _ |- _ => apply H end
  | |- lenN (_ ++ _) <= _ => eapply len_app_le; [len_bound | len_bound]
  | |- lenN (opt_bits _ _) <= _ => apply len_opt_le; intros ?; len_bound
  | |- lenN (if _ then _ else _) <= _ => eapply len_if_le; [len_bound | len_bound]
  | |- lenN (ue_bits _) <= _ => apply len_ue_le; lia
  | |- lenN (se_bits _) <= _ => apply len_se_le; assumption
  | |- lenN (fl _) <= _ => rewrite lenN_fl; apply N.le_refl
  | |- lenN (u _ _) <= _ => apply (len_u_le _ _ 16); lia
  | |- lenN (ser_rplm _ _) <= _ => apply len_rplm_le; [assumption | lia]
  end.

Lemma slice_header_len sp pp v c :
  sps_valid sp = true -> pps_valid c pp = true -> slice_valid sp pp v = true ->
  sl_has_fmo_cycle pp = false ->
  lenN (ser_slice_header sp pp v) <= 1000000.
Proof.
  intros Hsv Hpv Hv Hg.
  assert (Hpp : pic_parameter_set_id pp <= 255 /\ num_ref_idx_l0_default_active_minus1 pp <= 31
                /\ num_ref_idx_l1_default_active_minus1 pp <= 31)
    by (unfold pps_valid in Hpv; split_all; lia).
  assert (Hsp : log2_max_frame_num_minus4 sp <= 12 /\ log2_max_pic_order_cnt_lsb_minus4 sp <= 12)
    by (unfold sps_valid in Hsv; split_all; lia).
  destruct Hpp as (Hppid & Hd0 & Hd1). destruct Hsp as (Hfn & Hpoc).
  unfold slice_valid in Hv. split_all. unfold ue_ok in *.
  assert (He0 : eff_l0 pp v <= 31) by (unfold eff_l0; destruct (sl_override v); lia).
  assert (He1 : eff_l1 pp v <= 31) by (unfold eff_l1; destruct (sl_override v), (is_B v); lia).
  assert (Hpwt : lenN (opt_bits (sl_has_pwt pp v)
                   (ue_bits (luma_log2_weight_denom v)
                    ++ opt_bits (sl_cat_nonzero sp) (ue_bits (chroma_log2_weight_denom v))
                    ++ flat_map (ser_pwt_entry sp) (pwt_l0 v)
                    ++ opt_bits (is_B v) (flat_map (ser_pwt_entry sp) (pwt_l1 v)))) <= 63 + (63 + (12800 + 12800))).
  { apply len_opt_le. intros Hc.
    match goal with H : (if sl_has_pwt pp v then _ else true) = true |- _ =>
      rewrite Hc in H; apply andb_prop in H; destruct H as [Hw0 Hw1] end.
    apply len_app_le; [apply len_ue_le; lia|].
    apply len_app_le; [apply len_opt_le; intros _; apply len_ue_le; lia|].
    apply len_app_le.
    - apply (len_pwt_list_le sp _ (eff_l0 pp v)); [assumption | lia | lia].
    - apply len_opt_le. intros HB. rewrite HB in Hw1.
      apply (len_pwt_list_le sp _ (eff_l1 pp v)); [assumption | lia | lia]. }
  unfold ser_slice_header. rewrite Hg.
  eapply N.le_trans.
  - len_bound.
  - lia.
Qed.

Lemma slice_size_fits sp pp v c :
  sps_valid sp = true -> pps_valid c pp = true -> slice_valid sp pp v = true ->
  sl_has_fmo_cycle pp = false ->
  nbytes_at (raw_slice sp pp v) (8 + lenN (ser_slice_header sp pp v)) < 4294967296.
Proof.
  intros Hsv Hpv Hv Hg.
  pose proof (slice_header_len sp pp v c Hsv Hpv Hv Hg) as Hl.
  pose proof (nbytes_at_le (raw_slice sp pp v) (8 + lenN (ser_slice_header sp pp v))) as Hn.
  lia.
Qed.

(* the NAL unit: any (spsmap, ppsmap) holding what the parameter-set parsers returned *)
Lemma avc_slice spsmap ppsmap sp pp v beyond cm s p :
  sps_valid sp = true -> pps_valid (eff_chroma_format_idc sp) pp = true -> slice_valid sp pp v = true ->
  sl_has_fmo_cycle pp = false ->
  (pps_has_tail pp && pic_scaling_matrix_present_flag pp = true ->
   cm (pps_seq_parameter_set_id pp) = Some (eff_chroma_format_idc sp)) ->
  parse_sps_br beyond (nalu_sps sp) = Ok s -> parse_pps_br cm (nalu_pps pp) = Ok p ->
  ppsmap (sl_pic_parameter_set_id v) = Some p -> spsmap (pps_seq_parameter_set_id pp) = Some s ->
  parse_slice_br spsmap ppsmap (nalu_slice sp pp v) = Ok (expected_slice sp pp v).
Proof.
  intros Hsv Hpv Hv Hg Hcm Hs Hp Hpm Hsm.
  rewrite (avc_sps_go sp beyond Hsv) in Hs. injection Hs as <-.
  rewrite (avc_pps _ cm pp Hpv Hcm) in Hp. injection Hp as <-.
  assert (Hr : sl_nal_ref_idc v < 4) by (unfold slice_valid in Hv; split_all; lia).
  assert (Ht : sl_nal_unit_type v = 1 \/ sl_nal_unit_type v = 5) by (unfold slice_valid in Hv; split_all; lia).
  destruct (nal_header_u8 (sl_nal_ref_idc v) (sl_nal_unit_type v) Hr) as (Hh & _); [lia|].
  pose proof (parses_slice_header _ _ _ spsmap ppsmap sp pp v Hsv Hpv Hv Hg
                (slice_size_fits sp pp v _ Hsv Hpv Hv Hg)
                (sps_view_expected _ _ _ _ sp) (pps_view_expected pp) Hpm Hsm) as Hparse.
  unfold parse_slice_br, run, nalu_slice. rewrite binit_nalu. fold (raw_slice sp pp v).
  rewrite Hh. rewrite <- app_assoc. rewrite app_assoc.
  rewrite Hparse. reflexivity.
Qed.
