(* C15HevcTheorems.v — the property theorems of C15 for the HEVC SPS and nothing else. *)
From V.lib Require Import Base.
From V.c13 Require Import C13Spec C13Model.
From V.c15 Require Import C15Model C15Spec C15HevcModel C15HevcSpec C15HevcSpsProofs C15HevcExamples.

(* HEVC SPS: for every field assignment accepted by hsps_valid (profile_tier_level with 0..6
   sub-layers, every chroma format, conformance window, sub-layer ordering info, scaling list data,
   PCM, up to 64 st_ref_pic_sets explicit or inter-predicted in chains of any depth, long-term
   reference pictures, VUI incl. HRD with sub-layers, range / multilayer / 3D / SCC extensions,
   sps_extension_data_flag bits, rbsp trailing bits checked) the parser applied to the NAL unit
   produced by the independent serialiser returns the coded values; for inter-predicted sets
   NumDeltaPocs is the size of the set derived by (7-61)/(7-62) and numUsedByCurrPic the number of
   its entries with UsedByCurrPic set. *)
Theorem C15_hevc_sps : forall v,
  hsps_valid v = true -> hparse_sps_br (hnalu_sps v) = Ok (expected_hsps v).
Proof. exact hevc_sps. Qed.
Print Assumptions C15_hevc_sps.

(* width/height reported by SPS.ImageSize = pic size minus SubWidthC/SubHeightC times the
   conformance-window offsets *)
Theorem C15_hevc_dims : forall v,
  hsps_valid v = true -> himage_size (expected_hsps v) = expected_himage_size v.
Proof. exact hevc_dims. Qed.
Print Assumptions C15_hevc_dims.

Example C15_hevc_sps_hyps :
  hsps_valid ex_hsps = true
  /\ map rps_ndelta (h_st_rps (expected_hsps ex_hsps)) = [3; 3; 3]
  /\ map rps_nused (h_st_rps (expected_hsps ex_hsps)) = [0; 2; 2]
  /\ length (hp_subs (h_ptl (expected_hsps ex_hsps))) = 1%nat
  /\ h_num_lt (expected_hsps ex_hsps) = 2
  /\ h_ext_data (expected_hsps ex_hsps) = [true; false; true]
  /\ expected_himage_size ex_hsps = (1920, 1080)
  /\ hparse_sps_br (hnalu_sps ex_hsps) = Ok (expected_hsps ex_hsps).
Proof. vm_compute. repeat split. Qed.
