(* C15TieMainProofs.v — the C15 parse theorems restated for the reader the Go code really uses: the
   parser models over the C13 machine model of bits.EBSPReader (the parse_X_er functions), run on the
   serialiser's bytes AFTER emulation prevention (nalu_X = C13Spec.escape of raw_X).  Obtained from the
   bit-list theorems through the reader ties of C15TieAvcProofs / C15TieHevcProofs; the extra
   hypothesis zrun_ok (no run of more than 56 zero bits in the unescaped NAL unit) is what the ties
   need of the input.  No axioms. *)
From V.lib Require Import Base.
From V.c13 Require Import C13Spec C13Model C13ReaderProofs.
From V.c15 Require Import C15Model C15Spec C15BitProofs C15AvcSpsProofs C15AvcVuiProofs C15AvcPpsProofs C15AvcSliceProofs C15AvcDimsProofs
  C15HevcModel C15HevcSpec C15HevcPpsProofs C15HevcSpsProofs C15HevcSliceProofs
  C15TieBaseProofs C15TieRelProofs C15TieAvcProofs C15TieHevcProofs C15TieHevcSpsProofs
  C15Hevc2Model C15Hevc2Spec C15Hevc2PpsProofs C15TieHevc2Proofs.

Lemma bytes_of_bits_ok_aux n : forall l, (length l <= n)%nat -> bytes_ok (bytes_of_bits l) = true.
Proof.
  induction n as [|n IH]; intros l Hl.
  - destruct l; [reflexivity|cbn in Hl; lia].
  - destruct l as [|b7 [|b6 [|b5 [|b4 [|b3 [|b2 [|b1 [|b0 t]]]]]]]]; try reflexivity.
    cbn [bytes_of_bits]. rewrite bytes_ok_cons. apply andb_true_iff. split.
    + destruct b7, b6, b5, b4, b3, b2, b1, b0; reflexivity.
    + apply IH. cbn [length] in Hl. lia.
Qed.
Lemma bytes_of_bits_ok l : bytes_ok (bytes_of_bits l) = true.
Proof. apply (bytes_of_bits_ok_aux (length l)). lia. Qed.

Lemma raw_nalu_ok r t p : bytes_ok (raw_nalu r t p) = true.
Proof. apply bytes_of_bits_ok. Qed.
Lemma hraw_nalu_ok t l i p : bytes_ok (hraw_nalu t l i p) = true.
Proof. apply bytes_of_bits_ok. Qed.

(* ---------------------------------------------------------------- AVC *)
Lemma avc_sps_er v beyond :
  sps_valid v = true -> sps_offsets_zero v = true -> zrun_ok (raw_sps v) = true ->
  parse_sps_er beyond (nalu_sps v) = Ok (expected_sps beyond v).
Proof.
  intros Hv Ho Hz. unfold nalu_sps, nalu_of. fold (raw_sps v).
  rewrite (tie_avc_sps (raw_sps v) beyond (raw_nalu_ok _ _ _) Hz). apply (avc_sps v beyond Hv Ho).
Qed.

Lemma avc_pps_er chroma spsmap v :
  pps_valid chroma v = true ->
  (pps_has_tail v && pic_scaling_matrix_present_flag v = true ->
   spsmap (pps_seq_parameter_set_id v) = Some chroma) ->
  zrun_ok (raw_pps v) = true ->
  parse_pps_er spsmap (nalu_pps v) = Ok (expected_pps v).
Proof.
  intros Hv Hm Hz. unfold nalu_pps, nalu_of. fold (raw_pps v).
  rewrite (tie_avc_pps (raw_pps v) spsmap (raw_nalu_ok _ _ _) Hz). apply (avc_pps chroma spsmap v Hv Hm).
Qed.

Lemma avc_slice_er spsmap ppsmap sp pp v beyond cm s p :
  sps_valid sp = true -> pps_valid (eff_chroma_format_idc sp) pp = true -> slice_valid sp pp v = true ->
  sl_has_fmo_cycle pp = false ->
  (pps_has_tail pp && pic_scaling_matrix_present_flag pp = true ->
   cm (pps_seq_parameter_set_id pp) = Some (eff_chroma_format_idc sp)) ->
  zrun_ok (raw_sps sp) = true -> zrun_ok (raw_pps pp) = true -> zrun_ok (raw_slice sp pp v) = true ->
  (forall id x, spsmap id = Some x -> sps_narrow x = true) ->
  (forall id x, ppsmap id = Some x -> pps_narrow x = true) ->
  parse_sps_er beyond (nalu_sps sp) = Ok s -> parse_pps_er cm (nalu_pps pp) = Ok p ->
  ppsmap (sl_pic_parameter_set_id v) = Some p -> spsmap (pps_seq_parameter_set_id pp) = Some s ->
  parse_slice_er spsmap ppsmap (nalu_slice sp pp v) = Ok (expected_slice sp pp v).
Proof.
  intros Hs Hp Hv Hf Hm Z1 Z2 Z3 N1 N2 Es Ep Mp Ms.
  unfold nalu_sps, nalu_of in Es. fold (raw_sps sp) in Es.
  rewrite (tie_avc_sps (raw_sps sp) beyond (raw_nalu_ok _ _ _) Z1) in Es.
  unfold nalu_pps, nalu_of in Ep. fold (raw_pps pp) in Ep.
  rewrite (tie_avc_pps (raw_pps pp) cm (raw_nalu_ok _ _ _) Z2) in Ep.
  unfold nalu_slice, nalu_of. fold (raw_slice sp pp v).
  rewrite (tie_avc_slice (raw_slice sp pp v) spsmap ppsmap (raw_nalu_ok _ _ _) Z3 N1 N2).
  exact (avc_slice spsmap ppsmap sp pp v beyond cm s p Hs Hp Hv Hf Hm Es Ep Mp Ms).
Qed.

(* ---------------------------------------------------------------- HEVC PPS *)
Lemma hevc_pps_er spsmap v :
  hpps_valid v = true -> spsmap (sx_pps_seq_parameter_set_id v) = true ->
  zrun_ok (hraw_pps v) = true ->
  hparse_pps_er spsmap (hnalu_pps v) = Ok (expected_hpps v).
Proof.
  intros Hv Hm Hz. unfold hnalu_pps, hnalu_of. fold (hraw_pps v).
  rewrite (tie_hevc_pps (hraw_pps v) spsmap (hraw_nalu_ok _ _ _ _) Hz). apply (hevc_pps spsmap v Hv Hm).
Qed.

(* ---------------------------------------------------------------- HEVC SPS / slice segment header *)
Ltac split_valid H := repeat (apply andb_true_iff in H; let H' := fresh "V" in destruct H as [H H']).

Lemma hsps_valid_depths v : hsps_valid v = true -> hsps_depths_ok (expected_hsps v) = true.
Proof.
  intros Hv. unfold hsps_depths_ok, expected_hsps. cbn [h_bdl h_bdc h_log2_poc].
  unfold hsps_valid in Hv. split_valid Hv. lia.
Qed.

Lemma hevc_sps_er v :
  hsps_valid v = true -> zrun_ok (hraw_sps v) = true ->
  hparse_sps_er (hnalu_sps v) = Ok (expected_hsps v).
Proof.
  intros Hv Hz. unfold hnalu_sps, hnalu_of. fold (hraw_sps v).
  apply (tie_hevc_sps (hraw_sps v) (expected_hsps v) (hraw_nalu_ok _ _ _ _) Hz).
  - apply (hevc_sps v Hv).
  - apply hsps_valid_depths. exact Hv.
Qed.

Lemma hraw_slice_ok sp pp v : hslice_valid sp pp v = true -> bytes_ok (hraw_slice sp pp v) = true.
Proof.
  intros Hv. unfold hraw_slice. rewrite bytes_ok_app, bytes_of_bits_ok. cbn [andb].
  unfold hslice_valid in Hv. split_valid Hv. assumption.
Qed.

Lemma hevc_slice_er spsmap ppsmap sp pp v :
  hsps_valid sp = true -> hpps_valid pp = true -> hslice_valid sp pp v = true ->
  ppsmap (sx_slice_pic_parameter_set_id v) = Some (expected_hpps pp) ->
  spsmap (sx_pps_seq_parameter_set_id pp) = Some (expected_hsps sp) ->
  zrun_ok (hraw_slice sp pp v) = true ->
  (forall id s, spsmap id = Some s -> hsps_narrow s = true) ->
  hparse_slice_er spsmap ppsmap (hnalu_slice sp pp v) = Ok (expected_hslice sp pp v).
Proof.
  intros Hs Hp Hv Mp Ms Hz Hn. unfold hnalu_slice.
  rewrite (tie_hevc_slice (hraw_slice sp pp v) spsmap ppsmap (hraw_slice_ok sp pp v Hv) Hz Hn).
  exact (hevc_slice spsmap ppsmap sp pp v Hs Hp Hv Mp Ms).
Qed.

(* ---------------------------------------------------------------- HEVC PPS with multilayer / 3D extensions *)
Lemma hevc_pps2_er spsmap x :
  hpps2_valid x = true -> spsmap (sx_pps_seq_parameter_set_id (sx2_base x)) = true ->
  zrun_ok (hraw_pps2 x) = true ->
  hparse_pps2_er spsmap (hnalu_pps2 x) = Ok (expected_hpps2 x).
Proof.
  intros Hv Hm Hz. unfold hnalu_pps2, hnalu_of.
  change (escape (hraw_nalu 34 (sx_pps_nuh_layer_id (sx2_base x)) (sx_pps_nuh_temporal_id_plus1 (sx2_base x)) (ser_hpps2 x)))
    with (escape (hraw_pps2 x)).
  rewrite (tie_hevc_pps2 (hraw_pps2 x) spsmap (hraw_nalu_ok _ _ _ _) Hz).
  exact (hevc_pps2 spsmap x Hv Hm).
Qed.
