(* C15HevcSpsExtProofs.v — the SPS extension part (range / multilayer / 3D / SCC extensions,
   sps_extension_data_flag) of the HEVC SPS: the model parsers on the ideal bit reader return the
   coded values. *)
From V.lib Require Import Base.
From V.c13 Require Import C13Spec C13Model.
From V.c15 Require Import C15Model C15Spec C15BitProofs C15AvcSpsProofs C15AvcPpsProofs
  C15HevcModel C15HevcSpec C15HevcBitProofs.

Lemma parses_hsps3d raw d pos : parses raw (hparse_sps_3d BR) pos (ser_hsps3d d) d.
Proof.
  unfold hparse_sps_3d, ser_hsps3d.
  pbind ltac:(apply parses_flag). pbind ltac:(apply parses_flag). pbind ltac:(apply parses_ue).
  pbind ltac:(apply parses_flag). pbind ltac:(apply parses_flag). pbind ltac:(apply parses_flag).
  pbind ltac:(apply parses_flag).
  pbind ltac:(apply parses_flag). pbind ltac:(apply parses_flag). pbind ltac:(apply parses_flag).
  pbind ltac:(apply parses_ue).
  pbind ltac:(apply parses_flag). pbind ltac:(apply parses_flag). pbind ltac:(apply parses_flag).
  pbind ltac:(apply parses_flag). plast ltac:(apply parses_flag).
  apply parses_ret_eq. destruct d; reflexivity.
Qed.

(* one colour component of sps_palette_predictor_initializer *)
Lemma parses_palette_comp raw w (comp : list N) n pos :
  n = lenN comp -> n <= 1024 -> forallb (fun v => v <? 2 ^ w) comp = true ->
  parses raw (rep_until_err_n BR n (rd BR w)) pos (flat_map (u w) comp) comp.
Proof.
  intros Hn Hb Hv.
  pose proof (parses_rep_until_err_n raw (rd BR w) (u w) (fun x : N => x) comp n pos Hn) as P.
  rewrite map_id in P. apply P; [unfold loop_bound; lia|].
  intros x pos' Hin. apply parses_rd. rewrite forallb_forall in Hv. specialize (Hv x Hin). lia.
Qed.

Lemma parses_hspsscc raw chroma bdl bdc x pos : hspsscc_valid chroma bdl bdc x = true ->
  parses raw (hparse_sps_scc BR chroma bdl bdc) pos (ser_hspsscc bdl bdc x) (expected_hspsscc x).
Proof.
  intros Hv. unfold hspsscc_valid in Hv. cbv zeta in Hv. split_all.
  unfold hparse_sps_scc, ser_hspsscc, expected_hspsscc. cbv zeta.
  assert (Emv : u8 (sx_motion_vector_resolution_control_idc x) = sx_motion_vector_resolution_control_idc x)
    by (unfold u8; apply N.mod_small; lia).
  destruct (sx_palette_mode_enabled_flag x) eqn:Hpm; cbn [opt_bits andb] in *.
  2:{ pbind ltac:(apply parses_flag). pbind ltac:(apply parses_flag).
      cbn [app]. apply parses_bind_ret. cbv beta iota zeta.
      pbind ltac:(apply parses_rd; lia). plast ltac:(apply parses_flag).
      apply parses_ret_eq. rewrite Emv. reflexivity. }
  destruct (sx_sps_palette_predictor_initializers_present_flag x) eqn:Hpi; cbn [opt_bits] in *.
  2:{ pbind ltac:(apply parses_flag). pbind ltac:(apply parses_flag).
      eapply parses_bind.
      { pbind ltac:(apply parses_ue). pbind ltac:(apply parses_ue). plast ltac:(apply parses_flag).
        apply parses_bind_ret. apply parses_ret. }
      cbv beta iota zeta.
      pbind ltac:(apply parses_rd; lia). plast ltac:(apply parses_flag).
      apply parses_ret_eq. rewrite Emv. reflexivity. }
  split_all.
  destruct (sx_sps_palette_predictor_initializer x) as [|l rest] eqn:Hini;
    [cbn [hd] in *; rewrite ?lenN_nil in *; lia|].
  cbn [hd tl forallb] in *. split_all.
  assert (E64 : u64 (lenN l - 1 + 1) = lenN l) by (unfold u64; rewrite N.mod_small; lia).
  destruct (chroma =? 0) eqn:Hc.
  - destruct rest as [|c1 rest]; [|rewrite !lenN_cons in *; lia].
    cbn [flat_map].
    pbind ltac:(apply parses_flag). pbind ltac:(apply parses_flag).
    eapply parses_bind.
    { pbind ltac:(apply parses_ue). pbind ltac:(apply parses_ue). pbind ltac:(apply parses_flag).
      eapply parses_bind_nil; [|apply parses_ret].
      pbind ltac:(apply parses_ue). rewrite E64.
      pbind ltac:(apply (parses_palette_comp raw (bdl + 8) l); [reflexivity | lia | assumption]).
      apply parses_bind_ret. apply parses_ret. }
    cbv beta iota zeta.
    pbind ltac:(apply parses_rd; lia). plast ltac:(apply parses_flag).
    apply parses_ret_eq. rewrite Emv. reflexivity.
  - destruct rest as [|c1 [|c2 [|c3 rest]]]; try (rewrite ?lenN_cons, ?lenN_nil in *; lia).
    cbn [flat_map forallb] in *. split_all.
    pbind ltac:(apply parses_flag). pbind ltac:(apply parses_flag).
    eapply parses_bind.
    { pbind ltac:(apply parses_ue). pbind ltac:(apply parses_ue). pbind ltac:(apply parses_flag).
      eapply parses_bind_nil; [|apply parses_ret].
      pbind ltac:(apply parses_ue). rewrite E64.
      pbind ltac:(apply (parses_palette_comp raw (bdl + 8) l); [reflexivity | lia | assumption]).
      eapply parses_bind_nil; [|apply parses_ret].
      pbind ltac:(apply (parses_palette_comp raw (bdc + 8) c1); [lia | lia | assumption]).
      pbind ltac:(apply (parses_palette_comp raw (bdc + 8) c2); [lia | lia | assumption]).
      apply parses_ret. }
    cbv beta iota zeta.
    pbind ltac:(apply parses_rd; lia). plast ltac:(apply parses_flag).
    apply parses_ret_eq. rewrite Emv. reflexivity.
Qed.

Lemma parses_t_bind_ret {A B} raw (a : A) (k : A -> bstate -> res (B * bstate)) pos e b T :
  parses_t raw (k a) pos e b T -> parses_t raw (bind (ret a) k) pos e b T.
Proof. intros H. exact H. Qed.

Lemma parses_flags9 raw (l : list bool) pos :
  lenN l = 9 -> parses raw (rep 9 (rd_flag BR)) pos l l.
Proof.
  intros Hl.
  pose proof (parses_rep_len raw (rd_flag BR) fl (fun b : bool => b) l 9 pos) as P.
  rewrite flat_map_fl, map_id in P. apply P; [unfold lenN in Hl; lia|].
  intros. apply parses_flag.
Qed.

Lemma parses_hsps_ext raw v pos n : hsps_valid v = true ->
  parses_t raw (hparse_sps_ext BR (sx_chroma_format_idc v) (sx_bit_depth_luma_minus8 v)
                               (sx_bit_depth_chroma_minus8 v)) pos (ser_hsps_ext v)
    (sx_sps_extension_present_flag v, hsps_ext4 v,
     hsps_ext_on v sx_sps_range_extension_flag,
     (if hsps_ext_on v sx_sps_range_extension_flag then Some (sx_sps_range_extension v) else None),
     hsps_ext_on v sx_sps_multilayer_extension_flag,
     (if hsps_ext_on v sx_sps_multilayer_extension_flag
      then Some (sx_inter_view_mv_vert_constraint_flag v) else None),
     hsps_ext_on v sx_sps_3d_extension_flag,
     (if hsps_ext_on v sx_sps_3d_extension_flag then Some (sx_sps_3d_extension v) else None),
     hsps_ext_on v sx_sps_scc_extension_flag,
     (if hsps_ext_on v sx_sps_scc_extension_flag
      then Some (expected_hspsscc (sx_sps_scc_extension v)) else None),
     (if 0 <? hsps_ext4 v then sx_sps_extension_data_flags v else []))
    (trailing_bits n).
Proof.
  intros Hv.
  assert (H4 : sx_sps_extension_4bits v < 16) by (unfold hsps_valid in Hv; cbv zeta in Hv; split_all; lia).
  assert (H9 : lenN (sx_sps_range_extension v) = 9) by (unfold hsps_valid in Hv; cbv zeta in Hv; split_all; lia).
  assert (Hfl : lenN (sx_sps_extension_data_flags v) <= 64)
    by (unfold hsps_valid in Hv; cbv zeta in Hv; split_all; lia).
  assert (Hscc : (if hsps_ext_on v sx_sps_scc_extension_flag
                  then hspsscc_valid (sx_chroma_format_idc v) (sx_bit_depth_luma_minus8 v)
                         (sx_bit_depth_chroma_minus8 v) (sx_sps_scc_extension v) else true) = true)
    by (unfold hsps_valid in Hv; cbv zeta in Hv; split_all; assumption).
  clear Hv.
  unfold hparse_sps_ext, ser_hsps_ext, hsps_ext_on, hsps_ext4 in *.
  destruct (sx_sps_extension_present_flag v) eqn:Hep; cbn [opt_bits andb] in *.
  - tbind ltac:(apply parses_flag).
    eapply parses_t_bind.
    { pbind ltac:(apply parses_flag). pbind ltac:(apply parses_flag). pbind ltac:(apply parses_flag).
      pbind ltac:(apply parses_flag). plast ltac:(apply parses_rd; lia). apply parses_ret. }
    cbv beta iota zeta.
    assert (E8 : u8 (sx_sps_extension_4bits v) = sx_sps_extension_4bits v)
      by (unfold u8; apply N.mod_small; lia).
    rewrite E8.
    tbind ltac:(apply parses_opt_some; intros _; apply parses_flags9; exact H9).
    tbind ltac:(apply parses_opt_some; intros _; apply parses_flag).
    tbind ltac:(apply parses_opt_some; intros _; apply parses_hsps3d).
    tbind ltac:(apply parses_opt_some; intros Hs; apply parses_hspsscc; rewrite Hs in Hscc; exact Hscc).
    destruct (0 <? sx_sps_extension_4bits v) eqn:He4; cbn [opt_bits].
    + eapply parses_t_bind_nil.
      { apply (hext_data_loop_ok raw n (sx_sps_extension_data_flags v) ext_fuel [] _).
        unfold ext_fuel, lenN in *. lia. }
      cbn [app]. apply parses_t_ret.
    + eapply parses_t_bind_nil; [apply parses_t_ret|]. apply parses_t_ret.
  - cbn [app]. change (0 <? 0) with false. cbn [opt_bits].
    eapply parses_t_bind_nil; [apply parses_t_of, parses_flag|]. cbv beta iota zeta.
    repeat (apply parses_t_bind_ret; cbv beta iota zeta).
    change (0 <? 0) with false. cbv iota.
    repeat (apply parses_t_bind_ret; cbv beta iota zeta).
    apply parses_t_ret.
Qed.
