(* C15Hevc2Proofs.v — the parsers of C15Hevc2Model over the ideal bit reader return the values coded by
   the serialisers of C15Hevc2Spec: reference location offsets, colour mapping octants (induction over
   the octant tree), colour mapping table, pps_multilayer_extension, delta_dlt, pps_3d_extension. *)
From V.lib Require Import Base.
From V.c13 Require Import C13Spec C13Model.
From V.c15 Require Import C15Model C15Spec C15BitProofs C15AvcSpsProofs C15HevcModel C15HevcSpec C15HevcBitProofs
  C15HevcPpsProofs C15Hevc2Model C15Hevc2Spec C15TieRelProofs.

Lemma i16_id k : off_ok k = true -> i16 k = k.
Proof.
  unfold off_ok, i16. intros H. apply andb_true_iff in H. destruct H as [H1 H2].
  rewrite Z.mod_small by lia. lia.
Qed.

(* ---------------------------------------------------------------- reference location offsets *)
Definition is_some {A} (o : option A) : bool := match o with Some _ => true | None => false end.
Definition se4_body (o : option (Z * Z * Z * Z)) : list bool :=
  match o with None => [] | Some (a, b, c, d) => se_bits a ++ se_bits b ++ se_bits c ++ se_bits d end.
Lemma ser_se4_eq o : ser_se4 o = fl (is_some o) ++ se4_body o.
Proof. destruct o as [[[[a b] c] d]|]; reflexivity. Qed.

Lemma parses_se4 raw o pos : se4_ok o = true ->
  parses raw (hparse_se4 BR (is_some o)) pos (se4_body o) (expected_se4 o).
Proof.
  intros Hv. destruct o as [[[[a b] c] d]|]; cbn [is_some hparse_se4 se4_body expected_se4]; [|apply parses_ret].
  cbn [se4_ok] in Hv. split_all.
  pbind ltac:(apply parses_se). pbind ltac:(apply parses_se). pbind ltac:(apply parses_se).
  plast ltac:(apply parses_se). apply parses_ret_eq. rewrite !i16_id by assumption. reflexivity.
Qed.

Lemma parses_refloc raw x pos : refloc_valid x = true ->
  parses raw (hparse_refloc BR) pos (ser_refloc x) (expected_refloc x).
Proof.
  intros Hv. unfold refloc_valid in Hv. split_all.
  unfold hparse_refloc, ser_refloc, expected_refloc. rewrite !ser_se4_eq, <- !app_assoc.
  pbind ltac:(apply parses_rd; change (2 ^ 6) with 64; lia).
  pbind ltac:(apply parses_flag). pbind ltac:(apply parses_se4; assumption).
  pbind ltac:(apply parses_flag). pbind ltac:(apply parses_se4; assumption).
  destruct (sx_resample_phase_set x) as [[[[a b] c] d]|].
  - change ([true] ++ ue_bits a ++ ue_bits b ++ ue_bits c ++ ue_bits d)
      with (fl true ++ (ue_bits a ++ ue_bits b ++ ue_bits c ++ ue_bits d)).
    pbind ltac:(apply parses_flag).
    eapply parses_bind_nil.
    { pbind ltac:(apply parses_ue). pbind ltac:(apply parses_ue). pbind ltac:(apply parses_ue).
      plast ltac:(apply parses_ue). apply parses_ret. }
    cbv beta iota zeta. split_all.
    destruct (expected_se4 (sx_scaled_ref_layer_offset x)) as [[[sl st] sr] sb].
    destruct (expected_se4 (sx_ref_region_offset x)) as [[[rl rt] rr] rb].
    apply parses_ret_eq. rewrite !hu8_id by lia.
    destruct (sx_scaled_ref_layer_offset x), (sx_ref_region_offset x); reflexivity.
  - change [false] with (fl false). plast ltac:(apply parses_flag).
    apply parses_bind_ret. cbv beta iota zeta.
    destruct (expected_se4 (sx_scaled_ref_layer_offset x)) as [[[sl st] sr] sb].
    destruct (expected_se4 (sx_ref_region_offset x)) as [[[rl rt] rr] rb].
    apply parses_ret_eq. rewrite !hu8_id by lia.
    destruct (sx_scaled_ref_layer_offset x), (sx_ref_region_offset x); reflexivity.
Qed.

(* ---------------------------------------------------------------- colour mapping octants *)
Lemma parses_coef raw rb c pos : coef_ok rb c = true ->
  parses raw (hparse_coef BR rb) pos (ser_coef rb c) (let '(q, r, s) := c in mkHCoef q r s).
Proof.
  destruct c as [[q r] s]. intros Hv. unfold coef_ok in Hv. split_all.
  unfold hparse_coef, ser_coef.
  pbind ltac:(apply parses_ue). pbind ltac:(apply parses_rd; lia).
  plast ltac:(apply (parses_opt raw _ (negb (q =? 0) || negb (r =? 0)) _ s false); intros _; apply parses_flag).
  apply parses_ret_eq. f_equal.
  destruct (q =? 0), (r =? 0); cbn [negb orb andb] in *; try reflexivity.
  destruct s; [discriminate|reflexivity].
Qed.

Lemma parses_vertex raw rb v pos : vertex_ok rb v = true ->
  parses raw (hparse_vertex BR rb) pos (ser_vertex rb v) (expected_vertex v).
Proof.
  intros Hv. unfold hparse_vertex. destruct v as [cs|]; cbn [ser_vertex expected_vertex vertex_ok] in *.
  - split_all. change [true] with (fl true). pbind ltac:(apply parses_flag).
    assert (Hl : length cs = 3%nat) by (unfold lenN in *; lia).
    rewrite <- Hl at 1.
    plast ltac:(apply (parses_rep raw (hparse_coef BR rb) (ser_coef rb)
                         (fun c => let '(q, r, s) := c in mkHCoef q r s) cs);
                intros x pos' Hx; apply parses_coef;
                match goal with H : forallb _ cs = true |- _ => rewrite forallb_forall in H; apply H; exact Hx end).
    apply parses_ret.
  - change [false] with (fl false). plast ltac:(apply parses_flag). apply parses_ret.
Qed.

Lemma parses_leaf raw rb shift iy icb icr : forall parts i pos,
  forallb (part_ok rb) parts = true ->
  parses raw (hparse_leaf BR (length parts) i shift rb iy icb icr) pos
         (flat_map (ser_part rb) parts) (expected_leaf parts i shift iy icb icr).
Proof.
  induction parts as [|p t IH]; intros i pos Hv; cbn [length hparse_leaf flat_map expected_leaf].
  - apply parses_ret.
  - cbn [forallb] in Hv. split_all.
    match goal with H : part_ok rb p = true |- _ => unfold part_ok in H end. split_all.
    assert (Hl : length p = 4%nat) by (unfold lenN in *; lia).
    rewrite <- Hl at 1.
    pbind ltac:(apply (parses_rep raw (hparse_vertex BR rb) (ser_vertex rb) expected_vertex p);
                intros x pos' Hx; apply parses_vertex;
                match goal with H : forallb _ p = true |- _ => rewrite forallb_forall in H; apply H; exact Hx end).
    plast ltac:(apply IH; assumption). apply parses_ret.
Qed.

Lemma parses_octants raw depth pn rb : forall t fuel d iy icb icr il pos,
  otree_valid depth pn rb d t = true -> depth - d < N.of_nat fuel ->
  parses raw (hparse_octants BR fuel depth pn rb d iy icb icr il) pos
         (ser_octants depth rb d t) (expected_octants depth pn d iy icb icr il t).
Proof.
  induction t as [parts|c0 IH0 c1 IH1 c2 IH2 c3 IH3 c4 IH4 c5 IH5 c6 IH6 c7 IH7];
    intros fuel d iy icb icr il pos Hv Hf; (destruct fuel as [|f]; [lia|]);
    cbn [hparse_octants ser_octants expected_octants otree_valid] in *.
  - split_all.
    pbind ltac:(apply (parses_opt raw _ (d <? depth) _ false false); intros _; apply parses_flag).
    replace (if d <? depth then false else false) with false by (destruct (d <? depth); reflexivity).
    cbv iota.
    replace (N.to_nat pn) with (length parts) by (unfold lenN in *; lia).
    plast ltac:(apply parses_leaf; assumption).
    ppeek ltac:(apply parses_get_err). apply parses_ret.
  - split_all.
    match goal with H : (d <? depth) = true |- _ => rewrite H end.
    change [true] with (fl true). pbind ltac:(apply parses_flag).
    assert (Hf' : depth - (d + 1) < N.of_nat f) by lia.
    cbn [mapM oct_children].
    eapply parses_bind_nil.
    { eapply parses_bind_nil.
      { pbind ltac:(apply IH0; assumption). eapply parses_bind_nil; [|apply parses_ret].
        pbind ltac:(apply IH1; assumption). eapply parses_bind_nil; [|apply parses_ret].
        pbind ltac:(apply IH2; assumption). eapply parses_bind_nil; [|apply parses_ret].
        pbind ltac:(apply IH3; assumption). eapply parses_bind_nil; [|apply parses_ret].
        pbind ltac:(apply IH4; assumption). eapply parses_bind_nil; [|apply parses_ret].
        pbind ltac:(apply IH5; assumption). eapply parses_bind_nil; [|apply parses_ret].
        pbind ltac:(apply IH6; assumption). eapply parses_bind_nil; [|apply parses_ret].
        plast ltac:(apply IH7; assumption). eapply parses_bind_nil; [apply parses_ret|]. cbv beta.
        apply parses_ret. }
      cbv beta. apply parses_ret. }
    cbv beta iota zeta.
    ppeek ltac:(apply parses_get_err).
    apply parses_ret_eq. cbn [concat]. rewrite app_nil_r. reflexivity.
Qed.

(* ---------------------------------------------------------------- colour_mapping_table *)
Lemma i64_id z : (-9223372036854775808 <= z < 9223372036854775808)%Z -> i64 z = z.
Proof. intros H. unfold i64. rewrite Z.mod_small by lia. lia. Qed.

Lemma res_bits_eq li lo rq df : li <= 8 -> lo <= 8 -> rq < 4 -> df < 4 ->
  (let res := i64 (10 + i64 (Z.of_N (u64 (li + 8))) - i64 (Z.of_N (u64 (lo + 8)))
                   - Z.of_N (u8 rq) - Z.of_N (u8 (u8 df + 1)))%Z in
   if (res <? 0)%Z then 0 else Z.to_N res)
  = Z.to_N (Z.max 0 (10 + Z.of_N (8 + li) - Z.of_N (8 + lo) - Z.of_N rq - Z.of_N (df + 1))).
Proof.
  intros H1 H2 H3 H4. cbv zeta.
  rewrite (hu64_id (li + 8)), (hu64_id (lo + 8)), (hu8_id rq), (hu8_id df), (hu8_id (df + 1)) by lia.
  rewrite (i64_id (Z.of_N (li + 8))), (i64_id (Z.of_N (lo + 8))) by lia.
  rewrite i64_id by lia.
  replace (8 + li) with (li + 8) by lia. replace (8 + lo) with (lo + 8) by lia.
  destruct (Z.ltb_spec (10 + Z.of_N (li + 8) - Z.of_N (lo + 8) - Z.of_N rq - Z.of_N (df + 1)) 0); lia.
Qed.

Lemma parses_cm raw x pos : cm_valid x = true ->
  parses raw (hparse_cm BR) pos (ser_cm x) (expected_cm x).
Proof.
  intros Hv. unfold cm_valid in Hv. split_all.
  unfold hparse_cm, ser_cm, expected_cm.
  set (ids := sx_cm_ref_layer_id x) in *.
  pbind ltac:(apply parses_ue).
  replace (N.to_nat (u8 (lenN ids - 1) + 1)) with (length ids)
    by (rewrite hu8_id by lia; unfold lenN in *; lia).
  pbind ltac:(apply (parses_rep_until_err raw _ (u 6) (fun i => i) ids); intros i pos' Hi;
              plast ltac:(apply parses_rd; change (2 ^ 6) with 64;
                          match goal with H : forallb _ ids = true |- _ =>
                            rewrite forallb_forall in H; specialize (H i Hi); lia end);
              apply parses_ret_eq; apply hu8_id;
              match goal with H : forallb _ ids = true |- _ =>
                rewrite forallb_forall in H; specialize (H i Hi); lia end).
  pbind ltac:(apply parses_rd; change (2 ^ 2) with 4; lia).
  pbind ltac:(apply parses_rd; change (2 ^ 2) with 4; lia).
  pbind ltac:(apply parses_ue). pbind ltac:(apply parses_ue). pbind ltac:(apply parses_ue). pbind ltac:(apply parses_ue).
  pbind ltac:(apply parses_rd; change (2 ^ 2) with 4; lia).
  pbind ltac:(apply parses_rd; change (2 ^ 2) with 4; lia).
  rewrite (hu8_id (sx_cm_octant_depth x)), (hu8_id (sx_cm_y_part_num_log2 x)) by lia.
  pbind ltac:(apply (parses_opt raw _ (sx_cm_octant_depth x =? 1) _
                       (sx_cm_adapt_threshold_u_delta x, sx_cm_adapt_threshold_v_delta x) (0%Z, 0%Z));
              intros _; pbind ltac:(apply parses_se); plast ltac:(apply parses_se); apply parses_ret).
  pose proof (res_bits_eq (sx_luma_bit_depth_cm_input_minus8 x) (sx_luma_bit_depth_cm_output_minus8 x)
                (sx_cm_res_quant_bits x) (sx_cm_delta_flc_bits_minus1 x) ltac:(lia) ltac:(lia) ltac:(lia) ltac:(lia)) as Hr.
  cbv zeta in Hr. rewrite Hr. fold (cm_res_ls_bits x).
  assert (Hrb : cm_res_ls_bits x <= 56) by (unfold cm_res_ls_bits; lia).
  replace (56 <? cm_res_ls_bits x) with false by lia. cbv iota.
  plast ltac:(apply parses_octants; [assumption|cbn; lia]).
  ppeek ltac:(apply parses_get_err).
  apply parses_ret_eq. rewrite map_id, !hu8_id by lia.
  destruct (sx_cm_octant_depth x =? 1); reflexivity.
Qed.

(* ---------------------------------------------------------------- pps_multilayer_extension *)
Lemma parses_ppsml raw x pos : ppsml_valid x = true ->
  parses raw (hparse_pps_ml BR) pos (ser_ppsml x) (expected_ppsml x).
Proof.
  intros Hv. unfold ppsml_valid in Hv. split_all.
  unfold hparse_pps_ml, ser_ppsml, expected_ppsml.
  pbind ltac:(apply parses_flag). pbind ltac:(apply parses_flag).
  pbind ltac:(apply (parses_opt raw _ (sx_pps_infer_scaling_list_flag x) _ (sx_pps_scaling_list_ref_layer_id x) 0);
              intros _; plast ltac:(apply parses_rd; change (2 ^ 6) with 64; lia);
              apply parses_ret_eq; apply hu8_id; lia).
  pbind ltac:(apply parses_ue).
  pbind ltac:(apply (parses_rep_until_err_n raw _ ser_refloc expected_refloc (sx_ref_loc_offsets x));
              [reflexivity | unfold loop_bound; lia |
               intros r pos' Hr; apply parses_refloc;
               match goal with H : forallb refloc_valid _ = true |- _ => rewrite forallb_forall in H; apply H; exact Hr end]).
  pbind ltac:(apply parses_flag).
  plast ltac:(apply (parses_opt_some raw _ (sx_colour_mapping_enabled_flag x)); intros Hc; apply parses_cm;
              match goal with H : (if sx_colour_mapping_enabled_flag x then _ else true) = true |- _ =>
                rewrite Hc in H; exact H end).
  ppeek ltac:(apply parses_get_err).
  apply parses_ret.
Qed.

(* ---------------------------------------------------------------- delta_dlt / pps_3d_extension *)
Lemma u64_dec m : 0 < m -> m < 18446744073709551616 -> u64 (m + 18446744073709551615) = m - 1.
Proof.
  intros H1 H2. unfold u64. replace (m + 18446744073709551615) with ((m - 1) + 1 * 18446744073709551616) by lia.
  rewrite N.mod_add by lia. apply N.mod_small. lia.
Qed.

Lemma parses_deltadlt raw bd x pos : bd <= 16 -> deltadlt_valid bd x = true ->
  parses raw (hparse_delta_dlt BR bd) pos (ser_deltadlt bd x) (expected_deltadlt x).
Proof.
  intros Hbd Hv. unfold deltadlt_valid in Hv.
  assert (Hp : 2 ^ bd <= 65536) by (change 65536 with (2 ^ 16); apply N.pow_le_mono_r; lia).
  unfold hparse_delta_dlt, ser_deltadlt, expected_deltadlt.
  unfold dd_has_diffs, dd_has_min, dd_max, dd_has_max in *.
  set (nv := sx_num_val_delta_dlt x) in *.
  set (M := if 1 <? nv then sx_max_diff x else 0) in *.
  set (hm := (2 <? nv) && (0 <? M)) in *.
  split_all.
  assert (HM : M < 65536) by (unfold M; destruct (1 <? nv); lia).
  pbind ltac:(apply parses_rd; lia).
  destruct (0 <? nv) eqn:Hnz; cbn [opt_bits andb].
  2:{ apply parses_bind_ret. cbv beta iota zeta.
      ppeek ltac:(apply parses_get_err). apply parses_ret. }
  assert (Hc : forall mn, mn = (if hm then sx_min_diff_minus1 x else u64 (M + 18446744073709551615)) ->
               (u64 (mn + 1) <? M) = (if hm then sx_min_diff_minus1 x + 1 <? M else false)).
  { intros mn ->. destruct hm eqn:Hh.
    - assert (sx_min_diff_minus1 x < 2 ^ ceil_log2 (M + 1)) by lia.
      assert (2 ^ ceil_log2 (M + 1) <= 2 ^ 32).
      { apply N.pow_le_mono_r; [lia|]. apply ceil_log2_le32. }
      change (2 ^ 32) with 4294967296 in *. rewrite hu64_id by lia. reflexivity.
    - destruct (N.eq_dec M 0) as [E|E].
      + rewrite E. change (u64 (0 + 18446744073709551615)) with 18446744073709551615.
        change (u64 (18446744073709551615 + 1)) with 0. reflexivity.
      + rewrite u64_dec by lia. replace (M - 1 + 1) with M by lia. rewrite hu64_id by lia. lia. }
  destruct (if hm then sx_min_diff_minus1 x + 1 <? M else false) eqn:Hd; cbn [opt_bits andb] in *.
  - split_all. destruct hm eqn:Hh; [|discriminate].
    eapply parses_bind_nil.
    { pbind ltac:(apply (parses_opt raw _ (1 <? nv) _ (sx_max_diff x) 0); intros _; apply parses_rd; lia).
      fold M. fold hm. rewrite !Hh. rewrite (hu64_id (M + 1)) by lia. cbn [opt_bits].
      pbind ltac:(apply parses_rd; lia).
      pbind ltac:(apply parses_rd; lia).
      rewrite (Hc _ eq_refl); try rewrite Hd; cbv iota.
      assert (Hw : u64 (u64 (M + 18446744073709551616 - u64 (sx_min_diff_minus1 x + 1)) + 1)
                   = M - (sx_min_diff_minus1 x + 1) + 1).
      { rewrite (hu64_id (sx_min_diff_minus1 x + 1)) by lia.
        replace (M + 18446744073709551616 - (sx_min_diff_minus1 x + 1))
          with ((M - (sx_min_diff_minus1 x + 1)) + 1 * 18446744073709551616) by lia.
        unfold u64 at 2. rewrite N.mod_add by lia. rewrite N.mod_small by lia. apply hu64_id. lia. }
      rewrite Hw.
      plast ltac:(apply (parses_rep_until_err_n raw _ (u (ceil_log2 (M - (sx_min_diff_minus1 x + 1) + 1)))
                           (fun d => d) (sx_delta_val_diff_minus_min x));
                  [lia | unfold loop_bound; lia |
                   intros d pos' Hdi; apply parses_rd;
                   match goal with H : forallb _ (sx_delta_val_diff_minus_min x) = true |- _ =>
                     rewrite forallb_forall in H; specialize (H d Hdi); lia end]).
      apply parses_ret. }
    cbv beta iota zeta.
    ppeek ltac:(apply parses_get_err).
    apply parses_ret_eq. rewrite map_id. reflexivity.
  - eapply parses_bind_nil.
    { pbind ltac:(apply (parses_opt raw _ (1 <? nv) _ (sx_max_diff x) 0); intros _; apply parses_rd; lia).
      fold M. fold hm. rewrite (hu64_id (M + 1)) by lia.
      pbind ltac:(apply (parses_opt raw _ hm _ (sx_min_diff_minus1 x) (u64 (M + 18446744073709551615)));
                  intros Hh; apply parses_rd;
                  match goal with H : (if hm then _ else true) = true |- _ => rewrite Hh in H; lia end).
      rewrite app_nil_r.
      plast ltac:(apply parses_rd; lia).
      rewrite (Hc _ eq_refl); try rewrite Hd; cbv iota.
      apply parses_bind_ret. apply parses_ret. }
    cbv beta iota zeta.
    ppeek ltac:(apply parses_get_err).
    apply parses_ret_eq. f_equal.
    destruct hm; [reflexivity|]. destruct (N.eqb_spec M 0) as [E|E].
    + rewrite E. reflexivity.
    + apply u64_dec; lia.
Qed.

Lemma parses_dlayer raw bd l pos : bd <= 16 -> dlayer_valid bd l = true ->
  parses raw (hparse_dlayer BR bd) pos (ser_dlayer bd l) (expected_dlayer l).
Proof.
  intros Hbd Hv. unfold hparse_dlayer.
  assert (Hp : 2 ^ bd <= 65536) by (change 65536 with (2 ^ 16); apply N.pow_le_mono_r; lia).
  destruct l as [|vals|p d]; cbn [ser_dlayer expected_dlayer dlayer_valid] in *.
  - change [false] with (fl false). plast ltac:(apply parses_flag). apply parses_ret.
  - change ([true; false; true] ++ vals) with (fl true ++ fl false ++ fl true ++ vals).
    pbind ltac:(apply parses_flag). pbind ltac:(apply parses_flag). cbn [negb].
    pbind ltac:(apply parses_flag).
    rewrite <- (flat_map_fl vals) at 1.
    plast ltac:(apply (parses_rep_until_err_n raw _ fl (fun b => b) vals);
                [lia | unfold loop_bound; lia | intros b pos' _; apply parses_flag]).
    apply parses_ret_eq. rewrite map_id. reflexivity.
  - destruct p.
    + change ([true; true] ++ ser_deltadlt bd d) with (fl true ++ fl true ++ ser_deltadlt bd d).
      pbind ltac:(apply parses_flag). pbind ltac:(apply parses_flag). cbn [negb].
      apply parses_bind_ret. cbv beta iota.
      plast ltac:(apply parses_deltadlt; assumption). apply parses_ret.
    + change ([true; false; false] ++ ser_deltadlt bd d) with (fl true ++ fl false ++ fl false ++ ser_deltadlt bd d).
      pbind ltac:(apply parses_flag). pbind ltac:(apply parses_flag). cbn [negb].
      pbind ltac:(apply parses_flag).
      plast ltac:(apply parses_deltadlt; assumption). apply parses_ret.
Qed.

Lemma parses_pps3d raw x pos : pps3d_valid x = true ->
  parses raw (hparse_pps_3d BR) pos (ser_pps3d x) (expected_pps3d x).
Proof.
  intros Hv. unfold pps3d_valid in Hv. split_all.
  unfold hparse_pps_3d, ser_pps3d, expected_pps3d.
  set (ls := sx_depth_layers x) in *. set (bd := sx_pps_bit_depth_for_depth_layers_minus8 x) in *.
  pbind ltac:(apply parses_flag).
  destruct (sx_dlts_present_flag x); cbn [opt_bits].
  - eapply parses_bind_nil.
    { pbind ltac:(apply parses_rd; change (2 ^ 6) with 64; lia).
      pbind ltac:(apply parses_rd; change (2 ^ 4) with 16; lia).
      replace (N.to_nat (u8 (lenN ls - 1) + 1)) with (length ls)
        by (rewrite hu8_id by lia; unfold lenN in *; lia).
      rewrite (hu8_id bd), (hu8_id (bd + 8)) by lia.
      plast ltac:(apply (parses_rep_until_err raw _ (ser_dlayer (bd + 8)) expected_dlayer ls);
                  intros l pos' Hl; apply parses_dlayer; [lia|];
                  match goal with H : forallb _ ls = true |- _ => rewrite forallb_forall in H; apply H; exact Hl end).
      apply parses_ret. }
    cbv beta iota zeta. ppeek ltac:(apply parses_get_err).
    apply parses_ret_eq. rewrite !hu8_id by lia. reflexivity.
  - rewrite ?app_nil_r. apply parses_bind_ret. cbv beta iota zeta.
    ppeek ltac:(apply parses_get_err). apply parses_ret.
Qed.
