(* C15Theorems.v — the property theorems of C15 and nothing else. *)
From V.lib Require Import Base.
From V.c13 Require Import C13Spec C13Model.
From V.c15 Require Import C15Model C15Spec C15BitProofs C15AvcSpsProofs C15Examples.

(* AVC SPS without VUI: for every field assignment accepted by sps_valid (all profiles with and
   without the chroma/bit-depth/scaling-list block, poc types 0-2, frame/field, cropping for all
   chroma formats) the parser applied to the NAL unit produced by the independent serialiser
   returns the coded values, Width/Height by the cropping formula and the byte counters.
   Full statement (with VUI/HRD): C15_avc_sps below once the VUI lemma is in. *)
Theorem C15_avc_sps_novui_partial : forall v beyond,
  sps_valid v = true -> sps_offsets_zero v = true -> vui_parameters_present_flag v = false ->
  parse_sps_br beyond (nalu_sps v) = Ok (expected_sps beyond v).
Proof. exact avc_sps_novui. Qed.
Print Assumptions C15_avc_sps_novui_partial.
Example C15_avc_sps_novui_hyps :
  sps_valid ex_sps_novui = true /\ sps_offsets_zero ex_sps_novui = true
  /\ vui_parameters_present_flag ex_sps_novui = false
  /\ sps_width (expected_sps true ex_sps_novui) = 1914 /\ sps_height (expected_sps true ex_sps_novui) = 1080.
Proof. vm_compute. repeat split. Qed.

(* the se(v) elements offset_for_non_ref_pic / offset_for_top_to_bottom_field /
   offset_for_ref_frame are read with ReadExpGolomb into uint fields *)
Theorem C15_avc_sps_offsets_refuted :
  exists v, sps_valid v = true /\ parse_sps_br true (nalu_sps v) <> Ok (expected_sps true v).
Proof. exists ex_sps_offsets. split; [vm_compute; reflexivity | vm_compute; discriminate]. Qed.
Print Assumptions C15_avc_sps_offsets_refuted.
