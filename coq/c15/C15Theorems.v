(* C15Theorems.v — the property theorems of C15 and nothing else. *)
From V.lib Require Import Base.
From V.c13 Require Import C13Spec C13Model.
From V.c15 Require Import C15Model C15Spec C15BitProofs C15AvcSpsProofs C15AvcVuiProofs C15AvcPpsProofs C15AvcSliceProofs
  C15AvcDimsProofs C15AvcConfModel C15AvcConfSpec C15AvcConfProofs C15Examples.

(* AVC SPS: for every field assignment accepted by sps_valid (profiles with and without the
   chroma / bit-depth / scaling-list block, scaling lists, poc types 0-2, frame/field, cropping for
   all chroma formats, VUI incl. both HRDs, parseVUIBeyondAspectRatio true and false) the parser
   applied to the NAL unit produced by the independent serialiser returns the coded values,
   Width/Height by the cropping formula, NrBytesBeforeVUI / NrBytesRead = bytes of the escaped
   NAL unit holding the bits read.  Guard sps_offsets_zero: see C15_avc_sps_offsets_refuted. *)
Theorem C15_avc_sps : forall v beyond,
  sps_valid v = true -> sps_offsets_zero v = true ->
  parse_sps_br beyond (nalu_sps v) = Ok (expected_sps beyond v).
Proof. exact avc_sps. Qed.
Print Assumptions C15_avc_sps.
Example C15_avc_sps_hyps :
  sps_valid ex_sps = true /\ sps_offsets_zero ex_sps = true
  /\ sps_width (expected_sps true ex_sps) = 1914 /\ sps_height (expected_sps true ex_sps) = 1080
  /\ sps_nr_bytes_before_vui (expected_sps true ex_sps) = 22 /\ sps_nr_bytes_read (expected_sps true ex_sps) = 73.
Proof. vm_compute. repeat split. Qed.

(* without the guard: what the parser returns on EVERY valid SPS — the three se(v) elements come
   back as their codeNum *)
Theorem C15_avc_sps_all_valid : forall v beyond,
  sps_valid v = true ->
  parse_sps_br beyond (nalu_sps v) =
  Ok (expected_sps_gen se_code (nbytes_at (raw_sps v) (sps_bits_before_vui v))
                       (nbytes_at (raw_sps v) (sps_bits_read beyond v)) beyond v).
Proof. exact avc_sps_go. Qed.
Print Assumptions C15_avc_sps_all_valid.

(* the se(v) elements offset_for_non_ref_pic / offset_for_top_to_bottom_field /
   offset_for_ref_frame are read with ReadExpGolomb into uint fields *)
Theorem C15_avc_sps_offsets_refuted :
  exists v, sps_valid v = true /\ parse_sps_br true (nalu_sps v) <> Ok (expected_sps true v).
Proof. exists ex_sps_offsets. split; [vm_compute; reflexivity | vm_compute; discriminate]. Qed.
Print Assumptions C15_avc_sps_offsets_refuted.

(* AVC PPS (repaired text): all slice-group map types 0..6, the part behind more_rbsp_data() present
   or absent, pic scaling lists for every chroma format with and without transform_8x8_mode_flag,
   rbsp trailing bits checked.  chroma = ChromaFormatIDC of the SPS that spsMap holds for the PPS's
   seq_parameter_set_id (consulted only when pic_scaling_matrix_present_flag is set). *)
Theorem C15_avc_pps : forall chroma spsmap v,
  pps_valid chroma v = true ->
  (pps_has_tail v && pic_scaling_matrix_present_flag v = true ->
   spsmap (pps_seq_parameter_set_id v) = Some chroma) ->
  parse_pps_br spsmap (nalu_pps v) = Ok (expected_pps v).
Proof. exact avc_pps. Qed.
Print Assumptions C15_avc_pps.
Example C15_avc_pps_hyps :
  pps_valid 3 ex_pps = true /\ pps_slice_group_id (expected_pps ex_pps) = [0; 2; 1; 1; 0]
  /\ length (pps_pic_scaling_lists (expected_pps ex_pps)) = 12%nat.
Proof. vm_compute. repeat split. Qed.

(* AVC slice header (repaired text).  For every field assignment accepted by slice_valid: slice types 0..9,
   nal_unit_type 1 and 5, every nal_ref_idc, field/frame, poc types 0-2, override of the active
   reference counts, ref_pic_list_modification loops for both lists, pred_weight_table for every
   ChromaArrayType, dec_ref_pic_marking incl. the memory_management_control_operation loop, CABAC,
   SP/SI, deblocking; slice_data of any length behind the header.  spsmap / ppsmap are ARBITRARY maps
   that hold, under the slice's pic_parameter_set_id and under that PPS's seq_parameter_set_id (not
   the PPS's own id), what the parameter-set parsers returned for the PPS / SPS NAL units: the parser
   returns the coded values, SeqParamID = the PPS's seq_parameter_set_id and Size = number of bytes
   of the escaped NAL unit that hold the header.  cm is the SPS map the PPS was parsed with (it is
   consulted for the PPS's scaling lists only).  Guard sl_has_fmo_cycle pp = false: see
   C15_avc_slice_fmo_refuted (known finding F7). *)
Theorem C15_avc_slice : forall spsmap ppsmap sp pp v beyond cm s p,
  sps_valid sp = true -> pps_valid (eff_chroma_format_idc sp) pp = true -> slice_valid sp pp v = true ->
  sl_has_fmo_cycle pp = false ->
  (pps_has_tail pp && pic_scaling_matrix_present_flag pp = true ->
   cm (pps_seq_parameter_set_id pp) = Some (eff_chroma_format_idc sp)) ->
  parse_sps_br beyond (nalu_sps sp) = Ok s -> parse_pps_br cm (nalu_pps pp) = Ok p ->
  ppsmap (sl_pic_parameter_set_id v) = Some p -> spsmap (pps_seq_parameter_set_id pp) = Some s ->
  parse_slice_br spsmap ppsmap (nalu_slice sp pp v) = Ok (expected_slice sp pp v).
Proof. exact avc_slice. Qed.
Print Assumptions C15_avc_slice.
(* B slice, pps id 2 <> sps id 7, override, rplm on both lists, weights, four marking operations *)
Example C15_avc_slice_hyps :
  sps_valid ex_sl_sps = true /\ pps_valid (eff_chroma_format_idc ex_sl_sps) ex_sl_pps = true
  /\ slice_valid ex_sl_sps ex_sl_pps ex_slice = true /\ sl_has_fmo_cycle ex_sl_pps = false
  /\ sh_pic_param_id (expected_slice ex_sl_sps ex_sl_pps ex_slice) = 2
  /\ sh_seq_param_id (expected_slice ex_sl_sps ex_sl_pps ex_slice) = 7
  /\ sh_long_term_pic_num (expected_slice ex_sl_sps ex_sl_pps ex_slice) = 9
  /\ sh_size (expected_slice ex_sl_sps ex_sl_pps ex_slice) = 30
  /\ lenN (nalu_slice ex_sl_sps ex_sl_pps ex_slice) = 31.
Proof. vm_compute. repeat split. Qed.

(* slice_group_change_cycle: the parser derives its width from pps.PicSizeInMapUnitsMinus1, which is
   not coded for slice-group map types 3..5 *)
Theorem C15_avc_slice_fmo_refuted :
  exists sp pp v s p,
    sps_valid sp = true /\ pps_valid (eff_chroma_format_idc sp) pp = true /\ slice_valid sp pp v = true
    /\ parse_sps_br true (nalu_sps sp) = Ok s /\ parse_pps_br (fun _ => None) (nalu_pps pp) = Ok p
    /\ parse_slice_br (fun _ => Some s) (fun _ => Some p) (nalu_slice sp pp v) <> Ok (expected_slice sp pp v).
Proof.
  exists ex_fmo_sps, ex_fmo_pps, ex_fmo_slice, (expected_sps true ex_fmo_sps), (expected_pps ex_fmo_pps).
  repeat split; try (vm_compute; reflexivity). vm_compute. discriminate.
Qed.
Print Assumptions C15_avc_slice_fmo_refuted.

(* Width / Height of every valid SPS by the standard's cropping formula (7.4.2.1.1), written out:
   PicWidthInMbs * 16 - CropUnitX * (left + right), (2 - frame_mbs_only_flag) * PicHeightInMapUnits * 16
   - CropUnitY * (top + bottom), CropUnitX / CropUnitY from ChromaArrayType (chroma_format_idc,
   separate_colour_plane_flag; 4:2:0 inferred when the profile has no chroma block), SubWidthC / SubHeightC
   and frame_mbs_only_flag.  Stated with + so that no truncated subtraction is involved. *)
Theorem C15_avc_dims : forall v beyond s,
  sps_valid v = true -> parse_sps_br beyond (nalu_sps v) = Ok s ->
  let high := existsb (N.eqb (profile_idc v)) [100; 110; 122; 244; 44; 83; 86; 118; 128; 138; 139; 134; 135] in
  let chroma := if high then chroma_format_idc v else 1 in
  let separate := high && (chroma =? 3) && separate_colour_plane_flag v in
  let chroma_array_type := if separate then 0 else chroma in
  let sub_width_c := if chroma =? 3 then 1 else 2 in
  let sub_height_c := if chroma =? 1 then 2 else 1 in
  let fmo := if frame_mbs_only_flag v then 1 else 0 in
  let crop_unit_x := if chroma_array_type =? 0 then 1 else sub_width_c in
  let crop_unit_y := if chroma_array_type =? 0 then 2 - fmo else sub_height_c * (2 - fmo) in
  let crop x := if frame_cropping_flag v then x else 0 in
  let pic_width_in_mbs := pic_width_in_mbs_minus1 v + 1 in
  let pic_height_in_map_units := pic_height_in_map_units_minus1 v + 1 in
  sps_width s + crop_unit_x * (crop (frame_crop_left_offset v) + crop (frame_crop_right_offset v))
    = pic_width_in_mbs * 16
  /\ sps_height s + crop_unit_y * (crop (frame_crop_top_offset v) + crop (frame_crop_bottom_offset v))
    = (2 - fmo) * pic_height_in_map_units * 16
  /\ 0 < sps_width s /\ 0 < sps_height s.
Proof. exact avc_dims. Qed.
Print Assumptions C15_avc_dims.
(* ex_sps: 4:2:2 interlaced, 120 x 34 map units, crop 1,2,3,1: 1920 - 2*3 = 1914, 1088 - 2*4 = 1080 *)
Example C15_avc_dims_hyps :
  sps_valid ex_sps = true
  /\ option_map (fun s => (sps_width s, sps_height s))
       (match parse_sps_br false (nalu_sps ex_sps) with Ok s => Some s | _ => None end) = Some (1914, 1080).
Proof. vm_compute. repeat split. Qed.

(* AVC decoder configuration record (avc/avcdecoderconfigurationrecord.go, repaired text 4c725fa).
   C15_avc_confrec: for every valid SPS sp, CreateAVCDecConfRec applied to [nalu_sps sp; any further SPS NAL
   units] and any PPS NAL units returns the record that carries profile_idc, the constraint-flag byte,
   level_idc, chroma_format_idc and the bit depths (minus 8) of sp (4:2:0 / 8 bit inferred when the profile
   has no chroma block) and, when includePS is set, the parameter-set NAL units verbatim. *)
Theorem C15_avc_confrec : forall sp rest ppss inc,
  sps_valid sp = true ->
  create_confrec_br (nalu_sps sp :: rest) ppss inc
  = Ok (mkConf (profile_idc sp) (compat_byte sp) (level_idc sp)
               (if inc then nalu_sps sp :: rest else []) (if inc then ppss else [])
               (eff_chroma_format_idc sp)
               (if has_chroma_block (profile_idc sp) then bit_depth_luma_minus8 sp else 0)
               (if has_chroma_block (profile_idc sp) then bit_depth_chroma_minus8 sp else 0) 0 false).
Proof. exact avc_confrec_create. Qed.
Print Assumptions C15_avc_confrec.

(* C15_avc_confrec_decode: DecodeAVCDecConfRec applied to the record laid out bit by bit as in ISO/IEC
   14496-15 5.3.3.1.2 (any number of SPS <= 31 / PPS <= 255 NAL units of up to 65535 bytes, trailer for
   every profile except 66/77/88) returns the coded values and the NAL units verbatim. *)
Theorem C15_avc_confrec_decode : forall x,
  confrec_syntax_valid x = true -> decode_confrec (ser_confrec x) = Ok (expected_confrec x).
Proof. exact avc_confrec_decode. Qed.
Print Assumptions C15_avc_confrec_decode.
Example C15_avc_confrec_hyps :
  confrec_syntax_valid (confrec_of_sps ex_sps [nalu_sps ex_sps] [nalu_pps ex_pps] true) = true
  /\ firstn 6 (ser_confrec (confrec_of_sps ex_sps [nalu_sps ex_sps] [nalu_pps ex_pps] true)) = [1; 122; 80; 41; 255; 225]
  /\ cr_chroma (expected_confrec (confrec_of_sps ex_sps [nalu_sps ex_sps] [nalu_pps ex_pps] true)) = 2
  /\ cr_bdl (expected_confrec (confrec_of_sps ex_sps [nalu_sps ex_sps] [nalu_pps ex_pps] true)) = 2.
Proof. vm_compute. repeat split. Qed.

(* avc.CodecString: "<sample entry>.PPCCLL" with PP = profile_idc, CC = the constraint-flag byte, LL = level_idc
   of the SPS, two upper-case hexadecimal digits each (RFC 6381 3.3), for every valid SPS and every sample
   entry name. *)
Theorem C15_avc_codec_string : forall entry sp beyond s,
  sps_valid sp = true -> parse_sps_br beyond (nalu_sps sp) = Ok s ->
  codec_string entry s = codec_string_spec entry sp.
Proof. exact avc_codec_string. Qed.
Print Assumptions C15_avc_codec_string.
Example C15_avc_codec_string_hyps :
  codec_string_spec [97; 118; 99; 49] ex_sps = [97; 118; 99; 49; 46; 55; 65; 53; 48; 50; 57].   (* "avc1.7A5029" *)
Proof. vm_compute. reflexivity. Qed.

(* C15_avc_confrec_encode: for every record whose fields fit the syntax (<= 31 SPS, <= 255 PPS, NAL units up to
   65535 bytes, chroma_format <= 3, bit depths <= 7, NumSPSExt = 0, NoTrailingInfo unset) Encode over the
   FixedSliceWriter of capacity Size() never overflows and writes exactly the byte layout of 5.3.3.1.2, and
   Size() is its length. *)
Theorem C15_avc_confrec_encode : forall a,
  confrec_syntax_valid (syntax_of a) = true -> cr_num_sps_ext a = 0 -> cr_no_trailing a = false ->
  encode_confrec a = Ok (ser_confrec_bytes (syntax_of a))
  /\ confrec_size a = lenN (ser_confrec_bytes (syntax_of a)).
Proof. exact avc_confrec_encode. Qed.
Print Assumptions C15_avc_confrec_encode.

(* C15_avc_confrec_roundtrip: create -> encode -> decode for every record the constructor produces from a
   valid first SPS: the encoded bytes are the bit layout of the standard for the SPS's values, Size() is
   their length, decoding returns the values a reader of the record knows (expected_confrec: the trailer
   fields only for profiles other than 66/77/88) - the created record itself whenever the profile carries
   the trailer. *)
Theorem C15_avc_confrec_roundtrip : forall sp rest ppss inc,
  sps_valid sp = true ->
  (inc = true -> lenN (nalu_sps sp :: rest) < 32 /\ lenN ppss < 256
                 /\ forallb ps_ok (nalu_sps sp :: rest) = true /\ forallb ps_ok ppss = true) ->
  let spss := nalu_sps sp :: rest in
  let x := confrec_of_sps sp spss ppss inc in
  exists a bs,
    create_confrec_br spss ppss inc = Ok a
    /\ encode_confrec a = Ok bs /\ bs = ser_confrec x /\ confrec_size a = lenN bs
    /\ decode_confrec bs = Ok (expected_confrec x)
    /\ (has_trailer (profile_idc sp) = true -> decode_confrec bs = Ok a).
Proof. exact avc_confrec_roundtrip. Qed.
Print Assumptions C15_avc_confrec_roundtrip.
Example C15_avc_confrec_roundtrip_hyps :
  sps_valid ex_sps = true /\ lenN [nalu_sps ex_sps] < 32
  /\ forallb ps_ok [nalu_sps ex_sps] = true /\ forallb ps_ok [nalu_pps ex_pps] = true
  /\ has_trailer (profile_idc ex_sps) = true.
Proof. vm_compute. repeat split. Qed.
