(* C15Theorems.v — the property theorems of C15 and nothing else. *)
From V.lib Require Import Base.
From V.c13 Require Import C13Spec C13Model.
From V.c15 Require Import C15Model C15Spec.
