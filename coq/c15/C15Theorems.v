(* C15Theorems.v — the property theorems of C15 and nothing else. *)
From V.lib Require Import Base.
From V.c13 Require Import C13Spec C13Model.
From V.c15 Require Import C15Model C15Spec C15BitProofs C15AvcSpsProofs C15AvcVuiProofs C15AvcPpsProofs C15Examples.

(* AVC SPS: for every field assignment accepted by sps_valid (profiles with and without the
   chroma / bit-depth / scaling-list block, scaling lists, poc types 0-2, frame/field, cropping for
   all chroma formats, VUI incl. both HRDs, parseVUIBeyondAspectRatio true and false) the parser
   applied to the NAL unit produced by the independent serialiser returns the coded values,
   Width/Height by the cropping formula, NrBytesBeforeVUI / NrBytesRead = bytes of the escaped
   NAL unit holding the bits read.  Guard sps_offsets_zero: see C15_avc_sps_offsets_refuted. *)
Theorem C15_avc_sps : forall v beyond,
  sps_valid v = true -> sps_offsets_zero v = true ->
  parse_sps_br beyond (nalu_sps v) = Ok (expected_sps beyond v).
Proof. exact avc_sps. Qed.
Print Assumptions C15_avc_sps.
Example C15_avc_sps_hyps :
  sps_valid ex_sps = true /\ sps_offsets_zero ex_sps = true
  /\ sps_width (expected_sps true ex_sps) = 1914 /\ sps_height (expected_sps true ex_sps) = 1080
  /\ sps_nr_bytes_before_vui (expected_sps true ex_sps) = 22 /\ sps_nr_bytes_read (expected_sps true ex_sps) = 73.
Proof. vm_compute. repeat split. Qed.

(* without the guard: what the parser returns on EVERY valid SPS — the three se(v) elements come
   back as their codeNum *)
Theorem C15_avc_sps_all_valid : forall v beyond,
  sps_valid v = true ->
  parse_sps_br beyond (nalu_sps v) =
  Ok (expected_sps_gen se_code (nbytes_at (raw_sps v) (sps_bits_before_vui v))
                       (nbytes_at (raw_sps v) (sps_bits_read beyond v)) beyond v).
Proof. exact avc_sps_go. Qed.
Print Assumptions C15_avc_sps_all_valid.

(* the se(v) elements offset_for_non_ref_pic / offset_for_top_to_bottom_field /
   offset_for_ref_frame are read with ReadExpGolomb into uint fields *)
Theorem C15_avc_sps_offsets_refuted :
  exists v, sps_valid v = true /\ parse_sps_br true (nalu_sps v) <> Ok (expected_sps true v).
Proof. exists ex_sps_offsets. split; [vm_compute; reflexivity | vm_compute; discriminate]. Qed.
Print Assumptions C15_avc_sps_offsets_refuted.

(* AVC PPS (repaired text): all slice-group map types 0..6, the part behind more_rbsp_data() present
   or absent, pic scaling lists for every chroma format with and without transform_8x8_mode_flag,
   rbsp trailing bits checked.  chroma = ChromaFormatIDC of the SPS that spsMap holds for the PPS's
   seq_parameter_set_id (consulted only when pic_scaling_matrix_present_flag is set). *)
Theorem C15_avc_pps : forall chroma spsmap v,
  pps_valid chroma v = true ->
  (pps_has_tail v && pic_scaling_matrix_present_flag v = true ->
   spsmap (pps_seq_parameter_set_id v) = Some chroma) ->
  parse_pps_br spsmap (nalu_pps v) = Ok (expected_pps v).
Proof. exact avc_pps. Qed.
Print Assumptions C15_avc_pps.
Example C15_avc_pps_hyps :
  pps_valid 3 ex_pps = true /\ pps_slice_group_id (expected_pps ex_pps) = [0; 2; 1; 1; 0]
  /\ length (pps_pic_scaling_lists (expected_pps ex_pps)) = 12%nat.
Proof. vm_compute. repeat split. Qed.
