(* C15HevcSliceRpsProofs.v — the reference-picture part of the HEVC slice segment header:
   slice_pic_order_cnt_lsb, short-term RPS (coded in the slice / selected from the SPS / inferred),
   the long-term entries loop with the NumPicTotalCurr accumulator, slice_temporal_mvp_enabled_flag. *)
From V.lib Require Import Base.
From V.c13 Require Import C13Spec C13Model.
From V.c15 Require Import C15Model C15Spec C15BitProofs C15AvcSpsProofs C15AvcPpsProofs
  C15HevcModel C15HevcSpec C15HevcBitProofs C15HevcSpsRpsProofs C15HevcPpsProofs C15HevcSliceBaseProofs.

Local Notation "x <- m ;; k" := (bind m (fun x => k))
  (at level 61, m at next level, right associativity).

(* ------------------------------------------------------------------ the sets of the expected SPS *)
Lemma length_derive_all_from : forall l prev idx,
  length (derive_all_from prev idx l) = (length prev + length l)%nat.
Proof.
  induction l as [|r t IH]; intros prev idx; cbn [derive_all_from length]; [lia|].
  rewrite IH, app_length. cbn [length]. lia.
Qed.

Lemma length_sps_derived sp : length (hs_sps_derived sp) = length (sx_st_ref_pic_sets sp).
Proof. unfold hs_sps_derived, derive_all. rewrite length_derive_all_from. reflexivity. Qed.

Lemma rps_rel_from num : forall l prev idx acc,
  Forall2 rps_rel acc prev -> lenN prev = idx -> idx + lenN l <= 64 ->
  hrps_list_valid_from prev idx num l = true ->
  Forall2 rps_rel (acc ++ exp_from prev idx l) (derive_all_from prev idx l).
Proof.
  induction l as [|r t IH]; intros prev idx acc Hrel Hlen Hb Hv;
    cbn [exp_from derive_all_from hrps_list_valid_from] in *.
  - rewrite app_nil_r. exact Hrel.
  - apply andb_prop in Hv. destruct Hv as [Hv1 Hv2]. rewrite lenN_cons in Hb. cbv zeta.
    destruct (parses_st_rps [] idx num acc prev r 0 Hrel Hlen ltac:(lia) Hv1) as [_ R].
    set (d := derive_one prev idx r) in *.
    replace (acc ++ expected_hrps d r :: exp_from (prev ++ [d]) (idx + 1) t)
      with ((acc ++ [expected_hrps d r]) ++ exp_from (prev ++ [d]) (idx + 1) t)
      by (rewrite <- app_assoc; reflexivity).
    apply IH.
    + apply Forall2_app; [exact Hrel | constructor; [exact R | constructor]].
    + rewrite lenN_app, lenN_cons, lenN_nil. lia.
    + lia.
    + exact Hv2.
Qed.

Lemma sps_sets_rel sp : hsps_valid sp = true ->
  Forall2 rps_rel (h_st_rps (expected_hsps sp)) (hs_sps_derived sp) /\ hs_num_st sp <= 64.
Proof.
  intros Hv. unfold hsps_valid in Hv. cbv zeta in Hv. split_all.
  split; [|unfold hs_num_st; lia].
  rewrite esp_st_rps. unfold hs_sps_derived, derive_all.
  pose proof (exp_from_combine (sx_st_ref_pic_sets sp) [] [] 0 eq_refl) as E.
  cbn [app combine map] in E. unfold hs_sps_derived, derive_all in E |- *. rewrite E.
  apply (rps_rel_from (lenN (sx_st_ref_pic_sets sp)) (sx_st_ref_pic_sets sp) [] 0 []);
    [constructor | reflexivity | lia | assumption].
Qed.

Lemma nth_error_combine {A B} : forall (a : list A) (b : list B) i,
  nth_error (combine a b) i =
  match nth_error a i, nth_error b i with Some x, Some y => Some (x, y) | _, _ => None end.
Proof.
  induction a as [|x a IH]; intros [|y b] [|i]; cbn [combine nth_error]; try reflexivity.
  - destruct (nth_error a i); reflexivity.
  - apply IH.
Qed.

(* what countInUsePics sees: the used entries of the set in force (7-55) *)
Lemma map_snd_cumulate sg : forall l a, map snd (cumulate sg a l) = map snd l.
Proof.
  induction l as [|[m used] t IH]; intros a; cbn [cumulate map]; [reflexivity|].
  cbv zeta. cbn [map snd]. now rewrite IH.
Qed.

(* explicit sets: the derived set carries the coded used flags *)
Definition rps_used_rel (p : rps_derived * hrps_syntax) : Prop :=
  match snd p with
  | RpsExplicit neg pos => d_num_used (fst p) = countb (map snd neg) + countb (map snd pos)
  | _ => True
  end.

Lemma rps_used_rel_one prev idx r : rps_used_rel (derive_one prev idx r, r).
Proof.
  unfold rps_used_rel. destruct r as [neg ps|]; cbn [fst snd derive_one]; [|exact I].
  unfold d_num_used. cbn [d_s0 d_s1]. rewrite !map_snd_cumulate. reflexivity.
Qed.

Lemma rps_used_rel_from : forall l prev done idx, length prev = length done ->
  Forall rps_used_rel (combine prev done) ->
  Forall rps_used_rel (combine (derive_all_from prev idx l) (done ++ l)).
Proof.
  induction l as [|r t IH]; intros prev done idx Hl Hf; cbn [derive_all_from].
  - rewrite app_nil_r. exact Hf.
  - replace (done ++ r :: t) with ((done ++ [r]) ++ t) by (rewrite <- app_assoc; reflexivity).
    apply IH; [rewrite !app_length; cbn [length]; lia|].
    rewrite combine_app_eq by exact Hl. apply Forall_app. split; [exact Hf|].
    cbn [combine]. constructor; [apply rps_used_rel_one | constructor].
Qed.

Lemma sps_used_rel sp : Forall rps_used_rel (combine (hs_sps_derived sp) (sx_st_ref_pic_sets sp)).
Proof.
  unfold hs_sps_derived, derive_all.
  apply (rps_used_rel_from (sx_st_ref_pic_sets sp) [] [] 0 eq_refl). constructor.
Qed.

Lemma count_in_use_expected d r : rps_used_rel (d, r) -> d_num_used d < 256 ->
  hcount_in_use (expected_hrps d r) = d_num_used d.
Proof.
  unfold rps_used_rel, hcount_in_use. cbn [fst snd].
  destruct r as [neg ps|]; cbn [expected_hrps rps_u0 rps_u1 rps_nused]; intros H Hb.
  - rewrite <- H, N.add_0_r. unfold u8. rewrite N.mod_mod by discriminate.
    apply N.mod_small. exact Hb.
  - change (u8 (countb [] + countb [])) with 0. rewrite N.add_0_l. apply hu8_id. exact Hb.
Qed.

Lemma count_in_use_curr sp pp v : d_num_used (hs_curr_rps sp pp v) < 256 ->
  hcount_in_use (expected_hslice_rps sp pp v) = d_num_used (hs_curr_rps sp pp v).
Proof.
  unfold expected_hslice_rps, hs_curr_rps.
  destruct (hs_nidr pp v); [|reflexivity].
  destruct (sx_short_term_ref_pic_set_sps_flag v).
  - intros Hb.
    destruct (nth_error (combine (hs_sps_derived sp) (sx_st_ref_pic_sets sp)) (N.to_nat (hs_st_idx sp pp v)))
      as [[d r]|] eqn:E.
    + pose proof (nth_error_In _ _ E) as Hin.
      pose proof (proj1 (Forall_forall _ _) (sps_used_rel sp) _ Hin) as Hrel.
      rewrite nth_error_combine in E.
      destruct (nth_error (hs_sps_derived sp) (N.to_nat (hs_st_idx sp pp v))) as [d'|] eqn:E1; [|discriminate].
      destruct (nth_error (sx_st_ref_pic_sets sp) (N.to_nat (hs_st_idx sp pp v))) as [r'|]; [|discriminate].
      injection E as -> ->.
      rewrite (nth_error_nth _ _ (mkRpsD [] []) E1) in Hb |- *.
      cbn [fst snd]. apply count_in_use_expected; assumption.
    + apply nth_error_None in E. rewrite combine_length, length_sps_derived, Nat.min_id in E.
      rewrite nth_overflow by (rewrite length_sps_derived; exact E). reflexivity.
  - intros Hb. apply count_in_use_expected; [apply rps_used_rel_one | exact Hb].
Qed.

(* ------------------------------------------------------------------ short-term RPS in the slice header *)
Definition sl_rp (hs : hsps) (stf : bool) :=
  (if negb stf then
     r <- hparse_st_rps BR (h_num_st_rps hs) (h_num_st_rps hs) (h_st_rps hs) ;;
     e <- get_err BR ;;
     if e then fail else ret (r, 0)
   else if 1 <? h_num_st_rps hs then
     ix <- rd BR (ceil_log2 (h_num_st_rps hs)) ;;
     match nth_error (h_st_rps hs) (N.to_nat (u8 ix)) with
     | None => fail
     | Some r => ret (r, u8 ix)
     end
   else
     match nth_error (h_st_rps hs) 0 with
     | None => ret (hrps_zero, 0)
     | Some r => ret (r, 0)
     end).

Lemma parses_sl_rp raw sp pp v pos :
  hsps_valid sp = true -> hslice_valid sp pp v = true -> hs_nidr pp v = true ->
  parses raw (sl_rp (expected_hsps sp) (sx_short_term_ref_pic_set_sps_flag v)) pos
    (if sx_short_term_ref_pic_set_sps_flag v
     then opt_bits (1 <? hs_num_st sp) (u (N.log2_up (hs_num_st sp)) (sx_short_term_ref_pic_set_idx v))
     else ser_hrps (hs_num_st sp) (hs_num_st sp) (sx_slice_st_rps v))
    (expected_hslice_rps sp pp v, hs_st_idx sp pp v).
Proof.
  intros Hs Hv Hn.
  destruct (sps_sets_rel sp Hs) as [Hrel H64].
  assert (Hc : (if hs_st_coded pp v
                then hrps_valid (hs_sps_derived sp) (hs_num_st sp) (hs_num_st sp) (sx_slice_st_rps v)
                else true) = true) by (unfold hslice_valid in Hv; split_all; assumption).
  assert (Hi : (if hs_nidr pp v && sx_short_term_ref_pic_set_sps_flag v
                then (1 <=? hs_num_st sp) && (hs_st_idx sp pp v <? hs_num_st sp) else true) = true)
    by (unfold hslice_valid in Hv; split_all; assumption).
  clear Hv.
  unfold sl_rp, expected_hslice_rps, hs_st_idx, hs_st_idx_coded, hs_st_coded in *.
  rewrite Hn in *. cbn [andb] in *.
  rewrite esp_num_st_rps.
  destruct (sx_short_term_ref_pic_set_sps_flag v) eqn:Hf; cbn [negb andb] in *.
  - split_all. rewrite esp_st_rps.
    destruct (1 <? hs_num_st sp) eqn:H1; cbn [opt_bits].
    + rewrite ceil_log2_eq by (change (2 ^ 32) with 4294967296; lia).
      pose proof (log2_up_bound (hs_num_st sp) ltac:(lia)) as Hlb.
      plast ltac:(apply parses_rd; lia).
      rewrite hu8_id by lia.
      rewrite nth_error_map.
      destruct (nth_error (combine (hs_sps_derived sp) (sx_st_ref_pic_sets sp))
                          (N.to_nat (sx_short_term_ref_pic_set_idx v))) as [p|] eqn:E; cbn [option_map].
      * apply parses_ret.
      * exfalso. apply nth_error_None in E. rewrite combine_length, length_sps_derived in E.
        unfold hs_num_st, lenN in *. lia.
    + change 0%nat with (N.to_nat 0). rewrite nth_error_map.
      destruct (nth_error (combine (hs_sps_derived sp) (sx_st_ref_pic_sets sp)) (N.to_nat 0)) as [p|];
        cbn [option_map]; apply parses_ret.
  - destruct (parses_st_rps raw (hs_num_st sp) (hs_num_st sp) (h_st_rps (expected_hsps sp))
                (hs_sps_derived sp) (sx_slice_st_rps v) pos Hrel) as [P _];
      [unfold hs_num_st, lenN; rewrite length_sps_derived; reflexivity | exact H64 | exact Hc |].
    plast ltac:(exact P).
    ppeek ltac:(apply parses_get_err).
    apply parses_ret_eq. unfold hs_curr_rps. rewrite Hn, Hf. reflexivity.
Qed.

(* ------------------------------------------------------------------ long-term entries *)
Lemma lt_acc_cons a b l : lt_acc a (b :: l) = lt_acc (if b then u8 (a + 1) else a) l.
Proof. reflexivity. Qed.

Definition lt_enc_pics (sp : hsps_syntax) (e : N * bool * bool * N) : list bool :=
  let '(poc, used, msb, cyc) := e in
  u (hs_poc_bits sp) poc ++ fl used ++ fl msb ++ opt_bits msb (ue_bits cyc).
Definition lt_val_pics (e : N * bool * bool * N) : hlt :=
  let '(poc, used, msb, cyc) := e in mkHLt poc used msb (if msb then cyc else 0).
Definition lt_enc_sps (sp : hsps_syntax) (e : N * bool * N) : list bool :=
  let '(ix, msb, cyc) := e in
  opt_bits (1 <? hs_num_lt_sps_in_sps sp) (u (hs_lt_idx_bits sp) ix) ++ fl msb ++ opt_bits msb (ue_bits cyc).
Definition lt_val_sps (sp : hsps_syntax) (e : N * bool * N) : hlt :=
  let '(ix, msb, cyc) := e in
  mkHLt (fst (hs_sps_lt sp ix)) (snd (hs_sps_lt sp ix)) msb (if msb then cyc else 0).

Lemma hlt_loop_pics raw sp nls : forall (l2 : list (N * bool * bool * N)) i acc npt pos,
  nls <= i -> sx_log2_max_pic_order_cnt_lsb_minus4 sp <= 12 ->
  forallb (fun e => let '(poc, used, msb, cyc) := e in (poc <? 2 ^ hs_poc_bits sp) && ue_ok cyc) l2 = true ->
  parses raw (hlt_loop BR (length l2) i nls (expected_hsps sp) acc npt) pos
    (flat_map (lt_enc_pics sp) l2)
    (acc ++ map lt_val_pics l2, lt_acc npt (map (fun e => snd (fst (fst e))) l2)).
Proof.
  induction l2 as [|e t IH]; intros i acc npt pos Hi Hp Hv; cbn [length hlt_loop flat_map map].
  - apply parses_ret_eq. rewrite app_nil_r. reflexivity.
  - destruct e as [[[poc used] msb] cyc]. cbn [forallb] in Hv. split_all.
    replace (i <? nls) with false by lia. cbv iota.
    rewrite esp_log2_poc. rewrite (hu8_id (_ + 4)) by lia.
    unfold lt_enc_pics at 1. fold (hs_poc_bits sp).
    assert (Hpb : 2 ^ hs_poc_bits sp <= 2 ^ 16)
      by (apply N.pow_le_mono_r; [lia | unfold hs_poc_bits; lia]).
    change (2 ^ 16) with 65536 in Hpb.
    rewrite <- !app_assoc. rewrite (app_assoc (u _ poc) (fl used)).
    eapply parses_bind.
    { pbind ltac:(apply parses_rd; lia). plast ltac:(apply parses_flag). apply parses_ret. }
    cbv beta zeta. cbn [lt_used lt_poc_lsb].
    pbind ltac:(apply parses_flag).
    pbind ltac:(apply (parses_opt raw _ msb _ cyc 0); intros _; apply parses_ue).
    ppeek ltac:(apply parses_get_err).
    rewrite lt_acc_cons. cbn [fst snd lt_val_pics].
    rewrite (hu16_id poc) by lia.
    replace (acc ++ mkHLt poc used msb (if msb then cyc else 0) :: map lt_val_pics t)
      with ((acc ++ [mkHLt poc used msb (if msb then cyc else 0)]) ++ map lt_val_pics t)
      by (rewrite <- app_assoc; reflexivity).
    apply IH; [lia | exact Hp | assumption].
Qed.

Lemma hlt_nth sp ix : ix < hs_num_lt_sps_in_sps sp ->
  nth_error (h_lt (expected_hsps sp)) (N.to_nat ix)
  = Some (mkHLt (fst (hs_sps_lt sp ix)) (snd (hs_sps_lt sp ix)) false 0).
Proof.
  intros H. rewrite esp_lt. unfold hs_num_lt_sps_in_sps, hs_sps_lt in *.
  destruct (sx_long_term_ref_pics_present_flag sp); [|lia].
  rewrite nth_error_map. rewrite (nth_error_nth' _ (0, false)) by (unfold lenN in H; lia).
  reflexivity.
Qed.

Lemma hlt_loop_sps raw sp nls : forall (l1 : list (N * bool * N)) (l2 : list (N * bool * bool * N)) i acc npt pos,
  nls = i + lenN l1 -> sx_log2_max_pic_order_cnt_lsb_minus4 sp <= 12 ->
  hs_num_lt_sps_in_sps sp <= 32 ->
  forallb (fun e => let '(ix, msb, cyc) := e in (ix <? hs_num_lt_sps_in_sps sp) && ue_ok cyc) l1 = true ->
  forallb (fun e => let '(poc, used, msb, cyc) := e in (poc <? 2 ^ hs_poc_bits sp) && ue_ok cyc) l2 = true ->
  parses raw (hlt_loop BR (length l1 + length l2) i nls (expected_hsps sp) acc npt) pos
    (flat_map (lt_enc_sps sp) l1 ++ flat_map (lt_enc_pics sp) l2)
    (acc ++ map (lt_val_sps sp) l1 ++ map lt_val_pics l2,
     lt_acc npt (map (fun e => snd (hs_sps_lt sp (fst (fst e)))) l1 ++ map (fun e => snd (fst (fst e))) l2)).
Proof.
  induction l1 as [|e t IH]; intros l2 i acc npt pos Hi Hp H32 Hv1 Hv2; cbn [length flat_map map app Nat.add].
  - apply hlt_loop_pics; [rewrite lenN_nil in Hi; lia | exact Hp | exact Hv2].
  - cbn [hlt_loop]. destruct e as [[ix msb] cyc]. cbn [forallb] in Hv1. split_all.
    rewrite lenN_cons in Hi.
    replace (i <? nls) with true by lia. cbv iota.
    rewrite esp_num_lt.
    unfold lt_enc_sps at 1. rewrite <- !app_assoc.
    assert (Hix : ix < hs_num_lt_sps_in_sps sp) by lia.
    eapply parses_bind.
    { instantiate (1 := mkHLt (fst (hs_sps_lt sp ix)) (snd (hs_sps_lt sp ix)) false 0).
      destruct (1 <? hs_num_lt_sps_in_sps sp) eqn:H1; cbn [opt_bits].
      - rewrite ceil_log2_eq by (change (2 ^ 32) with 4294967296; lia).
        pose proof (log2_up_bound (hs_num_lt_sps_in_sps sp) ltac:(lia)) as Hlb.
        plast ltac:(apply parses_rd; unfold hs_lt_idx_bits; lia).
        rewrite hlt_nth by exact Hix. apply parses_ret.
      - assert (ix = 0) by lia. subst ix.
        change 0%nat with (N.to_nat 0). rewrite hlt_nth by exact Hix. apply parses_ret. }
    cbv beta zeta. cbn [lt_used lt_poc_lsb].
    pbind ltac:(apply parses_flag).
    pbind ltac:(apply (parses_opt raw _ msb _ cyc 0); intros _; apply parses_ue).
    ppeek ltac:(apply parses_get_err).
    rewrite lt_acc_cons. cbn [fst snd lt_val_sps].
    replace (acc ++ mkHLt (fst (hs_sps_lt sp ix)) (snd (hs_sps_lt sp ix)) msb (if msb then cyc else 0)
                 :: map (lt_val_sps sp) t ++ map lt_val_pics l2)
      with ((acc ++ [mkHLt (fst (hs_sps_lt sp ix)) (snd (hs_sps_lt sp ix)) msb (if msb then cyc else 0)])
            ++ map (lt_val_sps sp) t ++ map lt_val_pics l2)
      by (rewrite <- app_assoc; reflexivity).
    apply IH; [lia | exact Hp | exact H32 | assumption | exact Hv2].
Qed.

Lemma parses_optv {A} raw (p : bstate -> res (A * bstate)) (c : bool) e (a d : A) pos :
  (c = true -> parses raw p pos e a) -> (c = false -> d = a) ->
  parses raw (if c then p else ret d) pos (opt_bits c e) a.
Proof. destruct c; intros H1 H2; [apply H1; reflexivity | rewrite (H2 eq_refl); apply parses_ret]. Qed.

Definition sl_lt (hs : hsps) (npt0 : N) :=
  (if h_lt_present hs then
     nls <- (if 0 <? h_num_lt hs then x <- rd_ue BR ;; ret (u8 x) else ret 0) ;;
     nlp <- rd_ue BR ;;
     if loop_bound <? u64 (nls + nlp) then out_of_fuel else
     r <- hlt_loop BR (N.to_nat (u64 (nls + nlp))) 0 nls hs [] npt0 ;;
     ret (nls, nlp, fst r, snd r)
   else ret (0, 0, [], npt0)).

Definition lt_useds sp pp v : list bool :=
  map (fun e => snd (hs_sps_lt sp (fst (fst e)))) (hs_lt_sps_entries sp pp v)
  ++ map (fun e => snd (fst (fst e))) (hs_lt_pics_entries sp pp v).

Lemma parses_sl_lt raw sp pp v npt0 pos :
  hsps_valid sp = true -> hslice_valid sp pp v = true -> hs_nidr pp v = true ->
  parses raw (sl_lt (expected_hsps sp) npt0) pos
    (opt_bits (sx_long_term_ref_pics_present_flag sp) (ser_hslice_lt sp pp v))
    (lenN (hs_lt_sps_entries sp pp v), lenN (hs_lt_pics_entries sp pp v),
     map (lt_val_sps sp) (hs_lt_sps_entries sp pp v) ++ map lt_val_pics (hs_lt_pics_entries sp pp v),
     lt_acc npt0 (lt_useds sp pp v)).
Proof.
  intros Hs Hv Hn.
  assert (Hp : sx_log2_max_pic_order_cnt_lsb_minus4 sp <= 12)
    by (unfold hsps_valid in Hs; cbv zeta in Hs; split_all; lia).
  assert (H32 : hs_num_lt_sps_in_sps sp <= 32)
    by (unfold hsps_valid in Hs; cbv zeta in Hs; split_all; unfold hs_num_lt_sps_in_sps;
        destruct (sx_long_term_ref_pics_present_flag sp); lia).
  assert (Hl1 : lenN (hs_lt_sps_entries sp pp v) <= 32) by (unfold hslice_valid in Hv; split_all; lia).
  assert (Hl2 : lenN (hs_lt_pics_entries sp pp v) <= 32) by (unfold hslice_valid in Hv; split_all; lia).
  assert (Hv1 : forallb (fun e => let '(ix, msb, cyc) := e in (ix <? hs_num_lt_sps_in_sps sp) && ue_ok cyc)
                        (hs_lt_sps_entries sp pp v) = true) by (unfold hslice_valid in Hv; split_all; assumption).
  assert (Hv2 : forallb (fun e => let '(poc, used, msb, cyc) := e in (poc <? 2 ^ hs_poc_bits sp) && ue_ok cyc)
                        (hs_lt_pics_entries sp pp v) = true) by (unfold hslice_valid in Hv; split_all; assumption).
  clear Hs Hv.
  unfold sl_lt, lt_useds. rewrite esp_lt_present, esp_num_lt.
  destruct (sx_long_term_ref_pics_present_flag sp) eqn:Hltp; cbn [opt_bits].
  - unfold ser_hslice_lt.
    set (E1 := hs_lt_sps_entries sp pp v) in *. set (E2 := hs_lt_pics_entries sp pp v) in *.
    eapply parses_bind.
    { apply (parses_optv raw _ (0 <? hs_num_lt_sps_in_sps sp) _ (lenN E1) 0).
      - intros _. plast ltac:(apply parses_ue). apply parses_ret_eq. apply hu8_id. lia.
      - intros H0. unfold E1, hs_lt_sps_entries. rewrite H0, Bool.andb_false_r. reflexivity. }
    cbv beta.
    pbind ltac:(apply parses_ue).
    rewrite (hu64_id (lenN E1 + lenN E2)) by lia.
    replace (loop_bound <? lenN E1 + lenN E2) with false by (unfold loop_bound; lia).
    replace (N.to_nat (lenN E1 + lenN E2)) with (length E1 + length E2)%nat by (unfold lenN; lia).
    plast ltac:(apply (hlt_loop_sps raw sp (lenN E1) E1 E2 0 [] npt0);
                [lia | exact Hp | exact H32 | exact Hv1 | exact Hv2]).
    cbn [app fst snd]. apply parses_ret.
  - apply parses_ret_eq. unfold hs_lt_sps_entries, hs_lt_pics_entries, hs_lt_on.
    rewrite Hltp, Bool.andb_false_r. reflexivity.
Qed.

(* ------------------------------------------------------------------ the block `if !idr { ... }` *)
Definition sl_rf (idr : bool) (hs : hsps) :=
  (if negb idr then
     poc <- rd BR (u8 (h_log2_poc hs + 4)) ;;
     stf <- rd_flag BR ;;
     rp <- sl_rp hs stf ;;
     let npt0 := hcount_in_use (fst rp) in
     lt <- sl_lt hs npt0 ;;
     tm <- (if h_tmvp hs then rd_flag BR else ret false) ;;
     let '(nls, nlp, lts, npt) := lt in
     ret (u16 poc, stf, fst rp, snd rp, (nls, nlp, lts), tm, npt)
   else ret (0, false, hrps_zero, 0, (0, 0, []), false, 0)).

(* the model's NumPicTotalCurr before the pps_curr_pic_ref term *)
Definition go_npt sp pp v : N :=
  if hs_nidr pp v then lt_acc (hcount_in_use (expected_hslice_rps sp pp v)) (lt_useds sp pp v) else 0.

Lemma parses_sl_rf raw sp pp v pos :
  hsps_valid sp = true -> hslice_valid sp pp v = true -> hs_main pp v = true ->
  parses raw (sl_rf (hs_idr v) (expected_hsps sp)) pos
    (opt_bits (negb (hs_idr v))
       (u (hs_poc_bits sp) (sx_slice_pic_order_cnt_lsb v)
        ++ fl (sx_short_term_ref_pic_set_sps_flag v)
        ++ (if sx_short_term_ref_pic_set_sps_flag v
            then opt_bits (1 <? hs_num_st sp) (u (N.log2_up (hs_num_st sp)) (sx_short_term_ref_pic_set_idx v))
            else ser_hrps (hs_num_st sp) (hs_num_st sp) (sx_slice_st_rps v))
        ++ opt_bits (sx_long_term_ref_pics_present_flag sp) (ser_hslice_lt sp pp v)
        ++ opt_bits (sx_sps_temporal_mvp_enabled_flag sp) (fl (sx_slice_temporal_mvp_enabled_flag v))))
    ((if hs_nidr pp v then sx_slice_pic_order_cnt_lsb v else 0),
     hs_nidr pp v && sx_short_term_ref_pic_set_sps_flag v,
     expected_hslice_rps sp pp v, hs_st_idx sp pp v,
     (lenN (hs_lt_sps_entries sp pp v), lenN (hs_lt_pics_entries sp pp v),
      map (lt_val_sps sp) (hs_lt_sps_entries sp pp v) ++ map lt_val_pics (hs_lt_pics_entries sp pp v)),
     hs_tmvp sp pp v, go_npt sp pp v).
Proof.
  intros Hs Hv Hm.
  assert (Hn : hs_nidr pp v = negb (hs_idr v)) by (unfold hs_nidr; rewrite Hm; reflexivity).
  unfold sl_rf.
  destruct (hs_idr v) eqn:Hidr; cbn [negb opt_bits] in *.
  - apply parses_ret_eq.
    unfold expected_hslice_rps, hs_st_idx, hs_st_idx_coded, hs_lt_sps_entries, hs_lt_pics_entries, hs_lt_on,
      hs_tmvp, go_npt.
    rewrite Hn. reflexivity.
  - assert (Hp : sx_log2_max_pic_order_cnt_lsb_minus4 sp <= 12)
      by (unfold hsps_valid in Hs; cbv zeta in Hs; split_all; lia).
    assert (Hlsb : sx_slice_pic_order_cnt_lsb v < 2 ^ hs_poc_bits sp)
      by (unfold hslice_valid in Hv; split_all; lia).
    assert (Hpb : 2 ^ hs_poc_bits sp <= 2 ^ 16)
      by (apply N.pow_le_mono_r; [lia | unfold hs_poc_bits; lia]).
    change (2 ^ 16) with 65536 in Hpb.
    rewrite esp_log2_poc, esp_tmvp. rewrite (hu8_id (_ + 4)) by lia. fold (hs_poc_bits sp).
    pbind ltac:(apply parses_rd; exact Hlsb).
    pbind ltac:(apply parses_flag).
    pbind ltac:(apply (parses_sl_rp raw sp pp v); assumption).
    cbn [fst snd].
    pbind ltac:(apply (parses_sl_lt raw sp pp v); assumption).
    plast ltac:(apply (parses_opt raw _ (sx_sps_temporal_mvp_enabled_flag sp) _
                         (sx_slice_temporal_mvp_enabled_flag v) false); intros _; apply parses_flag).
    apply parses_ret_eq. unfold hs_tmvp, go_npt. rewrite Hn. cbn [andb].
    rewrite (hu16_id _) by lia.
    destruct (sx_sps_temporal_mvp_enabled_flag sp); reflexivity.
Qed.
