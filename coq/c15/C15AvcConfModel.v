(* C15AvcConfModel.v — executable Gallina model of avc/avcdecoderconfigurationrecord.go
   (CreateAVCDecConfRec, DecodeAVCDecConfRec, DecConfRec.Size / Encode / EncodeSW over a
   bits.FixedSliceWriter) and avc/mime.go (CodecString) of the pinned tree.  DEFINITIONS ONLY.
   Byte slices are lists of N (every element below 256 when it comes from Go). *)
From V.lib Require Import Base.
From V.c13 Require Import C13Spec C13Model.
From V.c15 Require Import C15Model.

(* avc.DecConfRec *)
Record confrec := mkConf {
  cr_profile : N; cr_compat : N; cr_level : N;          (* AVCProfileIndication, ProfileCompatibility, AVCLevelIndication *)
  cr_sps : list (list N); cr_pps : list (list N);       (* SPSnalus, PPSnalus *)
  cr_chroma : N; cr_bdl : N; cr_bdc : N;                (* ChromaFormat, BitDepthLumaMinus1, BitDepthChromaMinus1 (sic) *)
  cr_num_sps_ext : N; cr_no_trailing : bool }.          (* NumSPSExt, NoTrailingInfo *)

(* `case 66, 77, 88:` of the three switches *)
Definition no_trailer_profile (p : N) : bool := (p =? 66) || (p =? 77) || (p =? 88).

(* ---- CreateAVCDecConfRec(spsNalus, ppsNalus, includePS); parse = ParseSPSNALUnit(., false) *)
Definition create_confrec (parse : list N -> res sps) (spss ppss : list (list N)) (include_ps : bool)
  : res confrec :=
  match spss with
  | [] => Err                                            (* "no SPS NALU supported" *)
  | first :: _ =>
      match parse first with
      | Ok s =>
          if (3 <? sps_chroma_format_idc s) || (7 <? sps_bit_depth_luma_minus8 s)
             || (7 <? sps_bit_depth_chroma_minus8 s)
          then Err                                       (* fix 4c725fa: must fit the 2-/3-bit fields *)
          else Ok (mkConf (u8 (sps_profile s)) (u8 (sps_compat s)) (u8 (sps_level s))
                          (if include_ps then spss else []) (if include_ps then ppss else [])
                          (sps_chroma_format_idc s) (u8 (sps_bit_depth_luma_minus8 s))
                          (u8 (sps_bit_depth_chroma_minus8 s)) 0 false)
      | Err => Err | Panic => Panic | OutOfFuel => OutOfFuel
      end
  end.
Definition create_confrec_er := create_confrec (parse_sps_er false).
Definition create_confrec_br := create_confrec (parse_sps_br false).

(* ---- Size() *)
Definition nalus_size (l : list (list N)) : N := fold_left (fun acc n => acc + (2 + lenN n)) l 0.
Definition confrec_size (a : confrec) : N :=
  7 + nalus_size (cr_sps a) + nalus_size (cr_pps a)
  + (if no_trailer_profile (cr_profile a) then 0 else if cr_no_trailing a then 0 else 4).

(* ---- bits.FixedSliceWriter: buffer of fixed capacity, offset = bytes written, accumulated error.
   A write that does not fit sets the error and writes nothing; later writes are still attempted. *)
Record fsw := mkFsw { fw_out : list N; fw_cap : N; fw_err : bool }.
Definition fsw_new (cap : N) : fsw := mkFsw [] cap false.
Definition fsw_put (w : fsw) (bs : list N) : fsw :=
  if fw_cap w <? lenN (fw_out w) + lenN bs then mkFsw (fw_out w) (fw_cap w) true
  else mkFsw (fw_out w ++ bs) (fw_cap w) (fw_err w).
Definition fsw_u8 (w : fsw) (x : N) : fsw := fsw_put w [x].
Definition fsw_u16 (w : fsw) (x : N) : fsw := fsw_put w [x / 256; x mod 256].
Definition fsw_bytes (w : fsw) (bs : list N) : fsw := fsw_put w bs.

(* the loop `for _, nalu := range nalus { sw.WriteUint16(uint16(len(nalu))); sw.WriteBytes(nalu) }` *)
Definition encode_nalus (w : fsw) (l : list (list N)) : fsw :=
  fold_left (fun w n => fsw_bytes (fsw_u16 w (lenN n mod 65536)) n) l w.

(* ---- EncodeSW *)
Definition encode_sw (a : confrec) (w : fsw) : fsw :=
  let w := fsw_u8 w 1 in
  let w := fsw_u8 w (cr_profile a) in
  let w := fsw_u8 w (cr_compat a) in
  let w := fsw_u8 w (cr_level a) in
  let w := fsw_u8 w 255 in
  let w := fsw_u8 w (N.lor (u8 (lenN (cr_sps a))) 224) in
  let w := encode_nalus w (cr_sps a) in
  let w := fsw_u8 w (u8 (lenN (cr_pps a))) in
  let w := encode_nalus w (cr_pps a) in
  if no_trailer_profile (cr_profile a) then w
  else if cr_no_trailing a then w
  else
    let w := fsw_u8 w (N.lor 252 (cr_chroma a)) in
    let w := fsw_u8 w (N.lor 248 (cr_bdl a)) in
    let w := fsw_u8 w (N.lor 248 (cr_bdc a)) in
    fsw_u8 w (cr_num_sps_ext a).

(* ---- Encode(w): the bytes handed to w.Write, Err if EncodeSW returned the accumulated error *)
Definition encode_confrec (a : confrec) : res (list N) :=
  let w := encode_sw a (fsw_new (confrec_size a)) in
  if fw_err w then Err else Ok (fw_out w).

(* ---- DecodeAVCDecConfRec *)
Definition byte_at (data : list N) (i : N) : N := nth (N.to_nat i) data 0.
Definition slice (data : list N) (lo hi : N) : list N := firstn (N.to_nat (hi - lo)) (skipn (N.to_nat lo) data).

(* one of the two NALU loops; returns the NAL units and the new position *)
Fixpoint decode_nalus (cnt : nat) (data : list N) (pos : N) : res (list (list N) * N) :=
  match cnt with
  | O => Ok ([], pos)
  | S k =>
      if lenN data <? pos + 2 then Err                   (* "not enough data to read ... NALU length" *)
      else
        let len := 256 * byte_at data pos + byte_at data (pos + 1) in
        let pos := pos + 2 in
        if lenN data <? pos + len then Err               (* "not enough data to read ... NALU of length" *)
        else match decode_nalus k data (pos + len) with
             | Ok (t, p) => Ok (slice data pos (pos + len) :: t, p)
             | Err => Err | Panic => Panic | OutOfFuel => OutOfFuel
             end
  end.

Definition decode_confrec (data : list N) : res confrec :=
  if lenN data <? 6 then Err
  else if negb (byte_at data 0 =? 1) then Err            (* version unknown *)
  else
    let profile := byte_at data 1 in
    let compat := byte_at data 2 in
    let level := byte_at data 3 in
    if negb (N.land (byte_at data 4) 3 =? 3) then Err     (* ErrLengthSize *)
    else
      let num_sps := N.land (byte_at data 5) 31 in
      match decode_nalus (N.to_nat num_sps) data 6 with
      | Ok (spss, pos) =>
          if lenN data <=? pos then Err                  (* "not enough data to read number of PPS" *)
          else
            let num_pps := byte_at data pos in
            match decode_nalus (N.to_nat num_pps) data (pos + 1) with
            | Ok (ppss, pos) =>
                if no_trailer_profile profile
                then Ok (mkConf profile compat level spss ppss 0 0 0 0 false)
                else if pos =? lenN data
                then Ok (mkConf profile compat level spss ppss 0 0 0 0 true)
                else if lenN data <? pos + 4 then Err    (* "not enough data for trailing info" *)
                else
                  let ext := byte_at data (pos + 3) in
                  if negb (ext =? 0) then Err            (* ErrCannotParseAVCExtension *)
                  else Ok (mkConf profile compat level spss ppss
                                  (N.land (byte_at data pos) 3) (N.land (byte_at data (pos + 1)) 7)
                                  (N.land (byte_at data (pos + 2)) 7) ext false)
            | Err => Err | Panic => Panic | OutOfFuel => OutOfFuel
            end
      | Err => Err | Panic => Panic | OutOfFuel => OutOfFuel
      end.

(* ---- avc.CodecString: fmt.Sprintf("%s.%02X%02X%02X", sampleEntry, sps.Profile, sps.ProfileCompatibility, sps.Level) *)
Definition hex_digit_upper (d : N) : N := if d <? 10 then 48 + d else 55 + d.   (* '0'..'9', 'A'..'F' *)
(* the digits of x, most significant first (fuel 16 covers 64 bits) *)
Fixpoint hex_digits_rev (fuel : nat) (x : N) : list N :=
  match fuel with
  | O => []
  | S f => hex_digit_upper (x mod 16) :: (if x / 16 =? 0 then [] else hex_digits_rev f (x / 16))
  end.
(* %02X: at least two digits, padded with '0' *)
Definition fmt_02X (x : N) : list N :=
  let ds := rev (hex_digits_rev 16 x) in
  if lenN ds <? 2 then 48 :: ds else ds.

Definition codec_string (sample_entry : list N) (s : sps) : list N :=
  sample_entry ++ [46] ++ fmt_02X (sps_profile s) ++ fmt_02X (sps_compat s) ++ fmt_02X (sps_level s).

(* ---- flattening for the line protocol *)
Definition flat_bytes (l : list N) : list Z := flat_list (fun x => [zn x]) l.
Definition flat_confrec (a : confrec) : list Z :=
  [zn (cr_profile a); zn (cr_compat a); zn (cr_level a)]
  ++ flat_list flat_bytes (cr_sps a) ++ flat_list flat_bytes (cr_pps a)
  ++ [zn (cr_chroma a); zn (cr_bdl a); zn (cr_bdc a); zn (cr_num_sps_ext a); zb (cr_no_trailing a)].

(* ---- observables of one create -> encode -> decode -> codec-string run, as the harness flattens them *)
Definition conf_obs (parse : list N -> res sps) (spss ppss : list (list N)) (include_ps : bool)
           (entry : list N) : res (list Z) :=
  match create_confrec parse spss ppss include_ps with
  | Ok a =>
      Ok (flat_confrec a ++ [zn (confrec_size a)]
          ++ (match encode_confrec a with
              | Ok bs => 1%Z :: flat_bytes bs
                         ++ (match decode_confrec bs with Ok d => 1%Z :: flat_confrec d | _ => [0%Z] end)
              | _ => [0%Z]
              end)
          ++ (match spss with
              | first :: _ => match parse first with Ok s => flat_bytes (codec_string entry s) | _ => [] end
              | [] => []
              end))
  | Err => Err | Panic => Panic | OutOfFuel => OutOfFuel
  end.
Definition conf_obs_er := conf_obs (parse_sps_er false).

(* observables of DecodeAVCDecConfRec on arbitrary bytes: the record, its Size and its re-encoding *)
Definition decode_obs (data : list N) : res (list Z) :=
  match decode_confrec data with
  | Ok d => Ok (flat_confrec d ++ [zn (confrec_size d)]
                ++ (match encode_confrec d with Ok bs => 1%Z :: flat_bytes bs | _ => [0%Z] end))
  | Err => Err | Panic => Panic | OutOfFuel => OutOfFuel
  end.
