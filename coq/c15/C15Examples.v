(* C15Examples.v — concrete syntax values: hypotheses of the theorems are satisfiable, and the
   witnesses of the refutation theorems. *)
From V.lib Require Import Base.
From V.c13 Require Import C13Spec C13Model.
From V.c15 Require Import C15Model C15Spec.

Definition ex_hrd : hrd_syntax := mkHrdSyn 1 4 5 [(999, 2000, true); (3, 70000, false)] 23 23 23 24.

Definition ex_vui : vui_syntax :=
  mkVuiSyn true 255 40 33 true true true 5 true true 9 16 9 true 2 3 true 1001 60000 true
           true ex_hrd true ex_hrd true true true true 2 1 16 16 2 4.

(* High 4:2:2 profile, scaling lists, poc type 1 with zero offsets, interlaced, cropping, VUI + HRD *)
Definition ex_sps : sps_syntax :=
  mkSpsSyn 3 122 false true false true false false 41 5
           2 false 2 2 false true
           [Some [0; 3; -3; -8]%Z; None; Some [-8]%Z; None; None; None;
            Some [1; 1; 1; 1; -12]%Z; None]
           6 1 4 true 0%Z 0%Z [0; 0; 0]%Z
           4 true 119 33 false true true
           true 1 2 3 1
           true ex_vui.

(* the same with non-zero se(v) offsets: witness of the se-read-as-ue defect *)
Definition ex_sps_offsets : sps_syntax :=
  mkSpsSyn 3 66 true true false false false false 30 0
           1 false 0 0 false false []
           0 1 0 false 5%Z (-5)%Z [2]%Z
           1 false 19 14 true false true
           false 0 0 0 0
           false ex_vui.

Definition ex_sps_novui : sps_syntax :=
  mkSpsSyn 3 122 false true false true false false 41 5
           2 false 2 2 false true
           [Some [0; 3; -3; -8]%Z; None; Some [-8]%Z; None; None; None;
            Some [1; 1; 1; 1; -12]%Z; None]
           6 1 4 true 0%Z 0%Z [0; 0; 0]%Z
           4 true 119 33 false true true
           true 1 2 3 1
           false ex_vui.

(* FMO map type 6 with 5 map units, transform 8x8 with scaling lists for a 4:4:4 SPS *)
Definition ex_pps : pps_syntax :=
  mkPpsSyn 3 5 3 true true 2 6 [] [] false 0 [0; 2; 1; 1; 0]
           2 1 true 1 (-3)%Z 0%Z 2%Z true false true
           true true true
           [Some [0; 3; -3; -8]%Z; None; None; None; None; Some [-8]%Z;
            Some [1; -9]%Z; None; None; None; None; None]
           (-2)%Z.

(* ------------------------------------------------------------------ slice header *)
(* interlaced High-profile SPS with id 7, poc type 0 *)
Definition ex_sl_sps : sps_syntax :=
  mkSpsSyn 3 100 false false false false false false 40 7
           1 false 0 0 false false []
           3 0 5 false 0%Z 0%Z []
           4 false 19 14 false false true
           false 0 0 0 0
           false ex_vui.

(* PPS with id 2 referring to SPS 7: CABAC, bottom_field_pic_order, explicit weighted bi-prediction *)
Definition ex_sl_pps : pps_syntax :=
  mkPpsSyn 3 2 7 true true 0 0 [] [] false 0 []
           1 1 true 1 0%Z 0%Z 0%Z true false true
           false false false [] 0%Z.

(* non-IDR reference B slice (slice_type 6): override of the active reference counts, list
   modification for both lists, explicit prediction weights, adaptive marking with four operations *)
Definition ex_slice : slice_syntax :=
  mkSliceSyn 2 1 5 6 2 0 9 false false 0 33 (-3)%Z 0%Z 0%Z 1
             true true 2 1
             true [(0, 4); (2, 7)] true [(1, 0)]
             5 4
             [mkPwt (Some (1, -1)%Z) None; mkPwt None (Some (2, 3, -4, 5)%Z); mkPwt None None]
             [mkPwt (Some (-128, 127)%Z) (Some (0, 0, 0, 1)%Z); mkPwt None None]
             false false true [(1, 3, 0); (3, 2, 5); (4, 6, 0); (2, 9, 0)]
             1 (-4)%Z false 0%Z 0 2%Z (-1)%Z 0
             [true; false; true; true].

(* known finding F7: 20x15 macroblock picture, two slice groups, map type 3, change rate 1:
   slice_group_change_cycle has Ceil(Log2(300 + 1)) = 9 bits *)
Definition ex_fmo_sps : sps_syntax :=
  mkSpsSyn 3 66 true true false false false false 30 0
           1 false 0 0 false false []
           0 0 2 false 0%Z 0%Z []
           1 false 19 14 true false true
           false 0 0 0 0
           false ex_vui.
Definition ex_fmo_pps : pps_syntax :=
  mkPpsSyn 3 0 0 false false 1 3 [] [] true 0 []
           0 0 false 0 0%Z 0%Z 0%Z false false false
           false false false [] 0%Z.
Definition ex_fmo_slice : slice_syntax :=
  mkSliceSyn 3 5 0 7 0 0 0 false false 1 0 0%Z 0%Z 0%Z 0
             false false 0 0 false [] false [] 0 0 [] []
             false false false [] 0 2%Z false 0%Z 0 0%Z 0%Z 300
             [true; true; false].

