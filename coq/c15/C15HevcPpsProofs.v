(* C15HevcPpsProofs.v — hevc.ParsePPSNALUnit (model, ideal bit reader) applied to the NAL unit built
   by the independent serialiser of pic_parameter_set_rbsp (7.3.2.3, range and SCC extensions)
   returns the coded values. *)
From V.lib Require Import Base.
From V.c13 Require Import C13Spec C13Model.
From V.c15 Require Import C15Model C15Spec C15BitProofs C15AvcSpsProofs C15AvcPpsProofs
  C15HevcModel C15HevcSpec C15HevcBitProofs C15HevcSpsPtlProofs C15HevcSpsExtProofs.

Ltac ppeek tac := eapply parses_bind_peek; [ tac | cbv beta iota zeta ].
Ltac rpeek tac := eapply runs_bind_peek; [ tac | cbv beta iota zeta ].

(* ------------------------------------------------------------------ small tools *)
Lemma hu8_id x : x < 256 -> u8 x = x.
Proof. intros H. unfold u8. apply N.mod_small. exact H. Qed.
Lemma hu16_id x : x < 65536 -> u16 x = x.
Proof. intros H. unfold u16. apply N.mod_small. exact H. Qed.
Lemma hu32_id x : x < 4294967296 -> u32 x = x.
Proof. intros H. unfold u32. apply N.mod_small. exact H. Qed.
Lemma hu64_id x : x < 18446744073709551616 -> u64 x = x.
Proof. intros H. unfold u64. apply N.mod_small. exact H. Qed.

Lemma i8_id k : i8_ok k = true -> i8 k = k.
Proof. unfold i8_ok, i8. intros H. lia. Qed.

Lemma i8_zz (c : bool) k : i8_ok k = true -> i8 (if c then k else 0%Z) = (if c then k else 0%Z).
Proof. intros H. destruct c; [apply i8_id; exact H | reflexivity]. Qed.

Lemma if_pair {A B} (c : bool) (a a' : A) (b b' : B) :
  (if c then (a, b) else (a', b')) = (if c then a else a', if c then b else b').
Proof. destruct c; reflexivity. Qed.

Lemma parses_ue_list raw (l : list N) n pos :
  n = lenN l -> n <= loop_bound ->
  parses raw (rep_until_err_n BR n (rd_ue BR)) pos (flat_map ue_bits l) l.
Proof.
  intros Hn Hb.
  pose proof (parses_rep_until_err_n raw (rd_ue BR) ue_bits (fun x : N => x) l n pos Hn Hb) as P.
  rewrite map_id in P. apply P. intros. apply parses_ue.
Qed.

(* ------------------------------------------------------------------ pps_range_extension (7.3.2.3.2) *)
Lemma parses_hppsrange raw tskip x pos :
  1 <= lenN (sx_cb_cr_qp_offset_list x) -> lenN (sx_cb_cr_qp_offset_list x) <= 6 ->
  forallb (fun e => i8_ok (fst e) && i8_ok (snd e)) (sx_cb_cr_qp_offset_list x) = true ->
  parses raw (hparse_pps_range BR tskip) pos (ser_hppsrange tskip x) (expected_hppsrange tskip x).
Proof.
  intros H1 H6 Hl.
  unfold hparse_pps_range, ser_hppsrange, expected_hppsrange. cbv zeta.
  pbind ltac:(apply (parses_opt raw _ tskip _ (sx_log2_max_transform_skip_block_size_minus2 x) 0);
              intros _; apply parses_ue).
  pbind ltac:(apply parses_flag). pbind ltac:(apply parses_flag).
  destruct (sx_chroma_qp_offset_list_enabled_flag x); cbn [opt_bits].
  - eapply parses_bind.
    { pbind ltac:(apply parses_ue). pbind ltac:(apply parses_ue).
      plast ltac:(apply (parses_rep_until_err_n raw _ (fun e : Z * Z => se_bits (fst e) ++ se_bits (snd e))
                           (fun e : Z * Z => e) (sx_cb_cr_qp_offset_list x));
                  [lia | unfold loop_bound; lia |]).
      { intros e pos' Hin. rewrite forallb_forall in Hl. specialize (Hl e Hin).
        apply andb_prop in Hl. destruct Hl as [Ha Hb].
        pbind ltac:(apply parses_se). plast ltac:(apply parses_se).
        apply parses_ret_eq. rewrite (i8_id _ Ha), (i8_id _ Hb). destruct e; reflexivity. }
      apply parses_ret. }
    cbv beta iota zeta.
    pbind ltac:(apply parses_ue). plast ltac:(apply parses_ue).
    ppeek ltac:(apply parses_get_err).
    apply parses_ret_eq. rewrite map_id. reflexivity.
  - cbn [app]. apply parses_bind_ret. cbv beta iota zeta.
    pbind ltac:(apply parses_ue). plast ltac:(apply parses_ue).
    ppeek ltac:(apply parses_get_err).
    apply parses_ret.
Qed.

(* ------------------------------------------------------------------ pps_scc_extension (7.3.2.3.3) *)
Lemma parses_hppsscc raw x pos : hppsscc_valid x = true ->
  parses raw (hparse_pps_scc BR) pos (ser_hppsscc x) (expected_hppsscc x).
Proof.
  intros Hv. unfold hppsscc_valid in Hv. cbv zeta in Hv. split_all.
  unfold hparse_pps_scc, ser_hppsscc, expected_hppsscc. cbv zeta.
  pbind ltac:(apply parses_flag). pbind ltac:(apply parses_flag).
  eapply parses_bind.
  { apply (parses_opt raw _ (sx_residual_adaptive_colour_transform_enabled_flag x) _
             (sx_pps_slice_act_qp_offsets_present_flag x, sx_pps_act_y_qp_offset_plus5 x,
              sx_pps_act_cb_qp_offset_plus5 x, sx_pps_act_cr_qp_offset_plus3 x)
             (false, 0%Z, 0%Z, 0%Z)).
    intros _. pbind ltac:(apply parses_flag). pbind ltac:(apply parses_se). pbind ltac:(apply parses_se).
    plast ltac:(apply parses_se). apply parses_ret. }
  cbv beta. rewrite !if_pair.
  pbind ltac:(apply parses_flag).
  destruct (sx_pps_palette_predictor_initializers_present_flag x) eqn:Hpi; cbn [opt_bits andb] in *.
  2:{ cbn [app]. apply parses_bind_ret. cbv beta iota zeta.
      ppeek ltac:(apply parses_get_err).
      apply parses_ret_eq.
      destruct (sx_residual_adaptive_colour_transform_enabled_flag x); reflexivity. }
  destruct (sx_pps_palette_predictor_initializer x) as [|l rest] eqn:Hini.
  { cbn [hd tl lenN length] in *. change (0 <? N.of_nat 0) with false. cbn [opt_bits].
    rewrite app_nil_r.
    eapply parses_bind_nil.
    { plast ltac:(apply parses_ue). change (0 <? 0) with false. cbv iota. apply parses_ret. }
    cbv beta iota zeta.
    ppeek ltac:(apply parses_get_err).
    apply parses_ret_eq.
    destruct (sx_residual_adaptive_colour_transform_enabled_flag x); reflexivity. }
  cbn [hd tl] in *.
  destruct (0 <? lenN l) eqn:Hn; cbn [opt_bits andb] in *.
  2:{ rewrite app_nil_r.
      eapply parses_bind_nil.
      { plast ltac:(apply parses_ue). rewrite Hn. apply parses_ret. }
      cbv beta iota zeta.
      ppeek ltac:(apply parses_get_err).
      apply parses_ret_eq. assert (lenN l = 0) by lia.
      destruct (sx_residual_adaptive_colour_transform_enabled_flag x); reflexivity. }
  split_all. cbn [forallb] in *. split_all.
  set (lb := sx_luma_bit_depth_entry_minus8 x) in *.
  set (cb := sx_chroma_bit_depth_entry_minus8 x) in *.
  assert (El : u64 (lb + 8) = lb + 8) by (apply hu64_id; lia).
  assert (Ec : u64 (cb + 8) = cb + 8) by (apply hu64_id; lia).
  destruct (sx_monochrome_palette_flag x) eqn:Hm; cbn [negb opt_bits] in *.
  - destruct rest as [|c1 rest]; [|rewrite !lenN_cons in *; lia].
    cbn [flat_map]. rewrite !app_nil_r.
    eapply parses_bind_nil.
    { pbind ltac:(apply parses_ue). rewrite Hn.
      pbind ltac:(apply parses_flag). pbind ltac:(apply parses_ue).
      cbn [app]. apply parses_bind_ret. cbv beta iota zeta.
      replace ((8 <? lb) || (8 <? 0)) with false by lia.
      rewrite El.
      plast ltac:(apply (parses_palette_comp raw (lb + 8) l); [reflexivity | lia | assumption]).
      apply parses_bind_ret. apply parses_ret. }
    cbv beta iota zeta.
    ppeek ltac:(apply parses_get_err).
    apply parses_ret_eq.
    destruct (sx_residual_adaptive_colour_transform_enabled_flag x); reflexivity.
  - destruct rest as [|c1 [|c2 [|c3 rest]]]; try (rewrite ?lenN_cons, ?lenN_nil in *; lia).
    cbn [flat_map forallb] in *. split_all. rewrite !app_nil_r.
    eapply parses_bind_nil.
    { pbind ltac:(apply parses_ue). rewrite Hn.
      pbind ltac:(apply parses_flag). pbind ltac:(apply parses_ue).
      pbind ltac:(apply parses_ue).
      replace ((8 <? lb) || (8 <? cb)) with false by lia.
      rewrite El, Ec.
      pbind ltac:(apply (parses_palette_comp raw (lb + 8) l); [reflexivity | lia | assumption]).
      eapply parses_bind_nil; [|apply parses_ret].
      pbind ltac:(apply (parses_palette_comp raw (cb + 8) c1); [lia | lia | assumption]).
      plast ltac:(apply (parses_palette_comp raw (cb + 8) c2); [lia | lia | assumption]).
      apply parses_ret. }
    cbv beta iota zeta.
    ppeek ltac:(apply parses_get_err).
    apply parses_ret_eq.
    destruct (sx_residual_adaptive_colour_transform_enabled_flag x); reflexivity.
Qed.

(* ------------------------------------------------------------------ tiles, deblocking, extension flags *)
Lemma parses_hpps_tiles raw v pos : hpps_valid v = true ->
  let t := sx_tiles_enabled_flag v in
  let nu := t && negb (sx_uniform_spacing_flag v) in
  parses raw
    (if t then
       bind (rd_ue BR) (fun nc => bind (rd_ue BR) (fun nr => bind (rd_flag BR) (fun un =>
       bind (if negb un then
               bind (rep_until_err_n BR nc (rd_ue BR)) (fun ws =>
               bind (rep_until_err_n BR nr (rd_ue BR)) (fun hs => ret (ws, hs)))
             else ret ([], [])) (fun wh =>
       bind (rd_flag BR) (fun lft => ret (nc, nr, un, wh, lft))))))
     else ret (0, 0, false, ([], []), false))
    pos
    (opt_bits t
       (ue_bits (sx_num_tile_columns_minus1 v) ++ ue_bits (sx_num_tile_rows_minus1 v)
        ++ fl (sx_uniform_spacing_flag v)
        ++ opt_bits (negb (sx_uniform_spacing_flag v))
             (flat_map ue_bits (sx_column_width_minus1 v) ++ flat_map ue_bits (sx_row_height_minus1 v))
        ++ fl (sx_loop_filter_across_tiles_enabled_flag v)))
    ((if t then sx_num_tile_columns_minus1 v else 0), (if t then sx_num_tile_rows_minus1 v else 0),
     t && sx_uniform_spacing_flag v,
     ((if nu then sx_column_width_minus1 v else []), (if nu then sx_row_height_minus1 v else [])),
     t && sx_loop_filter_across_tiles_enabled_flag v).
Proof.
  intros Hv. cbv zeta. unfold hpps_valid in Hv. cbv zeta in Hv. split_all.
  destruct (sx_tiles_enabled_flag v); cbn [opt_bits andb]; [|apply parses_ret].
  pbind ltac:(apply parses_ue). pbind ltac:(apply parses_ue). pbind ltac:(apply parses_flag).
  destruct (sx_uniform_spacing_flag v); cbn [negb opt_bits app] in *.
  - apply parses_bind_ret. cbv beta.
    plast ltac:(apply parses_flag). apply parses_ret.
  - split_all.
    eapply parses_bind.
    { pbind ltac:(apply parses_ue_list; [lia | unfold loop_bound; lia]).
      plast ltac:(apply parses_ue_list; [lia | unfold loop_bound; lia]).
      apply parses_ret. }
    cbv beta.
    plast ltac:(apply parses_flag). apply parses_ret.
Qed.

Lemma parses_hpps_db raw v pos : hpps_valid v = true ->
  let dc := sx_deblocking_filter_control_present_flag v in
  let bt := dc && negb (sx_pps_deblocking_filter_disabled_flag v) in
  parses raw
    (if dc then
       bind (rd_flag BR) (fun ov => bind (rd_flag BR) (fun dis =>
       bind (if negb dis then bind (rd_se BR) (fun a => bind (rd_se BR) (fun b => ret (i8 a, i8 b)))
             else ret (0%Z, 0%Z)) (fun bt => ret (ov, dis, bt))))
     else ret (false, false, (0%Z, 0%Z)))
    pos
    (opt_bits dc
       (fl (sx_deblocking_filter_override_enabled_flag v) ++ fl (sx_pps_deblocking_filter_disabled_flag v)
        ++ opt_bits (negb (sx_pps_deblocking_filter_disabled_flag v))
             (se_bits (sx_pps_beta_offset_div2 v) ++ se_bits (sx_pps_tc_offset_div2 v))))
    (dc && sx_deblocking_filter_override_enabled_flag v, dc && sx_pps_deblocking_filter_disabled_flag v,
     ((if bt then sx_pps_beta_offset_div2 v else 0%Z), (if bt then sx_pps_tc_offset_div2 v else 0%Z))).
Proof.
  intros Hv. cbv zeta. unfold hpps_valid in Hv. cbv zeta in Hv. split_all.
  destruct (sx_deblocking_filter_control_present_flag v); cbn [opt_bits andb]; [|apply parses_ret].
  pbind ltac:(apply parses_flag). pbind ltac:(apply parses_flag).
  destruct (sx_pps_deblocking_filter_disabled_flag v); cbn [negb opt_bits].
  - apply parses_bind_ret. apply parses_ret.
  - eapply parses_bind_nil.
    { pbind ltac:(apply parses_se). plast ltac:(apply parses_se). apply parses_ret. }
    cbv beta. apply parses_ret_eq. rewrite !i8_id by assumption. reflexivity.
Qed.

Lemma parses_hpps_extflags raw v pos : sx_pps_extension_4bits v < 16 ->
  parses raw
    (if sx_pps_extension_present_flag v then
       bind (rd_flag BR) (fun a => bind (rd_flag BR) (fun b => bind (rd_flag BR) (fun c =>
       bind (rd_flag BR) (fun d => bind (rd BR 4) (fun e => ret (a, b, c, d, u8 e))))))
     else ret (false, false, false, false, 0))
    pos
    (opt_bits (sx_pps_extension_present_flag v)
       (fl (sx_pps_range_extension_flag v) ++ fl (sx_pps_multilayer_extension_flag v)
        ++ fl (sx_pps_3d_extension_flag v) ++ fl (sx_pps_scc_extension_flag v)
        ++ u 4 (sx_pps_extension_4bits v)))
    (hpps_ext_on v sx_pps_range_extension_flag, hpps_ext_on v sx_pps_multilayer_extension_flag,
     hpps_ext_on v sx_pps_3d_extension_flag, hpps_ext_on v sx_pps_scc_extension_flag, hpps_ext4 v).
Proof.
  intros H4. unfold hpps_ext_on, hpps_ext4.
  destruct (sx_pps_extension_present_flag v); cbn [opt_bits andb]; [|apply parses_ret].
  pbind ltac:(apply parses_flag). pbind ltac:(apply parses_flag). pbind ltac:(apply parses_flag).
  pbind ltac:(apply parses_flag). plast ltac:(apply parses_rd; lia).
  apply parses_ret_eq. rewrite hu8_id by lia. reflexivity.
Qed.

(* ------------------------------------------------------------------ the NAL unit *)
Lemma hevc_pps spsmap v :
  hpps_valid v = true -> spsmap (sx_pps_seq_parameter_set_id v) = true ->
  hparse_pps_br spsmap (hnalu_pps v) = Ok (expected_hpps v).
Proof.
  intros Hv Hmap.
  pose proof (parses_hpps_tiles (hraw_pps v) v) as Ptiles. cbv zeta in Ptiles.
  specialize (fun pos => Ptiles pos Hv).
  pose proof (parses_hpps_db (hraw_pps v) v) as Pdb. cbv zeta in Pdb.
  specialize (fun pos => Pdb pos Hv).
  unfold hpps_valid in Hv. cbv zeta in Hv. split_all.
  destruct (hnal_header_u16 34 (sx_pps_nuh_layer_id v) (sx_pps_nuh_temporal_id_plus1 v))
    as (Hh & Hlt & Hty); [lia | lia | lia |].
  unfold hparse_pps_br, hnalu_pps. rewrite binit_hnalu. fold (hraw_pps v).
  set (raw := hraw_pps v) in *.
  set (n := lenN (hnal_header 34 (sx_pps_nuh_layer_id v) (sx_pps_nuh_temporal_id_plus1 v) ++ ser_hpps v)).
  rewrite app_assoc.
  change (runs_to raw (hparse_pps BR spsmap) 0
            (hnal_header 34 (sx_pps_nuh_layer_id v) (sx_pps_nuh_temporal_id_plus1 v) ++ ser_hpps v)
            (trailing_bits n) (expected_hpps v)).
  rewrite Hh. unfold hparse_pps, ser_hpps.
  rbind ltac:(apply parses_rd; exact Hlt).
  rewrite Hty. change (negb (34 =? 34)) with false. cbv iota.
  rbind ltac:(apply parses_ue). rbind ltac:(apply parses_ue).
  rewrite (hu32_id (sx_pps_seq_parameter_set_id v)) by lia. rewrite Hmap. cbn [negb]. cbv iota.
  rbind ltac:(apply parses_flag). rbind ltac:(apply parses_flag).
  rbind ltac:(apply parses_rd; change (2 ^ 3) with 8; lia).
  rbind ltac:(apply parses_flag). rbind ltac:(apply parses_flag).
  rbind ltac:(apply parses_ue). rbind ltac:(apply parses_ue).
  rbind ltac:(apply parses_se).
  rbind ltac:(apply parses_flag). rbind ltac:(apply parses_flag). rbind ltac:(apply parses_flag).
  rbind ltac:(apply (parses_opt raw _ (sx_cu_qp_delta_enabled_flag v) _ (sx_diff_cu_qp_delta_depth v) 0);
              intros _; apply parses_ue).
  rbind ltac:(apply parses_se). rbind ltac:(apply parses_se).
  rbind ltac:(apply parses_flag). rbind ltac:(apply parses_flag). rbind ltac:(apply parses_flag).
  rbind ltac:(apply parses_flag). rbind ltac:(apply parses_flag). rbind ltac:(apply parses_flag).
  rbind ltac:(apply Ptiles).
  rbind ltac:(apply parses_flag). rbind ltac:(apply parses_flag).
  rbind ltac:(apply Pdb).
  rbind ltac:(apply parses_flag).
  rbind ltac:(apply (parses_opt raw _ (sx_pps_scaling_list_data_present_flag v) _ tt tt);
              intros Hs; apply parses_hskip_sl;
              match goal with H : (if sx_pps_scaling_list_data_present_flag v then _ else true) = true |- _ =>
                rewrite Hs in H; exact H end).
  rbind ltac:(apply parses_flag). rbind ltac:(apply parses_ue).
  rbind ltac:(apply parses_flag). rbind ltac:(apply parses_flag).
  rbind ltac:(apply parses_hpps_extflags; lia).
  rpeek ltac:(apply parses_get_err).
  rbind ltac:(apply parses_opt_some; intros _; apply parses_hppsrange; [lia | lia | assumption]).
  match goal with H : negb (hpps_ext_on v sx_pps_multilayer_extension_flag) = true |- _ =>
    apply Bool.negb_true_iff in H; rewrite H end.
  match goal with H : negb (hpps_ext_on v sx_pps_3d_extension_flag) = true |- _ =>
    apply Bool.negb_true_iff in H; rewrite H end.
  cbn [orb]. cbv iota.
  rbind ltac:(apply parses_opt_some; intros _; apply parses_hppsscc; assumption).
  eapply runs_bind_t.
  { instantiate (1 := if 0 <? hpps_ext4 v then sx_pps_extension_data_flags v else []).
    destruct (0 <? hpps_ext4 v); cbn [opt_bits].
    - apply (hext_data_loop_ok raw n (sx_pps_extension_data_flags v) ext_fuel [] _).
      unfold ext_fuel, lenN in *. lia.
    - apply parses_t_ret. }
  rewrite hparse_end_ok. f_equal.
  unfold expected_hpps. cbv zeta.
  rewrite (hu32_id (sx_pps_pic_parameter_set_id v)) by lia.
  rewrite (hu8_id (sx_num_extra_slice_header_bits v)) by lia.
  rewrite (hu8_id (sx_num_ref_idx_l0_default_active_minus1 v)) by lia.
  rewrite (hu8_id (sx_num_ref_idx_l1_default_active_minus1 v)) by lia.
  rewrite !i8_id by assumption.
  reflexivity.
Qed.
