(* C15Avc2Model.v — avc.ParseSliceHeader, repaired text (fix commit 174cc8e, finding C15-F7): the width of
   slice_group_change_cycle is Ceil(Log2(PicSizeInMapUnits ÷ SliceGroupChangeRate + 1)) with
   PicSizeInMapUnits recomputed from the SPS (SPS.picSizeInMapUnits).  parse_slice_header2 is the text of
   C15Model.parse_slice_header with that one step replaced; C15Model.parse_slice_header (the text before
   the fix) is kept unchanged for the properties that import it.  DEFINITIONS ONLY. *)
From V.lib Require Import Base.
From V.c13 Require Import C13Spec C13Model.
From V.c15 Require Import C15Model.

(* func (s *SPS) picSizeInMapUnits() uint: Go uint arithmetic (64 bit) *)
Definition sps_pic_size_in_map_units (s : sps) : N :=
  let fmo := if sps_frame_mbs_only s then 1 else 0 in
  let wh :=
    if sps_frame_cropping s then
      let cu := if sps_chroma_format_idc s =? 0 then (1, 2 - fmo)
                else if sps_chroma_format_idc s =? 1 then (2, 2 * (2 - fmo))
                else if sps_chroma_format_idc s =? 2 then (2, 1 * (2 - fmo))
                else (1, 1 * (2 - fmo)) in
      (u64 (sps_width s + u64 (u64 (sps_crop_left s + sps_crop_right s) * fst cu)),
       u64 (sps_height s + u64 (u64 (sps_crop_top s + sps_crop_bottom s) * snd cu)))
    else (sps_width s, sps_height s) in
  u64 ((fst wh / 16) * (snd wh / (16 * (2 - fmo)))).

Section Parsers2.
  Context {St : Type} (R : reader St).
  Local Notation M := (@M St).
  Local Notation "x <- m ;; k" := (bind m (fun x => k))
    (at level 61, m at next level, right associativity).
  Local Notation rd := (rd R). Local Notation rd_flag := (rd_flag R). Local Notation rd_ue := (rd_ue R).
  Local Notation rd_se := (rd_se R). Local Notation get_nbytes := (get_nbytes R).
  Local Notation rplm_loop := (rplm_loop R). Local Notation mmco_loop := (mmco_loop R).
  Local Notation pwt_entry := (pwt_entry R). Local Notation rep_break_n := (rep_break_n R).

  Definition parse_slice_header2 (spsmap : N -> option sps) (ppsmap : N -> option pps) : M slice_hdr :=
    hdr <- rd 8 ;;
    let nalu_type := N.land (u8 hdr) 31 in
    if negb ((nalu_type =? 1) || (nalu_type =? 2) || (nalu_type =? 5) || (nalu_type =? 19)) then fail else
    let nal_ref_idc := N.land (N.shiftr hdr 5) 3 in
    first_mb <- rd_ue ;;
    slice_type <- rd_ue ;;
    pps_id <- rd_ue ;;
    match ppsmap (u32 pps_id) with
    | None => fail
    | Some pp =>
    let sps_id := pps_sps_id pp in
    match spsmap sps_id with
    | None => fail
    | Some sp =>
    cpl <- (if sps_separate_colour_plane sp then rd 2 else ret 0) ;;
    frame_num <- rd (sps_log2_max_frame_num_minus4 sp + 4) ;;
    fld <- (if negb (sps_frame_mbs_only sp)
            then f <- rd_flag ;; b <- (if f then rd_flag else ret false) ;; ret (f, b)
            else ret (false, false)) ;;
    let '(field_pic, bottom) := fld in
    idr <- (if nalu_type =? 5 then rd_ue else ret 0) ;;
    poc <- (if sps_pic_order_cnt_type sp =? 0 then
              lsb <- rd (sps_log2_max_pic_order_cnt_lsb_minus4 sp + 4) ;;
              d <- (if pps_bottom_field_pic_order pp && negb field_pic then rd_se else ret 0%Z) ;;
              ret (lsb, d, 0%Z, 0%Z)
            else if (sps_pic_order_cnt_type sp =? 1) && negb (sps_delta_pic_order_always_zero sp) then
              d0 <- rd_se ;;
              d1 <- (if pps_bottom_field_pic_order pp && negb field_pic then rd_se else ret 0%Z) ;;
              ret (0, 0%Z, d0, d1)
            else ret (0, 0%Z, 0%Z, 0%Z)) ;;
    let '(lsb, dbot, d0, d1) := poc in
    red <- (if pps_redundant_pic_cnt_present pp then rd_ue else ret 0) ;;
    let st := slice_type mod 5 in
    let isP := st =? 0 in let isB := st =? 1 in let isI := st =? 2 in
    let isSP := st =? 3 in let isSI := st =? 4 in
    direct <- (if isB then rd_flag else ret false) ;;
    nri <- (if isP || isSP || isB then
              ov <- rd_flag ;;
              if ov then
                l0 <- rd_ue ;;
                l1 <- (if isB then rd_ue else ret 0) ;;
                ret (ov, u32 l0, u32 l1)
              else ret (ov, u32 (pps_num_ref_idx_l0_default_active_minus1 pp),
                        u32 (pps_num_ref_idx_l1_default_active_minus1 pp))
            else ret (false, 0, 0)) ;;
    let '(ov, l0, l1) := nri in
    m0 <- (if negb isI && negb isSI then
             f <- rd_flag ;;
             stt <- (if f then rplm_loop loop_fuel (0, 0, 0, 0) else ret (0, 0, 0, 0)) ;;
             ret (f, stt)
           else ret (false, (0, 0, 0, 0))) ;;
    let '(rplm0, st0) := m0 in
    m1 <- (if isB then
             f <- rd_flag ;;
             stt <- (if f then rplm_loop loop_fuel st0 else ret st0) ;;
             ret (f, stt)
           else ret (false, st0)) ;;
    let '(rplm1, st1) := m1 in
    let '(idc, absdiff, ltpn0, absview) := st1 in
    let cat_nz := negb (sps_chroma_array_type sp =? 0) in
    pw <- (if (pps_weighted_pred pp && (isP || isSP)) || ((pps_weighted_bipred_idc pp =? 1) && isB) then
             ld <- rd_ue ;;
             cd <- (if cat_nz then rd_ue else ret 0) ;;
             x0 <- rep_break_n (l0 + 1) (pwt_entry cat_nz) ;;
             x1 <- (if isB then rep_break_n (l1 + 1) (pwt_entry cat_nz) else ret []) ;;
             ret (u32 ld, u32 cd)
           else ret (0, 0)) ;;
    let '(luma_denom, chroma_denom) := pw in
    mk <- (if negb (nal_ref_idc =? 0) then
             if nalu_type =? 5 then
               a <- rd_flag ;; b <- rd_flag ;; ret (a, b, false, (0, ltpn0, 0, 0))
             else
               ad <- rd_flag ;;
               stt <- (if ad then mmco_loop loop_fuel (0, ltpn0, 0, 0) else ret (0, ltpn0, 0, 0)) ;;
               ret (false, false, ad, stt)
           else ret (false, false, false, (0, ltpn0, 0, 0))) ;;
    let '(no_out, lt_ref, adaptive, (diffpn, ltpn, ltfi, maxlt)) := mk in
    cabac <- (if pps_entropy_coding_mode pp && negb isI && negb isSI then rd_ue else ret 0) ;;
    qpd <- rd_se ;;
    qs <- (if isSP || isSI then
             sw <- (if isSP then rd_flag else ret false) ;;
             d <- rd_se ;; ret (sw, d)
           else ret (false, 0%Z)) ;;
    let '(sp_switch, qsd) := qs in
    db <- (if pps_deblocking_filter_control_present pp then
             idc <- rd_ue ;;
             if negb (u32 idc =? 1) then a <- rd_se ;; b <- rd_se ;; ret (u32 idc, a, b)
             else ret (u32 idc, 0%Z, 0%Z)
           else ret (0, 0%Z, 0%Z)) ;;
    let '(ddf, alpha, beta) := db in
    sgcc <- (if (0 <? pps_num_slice_groups_minus1 pp) && (3 <=? pps_slice_group_map_type pp)
                && (pps_slice_group_map_type pp <=? 5) then
               let size := sps_pic_size_in_map_units sp in
               let rate := u64 (pps_slice_group_change_rate_minus1 pp + 1) in
               if rate =? 0 then fail                    (* guard ecb7975 *)
               else
                 let quot := u64 (size / rate + (if size mod rate =? 0 then 0 else 1)) in
                 rd (ceil_log2 (u64 (quot + 1)))         (* bits.CeilLog2(quot + 1) *)
             else ret 0) ;;
    nb <- get_nbytes ;;
    ret (mkSh slice_type (u32 first_mb) (u32 pps_id) sps_id (u32 cpl) (u32 frame_num) (u32 idr) (u32 lsb)
              (i32 dbot) (i32 d0) (i32 d1) (u32 red) l0 l1 idc absdiff ltpn absview luma_denom chroma_denom
              diffpn ltfi maxlt (u32 cabac) (i32 qpd) (i32 qsd) ddf (i32 alpha) (i32 beta)
              (u32 sgcc) (u32 nb) field_pic bottom direct ov rplm0 rplm1 no_out lt_ref sp_switch adaptive)
    end end.

End Parsers2.

Definition parse_slice2_er spsmap ppsmap (nalu : list N) : res slice_hdr :=
  run (parse_slice_header2 ER spsmap ppsmap) (rinit nalu).
Definition parse_slice2_br spsmap ppsmap (nalu : list N) : res slice_hdr :=
  run (parse_slice_header2 BR spsmap ppsmap) (binit nalu).
