(* C15TieRelProofs.v — a relational program logic over the parser monad of C15Model: the same
   parser text instantiated with ER (C13 machine model of bits.EBSPReader) and with BR (ideal
   bit-list reader) computes related outcomes from related reader states.
     MRel st st' m1 m2 : from states related by Sim st, m1 (over ER) and m2 (over BR) end in the same
                         outcome class, with EQUAL values and states related by Sim st'.
   st = true is the strong relation (NrBytesRead agrees also after a failed read), st = false the weak
   one (the only one that survives SetError).  Closed under sequencing, branching on values already
   read, counted loops.  The tactic `tie` walks two instances of one parser text.  No axioms. *)
From V.lib Require Import Base.
From V.c13 Require Import C13Spec C13Model C13Bits C13ReaderProofs.
From V.c15 Require Import C15Model C15TieBaseProofs.

Lemma ceil_log2_from_le fuel : forall i n, i + N.of_nat fuel <= 32 -> ceil_log2_from fuel i n <= 32.
Proof.
  induction fuel as [|f IH]; intros i n H; cbn [ceil_log2_from]; [lia|].
  destruct (n <=? 2 ^ i); [lia|]. apply IH. lia.
Qed.
Lemma ceil_log2_le32 n : ceil_log2 n <= 32.
Proof. unfold ceil_log2. apply ceil_log2_from_le. cbn. lia. Qed.

Section Rel.
  Variable raw : list N.
  Hypothesis raw_ok : Forall lt256 raw.
  Local Notation Sim := (Sim raw).

  Definition ORel {A} (st : bool) (r1 : res (A * rstate)) (r2 : res (A * bstate)) : Prop :=
    match r1, r2 with
    | Ok (a1, s1), Ok (a2, b2) => a1 = a2 /\ Sim st s1 b2
    | Err, Err => True
    | Panic, Panic => True
    | OutOfFuel, OutOfFuel => True
    | _, _ => False
    end.

  Definition MRel {A} (st st' : bool) (m1 : rstate -> res (A * rstate)) (m2 : bstate -> res (A * bstate)) : Prop :=
    forall s b, Sim st s b -> ORel st' (m1 s) (m2 b).

  Lemma MRel_ret {A} st (a : A) : MRel st st (ret a) (ret a).
  Proof. intros s b H. cbn. split; [reflexivity|exact H]. Qed.

  Lemma MRel_fail {A} st st' : @MRel A st st' fail fail.
  Proof. intros s b H. exact I. Qed.

  Lemma MRel_oof {A} st st' : @MRel A st st' out_of_fuel out_of_fuel.
  Proof. intros s b H. exact I. Qed.

  Lemma MRel_panic {A} st st' : @MRel A st st' (fun _ => Panic) (fun _ => Panic).
  Proof. intros s b H. exact I. Qed.

  Lemma MRel_bind {A B} st st1 st2 (m1 : rstate -> res (A * rstate)) m2 (k1 : A -> rstate -> res (B * rstate)) k2 :
    MRel st st1 m1 m2 -> (forall a, MRel st1 st2 (k1 a) (k2 a)) -> MRel st st2 (bind m1 k1) (bind m2 k2).
  Proof.
    intros Hm Hk s b H. specialize (Hm s b H). unfold bind, ORel in *.
    destruct (m1 s) as [[a1 s1]| | |], (m2 b) as [[a2 b2]| | |]; try contradiction; try exact I.
    destruct Hm as [-> H1]. apply (Hk a2 s1 b2 H1).
  Qed.

  Lemma MRel_weaken_pre {A} st st' (m1 : rstate -> res (A * rstate)) m2 : MRel false st' m1 m2 -> MRel st st' m1 m2.
  Proof. intros Hm s b H. apply Hm. apply (Sim_weaken raw st). exact H. Qed.

  Lemma MRel_weaken_post {A} st st' (m1 : rstate -> res (A * rstate)) m2 : MRel st st' m1 m2 -> MRel st false m1 m2.
  Proof.
    intros Hm s b H. specialize (Hm s b H). unfold ORel in *.
    destruct (m1 s) as [[a1 s1]| | |], (m2 b) as [[a2 b2]| | |]; try contradiction; try exact I.
    destruct Hm as [-> H1]. split; [reflexivity|]. apply (Sim_weaken raw st'). exact H1.
  Qed.

  (* ---- the reader operations *)
  Lemma MRel_rd st n : n <= 56 -> MRel st st (rd ER n) (rd BR n).
  Proof.
    intros Hn s b H. unfold rd. cbn [r_read ER BR ORel].
    pose proof (read_sim raw st s b n Hn H) as [E S1].
    destruct (read s n) as [v s1], (br_read b n) as [v' b1]. cbn [fst snd] in *. split; assumption.
  Qed.

  Lemma MRel_flag st : MRel st st (rd_flag ER) (rd_flag BR).
  Proof.
    intros s b H. unfold rd_flag. cbn [r_flag ER BR ORel].
    pose proof (flag_sim raw st s b H) as [E S1].
    destruct (read_flag s) as [v s1], (br_flag b) as [v' b1]. cbn [fst snd] in *. split; assumption.
  Qed.

  Lemma MRel_ue st : MRel st st (rd_ue ER) (rd_ue BR).
  Proof.
    intros s b H. unfold rd_ue. cbn [r_ue ER BR ORel].
    pose proof (ue_sim raw st s b H) as [E S1].
    destruct (read_ue s) as [v s1], (br_ue b) as [v' b1]. cbn [fst snd] in *. split; assumption.
  Qed.

  Lemma MRel_se st : MRel st st (rd_se ER) (rd_se BR).
  Proof.
    intros s b H. unfold rd_se. cbn [r_se ER BR ORel].
    pose proof (se_sim raw st s b H) as [E S1].
    destruct (read_se s) as [v s1], (br_se b) as [v' b1]. cbn [fst snd] in *. split; assumption.
  Qed.

  Lemma MRel_get_err st : MRel st st (get_err ER) (get_err BR).
  Proof. intros s b H. unfold get_err. cbn [r_err ER BR ORel]. split; [apply (Sim_err raw st); exact H|exact H]. Qed.

  Lemma MRel_set_err st : MRel st false (set_err ER) (set_err BR).
  Proof. intros s b H. unfold set_err. cbn [r_seterr ER BR ORel]. split; [reflexivity|]. apply (seterr_sim raw st). exact H. Qed.

  Lemma MRel_nbytes : MRel true true (get_nbytes ER) (get_nbytes BR).
  Proof. intros s b H. unfold get_nbytes. cbn [r_nbytes ER BR ORel]. split; [apply (nbytes_sim raw); exact H|exact H]. Qed.

  Lemma MRel_more st : MRel st st (rd_more ER) (rd_more BR).
  Proof.
    intros s b H. unfold rd_more. cbn [r_more ER BR ORel].
    pose proof (more_sim raw st s b H) as [E S1].
    destruct (er_more s) as [v s1], (br_more b) as [v' b1]. cbn [fst snd] in *. split; assumption.
  Qed.

  (* `tr <- ReadRbspTrailingBits ;; if tr then fail else k`: every caller gives up on tr = true *)
  Lemma MRel_trailing {A} st st' (k1 : rstate -> res (A * rstate)) k2 :
    MRel st st' k1 k2 ->
    MRel st st' (bind (rd_trailing ER) (fun tr => if tr then fail else k1))
                (bind (rd_trailing BR) (fun tr => if tr then fail else k2)).
  Proof.
    intros Hk s b H. unfold bind, rd_trailing. cbn [r_trailing ER BR].
    pose proof (trailing_sim raw st s b H) as [E S1].
    destruct (er_trailing s) as [v s1], (br_trailing b) as [v' b1]. cbn [fst snd] in *. subst v'.
    destruct v; [exact I|]. apply Hk. apply S1. reflexivity.
  Qed.

  (* ---- loops of C15Model *)
  Lemma MRel_rep {A} st (b1 : rstate -> res (A * rstate)) b2 : MRel st st b1 b2 ->
    forall n, MRel st st (rep n b1) (rep n b2).
  Proof.
    intros Hb n. induction n as [|n IH]; cbn [rep]; [apply MRel_ret|].
    eapply MRel_bind; [exact Hb|]. intros x. eapply MRel_bind; [exact IH|]. intros t. apply MRel_ret.
  Qed.

  Lemma MRel_rep_n {A} st n (b1 : rstate -> res (A * rstate)) b2 : MRel st st b1 b2 ->
    MRel st st (rep_n n b1) (rep_n n b2).
  Proof. intros Hb. unfold rep_n. destruct (n <=? loop_bound); [apply MRel_rep; exact Hb|apply MRel_oof]. Qed.

  Lemma MRel_rep_break {A} st (b1 : rstate -> res (A * rstate)) b2 : MRel st st b1 b2 ->
    forall n, MRel st st (rep_break ER n b1) (rep_break BR n b2).
  Proof.
    intros Hb n. induction n as [|n IH]; cbn [rep_break]; [apply MRel_ret|].
    eapply MRel_bind; [apply MRel_get_err|]. intros e. destruct e; [apply MRel_ret|].
    eapply MRel_bind; [exact Hb|]. intros x. eapply MRel_bind; [exact IH|]. intros t. apply MRel_ret.
  Qed.

  Lemma MRel_rep_break_n {A} st n (b1 : rstate -> res (A * rstate)) b2 : MRel st st b1 b2 ->
    MRel st st (rep_break_n ER n b1) (rep_break_n BR n b2).
  Proof. intros Hb. unfold rep_break_n. destruct (n <=? loop_bound); [apply MRel_rep_break; exact Hb|apply MRel_oof]. Qed.

  (* the whole parse: equal results *)
  Lemma MRel_run {A} st st' (m1 : rstate -> res (A * rstate)) m2 :
    MRel st st' m1 m2 -> zrun_ok raw = true -> run m1 (rinit (escape raw)) = run m2 (binit (escape raw)).
  Proof.
    intros Hm Hz. specialize (Hm _ _ (Sim_init raw raw_ok st Hz)). unfold run, ORel in *.
    destruct (m1 _) as [[a1 s1]| | |], (m2 _) as [[a2 b2]| | |]; try contradiction; try reflexivity.
    destruct Hm as [-> _]. reflexivity.
  Qed.
End Rel.

(* ------------------------------------------------------------------ the walk *)
Ltac tie_width := first [ lia | (eapply N.le_trans; [apply ceil_log2_le32|lia]) ].

(* extension points: sub-parsers already related; width side conditions *)
Ltac tie_sub := fail.
Ltac tie_rd_side := tie_width.

Ltac tie_step :=
  first
    [ apply MRel_ret | apply MRel_fail | apply MRel_oof | apply MRel_panic
    | (apply MRel_flag; assumption) | (apply MRel_ue; assumption) | (apply MRel_se; assumption)
    | apply MRel_get_err | (apply MRel_more; assumption)
    | apply MRel_nbytes | apply MRel_set_err
    | (apply MRel_rd; first [assumption|solve [tie_rd_side]])
    | tie_sub
    | match goal with H : context [MRel] |- _ => apply H end
    | (eapply MRel_trailing)
    | (apply MRel_rep_n) | (apply MRel_rep_break_n)
    | lazymatch goal with |- MRel ?r ?st _ (bind _ _) (bind _ _) => eapply (MRel_bind r st st); [|intros ?] end
    | lazymatch goal with
      | |- MRel _ _ _ (if ?c then _ else _) (if ?c then _ else _) => destruct c eqn:?
      | |- MRel _ _ _ (match ?x with _ => _ end) (match ?x with _ => _ end) => destruct x eqn:?
      end
    | progress (cbv beta zeta) ].
Ltac tie := repeat tie_step.
