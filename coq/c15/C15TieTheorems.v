(* C15TieTheorems.v — the reader ties of C15 and the parse theorems for the reader the Go code uses.
   parse_X_er = the parser model over the C13 machine model of bits.EBSPReader (64-bit accumulator over
   the ESCAPED bytes, emulation prevention removed on the fly, NrBytesRead = position in the escaped
   stream); parse_X_br = the same parser text over the ideal bit-list reader (the instance the C15_*
   theorems are proved for).  zrun_ok raw: the unescaped bytes hold no run of more than 56 zero bits
   (the Exp-Golomb prefixes the 64-bit machine reads exactly). *)
From V.lib Require Import Base.
From V.c13 Require Import C13Spec C13Model.
From V.c15 Require Import C15Model C15Spec C15Examples C15HevcModel C15HevcSpec C15HevcExamples C15HevcSliceExamples
  C15TieBaseProofs C15TieAvcProofs C15TieHevcProofs C15TieHevcSpsProofs C15TieMainProofs.

(* for EVERY byte string raw (an unescaped NAL unit: header + RBSP, well formed or not), escaped by the
   emulation-prevention rule: the two instances return the same result (value, Err, or OutOfFuel) *)
Theorem C15_reader_tie_avc_sps : forall raw beyond,
  bytes_ok raw = true -> zrun_ok raw = true ->
  parse_sps_er beyond (escape raw) = parse_sps_br beyond (escape raw).
Proof. exact tie_avc_sps. Qed.
Print Assumptions C15_reader_tie_avc_sps.

Theorem C15_reader_tie_avc_pps : forall raw spsmap,
  bytes_ok raw = true -> zrun_ok raw = true ->
  parse_pps_er spsmap (escape raw) = parse_pps_br spsmap (escape raw).
Proof. exact tie_avc_pps. Qed.
Print Assumptions C15_reader_tie_avc_pps.

(* sps_narrow / pps_narrow: the widths the slice parser derives from the parameter sets it is given
   fit the accumulator (log2_max_* <= 12, pic_size_in_map_units_minus1 < 2^32: true of every
   parameter set the parsers return for a NAL unit inside the standard's value ranges) *)
Theorem C15_reader_tie_avc_slice : forall raw spsmap ppsmap,
  bytes_ok raw = true -> zrun_ok raw = true ->
  (forall id s, spsmap id = Some s -> sps_narrow s = true) ->
  (forall id p, ppsmap id = Some p -> pps_narrow p = true) ->
  parse_slice_er spsmap ppsmap (escape raw) = parse_slice_br spsmap ppsmap (escape raw).
Proof. exact tie_avc_slice. Qed.
Print Assumptions C15_reader_tie_avc_slice.

Theorem C15_reader_tie_hevc_pps : forall raw spsmap,
  bytes_ok raw = true -> zrun_ok raw = true ->
  hparse_pps_er spsmap (escape raw) = hparse_pps_br spsmap (escape raw).
Proof. exact tie_hevc_pps. Qed.
Print Assumptions C15_reader_tie_hevc_pps.

(* hsps_narrow: log2_max_pic_order_cnt_lsb_minus4 of every SPS in the map is at most 52 (standard: 12) *)
Theorem C15_reader_tie_hevc_slice : forall raw spsmap ppsmap,
  bytes_ok raw = true -> zrun_ok raw = true ->
  (forall id s, spsmap id = Some s -> hsps_narrow s = true) ->
  hparse_slice_er spsmap ppsmap (escape raw) = hparse_slice_br spsmap ppsmap (escape raw).
Proof. exact tie_hevc_slice. Qed.
Print Assumptions C15_reader_tie_hevc_slice.

(* HEVC SPS: the Go parser reads palette predictor initialisers with BitDepth bits and
   lt_ref_pic_poc_lsb_sps with log2_max_pic_order_cnt_lsb bits, both taken from the stream without a
   range check (up to 263 bits); the machine reads up to 56 bits exactly.  Whenever the ideal-reader
   instance returns an SPS with bit depths (minus 8) <= 48 and log2_max_poc_lsb_minus4 <= 52 (standard:
   8 and 12), the EBSP-reader instance returns the same SPS. *)
Theorem C15_reader_tie_hevc_sps : forall raw s,
  bytes_ok raw = true -> zrun_ok raw = true ->
  hparse_sps_br (escape raw) = Ok s -> hsps_depths_ok s = true ->
  hparse_sps_er (escape raw) = Ok s.
Proof. exact tie_hevc_sps. Qed.
Print Assumptions C15_reader_tie_hevc_sps.

(* a byte string with two emulation-prevention bytes to insert and a 40-bit zero run *)
Example C15_reader_tie_hyps :
  let raw := [104; 0; 0; 1; 0; 0; 0; 0; 0; 2; 200; 128] in
  bytes_ok raw = true /\ zrun_ok raw = true
  /\ escape raw = [104; 0; 0; 3; 1; 0; 0; 3; 0; 0; 3; 0; 2; 200; 128]
  /\ zrun_ok [104; 0; 0; 0; 0; 0; 0; 0; 0; 128] = false.
Proof. vm_compute. repeat split; reflexivity. Qed.

(* the C15 parse theorems for the EBSP-reader instance, on the serialiser's bytes after emulation prevention *)
Theorem C15_avc_sps_er : forall v beyond,
  sps_valid v = true -> sps_offsets_zero v = true -> zrun_ok (raw_sps v) = true ->
  parse_sps_er beyond (nalu_sps v) = Ok (expected_sps beyond v).
Proof. exact avc_sps_er. Qed.
Print Assumptions C15_avc_sps_er.

Theorem C15_avc_pps_er : forall chroma spsmap v,
  pps_valid chroma v = true ->
  (pps_has_tail v && pic_scaling_matrix_present_flag v = true ->
   spsmap (pps_seq_parameter_set_id v) = Some chroma) ->
  zrun_ok (raw_pps v) = true ->
  parse_pps_er spsmap (nalu_pps v) = Ok (expected_pps v).
Proof. exact avc_pps_er. Qed.
Print Assumptions C15_avc_pps_er.

Theorem C15_avc_slice_er : forall spsmap ppsmap sp pp v beyond cm s p,
  sps_valid sp = true -> pps_valid (eff_chroma_format_idc sp) pp = true -> slice_valid sp pp v = true ->
  sl_has_fmo_cycle pp = false ->
  (pps_has_tail pp && pic_scaling_matrix_present_flag pp = true ->
   cm (pps_seq_parameter_set_id pp) = Some (eff_chroma_format_idc sp)) ->
  zrun_ok (raw_sps sp) = true -> zrun_ok (raw_pps pp) = true -> zrun_ok (raw_slice sp pp v) = true ->
  (forall id x, spsmap id = Some x -> sps_narrow x = true) ->
  (forall id x, ppsmap id = Some x -> pps_narrow x = true) ->
  parse_sps_er beyond (nalu_sps sp) = Ok s -> parse_pps_er cm (nalu_pps pp) = Ok p ->
  ppsmap (sl_pic_parameter_set_id v) = Some p -> spsmap (pps_seq_parameter_set_id pp) = Some s ->
  parse_slice_er spsmap ppsmap (nalu_slice sp pp v) = Ok (expected_slice sp pp v).
Proof. exact avc_slice_er. Qed.
Print Assumptions C15_avc_slice_er.
Example C15_avc_er_hyps :
  zrun_ok (raw_sps ex_sps) = true /\ zrun_ok (raw_pps ex_pps) = true
  /\ zrun_ok (raw_sps ex_sl_sps) = true /\ zrun_ok (raw_pps ex_sl_pps) = true
  /\ zrun_ok (raw_slice ex_sl_sps ex_sl_pps ex_slice) = true
  /\ sps_narrow (expected_sps true ex_sl_sps) = true /\ pps_narrow (expected_pps ex_sl_pps) = true
  /\ parse_slice_er (fun _ => Some (expected_sps true ex_sl_sps)) (fun _ => Some (expected_pps ex_sl_pps))
       (nalu_slice ex_sl_sps ex_sl_pps ex_slice) = Ok (expected_slice ex_sl_sps ex_sl_pps ex_slice).
Proof. vm_compute. repeat split; reflexivity. Qed.

Theorem C15_hevc_pps_er : forall spsmap v,
  hpps_valid v = true -> spsmap (sx_pps_seq_parameter_set_id v) = true ->
  zrun_ok (hraw_pps v) = true ->
  hparse_pps_er spsmap (hnalu_pps v) = Ok (expected_hpps v).
Proof. exact hevc_pps_er. Qed.
Print Assumptions C15_hevc_pps_er.
Example C15_hevc_pps_er_hyps :
  hpps_valid ex_hpps_tiles = true /\ zrun_ok (hraw_pps ex_hpps_tiles) = true
  /\ hparse_pps_er (fun id => id =? 3) (hnalu_pps ex_hpps_tiles) = Ok (expected_hpps ex_hpps_tiles).
Proof. vm_compute. repeat split; reflexivity. Qed.

Theorem C15_hevc_sps_er : forall v,
  hsps_valid v = true -> zrun_ok (hraw_sps v) = true ->
  hparse_sps_er (hnalu_sps v) = Ok (expected_hsps v).
Proof. exact hevc_sps_er. Qed.
Print Assumptions C15_hevc_sps_er.

Theorem C15_hevc_slice_er : forall spsmap ppsmap sp pp v,
  hsps_valid sp = true -> hpps_valid pp = true -> hslice_valid sp pp v = true ->
  ppsmap (sx_slice_pic_parameter_set_id v) = Some (expected_hpps pp) ->
  spsmap (sx_pps_seq_parameter_set_id pp) = Some (expected_hsps sp) ->
  zrun_ok (hraw_slice sp pp v) = true ->
  (forall id s, spsmap id = Some s -> hsps_narrow s = true) ->
  hparse_slice_er spsmap ppsmap (hnalu_slice sp pp v) = Ok (expected_hslice sp pp v).
Proof. exact hevc_slice_er. Qed.
Print Assumptions C15_hevc_slice_er.
(* ex_hsps: 4 emulation-prevention bytes inserted (112 -> 116 bytes); the slice: 1 (48 -> 49) *)
Example C15_hevc_er_hyps :
  hsps_valid C15HevcExamples.ex_hsps = true /\ zrun_ok (hraw_sps C15HevcExamples.ex_hsps) = true
  /\ lenN (hraw_sps C15HevcExamples.ex_hsps) = 112 /\ lenN (hnalu_sps C15HevcExamples.ex_hsps) = 116
  /\ hsps_narrow (expected_hsps ex_hsps) = true
  /\ zrun_ok (hraw_slice ex_hsps ex_hpps_b ex_hslice_b) = true
  /\ lenN (hnalu_slice ex_hsps ex_hpps_b ex_hslice_b) = lenN (hraw_slice ex_hsps ex_hpps_b ex_hslice_b) + 1.
Proof. vm_compute. repeat split; reflexivity. Qed.
