(* C15HevcConfModel.v — executable Gallina models of hevc.CreateHEVCDecConfRec, DecConfRec.Size /
   Encode / EncodeSW (hevc/hevcdecoderconfigurationrecord.go) and hevc.CodecString (hevc/mime.go).
   The decoder hevc.DecodeHEVCDecConfRec is the model of C16 (C16ConfRecModel.hevc_decode_dec_conf_rec,
   imported read-only; record type hevc_rec).  DEFINITIONS ONLY. *)
From V.lib Require Import Base.
From V.c13 Require Import C13Spec C13Model.
From V.c15 Require Import C15Model C15HevcModel.
From V.c16 Require Import C16ConfRecModel.

(* ---- big-endian writers of bits.FixedSliceWriter (the buffer has exactly Size() bytes: no error) *)
Definition be16 (x : N) : list N := [u8 (x / 256); u8 x].
Definition be32 (x : N) : list N := [u8 (x / 16777216); u8 (x / 65536); u8 (x / 256); u8 x].
(* WriteUint48: msb := uint16(u >> 32), lsb := uint32(u & 0xffffffff) *)
Definition be48 (x : N) : list N := be16 (u16 (N.shiftr x 32)) ++ be32 (u32 (N.land x 4294967295)).

(* NewNaluArray(complete, naluType, nalus): completeAndType = completeBit | byte(naluType) *)
Definition hconf_array (complete : bool) (typ : N) (nalus : list (list N)) : N * list (list N) :=
  (N.lor (if complete then 128 else 0) (u8 typ), nalus).

(* CreateHEVCDecConfRec; parse = ParseSPSNALUnit *)
Definition hconf_create (parse : list N -> res hsps) (vps sps pps : list (list N))
           (vc sc pc include_ps : bool) : res hevc_rec :=
  match sps with
  | [] => Err                                      (* "no SPS NALU supported" *)
  | s0 :: _ =>
      match parse s0 with
      | Ok s =>
          let p := h_ptl s in
          Ok (mkHevcRec 1 (hp_space p) (hp_tier p) (hp_idc p) (hp_compat p) (hp_constraint p) (hp_level p)
                        0 0 (h_chroma s) (h_bdl s) (h_bdc s) 0 0 0 0 3
                        (if include_ps
                         then [hconf_array vc 32 vps; hconf_array sc 33 sps; hconf_array pc 34 pps]
                         else []))
      | Err => Err | Panic => Panic | OutOfFuel => OutOfFuel
      end
  end.

(* Size *)
Definition hconf_size (r : hevc_rec) : N :=
  23 + sumN (map (fun a => 3 + sumN (map (fun n => 2 + lenN n) (snd a))) (hr_arrays r)).

(* EncodeSW: all operands are Go bytes (shifts truncate), lengths are converted with uint16() / byte() *)
Definition hconf_encode_array (a : N * list (list N)) : list N :=
  [u8 (fst a)] ++ be16 (u16 (lenN (snd a)))
  ++ flat_map (fun n => be16 (u16 (lenN n)) ++ n) (snd a).

Definition hconf_encode (r : hevc_rec) : list N :=
  [u8 (hr_version r);
   N.lor (N.lor (u8 (hr_profile_space r * 64)) (if hr_tier r then 32 else 0)) (u8 (hr_profile_idc r))]
  ++ be32 (hr_compat_flags r)
  ++ be48 (hr_constraint_flags r)
  ++ [u8 (hr_level_idc r)]
  ++ be16 (N.lor 61440 (u16 (hr_min_spatial_seg r)))
  ++ [N.lor 252 (u8 (hr_parallelism r)); N.lor 252 (u8 (hr_chroma r));
      N.lor 248 (u8 (hr_bdl r)); N.lor 248 (u8 (hr_bdc r))]
  ++ be16 (u16 (hr_avg_frame_rate r))
  ++ [N.lor (N.lor (N.lor (u8 (hr_const_frame_rate r * 64)) (u8 (hr_num_temporal_layers r * 8)))
                   (u8 (hr_temporal_id_nested r * 4)))
            (u8 (hr_length_size_minus_one r));
      u8 (lenN (hr_arrays r))]
  ++ flat_map hconf_encode_array (hr_arrays r).

(* ---- hevc.CodecString *)
(* strconv-style digits of n in the given base (most significant first; "0" for 0); upper-case hex *)
Definition digit_char (d : N) : N := if d <? 10 then 48 + d else 55 + d.
Fixpoint digits_fuel (fuel : nat) (base n : N) (acc : list N) : list N :=
  match fuel with
  | O => acc
  | S f => let acc' := digit_char (n mod base) :: acc in
           if n / base =? 0 then acc' else digits_fuel f base (n / base) acc'
  end.
Definition digits (base n : N) : list N := digits_fuel 64 base n [].

(* math/bits.Reverse32 *)
Fixpoint rev_bits (n : nat) (x : N) : N :=
  match n with
  | O => 0
  | S k => (x mod 2) * 2 ^ N.of_nat k + rev_bits k (x / 2)
  end.

(* the loop `for i := 0; i < 5; i++ { if cif&0xff == 0 { cif >>= 8; nrBytes-- } else break }` *)
Fixpoint strip_zero_bytes (fuel : nat) (cif nr : N) : N * N :=
  match fuel with
  | O => (cif, nr)
  | S f => if N.land cif 255 =? 0 then strip_zero_bytes f (N.shiftr cif 8) (nr - 1) else (cif, nr)
  end.

Fixpoint constraint_bytes (k : nat) (cif : N) : list N :=
  match k with
  | O => []
  | S j => [46] ++ digits 16 (N.land (N.shiftr cif (8 * N.of_nat j)) 255) ++ constraint_bytes j cif
  end.

Definition hcodec_string (sample_entry : list N) (s : hsps) : list N :=
  let p := h_ptl s in
  let profile_part :=
      (if hp_space p =? 1 then [65] else if hp_space p =? 2 then [66] else if hp_space p =? 3 then [67] else [])
      ++ digits 10 (hp_idc p) in
  let flags_part := digits 16 (rev_bits 32 (hp_compat p)) in
  let level_part := (if hp_tier p then [72] else [76]) ++ digits 10 (hp_level p) in
  let '(cif, nr) := strip_zero_bytes 5 (hp_constraint p) 6 in
  sample_entry ++ [46] ++ profile_part ++ [46] ++ flags_part ++ [46] ++ level_part
  ++ constraint_bytes (N.to_nat nr) cif.

(* ---- flattening *)
Definition flat_hevc_rec (r : hevc_rec) : list Z :=
  [zn (hr_version r); zn (hr_profile_space r); zb (hr_tier r); zn (hr_profile_idc r);
   zn (hr_compat_flags r); zn (hr_constraint_flags r); zn (hr_level_idc r); zn (hr_min_spatial_seg r);
   zn (hr_parallelism r); zn (hr_chroma r); zn (hr_bdl r); zn (hr_bdc r); zn (hr_avg_frame_rate r);
   zn (hr_const_frame_rate r); zn (hr_num_temporal_layers r); zn (hr_temporal_id_nested r);
   zn (hr_length_size_minus_one r)]
  ++ flat_list (fun a => [zn (hevc_arr_complete (fst a)); zn (hevc_arr_type (fst a))]
                         ++ flat_list flat_nlist (snd a)) (hr_arrays r).

(* create -> (record, Size, Encode, Decode(Encode), CodecString("hvc1", sps)) as one observable *)
Definition hconf_observe (parse : list N -> res hsps) (vps sps pps : list (list N))
           (vc sc pc include_ps : bool) : res (list Z) :=
  match hconf_create parse vps sps pps vc sc pc include_ps with
  | Ok r =>
      let enc := hconf_encode r in
      match hevc_decode_dec_conf_rec enc, parse (hd [] sps) with
      | Ok (d, _), Ok s =>
          Ok (flat_hevc_rec r ++ [zn (hconf_size r)] ++ flat_nlist enc ++ flat_hevc_rec d
              ++ flat_nlist (hcodec_string [104; 118; 99; 49] s))
      | Panic, _ => Panic
      | OutOfFuel, _ => OutOfFuel
      | _, _ => Err
      end
  | Err => Err | Panic => Panic | OutOfFuel => OutOfFuel
  end.

Definition hconf_decode_observe (data : list N) : res (list Z) :=
  match hevc_decode_dec_conf_rec data with
  | Ok (d, _) => Ok (flat_hevc_rec d)
  | Err => Err | Panic => Panic | OutOfFuel => OutOfFuel
  end.
