(* C15AvcVuiProofs.v — parseVUI / parseHrdParameters (model, ideal bit reader) on the serialised
   vui_parameters() / hrd_parameters() return the coded values; the full AVC SPS lemma. *)
From V.lib Require Import Base.
From V.c13 Require Import C13Spec C13Model.
From V.c15 Require Import C15Model C15Spec C15BitProofs C15AvcSpsProofs.

Lemma parses_cpb raw (e : N * N * bool) pos :
  parses raw (parse_cpb_entry BR) pos (ser_cpb e) (let '(a, b, c) := e in mkCpb a b c).
Proof.
  destruct e as [[a b] c]. unfold parse_cpb_entry, ser_cpb.
  pbind ltac:(apply parses_ue). pbind ltac:(apply parses_ue). plast ltac:(apply parses_flag).
  apply parses_ret.
Qed.

Lemma parses_hrd raw h pos :
  hrd_valid h = true -> parses raw (parse_hrd BR) pos (ser_hrd h) (expected_hrd h).
Proof.
  intros Hv. unfold hrd_valid in Hv. split_all.
  unfold parse_hrd, ser_hrd, expected_hrd.
  pbind ltac:(apply parses_ue).
  replace (31 <? cpb_cnt_minus1 h) with false by lia.
  pbind ltac:(apply parses_rd; lia).
  pbind ltac:(apply parses_rd; lia).
  pbind ltac:(apply (parses_rep_n raw (parse_cpb_entry BR) ser_cpb
                       (fun e : N * N * bool => let '(a, b, c) := e in mkCpb a b c) (cpb_list h));
              [lia | unfold loop_bound; lia | intros; apply parses_cpb]).
  pbind ltac:(apply parses_rd; lia).
  pbind ltac:(apply parses_rd; lia).
  pbind ltac:(apply parses_rd; lia).
  plast ltac:(apply parses_rd; lia).
  apply parses_ret.
Qed.

Lemma sar_table_agrees idc : idc <= 16 -> sar_from_idc idc = Some (sar_of_idc idc).
Proof.
  intros H.
  assert (C : idc = 0 \/ idc = 1 \/ idc = 2 \/ idc = 3 \/ idc = 4 \/ idc = 5 \/ idc = 6 \/ idc = 7
              \/ idc = 8 \/ idc = 9 \/ idc = 10 \/ idc = 11 \/ idc = 12 \/ idc = 13 \/ idc = 14
              \/ idc = 15 \/ idc = 16) by lia.
  repeat (destruct C as [-> | C]; [reflexivity|]). subst. reflexivity.
Qed.

Lemma parses_vui_sar raw x pos (B : Type) (k : N * N -> bstate -> res (B * bstate)) e b :
  vui_valid x = true ->
  parses raw (k (expected_sar x)) (pos + lenN (ser_vui_sar x)) e b ->
  parses raw
    (bind (rd_flag BR) (fun ar_present =>
     bind (if ar_present
           then bind (rd BR 8) (fun idc =>
                if idc =? 255 then bind (rd BR 16) (fun w => bind (rd BR 16) (fun h => ret (w, h)))
                else match sar_from_idc idc with
                     | Some wh => ret wh
                     | None => bind (set_err BR) (fun _ => ret (0, 0))
                     end)
           else ret (0, 0)) k)) pos (ser_vui_sar x ++ e) b.
Proof.
  intros Hv Hk. unfold vui_valid in Hv. split_all.
  unfold ser_vui_sar in *. rewrite <- app_assoc.
  pbind ltac:(apply parses_flag).
  eapply parses_bind; [|rewrite lenN_app, N.add_assoc in Hk; exact Hk].
  unfold expected_sar.
  destruct (aspect_ratio_info_present_flag x); cbn [opt_bits]; [|apply parses_ret].
  pbind ltac:(apply parses_rd; lia).
  destruct (aspect_ratio_idc x =? 255) eqn:E; cbn [opt_bits].
  - pbind ltac:(apply parses_rd; lia). plast ltac:(apply parses_rd; lia). apply parses_ret.
  - rewrite sar_table_agrees by lia. apply parses_ret.
Qed.

Lemma parses_vui raw x beyond pos :
  vui_valid x = true ->
  parses raw (parse_vui BR beyond) pos (ser_vui_read beyond x) (expected_vui beyond x).
Proof.
  intros Hv. pose proof Hv as Hv0. unfold vui_valid in Hv. split_all. unfold ue_ok in *.
  unfold parse_vui, ser_vui_read.
  apply parses_vui_sar; [exact Hv0|].
  unfold expected_vui.
  destruct beyond; cbn [negb]; cbv iota; [|apply parses_ret].
  unfold ser_vui_rest.
  pbind ltac:(apply parses_flag).
  pbind ltac:(apply parses_opt; intros _; apply parses_flag).
  pbind ltac:(apply parses_flag).
  eapply parses_bind.
  { apply (parses_opt raw _ (video_signal_type_present_flag x) _
             (video_format x, video_full_range_flag x, colour_description_present_flag x,
              (if colour_description_present_flag x
               then (colour_primaries x, transfer_characteristics x, matrix_coefficients x)
               else (0, 0, 0))) (0, false, false, (0, 0, 0))).
    intros _.
    pbind ltac:(apply parses_rd; lia).
    pbind ltac:(apply parses_flag).
    pbind ltac:(apply parses_flag).
    plast ltac:(apply parses_opt; intros _;
                pbind ltac:(apply parses_rd; lia); pbind ltac:(apply parses_rd; lia);
                plast ltac:(apply parses_rd; lia); apply parses_ret).
    apply parses_ret. }
  cbv beta.
  pbind ltac:(apply parses_flag).
  eapply parses_bind.
  { apply (parses_opt raw _ (chroma_loc_info_present_flag x) _
             (chroma_sample_loc_type_top_field x, chroma_sample_loc_type_bottom_field x) (0, 0)).
    intros _. pbind ltac:(apply parses_ue). plast ltac:(apply parses_ue). apply parses_ret. }
  cbv beta.
  pbind ltac:(apply parses_flag).
  eapply parses_bind.
  { apply (parses_opt raw _ (timing_info_present_flag x) _
             (num_units_in_tick x, time_scale x, fixed_frame_rate_flag x) (0, 0, false)).
    intros _. pbind ltac:(apply parses_rd; lia). pbind ltac:(apply parses_rd; lia).
    plast ltac:(apply parses_flag). apply parses_ret. }
  cbv beta.
  pbind ltac:(apply parses_flag).
  eapply parses_bind.
  { apply (parses_opt raw _ (nal_hrd_parameters_present_flag x) _ (Some (expected_hrd (nal_hrd x))) None).
    intros Hn. plast ltac:(apply parses_hrd).
    { match goal with H : (if nal_hrd_parameters_present_flag x then _ else _) = true |- _ =>
        rewrite Hn in H; exact H end. }
    apply parses_ret. }
  cbv beta.
  pbind ltac:(apply parses_flag).
  eapply parses_bind.
  { apply (parses_opt raw _ (vcl_hrd_parameters_present_flag x) _ (Some (expected_hrd (vcl_hrd x))) None).
    intros Hn. plast ltac:(apply parses_hrd).
    { match goal with H : (if vcl_hrd_parameters_present_flag x then _ else _) = true |- _ =>
        rewrite Hn in H; exact H end. }
    apply parses_ret. }
  cbv beta.
  pbind ltac:(apply parses_opt; intros _; apply parses_flag).
  pbind ltac:(apply parses_flag).
  pbind ltac:(apply parses_flag).
  eapply parses_bind_nil.
  { apply (parses_opt raw _ (bitstream_restriction_flag x) _
             (motion_vectors_over_pic_boundaries_flag x, max_bytes_per_pic_denom x,
              max_bits_per_mb_denom x, log2_max_mv_length_horizontal x, log2_max_mv_length_vertical x,
              max_num_reorder_frames x, max_dec_frame_buffering x) (false, 0, 0, 0, 0, 0, 0)).
    intros _.
    pbind ltac:(apply parses_flag).
    pbind ltac:(apply parses_ue). pbind ltac:(apply parses_ue). pbind ltac:(apply parses_ue).
    pbind ltac:(apply parses_ue). pbind ltac:(apply parses_ue). plast ltac:(apply parses_ue).
    apply parses_ret. }
  cbv beta.
  destruct (video_signal_type_present_flag x), (colour_description_present_flag x),
    (timing_info_present_flag x), (bitstream_restriction_flag x),
    (overscan_info_present_flag x), (chroma_loc_info_present_flag x),
    (nal_hrd_parameters_present_flag x), (vcl_hrd_parameters_present_flag x);
    apply parses_ret_eq; reflexivity.
Qed.

(* ------------------------------------------------------------------ the full AVC SPS lemma *)
Lemma avc_sps_go v beyond :
  sps_valid v = true ->
  parse_sps_br beyond (nalu_sps v) =
  Ok (expected_sps_gen se_code (nbytes_at (raw_sps v) (sps_bits_before_vui v))
                       (nbytes_at (raw_sps v) (sps_bits_read beyond v)) beyond v).
Proof.
  intros Hv. apply parse_sps_br_valid; [exact Hv|].
  intros Hp raw pos'. apply parses_vui.
  unfold sps_valid in Hv. split_all.
  match goal with H : (if vui_parameters_present_flag v then _ else _) = true |- _ =>
    rewrite Hp in H; exact H end.
Qed.

Lemma avc_sps v beyond :
  sps_valid v = true -> sps_offsets_zero v = true ->
  parse_sps_br beyond (nalu_sps v) = Ok (expected_sps beyond v).
Proof.
  intros Hv Ho. unfold expected_sps. rewrite <- expected_gen_offsets_zero by exact Ho.
  apply avc_sps_go. exact Hv.
Qed.
