(* C15TieHevc2Proofs.v — hevc.ParsePPSNALUnit with the multilayer and 3D extensions (C15Hevc2Model.hparse_pps2):
   the instance over the C13 machine model of bits.EBSPReader and the instance over the ideal bit-list
   reader return the same result on every escaped byte string without a run of more than 56 zero bits.
   No axioms. *)
From V.lib Require Import Base.
From V.c13 Require Import C13Spec C13Model C13ReaderProofs.
From V.c15 Require Import C15Model C15HevcModel C15Hevc2Model C15TieBaseProofs C15TieRelProofs C15TieAvcProofs C15TieHevcProofs.

Section Hevc2.
  Variable raw : list N.
  Hypothesis raw_ok : Forall lt256 raw.

  Lemma br_read_lt b n : fst (br_read b n) < 2 ^ n.
  Proof.
    unfold br_read. destruct (berr b); cbn [fst]; [apply pow2_pos|].
    destruct (n <=? lenN (bbits b)); cbn [fst]; [|apply pow2_pos].
    eapply N.lt_le_trans; [apply bval_lt|]. apply N.pow_le_mono_r; [lia|]. rewrite firstn_length. lia.
  Qed.

  (* Read(n) followed by code that may use the value's range *)
  Lemma MRel_bind_rd {A} st st' n (k1 : N -> rstate -> res (A * rstate)) k2 :
    n <= 56 -> (forall a, a < 2 ^ n -> MRel raw st st' (k1 a) (k2 a)) ->
    MRel raw st st' (bind (rd ER n) k1) (bind (rd BR n) k2).
  Proof.
    intros Hn Hk s b H. pose proof (read_sim raw st s b n Hn H) as [E S1]. pose proof (br_read_lt b n) as Hlt.
    unfold bind, rd. cbn [r_read ER BR].
    destruct (read s n) as [v s1], (br_read b n) as [v' b1]. cbn [fst snd] in *. subst v'.
    apply (Hk v Hlt). exact S1.
  Qed.

  Ltac tie_sub ::= fail.
  Ltac tie_rd_side ::= first [ tie_width | (unfold u8 in *; lia) ].

  Lemma rel_hse4 st c : MRel raw st st (hparse_se4 ER c) (hparse_se4 BR c).
  Proof. unfold hparse_se4. tie. Qed.
  Ltac tie_sub ::= first [ apply rel_hse4 ].
  Lemma rel_hrefloc st : MRel raw st st (hparse_refloc ER) (hparse_refloc BR).
  Proof. unfold hparse_refloc. tie. Qed.

  Lemma rel_hcoef st rb : rb <= 56 -> MRel raw st st (hparse_coef ER rb) (hparse_coef BR rb).
  Proof. intros H. unfold hparse_coef. tie. Qed.
  Ltac tie_sub ::= first [ apply MRel_rep; apply rel_hcoef; assumption ].
  Lemma rel_hvertex st rb : rb <= 56 -> MRel raw st st (hparse_vertex ER rb) (hparse_vertex BR rb).
  Proof. intros H. unfold hparse_vertex. tie. Qed.
  Ltac tie_sub ::= first [ apply MRel_rep; apply rel_hvertex; assumption ].
  Lemma rel_hleaf st rb sh iy icb icr : rb <= 56 -> forall cnt i,
    MRel raw st st (hparse_leaf ER cnt i sh rb iy icb icr) (hparse_leaf BR cnt i sh rb iy icb icr).
  Proof. intros H. induction cnt as [|c IH]; intros i; cbn [hparse_leaf]; tie. Qed.

  Lemma rel_hoctants st depth pn rb : rb <= 56 -> forall fuel d iy icb icr il,
    MRel raw st st (hparse_octants ER fuel depth pn rb d iy icb icr il) (hparse_octants BR fuel depth pn rb d iy icb icr il).
  Proof.
    intros H. induction fuel as [|f IH]; intros d iy icb icr il; cbn [hparse_octants]; [apply MRel_oof|].
    eapply (MRel_bind raw st st); [destruct (d <? depth); [apply MRel_flag|apply MRel_ret]|]. intros split.
    eapply (MRel_bind raw st st).
    - destruct split.
      + eapply (MRel_bind raw st st); [|intros l; apply MRel_ret].
        apply MRel_mapM. intros [[k m] n]. apply IH.
      + apply rel_hleaf. exact H.
    - intros octs. tie.
  Qed.

  Ltac tie_sub ::= first [ apply MRel_rep_until_err | (apply rel_hoctants; lia) ].
  Lemma rel_hcm st : MRel raw st st (hparse_cm ER) (hparse_cm BR).
  Proof. unfold hparse_cm. tie. Qed.

  Ltac tie_sub ::= first [ apply MRel_rep_until_err_n | apply rel_hrefloc | apply rel_hcm ].
  Lemma rel_hppsml st : MRel raw st st (hparse_pps_ml ER) (hparse_pps_ml BR).
  Proof. unfold hparse_pps_ml. tie. Qed.

  Ltac tie_sub ::= first [ apply MRel_rep_until_err_n ].
  Ltac tie_rd_side ::= first [ tie_width | lia ].
  Lemma rel_hdelta st bd : bd <= 56 -> MRel raw st st (hparse_delta_dlt ER bd) (hparse_delta_dlt BR bd).
  Proof. intros H. unfold hparse_delta_dlt. tie. Qed.
  Ltac tie_sub ::= first [ apply MRel_rep_until_err_n | (apply rel_hdelta; assumption) ].
  Lemma rel_hdlayer st bd : bd <= 56 -> MRel raw st st (hparse_dlayer ER bd) (hparse_dlayer BR bd).
  Proof. intros H. unfold hparse_dlayer. tie. Qed.

  Lemma rel_hpps3d st : MRel raw st st (hparse_pps_3d ER) (hparse_pps_3d BR).
  Proof.
    unfold hparse_pps_3d.
    eapply (MRel_bind raw st st); [apply MRel_flag|]. intros dp.
    eapply (MRel_bind raw st st).
    - destruct dp; [|apply MRel_ret].
      eapply (MRel_bind raw st st); [apply MRel_rd; lia|]. intros nl.
      apply MRel_bind_rd; [lia|]. intros bd Hbd. change (2 ^ 4) with 16 in Hbd.
      eapply (MRel_bind raw st st); [|intros ls; apply MRel_ret].
      apply MRel_rep_until_err. apply rel_hdlayer. unfold u8. lia.
    - intros r. tie.
  Qed.

  Ltac tie_sub ::= first [ apply MRel_rep_until_err_n | apply MRel_rep | apply rel_hskip | apply rel_hpps_range
                         | apply rel_hpps_scc | apply rel_hext_data | apply rel_hparse_end
                         | apply rel_hppsml | apply rel_hpps3d ].
  Ltac tie_rd_side ::= first [ tie_width | (split_orb; unfold u64; lia) ].
  Lemma rel_hparse_pps2 st spsmap : MRel raw st st (hparse_pps2 ER spsmap) (hparse_pps2 BR spsmap).
  Proof. unfold hparse_pps2. tie. Qed.
End Hevc2.

Lemma tie_hevc_pps2 raw spsmap :
  bytes_ok raw = true -> zrun_ok raw = true ->
  hparse_pps2_er spsmap (escape raw) = hparse_pps2_br spsmap (escape raw).
Proof.
  intros Hb Hz. unfold hparse_pps2_er, hparse_pps2_br.
  apply (MRel_run raw (bytes_ok_lt256 raw Hb) true true); [apply rel_hparse_pps2|exact Hz].
Qed.
