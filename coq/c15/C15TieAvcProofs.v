(* C15TieAvcProofs.v — avc.ParseSPSNALUnit / ParsePPSNALUnit / ParseSliceHeader: the parser models of
   C15Model instantiated with the C13 machine model of bits.EBSPReader (ER, started on the escaped NAL
   unit) and with the ideal bit-list reader (BR, started on the same bytes, which it unescapes) return
   the same result, for EVERY byte string raw (all bytes < 256) whose bits hold no run of more than 56
   zero bits, escaped by the emulation-prevention rule of C13Spec.  No axioms. *)
From V.lib Require Import Base.
From V.c13 Require Import C13Spec C13Model C13ReaderProofs.
From V.c15 Require Import C15Model C15TieBaseProofs C15TieRelProofs.

(* what the slice-header parser needs of the parameter sets it is given: the widths it derives from
   them are within the accumulator (every SPS / PPS the parsers return satisfies this: the SPS parser
   rejects log2 values above 12) *)
Definition sps_narrow (s : sps) : bool :=
  (sps_log2_max_frame_num_minus4 s <=? 12) && (sps_log2_max_pic_order_cnt_lsb_minus4 s <=? 12).
Definition pps_narrow (p : pps) : bool := pps_pic_size_in_map_units_minus1 p <? 4294967296.

Lemma bytes_ok_lt256 l : bytes_ok l = true -> Forall lt256 l.
Proof.
  intros H. unfold bytes_ok in H. rewrite forallb_forall in H. apply Forall_forall. intros x Hx.
  specialize (H x Hx). unfold byte_ok in H. unfold lt256. lia.
Qed.

Lemma sps_narrow_w1 (spsmap : N -> option sps) id s :
  (forall id s, spsmap id = Some s -> sps_narrow s = true) -> spsmap id = Some s ->
  sps_log2_max_frame_num_minus4 s + 4 <= 56.
Proof. intros H E. specialize (H _ _ E). unfold sps_narrow in H. apply andb_true_iff in H. lia. Qed.

Lemma sps_narrow_w2 (spsmap : N -> option sps) id s :
  (forall id s, spsmap id = Some s -> sps_narrow s = true) -> spsmap id = Some s ->
  sps_log2_max_pic_order_cnt_lsb_minus4 s + 4 <= 56.
Proof. intros H E. specialize (H _ _ E). unfold sps_narrow in H. apply andb_true_iff in H. lia. Qed.

Lemma pps_narrow_w (ppsmap : N -> option pps) id p r :
  (forall id p, ppsmap id = Some p -> pps_narrow p = true) -> ppsmap id = Some p ->
  N.log2_up (u64 (pps_pic_size_in_map_units_minus1 p + 1) / r + 1) <= 56.
Proof.
  intros H E. specialize (H _ _ E). unfold pps_narrow in H.
  set (x := pps_pic_size_in_map_units_minus1 p) in *.
  assert (Hs : u64 (x + 1) <= 4294967296) by (unfold u64; rewrite N.mod_small; lia).
  assert (Hd : u64 (x + 1) / r <= u64 (x + 1)).
  { destruct r as [|q]; [destruct (u64 (x + 1)); cbn; lia|]. apply N.div_le_upper_bound; [lia|]. nia. }
  set (q := u64 (x + 1) / r) in *. clearbody q.
  apply N.le_trans with 33; [|lia]. apply N.log2_up_le_pow2; [lia|]. change (2 ^ 33) with 8589934592. lia.
Qed.

Section Avc.
  Variable raw : list N.
  Hypothesis raw_ok : Forall lt256 raw.

  (* ---------------------------------------------------------------- shared pieces *)
  Lemma rel_scaling_list st : forall n last next,
    MRel raw st st (read_scaling_list ER n last next) (read_scaling_list BR n last next).
  Proof. induction n as [|n IH]; intros last next; cbn [read_scaling_list]; tie. Qed.
  Ltac tie_sub ::= first [ apply rel_scaling_list ].

  Lemma rel_scaling_lists st : forall cnt i,
    MRel raw st st (read_scaling_lists ER cnt i) (read_scaling_lists BR cnt i).
  Proof. induction cnt as [|c IH]; intros i; cbn [read_scaling_lists]; tie. Qed.
  Ltac tie_sub ::= first [ apply rel_scaling_list | apply rel_scaling_lists ].

  (* ---------------------------------------------------------------- PPS *)
  Lemma rel_pps_slice_groups st nsg :
    MRel raw st st (parse_pps_slice_groups ER nsg) (parse_pps_slice_groups BR nsg).
  Proof. unfold parse_pps_slice_groups. tie. Qed.

  Lemma rel_pps_tail st spsmap spsid :
    MRel raw st st (parse_pps_tail ER spsmap spsid) (parse_pps_tail BR spsmap spsid).
  Proof. unfold parse_pps_tail. tie. Qed.

  Ltac tie_sub ::= first [ apply rel_scaling_list | apply rel_scaling_lists | apply rel_pps_slice_groups | apply rel_pps_tail ].

  Lemma rel_pps_pre st : MRel raw st st (parse_pps_pre ER) (parse_pps_pre BR).
  Proof. unfold parse_pps_pre. tie. Qed.

  Lemma rel_pps_post st spsmap t : MRel raw st st (parse_pps_post ER spsmap t) (parse_pps_post BR spsmap t).
  Proof. unfold parse_pps_post. tie. Qed.

  Ltac tie_sub ::= first [ apply rel_scaling_list | apply rel_scaling_lists | apply rel_pps_slice_groups | apply rel_pps_tail
                         | apply rel_pps_pre | apply rel_pps_post ].

  Lemma rel_parse_pps st spsmap : MRel raw st st (parse_pps ER spsmap) (parse_pps BR spsmap).
  Proof. unfold parse_pps. tie. Qed.

  (* ---------------------------------------------------------------- slice header *)
  Lemma rel_rplm st : forall fuel x, MRel raw st st (rplm_loop ER fuel x) (rplm_loop BR fuel x).
  Proof. induction fuel as [|f IH]; intros x; cbn [rplm_loop]; tie. Qed.

  Lemma rel_mmco st : forall fuel x, MRel raw st st (mmco_loop ER fuel x) (mmco_loop BR fuel x).
  Proof. induction fuel as [|f IH]; intros x; cbn [mmco_loop]; tie. Qed.

  Lemma rel_pwt_entry st c : MRel raw st st (pwt_entry ER c) (pwt_entry BR c).
  Proof. unfold pwt_entry. tie. Qed.

  Ltac tie_sub ::= first [ apply rel_rplm | apply rel_mmco | apply rel_pwt_entry ].
  Ltac tie_rd_side ::=
    first [ tie_width
          | (eapply sps_narrow_w1; eassumption) | (eapply sps_narrow_w2; eassumption)
          | (eapply pps_narrow_w; eassumption) ].

  Lemma rel_parse_slice spsmap ppsmap :
    (forall id s, spsmap id = Some s -> sps_narrow s = true) ->
    (forall id p, ppsmap id = Some p -> pps_narrow p = true) ->
    MRel raw true true (parse_slice_header ER spsmap ppsmap) (parse_slice_header BR spsmap ppsmap).
  Proof. intros Hs Hp. unfold parse_slice_header. tie. Qed.

  (* ---------------------------------------------------------------- SPS *)
  (* SetError (invalid aspect_ratio_idc, cpb_cnt_minus1 > 31) leaves only the weak relation: the two
     byte counters read afterwards are dropped by the `if AccError` at the end; the machine's error is
     sticky through parseVUI (Keeps) *)
  Definition Keeps {A} (m : rstate -> res (A * rstate)) : Prop :=
    forall s, rerr s = true -> match m s with Ok (_, s') => rerr s' = true | _ => True end.

  Lemma Keeps_ret {A} (a : A) : Keeps (ret a).
  Proof. intros s H. exact H. Qed.
  Lemma Keeps_fail {A} : @Keeps A fail.
  Proof. intros s H. exact I. Qed.
  Lemma Keeps_oof {A} : @Keeps A out_of_fuel.
  Proof. intros s H. exact I. Qed.
  Lemma Keeps_bind {A B} (m : rstate -> res (A * rstate)) (k : A -> rstate -> res (B * rstate)) :
    Keeps m -> (forall a, Keeps (k a)) -> Keeps (bind m k).
  Proof. intros Hm Hk s H. specialize (Hm s H). unfold bind. destruct (m s) as [[a s1]| | |]; try exact I. apply Hk. exact Hm. Qed.
  Lemma Keeps_rd n : Keeps (rd ER n).
  Proof. intros s H. unfold rd. cbn [r_read ER]. rewrite (read_after_error s n H). exact H. Qed.
  Lemma Keeps_flag : Keeps (rd_flag ER).
  Proof. intros s H. unfold rd_flag, read_flag. cbn [r_flag ER]. unfold read_flag. rewrite (read_after_error s 1 H). exact H. Qed.
  Lemma Keeps_ue : Keeps (rd_ue ER).
  Proof. intros s H. unfold rd_ue. cbn [r_ue ER]. unfold read_ue. rewrite H. exact H. Qed.
  Lemma Keeps_set_err : Keeps (set_err ER).
  Proof. intros s H. reflexivity. Qed.
  Lemma Keeps_rep {A} (body : rstate -> res (A * rstate)) : Keeps body -> forall n, Keeps (rep n body).
  Proof.
    intros Hb n. induction n as [|n IH]; cbn [rep]; [apply Keeps_ret|].
    apply Keeps_bind; [exact Hb|]. intros x. apply Keeps_bind; [exact IH|]. intros t. apply Keeps_ret.
  Qed.
  Lemma Keeps_rep_n {A} n (body : rstate -> res (A * rstate)) : Keeps body -> Keeps (rep_n n body).
  Proof. intros Hb. unfold rep_n. destruct (n <=? loop_bound); [apply Keeps_rep; exact Hb|apply Keeps_oof]. Qed.

  Ltac keeps :=
    repeat first
      [ apply Keeps_ret | apply Keeps_fail | apply Keeps_oof | apply Keeps_rd | apply Keeps_flag | apply Keeps_ue
      | apply Keeps_set_err | apply Keeps_rep_n
      | lazymatch goal with |- Keeps (bind _ _) => apply Keeps_bind; [|intros ?] end
      | lazymatch goal with
        | |- Keeps (if ?c then _ else _) => destruct c
        | |- Keeps (match ?x with _ => _ end) => destruct x
        end
      | progress (cbv beta zeta) ].

  Lemma Keeps_hrd : Keeps (parse_hrd ER).
  Proof. unfold parse_hrd, parse_cpb_entry. keeps. Qed.
  Lemma Keeps_vui beyond : Keeps (parse_vui ER beyond).
  Proof. unfold parse_vui. keeps. all: try apply Keeps_hrd. Qed.

  Ltac tie_sub ::= fail.
  Lemma rel_cpb st : MRel raw st st (parse_cpb_entry ER) (parse_cpb_entry BR).
  Proof. unfold parse_cpb_entry. tie. Qed.
  Ltac tie_sub ::= first [ apply rel_cpb ].
  Lemma rel_hrd : MRel raw false false (parse_hrd ER) (parse_hrd BR).
  Proof. unfold parse_hrd. tie. Qed.
  Ltac tie_sub ::= first [ apply rel_hrd ].
  Lemma rel_vui beyond : MRel raw false false (parse_vui ER beyond) (parse_vui BR beyond).
  Proof. unfold parse_vui. tie. Qed.

  Ltac tie_sub ::= first [ apply rel_scaling_list | apply rel_scaling_lists ].
  Lemma rel_sps_high st p : MRel raw st st (parse_sps_high ER p) (parse_sps_high BR p).
  Proof. unfold parse_sps_high. tie. Qed.
  Lemma rel_sps_poc st p : MRel raw st st (parse_sps_poc ER p) (parse_sps_poc BR p).
  Proof. unfold parse_sps_poc. tie. Qed.
  Lemma rel_sps_crop st c f w h cr : MRel raw st st (parse_sps_crop ER c f w h cr) (parse_sps_crop BR c f w h cr).
  Proof. unfold parse_sps_crop. tie. Qed.

  (* a byte counter read under the weak relation: equal from good states; from an error state the
     continuation has to end without a value *)
  Lemma MRel_nbytes_weak {A} (k1 : N -> rstate -> res (A * rstate)) k2 :
    (forall a, MRel raw false false (k1 a) (k2 a)) ->
    (forall a1 a2 s b, Sim raw false s b -> rerr s = true -> ORel raw false (k1 a1 s) (k2 a2 b)) ->
    MRel raw false false (bind (get_nbytes ER) k1) (bind (get_nbytes BR) k2).
  Proof.
    intros H1 H2 s b H. unfold bind, get_nbytes. cbn [r_nbytes ER BR].
    pose proof H as [Hraw [Hd [[He _]|HG]]].
    - apply H2; assumption.
    - rewrite (nbytes_good raw s b Hraw HG). apply H1. exact H.
  Qed.

  Lemma err_finish {A B} (m1 : rstate -> res (A * rstate)) m2 (g1 g2 : A -> N -> B) :
    MRel raw false false m1 m2 -> Keeps m1 ->
    forall s b, Sim raw false s b -> rerr s = true ->
    ORel raw false
      (bind m1 (fun v => bind (get_nbytes ER) (fun nb => bind (get_err ER) (fun e => if e then fail else ret (g1 v nb)))) s)
      (bind m2 (fun v => bind (get_nbytes BR) (fun nb => bind (get_err BR) (fun e => if e then fail else ret (g2 v nb)))) b).
  Proof.
    intros Hm Hk s b H He. specialize (Hm s b H). specialize (Hk s He). unfold ORel in Hm.
    unfold bind, get_nbytes, get_err. cbn [r_nbytes r_err ER BR].
    destruct (m1 s) as [[v s1]| | |], (m2 b) as [[v' b1]| | |]; try contradiction; try exact I.
    destruct Hm as [-> S1]. rewrite <- (Sim_err raw false s1 b1 S1), Hk. exact I.
  Qed.

  Ltac tie_sub ::= first [ apply rel_sps_high | apply rel_sps_poc | apply rel_sps_crop
                         | (eapply MRel_nbytes_weak; [intros ?|intros ? ? ? ? ? ?]) ].

  Lemma rel_vui_part beyond (vp : bool) :
    MRel raw false false (if vp then bind (parse_vui ER beyond) (fun x => ret (Some x)) else ret None)
                         (if vp then bind (parse_vui BR beyond) (fun x => ret (Some x)) else ret None).
  Proof. destruct vp; [|apply MRel_ret]. eapply MRel_bind; [apply rel_vui|]. intros x. apply MRel_ret. Qed.

  Lemma Keeps_vui_part beyond (vp : bool) :
    Keeps (if vp then bind (parse_vui ER beyond) (fun x => ret (Some x)) else ret None).
  Proof. destruct vp; [|apply Keeps_ret]. apply Keeps_bind; [apply Keeps_vui|]. intros x. apply Keeps_ret. Qed.

  Lemma rel_sps_data beyond : MRel raw false false (parse_sps_data ER beyond) (parse_sps_data BR beyond).
  Proof.
    unfold parse_sps_data. tie.
    all: try apply rel_vui.
    (* NrBytesBeforeVUI read in an error state *)
    all: try (apply err_finish; [apply rel_vui_part|apply Keeps_vui_part|assumption|assumption]).
    (* NrBytesRead read in an error state *)
    all: unfold bind, get_err; cbn [r_err ER BR];
      match goal with S : Sim raw false ?s ?b, E : rerr ?s = true |- _ =>
        rewrite <- (Sim_err raw false s b S), E end; exact I.
  Qed.

  Ltac tie_sub ::= first [ apply rel_sps_data ].
  Lemma rel_parse_sps beyond : MRel raw false false (parse_sps ER beyond) (parse_sps BR beyond).
  Proof. unfold parse_sps. tie. Qed.
End Avc.

(* ------------------------------------------------------------------ the ties *)
Lemma tie_avc_sps raw beyond :
  bytes_ok raw = true -> zrun_ok raw = true ->
  parse_sps_er beyond (escape raw) = parse_sps_br beyond (escape raw).
Proof.
  intros Hb Hz. unfold parse_sps_er, parse_sps_br.
  apply (MRel_run raw (bytes_ok_lt256 raw Hb) false false); [apply rel_parse_sps|exact Hz].
Qed.

Lemma tie_avc_pps raw spsmap :
  bytes_ok raw = true -> zrun_ok raw = true ->
  parse_pps_er spsmap (escape raw) = parse_pps_br spsmap (escape raw).
Proof.
  intros Hb Hz. unfold parse_pps_er, parse_pps_br.
  apply (MRel_run raw (bytes_ok_lt256 raw Hb) true true); [apply rel_parse_pps|exact Hz].
Qed.

Lemma tie_avc_slice raw spsmap ppsmap :
  bytes_ok raw = true -> zrun_ok raw = true ->
  (forall id s, spsmap id = Some s -> sps_narrow s = true) ->
  (forall id p, ppsmap id = Some p -> pps_narrow p = true) ->
  parse_slice_er spsmap ppsmap (escape raw) = parse_slice_br spsmap ppsmap (escape raw).
Proof.
  intros Hb Hz Hs Hp. unfold parse_slice_er, parse_slice_br.
  apply (MRel_run raw (bytes_ok_lt256 raw Hb) true true); [apply rel_parse_slice; assumption|exact Hz].
Qed.
