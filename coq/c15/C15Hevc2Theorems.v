(* C15Hevc2Theorems.v — property C15 for the HEVC PPS with the multilayer extension (reference location
   offsets, colour mapping table with the octant tree) and the 3D extension (depth lookup tables): the
   parser model of hevc.ParsePPSNALUnit (C15Hevc2Model.hparse_pps2, the text of hparse_pps with the two
   extension branches of hevc/pps.go filled in) returns the values that the independent serialiser of
   ISO/IEC 23008-2 F.7.3.2.3.4-6 / I.7.3.2.3.7-8 coded. *)
From V.lib Require Import Base.
From V.c13 Require Import C13Spec C13Model.
From V.c15 Require Import C15Model C15Spec C15HevcModel C15HevcSpec C15Hevc2Model C15Hevc2Spec C15Hevc2Proofs
  C15Hevc2PpsProofs C15Hevc2Examples C15TieBaseProofs C15TieHevc2Proofs C15TieMainProofs.

(* every PPS accepted by hpps2_valid: everything C15_hevc_pps covers (hpps_valid of the part without the
   two flags) plus, when pps_multilayer_extension_flag / pps_3d_extension_flag are set, any number of
   reference location offsets, a colour mapping table with an octant tree of any shape within
   cm_octant_depth <= 3, any depth-layer list with value flags or delta_dlt() *)
Theorem C15_hevc_pps_ext : forall spsmap x,
  hpps2_valid x = true -> spsmap (sx_pps_seq_parameter_set_id (sx2_base x)) = true ->
  hparse_pps2_br spsmap (hnalu_pps2 x) = Ok (expected_hpps2 x).
Proof. exact hevc_pps2. Qed.
Print Assumptions C15_hevc_pps_ext.

Example C15_hevc_pps_ext_hyp :
  hpps2_valid ex_hpps2 = true
  /\ hparse_pps2_br (fun id => id =? 3) (hnalu_pps2 ex_hpps2) = Ok (expected_hpps2 ex_hpps2)
  /\ option_map (fun m => option_map (fun c => lenN (cm_octants c)) (ml_cm m)) (p2_ml (expected_hpps2 ex_hpps2))
     = Some (Some 16)
  /\ option_map (fun m => map rl_layer_id (ml_ref_loc m)) (p2_ml (expected_hpps2 ex_hpps2)) = Some [2; 7]
  /\ option_map (fun d => map (fun l => option_map dd_diffs (dl_delta l)) (d3_layers d)) (p2_3d (expected_hpps2 ex_hpps2))
     = Some [Some [6; 0; 3; 5]; None; None; Some []].
Proof. vm_compute. repeat split; reflexivity. Qed.

(* the reader tie for this parser: every escaped byte string (zrun_ok: see C15TieTheorems.v) *)
Theorem C15_reader_tie_hevc_pps_ext : forall raw spsmap,
  bytes_ok raw = true -> zrun_ok raw = true ->
  hparse_pps2_er spsmap (escape raw) = hparse_pps2_br spsmap (escape raw).
Proof. exact tie_hevc_pps2. Qed.
Print Assumptions C15_reader_tie_hevc_pps_ext.

(* for the EBSP-reader instance, on the bytes after emulation prevention *)
Theorem C15_hevc_pps_ext_er : forall spsmap x,
  hpps2_valid x = true -> spsmap (sx_pps_seq_parameter_set_id (sx2_base x)) = true ->
  zrun_ok (hraw_pps2 x) = true ->
  hparse_pps2_er spsmap (hnalu_pps2 x) = Ok (expected_hpps2 x).
Proof. exact hevc_pps2_er. Qed.
Print Assumptions C15_hevc_pps_ext_er.
Example C15_hevc_pps_ext_er_hyp :
  zrun_ok (hraw_pps2 ex_hpps2) = true /\ lenN (hnalu_pps2 ex_hpps2) = 212.
Proof. vm_compute. repeat split; reflexivity. Qed.
