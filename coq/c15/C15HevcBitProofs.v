(* C15HevcBitProofs.v — generic lemmas for the HEVC parameter-set proofs: splitting u(n+m),
   the two-byte NAL unit header, the bit reader on an HEVC NAL unit, closure lemmas for mapM /
   rep_until_err, `parses_t` (parse in front of a fixed tail) and `runs_to` (whole-program runs),
   more_rbsp_data / sps_extension_data_flag loop, rbsp_trailing_bits + end-of-data check. *)
From V.lib Require Import Base.
From V.c13 Require Import C13Spec C13Model C13EscProofs.
From V.c15 Require Import C15Model C15Spec C15BitProofs C15AvcSpsProofs C15AvcPpsProofs
  C15HevcModel C15HevcSpec.

(* ------------------------------------------------------------------ u(n+m) *)
Lemma ubits_split n m v : ubits (n + m) v = ubits n (v / 2 ^ N.of_nat m) ++ ubits m v.
Proof.
  induction n as [|k IH]; cbn [Nat.add ubits app]; [reflexivity|].
  rewrite IH. f_equal. rewrite N.div_pow2_bits. f_equal. lia.
Qed.

Lemma ubits_mod_gen M v : forall k, N.of_nat k <= M -> ubits k (v mod 2 ^ M) = ubits k v.
Proof.
  induction k as [|j IH]; intros H; cbn [ubits]; [reflexivity|].
  rewrite IH by lia. f_equal. apply N.mod_pow2_bits_low. lia.
Qed.

Lemma u_app n m a b : b < 2 ^ m -> u n a ++ u m b = u (n + m) (a * 2 ^ m + b).
Proof.
  intros Hb. unfold u. rewrite N2Nat.inj_add, ubits_split, N2Nat.id.
  assert (Hnz : 2 ^ m <> 0) by (apply N.pow_nonzero; discriminate).
  f_equal.
  - f_equal. rewrite N.div_add_l by exact Hnz. rewrite N.div_small by exact Hb. lia.
  - rewrite <- (ubits_mod_gen m (a * 2 ^ m + b)) by lia. f_equal.
    rewrite N.add_comm, N.mod_add by exact Hnz. rewrite N.mod_small by exact Hb. reflexivity.
Qed.

Lemma fl_u1 b : fl b = u 1 (b2n b).
Proof. destruct b; reflexivity. Qed.

Lemma b2n_lt2 b : b2n b < 2.
Proof. destruct b; cbn [b2n]; lia. Qed.

Lemma flat_map_fl (l : list bool) : flat_map fl l = l.
Proof. induction l as [|b t IH]; cbn [flat_map fl app]; [reflexivity | now rewrite IH]. Qed.

(* general_progressive_source_flag .. general_inbld_flag as one 48 bit number *)
Lemma constraint48_bits p :
  sx_constraint_43bits p < 2 ^ 43 ->
  fl (sx_progressive_source_flag p) ++ fl (sx_interlaced_source_flag p)
  ++ fl (sx_non_packed_constraint_flag p) ++ fl (sx_frame_only_constraint_flag p)
  ++ u 43 (sx_constraint_43bits p) ++ fl (sx_inbld_flag p) = u 48 (constraint48 p)
  /\ constraint48 p < 2 ^ 48.
Proof.
  intros Hr. unfold constraint48.
  set (r := sx_constraint_43bits p) in *.
  pose proof (b2n_lt2 (sx_progressive_source_flag p)) as Ha.
  pose proof (b2n_lt2 (sx_interlaced_source_flag p)) as Hb.
  pose proof (b2n_lt2 (sx_non_packed_constraint_flag p)) as Hc.
  pose proof (b2n_lt2 (sx_frame_only_constraint_flag p)) as Hd.
  pose proof (b2n_lt2 (sx_inbld_flag p)) as Hi.
  rewrite !fl_u1.
  set (a := b2n (sx_progressive_source_flag p)) in *.
  set (b := b2n (sx_interlaced_source_flag p)) in *.
  set (c := b2n (sx_non_packed_constraint_flag p)) in *.
  set (d := b2n (sx_frame_only_constraint_flag p)) in *.
  set (i := b2n (sx_inbld_flag p)) in *.
  change (2 ^ 43) with 8796093022208 in Hr.
  change (2 ^ 48) with 281474976710656.
  change (2 ^ 47) with 140737488355328. change (2 ^ 46) with 70368744177664.
  change (2 ^ 45) with 35184372088832. change (2 ^ 44) with 17592186044416.
  split; [|lia].
  rewrite (u_app 43 1) by (change (2 ^ 1) with 2; lia).
  rewrite (u_app 1 (43 + 1)) by (change (2 ^ (43 + 1)) with 17592186044416; change (2 ^ 1) with 2; lia).
  rewrite (u_app 1 (1 + (43 + 1)))
    by (change (2 ^ (1 + (43 + 1))) with 35184372088832; change (2 ^ (43 + 1)) with 17592186044416;
        change (2 ^ 1) with 2; lia).
  rewrite (u_app 1 (1 + (1 + (43 + 1))))
    by (change (2 ^ (1 + (1 + (43 + 1)))) with 70368744177664;
        change (2 ^ (1 + (43 + 1))) with 35184372088832; change (2 ^ (43 + 1)) with 17592186044416;
        change (2 ^ 1) with 2; lia).
  rewrite (u_app 1 (1 + (1 + (1 + (43 + 1)))))
    by (change (2 ^ (1 + (1 + (1 + (43 + 1))))) with 140737488355328;
        change (2 ^ (1 + (1 + (43 + 1)))) with 70368744177664;
        change (2 ^ (1 + (43 + 1))) with 35184372088832; change (2 ^ (43 + 1)) with 17592186044416;
        change (2 ^ 1) with 2; lia).
  change (1 + (1 + (1 + (1 + (43 + 1))))) with 48.
  change (2 ^ (1 + (1 + (1 + (43 + 1))))) with 140737488355328.
  change (2 ^ (1 + (1 + (43 + 1)))) with 70368744177664.
  change (2 ^ (1 + (43 + 1))) with 35184372088832. change (2 ^ (43 + 1)) with 17592186044416.
  change (2 ^ 1) with 2.
  f_equal. lia.
Qed.

(* ------------------------------------------------------------------ nal_unit_header (7.3.1.2) *)
Lemma hnal_header_u16 typ layer tid : typ < 64 -> layer < 64 -> tid < 8 ->
  hnal_header typ layer tid = u 16 (512 * typ + 8 * layer + tid)
  /\ 512 * typ + 8 * layer + tid < 2 ^ 16
  /\ hnalu_type (512 * typ + 8 * layer + tid) = typ.
Proof.
  intros Ht Hl Hd. split; [|split].
  - unfold hnal_header. change [false] with (u 1 0).
    rewrite (u_app 6 3) by (change (2 ^ 3) with 8; lia).
    rewrite (u_app 6 (6 + 3)) by (change (2 ^ (6 + 3)) with 512; change (2 ^ 3) with 8; lia).
    rewrite (u_app 1 (6 + (6 + 3)))
      by (change (2 ^ (6 + (6 + 3))) with 32768; change (2 ^ (6 + 3)) with 512; change (2 ^ 3) with 8; lia).
    change (1 + (6 + (6 + 3))) with 16.
    change (2 ^ (6 + (6 + 3))) with 32768. change (2 ^ (6 + 3)) with 512. change (2 ^ 3) with 8.
    f_equal. lia.
  - change (2 ^ 16) with 65536. lia.
  - unfold hnalu_type, u8. rewrite !N.shiftr_div_pow2. change 63 with (N.ones 6).
    rewrite N.land_ones. change (2 ^ 8) with 256. change (2 ^ 1) with 2. change (2 ^ 6) with 64. lia.
Qed.

(* the bit reader started on an HEVC NAL unit sees header, payload, trailing bits *)
Lemma binit_hnalu typ layer tid payload :
  binit (hnalu_of typ layer tid payload) =
  mkB (hraw_nalu typ layer tid payload)
      (hnal_header typ layer tid ++ payload
       ++ trailing_bits (lenN (hnal_header typ layer tid ++ payload)))
      0 false.
Proof.
  unfold binit, hnalu_of. rewrite unescape_escape.
  f_equal. unfold hraw_nalu.
  set (b := hnal_header typ layer tid ++ payload).
  destruct (trailing_aligns (lenN b)) as [m Hm].
  rewrite (bits_of_bytes_of_bits m).
  - unfold b. now rewrite <- app_assoc.
  - rewrite app_length. unfold lenN in Hm. rewrite Nat2N.id in Hm. exact Hm.
Qed.

(* ------------------------------------------------------------------ closure lemmas *)
Lemma parses_mapM {A B X} raw (f : A -> bstate -> res (B * bstate)) (g : X -> A)
      (enc : X -> list bool) (val : X -> B) :
  forall (xs : list X) pos,
    (forall x pos', In x xs -> parses raw (f (g x)) pos' (enc x) (val x)) ->
    parses raw (mapM f (map g xs)) pos (flat_map enc xs) (map val xs).
Proof.
  induction xs as [|x t IH]; intros pos H; cbn [map mapM flat_map].
  - apply parses_ret.
  - eapply parses_bind; [apply H; left; reflexivity|].
    eapply parses_bind_nil; [apply IH; intros; apply H; right; assumption|].
    apply parses_ret.
Qed.

Lemma parses_rep_until_err {A X} raw (body : bstate -> res (A * bstate)) (enc : X -> list bool)
      (val : X -> A) :
  forall (xs : list X) pos,
    (forall x pos', In x xs -> parses raw body pos' (enc x) (val x)) ->
    parses raw (rep_until_err BR (length xs) body) pos (flat_map enc xs) (map val xs).
Proof.
  induction xs as [|x t IH]; intros pos H; cbn [length rep_until_err flat_map map].
  - apply parses_ret.
  - eapply parses_bind; [apply H; left; reflexivity|]. cbv beta.
    eapply parses_bind_peek; [apply parses_get_err|]. cbv beta iota.
    eapply parses_bind_nil; [apply IH; intros; apply H; right; assumption|].
    apply parses_ret.
Qed.

Lemma parses_rep_until_err_n {A X} raw (body : bstate -> res (A * bstate)) (enc : X -> list bool)
      (val : X -> A) (xs : list X) n pos :
  n = lenN xs -> n <= loop_bound ->
  (forall x pos', In x xs -> parses raw body pos' (enc x) (val x)) ->
  parses raw (rep_until_err_n BR n body) pos (flat_map enc xs) (map val xs).
Proof.
  intros -> Hb H. unfold rep_until_err_n.
  replace (lenN xs <=? loop_bound) with true by lia.
  unfold lenN. rewrite Nat2N.id. apply parses_rep_until_err. exact H.
Qed.

(* `rep k body` with a literal k *)
Lemma parses_rep_len {A X} raw (body : bstate -> res (A * bstate)) (enc : X -> list bool) (val : X -> A)
      (xs : list X) (k : nat) pos :
  k = length xs ->
  (forall x pos', In x xs -> parses raw body pos' (enc x) (val x)) ->
  parses raw (rep k body) pos (flat_map enc xs) (map val xs).
Proof. intros ->. apply parses_rep. Qed.

(* optional element whose value is wrapped in Some *)
Lemma parses_opt_some {A} raw (p : bstate -> res (A * bstate)) (c : bool) e (a : A) pos :
  (c = true -> parses raw p pos e a) ->
  parses raw (if c then bind p (fun x => ret (Some x)) else ret None) pos (opt_bits c e)
         (if c then Some a else None).
Proof.
  destruct c; intros H; [|apply parses_ret].
  eapply parses_bind_nil; [apply H; reflexivity | apply parses_ret].
Qed.

(* ------------------------------------------------------------------ parse in front of a fixed tail *)
Definition parses_t {A} (raw : list N) (p : bstate -> res (A * bstate)) (pos : N)
           (enc : list bool) (a : A) (T : list bool) : Prop :=
  p (mkB raw (enc ++ T) pos false) = Ok (a, mkB raw T (pos + lenN enc) false).

Lemma parses_t_of {A} raw (p : bstate -> res (A * bstate)) pos enc (a : A) T :
  parses raw p pos enc a -> parses_t raw p pos enc a T.
Proof. intros H. apply H. Qed.

Lemma parses_t_bind {A B} raw (p : bstate -> res (A * bstate)) (k : A -> bstate -> res (B * bstate))
      pos e1 e2 a b T :
  parses raw p pos e1 a -> parses_t raw (k a) (pos + lenN e1) e2 b T ->
  parses_t raw (bind p k) pos (e1 ++ e2) b T.
Proof.
  intros H1 H2. unfold parses_t, bind in *. rewrite <- app_assoc, H1, H2, lenN_app, N.add_assoc.
  reflexivity.
Qed.

Lemma parses_t_bind_nil {A B} raw (p : bstate -> res (A * bstate)) (k : A -> bstate -> res (B * bstate))
      pos e1 a b T :
  parses_t raw p pos e1 a T -> parses_t raw (k a) (pos + lenN e1) [] b T ->
  parses_t raw (bind p k) pos e1 b T.
Proof.
  intros H1 H2. unfold parses_t, bind in *. rewrite H1. cbn [app] in H2. rewrite H2.
  rewrite lenN_nil, N.add_0_r. reflexivity.
Qed.

Lemma parses_t_ret {A} raw pos (a : A) T : parses_t raw (ret a) pos [] a T.
Proof. apply parses_t_of, parses_ret. Qed.

Lemma parses_t_ret_eq {A} raw pos (a b : A) T : a = b -> parses_t raw (ret a) pos [] b T.
Proof. intros ->. apply parses_t_ret. Qed.

Ltac tbind tac := eapply parses_t_bind; [ tac | cbv beta iota zeta ].

(* ------------------------------------------------------------------ whole-program runs *)
Definition runs_to {A} (raw : list N) (p : bstate -> res (A * bstate)) (pos : N)
           (enc T : list bool) (a : A) : Prop :=
  run p (mkB raw (enc ++ T) pos false) = Ok a.

Lemma runs_bind {A B} raw (p : bstate -> res (A * bstate)) (k : A -> bstate -> res (B * bstate))
      pos e1 e2 T x b :
  parses raw p pos e1 x -> runs_to raw (k x) (pos + lenN e1) e2 T b ->
  runs_to raw (bind p k) pos (e1 ++ e2) T b.
Proof.
  intros H1 H2. unfold runs_to, run, bind in *. rewrite <- app_assoc, H1. exact H2.
Qed.

Lemma runs_bind_peek {A B} raw (p : bstate -> res (A * bstate)) (k : A -> bstate -> res (B * bstate))
      pos e T x b :
  parses raw p pos [] x -> runs_to raw (k x) pos e T b -> runs_to raw (bind p k) pos e T b.
Proof.
  intros H1 H2. change e with ([] ++ e). eapply runs_bind; [exact H1|].
  rewrite lenN_nil, N.add_0_r. exact H2.
Qed.

Lemma runs_bind_t {A B} raw (p : bstate -> res (A * bstate)) (k : A -> bstate -> res (B * bstate))
      pos e T x b :
  parses_t raw p pos e x T -> run (k x) (mkB raw T (pos + lenN e) false) = Ok b ->
  runs_to raw (bind p k) pos e T b.
Proof. intros H1 H2. unfold runs_to, run, bind, parses_t in *. rewrite H1. exact H2. Qed.

Ltac rbind tac := eapply runs_bind; [ tac | cbv beta iota zeta ].

(* ------------------------------------------------------------------ sps/pps_extension_data_flag loop *)
(* at every flag position more_rbsp_data() answers true because the trailing 1 bit follows *)
Lemma hext_data_loop_ok raw n : forall (flags : list bool) (fuel : nat) acc pos,
  (length flags < fuel)%nat ->
  parses_t raw (hext_data_loop BR fuel acc) pos flags (acc ++ flags) (trailing_bits n).
Proof.
  induction flags as [|b t IH]; intros fuel acc pos Hf; (destruct fuel as [|f]; [cbn [length] in Hf; lia|]);
    unfold parses_t; cbn [hext_data_loop].
  - unfold bind at 1. unfold rd_more at 1. cbn [r_more BR app]. rewrite br_more_trailing. cbv iota.
    unfold ret. rewrite app_nil_r, lenN_nil, N.add_0_r. reflexivity.
  - unfold bind at 1. unfold rd_more at 1. cbn [r_more BR]. rewrite br_more_data. cbv iota.
    change ((b :: t) ++ trailing_bits n) with (fl b ++ t ++ trailing_bits n).
    rewrite (bind_parses raw _ _ pos (fl b) b (t ++ trailing_bits n) (parses_flag raw b pos)).
    cbn [length] in Hf.
    rewrite (IH f (acc ++ [b]) (pos + lenN (fl b))) by lia.
    rewrite <- app_assoc. cbn [app]. rewrite lenN_cons, lenN_fl. do 3 f_equal. lia.
Qed.

(* rbsp_trailing_bits and the end-of-data check *)
Lemma hparse_end_ok {A} raw n pos (a : A) :
  run (hparse_end BR a) (mkB raw (trailing_bits n) pos false) = Ok a.
Proof.
  unfold hparse_end, run.
  unfold rd_trailing at 1. unfold bind at 1. cbn [r_trailing BR]. rewrite br_trailing_ok. cbv iota.
  unfold get_err at 1. unfold bind at 1. cbn [r_err BR berr]. cbv iota.
  unfold rd at 1. unfold bind at 1. cbn [r_read BR]. unfold br_read. cbn [berr bbits lenN length].
  change (1 <=? N.of_nat 0) with false. cbv iota.
  unfold get_err at 1. unfold bind at 1. cbn [r_err BR berr bfail negb]. cbv iota.
  unfold ret. reflexivity.
Qed.
