(* C15HevcConfProofs.v — CreateHEVCDecConfRec copies the SPS values and the NAL units into the record
   (hevc_confrec_create); hevc.CodecString writes the codecs parameter of 14496-15 E.3
   (hevc_codec_string): Reverse32 = the 32 flags in reverse order, the strip loop = dropping the
   trailing zero bytes of the six constraint bytes. *)
From V.lib Require Import Base.
From V.c13 Require Import C13Spec C13Model.
From V.c15 Require Import C15Model C15Spec C15BitProofs C15AvcSpsProofs C15HevcModel C15HevcSpec
  C15HevcBitProofs C15HevcConfModel C15HevcConfSpec.
From V.c16 Require Import C16ConfRecModel.

(* ------------------------------------------------------------------ what hsps_valid says about the fields used *)
Lemma hsps_valid_conf v :
  hsps_valid v = true ->
  let g := sx_general (sx_sps_ptl v) in
  sx_profile_space g < 4 /\ sx_profile_idc g < 32 /\ sx_profile_compatibility_flags g < 4294967296
  /\ sx_constraint_43bits g < 2 ^ 43 /\ sx_general_level_idc (sx_sps_ptl v) < 256
  /\ sx_chroma_format_idc v <= 3.
Proof.
  intros Hv. cbv zeta. unfold hsps_valid in Hv. cbv zeta in Hv. split_all.
  unfold hptl_valid, hprofile_valid in *. split_all.
  change (2 ^ 32) with 4294967296 in *.
  repeat split; lia.
Qed.

(* ------------------------------------------------------------------ CreateHEVCDecConfRec *)
Lemma hconf_array_eq c t l : t < 128 -> hconf_array c t l = ((if c then 128 else 0) + t, l).
Proof.
  intros Ht. unfold hconf_array. f_equal. unfold u8. rewrite (N.mod_small t 256) by lia.
  destruct c.
  - change 128 with (1 * 2 ^ 7). rewrite lor_shifted_add by (change (2 ^ 7) with 128; lia). reflexivity.
  - rewrite N.lor_0_l. reflexivity.
Qed.

Lemma hevc_confrec_create parse v vps sps_rest pps vc sc pc inc :
  parse (hnalu_sps v) = Ok (expected_hsps v) ->
  hconf_create parse vps (hnalu_sps v :: sps_rest) pps vc sc pc inc
  = Ok (expected_hconf v vps (hnalu_sps v :: sps_rest) pps vc sc pc inc).
Proof.
  intros Hp. unfold hconf_create. rewrite Hp. unfold expected_hconf. cbv zeta.
  rewrite !hconf_array_eq by lia.
  reflexivity.
Qed.

(* ------------------------------------------------------------------ math/bits.Reverse32 *)
Lemma fold_bval l a :
  fold_left (fun a b => 2 * a + b2n b) l a = a * 2 ^ N.of_nat (length l) + bval l.
Proof.
  unfold bval. revert a. induction l as [|b t IH]; intros a; cbn [fold_left length].
  - change (N.of_nat 0) with 0. rewrite N.pow_0_r. lia.
  - rewrite IH. rewrite (IH (2 * 0 + b2n b)). rewrite Nat2N.inj_succ, N.pow_succ_r'. lia.
Qed.

Lemma bval_cons b l : bval (b :: l) = b2n b * 2 ^ N.of_nat (length l) + bval l.
Proof. unfold bval at 1. cbn [fold_left]. rewrite fold_bval. lia. Qed.

Lemma rev_bits_bval n : forall x, rev_bits n x = bval (rev (ubits n x)).
Proof.
  induction n as [|k IH]; intros x.
  - reflexivity.
  - cbn [rev_bits]. replace (ubits (S k) x) with (ubits (k + 1) x) by (f_equal; lia).
    rewrite ubits_split, rev_app_distr. cbn [ubits rev app].
    rewrite bval_cons, rev_length, ubits_length, b2n_testbit, IH.
    change (N.of_nat 0) with 0. change (N.of_nat 1) with 1.
    rewrite N.pow_0_r, N.pow_1_r, N.div_1_r. reflexivity.
Qed.

(* ------------------------------------------------------------------ bits -> bytes *)
Lemma u_split n m v : u (n + m) v = u n (v / 2 ^ m) ++ u m v.
Proof. unfold u. rewrite N2Nat.inj_add, ubits_split, N2Nat.id. reflexivity. Qed.

Lemma bytes_of_bits_u8 a rest : bytes_of_bits (u 8 a ++ rest) = u8 a :: bytes_of_bits rest.
Proof.
  pose proof (bval_ubits 8 a) as H. unfold bval in H.
  unfold u. change (N.to_nat 8) with 8%nat. cbn [ubits app bytes_of_bits fold_left] in *.
  f_equal. unfold u8. change (2 ^ N.of_nat 8) with 256 in H. rewrite <- H. lia.
Qed.

Lemma bytes_of_bits_u16 a rest :
  bytes_of_bits (u 16 a ++ rest) = u8 (a / 256) :: u8 a :: bytes_of_bits rest.
Proof.
  rewrite (u_split 8 8 a : u 16 a = _), <- app_assoc, !bytes_of_bits_u8. reflexivity.
Qed.

Lemma bytes_of_bits_u32 a rest :
  bytes_of_bits (u 32 a ++ rest)
  = u8 (a / 16777216) :: u8 (a / 65536) :: u8 (a / 256) :: u8 a :: bytes_of_bits rest.
Proof.
  rewrite (u_split 16 16 a : u 32 a = _), <- app_assoc, !bytes_of_bits_u16.
  change (2 ^ 16) with 65536. replace (a / 65536 / 256) with (a / 16777216) by lia. reflexivity.
Qed.

Lemma bytes_of_bits_u48 a rest :
  bytes_of_bits (u 48 a ++ rest)
  = u8 (a / 1099511627776) :: u8 (a / 4294967296) :: u8 (a / 16777216) :: u8 (a / 65536)
    :: u8 (a / 256) :: u8 a :: bytes_of_bits rest.
Proof.
  rewrite (u_split 16 32 a : u 48 a = _), <- app_assoc, bytes_of_bits_u16, bytes_of_bits_u32.
  change (2 ^ 32) with 4294967296. replace (a / 4294967296 / 256) with (a / 1099511627776) by lia.
  reflexivity.
Qed.

(* ------------------------------------------------------------------ the constraint bytes of the codec string *)
Definition cbyte (c : N) (j : nat) : N := N.land (N.shiftr c (8 * N.of_nat j)) 255.
Definition cdot (b : N) : list N := [46] ++ digits 16 b.

Lemma constraint_bytes_map c : forall k,
  constraint_bytes k c = flat_map cdot (map (cbyte c) (rev (seq 0 k))).
Proof.
  induction k as [|j IH]; [reflexivity|].
  rewrite seq_S, rev_app_distr. cbn [constraint_bytes rev app map flat_map Nat.add]. rewrite IH.
  unfold cdot, cbyte. cbn [app]. reflexivity.
Qed.

Lemma cbyte_shift c j : cbyte (N.shiftr c 8) j = cbyte c (S j).
Proof. unfold cbyte. rewrite N.shiftr_shiftr. do 2 f_equal. lia. Qed.

Lemma cbyte_0 c : cbyte c 0 = N.land c 255.
Proof. unfold cbyte. change (8 * N.of_nat 0) with 0. rewrite N.shiftr_0_r. reflexivity. Qed.

Lemma cbyte_u8 c j : cbyte c j = u8 (c / 2 ^ (8 * N.of_nat j)).
Proof. unfold cbyte. rewrite land_255, shiftr_div. reflexivity. Qed.

(* the strip loop keeps the most significant byte and drops the zero bytes below it from the least
   significant end *)
Lemma strip_spec : forall k c,
  let '(c', nr) := strip_zero_bytes k c (N.of_nat (S k)) in
  map (cbyte c') (rev (seq 0 (N.to_nat nr)))
  = cbyte c k :: rev (drop_zero_bytes (map (cbyte c) (seq 0 k))).
Proof.
  induction k as [|k IH]; intros c.
  - reflexivity.
  - cbn [strip_zero_bytes].
    destruct (N.land c 255 =? 0) eqn:E.
    + replace (N.of_nat (S (S k)) - 1) with (N.of_nat (S k)) by lia.
      specialize (IH (N.shiftr c 8)).
      destruct (strip_zero_bytes k (N.shiftr c 8) (N.of_nat (S k))) as [c' nr].
      rewrite IH, cbyte_shift. f_equal. f_equal.
      cbn [seq map]. rewrite cbyte_0. apply N.eqb_eq in E. rewrite E. cbn [drop_zero_bytes].
      rewrite <- seq_shift, map_map. f_equal. apply map_ext. intros j. apply cbyte_shift.
    + rewrite Nat2N.id, seq_S, rev_app_distr. cbn [rev app map Nat.add].
      f_equal. rewrite map_rev. f_equal.
      cbn [seq map]. rewrite cbyte_0.
      destruct (N.land c 255) as [|p]; [discriminate|]. reflexivity.
Qed.

(* ------------------------------------------------------------------ hevc.CodecString *)
Lemma space_char_eq x :
  (if x =? 1 then [65] else if x =? 2 then [66] else if x =? 3 then [67] else [])
  = match x with 1 => [65] | 2 => [66] | 3 => [67] | _ => ([] : list N) end.
Proof. destruct x as [|[[p|p|]|[p|p|]|]]; reflexivity. Qed.

Lemma hevc_codec_string entry v :
  hsps_valid v = true -> hcodec_string entry (expected_hsps v) = spec_hcodec_string entry v.
Proof.
  intros Hv. destruct (hsps_valid_conf v Hv) as (Hs & Hi & Hc & H43 & Hl & Hch). cbv zeta in *.
  destruct (constraint48_bits _ H43) as [Hbits H48].
  unfold hcodec_string, spec_hcodec_string. cbv zeta.
  change (h_ptl (expected_hsps v)) with (expected_hptl (sx_sps_ptl v)).
  unfold expected_hptl. cbn [hp_space hp_tier hp_idc hp_compat hp_constraint hp_level].
  set (g := sx_general (sx_sps_ptl v)) in *.
  pose proof (strip_spec 5 (constraint48 g)) as HS.
  change (N.of_nat 6) with 6 in HS.
  destruct (strip_zero_bytes 5 (constraint48 g) 6) as [c' nr].
  rewrite constraint_bytes_map, HS.
  rewrite space_char_eq, rev_bits_bval.
  unfold hprofile_constraint_bits. rewrite Hbits.
  rewrite <- (app_nil_r (u 48 _)), bytes_of_bits_u48. cbn [bytes_of_bits hd tl rev app seq map].
  set (c := constraint48 g) in *.
  rewrite (cbyte_u8 c 5 : cbyte c 5 = u8 (c / 1099511627776)).
  rewrite (cbyte_u8 c 4 : cbyte c 4 = u8 (c / 4294967296)).
  rewrite (cbyte_u8 c 3 : cbyte c 3 = u8 (c / 16777216)).
  rewrite (cbyte_u8 c 2 : cbyte c 2 = u8 (c / 65536)).
  rewrite (cbyte_u8 c 1 : cbyte c 1 = u8 (c / 256)).
  rewrite (cbyte_u8 c 0 : cbyte c 0 = u8 (c / 1)), N.div_1_r.
  fold cdot. change (fun b : N => [46] ++ digits 16 b) with cdot.
  rewrite <- !app_assoc. reflexivity.
Qed.
