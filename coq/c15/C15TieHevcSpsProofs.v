(* C15TieHevcSpsProofs.v — hevc.ParseSPSNALUnit: whenever the parser model over the ideal bit-list
   reader returns an SPS whose bit depths (minus 8) are at most 48 and whose
   log2_max_pic_order_cnt_lsb_minus4 is at most 52 (the standard allows 8 and 12), the parser model over
   the C13 machine model of bits.EBSPReader returns the same SPS.  (The Go parser reads palette
   predictor initialisers with BitDepth bits and lt_ref_pic_poc_lsb_sps with log2_max_poc_lsb bits
   without range checks; beyond 56 bits the 64-bit accumulator wraps.)  No axioms. *)
From V.lib Require Import Base.
From V.c13 Require Import C13Spec C13Model C13ReaderProofs.
From V.c15 Require Import C15Model C15HevcModel C15TieBaseProofs C15TieRelProofs C15TieAvcProofs C15TieHevcProofs.

Definition hsps_depths_ok (s : hsps) : bool :=
  (h_bdl s <=? 48) && (h_bdc s <=? 48) && (h_log2_poc s <=? 52).

Section HevcSps.
  Variable raw : list N.
  Hypothesis raw_ok : Forall lt256 raw.

  (* ---------------------------------------------------------------- the unconditional pieces *)
  Ltac tie_sub ::= first [ apply MRel_rep_until_err_n | apply MRel_rep ].
  Lemma rel_hprofile st : MRel raw st st (hparse_profile ER) (hparse_profile BR).
  Proof. unfold hparse_profile. tie. Qed.
  Ltac tie_sub ::= first [ apply rel_hprofile ].
  Lemma rel_hsub st f : MRel raw st st (hparse_sub ER f) (hparse_sub BR f).
  Proof. unfold hparse_sub. tie. Qed.
  Lemma rel_hptl st ms : MRel raw st st (hparse_ptl ER ms) (hparse_ptl BR ms).
  Proof. unfold hparse_ptl. tie. all: apply MRel_mapM; intros; apply rel_hsub. Qed.

  Lemma rel_hrps_loop : forall cnt idx num acc,
    MRel raw false false (hparse_rps_loop ER cnt idx num acc) (hparse_rps_loop BR cnt idx num acc).
  Proof.
    induction cnt as [|c IH]; intros idx num acc; cbn [hparse_rps_loop]; [apply MRel_ret|].
    eapply MRel_bind; [apply rel_hst_rps|]. intros s. tie.
  Qed.

  Ltac tie_sub ::= fail.
  Lemma rel_hcpb st sp : MRel raw st st (hparse_cpb ER sp) (hparse_cpb BR sp).
  Proof. unfold hparse_cpb. tie. Qed.
  Ltac tie_sub ::= first [ apply rel_hcpb ].
  Lemma rel_hsubhrd n v sp : MRel raw false false (hparse_subhrd ER n v sp) (hparse_subhrd BR n v sp).
  Proof. unfold hparse_subhrd. tie. Qed.
  Ltac tie_sub ::= first [ apply rel_hsubhrd ].
  Lemma rel_hhrd ms : MRel raw false false (hparse_hrd ER ms) (hparse_hrd BR ms).
  Proof. unfold hparse_hrd. tie. Qed.
  Lemma rel_hbsr st : MRel raw st st (hparse_bsr ER) (hparse_bsr BR).
  Proof. unfold hparse_bsr. tie. Qed.
  Ltac tie_sub ::= first [ apply rel_hhrd | apply rel_hbsr ].
  Lemma rel_hvui ms : MRel raw false false (hparse_vui ER ms) (hparse_vui BR ms).
  Proof. unfold hparse_vui. tie. Qed.

  Ltac tie_sub ::= fail.
  Lemma rel_hsps_3d st : MRel raw st st (hparse_sps_3d ER) (hparse_sps_3d BR).
  Proof. unfold hparse_sps_3d. tie. Qed.

  Ltac tie_sub ::= first [ apply MRel_rep_until_err_n ].
  Ltac tie_rd_side ::= first [ tie_width | lia ].
  Lemma rel_hsps_scc st chroma bdl bdc : bdl <= 48 -> bdc <= 48 ->
    MRel raw st st (hparse_sps_scc ER chroma bdl bdc) (hparse_sps_scc BR chroma bdl bdc).
  Proof. intros H1 H2. unfold hparse_sps_scc. tie. Qed.

  Ltac tie_sub ::= first [ apply MRel_rep | apply rel_hsps_3d | (apply rel_hsps_scc; assumption) | apply rel_hext_data ].
  Lemma rel_hsps_ext st chroma bdl bdc : bdl <= 48 -> bdc <= 48 ->
    MRel raw st st (hparse_sps_ext ER chroma bdl bdc) (hparse_sps_ext BR chroma bdl bdc).
  Proof. intros H1 H2. unfold hparse_sps_ext. tie. Qed.

  (* ---------------------------------------------------------------- the conditional walk *)
  (* whenever the bit-list side returns a value satisfying Q, the machine side returns it too *)
  Definition MRelQ {A} (Q : A -> Prop) (m1 : rstate -> res (A * rstate)) (m2 : bstate -> res (A * bstate)) : Prop :=
    forall s b, Sim raw false s b ->
      match m2 b with Ok (c, _) => Q c -> exists s', m1 s = Ok (c, s') | _ => True end.
  (* the bit-list side never returns a value satisfying Q *)
  Definition NoQ {A} (Q : A -> Prop) (m2 : bstate -> res (A * bstate)) : Prop :=
    forall b, match m2 b with Ok (c, _) => ~ Q c | _ => True end.

  Lemma MRelQ_of {A} (Q : A -> Prop) m1 m2 : MRel raw false false m1 m2 -> MRelQ Q m1 m2.
  Proof.
    intros H s b HS. specialize (H s b HS). unfold ORel in H.
    destruct (m1 s) as [[a1 s1]| | |], (m2 b) as [[a2 b2]| | |]; try contradiction; try exact I.
    destruct H as [-> _]. intros _. exists s1. reflexivity.
  Qed.

  Lemma MRelQ_bind {A B} (Q : B -> Prop) (m1 : rstate -> res (A * rstate)) m2 k1 k2 :
    MRel raw false false m1 m2 -> (forall a, MRelQ Q (k1 a) (k2 a)) -> MRelQ Q (bind m1 k1) (bind m2 k2).
  Proof.
    intros Hm Hk s b HS. specialize (Hm s b HS). unfold bind, ORel in *.
    destruct (m1 s) as [[a1 s1]| | |], (m2 b) as [[a2 b2]| | |]; try contradiction; try exact I.
    destruct Hm as [-> S1]. apply (Hk a2 s1 b2 S1).
  Qed.

  Lemma MRelQ_bind_guard {A B} (G : Prop) (Q : B -> Prop) (m1 : rstate -> res (A * rstate)) m2 k1 k2 :
    (G \/ ~ G) -> (G -> MRel raw false false m1 m2) -> (forall a, MRelQ Q (k1 a) (k2 a)) ->
    (~ G -> NoQ Q (bind m2 k2)) -> MRelQ Q (bind m1 k1) (bind m2 k2).
  Proof.
    intros [HG|HG] Hm Hk Hn.
    - apply MRelQ_bind; [apply Hm; exact HG|exact Hk].
    - intros s b _. specialize (Hn HG b). destruct (bind m2 k2 b) as [[c b']| | |]; try exact I.
      intros HQ. contradiction.
  Qed.

  Lemma NoQ_bind {A B} (Q : B -> Prop) (m : bstate -> res (A * bstate)) k : (forall a, NoQ Q (k a)) -> NoQ Q (bind m k).
  Proof. intros Hk b. unfold bind. destruct (m b) as [[a b1]| | |]; try exact I. apply Hk. Qed.
  Lemma NoQ_fail {A} (Q : A -> Prop) : NoQ Q fail.
  Proof. intros b. exact I. Qed.
  Lemma NoQ_end {A} (Q : A -> Prop) (c : A) : ~ Q c -> NoQ Q (hparse_end BR c).
  Proof.
    intros H b. unfold hparse_end, bind, rd_trailing, get_err, rd, fail, ret.
    destruct (r_trailing BR b) as [tr b1]. destruct tr; [exact I|].
    destruct (r_err BR b1); [exact I|]. destruct (r_read BR b1 1) as [x b2].
    destruct (negb (r_err BR b2)); [exact I|exact H].
  Qed.

  Ltac noq :=
    repeat first
      [ apply NoQ_fail
      | lazymatch goal with |- NoQ _ (bind _ _) => apply NoQ_bind; intros ? end
      | lazymatch goal with
        | |- NoQ _ (if ?c then _ else _) => destruct c
        | |- NoQ _ (match ?x with _ => _ end) => destruct x
        end
      | progress (cbv beta zeta) ].

  Definition Qd (s : hsps) : Prop := h_bdl s <= 48 /\ h_bdc s <= 48 /\ h_log2_poc s <= 52.

  Ltac tie_sub ::= first [ apply MRel_rep | apply rel_hptl | apply rel_hskip | apply rel_hrps_loop | apply rel_hvui
                         | apply rel_hparse_end ].
  Ltac tie_rd_side ::= first [ tie_width | (unfold u8 in *; lia) ].

  Ltac walk :=
    repeat first
      [ lazymatch goal with |- MRelQ _ (bind _ _) (bind _ _) => eapply MRelQ_bind; [solve [tie]|intros ?] end
      | lazymatch goal with
        | |- MRelQ _ (if ?c then _ else _) (if ?c then _ else _) => destruct c eqn:?
        | |- MRelQ _ (match ?x with _ => _ end) (match ?x with _ => _ end) => destruct x eqn:?
        end
      | (apply MRelQ_of; solve [tie])
      | progress (cbv beta zeta) ].

  Lemma relq_hparse_sps : MRelQ Qd (hparse_sps ER) (hparse_sps BR).
  Proof.
    unfold hparse_sps. walk.
    - (* lt_ref_pic_poc_lsb_sps: log2_max_pic_order_cnt_lsb bits *)
      match goal with |- MRelQ _ (bind _ _) (bind (if _ then bind _ (fun n0 => bind (rep_n _ (bind (rd BR (u8 (u8 ?l + 4))) _)) _) else _) _) =>
        eapply (MRelQ_bind_guard (u8 l <= 52)) end.
      + destruct (N.le_gt_cases (u8 a13) 52); [left; assumption|right; lia].
      + intros HG. tie.
      + intros x. walk.
        (* sps extensions: palette predictor initialisers of BitDepth bits *)
        match goal with |- MRelQ _ (bind (hparse_sps_ext ER _ ?bl ?bc) _) _ =>
          eapply (MRelQ_bind_guard (bl <= 48 /\ bc <= 48)) end.
        * destruct (N.le_gt_cases (u8 a11) 48); [|right; lia].
          destruct (N.le_gt_cases (u8 a12) 48); [left; split; assumption|right; lia].
        * intros [H1 H2]. apply rel_hsps_ext; assumption.
        * intros ext. walk.
        * intros HG. noq. apply NoQ_end. unfold Qd. cbn [h_bdl h_bdc h_log2_poc]. lia.
      + intros HG. noq. all: apply NoQ_end; unfold Qd; cbn [h_bdl h_bdc h_log2_poc]; lia.
  Qed.
End HevcSps.

Lemma tie_hevc_sps raw s :
  bytes_ok raw = true -> zrun_ok raw = true ->
  hparse_sps_br (escape raw) = Ok s -> hsps_depths_ok s = true ->
  hparse_sps_er (escape raw) = Ok s.
Proof.
  intros Hb Hz E Hd. unfold hparse_sps_er, hparse_sps_br, run in *.
  pose proof (relq_hparse_sps raw _ _ (Sim_init raw (bytes_ok_lt256 raw Hb) false Hz)) as H.
  destruct (hparse_sps BR (binit (escape raw))) as [[c b']| | |]; try discriminate.
  injection E as ->. unfold hsps_depths_ok in Hd.
  apply andb_true_iff in Hd. destruct Hd as [Hd H3]. apply andb_true_iff in Hd. destruct Hd as [H1 H2].
  destruct H as [s' ->]; [|reflexivity]. unfold Qd. repeat split; lia.
Qed.
