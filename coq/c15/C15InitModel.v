(* C15InitModel.v — executable Gallina models of TrakBox.SetAVCDescriptor and TrakBox.SetHEVCDescriptor
   (mp4/initsegment.go) as far as they consume parameter sets: track-header width/height (16.16 fixed
   point in a uint32), the visual sample entry's 16-bit width/height and the avcC / hvcC record
   (mp4.CreateAvcC / mp4.CreateHvcC wrap avc.CreateAVCDecConfRec / hevc.CreateHEVCDecConfRec).
   seiNALUs is nil in the modelled call.  DEFINITIONS ONLY. *)
From V.lib Require Import Base.
From V.c13 Require Import C13Spec C13Model.
From V.c15 Require Import C15Model C15AvcConfModel C15HevcModel C15HevcConfModel.
From V.c16 Require Import C16ConfRecModel.

(* sampleDescriptorType "avc1" (strict = true) or "avc3"; spsNALUs[0] panics on an empty list *)
Definition ainit_observe (parse : list N -> res sps) (strict : bool) (spss ppss : list (list N))
           (include_ps : bool) : res (list Z) :=
  if strict && negb include_ps then Err else        (* "cannot make avc1 descriptor without parameter sets" *)
  match spss with
  | [] => Panic
  | s0 :: _ =>
      match parse s0 with
      | Ok s =>
          match create_confrec parse spss ppss include_ps with
          | Ok a =>
              Ok ([zn (u32 (u64 (sps_width s * 65536))); zn (u32 (u64 (sps_height s * 65536)));
                   zn (u16 (sps_width s)); zn (u16 (sps_height s))]
                  ++ flat_confrec a
                  ++ (match encode_confrec a with Ok bs => 1%Z :: flat_bytes bs | _ => [0%Z] end))
          | Err => Err | Panic => Panic | OutOfFuel => OutOfFuel
          end
      | Err => Err | Panic => Panic | OutOfFuel => OutOfFuel
      end
  end.

(* sampleDescriptorType "hvc1" (strict = true: parameter sets required and flagged complete) or "hev1" *)
Definition hinit_observe (parse : list N -> res hsps) (strict : bool) (vps spss ppss : list (list N))
           (include_ps : bool) : res (list Z) :=
  match spss with
  | [] => Panic
  | s0 :: _ =>
      match parse s0 with
      | Ok s =>
          let '(w, h) := himage_size s in
          if strict && negb include_ps then Err else  (* "must include parameter sets for hvc1" *)
          match hconf_create parse vps spss ppss strict strict strict include_ps with
          | Ok r =>
              Ok ([zn (u32 (w * 65536)); zn (u32 (h * 65536)); zn (u16 w); zn (u16 h)]
                  ++ flat_hevc_rec r ++ flat_nlist (hconf_encode r))
          | Err => Err | Panic => Panic | OutOfFuel => OutOfFuel
          end
      | Err => Err | Panic => Panic | OutOfFuel => OutOfFuel
      end
  end.
