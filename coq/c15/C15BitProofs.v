(* C15BitProofs.v — the ideal bit reader BR reads back what the descriptors u(n)/ue(v)/se(v)
   of C15Spec wrote; the `parses` relation and its closure lemmas (sequence, repetition). *)
From V.lib Require Import Base.
From V.c13 Require Import C13Spec C13Model C13EscProofs.
From V.c15 Require Import C15Model C15Spec.

(* ------------------------------------------------------------------ lists *)
Lemma firstn_len_app {A} (l r : list A) : firstn (length l) (l ++ r) = l.
Proof. induction l as [|x t IH]; cbn [length firstn app]; [destruct r; reflexivity | now rewrite IH]. Qed.

Lemma skipn_len_app {A} (l r : list A) : skipn (length l) (l ++ r) = r.
Proof. induction l as [|x t IH]; cbn [length skipn app]; [reflexivity | exact IH]. Qed.

Lemma ubits_length n v : length (ubits n v) = n.
Proof. induction n as [|k IH]; cbn [ubits length]; [reflexivity | now rewrite IH]. Qed.

Lemma lenN_u n v : lenN (u n v) = n.
Proof. unfold lenN, u. rewrite ubits_length. lia. Qed.

Lemma lenN_fl b : lenN (fl b) = 1.
Proof. reflexivity. Qed.

Lemma lenN_repeat {A} (x : A) n : lenN (repeat x n) = N.of_nat n.
Proof. unfold lenN. now rewrite repeat_length. Qed.

(* ------------------------------------------------------------------ u(n) *)
Lemma b2n_testbit v k : b2n (N.testbit v k) = (v / 2 ^ k) mod 2.
Proof. rewrite <- N.testbit_spec'. destruct (N.testbit v k); reflexivity. Qed.

Lemma fold_ubits n v a :
  fold_left (fun a b => 2 * a + b2n b) (ubits n v) a = a * 2 ^ N.of_nat n + v mod 2 ^ N.of_nat n.
Proof.
  revert a. induction n as [|k IH]; intros a.
  - cbn [ubits fold_left]. change (N.of_nat 0) with 0. rewrite N.pow_0_r, N.mod_1_r. lia.
  - cbn [ubits fold_left]. rewrite IH, b2n_testbit.
    replace (N.of_nat (S k)) with (N.succ (N.of_nat k)) by lia.
    rewrite N.pow_succ_r'.
    rewrite (N.mul_comm 2 (2 ^ N.of_nat k)).
    rewrite (N.mod_mul_r v (2 ^ N.of_nat k) 2) by (try apply N.pow_nonzero; discriminate).
    lia.
Qed.

Lemma bval_ubits n v : bval (ubits n v) = v mod 2 ^ N.of_nat n.
Proof. unfold bval. rewrite fold_ubits. lia. Qed.

Lemma firstn_ubits_app n v (rest : list bool) : firstn n (ubits n v ++ rest) = ubits n v.
Proof. pattern n at 1. rewrite <- (ubits_length n v). apply firstn_len_app. Qed.

Lemma skipn_ubits_app n v (rest : list bool) : skipn n (ubits n v ++ rest) = rest.
Proof. pattern n at 1. rewrite <- (ubits_length n v). apply skipn_len_app. Qed.

Lemma br_read_u raw n v rest pos :
  v < 2 ^ n ->
  br_read (mkB raw (u n v ++ rest) pos false) n = (v, mkB raw rest (pos + n) false).
Proof.
  intros Hv. unfold br_read. cbn [berr bbits braw bpos].
  rewrite lenN_app, lenN_u.
  replace (n <=? n + lenN rest) with true by lia.
  unfold u.
  rewrite firstn_ubits_app, skipn_ubits_app, bval_ubits.
  rewrite N2Nat.id, N.mod_small by exact Hv. reflexivity.
Qed.

(* ------------------------------------------------------------------ ue(v) / se(v) *)
Lemma lz_count_repeat k r :
  lz_count (repeat false k ++ true :: r) = Some (N.of_nat k, r).
Proof.
  induction k as [|j IH]; cbn [repeat app lz_count]; [reflexivity|].
  rewrite IH. f_equal. f_equal. lia.
Qed.

Lemma log2_bounds v : let k := N.log2 (v + 1) in 2 ^ k <= v + 1 /\ v + 1 < 2 * 2 ^ k.
Proof.
  cbv zeta. assert (H0 : 0 < v + 1) by lia. destruct (N.log2_spec (v + 1) H0) as [H1 H2].
  rewrite N.pow_succ_r' in H2. split; assumption.
Qed.

Lemma lenN_ue_bits v : lenN (ue_bits v) = 2 * N.log2 (v + 1) + 1.
Proof.
  unfold ue_bits. rewrite !lenN_app, lenN_repeat, lenN_u. change (lenN [true]) with 1. lia.
Qed.

Lemma br_ue_bits raw v rest pos :
  br_ue (mkB raw (ue_bits v ++ rest) pos false) = (v, mkB raw rest (pos + lenN (ue_bits v)) false).
Proof.
  unfold br_ue. cbn [berr bbits braw bpos].
  rewrite lenN_ue_bits. unfold ue_bits.
  set (k := N.log2 (v + 1)).
  rewrite <- !app_assoc. cbn [app].
  rewrite lz_count_repeat. rewrite N2Nat.id.
  destruct (log2_bounds v) as [H1 H2]. fold k in H1, H2.
  rewrite br_read_u by lia. cbn [berr].
  f_equal; [lia|]. f_equal. lia.
Qed.

Lemma se_code_odd_even k :
  (if se_code k mod 2 =? 1 then Z.of_N ((se_code k + 1) / 2) else (- Z.of_N (se_code k / 2))%Z) = k.
Proof.
  destruct k as [|p|p]; cbn [se_code].
  - reflexivity.
  - replace ((2 * N.pos p - 1) mod 2 =? 1) with true by lia.
    replace ((2 * N.pos p - 1 + 1) / 2) with (N.pos p) by lia. reflexivity.
  - replace (2 * N.pos p mod 2 =? 1) with false by lia.
    replace (2 * N.pos p / 2) with (N.pos p) by lia. reflexivity.
Qed.

Lemma br_se_bits raw k rest pos :
  br_se (mkB raw (se_bits k ++ rest) pos false) = (k, mkB raw rest (pos + lenN (se_bits k)) false).
Proof.
  unfold br_se, se_bits. rewrite br_ue_bits. cbv beta iota. cbn [berr].
  pose proof (se_code_odd_even k) as H.
  destruct (se_code k mod 2 =? 1); rewrite H; reflexivity.
Qed.

Lemma br_flag_fl raw b rest pos :
  br_flag (mkB raw (fl b ++ rest) pos false) = (b, mkB raw rest (pos + 1) false).
Proof.
  unfold br_flag, br_read, fl. cbn [berr bbits braw bpos app].
  replace (1 <=? lenN (b :: rest)) with true by (rewrite lenN_cons; lia).
  cbn. destruct b; reflexivity.
Qed.

(* ------------------------------------------------------------------ parses *)
Definition parses {A} (raw : list N) (p : bstate -> res (A * bstate)) (pos : N)
           (enc : list bool) (a : A) : Prop :=
  forall rest, p (mkB raw (enc ++ rest) pos false) = Ok (a, mkB raw rest (pos + lenN enc) false).

Lemma parses_ret {A} raw pos (a : A) : parses raw (ret a) pos [] a.
Proof. intros rest. unfold ret. cbn [app]. rewrite lenN_nil, N.add_0_r. reflexivity. Qed.

Lemma parses_ret_eq {A} raw pos (a b : A) : a = b -> parses raw (ret a) pos [] b.
Proof. intros ->. apply parses_ret. Qed.

Lemma parses_bind {A B} raw (p : bstate -> res (A * bstate)) (k : A -> bstate -> res (B * bstate))
      pos e1 e2 a b :
  parses raw p pos e1 a -> parses raw (k a) (pos + lenN e1) e2 b ->
  parses raw (bind p k) pos (e1 ++ e2) b.
Proof.
  intros H1 H2 rest. unfold bind. rewrite <- app_assoc, H1, H2, lenN_app, N.add_assoc. reflexivity.
Qed.

(* last step of a sequence: the continuation consumes nothing *)
Lemma parses_bind_nil {A B} raw (p : bstate -> res (A * bstate)) (k : A -> bstate -> res (B * bstate))
      pos e1 a b :
  parses raw p pos e1 a -> parses raw (k a) (pos + lenN e1) [] b ->
  parses raw (bind p k) pos e1 b.
Proof. intros H1 H2. rewrite <- (app_nil_r e1). eapply parses_bind; eassumption. Qed.

Lemma parses_enc_eq {A} raw (p : bstate -> res (A * bstate)) pos e e' a :
  e = e' -> parses raw p pos e' a -> parses raw p pos e a.
Proof. intros ->. exact (fun H => H). Qed.

Lemma parses_rd raw n v pos : v < 2 ^ n -> parses raw (rd BR n) pos (u n v) v.
Proof. intros Hv rest. unfold rd. cbn [r_read BR]. rewrite br_read_u, lenN_u by exact Hv. reflexivity. Qed.

Lemma parses_flag raw b pos : parses raw (rd_flag BR) pos (fl b) b.
Proof. intros rest. unfold rd_flag. cbn [r_flag BR]. rewrite br_flag_fl, lenN_fl. reflexivity. Qed.

Lemma parses_ue raw v pos : parses raw (rd_ue BR) pos (ue_bits v) v.
Proof. intros rest. unfold rd_ue. cbn [r_ue BR]. rewrite br_ue_bits. reflexivity. Qed.

Lemma parses_se raw k pos : parses raw (rd_se BR) pos (se_bits k) k.
Proof. intros rest. unfold rd_se. cbn [r_se BR]. rewrite br_se_bits. reflexivity. Qed.

Lemma parses_get_nbytes raw pos : parses raw (get_nbytes BR) pos [] (nbytes_at raw pos).
Proof.
  intros rest. unfold get_nbytes. cbn [r_nbytes BR app]. unfold br_nbytes. cbn [berr braw bpos].
  rewrite lenN_nil, N.add_0_r. reflexivity.
Qed.

Lemma parses_get_err raw pos : parses raw (get_err BR) pos [] false.
Proof.
  intros rest. unfold get_err. cbn [r_err BR app berr]. rewrite lenN_nil, N.add_0_r. reflexivity.
Qed.

(* se(v) element read with ReadExpGolomb (the Go code does that in several places) *)
Lemma parses_ue_of_se raw k pos : parses raw (rd_ue BR) pos (se_bits k) (se_code k).
Proof. apply parses_ue. Qed.

(* counted repetition: one encoder per element *)
Lemma parses_rep {A X} raw (body : bstate -> res (A * bstate)) (enc : X -> list bool) (val : X -> A) :
  forall (xs : list X) pos,
    (forall x pos', In x xs -> parses raw body pos' (enc x) (val x)) ->
    parses raw (rep (length xs) body) pos (flat_map enc xs) (map val xs).
Proof.
  induction xs as [|x t IH]; intros pos H; cbn [length rep flat_map map].
  - apply parses_ret.
  - eapply parses_bind; [apply H; left; reflexivity|].
    eapply parses_bind_nil; [apply IH; intros; apply H; right; assumption|].
    apply parses_ret.
Qed.

Lemma parses_rep_n {A X} raw (body : bstate -> res (A * bstate)) (enc : X -> list bool) (val : X -> A)
      (xs : list X) n pos :
  n = lenN xs -> n <= loop_bound ->
  (forall x pos', In x xs -> parses raw body pos' (enc x) (val x)) ->
  parses raw (rep_n n body) pos (flat_map enc xs) (map val xs).
Proof.
  intros -> Hb H. unfold rep_n.
  replace (lenN xs <=? loop_bound) with true by lia.
  unfold lenN. rewrite Nat2N.id. apply parses_rep. exact H.
Qed.

(* ------------------------------------------------------------------ bits <-> bytes *)
Lemma bits_of_bytes_of_bits : forall (n : nat) (l : list bool),
  length l = (8 * n)%nat -> bits_of_bytes (bytes_of_bits l) = l.
Proof.
  induction n as [|k IH]; intros l Hl.
  - destruct l; [reflexivity | discriminate].
  - destruct l as [|b7 [|b6 [|b5 [|b4 [|b3 [|b2 [|b1 [|b0 t]]]]]]]]; try (cbn in Hl; lia).
    cbn [bytes_of_bits bits_of_bytes flat_map].
    fold (bits_of_bytes (bytes_of_bits t)).
    rewrite IH by (cbn [length] in Hl; lia).
    destruct b7, b6, b5, b4, b3, b2, b1, b0; reflexivity.
Qed.

Lemma trailing_aligns n : exists m : nat, (N.to_nat n + length (trailing_bits n) = 8 * m)%nat.
Proof.
  unfold trailing_bits. cbn [length]. rewrite repeat_length.
  exists (N.to_nat ((n + 1 + (8 - (n + 1) mod 8) mod 8) / 8)).
  assert (H : (n + 1 + (8 - (n + 1) mod 8) mod 8) mod 8 = 0) by lia.
  lia.
Qed.

(* the bit reader started on the NAL unit sees header, payload, trailing bits *)
Lemma binit_nalu ref_idc typ payload :
  binit (nalu_of ref_idc typ payload) =
  mkB (raw_nalu ref_idc typ payload)
      (nal_header ref_idc typ ++ payload ++ trailing_bits (lenN (nal_header ref_idc typ ++ payload)))
      0 false.
Proof.
  unfold binit, nalu_of. rewrite unescape_escape.
  f_equal. unfold raw_nalu.
  set (b := nal_header ref_idc typ ++ payload).
  destruct (trailing_aligns (lenN b)) as [m Hm].
  rewrite (bits_of_bytes_of_bits m).
  - unfold b. now rewrite <- app_assoc.
  - rewrite app_length. unfold lenN in Hm. rewrite Nat2N.id in Hm. exact Hm.
Qed.
