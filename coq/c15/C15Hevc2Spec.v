(* C15Hevc2Spec.v — INDEPENDENT serialisers of pps_multilayer_extension() with colour_mapping_table()
   / colour_mapping_octants() (ISO/IEC 23008-2 F.7.3.2.3.4 - F.7.3.2.3.6) and pps_3d_extension() with
   delta_dlt() (I.7.3.2.3.7 / I.7.3.2.3.8), the PPS that carries them, validity (value ranges of
   F.7.4.3.3.4 ff / I.7.4.3.3.7 ff) and the expected parse results.  Definitions only; trusted base. *)
From V.lib Require Import Base.
From V.c13 Require Import C13Spec.
From V.c15 Require Import C15Model C15Spec C15HevcModel C15HevcSpec C15Hevc2Model.

(* ---------------------------------------------------------------- ref location offsets *)
Record refloc_syntax := mkRefLocSyn {
  sx_ref_loc_offset_layer_id : N;
  sx_scaled_ref_layer_offset : option (Z * Z * Z * Z);     (* left, top, right, bottom; None = present flag 0 *)
  sx_ref_region_offset : option (Z * Z * Z * Z);
  sx_resample_phase_set : option (N * N * N * N) }.        (* hor luma, ver luma, hor chroma plus8, ver chroma plus8 *)

Definition ser_se4 (o : option (Z * Z * Z * Z)) : list bool :=
  match o with
  | None => [false]
  | Some (a, b, c, d) => [true] ++ se_bits a ++ se_bits b ++ se_bits c ++ se_bits d
  end.
Definition ser_refloc (x : refloc_syntax) : list bool :=
  u 6 (sx_ref_loc_offset_layer_id x) ++ ser_se4 (sx_scaled_ref_layer_offset x) ++ ser_se4 (sx_ref_region_offset x)
  ++ match sx_resample_phase_set x with
     | None => [false]
     | Some (a, b, c, d) => [true] ++ ue_bits a ++ ue_bits b ++ ue_bits c ++ ue_bits d
     end.

Definition off_ok (k : Z) : bool := (-16384 <=? k)%Z && (k <=? 16383)%Z.
Definition se4_ok (o : option (Z * Z * Z * Z)) : bool :=
  match o with None => true | Some (a, b, c, d) => off_ok a && off_ok b && off_ok c && off_ok d end.
Definition refloc_valid (x : refloc_syntax) : bool :=
  (sx_ref_loc_offset_layer_id x <? 64) && se4_ok (sx_scaled_ref_layer_offset x) && se4_ok (sx_ref_region_offset x)
  && match sx_resample_phase_set x with
     | None => true
     | Some (a, b, c, d) => (a <=? 31) && (b <=? 31) && (c <=? 63) && (d <=? 63)
     end.

Definition expected_se4 (o : option (Z * Z * Z * Z)) : Z * Z * Z * Z :=
  match o with None => (0%Z, 0%Z, 0%Z, 0%Z) | Some t => t end.
Definition expected_refloc (x : refloc_syntax) : hrefloc :=
  let '(sl, st, sr, sb) := expected_se4 (sx_scaled_ref_layer_offset x) in
  let '(rl, rt, rr, rb) := expected_se4 (sx_ref_region_offset x) in
  let '(p1, p2, p3, p4) := match sx_resample_phase_set x with None => (0, 0, 0, 0) | Some t => t end in
  mkHRefLoc (sx_ref_loc_offset_layer_id x)
            (match sx_scaled_ref_layer_offset x with None => false | Some _ => true end) sl st sr sb
            (match sx_ref_region_offset x with None => false | Some _ => true end) rl rt rr rb
            (match sx_resample_phase_set x with None => false | Some _ => true end) p1 p2 p3 p4.

(* ---------------------------------------------------------------- colour mapping octants *)
(* a vertex: None = coded_res_flag 0, Some [c0; c1; c2] with c = (res_coeff_q, res_coeff_r, res_coeff_s) *)
Definition vertex_syntax := option (list (N * N * bool)).
(* the octant tree: a leaf carries PartNumY parts of 4 vertices *)
Inductive otree :=
| OLeaf (parts : list (list vertex_syntax))
| OSplit (c0 c1 c2 c3 c4 c5 c6 c7 : otree).

Definition ser_coef (res_bits : N) (c : N * N * bool) : list bool :=
  let '(q, r, s) := c in
  ue_bits q ++ u res_bits r ++ opt_bits (negb (q =? 0) || negb (r =? 0)) (fl s).
Definition ser_vertex (res_bits : N) (v : vertex_syntax) : list bool :=
  match v with None => [false] | Some cs => [true] ++ flat_map (ser_coef res_bits) cs end.
Definition ser_part (res_bits : N) (p : list vertex_syntax) : list bool := flat_map (ser_vertex res_bits) p.

Fixpoint ser_octants (depth res_bits inp_depth : N) (t : otree) : list bool :=
  match t with
  | OLeaf parts => opt_bits (inp_depth <? depth) [false] ++ flat_map (ser_part res_bits) parts
  | OSplit c0 c1 c2 c3 c4 c5 c6 c7 =>
      [true]
      ++ ser_octants depth res_bits (inp_depth + 1) c0 ++ ser_octants depth res_bits (inp_depth + 1) c1
      ++ ser_octants depth res_bits (inp_depth + 1) c2 ++ ser_octants depth res_bits (inp_depth + 1) c3
      ++ ser_octants depth res_bits (inp_depth + 1) c4 ++ ser_octants depth res_bits (inp_depth + 1) c5
      ++ ser_octants depth res_bits (inp_depth + 1) c6 ++ ser_octants depth res_bits (inp_depth + 1) c7
  end.

Definition coef_ok (res_bits : N) (c : N * N * bool) : bool :=
  let '(q, r, s) := c in
  ue_ok q && (r <? 2 ^ res_bits) && (if (q =? 0) && (r =? 0) then negb s else true).
Definition vertex_ok (res_bits : N) (v : vertex_syntax) : bool :=
  match v with None => true | Some cs => (lenN cs =? 3) && forallb (coef_ok res_bits) cs end.
Definition part_ok (res_bits : N) (p : list vertex_syntax) : bool := (lenN p =? 4) && forallb (vertex_ok res_bits) p.

Fixpoint otree_valid (depth part_num_y res_bits inp_depth : N) (t : otree) : bool :=
  match t with
  | OLeaf parts => (lenN parts =? part_num_y) && forallb (part_ok res_bits) parts
  | OSplit c0 c1 c2 c3 c4 c5 c6 c7 =>
      (inp_depth <? depth)
      && otree_valid depth part_num_y res_bits (inp_depth + 1) c0 && otree_valid depth part_num_y res_bits (inp_depth + 1) c1
      && otree_valid depth part_num_y res_bits (inp_depth + 1) c2 && otree_valid depth part_num_y res_bits (inp_depth + 1) c3
      && otree_valid depth part_num_y res_bits (inp_depth + 1) c4 && otree_valid depth part_num_y res_bits (inp_depth + 1) c5
      && otree_valid depth part_num_y res_bits (inp_depth + 1) c6 && otree_valid depth part_num_y res_bits (inp_depth + 1) c7
  end.

Definition expected_vertex (v : vertex_syntax) : bool * list hcoef :=
  match v with
  | None => (false, [mkHCoef 0 0 false; mkHCoef 0 0 false; mkHCoef 0 0 false])
  | Some cs => (true, map (fun c => let '(q, r, s) := c in mkHCoef q r s) cs)
  end.

(* idxShiftY = idxY + ( i << ( cm_octant_depth - inpDepth ) ) *)
Fixpoint expected_leaf (parts : list (list vertex_syntax)) (i shift idxY idxCb idxCr : N) : list hoctant :=
  match parts with
  | [] => []
  | p :: t => (idxY + N.shiftl i shift, idxCb, idxCr, map expected_vertex p)
              :: expected_leaf t (i + 1) shift idxY idxCb idxCr
  end.

(* colour_mapping_octants( inpDepth + 1, idxY + PartNumY * k * inpLength / 2, idxCb + m * inpLength / 2,
   idxCr + n * inpLength / 2, inpLength / 2 ) for k, m, n = 0..1 *)
Fixpoint expected_octants (depth pn inp_depth idxY idxCb idxCr inp_len : N) (t : otree) : list hoctant :=
  match t with
  | OLeaf parts => expected_leaf parts 0 (depth - inp_depth) idxY idxCb idxCr
  | OSplit c0 c1 c2 c3 c4 c5 c6 c7 =>
      let ch (k m n : N) (c : otree) :=
        expected_octants depth pn (inp_depth + 1) (idxY + pn * k * inp_len / 2) (idxCb + m * inp_len / 2)
                         (idxCr + n * inp_len / 2) (inp_len / 2) c in
      ch 0 0 0 c0 ++ ch 0 0 1 c1 ++ ch 0 1 0 c2 ++ ch 0 1 1 c3 ++ ch 1 0 0 c4 ++ ch 1 0 1 c5 ++ ch 1 1 0 c6 ++ ch 1 1 1 c7
  end.

(* ---------------------------------------------------------------- colour_mapping_table *)
Record cm_syntax := mkCmSyn {
  sx_cm_ref_layer_id : list N;                (* num_cm_ref_layers_minus1 + 1 entries *)
  sx_cm_octant_depth : N; sx_cm_y_part_num_log2 : N;
  sx_luma_bit_depth_cm_input_minus8 : N; sx_chroma_bit_depth_cm_input_minus8 : N;
  sx_luma_bit_depth_cm_output_minus8 : N; sx_chroma_bit_depth_cm_output_minus8 : N;
  sx_cm_res_quant_bits : N; sx_cm_delta_flc_bits_minus1 : N;
  sx_cm_adapt_threshold_u_delta : Z; sx_cm_adapt_threshold_v_delta : Z;
  sx_cm_octants : otree }.

(* CMResLSBits = Max( 0, ( 10 + BitDepthCmInputY - BitDepthCmOutputY - cm_res_quant_bits - ( cm_delta_flc_bits_minus1 + 1 ) ) ) *)
Definition cm_res_ls_bits (x : cm_syntax) : N :=
  Z.to_N (Z.max 0 (10 + Z.of_N (8 + sx_luma_bit_depth_cm_input_minus8 x) - Z.of_N (8 + sx_luma_bit_depth_cm_output_minus8 x)
                   - Z.of_N (sx_cm_res_quant_bits x) - Z.of_N (sx_cm_delta_flc_bits_minus1 x + 1))).

Definition ser_cm (x : cm_syntax) : list bool :=
  ue_bits (lenN (sx_cm_ref_layer_id x) - 1) ++ flat_map (u 6) (sx_cm_ref_layer_id x)
  ++ u 2 (sx_cm_octant_depth x) ++ u 2 (sx_cm_y_part_num_log2 x)
  ++ ue_bits (sx_luma_bit_depth_cm_input_minus8 x) ++ ue_bits (sx_chroma_bit_depth_cm_input_minus8 x)
  ++ ue_bits (sx_luma_bit_depth_cm_output_minus8 x) ++ ue_bits (sx_chroma_bit_depth_cm_output_minus8 x)
  ++ u 2 (sx_cm_res_quant_bits x) ++ u 2 (sx_cm_delta_flc_bits_minus1 x)
  ++ opt_bits (sx_cm_octant_depth x =? 1)
       (se_bits (sx_cm_adapt_threshold_u_delta x) ++ se_bits (sx_cm_adapt_threshold_v_delta x))
  ++ ser_octants (sx_cm_octant_depth x) (cm_res_ls_bits x) 0 (sx_cm_octants x).

Definition cm_valid (x : cm_syntax) : bool :=
  (1 <=? lenN (sx_cm_ref_layer_id x)) && (lenN (sx_cm_ref_layer_id x) <=? 62)
  && forallb (fun i => i <? 64) (sx_cm_ref_layer_id x)
  && (sx_cm_octant_depth x <? 4) && (sx_cm_y_part_num_log2 x <? 4)     (* the standard: depth <= 1, log2 <= 3 - depth *)
  && (sx_luma_bit_depth_cm_input_minus8 x <=? 8) && (sx_chroma_bit_depth_cm_input_minus8 x <=? 8)
  && (sx_luma_bit_depth_cm_output_minus8 x <=? 8) && (sx_chroma_bit_depth_cm_output_minus8 x <=? 8)
  && (sx_cm_res_quant_bits x <? 4) && (sx_cm_delta_flc_bits_minus1 x <? 4)
  && se_ok (sx_cm_adapt_threshold_u_delta x) && se_ok (sx_cm_adapt_threshold_v_delta x)
  && otree_valid (sx_cm_octant_depth x) (2 ^ sx_cm_y_part_num_log2 x) (cm_res_ls_bits x) 0 (sx_cm_octants x).

Definition expected_cm (x : cm_syntax) : hcm :=
  let d1 := sx_cm_octant_depth x =? 1 in
  mkHCm (lenN (sx_cm_ref_layer_id x) - 1) (sx_cm_ref_layer_id x) (sx_cm_octant_depth x) (sx_cm_y_part_num_log2 x)
        (sx_luma_bit_depth_cm_input_minus8 x) (sx_chroma_bit_depth_cm_input_minus8 x)
        (sx_luma_bit_depth_cm_output_minus8 x) (sx_chroma_bit_depth_cm_output_minus8 x)
        (sx_cm_res_quant_bits x) (sx_cm_delta_flc_bits_minus1 x)
        (if d1 then sx_cm_adapt_threshold_u_delta x else 0%Z) (if d1 then sx_cm_adapt_threshold_v_delta x else 0%Z)
        (expected_octants (sx_cm_octant_depth x) (2 ^ sx_cm_y_part_num_log2 x) 0 0 0 0 (2 ^ sx_cm_octant_depth x)
                          (sx_cm_octants x)).

(* ---------------------------------------------------------------- pps_multilayer_extension *)
Record ppsml_syntax := mkPpsMlSyn {
  sx_poc_reset_info_present_flag : bool;
  sx_pps_infer_scaling_list_flag : bool; sx_pps_scaling_list_ref_layer_id : N;
  sx_ref_loc_offsets : list refloc_syntax;                  (* num_ref_loc_offsets entries *)
  sx_colour_mapping_enabled_flag : bool; sx_colour_mapping_table : cm_syntax }.

Definition ser_ppsml (x : ppsml_syntax) : list bool :=
  fl (sx_poc_reset_info_present_flag x) ++ fl (sx_pps_infer_scaling_list_flag x)
  ++ opt_bits (sx_pps_infer_scaling_list_flag x) (u 6 (sx_pps_scaling_list_ref_layer_id x))
  ++ ue_bits (lenN (sx_ref_loc_offsets x)) ++ flat_map ser_refloc (sx_ref_loc_offsets x)
  ++ fl (sx_colour_mapping_enabled_flag x)
  ++ opt_bits (sx_colour_mapping_enabled_flag x) (ser_cm (sx_colour_mapping_table x)).

Definition ppsml_valid (x : ppsml_syntax) : bool :=
  (sx_pps_scaling_list_ref_layer_id x <? 63)
  && (lenN (sx_ref_loc_offsets x) <=? 62) && forallb refloc_valid (sx_ref_loc_offsets x)
  && (if sx_colour_mapping_enabled_flag x then cm_valid (sx_colour_mapping_table x) else true).

Definition expected_ppsml (x : ppsml_syntax) : hppsml :=
  mkHPpsMl (sx_poc_reset_info_present_flag x) (sx_pps_infer_scaling_list_flag x)
           (if sx_pps_infer_scaling_list_flag x then sx_pps_scaling_list_ref_layer_id x else 0)
           (lenN (sx_ref_loc_offsets x)) (map expected_refloc (sx_ref_loc_offsets x))
           (sx_colour_mapping_enabled_flag x)
           (if sx_colour_mapping_enabled_flag x then Some (expected_cm (sx_colour_mapping_table x)) else None).

(* ---------------------------------------------------------------- pps_3d_extension / delta_dlt *)
Record deltadlt_syntax := mkDeltaDltSyn {
  sx_num_val_delta_dlt : N; sx_max_diff : N; sx_min_diff_minus1 : N; sx_delta_dlt_val0 : N;
  sx_delta_val_diff_minus_min : list N }.      (* num_val_delta_dlt - 1 entries when max_diff > min_diff_minus1 + 1 *)

(* the values in force: max_diff is inferred 0 and min_diff_minus1 inferred max_diff - 1 when not present *)
Definition dd_has_max (x : deltadlt_syntax) : bool := 1 <? sx_num_val_delta_dlt x.
Definition dd_max (x : deltadlt_syntax) : N := if dd_has_max x then sx_max_diff x else 0.
Definition dd_has_min (x : deltadlt_syntax) : bool := (2 <? sx_num_val_delta_dlt x) && (0 <? dd_max x).
Definition dd_has_diffs (x : deltadlt_syntax) : bool :=
  (0 <? sx_num_val_delta_dlt x) && (if dd_has_min x then sx_min_diff_minus1 x + 1 <? dd_max x else false).

Definition ser_deltadlt (bd : N) (x : deltadlt_syntax) : list bool :=
  u bd (sx_num_val_delta_dlt x)
  ++ opt_bits (0 <? sx_num_val_delta_dlt x)
       (opt_bits (dd_has_max x) (u bd (sx_max_diff x))
        ++ opt_bits (dd_has_min x) (u (ceil_log2 (dd_max x + 1)) (sx_min_diff_minus1 x))
        ++ u bd (sx_delta_dlt_val0 x)
        ++ opt_bits (dd_has_diffs x)
             (flat_map (u (ceil_log2 (dd_max x - (sx_min_diff_minus1 x + 1) + 1))) (sx_delta_val_diff_minus_min x))).

Definition deltadlt_valid (bd : N) (x : deltadlt_syntax) : bool :=
  (sx_num_val_delta_dlt x <? 2 ^ bd) && (sx_max_diff x <? 2 ^ bd) && (sx_delta_dlt_val0 x <? 2 ^ bd)
  && (if dd_has_min x then sx_min_diff_minus1 x <? 2 ^ ceil_log2 (dd_max x + 1) else true)
  && (if dd_has_diffs x
      then (lenN (sx_delta_val_diff_minus_min x) =? sx_num_val_delta_dlt x - 1)
           && forallb (fun d => d <? 2 ^ ceil_log2 (dd_max x - (sx_min_diff_minus1 x + 1) + 1))
                (sx_delta_val_diff_minus_min x)
      else true).

(* MinDiffMinus1 is a Go uint: the inferred max_diff - 1 of max_diff = 0 is 2^64 - 1 *)
Definition expected_deltadlt (x : deltadlt_syntax) : hdeltadlt :=
  let nz := 0 <? sx_num_val_delta_dlt x in
  mkHDeltaDlt (sx_num_val_delta_dlt x) (if nz then dd_max x else 0)
              (if nz then (if dd_has_min x then sx_min_diff_minus1 x
                           else if dd_max x =? 0 then 18446744073709551615 else dd_max x - 1) else 0)
              (if nz then sx_delta_dlt_val0 x else 0)
              (if dd_has_diffs x then sx_delta_val_diff_minus_min x else []).

Inductive dlayer_syntax :=
| DlNone                                           (* dlt_flag 0 *)
| DlFlags (vals : list bool)                       (* dlt_pred_flag 0, dlt_val_flags_present_flag 1: depthMaxValue + 1 flags *)
| DlDelta (pred : bool) (d : deltadlt_syntax).     (* delta_dlt(); with pred = 0: dlt_val_flags_present_flag 0 *)

Definition ser_dlayer (bd : N) (l : dlayer_syntax) : list bool :=
  match l with
  | DlNone => [false]
  | DlFlags vals => [true; false; true] ++ vals
  | DlDelta true d => [true; true] ++ ser_deltadlt bd d
  | DlDelta false d => [true; false; false] ++ ser_deltadlt bd d
  end.
Definition dlayer_valid (bd : N) (l : dlayer_syntax) : bool :=
  match l with
  | DlNone => true
  | DlFlags vals => lenN vals =? 2 ^ bd
  | DlDelta _ d => deltadlt_valid bd d
  end.
Definition expected_dlayer (l : dlayer_syntax) : hdlayer :=
  match l with
  | DlNone => mkHDLayer false false false [] None
  | DlFlags vals => mkHDLayer true false true vals None
  | DlDelta p d => mkHDLayer true p false [] (Some (expected_deltadlt d))
  end.

Record pps3d_syntax := mkPps3dSyn {
  sx_dlts_present_flag : bool; sx_pps_bit_depth_for_depth_layers_minus8 : N;
  sx_depth_layers : list dlayer_syntax }.       (* pps_depth_layers_minus1 + 1 entries *)

Definition ser_pps3d (x : pps3d_syntax) : list bool :=
  fl (sx_dlts_present_flag x)
  ++ opt_bits (sx_dlts_present_flag x)
       (u 6 (lenN (sx_depth_layers x) - 1) ++ u 4 (sx_pps_bit_depth_for_depth_layers_minus8 x)
        ++ flat_map (ser_dlayer (sx_pps_bit_depth_for_depth_layers_minus8 x + 8)) (sx_depth_layers x)).

Definition pps3d_valid (x : pps3d_syntax) : bool :=
  (sx_pps_bit_depth_for_depth_layers_minus8 x <=? 8)
  && (1 <=? lenN (sx_depth_layers x)) && (lenN (sx_depth_layers x) <=? 64)
  && forallb (dlayer_valid (sx_pps_bit_depth_for_depth_layers_minus8 x + 8)) (sx_depth_layers x).

Definition expected_pps3d (x : pps3d_syntax) : hpps3d :=
  let p := sx_dlts_present_flag x in
  mkHPps3d p (if p then lenN (sx_depth_layers x) - 1 else 0)
           (if p then sx_pps_bit_depth_for_depth_layers_minus8 x else 0)
           (if p then map expected_dlayer (sx_depth_layers x) else []).

(* ---------------------------------------------------------------- the PPS carrying the extensions *)
(* b: the rest of the PPS (its two extension flags are what b says); the extension payloads are coded
   between pps_range_extension() and pps_scc_extension() *)
Record hpps2_syntax := mkHPps2Syn { sx2_base : hpps_syntax; sx2_ml : ppsml_syntax; sx2_3d : pps3d_syntax }.

(* the base syntax with the two extension flags cleared: what C15HevcSpec.hpps_valid speaks about *)
Definition hpps_no_ext (v : hpps_syntax) : hpps_syntax :=
  mkHPpsSyn (sx_pps_nuh_layer_id v) (sx_pps_nuh_temporal_id_plus1 v) (sx_pps_pic_parameter_set_id v)
    (sx_pps_seq_parameter_set_id v) (sx_dependent_slice_segments_enabled_flag v) (sx_output_flag_present_flag v)
    (sx_num_extra_slice_header_bits v) (sx_sign_data_hiding_enabled_flag v) (sx_cabac_init_present_flag v)
    (sx_num_ref_idx_l0_default_active_minus1 v) (sx_num_ref_idx_l1_default_active_minus1 v) (sx_init_qp_minus26 v)
    (sx_constrained_intra_pred_flag v) (sx_transform_skip_enabled_flag v) (sx_cu_qp_delta_enabled_flag v)
    (sx_diff_cu_qp_delta_depth v) (sx_pps_cb_qp_offset v) (sx_pps_cr_qp_offset v)
    (sx_pps_slice_chroma_qp_offsets_present_flag v) (sx_weighted_pred_flag v) (sx_weighted_bipred_flag v)
    (sx_transquant_bypass_enabled_flag v) (sx_tiles_enabled_flag v) (sx_entropy_coding_sync_enabled_flag v)
    (sx_num_tile_columns_minus1 v) (sx_num_tile_rows_minus1 v) (sx_uniform_spacing_flag v)
    (sx_column_width_minus1 v) (sx_row_height_minus1 v) (sx_loop_filter_across_tiles_enabled_flag v)
    (sx_pps_loop_filter_across_slices_enabled_flag v) (sx_deblocking_filter_control_present_flag v)
    (sx_deblocking_filter_override_enabled_flag v) (sx_pps_deblocking_filter_disabled_flag v)
    (sx_pps_beta_offset_div2 v) (sx_pps_tc_offset_div2 v) (sx_pps_scaling_list_data_present_flag v)
    (sx_pps_scaling_list v) (sx_lists_modification_present_flag v) (sx_log2_parallel_merge_level_minus2 v)
    (sx_slice_segment_header_extension_present_flag v) (sx_pps_extension_present_flag v)
    (sx_pps_range_extension_flag v) false false (sx_pps_scc_extension_flag v) (sx_pps_extension_4bits v)
    (sx_pps_range_extension v) (sx_pps_scc_extension v) (sx_pps_extension_data_flags v).

Definition ser_hpps2 (x : hpps2_syntax) : list bool :=
  let v := sx2_base x in
  ue_bits (sx_pps_pic_parameter_set_id v) ++ ue_bits (sx_pps_seq_parameter_set_id v)
  ++ fl (sx_dependent_slice_segments_enabled_flag v) ++ fl (sx_output_flag_present_flag v)
  ++ u 3 (sx_num_extra_slice_header_bits v) ++ fl (sx_sign_data_hiding_enabled_flag v)
  ++ fl (sx_cabac_init_present_flag v)
  ++ ue_bits (sx_num_ref_idx_l0_default_active_minus1 v) ++ ue_bits (sx_num_ref_idx_l1_default_active_minus1 v)
  ++ se_bits (sx_init_qp_minus26 v) ++ fl (sx_constrained_intra_pred_flag v)
  ++ fl (sx_transform_skip_enabled_flag v) ++ fl (sx_cu_qp_delta_enabled_flag v)
  ++ opt_bits (sx_cu_qp_delta_enabled_flag v) (ue_bits (sx_diff_cu_qp_delta_depth v))
  ++ se_bits (sx_pps_cb_qp_offset v) ++ se_bits (sx_pps_cr_qp_offset v)
  ++ fl (sx_pps_slice_chroma_qp_offsets_present_flag v) ++ fl (sx_weighted_pred_flag v)
  ++ fl (sx_weighted_bipred_flag v) ++ fl (sx_transquant_bypass_enabled_flag v)
  ++ fl (sx_tiles_enabled_flag v) ++ fl (sx_entropy_coding_sync_enabled_flag v)
  ++ opt_bits (sx_tiles_enabled_flag v)
       (ue_bits (sx_num_tile_columns_minus1 v) ++ ue_bits (sx_num_tile_rows_minus1 v)
        ++ fl (sx_uniform_spacing_flag v)
        ++ opt_bits (negb (sx_uniform_spacing_flag v))
             (flat_map ue_bits (sx_column_width_minus1 v) ++ flat_map ue_bits (sx_row_height_minus1 v))
        ++ fl (sx_loop_filter_across_tiles_enabled_flag v))
  ++ fl (sx_pps_loop_filter_across_slices_enabled_flag v)
  ++ fl (sx_deblocking_filter_control_present_flag v)
  ++ opt_bits (sx_deblocking_filter_control_present_flag v)
       (fl (sx_deblocking_filter_override_enabled_flag v) ++ fl (sx_pps_deblocking_filter_disabled_flag v)
        ++ opt_bits (negb (sx_pps_deblocking_filter_disabled_flag v))
             (se_bits (sx_pps_beta_offset_div2 v) ++ se_bits (sx_pps_tc_offset_div2 v)))
  ++ fl (sx_pps_scaling_list_data_present_flag v)
  ++ opt_bits (sx_pps_scaling_list_data_present_flag v) (ser_hsl (sx_pps_scaling_list v))
  ++ fl (sx_lists_modification_present_flag v) ++ ue_bits (sx_log2_parallel_merge_level_minus2 v)
  ++ fl (sx_slice_segment_header_extension_present_flag v)
  ++ fl (sx_pps_extension_present_flag v)
  ++ opt_bits (sx_pps_extension_present_flag v)
       (fl (sx_pps_range_extension_flag v) ++ fl (sx_pps_multilayer_extension_flag v)
        ++ fl (sx_pps_3d_extension_flag v) ++ fl (sx_pps_scc_extension_flag v)
        ++ u 4 (sx_pps_extension_4bits v))
  ++ opt_bits (hpps_ext_on v sx_pps_range_extension_flag)
       (ser_hppsrange (sx_transform_skip_enabled_flag v) (sx_pps_range_extension v))
  ++ opt_bits (hpps_ext_on v sx_pps_multilayer_extension_flag) (ser_ppsml (sx2_ml x))
  ++ opt_bits (hpps_ext_on v sx_pps_3d_extension_flag) (ser_pps3d (sx2_3d x))
  ++ opt_bits (hpps_ext_on v sx_pps_scc_extension_flag) (ser_hppsscc (sx_pps_scc_extension v))
  ++ opt_bits (0 <? hpps_ext4 v) (sx_pps_extension_data_flags v).

Definition hraw_pps2 (x : hpps2_syntax) : list N :=
  hraw_nalu 34 (sx_pps_nuh_layer_id (sx2_base x)) (sx_pps_nuh_temporal_id_plus1 (sx2_base x)) (ser_hpps2 x).
Definition hnalu_pps2 (x : hpps2_syntax) : list N :=
  hnalu_of 34 (sx_pps_nuh_layer_id (sx2_base x)) (sx_pps_nuh_temporal_id_plus1 (sx2_base x)) (ser_hpps2 x).

Definition hpps2_valid (x : hpps2_syntax) : bool :=
  hpps_valid (hpps_no_ext (sx2_base x))
  && (if hpps_ext_on (sx2_base x) sx_pps_multilayer_extension_flag then ppsml_valid (sx2_ml x) else true)
  && (if hpps_ext_on (sx2_base x) sx_pps_3d_extension_flag then pps3d_valid (sx2_3d x) else true).

(* the base part: expected_hpps of the syntax without the two flags, with the flags put back *)
Definition expected_hpps2 (x : hpps2_syntax) : hpps2 :=
  let v := sx2_base x in
  let e := expected_hpps (hpps_no_ext v) in
  let mf := hpps_ext_on v sx_pps_multilayer_extension_flag in
  let df := hpps_ext_on v sx_pps_3d_extension_flag in
  mkHPps2
    (mkHPps (pp_id e) (pp_sps_id e) (pp_dep_slices e) (pp_output_flag_present e) (pp_num_extra_bits e)
            (pp_sign_hiding e) (pp_cabac_init_present e) (pp_l0 e) (pp_l1 e) (pp_init_qp e) (pp_constrained_intra e)
            (pp_transform_skip e) (pp_cu_qp_delta e) (pp_diff_cu_qp_delta_depth e) (pp_cb_qp e) (pp_cr_qp e)
            (pp_slice_chroma_qp_present e) (pp_weighted_pred e) (pp_weighted_bipred e) (pp_transquant_bypass e)
            (pp_tiles e) (pp_entropy_sync e) (pp_tile_cols e) (pp_tile_rows e) (pp_uniform e)
            (pp_col_widths e) (pp_row_heights e) (pp_lf_across_tiles e) (pp_lf_across_slices e)
            (pp_dbf_control e) (pp_dbf_override_enabled e) (pp_dbf_disabled e) (pp_beta e)
            (pp_tc e) (pp_scaling_data e) (pp_lists_mod e) (pp_log2_par_merge e)
            (pp_slice_ext_present e) (pp_ext_present e) (pp_range_flag e) (pp_range e) mf df
            (pp_scc_flag e) (pp_scc e) (pp_ext4 e) (pp_ext_data e))
    (if mf then Some (expected_ppsml (sx2_ml x)) else None)
    (if df then Some (expected_pps3d (sx2_3d x)) else None).
