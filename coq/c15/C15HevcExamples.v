(* C15HevcExamples.v — concrete values used by the Examples of C15HevcTheorems.v: an HEVC SPS with
   one sub-layer (profile and level present), conformance window (1920x1088 -> 1080), three
   st_ref_pic_sets (explicit; inter-predicted from set 0; inter-predicted from set 1 = chain of
   depth 2, each with one entry whose dPoc would be 0 left unflagged), two long-term reference
   pictures, VUI with SAR 255, default display window, timing info and an HRD with NAL CPBs and
   sub-picture parameters over two sub-layers (one with low_delay), range and SCC extensions (palette
   predictor initialisers for three components) and three sps_extension_data_flag bits. *)
From V.lib Require Import Base.
From V.c13 Require Import C13Spec C13Model.
From V.c15 Require Import C15Model C15Spec C15HevcModel C15HevcSpec.

Definition ex_hprof : hprofile_syntax :=
  mkHProfSyn 0 true 2 1610612736 true false true true 524288 false.
Definition ex_hprof_sub : hprofile_syntax :=
  mkHProfSyn 1 false 1 2147483648 false true false true 5 true.
Definition ex_hptl : hptl_syntax := mkHPtlSyn ex_hprof 93 [mkHSubSyn true true ex_hprof_sub 90].

Definition ex_hcpb : hcpb_syntax := mkHCpbSyn 100 200 3 4 true.
Definition ex_hhrd : hhrd_syntax :=
  mkHHrdSyn true false true 100 3 true 4 1 2 3 23 23 23
    [mkHSubHrdSyn true false 10 false 1 [ex_hcpb; ex_hcpb] [];
     mkHSubHrdSyn false false 0 true 0 [ex_hcpb] []].
Definition ex_hvui : hvui_syntax :=
  mkHVuiSyn true 255 4 3 true true true 5 true true 9 16 9 true 2 2 false false false
            true 1 2 3 4 true 1001 60000 true 0 true ex_hhrd true true true false 7 2 1 15 15.
Definition ex_h3d : hsps3d :=
  mkHSps3d false false 0 false false false false false false false 0 false false false false false.
Definition ex_hscc : hspsscc_syntax :=
  mkHSpsSccSyn true true 10 5 true [[1; 2]; [3; 4]; [5; 6]] 1 false.

Definition ex_hrps : list hrps_syntax :=
  [RpsExplicit [(0, true); (1, true)] [(0, false)];
   RpsInter 0 false 0 [(false, false); (true, true); (false, true); (true, true)];
   RpsInter 0 true 1 [(true, true); (true, true); (false, false); (false, true)]].

Definition ex_hsps : hsps_syntax :=
  mkHSpsSyn 0 1 0 1 true ex_hptl 0 1 false 1920 1088 true 0 0 0 4 2 2 4 true [(4, 2, 0); (4, 2, 0)]
            0 3 0 3 1 1 false false (mkHSlSyn [] [] [] []) true true false 0 0 0 0 false
            ex_hrps true [(5, true); (17, false)] true true true ex_hvui
            true true false false true 1
            [true; false; true; false; false; true; false; false; true] false
            ex_h3d ex_hscc [true; false; true].
