(* C15HevcSliceTheorems.v — property C15 for the HEVC PPS and slice segment header: the parsers
   (models of hevc.ParsePPSNALUnit / hevc.ParseSliceHeader over the ideal bit reader) return the
   values that the independent serialisers of ISO/IEC 23008-2 7.3.2.3 / 7.3.6.1 coded. *)
From V.lib Require Import Base.
From V.c13 Require Import C13Spec C13Model.
From V.c15 Require Import C15Model C15Spec C15HevcModel C15HevcSpec C15HevcPpsProofs C15HevcSliceProofs C15HevcSliceExamples.

Theorem C15_hevc_pps : forall spsmap v,
  hpps_valid v = true -> spsmap (sx_pps_seq_parameter_set_id v) = true ->
  hparse_pps_br spsmap (hnalu_pps v) = Ok (expected_hpps v).
Proof. exact hevc_pps. Qed.
Print Assumptions C15_hevc_pps.

Example C15_hevc_pps_hyp :
  hpps_valid ex_hpps_tiles = true
  /\ (fun id => id =? 3) (sx_pps_seq_parameter_set_id ex_hpps_tiles) = true
  /\ hparse_pps_br (fun id => id =? 3) (hnalu_pps ex_hpps_tiles) = Ok (expected_hpps ex_hpps_tiles)
  /\ pp_tiles (expected_hpps ex_hpps_tiles) = true
  /\ pp_col_widths (expected_hpps ex_hpps_tiles) = [3; 4]
  /\ pp_range_flag (expected_hpps ex_hpps_tiles) = true
  /\ pp_scc_flag (expected_hpps ex_hpps_tiles) = true.
Proof. vm_compute. repeat split; reflexivity. Qed.

(* Full statement (target): the same without the last hypothesis (the header of a valid slice is
   far shorter than 2^32 bytes; the bound is what is still to be derived from hslice_valid). *)
Theorem C15_hevc_slice_partial : forall spsmap ppsmap sp pp v,
  hsps_valid sp = true -> hpps_valid pp = true -> hslice_valid sp pp v = true ->
  hslice_rps_guard sp pp v = true ->
  ppsmap (sx_slice_pic_parameter_set_id v) = Some (expected_hpps pp) ->
  spsmap (sx_pps_seq_parameter_set_id pp) = Some (expected_hsps sp) ->
  nbytes_at (hraw_slice sp pp v) (hslice_size_bits sp pp v) < 4294967296 ->
  hparse_slice_br spsmap ppsmap (hnalu_slice sp pp v) = Ok (expected_hslice sp pp v).
Proof. exact hevc_slice_sz. Qed.
Print Assumptions C15_hevc_slice_partial.
