(* C15HevcSliceTheorems.v — property C15 for the HEVC PPS and slice segment header: the parsers
   (models of hevc.ParsePPSNALUnit / hevc.ParseSliceHeader over the ideal bit reader) return the
   values that the independent serialisers of ISO/IEC 23008-2 7.3.2.3 / 7.3.6.1 coded. *)
From V.lib Require Import Base.
From V.c13 Require Import C13Spec C13Model.
From V.c15 Require Import C15Model C15Spec C15HevcModel C15HevcSpec C15HevcPpsProofs C15HevcSliceProofs C15HevcSliceExamples.

Theorem C15_hevc_pps : forall spsmap v,
  hpps_valid v = true -> spsmap (sx_pps_seq_parameter_set_id v) = true ->
  hparse_pps_br spsmap (hnalu_pps v) = Ok (expected_hpps v).
Proof. exact hevc_pps. Qed.
Print Assumptions C15_hevc_pps.

Example C15_hevc_pps_hyp :
  hpps_valid ex_hpps_tiles = true
  /\ (fun id => id =? 3) (sx_pps_seq_parameter_set_id ex_hpps_tiles) = true
  /\ hparse_pps_br (fun id => id =? 3) (hnalu_pps ex_hpps_tiles) = Ok (expected_hpps ex_hpps_tiles)
  /\ pp_tiles (expected_hpps ex_hpps_tiles) = true
  /\ pp_col_widths (expected_hpps ex_hpps_tiles) = [3; 4]
  /\ pp_range_flag (expected_hpps ex_hpps_tiles) = true
  /\ pp_scc_flag (expected_hpps ex_hpps_tiles) = true.
Proof. vm_compute. repeat split; reflexivity. Qed.

(* sp: the SPS the PPS refers to, pp: the PPS the slice refers to; spsmap / ppsmap are otherwise
   arbitrary.  s_size of the expected value = nbytes_at (hraw_slice ..) (header bits incl.
   byte_alignment()).  (The former guard for finding C15-F11 is gone: the finding is fixed.) *)
Theorem C15_hevc_slice : forall spsmap ppsmap sp pp v,
  hsps_valid sp = true -> hpps_valid pp = true -> hslice_valid sp pp v = true ->
  ppsmap (sx_slice_pic_parameter_set_id v) = Some (expected_hpps pp) ->
  spsmap (sx_pps_seq_parameter_set_id pp) = Some (expected_hsps sp) ->
  hparse_slice_br spsmap ppsmap (hnalu_slice sp pp v) = Ok (expected_hslice sp pp v).
Proof. exact hevc_slice. Qed.
Print Assumptions C15_hevc_slice.

(* the shape of the former finding C15-F11 is covered: a P slice selecting the inter-predicted SPS set
   1 (used entries) under a PPS with lists_modification_present_flag = 1; NumPicTotalCurr = 3 and
   ref_pic_lists_modification() is parsed *)
Example C15_hevc_slice_hyp_f :
  hsps_valid ex_hsps = true /\ hpps_valid ex_hpps_r = true
  /\ hslice_valid ex_hsps ex_hpps_r ex_hslice_f = true
  /\ sx_lists_modification_present_flag ex_hpps_r = true
  /\ nth_error (sx_st_ref_pic_sets ex_hsps) 1 = Some (RpsInter 0 true 0 [(true, true); (false, true); (true, true)])
  /\ ex_ppsmap (sx_slice_pic_parameter_set_id ex_hslice_f) = Some (expected_hpps ex_hpps_r)
  /\ ex_spsmap (sx_pps_seq_parameter_set_id ex_hpps_r) = Some (expected_hsps ex_hsps)
  /\ hs_num_pic_total_curr ex_hsps ex_hpps_r ex_hslice_f = 3
  /\ hparse_slice_br ex_spsmap ex_ppsmap (hnalu_slice ex_hsps ex_hpps_r ex_hslice_f)
     = Ok (expected_hslice ex_hsps ex_hpps_r ex_hslice_f)
  /\ s_st_idx (expected_hslice ex_hsps ex_hpps_r ex_hslice_f) = 1
  /\ rps_nused (s_st_rps (expected_hslice ex_hsps ex_hpps_r ex_hslice_f)) = 2
  /\ s_rplm (expected_hslice ex_hsps ex_hpps_r ex_hslice_f) = Some (true, [2], false, []).
Proof. vm_compute. repeat split; reflexivity. Qed.

(* a B slice, non-first segment of a 960x540 picture with 64x64 CTBs (8 address bits), RPS coded in the
   slice and inter-predicted from SPS set 1, long-term entries,
   pred weight table, entry points, header extension; maps with other entries, pps id 5 != sps id 2 *)
Example C15_hevc_slice_hyp_b :
  hsps_valid ex_hsps = true /\ hpps_valid ex_hpps_b = true
  /\ hslice_valid ex_hsps ex_hpps_b ex_hslice_b = true
  /\ ex_ppsmap (sx_slice_pic_parameter_set_id ex_hslice_b) = Some (expected_hpps ex_hpps_b)
  /\ ex_spsmap (sx_pps_seq_parameter_set_id ex_hpps_b) = Some (expected_hsps ex_hsps)
  /\ hparse_slice_br ex_spsmap ex_ppsmap (hnalu_slice ex_hsps ex_hpps_b ex_hslice_b)
     = Ok (expected_hslice ex_hsps ex_hpps_b ex_hslice_b)
  /\ hs_address_bits ex_hsps = 8
  /\ s_address (expected_hslice ex_hsps ex_hpps_b ex_hslice_b) = 77
  /\ rps_ndelta (s_st_rps (expected_hslice ex_hsps ex_hpps_b ex_hslice_b)) = 3
  /\ lenN (s_lt (expected_hslice ex_hsps ex_hpps_b ex_hslice_b)) = 2
  /\ s_entry_points (expected_hslice ex_hsps ex_hpps_b ex_hslice_b) = [100; 1000]
  /\ s_size (expected_hslice ex_hsps ex_hpps_b ex_hslice_b) = 43.
Proof. vm_compute. repeat split; reflexivity. Qed.

(* a P slice with an explicit RPS coded in the slice and ref_pic_lists_modification *)
Example C15_hevc_slice_hyp_e :
  hslice_valid ex_hsps ex_hpps_e ex_hslice_e = true
  /\ sx_lists_modification_present_flag ex_hpps_e = true
  /\ hparse_slice_br ex_spsmap ex_ppsmap (hnalu_slice ex_hsps ex_hpps_e ex_hslice_e)
     = Ok (expected_hslice ex_hsps ex_hpps_e ex_hslice_e)
  /\ s_rplm (expected_hslice ex_hsps ex_hpps_e ex_hslice_e) = Some (true, [2; 0], false, []).
Proof. vm_compute. repeat split; reflexivity. Qed.
