(* C15HevcSliceTheorems.v — property C15 for the HEVC PPS and slice segment header: the parsers
   (models of hevc.ParsePPSNALUnit / hevc.ParseSliceHeader over the ideal bit reader) return the
   values that the independent serialisers of ISO/IEC 23008-2 7.3.2.3 / 7.3.6.1 coded. *)
From V.lib Require Import Base.
From V.c13 Require Import C13Spec C13Model.
From V.c15 Require Import C15Model C15Spec C15HevcModel C15HevcSpec C15HevcPpsProofs C15HevcSliceProofs C15HevcSliceExamples.

Theorem C15_hevc_pps : forall spsmap v,
  hpps_valid v = true -> spsmap (sx_pps_seq_parameter_set_id v) = true ->
  hparse_pps_br spsmap (hnalu_pps v) = Ok (expected_hpps v).
Proof. exact hevc_pps. Qed.
Print Assumptions C15_hevc_pps.

Example C15_hevc_pps_hyp :
  hpps_valid ex_hpps_tiles = true
  /\ (fun id => id =? 3) (sx_pps_seq_parameter_set_id ex_hpps_tiles) = true
  /\ hparse_pps_br (fun id => id =? 3) (hnalu_pps ex_hpps_tiles) = Ok (expected_hpps ex_hpps_tiles)
  /\ pp_tiles (expected_hpps ex_hpps_tiles) = true
  /\ pp_col_widths (expected_hpps ex_hpps_tiles) = [3; 4]
  /\ pp_range_flag (expected_hpps ex_hpps_tiles) = true
  /\ pp_scc_flag (expected_hpps ex_hpps_tiles) = true.
Proof. vm_compute. repeat split; reflexivity. Qed.

(* sp: the SPS the PPS refers to, pp: the PPS the slice refers to; spsmap / ppsmap are otherwise
   arbitrary.  hslice_rps_guard is the exact guard that excludes known finding C15-F11.  s_size of the
   expected value = nbytes_at (hraw_slice ..) (header bits incl. byte_alignment()). *)
Theorem C15_hevc_slice : forall spsmap ppsmap sp pp v,
  hsps_valid sp = true -> hpps_valid pp = true -> hslice_valid sp pp v = true ->
  hslice_rps_guard sp pp v = true ->
  ppsmap (sx_slice_pic_parameter_set_id v) = Some (expected_hpps pp) ->
  spsmap (sx_pps_seq_parameter_set_id pp) = Some (expected_hsps sp) ->
  hparse_slice_br spsmap ppsmap (hnalu_slice sp pp v) = Ok (expected_hslice sp pp v).
Proof. exact hevc_slice. Qed.
Print Assumptions C15_hevc_slice.

(* known finding C15-F11: an inter-predicted set selected from the SPS contributes 0 to the parser's
   NumPicTotalCurr, so ref_pic_lists_modification() is skipped *)
Theorem C15_hevc_slice_rps_refuted :
  exists sp pp v,
    hsps_valid sp = true /\ hpps_valid pp = true /\ hslice_valid sp pp v = true
    /\ hparse_slice_br (fun id => if id =? sx_sps_seq_parameter_set_id sp then Some (expected_hsps sp) else None)
                       (fun id => if id =? sx_pps_pic_parameter_set_id pp then Some (expected_hpps pp) else None)
                       (hnalu_slice sp pp v)
       <> Ok (expected_hslice sp pp v).
Proof. exact hevc_slice_rps_refuted. Qed.
Print Assumptions C15_hevc_slice_rps_refuted.

(* a B slice, non-first segment of a 960x540 picture with 64x64 CTBs (8 address bits), RPS coded in the
   slice and inter-predicted (guard holds: lists_modification_present_flag = 0), long-term entries,
   pred weight table, entry points, header extension; maps with other entries, pps id 5 != sps id 2 *)
Example C15_hevc_slice_hyp_b :
  hsps_valid ex_hsps = true /\ hpps_valid ex_hpps_b = true
  /\ hslice_valid ex_hsps ex_hpps_b ex_hslice_b = true /\ hslice_rps_guard ex_hsps ex_hpps_b ex_hslice_b = true
  /\ ex_ppsmap (sx_slice_pic_parameter_set_id ex_hslice_b) = Some (expected_hpps ex_hpps_b)
  /\ ex_spsmap (sx_pps_seq_parameter_set_id ex_hpps_b) = Some (expected_hsps ex_hsps)
  /\ hparse_slice_br ex_spsmap ex_ppsmap (hnalu_slice ex_hsps ex_hpps_b ex_hslice_b)
     = Ok (expected_hslice ex_hsps ex_hpps_b ex_hslice_b)
  /\ hs_address_bits ex_hsps = 8
  /\ s_address (expected_hslice ex_hsps ex_hpps_b ex_hslice_b) = 77
  /\ rps_ndelta (s_st_rps (expected_hslice ex_hsps ex_hpps_b ex_hslice_b)) = 3
  /\ lenN (s_lt (expected_hslice ex_hsps ex_hpps_b ex_hslice_b)) = 2
  /\ s_entry_points (expected_hslice ex_hsps ex_hpps_b ex_hslice_b) = [100; 1000]
  /\ s_size (expected_hslice ex_hsps ex_hpps_b ex_hslice_b) = 43.
Proof. vm_compute. repeat split; reflexivity. Qed.

(* a P slice with an explicit RPS coded in the slice and ref_pic_lists_modification (guard holds) *)
Example C15_hevc_slice_hyp_e :
  hslice_valid ex_hsps ex_hpps_e ex_hslice_e = true /\ hslice_rps_guard ex_hsps ex_hpps_e ex_hslice_e = true
  /\ sx_lists_modification_present_flag ex_hpps_e = true
  /\ hparse_slice_br ex_spsmap ex_ppsmap (hnalu_slice ex_hsps ex_hpps_e ex_hslice_e)
     = Ok (expected_hslice ex_hsps ex_hpps_e ex_hslice_e)
  /\ s_rplm (expected_hslice ex_hsps ex_hpps_e ex_hslice_e) = Some (true, [2; 0], false, []).
Proof. vm_compute. repeat split; reflexivity. Qed.
