(* C15HevcConfEncProofs.v — DecConfRec.Encode / Size against the bit fields of the
   HEVCDecoderConfigurationRecord syntax table (14496-15 8.3.3.1.2): Go's byte arithmetic (shifts,
   or-ing of disjoint fields, big-endian writers) produces bytes_of_bits of the concatenated u(n)
   fields (hevc_confrec_encode); Size is the length of what Encode writes, for every record. *)
From V.lib Require Import Base.
From V.c13 Require Import C13Spec C13Model.
From V.c15 Require Import C15Model C15Spec C15BitProofs C15AvcSpsProofs C15HevcModel C15HevcSpec
  C15HevcBitProofs C15HevcConfModel C15HevcConfSpec C15HevcConfProofs.
From V.c16 Require Import C16ConfRecModel.

(* ------------------------------------------------------------------ or of disjoint fields *)
Lemma lor_add_gen x y n : x mod 2 ^ n = 0 -> y < 2 ^ n -> N.lor x y = x + y.
Proof.
  intros Hx Hy. assert (Hnz : 2 ^ n <> 0) by (apply N.pow_nonzero; discriminate).
  pose proof (N.div_mod x (2 ^ n) Hnz) as H. rewrite Hx, N.add_0_r, N.mul_comm in H.
  rewrite H at 1. rewrite lor_shifted_add by exact Hy. rewrite <- H. reflexivity.
Qed.

Lemma land_ones32 x : N.land x 4294967295 = x mod 4294967296.
Proof. change 4294967295 with (N.ones 32). rewrite N.land_ones. reflexivity. Qed.

(* ------------------------------------------------------------------ sub-byte fields *)
Lemma bits_2_1_5 a t b rest : b < 32 ->
  u 2 a ++ fl t ++ u 5 b ++ rest = u 8 (a * 64 + b2n t * 32 + b) ++ rest.
Proof.
  intros Hb. pose proof (b2n_lt2 t) as Ht.
  rewrite fl_u1, !app_assoc. f_equal. rewrite <- app_assoc.
  rewrite (u_app 1 5) by (change (2 ^ 5) with 32; lia).
  rewrite (u_app 2 (1 + 5)) by (change (2 ^ (1 + 5)) with 64; change (2 ^ 5) with 32; lia).
  change (2 + (1 + 5)) with 8. change (2 ^ (1 + 5)) with 64. change (2 ^ 5) with 32.
  f_equal. lia.
Qed.

Lemma bits_6_2 b rest : b < 4 -> u 6 63 ++ u 2 b ++ rest = u 8 (252 + b) ++ rest.
Proof.
  intros Hb. rewrite app_assoc. f_equal.
  rewrite (u_app 6 2) by (change (2 ^ 2) with 4; lia). reflexivity.
Qed.

Lemma bits_5_3 b rest : b < 8 -> u 5 31 ++ u 3 b ++ rest = u 8 (248 + b) ++ rest.
Proof.
  intros Hb. rewrite app_assoc. f_equal.
  rewrite (u_app 5 3) by (change (2 ^ 3) with 8; lia). reflexivity.
Qed.

Lemma bits_1_1_6 c t rest : t < 64 ->
  fl c ++ fl false ++ u 6 t ++ rest = u 8 (b2n c * 128 + t) ++ rest.
Proof.
  intros Ht. pose proof (b2n_lt2 c) as Hc.
  rewrite !fl_u1, !app_assoc. f_equal. rewrite <- app_assoc.
  rewrite (u_app 1 6) by (change (2 ^ 6) with 64; lia).
  rewrite (u_app 1 (1 + 6)) by (change (2 ^ (1 + 6)) with 128; change (2 ^ 6) with 64; cbn [b2n]; lia).
  change (1 + (1 + 6)) with 8. change (2 ^ (1 + 6)) with 128. change (2 ^ 6) with 64. cbn [b2n].
  f_equal; lia.
Qed.

(* ------------------------------------------------------------------ the fixed 23 bytes *)
Lemma spec_hvcc_fixed_bytes v n :
  hsps_valid v = true -> hconf_depths_fit v = true ->
  let g := sx_general (sx_sps_ptl v) in
  let c := constraint48 g in
  bytes_of_bits (spec_hvcc_fixed v n)
  = [u8 1; u8 (sx_profile_space g * 64 + b2n (sx_tier_flag g) * 32 + sx_profile_idc g);
     u8 (sx_profile_compatibility_flags g / 16777216); u8 (sx_profile_compatibility_flags g / 65536);
     u8 (sx_profile_compatibility_flags g / 256); u8 (sx_profile_compatibility_flags g);
     u8 (c / 1099511627776); u8 (c / 4294967296); u8 (c / 16777216); u8 (c / 65536); u8 (c / 256); u8 c;
     u8 (sx_general_level_idc (sx_sps_ptl v));
     u8 (61440 / 256); u8 61440; u8 252;
     u8 (252 + sx_chroma_format_idc v); u8 (248 + sx_bit_depth_luma_minus8 v);
     u8 (248 + sx_bit_depth_chroma_minus8 v);
     u8 (0 / 256); u8 0; u8 3; u8 n].
Proof.
  intros Hv Hd. destruct (hsps_valid_conf v Hv) as (Hs & Hi & Hc & H43 & Hl & Hch). cbv zeta in *.
  destruct (constraint48_bits _ H43) as [Hbits H48].
  unfold hconf_depths_fit in Hd. apply andb_prop in Hd. destruct Hd as [Hdl Hdc].
  unfold spec_hvcc_fixed. cbv zeta. unfold hprofile_constraint_bits.
  set (g := sx_general (sx_sps_ptl v)) in *.
  rewrite <- !app_assoc.
  rewrite bits_2_1_5 by exact Hi.
  change (fl (sx_progressive_source_flag g) ++ fl (sx_interlaced_source_flag g)
          ++ fl (sx_non_packed_constraint_flag g) ++ fl (sx_frame_only_constraint_flag g)
          ++ u 43 (sx_constraint_43bits g) ++ fl (sx_inbld_flag g) ++ ?r)
    with ((fl (sx_progressive_source_flag g) ++ fl (sx_interlaced_source_flag g)
          ++ fl (sx_non_packed_constraint_flag g) ++ fl (sx_frame_only_constraint_flag g)
          ++ u 43 (sx_constraint_43bits g) ++ fl (sx_inbld_flag g)) ++ r).
  rewrite Hbits.
  change (u 4 15 ++ u 12 0 ++ ?r) with (u 16 61440 ++ r).
  change (u 6 63 ++ u 2 0 ++ ?r) with (u 8 252 ++ r).
  rewrite bits_6_2 by lia.
  rewrite !bits_5_3 by lia.
  change (u 2 0 ++ u 3 0 ++ fl false ++ u 2 3 ++ ?r) with (u 8 3 ++ r).
  rewrite <- (app_nil_r (u 8 n)).
  repeat (rewrite bytes_of_bits_u8 || rewrite bytes_of_bits_u16 || rewrite bytes_of_bits_u32
          || rewrite bytes_of_bits_u48).
  reflexivity.
Qed.

(* ------------------------------------------------------------------ the arrays *)
Lemma be16_bits x : be16 (u16 x) = bytes_of_bits (u 16 x).
Proof.
  rewrite <- (app_nil_r (u 16 x)), bytes_of_bits_u16. unfold be16. cbn [bytes_of_bits].
  f_equal; [|f_equal]; unfold u8, u16; lia.
Qed.

Lemma hconf_encode_array_spec (c : bool) t l : t < 64 ->
  hconf_encode_array ((if c then 128 else 0) + t, l) = spec_hvcc_array c t l.
Proof.
  intros Ht. unfold hconf_encode_array, spec_hvcc_array. cbn [fst snd].
  rewrite bits_1_1_6 by exact Ht. rewrite bytes_of_bits_u8, <- be16_bits. cbn [app].
  f_equal; [destruct c; reflexivity|]. f_equal.
  apply flat_map_ext. intros n. rewrite be16_bits. reflexivity.
Qed.

Lemma cons_eq {A} (a b : A) l m : a = b -> l = m -> a :: l = b :: m.
Proof. intros -> ->. reflexivity. Qed.

Lemma hevc_confrec_encode_eq v vps sps pps vc sc pc inc :
  hsps_valid v = true -> hconf_depths_fit v = true ->
  hconf_encode (expected_hconf v vps sps pps vc sc pc inc) = spec_hvcc v vps sps pps vc sc pc inc.
Proof.
  intros Hv Hd. unfold spec_hvcc. rewrite spec_hvcc_fixed_bytes by assumption. cbv zeta.
  destruct (hsps_valid_conf v Hv) as (Hs & Hi & Hc & H43 & Hl & Hch). cbv zeta in *.
  destruct (constraint48_bits _ H43) as [_ H48].
  unfold hconf_depths_fit in Hd. apply andb_prop in Hd. destruct Hd as [Hdl Hdc].
  unfold hconf_encode, expected_hconf. cbv zeta.
  cbn [hr_version hr_profile_space hr_tier hr_profile_idc hr_compat_flags hr_constraint_flags
       hr_level_idc hr_min_spatial_seg hr_parallelism hr_chroma hr_bdl hr_bdc hr_avg_frame_rate
       hr_const_frame_rate hr_num_temporal_layers hr_temporal_id_nested hr_length_size_minus_one
       hr_arrays].
  set (g := sx_general (sx_sps_ptl v)) in *. set (c := constraint48 g) in *.
  unfold be48, be32, be16. cbn [app].
  change (2 ^ 48) with 281474976710656 in H48.
  repeat (apply cons_eq; [try reflexivity|]).
  - unfold u8. rewrite (N.mod_small (sx_profile_space g * 64)), (N.mod_small (sx_profile_idc g)) by lia.
    rewrite <- N.lor_assoc.
    replace (if sx_tier_flag g then 32 else 0) with (b2n (sx_tier_flag g) * 32)
      by (destruct (sx_tier_flag g); reflexivity).
    pose proof (b2n_lt2 (sx_tier_flag g)) as Ht.
    rewrite (lor_add_gen (b2n (sx_tier_flag g) * 32) _ 5) by (change (2 ^ 5) with 32; lia).
    rewrite (lor_add_gen (sx_profile_space g * 64) _ 6) by (change (2 ^ 6) with 64; lia).
    rewrite N.mod_small by lia. lia.
  - rewrite shiftr_div. change (2 ^ 32) with 4294967296. unfold u8, u16. lia.
  - rewrite shiftr_div. change (2 ^ 32) with 4294967296. unfold u8, u16. lia.
  - rewrite land_ones32. unfold u8, u32. lia.
  - rewrite land_ones32. unfold u8, u32. lia.
  - rewrite land_ones32. unfold u8, u32. lia.
  - rewrite land_ones32. unfold u8, u32. lia.
  - unfold u8. rewrite (N.mod_small (sx_chroma_format_idc v)) by lia.
    rewrite (lor_add_gen 252 _ 2) by (change (2 ^ 2) with 4; lia). rewrite N.mod_small by lia. reflexivity.
  - unfold u8. rewrite (N.mod_small (sx_bit_depth_luma_minus8 v)) by lia.
    rewrite (lor_add_gen 248 _ 3) by (change (2 ^ 3) with 8; lia). rewrite N.mod_small by lia. reflexivity.
  - unfold u8. rewrite (N.mod_small (sx_bit_depth_chroma_minus8 v)) by lia.
    rewrite (lor_add_gen 248 _ 3) by (change (2 ^ 3) with 8; lia). rewrite N.mod_small by lia. reflexivity.
  - destruct inc; reflexivity.
  - destruct inc; [|reflexivity]. cbn [flat_map]. rewrite !hconf_encode_array_spec by lia.
    rewrite app_nil_r. reflexivity.
Qed.

(* ------------------------------------------------------------------ Size = length of Encode, every record *)
Lemma lenN_be16 x : lenN (be16 x) = 2.
Proof. reflexivity. Qed.

Lemma lenN_flat_map {A B} (f : A -> list B) l : lenN (flat_map f l) = sumN (map (fun a => lenN (f a)) l).
Proof.
  induction l as [|a t IH]; cbn [flat_map map sumN]; [reflexivity|]. rewrite lenN_app, IH. reflexivity.
Qed.

Lemma sumN_map_ext {A} (f g : A -> N) l : (forall a, f a = g a) -> sumN (map f l) = sumN (map g l).
Proof. intros H. induction l as [|a t IH]; cbn [map sumN]; [reflexivity|]. rewrite H, IH. reflexivity. Qed.

Lemma lenN_hconf_encode_array a :
  lenN (hconf_encode_array a) = 3 + sumN (map (fun n => 2 + lenN n) (snd a)).
Proof.
  unfold hconf_encode_array, be16. cbn [app]. rewrite !lenN_cons, lenN_flat_map.
  rewrite (sumN_map_ext _ (fun n => 2 + lenN n)); [lia|].
  intros n. cbn [app]. rewrite !lenN_cons. lia.
Qed.

Lemma hconf_size_encode r : hconf_size r = lenN (hconf_encode r).
Proof.
  unfold hconf_size, hconf_encode, be48, be32, be16. cbn [app].
  rewrite !lenN_cons, lenN_flat_map.
  rewrite (sumN_map_ext _ _ _ lenN_hconf_encode_array). lia.
Qed.

Lemma hevc_confrec_encode v vps sps pps vc sc pc inc :
  hsps_valid v = true -> hconf_depths_fit v = true ->
  nalus_fit vps = true -> nalus_fit sps = true -> nalus_fit pps = true ->
  hconf_encode (expected_hconf v vps sps pps vc sc pc inc) = spec_hvcc v vps sps pps vc sc pc inc
  /\ hconf_size (expected_hconf v vps sps pps vc sc pc inc) = lenN (spec_hvcc v vps sps pps vc sc pc inc).
Proof.
  intros Hv Hd _ _ _. rewrite hconf_size_encode, hevc_confrec_encode_eq by assumption. split; reflexivity.
Qed.
