(* C15AvcDimsProofs.v — Width / Height returned by ParseSPSNALUnit (model) are the values of the
   cropping formula of ISO/IEC 14496-10 7.4.2.1.1, written out on the syntax elements. *)
From V.lib Require Import Base.
From V.c13 Require Import C13Spec C13Model.
From V.c15 Require Import C15Model C15Spec C15BitProofs C15AvcSpsProofs C15AvcVuiProofs.

(* the cropping formula of 7.4.2.1.1 written out on the syntax elements *)
Lemma avc_dims v beyond s :
  sps_valid v = true -> parse_sps_br beyond (nalu_sps v) = Ok s ->
  let high := existsb (N.eqb (profile_idc v)) [100; 110; 122; 244; 44; 83; 86; 118; 128; 138; 139; 134; 135] in
  let chroma := if high then chroma_format_idc v else 1 in             (* inferred 1 (4:2:0) when absent *)
  let separate := high && (chroma =? 3) && separate_colour_plane_flag v in
  let chroma_array_type := if separate then 0 else chroma in
  let sub_width_c := if chroma =? 3 then 1 else 2 in                   (* Table 6-1 *)
  let sub_height_c := if chroma =? 1 then 2 else 1 in
  let fmo := if frame_mbs_only_flag v then 1 else 0 in
  let crop_unit_x := if chroma_array_type =? 0 then 1 else sub_width_c in
  let crop_unit_y := if chroma_array_type =? 0 then 2 - fmo else sub_height_c * (2 - fmo) in
  let crop x := if frame_cropping_flag v then x else 0 in
  let pic_width_in_mbs := pic_width_in_mbs_minus1 v + 1 in
  let pic_height_in_map_units := pic_height_in_map_units_minus1 v + 1 in
  sps_width s + crop_unit_x * (crop (frame_crop_left_offset v) + crop (frame_crop_right_offset v))
    = pic_width_in_mbs * 16
  /\ sps_height s + crop_unit_y * (crop (frame_crop_top_offset v) + crop (frame_crop_bottom_offset v))
    = (2 - fmo) * pic_height_in_map_units * 16
  /\ 0 < sps_width s /\ 0 < sps_height s.
Proof.
  intros Hv Hs. rewrite (avc_sps_go v beyond Hv) in Hs. injection Hs as <-.
  cbv zeta. cbn [sps_width sps_height expected_sps_gen].
  unfold sps_valid in Hv. split_all.
  unfold display_width, display_height, crop_w, crop_h, crop_unit_x, crop_unit_y, chroma_array_type,
    sub_width_c, sub_height_c, eff_separate_colour_plane, eff_chroma_format_idc, pic_width_in_samples,
    frame_height_in_samples, fmo_n, has_chroma_block, high_profile_idcs in *.
  set (high := existsb _ _) in *.
  destruct high, (frame_cropping_flag v), (frame_mbs_only_flag v), (separate_colour_plane_flag v);
    cbn [andb N.eqb Pos.eqb] in *;
    destruct (chroma_format_idc v =? 3) eqn:E3; cbn [andb N.eqb] in *;
    destruct (chroma_format_idc v =? 1) eqn:E1; cbn [andb N.eqb] in *;
    destruct (chroma_format_idc v =? 0) eqn:E0; cbn [andb N.eqb] in *; lia.
Qed.
