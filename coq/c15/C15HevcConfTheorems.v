(* C15HevcConfTheorems.v — property C15, last sentence, for HEVC: configuration records and codec
   strings built from parameter sets carry the profile, compatibility, level, chroma format and bit
   depths of the SPS and the parameter-set NAL units verbatim. *)
From V.lib Require Import Base.
From V.c13 Require Import C13Spec C13Model.
From V.c15 Require Import C15Model C15Spec C15HevcModel C15HevcSpec C15HevcConfModel C15HevcConfSpec
  C15HevcConfProofs C15HevcConfEncProofs C15HevcConfRtProofs C15HevcConfSpsProofs C15HevcConfExamples.
From V.c16 Require Import C16ConfRecModel.

(* CreateHEVCDecConfRec: the record carries profile space / tier / idc, the 32 compatibility flags, the
   48 constraint bits, level, chroma format and bit depths of the SPS, and the NAL unit arrays verbatim.
   `parse` is the SPS parser handed to the function; for hparse_sps_br the hypothesis is C15_hevc_sps. *)
Theorem C15_hevc_confrec_create : forall parse v vps sps_rest pps vc sc pc inc,
  parse (hnalu_sps v) = Ok (expected_hsps v) ->
  hconf_create parse vps (hnalu_sps v :: sps_rest) pps vc sc pc inc
  = Ok (expected_hconf v vps (hnalu_sps v :: sps_rest) pps vc sc pc inc).
Proof. exact hevc_confrec_create. Qed.
Print Assumptions C15_hevc_confrec_create.

Example C15_hevc_confrec_create_hyp :
  hsps_valid ex_hconf_sps = true
  /\ hparse_sps_br (hnalu_sps ex_hconf_sps) = Ok (expected_hsps ex_hconf_sps)
  /\ flat_hevc_rec (expected_hconf ex_hconf_sps ex_hconf_vps [hnalu_sps ex_hconf_sps] ex_hconf_pps
                                   true false true true)
     = [1; 0; 1; 2; 1610612736; 193514047537152; 93; 0; 0; 1; 2; 2; 0; 0; 0; 0; 3;
        3; 1; 32; 1; 6; 64; 1; 12; 1; 255; 255;
        0; 33; 1; 30; 66; 1; 1; 34; 96; 0; 0; 3; 0; 176; 0; 0; 16; 0; 0; 93; 160; 3; 192; 128; 17; 7;
        202; 217; 101; 121; 36; 73; 172; 128;
        1; 34; 2; 4; 68; 1; 193; 114; 3; 68; 1; 0]%Z.
Proof. vm_compute. repeat split; reflexivity. Qed.

(* the same with the real SPS parser (C15_hevc_sps discharges the hypothesis) *)
Theorem C15_hevc_confrec_create_sps : forall v vps sps_rest pps vc sc pc inc,
  hsps_valid v = true ->
  hconf_create hparse_sps_br vps (hnalu_sps v :: sps_rest) pps vc sc pc inc
  = Ok (expected_hconf v vps (hnalu_sps v :: sps_rest) pps vc sc pc inc).
Proof. exact hevc_confrec_create_sps. Qed.
Print Assumptions C15_hevc_confrec_create_sps.

(* DecConfRec.Encode / Size: Go's byte arithmetic writes the bit fields of the syntax table of
   14496-15 8.3.3.1.2 (spec_hvcc), and Size is the number of bytes written.  (The nalus_fit hypotheses
   are not used by the proof: u(16) of a count and Go's uint16() truncate alike.) *)
Theorem C15_hevc_confrec_encode : forall v vps sps pps vc sc pc inc,
  hsps_valid v = true -> hconf_depths_fit v = true ->
  nalus_fit vps = true -> nalus_fit sps = true -> nalus_fit pps = true ->
  hconf_encode (expected_hconf v vps sps pps vc sc pc inc) = spec_hvcc v vps sps pps vc sc pc inc
  /\ hconf_size (expected_hconf v vps sps pps vc sc pc inc) = lenN (spec_hvcc v vps sps pps vc sc pc inc).
Proof. exact hevc_confrec_encode. Qed.
Print Assumptions C15_hevc_confrec_encode.

Example C15_hevc_confrec_encode_hyp :
  hsps_valid ex_hconf_sps = true /\ hconf_depths_fit ex_hconf_sps = true
  /\ nalus_fit ex_hconf_vps = true /\ nalus_fit [hnalu_sps ex_hconf_sps] = true /\ nalus_fit ex_hconf_pps = true
  /\ firstn 26 (spec_hvcc ex_hconf_sps ex_hconf_vps [hnalu_sps ex_hconf_sps] ex_hconf_pps true false true true)
     = [1; 34; 96; 0; 0; 0; 176; 0; 0; 16; 0; 0; 93; 240; 0; 252; 253; 250; 250; 0; 0; 3; 3;
        160; 0; 1]
  /\ lenN (spec_hvcc ex_hconf_sps ex_hconf_vps [hnalu_sps ex_hconf_sps] ex_hconf_pps true false true true) = 83.
Proof. vm_compute. repeat split; reflexivity. Qed.

(* DecodeHEVCDecConfRec (Encode r) = r for every well-formed record (hevc_rec_wf: field ranges of the
   record layout, at most 255 arrays whose NAL units fit the 16-bit count / length fields); t = number of
   loop iterations of the decoder model. *)
Theorem C15_hevc_confrec_roundtrip : forall r,
  hevc_rec_wf r = true -> exists t, hevc_decode_dec_conf_rec (hconf_encode r) = Ok (r, t).
Proof. exact hevc_confrec_roundtrip. Qed.
Print Assumptions C15_hevc_confrec_roundtrip.

(* every record built by CreateHEVCDecConfRec from a valid SPS is well formed ... *)
Theorem C15_hevc_confrec_created_wf : forall v vps sps pps vc sc pc inc,
  hsps_valid v = true -> hconf_depths_fit v = true ->
  nalus_fit vps = true -> nalus_fit sps = true -> nalus_fit pps = true ->
  hevc_rec_wf (expected_hconf v vps sps pps vc sc pc inc) = true.
Proof. exact expected_hconf_wf. Qed.
Print Assumptions C15_hevc_confrec_created_wf.

(* ... hence decoding the bytes of the standard's layout gives back the SPS values and NAL units *)
Theorem C15_hevc_confrec_decode_created : forall v vps sps pps vc sc pc inc,
  hsps_valid v = true -> hconf_depths_fit v = true ->
  nalus_fit vps = true -> nalus_fit sps = true -> nalus_fit pps = true ->
  exists t, hevc_decode_dec_conf_rec (spec_hvcc v vps sps pps vc sc pc inc)
            = Ok (expected_hconf v vps sps pps vc sc pc inc, t).
Proof. exact hevc_confrec_roundtrip_created. Qed.
Print Assumptions C15_hevc_confrec_decode_created.

Example C15_hevc_confrec_roundtrip_hyp :
  let r := expected_hconf ex_hconf_sps ex_hconf_vps [hnalu_sps ex_hconf_sps] ex_hconf_pps true false true true in
  hevc_rec_wf r = true /\ lenN (hr_arrays r) = 3
  /\ hevc_decode_dec_conf_rec (hconf_encode r) = Ok (r, 7)
  /\ hevc_rec_wf (mkHevcRec 1 3 true 31 4294967295 281474976710655 255 4095 3 3 7 7 65535 3 7 1 3
                            [(255, [[1; 2; 3]; []]); (0, [])]) = true
  /\ hevc_rec_wf (mkHevcRec 1 0 false 1 0 0 0 0 0 0 8 0 0 0 0 0 3 []) = false.
Proof. vm_compute. repeat split; reflexivity. Qed.

(* hevc.CodecString: sample entry, profile space letter and profile idc, the compatibility flags in
   reverse bit order (hex), tier letter and level, the constraint bytes without trailing zero bytes *)
Theorem C15_hevc_codec_string : forall entry v,
  hsps_valid v = true -> hcodec_string entry (expected_hsps v) = spec_hcodec_string entry v.
Proof. exact hevc_codec_string. Qed.
Print Assumptions C15_hevc_codec_string.

(* "hvc1.2.6.H93.B0.0.0.10" and "hev1.B1.1.L120.0.0.0.0.0.1" *)
Example C15_hevc_codec_string_hyp :
  hsps_valid ex_hconf_sps = true /\ hsps_valid ex_hconf_sps_b = true
  /\ spec_hcodec_string [104; 118; 99; 49] ex_hconf_sps
     = [104; 118; 99; 49; 46; 50; 46; 54; 46; 72; 57; 51; 46; 66; 48; 46; 48; 46; 48; 46; 49; 48]
  /\ spec_hcodec_string [104; 101; 118; 49] ex_hconf_sps_b
     = [104; 101; 118; 49; 46; 66; 49; 46; 49; 46; 76; 49; 50; 48; 46; 48; 46; 48; 46; 48; 46; 48; 46; 48; 46; 49].
Proof. vm_compute. repeat split; reflexivity. Qed.
