(* C15HevcSliceInterProofs.v — the inter-prediction part of the HEVC slice segment header:
   num_ref_idx override, ref_pic_lists_modification (entry width Ceil(Log2(NumPicTotalCurr)), the
   model's uint8 NumPicTotalCurr = (7-55)), mvd_l1_zero / cabac_init /
   collocated_*, pred_weight_table, five_minus_max_num_merge_cand, use_integer_mv_flag. *)
From V.lib Require Import Base.
From V.c13 Require Import C13Spec C13Model.
From V.c15 Require Import C15Model C15Spec C15BitProofs C15AvcSpsProofs C15AvcPpsProofs
  C15HevcModel C15HevcSpec C15HevcBitProofs C15HevcSpsRpsProofs C15HevcPpsProofs C15HevcSliceBaseProofs
  C15HevcSliceRpsProofs.

Local Notation "x <- m ;; k" := (bind m (fun x => k))
  (at level 61, m at next level, right associativity).

(* ------------------------------------------------------------------ NumPicTotalCurr *)
Lemma go_npt1_eq sp pp v :
  hs_num_pic_total_curr sp pp v < 256 ->
  match pp_scc (expected_hpps pp) with
  | Some sc => if ps_curr_pic_ref sc then u8 (go_npt sp pp v + 1) else go_npt sp pp v
  | None => go_npt sp pp v
  end = hs_num_pic_total_curr sp pp v.
Proof.
  intros Ht.
  assert (E : go_npt sp pp v + (if hs_curr_pic_ref pp then 1 else 0) = hs_num_pic_total_curr sp pp v).
  { unfold go_npt, hs_num_pic_total_curr in *.
    rewrite count_in_use_curr by lia.
    destruct (hs_nidr pp v) eqn:Hn.
    - unfold lt_useds in *.
      set (a := d_num_used (hs_curr_rps sp pp v)) in *.
      set (l1 := map (fun e => snd (hs_sps_lt sp (fst (fst e)))) (hs_lt_sps_entries sp pp v)) in *.
      set (l2 := map (fun e => snd (fst (fst e))) (hs_lt_pics_entries sp pp v)) in *.
      rewrite lt_acc_small by (rewrite countb_app; lia).
      rewrite countb_app. lia.
    - unfold hs_curr_rps, hs_lt_sps_entries, hs_lt_pics_entries, hs_lt_on. rewrite Hn. cbn [andb map].
      unfold d_num_used. cbn. lia. }
  rewrite epp_scc. unfold hs_curr_pic_ref in *.
  destruct (hpps_ext_on pp sx_pps_scc_extension_flag); cbn [andb] in *.
  - cbn [ps_curr_pic_ref expected_hppsscc].
    destruct (sx_pps_curr_pic_ref_enabled_flag (sx_pps_scc_extension pp)).
    + rewrite hu8_id by lia. lia.
    + lia.
  - lia.
Qed.

(* ------------------------------------------------------------------ ref_pic_lists_modification *)
Lemma parses_rplm_entries raw l npt (es : list N) pos :
  lenN es = l + 1 -> l <= 14 -> 1 < npt -> npt < 256 -> forallb (fun x => x <? npt) es = true ->
  parses raw (rep_n (u8 (l + 1)) (x <- rd BR (ceil_log2 npt) ;; ret (u8 x))) pos
         (flat_map (u (N.log2_up npt)) es) es.
Proof.
  intros Hl H14 H1 H256 Hv.
  rewrite hu8_id by lia. rewrite ceil_log2_eq by (change (2 ^ 32) with 4294967296; lia).
  pose proof (log2_up_bound npt ltac:(lia)) as Hlb.
  pose proof (parses_rep_n raw (x <- rd BR (N.log2_up npt) ;; ret (u8 x)) (u (N.log2_up npt))
                (fun x : N => x) es (l + 1) pos) as P.
  rewrite map_id in P. apply P; [lia | unfold loop_bound; lia|].
  intros x pos' Hin. rewrite forallb_forall in Hv. specialize (Hv x Hin).
  plast ltac:(apply parses_rd; lia). apply parses_ret_eq. apply hu8_id. lia.
Qed.

Lemma hs_l01_le14 sp pp v : hpps_valid pp = true -> hslice_valid sp pp v = true ->
  hs_l0 pp v <= 14 /\ hs_l1 pp v <= 14.
Proof.
  intros Hp Hv. unfold hpps_valid in Hp. cbv zeta in Hp. unfold hslice_valid in Hv. split_all.
  unfold hs_l0, hs_l1. destruct (hs_override pp v), (hs_is_b pp v); cbn [andb]; lia.
Qed.

Lemma parses_hrplm raw sp pp v pos :
  hpps_valid pp = true -> hslice_valid sp pp v = true -> hs_rplm sp pp v = true ->
  parses raw (hparse_rplm BR (hs_is_b pp v) (hs_l0 pp v) (hs_l1 pp v) (hs_num_pic_total_curr sp pp v)) pos
    (fl (sx_ref_pic_list_modification_flag_l0 v)
     ++ opt_bits (sx_ref_pic_list_modification_flag_l0 v)
          (flat_map (u (hs_list_entry_bits sp pp v)) (sx_list_entry_l0 v))
     ++ opt_bits (hs_is_b pp v)
          (fl (sx_ref_pic_list_modification_flag_l1 v)
           ++ opt_bits (sx_ref_pic_list_modification_flag_l1 v)
                (flat_map (u (hs_list_entry_bits sp pp v)) (sx_list_entry_l1 v))))
    (sx_ref_pic_list_modification_flag_l0 v,
     (if sx_ref_pic_list_modification_flag_l0 v then sx_list_entry_l0 v else []),
     hs_is_b pp v && sx_ref_pic_list_modification_flag_l1 v,
     (if hs_is_b pp v && sx_ref_pic_list_modification_flag_l1 v then sx_list_entry_l1 v else [])).
Proof.
  intros Hp Hv Hr.
  destruct (hs_l01_le14 sp pp v Hp Hv) as [Hl0 Hl1].
  assert (Hr' := Hr). unfold hs_rplm in Hr'. split_all.
  assert (H0 : (if hs_rplm sp pp v && sx_ref_pic_list_modification_flag_l0 v
                then (lenN (sx_list_entry_l0 v) =? hs_l0 pp v + 1)
                     && forallb (fun x => x <? hs_num_pic_total_curr sp pp v) (sx_list_entry_l0 v) else true) = true)
    by (unfold hslice_valid in Hv; split_all; assumption).
  assert (H1 : (if hs_rplm sp pp v && hs_is_b pp v && sx_ref_pic_list_modification_flag_l1 v
                then (lenN (sx_list_entry_l1 v) =? hs_l1 pp v + 1)
                     && forallb (fun x => x <? hs_num_pic_total_curr sp pp v) (sx_list_entry_l1 v) else true) = true)
    by (unfold hslice_valid in Hv; split_all; assumption).
  assert (Ht : hs_num_pic_total_curr sp pp v < 256) by (unfold hslice_valid in Hv; split_all; lia).
  rewrite Hr in H0, H1. cbn [andb] in H0, H1.
  unfold hparse_rplm, hs_list_entry_bits.
  pbind ltac:(apply parses_flag).
  eapply parses_bind.
  { apply (parses_opt raw _ (sx_ref_pic_list_modification_flag_l0 v) _ (sx_list_entry_l0 v) []).
    intros Hf. rewrite Hf in H0. split_all.
    apply parses_rplm_entries; [lia | exact Hl0 | lia | exact Ht | assumption]. }
  cbv beta.
  destruct (hs_is_b pp v) eqn:Hb; cbn [opt_bits andb] in *.
  - eapply parses_bind_nil.
    { pbind ltac:(apply parses_flag).
      eapply parses_bind_nil.
      { apply (parses_opt raw _ (sx_ref_pic_list_modification_flag_l1 v) _ (sx_list_entry_l1 v) []).
        intros Hf. rewrite Hf in H1. split_all.
        apply parses_rplm_entries; [lia | exact Hl1 | lia | exact Ht | assumption]. }
      cbv beta. apply parses_ret. }
    cbv beta.
    ppeek ltac:(apply parses_get_err). cbn [fst snd]. apply parses_ret.
  - apply parses_bind_ret. cbv beta.
    ppeek ltac:(apply parses_get_err). cbn [fst snd]. apply parses_ret.
Qed.

(* ------------------------------------------------------------------ pred_weight_table (7.3.6.3) *)
Lemma combine_map_same {A B C} (f : A -> B) (g : A -> C) (l : list A) :
  combine (map f l) (map g l) = map (fun e => (f e, g e)) l.
Proof. induction l as [|x t IH]; cbn [map combine]; [reflexivity | now rewrite IH]. Qed.

Lemma parses_hpwt_values raw sp e pos : hpwt_ok e = true ->
  parses raw (hparse_pwt_values BR (pw_luma_flag e, hs_cat_nz sp && pw_chroma_flag e)) pos
    (opt_bits (pw_luma_flag e) (se_bits (pw_dlw e) ++ se_bits (pw_lo e))
     ++ opt_bits (hs_cat_nz sp && pw_chroma_flag e)
          (se_bits (pw_dcw0 e) ++ se_bits (pw_dco0 e) ++ se_bits (pw_dcw1 e) ++ se_bits (pw_dco1 e)))
    (expected_hpwt sp e).
Proof.
  intros Hok. unfold hpwt_ok in Hok. split_all.
  unfold hparse_pwt_values, expected_hpwt. cbv zeta. cbn [fst snd].
  destruct (pw_luma_flag e), (hs_cat_nz sp && pw_chroma_flag e); cbn [opt_bits app].
  - eapply parses_bind.
    { pbind ltac:(apply parses_se). plast ltac:(apply parses_se). apply parses_ret. }
    cbv beta.
    eapply parses_bind_nil.
    { pbind ltac:(apply parses_se). pbind ltac:(apply parses_se). pbind ltac:(apply parses_se).
      plast ltac:(apply parses_se). apply parses_ret. }
    cbv beta iota zeta. cbn [fst snd]. apply parses_ret_eq. rewrite !i8_id by assumption. reflexivity.
  - rewrite app_nil_r. eapply parses_bind_nil.
    { pbind ltac:(apply parses_se). plast ltac:(apply parses_se). apply parses_ret. }
    cbv beta. apply parses_bind_ret. cbv beta iota zeta. cbn [fst snd].
    apply parses_ret_eq. rewrite !i8_id by assumption. reflexivity.
  - apply parses_bind_ret. cbv beta.
    eapply parses_bind_nil.
    { pbind ltac:(apply parses_se). pbind ltac:(apply parses_se). pbind ltac:(apply parses_se).
      plast ltac:(apply parses_se). apply parses_ret. }
    cbv beta iota zeta. cbn [fst snd]. apply parses_ret_eq. rewrite !i8_id by assumption. reflexivity.
  - apply parses_bind_ret. cbv beta. apply parses_bind_ret. cbv beta iota zeta. apply parses_ret.
Qed.

Lemma parses_flag_list {X} raw (f : X -> bool) (l : list X) n pos :
  n = lenN l -> n <= loop_bound ->
  parses raw (rep_n n (rd_flag BR)) pos (flat_map (fun e => fl (f e)) l) (map f l).
Proof.
  intros Hn Hb. apply (parses_rep_n raw (rd_flag BR) (fun e => fl (f e)) f l n pos Hn Hb).
  intros. apply parses_flag.
Qed.

Lemma parses_hpwt_list raw sp l (lst : list hpwt) pos :
  lenN lst = l + 1 -> l <= 14 -> forallb hpwt_ok lst = true ->
  parses raw (hparse_pwt_list BR (hs_cat_nz sp) (u8 (l + 1))) pos (ser_hpwt_list sp lst)
         (map (expected_hpwt sp) lst).
Proof.
  intros Hl H14 Hok. unfold hparse_pwt_list, ser_hpwt_list.
  rewrite hu8_id by lia.
  pbind ltac:(apply (parses_flag_list raw pw_luma_flag lst); [lia | unfold loop_bound; lia]).
  eapply parses_bind.
  { apply (parses_optv raw _ (hs_cat_nz sp) _ (map (fun e => hs_cat_nz sp && pw_chroma_flag e) lst)).
    - intros Hc. rewrite Hc. cbn [andb].
      apply (parses_flag_list raw pw_chroma_flag lst); [lia | unfold loop_bound; lia].
    - intros Hc. rewrite Hc. rewrite map_map. reflexivity. }
  cbv beta. rewrite combine_map_same.
  eapply parses_enc_eq; [|apply (parses_mapM raw (hparse_pwt_values BR)
                                   (fun e => (pw_luma_flag e, hs_cat_nz sp && pw_chroma_flag e))
                                   (fun e => opt_bits (pw_luma_flag e) (se_bits (pw_dlw e) ++ se_bits (pw_lo e))
                                             ++ opt_bits (hs_cat_nz sp && pw_chroma_flag e)
                                                  (se_bits (pw_dcw0 e) ++ se_bits (pw_dco0 e)
                                                   ++ se_bits (pw_dcw1 e) ++ se_bits (pw_dco1 e)))
                                   (expected_hpwt sp) lst)].
  - reflexivity.
  - intros e pos' Hin. rewrite forallb_forall in Hok. apply parses_hpwt_values. apply Hok. exact Hin.
Qed.

Lemma parses_hpwt raw sp pp v pos :
  hpps_valid pp = true -> hslice_valid sp pp v = true -> hs_pwt pp v = true ->
  parses raw (hparse_pwt BR (hs_is_b pp v) (hs_cat_nz sp) (hs_l0 pp v) (hs_l1 pp v)) pos
    (ue_bits (sx_luma_log2_weight_denom v)
     ++ opt_bits (hs_cat_nz sp) (se_bits (sx_delta_chroma_log2_weight_denom v))
     ++ ser_hpwt_list sp (sx_pwt_l0 v) ++ opt_bits (hs_is_b pp v) (ser_hpwt_list sp (sx_pwt_l1 v)))
    (sx_luma_log2_weight_denom v,
     (if hs_cat_nz sp then sx_delta_chroma_log2_weight_denom v else 0%Z),
     map (expected_hpwt sp) (sx_pwt_l0 v),
     (if hs_is_b pp v then map (expected_hpwt sp) (sx_pwt_l1 v) else [])).
Proof.
  intros Hp Hv Hw.
  destruct (hs_l01_le14 sp pp v Hp Hv) as [Hl0 Hl1].
  assert (Hld : sx_luma_log2_weight_denom v <= 7) by (unfold hslice_valid in Hv; split_all; lia).
  assert (Hdc : i8_ok (sx_delta_chroma_log2_weight_denom v) = true)
    by (unfold hslice_valid in Hv; split_all; assumption).
  assert (Hl : (if hs_pwt pp v then (lenN (sx_pwt_l0 v) =? hs_l0 pp v + 1) && forallb hpwt_ok (sx_pwt_l0 v)
                       && (if hs_is_b pp v then (lenN (sx_pwt_l1 v) =? hs_l1 pp v + 1) && forallb hpwt_ok (sx_pwt_l1 v)
                           else true)
                else true) = true) by (unfold hslice_valid in Hv; split_all; assumption).
  rewrite Hw in Hl. split_all.
  unfold hparse_pwt.
  pbind ltac:(apply parses_ue).
  pbind ltac:(apply (parses_opt raw _ (hs_cat_nz sp) _ (sx_delta_chroma_log2_weight_denom v) 0%Z);
              intros _; plast ltac:(apply parses_se); apply parses_ret_eq; apply i8_id; exact Hdc).
  pbind ltac:(apply (parses_hpwt_list raw sp (hs_l0 pp v)); [lia | exact Hl0 | assumption]).
  plast ltac:(apply (parses_opt raw _ (hs_is_b pp v) _ (map (expected_hpwt sp) (sx_pwt_l1 v)) []);
              intros Hb; match goal with H : (if hs_is_b pp v then _ else true) = true |- _ =>
                           rewrite Hb in H; split_all end;
              apply (parses_hpwt_list raw sp (hs_l1 pp v)); [lia | exact Hl1 | assumption]).
  ppeek ltac:(apply parses_get_err).
  apply parses_ret_eq. rewrite hu8_id by lia. reflexivity.
Qed.

(* ------------------------------------------------------------------ the block `if P || B { ... }` *)
Definition sl_inter (is_p is_b : bool) (npt : N) (tmvp cat_nz : bool) (hs : hsps) (hp : hpps) :=
  (if is_p || is_b then
     ov <- rd_flag BR ;;
     nr <- (if ov then
              a <- rd_ue BR ;;
              b <- (if is_b then x <- rd_ue BR ;; ret (u8 x) else ret (pp_l1 hp)) ;;
              ret (u8 a, b)
            else ret (pp_l0 hp, pp_l1 hp)) ;;
     let '(l0, l1) := nr in
     if (14 <? l0) || (14 <? l1) then fail else
     rplm <- (if pp_lists_mod hp then
                let npt1 := match pp_scc hp with
                            | Some sc => if ps_curr_pic_ref sc then u8 (npt + 1) else npt
                            | None => npt
                            end in
                if 1 <? npt1 then x <- hparse_rplm BR is_b l0 l1 npt1 ;; ret (Some x)
                else ret None
              else ret None) ;;
     mvd <- (if is_b then rd_flag BR else ret false) ;;
     cab <- (if pp_cabac_init_present hp then rd_flag BR else ret false) ;;
     col <- (if tmvp then
               cf <- (if is_b then rd_flag BR else ret true) ;;
               ci <- (if (cf && (0 <? l0)) || (negb cf && (0 <? l1))
                      then x <- rd_ue BR ;; ret (u8 x) else ret 0) ;;
               ret (cf, ci)
             else ret (true, 0)) ;;
     pw <- (if (pp_weighted_pred hp && is_p) || (pp_weighted_bipred hp && is_b)
            then x <- hparse_pwt BR is_b cat_nz l0 l1 ;; ret (Some x) else ret None) ;;
     fm <- rd_ue BR ;;
     im <- (match h_scc hs with
            | Some sc => if ss_mv_res_idc sc =? 2 then rd_flag BR else ret false
            | None => ret false
            end) ;;
     ret (ov, l0, l1, rplm, mvd, cab, fst col, snd col, pw, u8 fm, im)
   else ret (false, 0, 0, None, false, false, true, 0, None, 0, false)).

Lemma parses_sl_inter raw sp pp v pos :
  hsps_valid sp = true -> hpps_valid pp = true -> hslice_valid sp pp v = true ->
  hs_main pp v = true ->
  parses raw (sl_inter (sx_slice_type v =? 1) (sx_slice_type v =? 0) (go_npt sp pp v) (hs_tmvp sp pp v)
                       (hs_cat_nz sp) (expected_hsps sp) (expected_hpps pp)) pos
    (opt_bits (hs_inter pp v) (ser_hslice_inter sp pp v))
    (hs_override pp v,
     (if hs_inter pp v then hs_l0 pp v else 0), (if hs_inter pp v then hs_l1 pp v else 0),
     (if hs_rplm sp pp v
      then Some (sx_ref_pic_list_modification_flag_l0 v,
                 (if sx_ref_pic_list_modification_flag_l0 v then sx_list_entry_l0 v else []),
                 hs_is_b pp v && sx_ref_pic_list_modification_flag_l1 v,
                 (if hs_is_b pp v && sx_ref_pic_list_modification_flag_l1 v then sx_list_entry_l1 v else []))
      else None),
     hs_is_b pp v && sx_mvd_l1_zero_flag v,
     hs_inter pp v && sx_cabac_init_present_flag pp && sx_cabac_init_flag v,
     (if hs_inter pp v && hs_tmvp sp pp v then hs_col_l0 pp v else true),
     (if hs_col_idx sp pp v then sx_collocated_ref_idx v else 0),
     (if hs_pwt pp v
      then Some (sx_luma_log2_weight_denom v,
                 (if hs_cat_nz sp then sx_delta_chroma_log2_weight_denom v else 0%Z),
                 map (expected_hpwt sp) (sx_pwt_l0 v),
                 (if hs_is_b pp v then map (expected_hpwt sp) (sx_pwt_l1 v) else []))
      else None),
     (if hs_inter pp v then sx_five_minus_max_num_merge_cand v else 0),
     hs_inter pp v && hs_mvres2 sp && sx_use_integer_mv_flag v).
Proof.
  intros Hs Hp Hv Hm.
  assert (EP : hs_is_p pp v = (sx_slice_type v =? 1)) by (unfold hs_is_p; rewrite Hm; reflexivity).
  assert (EB : hs_is_b pp v = (sx_slice_type v =? 0)) by (unfold hs_is_b; rewrite Hm; reflexivity).
  rewrite <- EP, <- EB. unfold sl_inter. fold (hs_inter pp v).
  destruct (hs_inter pp v) eqn:Hi; cbn [opt_bits andb].
  2:{ apply parses_ret_eq. unfold hs_inter in Hi. apply Bool.orb_false_elim in Hi. destruct Hi as [HP HB].
      unfold hs_override, hs_rplm, hs_col_idx, hs_pwt, hs_inter. rewrite HP, HB.
      rewrite !Bool.andb_false_r. reflexivity. }
  destruct (hs_l01_le14 sp pp v Hp Hv) as [Hl0 Hl1].
  assert (Ht : hs_num_pic_total_curr sp pp v < 256) by (unfold hslice_valid in Hv; split_all; lia).
  assert (Hov : hs_override pp v = sx_num_ref_idx_active_override_flag v)
    by (unfold hs_override; rewrite Hi; reflexivity).
  unfold ser_hslice_inter.
  pbind ltac:(apply parses_flag).
  (* num_ref_idx_active *)
  eapply parses_bind.
  { instantiate (1 := (hs_l0 pp v, hs_l1 pp v)).
    unfold hs_l0, hs_l1. rewrite Hov. rewrite epp_l0, epp_l1.
    destruct (sx_num_ref_idx_active_override_flag v); cbn [opt_bits andb]; [|apply parses_ret].
    pbind ltac:(apply parses_ue).
    eapply parses_bind_nil.
    { apply (parses_opt raw _ (hs_is_b pp v) _ (sx_num_ref_idx_l1_active_minus1 v)
               (sx_num_ref_idx_l1_default_active_minus1 pp)).
      intros _. plast ltac:(apply parses_ue). apply parses_ret_eq. apply hu8_id.
      unfold hslice_valid in Hv. split_all. lia. }
    cbv beta. apply parses_ret_eq. rewrite hu8_id by (unfold hslice_valid in Hv; split_all; lia).
    reflexivity. }
  cbv beta iota zeta.
  replace ((14 <? hs_l0 pp v) || (14 <? hs_l1 pp v)) with false by lia. cbv iota.
  (* ref_pic_lists_modification *)
  eapply parses_bind.
  { instantiate (1 := if hs_rplm sp pp v
                      then Some (sx_ref_pic_list_modification_flag_l0 v,
                                 (if sx_ref_pic_list_modification_flag_l0 v then sx_list_entry_l0 v else []),
                                 hs_is_b pp v && sx_ref_pic_list_modification_flag_l1 v,
                                 (if hs_is_b pp v && sx_ref_pic_list_modification_flag_l1 v
                                  then sx_list_entry_l1 v else []))
                      else None).
    rewrite epp_lists_mod.
    destruct (sx_lists_modification_present_flag pp) eqn:Hlm.
    - rewrite (go_npt1_eq sp pp v Ht).
      assert (Hr : hs_rplm sp pp v = (1 <? hs_num_pic_total_curr sp pp v))
        by (unfold hs_rplm; rewrite Hi, Hlm; reflexivity).
      rewrite Hr. destruct (1 <? hs_num_pic_total_curr sp pp v) eqn:H1; cbn [opt_bits].
      + plast ltac:(apply (parses_hrplm raw sp pp v); [exact Hp | exact Hv | rewrite Hr; reflexivity]).
        apply parses_ret.
      + apply parses_ret.
    - assert (Hr : hs_rplm sp pp v = false) by (unfold hs_rplm; rewrite Hi, Hlm; reflexivity).
      rewrite Hr. apply parses_ret. }
  cbv beta.
  pbind ltac:(apply (parses_opt raw _ (hs_is_b pp v) _ (sx_mvd_l1_zero_flag v) false);
              intros _; apply parses_flag).
  rewrite epp_cabac_init_present.
  pbind ltac:(apply (parses_opt raw _ (sx_cabac_init_present_flag pp) _ (sx_cabac_init_flag v) false);
              intros _; apply parses_flag).
  (* collocated *)
  eapply parses_bind.
  { instantiate (1 := ((if hs_tmvp sp pp v then hs_col_l0 pp v else true),
                       (if hs_col_idx sp pp v then sx_collocated_ref_idx v else 0))).
    assert (Hci : hs_col_idx sp pp v
                  = hs_tmvp sp pp v && ((hs_col_l0 pp v && (0 <? hs_l0 pp v))
                                        || (negb (hs_col_l0 pp v) && (0 <? hs_l1 pp v))))
      by (unfold hs_col_idx; rewrite Hi; reflexivity).
    rewrite Hci.
    destruct (hs_tmvp sp pp v); cbn [opt_bits andb]; [|apply parses_ret].
    eapply parses_bind.
    { apply (parses_opt raw _ (hs_is_b pp v) _ (sx_collocated_from_l0_flag v) true).
      intros _. apply parses_flag. }
    cbv beta. fold (hs_col_l0 pp v).
    eapply parses_bind_nil.
    { apply (parses_opt raw _ ((hs_col_l0 pp v && (0 <? hs_l0 pp v))
                               || (negb (hs_col_l0 pp v) && (0 <? hs_l1 pp v))) _
               (sx_collocated_ref_idx v) 0).
      intros _. plast ltac:(apply parses_ue). apply parses_ret_eq. apply hu8_id.
      unfold hslice_valid in Hv. split_all. lia. }
    cbv beta. apply parses_ret. }
  cbv beta.
  (* pred_weight_table *)
  rewrite epp_weighted_pred, epp_weighted_bipred. fold (hs_pwt pp v).
  pbind ltac:(apply parses_opt_some; intros Hw; apply (parses_hpwt raw sp pp v); assumption).
  pbind ltac:(apply parses_ue).
  (* use_integer_mv_flag *)
  eapply parses_bind_nil.
  { instantiate (1 := hs_mvres2 sp && sx_use_integer_mv_flag v).
    rewrite esp_scc. unfold hs_mvres2.
    destruct (hsps_ext_on sp sx_sps_scc_extension_flag); cbn [andb opt_bits]; [|apply parses_ret].
    cbn [ss_mv_res_idc expected_hspsscc].
    destruct (sx_motion_vector_resolution_control_idc (sx_sps_scc_extension sp) =? 2); cbn [opt_bits andb];
      [apply parses_flag | apply parses_ret]. }
  cbv beta. cbn [fst snd].
  apply parses_ret_eq.
  rewrite hu8_id by (unfold hslice_valid in Hv; split_all; lia).
  rewrite Hov.
  destruct (hs_is_b pp v), (sx_cabac_init_present_flag pp); reflexivity.
Qed.
