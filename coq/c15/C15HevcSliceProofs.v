(* C15HevcSliceProofs.v — hevc.ParseSliceHeader (model, ideal bit reader) applied to the slice NAL
   unit built by the independent serialiser of slice_segment_header() (7.3.6.1) returns the coded
   values; Size = the bytes of the escaped NAL unit occupied by the header incl. byte_alignment(). *)
From V.lib Require Import Base.
From V.c13 Require Import C13Spec C13Model.
From V.c15 Require Import C15Model C15Spec C15BitProofs C15AvcSpsProofs C15AvcPpsProofs
  C15HevcModel C15HevcSpec C15HevcBitProofs C15HevcSpsRpsProofs C15HevcPpsProofs C15HevcSliceBaseProofs
  C15HevcSliceRpsProofs C15HevcSliceInterProofs C15HevcSliceMainProofs C15HevcSliceSizeProofs.

Local Notation "x <- m ;; k" := (bind m (fun x => k))
  (at level 61, m at next level, right associativity).

(* ------------------------------------------------------------------ dependent flag, slice_segment_address *)
Lemma parses_slice_seg raw sp pp v pos :
  hsps_valid sp = true -> hslice_valid sp pp v = true ->
  parses raw
    (if negb (hs_first v) then
       dep <- (if sx_dependent_slice_segments_enabled_flag pp then rd_flag BR else ret false) ;;
       let shift := u8 (sx_log2_min_luma_coding_block_size_minus3 sp + 3
                        + sx_log2_diff_max_min_luma_coding_block_size sp) in
       let ctb := if shift <? 64 then 2 ^ shift else 0 in
       if ctb =? 0 then fail else
       let size := u64 (ceil_div (sx_pic_width_in_luma_samples sp) ctb
                        * ceil_div (sx_pic_height_in_luma_samples sp) ctb) in
       a <- rd BR (ceil_log2 size) ;;
       ret (dep, a)
     else ret (false, 0))
    pos
    (opt_bits (negb (hs_first v))
       (opt_bits (sx_dependent_slice_segments_enabled_flag pp) (fl (sx_dependent_slice_segment_flag v))
        ++ u (hs_address_bits sp) (sx_slice_segment_address v)))
    (hs_dep pp v, (if negb (hs_first v) then sx_slice_segment_address v else 0)).
Proof.
  intros Hs Hv.
  destruct (hslice_ctb sp Hs) as (C1 & C2 & C3 & C4 & C5). cbv zeta in C1, C2, C3.
  assert (Ha : sx_slice_segment_address v < 2 ^ hs_address_bits sp)
    by (unfold hslice_valid in Hv; split_all; lia).
  unfold hs_dep. cbv zeta.
  destruct (hs_first v); cbn [negb opt_bits andb]; [apply parses_ret|].
  pbind ltac:(apply (parses_opt raw _ (sx_dependent_slice_segments_enabled_flag pp) _
                       (sx_dependent_slice_segment_flag v) false); intros _; apply parses_flag).
  rewrite C1. rewrite C2. cbv iota. rewrite C3.
  rewrite ceil_log2_eq by exact C5. fold (hs_address_bits sp).
  plast ltac:(apply parses_rd; exact Ha).
  apply parses_ret.
Qed.

Lemma parses_slice_mn raw sp pp v pos :
  hsps_valid sp = true -> hpps_valid pp = true -> hslice_valid sp pp v = true ->
  parses raw (if negb (hs_dep pp v) then hparse_slice_main BR (hs_nt v) (expected_hsps sp) (expected_hpps pp)
              else ret hslice_main_zero) pos
         (opt_bits (hs_main pp v) (ser_hslice_main sp pp v)) (exp_main sp pp v).
Proof.
  intros Hs Hp Hv. unfold hs_main at 1.
  destruct (hs_dep pp v) eqn:Hd; cbn [negb opt_bits].
  - apply parses_ret_eq. symmetry. apply exp_main_dep. unfold hs_main. rewrite Hd. reflexivity.
  - apply parses_slice_main; try assumption. unfold hs_main. rewrite Hd. reflexivity.
Qed.

(* ------------------------------------------------------------------ entry points, extension *)
Lemma parses_slice_ep raw sp pp v pos :
  hslice_valid sp pp v = true ->
  parses raw
    (if hs_entry pp then
       n <- rd_ue BR ;;
       if 0 <? n then
         olm <- rd_ue BR ;;
         if 31 <? olm then fail else
         es <- rep_until_err_n BR n (x <- rd BR (u8 olm + 1) ;; ret (u32 x)) ;;
         ret (n, u8 olm, es)
       else ret (n, 0, [])
     else ret (0, 0, []))
    pos
    (opt_bits (hs_entry pp)
       (ue_bits (lenN (sx_entry_point_offset_minus1 v))
        ++ opt_bits (0 <? lenN (sx_entry_point_offset_minus1 v))
             (ue_bits (sx_offset_len_minus1 v)
              ++ flat_map (u (sx_offset_len_minus1 v + 1)) (sx_entry_point_offset_minus1 v))))
    (let ne := if hs_entry pp then lenN (sx_entry_point_offset_minus1 v) else 0 in
     (ne, (if 0 <? ne then sx_offset_len_minus1 v else 0),
      (if hs_entry pp then sx_entry_point_offset_minus1 v else []))).
Proof.
  intros Hv. unfold hslice_valid in Hv. split_all. cbv zeta.
  destruct (hs_entry pp); cbn [opt_bits]; [|apply parses_ret].
  pbind ltac:(apply parses_ue).
  destruct (0 <? lenN (sx_entry_point_offset_minus1 v)) eqn:Hn; cbn [opt_bits].
  - pbind ltac:(apply parses_ue).
    replace (31 <? sx_offset_len_minus1 v) with false by lia. cbv iota.
    rewrite (hu8_id (sx_offset_len_minus1 v)) by lia.
    assert (Hpw : 2 ^ (sx_offset_len_minus1 v + 1) <= 2 ^ 32) by (apply N.pow_le_mono_r; lia).
    change (2 ^ 32) with 4294967296 in Hpw.
    eapply parses_bind_nil; [|apply parses_ret].
    pose proof (parses_rep_until_err_n raw (x <- rd BR (sx_offset_len_minus1 v + 1) ;; ret (u32 x))
                  (u (sx_offset_len_minus1 v + 1)) (fun x : N => x) (sx_entry_point_offset_minus1 v)
                  (lenN (sx_entry_point_offset_minus1 v))) as P.
    rewrite map_id in P. apply P; [reflexivity | unfold loop_bound; lia|].
    intros x pos' Hin.
    match goal with H : forallb _ (sx_entry_point_offset_minus1 v) = true |- _ =>
      rewrite forallb_forall in H; specialize (H x Hin) end.
    plast ltac:(apply parses_rd; lia). apply parses_ret_eq. apply hu32_id. lia.
  - apply parses_ret_eq.
    destruct (sx_entry_point_offset_minus1 v); [reflexivity | rewrite lenN_cons in Hn; lia].
Qed.

Lemma parses_slice_ext raw sp pp v pos :
  hslice_valid sp pp v = true ->
  parses raw
    (if sx_slice_segment_header_extension_present_flag pp then
       l <- rd_ue BR ;;
       bs <- rep_n (u16 l) (x <- rd BR 8 ;; ret (u8 x)) ;;
       ret (u16 l, bs)
     else ret (0, []))
    pos
    (opt_bits (sx_slice_segment_header_extension_present_flag pp)
       (ue_bits (lenN (sx_slice_segment_header_extension_data v))
        ++ flat_map (u 8) (sx_slice_segment_header_extension_data v)))
    ((if sx_slice_segment_header_extension_present_flag pp
      then lenN (sx_slice_segment_header_extension_data v) else 0),
     (if sx_slice_segment_header_extension_present_flag pp
      then sx_slice_segment_header_extension_data v else [])).
Proof.
  intros Hv. unfold hslice_valid in Hv. split_all.
  destruct (sx_slice_segment_header_extension_present_flag pp); cbn [opt_bits]; [|apply parses_ret].
  pbind ltac:(apply parses_ue).
  rewrite (hu16_id (lenN _)) by lia.
  eapply parses_bind_nil; [|apply parses_ret].
  pose proof (parses_rep_n raw (x <- rd BR 8 ;; ret (u8 x)) (u 8) (fun x : N => x)
                (sx_slice_segment_header_extension_data v)
                (lenN (sx_slice_segment_header_extension_data v))) as P.
  rewrite map_id in P. apply P; [reflexivity | unfold loop_bound; lia|].
  intros x pos' Hin.
  match goal with H : forallb _ (sx_slice_segment_header_extension_data v) = true |- _ =>
    rewrite forallb_forall in H; specialize (H x Hin) end.
  plast ltac:(apply parses_rd; change (2 ^ 8) with 256; lia). apply parses_ret_eq. apply hu8_id. lia.
Qed.

(* ------------------------------------------------------------------ byte_alignment(), Size *)
Lemma slice_tail {A} raw D n pos (K : N -> bstate -> res (A * bstate)) :
  pos = n ->
  run (ab <- rd_flag BR ;;
       if negb ab then fail else
       u0 <- halign_loop BR br_bib 9 ;;
       e <- get_err BR ;;
       if e then fail else
       bind (get_nbytes BR) K)
      (mkB raw (trailing_bits n ++ D) pos false)
  = run (K (nbytes_at raw (n + 1 + (8 - (n + 1) mod 8) mod 8)))
        (mkB raw D (n + 1 + (8 - (n + 1) mod 8) mod 8) false).
Proof.
  intros ->. unfold trailing_bits.
  change ((true :: repeat false (N.to_nat ((8 - (n + 1) mod 8) mod 8))) ++ D)
    with (fl true ++ (repeat false (N.to_nat ((8 - (n + 1) mod 8) mod 8)) ++ D)).
  unfold run.
  rewrite (bind_parses raw _ _ n (fl true) true _ (parses_flag raw true n)).
  cbn [negb]. cbv iota. rewrite lenN_fl.
  unfold bind at 1.
  rewrite halign_ok by (rewrite ?N2Nat.id; lia).
  rewrite N2Nat.id.
  unfold bind at 1. unfold get_err at 1. cbn [r_err BR berr]. cbv iota.
  unfold bind at 1. unfold get_nbytes at 1. cbn [r_nbytes BR]. unfold br_nbytes. cbn [berr braw bpos].
  reflexivity.
Qed.

Lemma hslice_size_bits_eq sp pp v :
  hslice_size_bits sp pp v
  = lenN (hslice_hdr_bits sp pp v) + 1 + (8 - (lenN (hslice_hdr_bits sp pp v) + 1) mod 8) mod 8.
Proof.
  unfold hslice_size_bits, trailing_bits. rewrite lenN_cons, lenN_repeat, N2Nat.id. lia.
Qed.

(* ------------------------------------------------------------------ the NAL unit *)
Lemma hevc_slice_sz spsmap ppsmap sp pp v :
  hsps_valid sp = true -> hpps_valid pp = true -> hslice_valid sp pp v = true ->
  ppsmap (sx_slice_pic_parameter_set_id v) = Some (expected_hpps pp) ->
  spsmap (sx_pps_seq_parameter_set_id pp) = Some (expected_hsps sp) ->
  nbytes_at (hraw_slice sp pp v) (hslice_size_bits sp pp v) < 4294967296 ->
  hparse_slice_br spsmap ppsmap (hnalu_slice sp pp v) = Ok (expected_hslice sp pp v).
Proof.
  intros Hs Hp Hv Hpm Hsm Hsz.
  assert (Hv' := Hv). unfold hslice_valid in Hv'. split_all.
  assert (Hid : sx_slice_pic_parameter_set_id v <= 63)
    by (unfold hpps_valid in Hp; cbv zeta in Hp; split_all; lia).
  destruct (hnal_header_u16 (hs_nt v) (sx_sl_nuh_layer_id v) (sx_sl_nuh_temporal_id_plus1 v))
    as (Hh & Hlt & Hty); [lia | lia | lia |].
  unfold hparse_slice_br. rewrite binit_hslice.
  set (raw := hraw_slice sp pp v) in *.
  set (D := bits_of_bytes (sx_slice_segment_data v)).
  set (n := lenN (hslice_hdr_bits sp pp v)).
  change (runs_to raw (hparse_slice BR br_bib spsmap ppsmap) 0 (hslice_hdr_bits sp pp v)
                  (trailing_bits n ++ D) (expected_hslice sp pp v)).
  unfold hslice_hdr_bits, ser_hslice_header, hparse_slice. rewrite Hh.
  rbind ltac:(apply parses_rd; exact Hlt).
  rewrite Hty. fold (hs_irap v).
  rbind ltac:(apply parses_flag).
  rbind ltac:(apply (parses_opt raw _ (hs_irap v) _ (sx_no_output_of_prior_pics_flag v) false);
              intros _; apply parses_flag).
  rbind ltac:(apply parses_ue).
  rewrite (hu32_id (sx_slice_pic_parameter_set_id v)) by lia. rewrite Hpm. cbv iota.
  rewrite epp_sps_id, Hsm. cbv iota.
  esp_rewrite.
  rbind ltac:(apply (parses_slice_seg raw sp pp v); assumption).
  rbind ltac:(apply (parses_slice_mn raw sp pp v); assumption).
  unfold exp_main. cbv beta iota zeta.
  rbind ltac:(apply (parses_slice_ep raw sp pp v); assumption).
  eapply runs_bind_t; [apply parses_t_of; apply (parses_slice_ext raw sp pp v); assumption|].
  cbv beta iota zeta. cbn [fst snd].
  erewrite slice_tail.
  2:{ subst n. unfold hslice_hdr_bits, ser_hslice_header. rewrite Hh. rewrite !lenN_app. lia. }
  unfold run, ret. f_equal.
  subst n. rewrite <- hslice_size_bits_eq. rewrite (hu32_id _ Hsz).
  reflexivity.
Qed.

Lemma hevc_slice spsmap ppsmap sp pp v :
  hsps_valid sp = true -> hpps_valid pp = true -> hslice_valid sp pp v = true ->
  ppsmap (sx_slice_pic_parameter_set_id v) = Some (expected_hpps pp) ->
  spsmap (sx_pps_seq_parameter_set_id pp) = Some (expected_hsps sp) ->
  hparse_slice_br spsmap ppsmap (hnalu_slice sp pp v) = Ok (expected_hslice sp pp v).
Proof.
  intros Hs Hp Hv Hpm Hsm.
  apply hevc_slice_sz; try assumption. apply hslice_size_lt; assumption.
Qed.
