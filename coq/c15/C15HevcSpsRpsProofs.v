(* C15HevcSpsRpsProofs.v — st_ref_pic_set of the HEVC SPS: parseShortTermRPS (model, ideal bit
   reader) on the serialised explicit / inter-predicted sets returns the coded deltas resp.
   NumDeltaPocs of the set derived by (7-61)/(7-62); the loop over all sets. *)
From V.lib Require Import Base.
From V.c13 Require Import C13Spec C13Model.
From V.c15 Require Import C15Model C15Spec C15BitProofs C15AvcSpsProofs C15AvcPpsProofs
  C15HevcModel C15HevcSpec C15HevcBitProofs.

(* ------------------------------------------------------------------ lists *)
Lemma combine_app_eq {A B} (a b : list A) (c d : list B) :
  length a = length c -> combine (a ++ b) (c ++ d) = combine a c ++ combine b d.
Proof.
  revert c. induction a as [|x t IH]; intros [|y c] H; cbn [length app combine] in *;
    try discriminate; [reflexivity|].
  f_equal. apply IH. lia.
Qed.

Lemma combine_app_short {A B} (a : list A) (c d : list B) :
  length a = length c -> combine a (c ++ d) = combine a c.
Proof.
  revert c. induction a as [|x t IH]; intros [|y c] H; cbn [length app combine] in *;
    try discriminate; [reflexivity|].
  f_equal. apply IH. lia.
Qed.

Lemma map_snd_combine_eq {A B} (a : list A) (b : list B) :
  length a = length b -> map snd (combine a b) = b.
Proof.
  revert b. induction a as [|x t IH]; intros [|y b] H; cbn [length combine map snd] in *;
    try discriminate; [reflexivity|].
  f_equal. apply IH. lia.
Qed.

Lemma filter_rev_lenN {A} (f : A -> bool) (l : list A) : lenN (filter f (rev l)) = lenN (filter f l).
Proof.
  induction l as [|a t IH]; [reflexivity|].
  cbn [rev filter]. rewrite filter_app, lenN_app, IH. cbn [filter].
  destruct (f a); repeat (rewrite lenN_cons || rewrite lenN_nil); lia.
Qed.

Lemma fls_split {A B} (s0 s1 : list A) (fls : list B) :
  length fls = (length s0 + length s1 + 1)%nat ->
  exists f0 f1 last, fls = f0 ++ f1 ++ [last] /\ length f0 = length s0 /\ length f1 = length s1.
Proof.
  intros H. exists (firstn (length s0) fls), (firstn (length s1) (skipn (length s0) fls)).
  remember (skipn (length s1) (skipn (length s0) fls)) as r.
  assert (Hr : length r = 1%nat) by (subst r; rewrite !skipn_length; lia).
  destruct r as [|x [|? ?]]; cbn [length] in Hr; try lia.
  exists x. split; [|split].
  - rewrite Heqr, firstn_skipn, firstn_skipn. reflexivity.
  - apply firstn_length_le. lia.
  - apply firstn_length_le. rewrite skipn_length. lia.
Qed.

Lemma Forall2_nth_error_nth {A B} (P : A -> B -> Prop) la lb i d :
  Forall2 P la lb -> (i < length lb)%nat -> exists a, nth_error la i = Some a /\ P a (nth i lb d).
Proof.
  intros H. revert i. induction H as [|a b la lb Hab H IH]; intros [|i] Hi; cbn [length nth_error nth] in *;
    try lia.
  - eauto.
  - apply IH. lia.
Qed.

Lemma lenN_cumulate s : forall l a, lenN (cumulate s a l) = lenN l.
Proof.
  induction l as [|[m used] t IH]; intros a; cbn [cumulate]; [reflexivity|].
  cbv zeta. rewrite !lenN_cons, IH. reflexivity.
Qed.

(* ------------------------------------------------------------------ counting (7-61)/(7-62) *)
Lemma lenN_shifted keep dl es :
  lenN (shifted keep dl es)
  = lenN (filter (fun e => keep (fst (fst e) + dl)%Z && eff_use (snd e)) es).
Proof.
  unfold shifted. induction es as [|e t IH]; [reflexivity|].
  cbn [flat_map filter]. cbv beta zeta. rewrite lenN_app, IH.
  destruct (keep (fst (fst e) + dl)%Z && eff_use (snd e)); repeat (rewrite lenN_cons || rewrite lenN_nil);
    clear IH; generalize (lenN (filter (fun e0 : Z * bool * (bool * bool) => keep (fst (fst e0) + dl)%Z && eff_use (snd e0)) t));
    intros; lia.
Qed.

Lemma split_count (g : bool * bool -> bool) dl (es : list ((Z * bool) * (bool * bool))) :
  (forall e, In e es -> negb ((fst (fst e) + dl =? 0)%Z && g (snd e)) = true) ->
  lenN (filter (fun e => (fst (fst e) + dl <? 0)%Z && g (snd e)) es)
  + lenN (filter (fun e => (0 <? fst (fst e) + dl)%Z && g (snd e)) es)
  = countb (map (fun e => g (snd e)) es).
Proof.
  unfold countb. induction es as [|e t IH]; intros H; [reflexivity|].
  cbn [filter map].
  assert (He := H e (or_introl eq_refl)).
  assert (Ht : forall e', In e' t -> negb ((fst (fst e') + dl =? 0)%Z && g (snd e')) = true)
    by (intros; apply H; right; assumption).
  specialize (IH Ht).
  destruct (g (snd e)); cbn [andb] in *.
  - rewrite Bool.andb_true_r in *.
    destruct (fst (fst e) + dl <? 0)%Z eqn:E1; destruct (0 <? fst (fst e) + dl)%Z eqn:E2;
      cbn [andb]; repeat rewrite lenN_cons.
    4:{ destruct (fst (fst e) + dl =? 0)%Z eqn:E3; [cbn [negb] in He; discriminate|].
        exfalso. clear - E1 E2 E3. lia. }
    all: cbn [andb]; repeat rewrite lenN_cons; clear - IH E1 E2; lia.
  - rewrite !Bool.andb_false_r. exact IH.
Qed.

Lemma countb_app a b : countb (a ++ b) = countb a + countb b.
Proof. unfold countb. rewrite filter_app, lenN_app. reflexivity. Qed.

Lemma d_num_delta_derive ref dl f0 f1 last :
  length f0 = length (d_s0 ref) -> length f1 = length (d_s1 ref) -> dl <> 0%Z ->
  no_zero_dpoc ref dl (f0 ++ f1 ++ [last]) = true ->
  d_num_delta (derive_rps ref dl (f0 ++ f1 ++ [last])) = countb (map eff_use (f0 ++ f1 ++ [last])).
Proof.
  intros H0 H1 Hd Hnz.
  unfold no_zero_dpoc in Hnz.
  rewrite combine_app_eq in Hnz by (symmetry; exact H0).
  rewrite combine_app_short in Hnz by (symmetry; exact H1).
  rewrite forallb_app in Hnz. apply andb_prop in Hnz. destruct Hnz as [Hz0 Hz1].
  rewrite forallb_forall in Hz0, Hz1.
  unfold derive_rps, d_num_delta. cbv zeta. cbn [d_s0 d_s1].
  rewrite <- H0, <- H1.
  rewrite firstn_len_app, skipn_len_app, firstn_len_app.
  replace (nth (length f0 + length f1) (f0 ++ f1 ++ [last]) (false, false)) with last
    by (rewrite app_assoc, <- app_length; symmetry; apply nth_middle).
  rewrite !lenN_app, !lenN_shifted, !filter_rev_lenN.
  pose proof (split_count eff_use dl (combine (d_s0 ref) f0) Hz0) as S0.
  pose proof (split_count eff_use dl (combine (d_s1 ref) f1) Hz1) as S1.
  rewrite <- (map_map snd eff_use), map_snd_combine_eq in S0 by (symmetry; exact H0).
  rewrite <- (map_map snd eff_use), map_snd_combine_eq in S1 by (symmetry; exact H1).
  rewrite !map_app, !countb_app. cbn [map].
  assert (Hl : lenN (if (dl <? 0)%Z && eff_use last then [(dl, fst last)] else [])
               + lenN (if (0 <? dl)%Z && eff_use last then [(dl, fst last)] else [])
               = countb [eff_use last]).
  { unfold countb. cbn [filter].
    destruct (eff_use last); cbn [andb]; rewrite ?Bool.andb_true_r, ?Bool.andb_false_r.
    - destruct (dl <? 0)%Z eqn:E1; destruct (0 <? dl)%Z eqn:E2; unfold lenN; cbn [length];
        clear - Hd E1 E2; lia.
    - reflexivity. }
  cbv beta in *. clear - S0 S1 Hl. lia.
Qed.

Lemma countb_le l : countb l <= lenN l.
Proof.
  unfold countb. induction l as [|b t IH]; cbn [filter]; [lia|].
  destruct b; repeat rewrite lenN_cons; lia.
Qed.

(* used flags of the entries kept by (7-61)/(7-62) *)
Lemma countb_snd_shifted keep dl es :
  countb (map snd (shifted keep dl es))
  = lenN (filter (fun e => keep (fst (fst e) + dl)%Z && fst (snd e)) es).
Proof.
  unfold shifted, countb. induction es as [|e t IH]; [reflexivity|].
  cbn [flat_map filter]. cbv beta zeta. rewrite map_app, filter_app, lenN_app, IH.
  unfold eff_use.
  destruct (keep (fst (fst e) + dl)%Z), (fst (snd e)), (snd (snd e)); cbn [andb orb map snd filter app];
    repeat rewrite lenN_cons; unfold lenN at 1; cbn [length]; lia.
Qed.

(* NumPicTotalCurr contribution of an inter-predicted set = number of used_by_curr_pic_flag bits *)
Lemma d_num_used_derive ref dl f0 f1 last :
  length f0 = length (d_s0 ref) -> length f1 = length (d_s1 ref) -> dl <> 0%Z ->
  no_zero_dpoc ref dl (f0 ++ f1 ++ [last]) = true ->
  d_num_used (derive_rps ref dl (f0 ++ f1 ++ [last])) = countb (map fst (f0 ++ f1 ++ [last])).
Proof.
  intros H0 H1 Hd Hnz.
  unfold no_zero_dpoc in Hnz.
  rewrite combine_app_eq in Hnz by (symmetry; exact H0).
  rewrite combine_app_short in Hnz by (symmetry; exact H1).
  rewrite forallb_app in Hnz. apply andb_prop in Hnz. destruct Hnz as [Hz0 Hz1].
  rewrite forallb_forall in Hz0, Hz1.
  assert (Hw : forall es : list ((Z * bool) * (bool * bool)),
             (forall e, In e es -> negb ((fst (fst e) + dl =? 0)%Z && eff_use (snd e)) = true) ->
             forall e, In e es -> negb ((fst (fst e) + dl =? 0)%Z && fst (snd e)) = true).
  { intros es Hes e Hin. specialize (Hes e Hin). unfold eff_use in Hes.
    destruct (fst (fst e) + dl =? 0)%Z, (fst (snd e)), (snd (snd e)); cbn [andb orb negb] in *;
      congruence. }
  unfold derive_rps, d_num_used. cbv zeta. cbn [d_s0 d_s1].
  rewrite <- H0, <- H1.
  rewrite firstn_len_app, skipn_len_app, firstn_len_app.
  replace (nth (length f0 + length f1) (f0 ++ f1 ++ [last]) (false, false)) with last
    by (rewrite app_assoc, <- app_length; symmetry; apply nth_middle).
  rewrite !map_app, !countb_app, !countb_snd_shifted, !filter_rev_lenN.
  pose proof (split_count (fun f => fst f) dl (combine (d_s0 ref) f0) (Hw _ Hz0)) as S0.
  pose proof (split_count (fun f => fst f) dl (combine (d_s1 ref) f1) (Hw _ Hz1)) as S1.
  cbv beta in S0, S1.
  rewrite <- (map_map snd fst), map_snd_combine_eq in S0 by (symmetry; exact H0).
  rewrite <- (map_map snd fst), map_snd_combine_eq in S1 by (symmetry; exact H1).
  cbn [map].
  assert (Hl : countb (map snd (if (dl <? 0)%Z && eff_use last then [(dl, fst last)] else []))
               + countb (map snd (if (0 <? dl)%Z && eff_use last then [(dl, fst last)] else []))
               = countb [fst last]).
  { unfold countb, eff_use.
    destruct (fst last), (snd last); destruct (dl <? 0)%Z eqn:E1; destruct (0 <? dl)%Z eqn:E2;
      cbn [andb orb map snd filter]; unfold lenN; cbn [length]; clear - Hd E1 E2; lia. }
  cbv beta in *. clear - S0 S1 Hl. lia.
Qed.

(* ------------------------------------------------------------------ one st_ref_pic_set *)
(* what the loop knows about the sets parsed so far: NumDeltaPocs is that of the derived set *)
Definition rps_rel (a : hrps) (d : rps_derived) : Prop :=
  rps_ndelta a = d_num_delta d /\ d_num_delta d <= 32.

Lemma parses_rps_inter_entry raw (e : bool * bool) pos :
  parses raw (hparse_rps_inter_entry BR) pos (fl (fst e) ++ opt_bits (negb (fst e)) (fl (snd e)))
         (fst e, eff_use e).
Proof.
  unfold hparse_rps_inter_entry.
  pbind ltac:(apply parses_flag).
  eapply parses_bind_nil.
  { apply (parses_opt_neg raw _ (fst e) _ (snd e) true). intros _. apply parses_flag. }
  cbv beta. apply parses_ret_eq. unfold eff_use. destruct (fst e), (snd e); reflexivity.
Qed.

Lemma parses_rps_entries raw (l : list (N * bool)) n pos :
  n = lenN l -> n <= 16 -> forallb (fun e => fst e <? 32768) l = true ->
  parses raw (rep_n n (bind (rd_ue BR) (fun d => bind (rd_flag BR) (fun u => ret (u32 (u64 (d + 1)), u)))))
         pos (flat_map (fun e => ue_bits (fst e) ++ fl (snd e)) l)
         (map (fun e => (fst e + 1, snd e)) l).
Proof.
  intros Hn Hb Hv.
  apply (parses_rep_n raw _ (fun e : N * bool => ue_bits (fst e) ++ fl (snd e))
           (fun e : N * bool => (fst e + 1, snd e)) l); [exact Hn | unfold loop_bound; lia|].
  intros e pos' Hin. rewrite forallb_forall in Hv. specialize (Hv e Hin).
  pbind ltac:(apply parses_ue). plast ltac:(apply parses_flag).
  apply parses_ret_eq. unfold u32, u64. rewrite !N.mod_small by lia. reflexivity.
Qed.

Lemma parses_st_rps raw idx num acc prev r pos :
  Forall2 rps_rel acc prev -> lenN prev = idx -> idx <= 64 ->
  hrps_valid prev idx num r = true ->
  parses raw (hparse_st_rps BR idx num acc) pos (ser_hrps idx num r)
         (expected_hrps (derive_one prev idx r) r)
  /\ rps_rel (expected_hrps (derive_one prev idx r) r) (derive_one prev idx r).
Proof.
  intros Hrel Hlen Hidx Hv.
  destruct r as [neg ps | di sg ab fls]; cbn [hrps_valid ser_hrps derive_one expected_hrps] in *.
  - split_all. unfold max_st_pics in *. split.
    + unfold hparse_st_rps.
      eapply parses_bind.
      { apply (parses_opt raw _ (0 <? idx) _ false false). intros _. apply parses_flag. }
      cbv beta.
      replace (if 0 <? idx then false else false) with false by (destruct (0 <? idx); reflexivity).
      cbv iota.
      pbind ltac:(apply parses_ue). pbind ltac:(apply parses_ue).
      assert (E0 : u8 (lenN neg) = lenN neg) by (unfold u8; apply N.mod_small; lia).
      assert (E1 : u8 (lenN ps) = lenN ps) by (unfold u8; apply N.mod_small; lia).
      assert (E2 : u8 (lenN neg + lenN ps) = lenN neg + lenN ps) by (unfold u8; apply N.mod_small; lia).
      rewrite E0, E1, E2.
      replace ((16 <? lenN neg) || (16 <? lenN ps)) with false by lia.
      pbind ltac:(apply (parses_rps_entries raw neg); [reflexivity | lia | assumption]).
      plast ltac:(apply (parses_rps_entries raw ps); [reflexivity | lia | assumption]).
      apply parses_ret_eq. rewrite !map_map. cbn [fst snd]. reflexivity.
    + unfold rps_rel, d_num_delta. cbn [rps_ndelta d_s0 d_s1]. rewrite !lenN_cumulate. lia.
  - cbv zeta in Hv. split_all. unfold max_st_pics in *.
    set (ref := nth (N.to_nat (idx - (di + 1))) prev (mkRpsD [] [])) in *.
    set (dl := delta_rps_of sg ab) in *.
    assert (Hdl : dl <> 0%Z) by (unfold dl, delta_rps_of, zb; destruct sg; lia).
    destruct (fls_split (d_s0 ref) (d_s1 ref) fls) as (f0 & f1 & last & -> & Hf0 & Hf1).
    { unfold d_num_delta, lenN in *. lia. }
    assert (Hcnt : d_num_delta (derive_rps ref dl (f0 ++ f1 ++ [last]))
                   = countb (map eff_use (f0 ++ f1 ++ [last])))
      by (apply d_num_delta_derive; assumption).
    assert (Hcntu : d_num_used (derive_rps ref dl (f0 ++ f1 ++ [last]))
                    = countb (map fst (f0 ++ f1 ++ [last])))
      by (apply d_num_used_derive; assumption).
    destruct (Forall2_nth_error_nth rps_rel acc prev (N.to_nat (idx - (di + 1))) (mkRpsD [] []) Hrel)
      as (a & Hnth & Ha1 & Ha2).
    { unfold lenN in Hlen. lia. }
    fold ref in Ha1, Ha2.
    split.
    + unfold hparse_st_rps. replace (0 <? idx) with true by lia.
      pbind ltac:(apply parses_flag).
      eapply parses_bind.
      { apply (parses_opt raw _ (idx =? num) _ (di + 1) 1). intros _.
        plast ltac:(apply parses_ue). apply parses_ret_eq. unfold u8, u64. rewrite !N.mod_small; lia. }
      cbv beta.
      assert (Hd : (if idx =? num then di + 1 else 1) = di + 1).
      { destruct (idx =? num) eqn:E; [reflexivity|]. assert (di = 0) by lia. lia. }
      rewrite Hd.
      replace ((di + 1 =? 0) || (idx <? di + 1)) with false by lia.
      rewrite (fl_u1 sg).
      pbind ltac:(apply parses_rd; pose proof (b2n_lt2 sg); change (2 ^ 1) with 2; lia).
      pbind ltac:(apply parses_ue).
      rewrite Hnth, Ha1.
      plast ltac:(apply (parses_rep_n raw _
                           (fun e : bool * bool => fl (fst e) ++ opt_bits (negb (fst e)) (fl (snd e)))
                           (fun e : bool * bool => (fst e, eff_use e)) (f0 ++ f1 ++ [last]));
                  [lia | unfold loop_bound; lia | intros e pos' _; apply parses_rps_inter_entry]).
      apply parses_ret_eq.
      assert (M1 : map snd (map (fun e : bool * bool => (fst e, eff_use e)) (f0 ++ f1 ++ [last]))
                   = map eff_use (f0 ++ f1 ++ [last])) by (rewrite map_map; reflexivity).
      assert (M2 : map fst (map (fun e : bool * bool => (fst e, eff_use e)) (f0 ++ f1 ++ [last]))
                   = map fst (f0 ++ f1 ++ [last])) by (rewrite map_map; reflexivity).
      rewrite M1, M2, <- Hcnt, <- Hcntu.
      assert (Hu : d_num_used (derive_rps ref dl (f0 ++ f1 ++ [last])) < 256).
      { rewrite Hcntu. pose proof (countb_le (map fst (f0 ++ f1 ++ [last]))) as Hle.
        unfold lenN in Hle. rewrite map_length in Hle. fold (lenN (f0 ++ f1 ++ [last])) in Hle. lia. }
      unfold u8. rewrite !N.mod_small by lia. reflexivity.
    + unfold rps_rel. cbn [rps_ndelta]. split; [reflexivity | lia].
Qed.

(* ------------------------------------------------------------------ the loop over all sets *)
Fixpoint exp_from (prev : list rps_derived) (idx : N) (l : list hrps_syntax) : list hrps :=
  match l with
  | [] => []
  | r :: t => let d := derive_one prev idx r in expected_hrps d r :: exp_from (prev ++ [d]) (idx + 1) t
  end.

Lemma parses_rps_loop raw num : forall l idx acc prev pos,
  Forall2 rps_rel acc prev -> lenN prev = idx -> idx + lenN l <= 64 ->
  hrps_list_valid_from prev idx num l = true ->
  parses raw (hparse_rps_loop BR (length l) idx num acc) pos (ser_hrps_list idx num l)
         (acc ++ exp_from prev idx l).
Proof.
  induction l as [|r t IH]; intros idx acc prev pos Hrel Hlen Hb Hv;
    cbn [length hparse_rps_loop ser_hrps_list exp_from hrps_list_valid_from] in *.
  - rewrite app_nil_r. apply parses_ret.
  - apply andb_prop in Hv. destruct Hv as [Hv1 Hv2]. rewrite lenN_cons in Hb. cbv zeta.
    destruct (parses_st_rps raw idx num acc prev r pos Hrel Hlen ltac:(lia) Hv1) as [P R].
    pbind ltac:(exact P).
    eapply parses_bind_peek; [apply parses_get_err|]. cbv beta iota.
    set (d := derive_one prev idx r) in *.
    replace (acc ++ expected_hrps d r :: exp_from (prev ++ [d]) (idx + 1) t)
      with ((acc ++ [expected_hrps d r]) ++ exp_from (prev ++ [d]) (idx + 1) t)
      by (rewrite <- app_assoc; reflexivity).
    apply IH.
    + apply Forall2_app; [exact Hrel | constructor; [exact R | constructor]].
    + rewrite lenN_app, lenN_cons, lenN_nil. lia.
    + lia.
    + exact Hv2.
Qed.

Lemma exp_from_combine : forall l prev done idx, length prev = length done ->
  map (fun p => expected_hrps (fst p) (snd p)) (combine (derive_all_from prev idx l) (done ++ l))
  = map (fun p => expected_hrps (fst p) (snd p)) (combine prev done) ++ exp_from prev idx l.
Proof.
  induction l as [|r t IH]; intros prev done idx Hl; cbn [derive_all_from exp_from].
  - rewrite !app_nil_r. reflexivity.
  - cbv zeta. set (d := derive_one prev idx r).
    replace (done ++ r :: t) with ((done ++ [r]) ++ t) by (rewrite <- app_assoc; reflexivity).
    rewrite IH by (rewrite !app_length; cbn [length]; lia).
    rewrite combine_app_eq by exact Hl. rewrite map_app, <- app_assoc. reflexivity.
Qed.

(* the loop of ParseSPSNALUnit *)
Lemma parses_sps_rps raw (l : list hrps_syntax) pos :
  lenN l <= 64 -> hrps_list_valid_from [] 0 (lenN l) l = true ->
  parses raw (hparse_rps_loop BR (N.to_nat (lenN l)) 0 (lenN l) []) pos (ser_hrps_list 0 (lenN l) l)
         (map (fun p => expected_hrps (fst p) (snd p)) (combine (derive_all l) l)).
Proof.
  intros Hb Hv.
  pose proof (parses_rps_loop raw (lenN l) l 0 [] [] pos (Forall2_nil _) eq_refl ltac:(lia) Hv) as P.
  cbn [app] in P. unfold derive_all.
  pose proof (exp_from_combine l [] [] 0 eq_refl) as E. cbn [app combine map] in E. rewrite E.
  unfold lenN at 1. rewrite Nat2N.id. exact P.
Qed.
