(* C15HevcConfRtProofs.v — DecodeHEVCDecConfRec (C16 model, read through the FixedSliceReader model)
   returns the record that Encode wrote: hevc_confrec_roundtrip, for every well-formed record
   (hevc_rec_wf); the records built by CreateHEVCDecConfRec are well formed. *)
From V.lib Require Import Base.
From V.c13 Require Import C13Spec C13Model.
From V.c15 Require Import C15Model C15Spec C15BitProofs C15AvcSpsProofs C15HevcModel C15HevcSpec
  C15HevcBitProofs C15HevcConfModel C15HevcConfSpec C15HevcConfProofs C15HevcConfEncProofs.
From V.c16 Require Import C16ConfRecModel.

Local Open Scope Z_scope.

(* ------------------------------------------------------------------ well-formed records *)
Definition hevc_arr_wf (a : N * list (list N)) : bool := ((fst a <? 256)%N && nalus_fit (snd a))%bool.

Definition hevc_rec_wf (r : hevc_rec) : bool :=
  ((hr_version r =? 1)%N && (hr_profile_space r <? 4)%N && (hr_profile_idc r <? 32)%N
   && (hr_compat_flags r <? 4294967296)%N && (hr_constraint_flags r <? 281474976710656)%N
   && (hr_level_idc r <? 256)%N && (hr_min_spatial_seg r <? 4096)%N && (hr_parallelism r <? 4)%N
   && (hr_chroma r <? 4)%N && (hr_bdl r <? 8)%N && (hr_bdc r <? 8)%N
   && (hr_avg_frame_rate r <? 65536)%N && (hr_const_frame_rate r <? 4)%N
   && (hr_num_temporal_layers r <? 8)%N && (hr_temporal_id_nested r <? 2)%N
   && (hr_length_size_minus_one r =? 3)%N
   && (lenN (hr_arrays r) <? 256)%N && forallb hevc_arr_wf (hr_arrays r))%bool.

(* ------------------------------------------------------------------ the reader at a known position *)
(* `sfx` is what is left of `data` at byte position z *)
Definition at_pos (data : list N) (z : Z) (sfx : list N) : Prop :=
  exists pre, data = pre ++ sfx /\ Z.of_nat (length pre) = z.

Lemma at_lit data z sfx :
  skipn (Z.to_nat z) data = sfx -> 0 <= z -> z <= cr_len data -> at_pos data z sfx.
Proof.
  intros Hs H0 Hl. exists (firstn (Z.to_nat z) data). split.
  - rewrite <- Hs. symmetry. apply firstn_skipn.
  - unfold cr_len in Hl. rewrite firstn_length_le by lia. lia.
Qed.

Lemma at_pos_app data z x rest :
  at_pos data z (x ++ rest) -> at_pos data (z + Z.of_nat (length x)) rest.
Proof.
  intros (pre & -> & <-). exists (pre ++ x). split; [now rewrite app_assoc | rewrite app_length; lia].
Qed.

Lemma at_pos_len data z sfx : at_pos data z sfx -> z + Z.of_nat (length sfx) = cr_len data /\ 0 <= z.
Proof. intros (pre & -> & <-). unfold cr_len. rewrite app_length. lia. Qed.

Lemma at_pos_le data z sfx : at_pos data z sfx -> (length sfx <= length data)%nat.
Proof. intros (pre & -> & _). rewrite app_length. lia. Qed.

Lemma at_pos_idx data z b rest : at_pos data z (b :: rest) -> cr_idx data z = Ok b.
Proof.
  intros H. destruct (at_pos_len _ _ _ H) as [Hl H0]. cbn [length] in Hl.
  destruct H as (pre & -> & <-). unfold cr_idx.
  replace ((0 <=? Z.of_nat (length pre)) && (Z.of_nat (length pre) <? cr_len (pre ++ b :: rest)))%bool
    with true by lia.
  rewrite Nat2Z.id, nth_error_app2, Nat.sub_diag by lia. reflexivity.
Qed.

Lemma at_pos_slice data z x rest :
  at_pos data z (x ++ rest) -> cr_slice data z (z + Z.of_nat (length x)) = Ok x.
Proof.
  intros H. destruct (at_pos_len _ _ _ H) as [Hl H0]. rewrite app_length in Hl.
  destruct H as (pre & -> & <-). unfold cr_slice.
  replace ((0 <=? Z.of_nat (length pre))
           && (Z.of_nat (length pre) <=? Z.of_nat (length pre) + Z.of_nat (length x))
           && (Z.of_nat (length pre) + Z.of_nat (length x) <=? cr_len (pre ++ x ++ rest)))%bool
    with true by lia.
  rewrite Nat2Z.id, skipn_len_app.
  replace (Z.to_nat (Z.of_nat (length pre) + Z.of_nat (length x) - Z.of_nat (length pre))) with (length x) by lia.
  rewrite firstn_len_app. reflexivity.
Qed.

Lemma fsr_u8_at data z b rest :
  at_pos data z (b :: rest) -> fsr_read_u8 data (mkFsr false z) = Ok (b, mkFsr false (z + 1)).
Proof.
  intros H. destruct (at_pos_len _ _ _ H) as [Hl H0]. cbn [length] in Hl.
  unfold fsr_read_u8. cbn [fs_err fs_pos].
  replace (z >? cr_len data - 1) with false by lia.
  rewrite (at_pos_idx _ _ _ _ H). reflexivity.
Qed.

Lemma fsr_u16_at data z a b rest :
  at_pos data z (a :: b :: rest) ->
  fsr_read_u16 data (mkFsr false z) = Ok ((a * 256 + b)%N, mkFsr false (z + 2)).
Proof.
  intros H. destruct (at_pos_len _ _ _ H) as [Hl H0]. cbn [length] in Hl.
  unfold fsr_read_u16. cbn [fs_err fs_pos].
  replace (z >? cr_len data - 2) with false by lia.
  rewrite (at_pos_slice data z [a; b] rest H : cr_slice data z (z + 2) = _). reflexivity.
Qed.

Lemma fsr_u32_at data z a b c d rest :
  at_pos data z (a :: b :: c :: d :: rest) ->
  fsr_read_u32 data (mkFsr false z) = Ok ((((a * 256 + b) * 256 + c) * 256 + d)%N, mkFsr false (z + 4)).
Proof.
  intros H. destruct (at_pos_len _ _ _ H) as [Hl H0]. cbn [length] in Hl.
  unfold fsr_read_u32. cbn [fs_err fs_pos].
  replace (z >? cr_len data - 4) with false by lia.
  rewrite (at_pos_slice data z [a; b; c; d] rest H : cr_slice data z (z + 4) = _). reflexivity.
Qed.

Lemma fsr_bytes_at data z x rest :
  at_pos data z (x ++ rest) ->
  fsr_read_bytes data (mkFsr false z) (Z.of_nat (length x))
  = Ok (x, mkFsr false (z + Z.of_nat (length x))).
Proof.
  intros H. destruct (at_pos_len _ _ _ H) as [Hl H0]. rewrite app_length in Hl.
  unfold fsr_read_bytes. cbn [fs_err fs_pos].
  replace (Z.of_nat (length x) <? 0) with false by lia.
  replace (z >? cr_len data - Z.of_nat (length x)) with false by lia.
  rewrite (at_pos_slice data z x rest H). reflexivity.
Qed.

(* ------------------------------------------------------------------ the NAL unit loop *)
Definition enc_nalu (n : list N) : list N := be16 (u16 (lenN n)) ++ n.

Lemma enc_nalu_length l : (2 * length l <= length (flat_map enc_nalu l))%nat.
Proof.
  induction l as [|x t IH]; cbn [flat_map length]; [lia|].
  unfold enc_nalu at 1. rewrite !app_length. cbn [be16 length]. lia.
Qed.

Lemma be16_value x : (x < 65536)%N -> (u8 (u16 x / 256) * 256 + u8 (u16 x))%N = x.
Proof. intros H. unfold u8, u16. lia. Qed.

Lemma nalu_loop_ok data : forall nalus fuel i n z acc t rest,
  (length nalus < fuel)%nat -> n = i + Z.of_nat (length nalus) ->
  forallb (fun x => (lenN x <? 65536)%N) nalus = true ->
  at_pos data z (flat_map enc_nalu nalus ++ rest) ->
  hevc_nalu_loop fuel data i n (mkFsr false z) acc t
  = Ok (false, mkFsr false (z + Z.of_nat (length (flat_map enc_nalu nalus))), rev nalus ++ acc,
        (t + lenN nalus)%N).
Proof.
  induction nalus as [|x xs IH]; intros fuel i n z acc t rest Hf Hn Hw Hp;
    (destruct fuel as [|f]; [cbn [length] in Hf; lia|]); cbn [hevc_nalu_loop].
  - cbn [length] in Hn. replace (i <? n) with false by lia.
    cbn [flat_map length rev app]. rewrite Z.add_0_r, lenN_nil, N.add_0_r. reflexivity.
  - cbn [length] in Hn, Hf. replace (i <? n) with true by lia.
    cbn [forallb] in Hw. apply andb_prop in Hw. destruct Hw as [Hx Hw].
    cbn [flat_map] in Hp. unfold enc_nalu at 1 in Hp. unfold be16 in Hp.
    rewrite <- !app_assoc in Hp. cbn [app] in Hp.
    rewrite (fsr_u16_at _ _ _ _ _ Hp). cbn [rbind].
    rewrite be16_value by lia.
    apply (at_pos_app data z [_; _]) in Hp. cbn [length] in Hp. change (Z.of_nat 2) with 2 in Hp.
    unfold lenN at 1. rewrite nat_N_Z.
    rewrite (fsr_bytes_at _ _ _ _ Hp). cbn [rbind fs_err].
    apply at_pos_app in Hp.
    rewrite (IH f (i + 1) n _ (x :: acc) (t + 1)%N rest) by (try assumption; lia).
    cbn [flat_map rev]. unfold enc_nalu at 2. rewrite !app_length, <- app_assoc. cbn [be16 length app].
    rewrite lenN_cons.
    match goal with
    | |- Ok (_, mkFsr false ?p, _, ?t) = Ok (_, mkFsr false ?p', _, ?t') =>
        replace p with p' by lia; replace t with t' by lia; reflexivity
    end.
Qed.

(* ------------------------------------------------------------------ the array loop *)
Lemma hconf_encode_array_length ct nalus :
  length (hconf_encode_array (ct, nalus)) = (3 + length (flat_map enc_nalu nalus))%nat.
Proof. reflexivity. Qed.

Lemma array_loop_ok data : forall arrs fuel j n z acc t rest,
  (length arrs < fuel)%nat -> n = j + Z.of_nat (length arrs) ->
  forallb hevc_arr_wf arrs = true ->
  at_pos data z (flat_map hconf_encode_array arrs ++ rest) ->
  exists t', hevc_array_loop fuel data j n (mkFsr false z) acc t
  = Ok (false, mkFsr false (z + Z.of_nat (length (flat_map hconf_encode_array arrs))), rev arrs ++ acc,
        t', []).
Proof.
  induction arrs as [|a arrs IH]; intros fuel j n z acc t rest Hf Hn Hw Hp;
    (destruct fuel as [|f]; [cbn [length] in Hf; lia|]); cbn [hevc_array_loop].
  - cbn [length] in Hn. replace (j <? n) with false by lia. exists t.
    cbn [flat_map length rev app]. rewrite Z.add_0_r. reflexivity.
  - cbn [length] in Hn, Hf. replace (j <? n) with true by lia.
    cbn [forallb] in Hw. apply andb_prop in Hw. destruct Hw as [Ha Hw].
    destruct a as [ct nalus]. unfold hevc_arr_wf, nalus_fit in Ha. cbn [fst snd] in Ha.
    apply andb_prop in Ha. destruct Ha as [Hct Ha]. apply andb_prop in Ha. destruct Ha as [Hcnt Ha].
    assert (Hlens : forallb (fun x => (lenN x <? 65536)%N) nalus = true).
    { rewrite forallb_forall in *. intros x Hx. specialize (Ha x Hx). apply andb_prop in Ha. tauto. }
    cbn [flat_map] in Hp. unfold hconf_encode_array at 1 in Hp. cbn [fst snd] in Hp.
    fold enc_nalu in Hp. change (fun n0 : list N => be16 (u16 (lenN n0)) ++ n0) with enc_nalu in Hp.
    unfold be16 in Hp. rewrite <- !app_assoc in Hp. cbn [app] in Hp.
    rewrite (fsr_u8_at _ _ _ _ Hp). cbn [rbind].
    apply (at_pos_app data z [_]) in Hp. cbn [length] in Hp. change (Z.of_nat 1) with 1 in Hp.
    rewrite (fsr_u16_at _ _ _ _ _ Hp). cbn [rbind].
    apply (at_pos_app data (z + 1) [_; _]) in Hp. cbn [length] in Hp. change (Z.of_nat 2) with 2 in Hp.
    rewrite be16_value by lia.
    assert (Hfuel : (length nalus < cr_fuel data)%nat).
    { pose proof (at_pos_le _ _ _ Hp) as Hl. rewrite app_length in Hl.
      pose proof (enc_nalu_length nalus). unfold cr_fuel. lia. }
    rewrite (nalu_loop_ok data nalus (cr_fuel data) 0 _ _ [] (t + 1)%N _ Hfuel)
      by (try eassumption; unfold lenN; rewrite nat_N_Z; lia).
    cbn [rbind]. apply at_pos_app in Hp.
    destruct (IH f (j + 1) n _ ((ct, rev (rev nalus ++ [])) :: acc) (t + 1 + lenN nalus)%N rest
                 ltac:(lia) ltac:(lia) Hw Hp) as [t' Ht'].
    exists t'. replace (u8 ct) with ct by (symmetry; apply N.mod_small; lia). rewrite Ht'.
    rewrite app_nil_r, rev_involutive.
    cbn [flat_map rev]. rewrite app_length, hconf_encode_array_length, <- app_assoc. cbn [app].
    match goal with
    | |- Ok (_, mkFsr false ?p, _, _, _) = Ok (_, mkFsr false ?p', _, _, _) =>
        replace p with p' by lia; reflexivity
    end.
Qed.

(* ------------------------------------------------------------------ the fixed 23 bytes *)
Ltac at_lit_tac := apply at_lit; [reflexivity | lia | unfold cr_len; cbn [length]; lia].

Ltac rd8 :=
  match goal with
  | |- context [fsr_read_u8 ?d (mkFsr false ?z)] =>
      let n := eval compute in (Z.to_nat z) in
      let sfx := eval cbn [skipn] in (skipn n d) in
      lazymatch sfx with
      | ?b :: ?rest => rewrite (fsr_u8_at d z b rest) by at_lit_tac
      end
  end; cbn [rbind].

Ltac rd16 :=
  match goal with
  | |- context [fsr_read_u16 ?d (mkFsr false ?z)] =>
      let n := eval compute in (Z.to_nat z) in
      let sfx := eval cbn [skipn] in (skipn n d) in
      lazymatch sfx with
      | ?a :: ?b :: ?rest => rewrite (fsr_u16_at d z a b rest) by at_lit_tac
      end
  end; cbn [rbind].

Ltac rd32 :=
  match goal with
  | |- context [fsr_read_u32 ?d (mkFsr false ?z)] =>
      let n := eval compute in (Z.to_nat z) in
      let sfx := eval cbn [skipn] in (skipn n d) in
      lazymatch sfx with
      | ?a :: ?b :: ?c :: ?e :: ?rest => rewrite (fsr_u32_at d z a b c e rest) by at_lit_tac
      end
  end; cbn [rbind].

Lemma hevc_decode_full_header b0 b1 b2 b3 b4 b5 b6 b7 b8 b9 b10 b11 b12 b13 b14 b15 b16 b17 b18 b19 b20
      b21 b22 tail :
  b0 = 1%N -> N.land b21 3 = 3%N ->
  hevc_decode_full (b0 :: b1 :: b2 :: b3 :: b4 :: b5 :: b6 :: b7 :: b8 :: b9 :: b10 :: b11 :: b12 :: b13
                    :: b14 :: b15 :: b16 :: b17 :: b18 :: b19 :: b20 :: b21 :: b22 :: tail)
  = (do r <- hevc_array_loop hevc_array_fuel
               (b0 :: b1 :: b2 :: b3 :: b4 :: b5 :: b6 :: b7 :: b8 :: b9 :: b10 :: b11 :: b12 :: b13
                :: b14 :: b15 :: b16 :: b17 :: b18 :: b19 :: b20 :: b21 :: b22 :: tail)
               0 (Z.of_N (u8 b22)) (mkFsr false 23) [] 0%N;
     let '(early, s, arrs, t, dropped) := r in
     Ok (mkHevcRec b0 (N.land (N.shiftr b1 6) 3) (N.land (N.shiftr b1 5) 1 =? 1)%N (N.land b1 31)
                   (((b2 * 256 + b3) * 256 + b4) * 256 + b5)%N
                   (N.lor (N.shiftl (((b6 * 256 + b7) * 256 + b8) * 256 + b9)%N 16) (b10 * 256 + b11)%N)
                   b12 (N.land (b13 * 256 + b14)%N 4095) (N.land b15 3) (N.land b16 3) (N.land b17 7)
                   (N.land b18 7) (b19 * 256 + b20)%N
                   (N.land (N.shiftr b21 6) 3) (N.land (N.shiftr b21 3) 7) (N.land (N.shiftr b21 2) 1)
                   (N.land b21 3) (rev arrs),
         fs_err s, t, dropped)).
Proof.
  intros H0 H21. unfold hevc_decode_full, fsr_init.
  rd8. rewrite H0 at 1. change (negb (1 =? 1)%N) with false. cbv iota.
  rd8. rd32. rd32. rd16. rd8. rd16. rd8. rd8. rd8. rd8. rd16. rd8.
  rewrite H21. change (negb (3 =? 3)%N) with false. cbv iota.
  rd8.
  reflexivity.
Qed.

(* ------------------------------------------------------------------ masks *)
Lemma land_1 x : N.land x 1 = (x mod 2)%N.
Proof. change 1%N with (N.ones 1). rewrite N.land_ones. reflexivity. Qed.
Lemma land_3 x : N.land x 3 = (x mod 4)%N.
Proof. change 3%N with (N.ones 2). rewrite N.land_ones. reflexivity. Qed.
Lemma land_7 x : N.land x 7 = (x mod 8)%N.
Proof. change 7%N with (N.ones 3). rewrite N.land_ones. reflexivity. Qed.
Lemma land_31 x : N.land x 31 = (x mod 32)%N.
Proof. change 31%N with (N.ones 5). rewrite N.land_ones. reflexivity. Qed.
Lemma land_4095 x : N.land x 4095 = (x mod 4096)%N.
Proof. change 4095%N with (N.ones 12). rewrite N.land_ones. reflexivity. Qed.

(* ------------------------------------------------------------------ the or-ed bytes as sums *)
Local Open Scope N_scope.

Lemma byte1_value sp (tier : bool) idc : sp < 4 -> idc < 32 ->
  N.lor (N.lor (u8 (sp * 64)) (if tier then 32 else 0)) (u8 idc) = sp * 64 + b2n tier * 32 + idc.
Proof.
  intros Hs Hi. unfold u8. rewrite (N.mod_small (sp * 64)), (N.mod_small idc) by lia.
  rewrite <- N.lor_assoc.
  replace (if tier then 32 else 0) with (b2n tier * 32) by (destruct tier; reflexivity).
  pose proof (b2n_lt2 tier) as Ht.
  rewrite (lor_add_gen (b2n tier * 32) _ 5) by (change (2 ^ 5) with 32; lia).
  rewrite (lor_add_gen (sp * 64) _ 6) by (change (2 ^ 6) with 64; lia).
  lia.
Qed.

Lemma byte21_value cfr ntl tin : cfr < 4 -> ntl < 8 -> tin < 2 ->
  N.lor (N.lor (N.lor (u8 (cfr * 64)) (u8 (ntl * 8))) (u8 (tin * 4))) (u8 3)
  = cfr * 64 + ntl * 8 + tin * 4 + 3.
Proof.
  intros Hc Hn Ht. unfold u8.
  rewrite (N.mod_small (cfr * 64)), (N.mod_small (ntl * 8)), (N.mod_small (tin * 4)), (N.mod_small 3) by lia.
  rewrite (lor_add_gen (cfr * 64) _ 6) by (change (2 ^ 6) with 64; lia).
  rewrite (lor_add_gen (cfr * 64 + ntl * 8) _ 3) by (change (2 ^ 3) with 8; lia).
  rewrite (lor_add_gen (cfr * 64 + ntl * 8 + tin * 4) _ 2) by (change (2 ^ 2) with 4; lia).
  reflexivity.
Qed.

Lemma lor_61440 x : x < 4096 -> N.lor 61440 (u16 x) = 61440 + x.
Proof.
  intros H. unfold u16. rewrite N.mod_small by lia.
  apply (lor_add_gen 61440 x 12); [reflexivity | change (2 ^ 12) with 4096; lia].
Qed.

Lemma lor_252 x : x < 4 -> N.lor 252 (u8 x) = 252 + x.
Proof.
  intros H. unfold u8. rewrite N.mod_small by lia.
  apply (lor_add_gen 252 x 2); [reflexivity | change (2 ^ 2) with 4; lia].
Qed.

Lemma lor_248 x : x < 8 -> N.lor 248 (u8 x) = 248 + x.
Proof.
  intros H. unfold u8. rewrite N.mod_small by lia.
  apply (lor_add_gen 248 x 3); [reflexivity | change (2 ^ 3) with 8; lia].
Qed.

Lemma be48_value c : c < 281474976710656 ->
  N.lor (N.shiftl (((u8 (u16 (N.shiftr c 32) / 256) * 256 + u8 (u16 (N.shiftr c 32))) * 256
                    + u8 (u32 (N.land c 4294967295) / 16777216)) * 256
                   + u8 (u32 (N.land c 4294967295) / 65536)) 16)
        (u8 (u32 (N.land c 4294967295) / 256) * 256 + u8 (u32 (N.land c 4294967295))) = c.
Proof.
  intros Hc. rewrite shiftr_div, land_ones32. change (2 ^ 32) with 4294967296.
  assert (Hcl : c = c / 4294967296 * 4294967296 + c mod 4294967296) by lia.
  assert (Hh : c / 4294967296 < 65536) by lia.
  assert (Hl : c mod 4294967296 < 4294967296) by lia.
  set (h := c / 4294967296) in *. set (l := c mod 4294967296) in *. clearbody h l.
  assert (E1 : u8 (u16 h / 256) * 256 + u8 (u16 h) = h) by (unfold u8, u16; lia).
  assert (E2 : ((u8 (u32 l / 16777216) * 256 + u8 (u32 l / 65536)) * 256 + u8 (u32 l / 256)) * 256
               + u8 (u32 l) = l) by (unfold u8, u32; lia).
  rewrite shiftl_mul, lor_shifted_add by (change (2 ^ 16) with 65536; unfold u8; lia).
  change (2 ^ 16) with 65536. lia.
Qed.

Local Open Scope Z_scope.

Lemma mkHevcRec_eq a1 a2 a3 a4 a5 a6 a7 a8 a9 a10 a11 a12 a13 a14 a15 a16 a17 a18
      b1 b2 b3 b4 b5 b6 b7 b8 b9 b10 b11 b12 b13 b14 b15 b16 b17 b18 :
  a1 = b1 -> a2 = b2 -> a3 = b3 -> a4 = b4 -> a5 = b5 -> a6 = b6 -> a7 = b7 -> a8 = b8 -> a9 = b9 ->
  a10 = b10 -> a11 = b11 -> a12 = b12 -> a13 = b13 -> a14 = b14 -> a15 = b15 -> a16 = b16 -> a17 = b17 ->
  a18 = b18 ->
  mkHevcRec a1 a2 a3 a4 a5 a6 a7 a8 a9 a10 a11 a12 a13 a14 a15 a16 a17 a18
  = mkHevcRec b1 b2 b3 b4 b5 b6 b7 b8 b9 b10 b11 b12 b13 b14 b15 b16 b17 b18.
Proof. intros. subst. reflexivity. Qed.

Ltac field_tac :=
  rewrite ?shiftr_div, ?land_1, ?land_3, ?land_7, ?land_31, ?land_4095, ?land_ones32;
  change (2 ^ 6)%N with 64%N; change (2 ^ 5)%N with 32%N; change (2 ^ 3)%N with 8%N;
  change (2 ^ 2)%N with 4%N; change (2 ^ 32)%N with 4294967296%N;
  unfold u8, u16, u32; lia.

(* ------------------------------------------------------------------ decode (encode r) = r *)
Lemma hevc_confrec_roundtrip r :
  hevc_rec_wf r = true -> exists t, hevc_decode_dec_conf_rec (hconf_encode r) = Ok (r, t).
Proof.
  destruct r as [ver sp tier idc compat cons level mss par chroma bdl bdc afr cfr ntl tin lsm arrays].
  unfold hevc_rec_wf.
  cbn [hr_version hr_profile_space hr_tier hr_profile_idc hr_compat_flags hr_constraint_flags
       hr_level_idc hr_min_spatial_seg hr_parallelism hr_chroma hr_bdl hr_bdc hr_avg_frame_rate
       hr_const_frame_rate hr_num_temporal_layers hr_temporal_id_nested hr_length_size_minus_one
       hr_arrays].
  intros Hw. split_all.
  repeat match goal with H : (_ =? _)%N = true |- _ => apply N.eqb_eq in H end. subst ver lsm.
  repeat match goal with H : (_ <? _)%N = true |- _ => apply N.ltb_lt in H end.
  unfold hevc_decode_dec_conf_rec, hconf_encode.
  cbn [hr_version hr_profile_space hr_tier hr_profile_idc hr_compat_flags hr_constraint_flags
       hr_level_idc hr_min_spatial_seg hr_parallelism hr_chroma hr_bdl hr_bdc hr_avg_frame_rate
       hr_const_frame_rate hr_num_temporal_layers hr_temporal_id_nested hr_length_size_minus_one
       hr_arrays].
  rewrite byte1_value, byte21_value, lor_61440, !lor_252, !lor_248 by assumption.
  unfold be48, be32, be16. cbn [app].
  rewrite hevc_decode_full_header by (try reflexivity; rewrite land_3; lia).
  match goal with
  | |- context [hevc_array_loop ?f ?d ?j ?n ?s ?acc ?t] =>
      destruct (array_loop_ok d arrays f j n 23 acc t []) as [t' Ht']
  end.
  - unfold hevc_array_fuel. unfold lenN in *. lia.
  - unfold u8, lenN in *. lia.
  - assumption.
  - rewrite app_nil_r. at_lit_tac.
  - rewrite Ht'. cbn [rbind fs_err]. exists t'. rewrite app_nil_r, rev_involutive.
    apply (f_equal (fun x => Ok (x, t'))).
    pose proof (b2n_lt2 tier) as Htier.
    apply mkHevcRec_eq.
    + reflexivity.
    + field_tac.
    + destruct tier; cbn [b2n] in *; [apply N.eqb_eq | apply N.eqb_neq]; field_tac.
    + field_tac.
    + field_tac.
    + apply be48_value. assumption.
    + field_tac.
    + field_tac.
    + field_tac.
    + field_tac.
    + field_tac.
    + field_tac.
    + field_tac.
    + field_tac.
    + field_tac.
    + field_tac.
    + field_tac.
    + reflexivity.
Qed.

(* ------------------------------------------------------------------ the records of CreateHEVCDecConfRec are well formed *)
Lemma expected_hconf_wf v vps sps pps vc sc pc inc :
  hsps_valid v = true -> hconf_depths_fit v = true ->
  nalus_fit vps = true -> nalus_fit sps = true -> nalus_fit pps = true ->
  hevc_rec_wf (expected_hconf v vps sps pps vc sc pc inc) = true.
Proof.
  intros Hv Hd Hvps Hsps Hpps.
  destruct (hsps_valid_conf v Hv) as (Hs & Hi & Hc & H43 & Hl & Hch). cbv zeta in *.
  destruct (constraint48_bits _ H43) as [_ H48]. change (2 ^ 48)%N with 281474976710656%N in H48.
  unfold hconf_depths_fit in Hd. apply andb_prop in Hd. destruct Hd as [Hdl Hdc].
  unfold hevc_rec_wf, expected_hconf. cbv zeta.
  cbn [hr_version hr_profile_space hr_tier hr_profile_idc hr_compat_flags hr_constraint_flags
       hr_level_idc hr_min_spatial_seg hr_parallelism hr_chroma hr_bdl hr_bdc hr_avg_frame_rate
       hr_const_frame_rate hr_num_temporal_layers hr_temporal_id_nested hr_length_size_minus_one
       hr_arrays].
  repeat (apply andb_true_intro; split); try reflexivity; try lia.
  - destruct inc; reflexivity.
  - destruct inc; [|reflexivity]. unfold hevc_arr_wf. cbn [forallb fst snd].
    rewrite Hvps, Hsps, Hpps. destruct vc, sc, pc; reflexivity.
Qed.

Lemma hevc_confrec_roundtrip_created v vps sps pps vc sc pc inc :
  hsps_valid v = true -> hconf_depths_fit v = true ->
  nalus_fit vps = true -> nalus_fit sps = true -> nalus_fit pps = true ->
  exists t, hevc_decode_dec_conf_rec (spec_hvcc v vps sps pps vc sc pc inc)
            = Ok (expected_hconf v vps sps pps vc sc pc inc, t).
Proof.
  intros Hv Hd Hvps Hsps Hpps. rewrite <- hevc_confrec_encode_eq by assumption.
  apply hevc_confrec_roundtrip, expected_hconf_wf; assumption.
Qed.
