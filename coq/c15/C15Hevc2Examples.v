(* C15Hevc2Examples.v — example values for the theorems of C15Hevc2Theorems.v.  Definitions only. *)
From V.lib Require Import Base.
From V.c13 Require Import C13Spec.
From V.c15 Require Import C15Model C15Spec C15HevcModel C15HevcSpec C15HevcSliceExamples C15Hevc2Model C15Hevc2Spec.

Definition hpps_with_ext (v : hpps_syntax) (mf df : bool) : hpps_syntax :=
  mkHPpsSyn (sx_pps_nuh_layer_id v) (sx_pps_nuh_temporal_id_plus1 v) (sx_pps_pic_parameter_set_id v)
    (sx_pps_seq_parameter_set_id v) (sx_dependent_slice_segments_enabled_flag v) (sx_output_flag_present_flag v)
    (sx_num_extra_slice_header_bits v) (sx_sign_data_hiding_enabled_flag v) (sx_cabac_init_present_flag v)
    (sx_num_ref_idx_l0_default_active_minus1 v) (sx_num_ref_idx_l1_default_active_minus1 v) (sx_init_qp_minus26 v)
    (sx_constrained_intra_pred_flag v) (sx_transform_skip_enabled_flag v) (sx_cu_qp_delta_enabled_flag v)
    (sx_diff_cu_qp_delta_depth v) (sx_pps_cb_qp_offset v) (sx_pps_cr_qp_offset v)
    (sx_pps_slice_chroma_qp_offsets_present_flag v) (sx_weighted_pred_flag v) (sx_weighted_bipred_flag v)
    (sx_transquant_bypass_enabled_flag v) (sx_tiles_enabled_flag v) (sx_entropy_coding_sync_enabled_flag v)
    (sx_num_tile_columns_minus1 v) (sx_num_tile_rows_minus1 v) (sx_uniform_spacing_flag v)
    (sx_column_width_minus1 v) (sx_row_height_minus1 v) (sx_loop_filter_across_tiles_enabled_flag v)
    (sx_pps_loop_filter_across_slices_enabled_flag v) (sx_deblocking_filter_control_present_flag v)
    (sx_deblocking_filter_override_enabled_flag v) (sx_pps_deblocking_filter_disabled_flag v)
    (sx_pps_beta_offset_div2 v) (sx_pps_tc_offset_div2 v) (sx_pps_scaling_list_data_present_flag v)
    (sx_pps_scaling_list v) (sx_lists_modification_present_flag v) (sx_log2_parallel_merge_level_minus2 v)
    (sx_slice_segment_header_extension_present_flag v) true
    (sx_pps_range_extension_flag v) mf df (sx_pps_scc_extension_flag v) (sx_pps_extension_4bits v)
    (sx_pps_range_extension v) (sx_pps_scc_extension v) (sx_pps_extension_data_flags v).

Definition ex_leaf (q : N) : otree :=
  OLeaf [[Some [(q, 5, true); (0, 0, false); (0, 3, false)]; None; Some [(7, 0, true); (1, 1, false); (0, 0, false)]; None];
         [None; None; None; Some [(0, 1, true); (2, 2, true); (3, 0, false)]]].

(* colour mapping table: 2 reference layers, cm_octant_depth 1 with the root split into 8 octants of
   PartNumY = 2 parts, CMResLSBits = 10 + 10 - 9 - 1 - 2 = 8 *)
Definition ex_cm : cm_syntax :=
  mkCmSyn [1; 5] 1 1 2 2 1 3 1 1 (-3)%Z 4%Z
          (OSplit (ex_leaf 0) (ex_leaf 1) (ex_leaf 2) (ex_leaf 3) (ex_leaf 4) (ex_leaf 5) (ex_leaf 6) (ex_leaf 7)).

Definition ex_ppsml : ppsml_syntax :=
  mkPpsMlSyn true true 3
    [mkRefLocSyn 2 (Some (-16384, 16383, 0, 5)%Z) None (Some (31, 0, 63, 8));
     mkRefLocSyn 7 None (Some (1, -2, 3, -4)%Z) None]
    true ex_cm.

(* 3 depth layers of 8 bit: delta_dlt with 5 values (max_diff 9, min_diff_minus1 2: 3-bit differences),
   256 explicit value flags, none, a predicted one-value table *)
Definition ex_pps3d : pps3d_syntax :=
  mkPps3dSyn true 0
    [DlDelta false (mkDeltaDltSyn 5 9 2 17 [6; 0; 3; 5]); DlFlags (flat_map (fun _ => [true; false; false; true]) (seq 0 64)); DlNone;
     DlDelta true (mkDeltaDltSyn 1 0 0 200 [])].

Definition ex_hpps2 : hpps2_syntax := mkHPps2Syn (hpps_with_ext ex_hpps_tiles true true) ex_ppsml ex_pps3d.
