(* C15AvcSpsProofs.v — ParseSPSNALUnit (model, ideal bit reader) applied to the NAL unit built
   by the independent serialiser returns the coded values. *)
From V.lib Require Import Base.
From V.c13 Require Import C13Spec C13Model.
From V.c15 Require Import C15Model C15Spec C15BitProofs.

Ltac pbind tac := eapply parses_bind; [ tac | cbv beta iota zeta ].
Ltac plast tac := eapply parses_bind_nil; [ tac | cbv beta iota zeta ].

Lemma parses_bind_ret {A B} raw (a : A) (k : A -> bstate -> res (B * bstate)) pos e b :
  parses raw (k a) pos e b -> parses raw (bind (ret a) k) pos e b.
Proof. intros H rest. apply H. Qed.

(* the first parser consumes nothing (NrBytesRead, AccError) *)
Lemma parses_bind_peek {A B} raw (p : bstate -> res (A * bstate)) (k : A -> bstate -> res (B * bstate))
      pos e a b :
  parses raw p pos [] a -> parses raw (k a) pos e b -> parses raw (bind p k) pos e b.
Proof.
  intros H1 H2. change e with ([] ++ e). eapply parses_bind; [exact H1|].
  rewrite lenN_nil, N.add_0_r. exact H2.
Qed.

Lemma parses_opt {A} raw (p : bstate -> res (A * bstate)) (c : bool) e (a d : A) pos :
  (c = true -> parses raw p pos e a) ->
  parses raw (if c then p else ret d) pos (opt_bits c e) (if c then a else d).
Proof. destruct c; intros H; [apply H; reflexivity | apply parses_ret]. Qed.

(* optional element introduced by `if !c` in Go *)
Lemma parses_opt_neg {A} raw (p : bstate -> res (A * bstate)) (c : bool) e (a d : A) pos :
  (c = false -> parses raw p pos e a) ->
  parses raw (if negb c then p else ret d) pos (opt_bits (negb c) e) (if c then d else a).
Proof. destruct c; intros H; [apply parses_ret | apply H; reflexivity]. Qed.

(* ------------------------------------------------------------------ scaling lists *)
Lemma parses_scaling_list raw : forall n last next ds lst pos,
  forallb delta_ok ds = true -> (0 <= last)%Z ->
  scaling_derive n last next ds = Some lst ->
  parses raw (read_scaling_list BR n last next) pos (flat_map se_bits ds) lst.
Proof.
  induction n as [|k IH]; intros last next ds lst pos Hd Hl Hs; cbn [read_scaling_list scaling_derive] in *.
  - destruct ds; [|discriminate]. injection Hs as <-. apply parses_ret.
  - destruct (next =? 0)%Z eqn:Hn.
    + apply parses_bind_ret. rewrite Hn.
      destruct (scaling_derive k last 0 ds) as [t|] eqn:Ht; [|discriminate].
      injection Hs as <-.
      apply Z.eqb_eq in Hn. subst next.
      plast ltac:(apply (IH last 0%Z ds t); assumption).
      apply parses_ret.
    + destruct ds as [|d ds']; [discriminate|].
      cbn [forallb] in Hd. apply andb_prop in Hd. destruct Hd as [Hd1 Hd2].
      unfold delta_ok in Hd1.
      cbn [flat_map].
      assert (Hrem : Z.rem (last + d + 256) 256 = ((last + d + 256) mod 256)%Z)
        by (apply Z.rem_mod_nonneg; lia).
      set (next' := ((last + d + 256) mod 256)%Z) in *.
      set (x := if (next' =? 0)%Z then last else next') in *.
      destruct (scaling_derive k x next' ds') as [t|] eqn:Ht; [|discriminate].
      injection Hs as <-.
      assert (Hn' : (0 <= next' < 256)%Z) by (apply Z.mod_pos_bound; lia).
      assert (Hx : (0 <= x)%Z) by (unfold x; destruct (next' =? 0)%Z; lia).
      eapply parses_bind.
      { plast ltac:(apply parses_se). apply parses_ret. }
      cbv beta zeta. rewrite Hrem. fold next'. fold x.
      plast ltac:(apply (IH x next' ds' t); assumption).
      apply parses_ret.
Qed.

Lemma parses_scaling_lists raw : forall l i pos,
  scaling_lists_valid i l = true ->
  parses raw (read_scaling_lists BR (length l) i) pos (ser_scaling_lists l) (expected_scaling_lists i l).
Proof.
  induction l as [|o t IH]; intros i pos Hv;
    cbn [length read_scaling_lists ser_scaling_lists flat_map expected_scaling_lists].
  - apply parses_ret.
  - fold (ser_scaling_lists t). destruct o as [ds|]; cbn [scaling_lists_valid] in Hv.
    + apply andb_prop in Hv. destruct Hv as [Hv Ht]. apply andb_prop in Hv. destruct Hv as [Hd Hs].
      destruct (scaling_derive (scaling_size i) 8 8 ds) as [lst|] eqn:Hder; [|discriminate].
      cbn [ser_scaling_entry]. change (true :: flat_map se_bits ds) with (fl true ++ flat_map se_bits ds).
      rewrite <- app_assoc.
      pbind ltac:(apply parses_flag).
      eapply parses_bind.
      { plast ltac:(apply (parses_scaling_list raw (scaling_size i) 8 8 ds lst); [assumption|lia|assumption]).
        apply parses_ret. }
      cbv beta.
      plast ltac:(apply IH; assumption). apply parses_ret.
    + cbn [ser_scaling_entry]. change [false] with (fl false).
      pbind ltac:(apply parses_flag).
      apply parses_bind_ret.
      plast ltac:(apply IH; assumption). apply parses_ret.
Qed.

(* ------------------------------------------------------------------ validity, unpacked *)
Ltac split_valid H :=
  repeat match type of H with
         | (_ && _) = true => let H1 := fresh "V" in apply andb_prop in H; destruct H as [H H1]
         end.

Ltac split_all :=
  repeat match goal with
         | H : (_ && _) = true |- _ =>
             let H1 := fresh "V" in apply andb_prop in H; destruct H as [H H1]
         end.

(* ------------------------------------------------------------------ the profile switch *)
Lemma is_high_profile_eq p : is_high_profile p = has_chroma_block p.
Proof. reflexivity. Qed.

Lemma parses_sps_high raw v pos :
  sps_valid v = true ->
  parses raw (parse_sps_high BR (profile_idc v)) pos (ser_sps_high v)
    (let hp := has_chroma_block (profile_idc v) in
     let smp := hp && seq_scaling_matrix_present_flag v in
     (eff_chroma_format_idc v, eff_separate_colour_plane v,
      (if hp then bit_depth_luma_minus8 v else 0), (if hp then bit_depth_chroma_minus8 v else 0),
      hp && qpprime_y_zero_transform_bypass_flag v, smp,
      if smp then expected_scaling_lists 0 (seq_scaling_lists v) else [])).
Proof.
  intros Hv. unfold sps_valid in Hv. split_valid Hv.
  unfold parse_sps_high, ser_sps_high, eff_chroma_format_idc, eff_separate_colour_plane.
  rewrite is_high_profile_eq.
  destruct (has_chroma_block (profile_idc v)) eqn:Hhp; cbn [opt_bits andb]; cbv zeta.
  2:{ apply parses_ret. }
  split_all.
  pbind ltac:(apply parses_ue).
  assert (Hu8 : u8 (chroma_format_idc v) = chroma_format_idc v) by (unfold u8; apply N.mod_small; lia).
  rewrite Hu8.
  pbind ltac:(apply parses_opt; intros _; apply parses_flag).
  pbind ltac:(apply parses_ue).
  pbind ltac:(apply parses_ue).
  pbind ltac:(apply parses_flag).
  pbind ltac:(apply parses_flag).
  eapply parses_bind_nil.
  { apply (parses_opt raw _ (seq_scaling_matrix_present_flag v) _
                      (expected_scaling_lists 0 (seq_scaling_lists v)) []).
    intros Hs.
    match goal with H : (if seq_scaling_matrix_present_flag v then _ else _) = true |- _ =>
      rewrite Hs in H; apply andb_prop in H; destruct H as [Hlen Hsl] end.
    replace (if negb (chroma_format_idc v =? 3) then 8%nat else 12%nat) with (length (seq_scaling_lists v)).
    - apply parses_scaling_lists. exact Hsl.
    - unfold lenN in Hlen. destruct (chroma_format_idc v =? 3); cbn [negb]; lia. }
  cbv beta.
  apply parses_ret_eq.
  destruct (chroma_format_idc v =? 3), (seq_scaling_matrix_present_flag v); reflexivity.
Qed.

(* ------------------------------------------------------------------ the pic_order_cnt_type switch *)
Lemma parses_sps_poc raw v pos :
  sps_valid v = true ->
  parses raw (parse_sps_poc BR (pic_order_cnt_type v)) pos (ser_sps_poc v)
    (let p0 := pic_order_cnt_type v =? 0 in
     let p1 := pic_order_cnt_type v =? 1 in
     ((if p0 then log2_max_pic_order_cnt_lsb_minus4 v else 0),
      p1 && delta_pic_order_always_zero_flag v,
      (if p1 then se_code (offset_for_non_ref_pic v) else 0),
      (if p1 then se_code (offset_for_top_to_bottom_field v) else 0),
      (if p1 then map se_code (offset_for_ref_frame v) else []))).
Proof.
  intros Hv. unfold sps_valid in Hv. split_all.
  unfold parse_sps_poc, ser_sps_poc. cbv zeta.
  destruct (pic_order_cnt_type v =? 0) eqn:H0.
  { apply N.eqb_eq in H0. rewrite H0. change (0 =? 1) with false. cbn [andb].
    plast ltac:(apply parses_ue).
    replace (12 <? log2_max_pic_order_cnt_lsb_minus4 v) with false by lia. apply parses_ret. }
  destruct (pic_order_cnt_type v =? 1) eqn:H1; cbn [andb].
  2:{ apply parses_ret. }
  pbind ltac:(apply parses_flag).
  pbind ltac:(apply parses_ue_of_se).
  pbind ltac:(apply parses_ue_of_se).
  pbind ltac:(apply parses_ue).
  replace (255 <? lenN (offset_for_ref_frame v)) with false by lia.
  plast ltac:(apply (parses_rep_n raw (rd_ue BR) se_bits se_code (offset_for_ref_frame v));
              [reflexivity | unfold loop_bound; lia | intros; apply parses_ue_of_se]).
  apply parses_ret.
Qed.

(* ------------------------------------------------------------------ cropping *)
Lemma eff_chroma_le3 v : sps_valid v = true -> eff_chroma_format_idc v <= 3.
Proof.
  intros Hv. unfold sps_valid in Hv. split_all. unfold eff_chroma_format_idc.
  destruct (has_chroma_block (profile_idc v)); [split_all; lia | lia].
Qed.

Lemma crop_unit_x_cases v : eff_chroma_format_idc v <= 3 ->
  crop_unit_x v = if eff_chroma_format_idc v =? 0 then 1 else if eff_chroma_format_idc v =? 1 then 2
                  else if eff_chroma_format_idc v =? 2 then 2 else 1.
Proof.
  unfold crop_unit_x, chroma_array_type, sub_width_c, eff_separate_colour_plane, eff_chroma_format_idc.
  destruct (has_chroma_block (profile_idc v)); cbn [andb]; [|reflexivity].
  intros Hc.
  destruct (chroma_format_idc v =? 3) eqn:E3; cbn [andb].
  - apply N.eqb_eq in E3. rewrite E3. destruct (separate_colour_plane_flag v); reflexivity.
  - destruct (chroma_format_idc v =? 0) eqn:E0; [reflexivity|].
    destruct (chroma_format_idc v =? 1) eqn:E1; [reflexivity|].
    destruct (chroma_format_idc v =? 2) eqn:E2; [reflexivity|]. lia.
Qed.

Lemma crop_unit_y_cases v : eff_chroma_format_idc v <= 3 ->
  crop_unit_y v = if eff_chroma_format_idc v =? 0 then 2 - fmo_n v
                  else if eff_chroma_format_idc v =? 1 then 2 * (2 - fmo_n v)
                  else if eff_chroma_format_idc v =? 2 then 1 * (2 - fmo_n v) else 1 * (2 - fmo_n v).
Proof.
  unfold crop_unit_y, chroma_array_type, sub_height_c, eff_separate_colour_plane, eff_chroma_format_idc.
  destruct (has_chroma_block (profile_idc v)); cbn [andb].
  - intros Hc.
    destruct (chroma_format_idc v =? 3) eqn:E3; cbn [andb].
    + apply N.eqb_eq in E3. rewrite E3. unfold fmo_n.
      destruct (separate_colour_plane_flag v), (frame_mbs_only_flag v); reflexivity.
    + destruct (chroma_format_idc v =? 0) eqn:E0; [reflexivity|].
      destruct (chroma_format_idc v =? 1) eqn:E1; [reflexivity|].
      destruct (chroma_format_idc v =? 2) eqn:E2; lia.
  - intros _. unfold fmo_n. destruct (frame_mbs_only_flag v); reflexivity.
Qed.

Lemma parses_sps_crop raw v pos w h :
  sps_valid v = true ->
  w = pic_width_in_samples v -> h = frame_height_in_samples v ->
  parses raw (parse_sps_crop BR (eff_chroma_format_idc v) (frame_mbs_only_flag v) w h
                             (frame_cropping_flag v)) pos (ser_sps_crop v)
    (let cr := frame_cropping_flag v in
     ((if cr then frame_crop_left_offset v else 0), (if cr then frame_crop_right_offset v else 0),
      (if cr then frame_crop_top_offset v else 0), (if cr then frame_crop_bottom_offset v else 0),
      display_width v, display_height v)).
Proof.
  intros Hv -> ->. pose proof (eff_chroma_le3 v Hv) as Hc.
  unfold sps_valid in Hv. split_all.
  unfold parse_sps_crop, ser_sps_crop, display_width, display_height. cbv zeta.
  unfold crop_w, crop_h in *.
  destruct (frame_cropping_flag v) eqn:Hcr; cbn [opt_bits].
  2:{ apply parses_ret_eq. repeat f_equal; lia. }
  unfold ue_ok in *.
  assert (Hw : pic_width_in_samples v < 2 ^ 32) by (unfold pic_width_in_samples; lia).
  assert (Hh : frame_height_in_samples v < 2 ^ 32)
    by (unfold frame_height_in_samples, fmo_n; destruct (frame_mbs_only_flag v); lia).
  pose proof (crop_unit_x_cases v Hc) as Hux. pose proof (crop_unit_y_cases v Hc) as Huy.
  fold (fmo_n v).
  set (c := eff_chroma_format_idc v) in *.
  assert (Hsel :
    (if c =? 0 then Some (1, 2 - fmo_n v)
     else if c =? 1 then Some (2, 2 * (2 - fmo_n v))
     else if c =? 2 then Some (2, 1 * (2 - fmo_n v))
     else if c =? 3 then Some (1, 1 * (2 - fmo_n v)) else None)
    = Some (crop_unit_x v, crop_unit_y v)).
  { rewrite Hux, Huy.
    destruct (c =? 0) eqn:E0; [reflexivity|]. destruct (c =? 1) eqn:E1; [reflexivity|].
    destruct (c =? 2) eqn:E2; [reflexivity|]. destruct (c =? 3) eqn:E; [reflexivity|]. lia. }
  rewrite Hsel.
  pbind ltac:(apply parses_ue).
  pbind ltac:(apply parses_ue).
  pbind ltac:(apply parses_ue).
  plast ltac:(apply parses_ue).
  apply parses_ret_eq.
  set (l := frame_crop_left_offset v) in *. set (r := frame_crop_right_offset v) in *.
  set (t := frame_crop_top_offset v) in *. set (b := frame_crop_bottom_offset v) in *.
  assert (Hcw : u64 (l + r) = l + r) by (unfold u64; apply N.mod_small; lia).
  assert (Hch : u64 (t + b) = t + b) by (unfold u64; apply N.mod_small; lia).
  rewrite Hcw, Hch.
  assert (Hm1 : u64 ((l + r) * crop_unit_x v) = crop_unit_x v * (l + r))
    by (unfold u64; rewrite N.mod_small; lia).
  assert (Hm2 : u64 ((t + b) * crop_unit_y v) = crop_unit_y v * (t + b))
    by (unfold u64; rewrite N.mod_small; lia).
  rewrite Hm1, Hm2.
  repeat f_equal.
  - unfold u64.
    replace (pic_width_in_samples v + 18446744073709551616 - crop_unit_x v * (l + r))
      with ((pic_width_in_samples v - crop_unit_x v * (l + r)) + 1 * 18446744073709551616) by lia.
    rewrite N.mod_add by discriminate. apply N.mod_small. lia.
  - unfold u64.
    replace (frame_height_in_samples v + 18446744073709551616 - crop_unit_y v * (t + b))
      with ((frame_height_in_samples v - crop_unit_y v * (t + b)) + 1 * 18446744073709551616) by lia.
    rewrite N.mod_add by discriminate. apply N.mod_small. lia.
Qed.

(* ------------------------------------------------------------------ seq_parameter_set_data *)
Lemma compat_bits_eq v :
  fl (constraint_set0_flag v) ++ fl (constraint_set1_flag v) ++ fl (constraint_set2_flag v)
  ++ fl (constraint_set3_flag v) ++ fl (constraint_set4_flag v) ++ fl (constraint_set5_flag v)
  ++ u 2 0 = u 8 (compat_byte v).
Proof.
  unfold compat_byte.
  destruct (constraint_set0_flag v), (constraint_set1_flag v), (constraint_set2_flag v),
    (constraint_set3_flag v), (constraint_set4_flag v), (constraint_set5_flag v); reflexivity.
Qed.

Lemma compat_byte_lt v : compat_byte v < 256.
Proof.
  unfold compat_byte.
  destruct (constraint_set0_flag v), (constraint_set1_flag v), (constraint_set2_flag v),
    (constraint_set3_flag v), (constraint_set4_flag v), (constraint_set5_flag v); reflexivity.
Qed.

(* the bits of the VUI that the parser consumes *)
Definition ser_vui_read (beyond : bool) (x : vui_syntax) : list bool :=
  ser_vui_sar x ++ (if beyond then ser_vui_rest x else []).

Definition ser_sps_read (beyond : bool) (v : sps_syntax) : list bool :=
  ser_sps_pre v ++ opt_bits (vui_parameters_present_flag v) (ser_vui_read beyond (vui_params v)).

Lemma parses_sps_data raw v pos beyond :
  sps_valid v = true ->
  (vui_parameters_present_flag v = true ->
   forall pos', parses raw (parse_vui BR beyond) pos' (ser_vui_read beyond (vui_params v))
                       (expected_vui beyond (vui_params v))) ->
  parses raw (parse_sps_data BR beyond) pos (ser_sps_read beyond v)
    (expected_sps_gen se_code
       (nbytes_at raw (pos + lenN (ser_sps_pre v)))
       (nbytes_at raw (pos + lenN (ser_sps_read beyond v))) beyond v).
Proof.
  intros Hv Hvui.
  pose proof (parses_sps_high raw v) as Hhigh. specialize (fun p => Hhigh p Hv).
  pose proof (parses_sps_poc raw v) as Hpoc. specialize (fun p => Hpoc p Hv).
  pose proof (fun p w h => parses_sps_crop raw v p w h Hv) as Hcrop.
  unfold sps_valid in Hv. split_all. unfold ue_ok in *.
  unfold parse_sps_data, ser_sps_read, ser_sps_pre.
  rewrite compat_bits_eq. rewrite <- !app_assoc.
  pose proof (compat_byte_lt v) as Hcb.
  assert (E1 : u32 (profile_idc v) = profile_idc v) by (unfold u32; apply N.mod_small; lia).
  assert (E2 : u32 (compat_byte v) = compat_byte v) by (unfold u32; apply N.mod_small; lia).
  assert (E3 : u32 (level_idc v) = level_idc v) by (unfold u32; apply N.mod_small; lia).
  assert (E4 : u32 (seq_parameter_set_id v) = seq_parameter_set_id v) by (unfold u32; apply N.mod_small; lia).
  pbind ltac:(apply parses_rd; lia).
  pbind ltac:(apply parses_rd; lia).
  pbind ltac:(apply parses_rd; lia).
  pbind ltac:(apply parses_ue).
  rewrite E1, E2, E3, E4.
  pbind ltac:(apply Hhigh).
  pbind ltac:(apply parses_ue).
  replace (12 <? log2_max_frame_num_minus4 v) with false by lia.
  pbind ltac:(apply parses_ue).
  pbind ltac:(apply Hpoc).
  pbind ltac:(apply parses_ue).
  pbind ltac:(apply parses_flag).
  pbind ltac:(apply parses_ue).
  pbind ltac:(apply parses_ue).
  pbind ltac:(apply parses_flag).
  pbind ltac:(apply parses_opt_neg; intros _; apply parses_flag).
  pbind ltac:(apply parses_flag).
  pbind ltac:(apply parses_flag).
  pbind ltac:(apply Hcrop).
  { unfold pic_width_in_samples, u64. apply N.mod_small. lia. }
  { unfold frame_height_in_samples, fmo_n, u64.
    destruct (frame_mbs_only_flag v); rewrite !N.mod_small by lia; lia. }
  pbind ltac:(apply parses_flag).
  eapply parses_bind_peek; [apply parses_get_nbytes|]. cbv beta.
  eapply parses_bind_nil.
  { apply (parses_opt raw _ (vui_parameters_present_flag v) (ser_vui_read beyond (vui_params v))
                      (Some (expected_vui beyond (vui_params v))) None).
    intros Hp. plast ltac:(apply Hvui; exact Hp). apply parses_ret. }
  cbv beta.
  eapply parses_bind_peek; [apply parses_get_nbytes|]. cbv beta.
  eapply parses_bind_peek; [apply parses_get_err|]. cbv beta iota.
  apply parses_ret_eq.
  unfold expected_sps_gen. cbv zeta.
  f_equal.
  - destruct (frame_mbs_only_flag v); reflexivity.
  - f_equal. rewrite !lenN_app. lia.
  - f_equal. rewrite !lenN_app. lia.
Qed.

(* ------------------------------------------------------------------ the NAL unit *)
Lemma nal_header_u8 r t : r < 4 -> (t = 1 \/ t = 5 \/ t = 7 \/ t = 8) ->
  nal_header r t = u 8 (32 * r + t) /\ N.land (u8 (32 * r + t)) 31 = t /\ 32 * r + t < 2 ^ 8
  /\ N.land (N.shiftr (32 * r + t) 5) 3 = r.
Proof.
  intros Hr Ht.
  assert (Hr' : r = 0 \/ r = 1 \/ r = 2 \/ r = 3) by lia.
  destruct Hr' as [-> | [-> | [-> | ->]]]; destruct Ht as [-> | [-> | [-> | ->]]]; repeat split; reflexivity.
Qed.

Lemma ser_sps_split v beyond :
  ser_sps v = ser_sps_read beyond v
              ++ (if vui_parameters_present_flag v && negb beyond then ser_vui_rest (vui_params v) else []).
Proof.
  unfold ser_sps, ser_sps_read, ser_vui_read, ser_vui.
  destruct (vui_parameters_present_flag v), beyond; cbn [opt_bits andb negb];
    rewrite <- ?app_assoc, ?app_nil_r; reflexivity.
Qed.

Lemma sps_bits_read_eq v beyond :
  sps_bits_read beyond v = 8 + lenN (ser_sps_read beyond v).
Proof.
  unfold sps_bits_read, sps_bits_before_vui, ser_sps_read, ser_vui_read.
  destruct (vui_parameters_present_flag v), beyond; cbn [opt_bits];
    rewrite ?lenN_app; change (@lenN bool []) with 0; lia.
Qed.

(* what the model returns on every valid SPS (se(v) offsets come back as their codeNum) *)
Lemma parse_sps_br_valid v beyond :
  sps_valid v = true ->
  (vui_parameters_present_flag v = true ->
   forall raw pos', parses raw (parse_vui BR beyond) pos' (ser_vui_read beyond (vui_params v))
                           (expected_vui beyond (vui_params v))) ->
  parse_sps_br beyond (nalu_sps v) =
  Ok (expected_sps_gen se_code (nbytes_at (raw_sps v) (sps_bits_before_vui v))
                       (nbytes_at (raw_sps v) (sps_bits_read beyond v)) beyond v).
Proof.
  intros Hv Hvui.
  assert (Hr : sps_nal_ref_idc v < 4) by (unfold sps_valid in Hv; split_all; lia).
  destruct (nal_header_u8 (sps_nal_ref_idc v) 7 Hr) as (Hh & Hland & Hlt & _); [auto|].
  assert (Hp : parses (raw_sps v) (parse_sps BR beyond) 0
                     (u 8 (32 * sps_nal_ref_idc v + 7) ++ ser_sps_read beyond v)
                     (expected_sps_gen se_code (nbytes_at (raw_sps v) (sps_bits_before_vui v))
                        (nbytes_at (raw_sps v) (sps_bits_read beyond v)) beyond v)).
  { unfold parse_sps.
    pbind ltac:(apply parses_rd; exact Hlt).
    rewrite Hland. change (negb (7 =? 7)) with false. cbv iota.
    rewrite lenN_u. unfold sps_bits_before_vui. rewrite sps_bits_read_eq.
    apply parses_sps_data; [exact Hv | intros Hp pos'; apply Hvui; exact Hp]. }
  unfold parse_sps_br, run, nalu_sps. rewrite binit_nalu. fold (raw_sps v).
  rewrite Hh, (ser_sps_split v beyond), <- !app_assoc.
  rewrite app_assoc. rewrite Hp. reflexivity.
Qed.

(* expected values under the guard that excludes the se(v)-read-as-ue(v) defect *)
Lemma expected_gen_offsets_zero v nb0 nb1 beyond :
  sps_offsets_zero v = true ->
  expected_sps_gen se_code nb0 nb1 beyond v = expected_sps_gen z_as_uint nb0 nb1 beyond v.
Proof.
  unfold sps_offsets_zero, expected_sps_gen. cbv zeta.
  destruct (pic_order_cnt_type v =? 1); [|reflexivity].
  intros H. split_all.
  apply Z.eqb_eq in H. apply Z.eqb_eq in V0. rewrite H, V0.
  f_equal.
  induction (offset_for_ref_frame v) as [|x t IH]; [reflexivity|].
  cbn [forallb] in V. apply andb_prop in V. destruct V as [Hx Ht].
  apply Z.eqb_eq in Hx. subst x. cbn [map]. rewrite IH by exact Ht. reflexivity.
Qed.

Lemma avc_sps_novui v beyond :
  sps_valid v = true -> sps_offsets_zero v = true -> vui_parameters_present_flag v = false ->
  parse_sps_br beyond (nalu_sps v) = Ok (expected_sps beyond v).
Proof.
  intros Hv Ho Hn. unfold expected_sps.
  rewrite <- expected_gen_offsets_zero by exact Ho.
  apply parse_sps_br_valid; [exact Hv | rewrite Hn; discriminate].
Qed.
