(* C15HevcSliceSizeProofs.v — the slice segment header of a valid slice is short: the number of bytes
   it occupies in the escaped NAL unit fits uint32 (Size is stored as uint32(r.NrBytesRead())). *)
From V.lib Require Import Base.
From V.c13 Require Import C13Spec C13Model.
From V.c15 Require Import C15Model C15Spec C15BitProofs C15AvcSpsProofs C15AvcPpsProofs
  C15HevcModel C15HevcSpec C15HevcBitProofs C15HevcSpsRpsProofs C15HevcPpsProofs C15HevcSliceBaseProofs
  C15HevcSliceRpsProofs C15HevcSliceInterProofs.

Lemma hescape_from_len : forall l z, lenN (escape_from z l) <= 2 * lenN l.
Proof.
  induction l as [|b t IH]; intros z; cbn [escape_from].
  - rewrite lenN_nil. lia.
  - destruct ((z =? 2) && (b <=? 3)); rewrite !lenN_cons;
      match goal with |- context [escape_from ?z' t] => specialize (IH z') end; lia.
Qed.

Lemma hnbytes_at_le raw bits : nbytes_at raw bits <= 2 * ((bits + 7) / 8).
Proof.
  unfold nbytes_at, escape.
  eapply N.le_trans; [apply hescape_from_len|].
  unfold lenN. rewrite firstn_length. lia.
Qed.

Lemma hlen_ue_le v : v < 4294967295 -> lenN (ue_bits v) <= 63.
Proof.
  intros H. rewrite lenN_ue_bits.
  assert (N.log2 (v + 1) < 32); [|lia].
  apply N.log2_lt_pow2; [lia|]. change (2 ^ 32) with 4294967296. lia.
Qed.

Lemma hlen_se_le k : se_ok k = true -> lenN (se_bits k) <= 63.
Proof.
  unfold se_ok, int32_ok, se_bits. intros H. apply hlen_ue_le.
  destruct k as [|q|q]; cbn [se_code]; lia.
Qed.

Lemma i8_se_ok k : i8_ok k = true -> se_ok k = true.
Proof. unfold i8_ok, se_ok, int32_ok. lia. Qed.

Lemma hlen_opt_le (c : bool) (e : list bool) b : (c = true -> lenN e <= b) -> lenN (opt_bits c e) <= b.
Proof. destruct c; cbn [opt_bits]; intros H; [apply H; reflexivity | rewrite lenN_nil; lia]. Qed.

Lemma hlen_app_le {A} (a b : list A) x y : lenN a <= x -> lenN b <= y -> lenN (a ++ b) <= x + y.
Proof. intros. rewrite lenN_app. lia. Qed.

Lemma hlen_flat_map_le {X} (f : X -> list bool) c : forall l,
  (forall x, In x l -> lenN (f x) <= c) -> lenN (flat_map f l) <= c * lenN l.
Proof.
  induction l as [|x t IH]; intros H; cbn [flat_map].
  - rewrite lenN_nil. lia.
  - rewrite lenN_app, lenN_cons.
    assert (lenN (f x) <= c) by (apply H; left; reflexivity).
    assert (lenN (flat_map f t) <= c * lenN t) by (apply IH; intros; apply H; right; assumption).
    lia.
Qed.

Lemma hlen_flat_u n (l : list N) : lenN (flat_map (u n) l) <= n * lenN l.
Proof. apply hlen_flat_map_le. intros. rewrite lenN_u. lia. Qed.

(* structural bounding: sums the bounds of the parts *)
Ltac lb :=
  lazymatch goal with
  | |- lenN (_ ++ _) <= _ => eapply hlen_app_le; [lb | lb]
  | |- lenN (opt_bits _ _) <= _ => apply hlen_opt_le; intros _; lb
  | |- lenN (fl _) <= _ => rewrite lenN_fl; apply N.le_refl
  | |- lenN (u _ _) <= _ => rewrite lenN_u; apply N.le_refl
  | |- lenN (ue_bits _) <= _ => apply hlen_ue_le; lia
  | |- lenN (se_bits _) <= _ => apply hlen_se_le; first [assumption | apply i8_se_ok; assumption]
  | |- _ => idtac
  end.

Lemma log2_up_le32 n : n <= 4294967296 -> N.log2_up n <= 32.
Proof.
  intros H. destruct (N.eq_dec n 0) as [-> | Hn]; [cbn; lia|].
  apply N.log2_up_le_pow2; [lia|]. change (2 ^ 32) with 4294967296. exact H.
Qed.

(* ------------------------------------------------------------------ st_ref_pic_set *)
Lemma len_hrps_le prev idx num r :
  (forall d, In d prev -> d_num_delta d <= 32) -> hrps_valid prev idx num r = true -> idx <= 64 ->
  lenN (ser_hrps idx num r) <= 3000.
Proof.
  intros Hprev Hv Hidx. destruct r as [neg ps | di sg ab fls]; cbn [hrps_valid ser_hrps] in *.
  - split_all. unfold max_st_pics in *.
    assert (H1 : lenN (flat_map (fun e : N * bool => ue_bits (fst e) ++ fl (snd e)) neg) <= 64 * lenN neg).
    { apply hlen_flat_map_le. intros e Hin.
      match goal with H : forallb _ neg = true |- _ => rewrite forallb_forall in H; specialize (H e Hin) end.
      eapply N.le_trans; [lb|]. lia. }
    assert (H2 : lenN (flat_map (fun e : N * bool => ue_bits (fst e) ++ fl (snd e)) ps) <= 64 * lenN ps).
    { apply hlen_flat_map_le. intros e Hin.
      match goal with H : forallb _ ps = true |- _ => rewrite forallb_forall in H; specialize (H e Hin) end.
      eapply N.le_trans; [lb|]. lia. }
    eapply N.le_trans; [lb; [exact H1 | exact H2]|]. lia.
  - cbv zeta in Hv. split_all. unfold max_st_pics in *.
    set (ref := nth (N.to_nat (idx - (di + 1))) prev (mkRpsD [] [])) in *.
    assert (Hr : d_num_delta ref <= 32).
    { unfold ref. destruct (nth_in_or_default (N.to_nat (idx - (di + 1))) prev (mkRpsD [] [])) as [Hin | ->].
      - apply Hprev. exact Hin.
      - unfold d_num_delta. cbn. lia. }
    assert (H1 : lenN (flat_map (fun e : bool * bool => fl (fst e) ++ opt_bits (negb (fst e)) (fl (snd e))) fls)
                 <= 2 * lenN fls).
    { apply hlen_flat_map_le. intros e Hin. eapply N.le_trans; [lb|]. lia. }
    eapply N.le_trans; [lb; exact H1|]. lia.
Qed.

Lemma sps_derived_le32 sp : hsps_valid sp = true -> forall d, In d (hs_sps_derived sp) -> d_num_delta d <= 32.
Proof.
  intros Hs. destruct (sps_sets_rel sp Hs) as [Hrel _].
  induction Hrel as [|a d la ld Had Hrel IH]; intros d' Hin; [destruct Hin|].
  destruct Hin as [<- | Hin]; [apply Had | apply IH; exact Hin].
Qed.

(* the same, keeping the conditions of optional parts and closing leaves with bounds from the context *)
Ltac lbc :=
  lazymatch goal with
  | |- lenN (_ ++ _) <= _ => eapply hlen_app_le; [lbc | lbc]
  | |- lenN (opt_bits _ _) <= _ => apply hlen_opt_le; intro; lbc
  | |- lenN (fl _) <= _ => rewrite lenN_fl; apply N.le_refl
  | |- lenN (u _ _) <= _ => rewrite lenN_u; apply N.le_refl
  | |- lenN (ue_bits _) <= _ => apply hlen_ue_le; lia
  | |- lenN (se_bits _) <= _ => apply hlen_se_le; first [assumption | apply i8_se_ok; assumption]
  | |- lenN ?X <= _ =>
      first [ eassumption
            | match goal with
              | H : _ -> lenN X <= _ |- _ => eapply H; eassumption
              | H : _ -> _ -> lenN X <= _ |- _ => eapply H; eassumption
              | H : _ -> _ -> _ -> lenN X <= _ |- _ => eapply H; eassumption
              end ]
  end.

(* ------------------------------------------------------------------ long-term entries *)
Lemma len_lt_le sp pp v : hsps_valid sp = true -> hslice_valid sp pp v = true ->
  lenN (ser_hslice_lt sp pp v) <= 6000.
Proof.
  intros Hs Hv.
  assert (Hp : hs_poc_bits sp <= 16)
    by (unfold hsps_valid in Hs; cbv zeta in Hs; split_all; unfold hs_poc_bits; lia).
  assert (H32 : hs_lt_idx_bits sp <= 32).
  { unfold hs_lt_idx_bits. apply log2_up_le32.
    unfold hsps_valid in Hs; cbv zeta in Hs; split_all; unfold hs_num_lt_sps_in_sps.
    destruct (sx_long_term_ref_pics_present_flag sp); lia. }
  unfold hslice_valid in Hv. split_all. unfold ser_hslice_lt.
  set (E1 := hs_lt_sps_entries sp pp v) in *. set (E2 := hs_lt_pics_entries sp pp v) in *.
  assert (H1 : lenN (flat_map (fun e : N * bool * N => let '(ix, msb, cyc) := e in
                          opt_bits (1 <? hs_num_lt_sps_in_sps sp) (u (hs_lt_idx_bits sp) ix)
                          ++ fl msb ++ opt_bits msb (ue_bits cyc)) E1) <= 96 * lenN E1).
  { apply hlen_flat_map_le. intros [[ix msb] cyc] Hin.
    match goal with H : forallb _ E1 = true |- _ => rewrite forallb_forall in H; specialize (H _ Hin);
      cbv beta iota in H; apply andb_prop in H; destruct H as [Hix Hc] end.
    unfold ue_ok in Hc. eapply N.le_trans; [lb|]. lia. }
  assert (H2 : lenN (flat_map (fun e : N * bool * bool * N => let '(poc, used, msb, cyc) := e in
                          u (hs_poc_bits sp) poc ++ fl used ++ fl msb ++ opt_bits msb (ue_bits cyc)) E2)
               <= 81 * lenN E2).
  { apply hlen_flat_map_le. intros [[[poc used] msb] cyc] Hin.
    match goal with H : forallb _ E2 = true |- _ => rewrite forallb_forall in H; specialize (H _ Hin);
      cbv beta iota in H; apply andb_prop in H; destruct H as [Hix Hc] end.
    unfold ue_ok in Hc. eapply N.le_trans; [lb|]. lia. }
  eapply N.le_trans; [lbc|]. lia.
Qed.

(* ------------------------------------------------------------------ pred_weight_table *)
Lemma len_pwt_list_le sp (lst : list hpwt) : lenN lst <= 15 -> forallb hpwt_ok lst = true ->
  lenN (ser_hpwt_list sp lst) <= 6000.
Proof.
  intros Hl Hok. unfold ser_hpwt_list.
  assert (H1 : lenN (flat_map (fun e => fl (pw_luma_flag e)) lst) <= 1 * lenN lst)
    by (apply hlen_flat_map_le; intros; rewrite lenN_fl; lia).
  assert (H2 : lenN (flat_map (fun e => fl (pw_chroma_flag e)) lst) <= 1 * lenN lst)
    by (apply hlen_flat_map_le; intros; rewrite lenN_fl; lia).
  assert (H3 : lenN (flat_map (fun e =>
                   opt_bits (pw_luma_flag e) (se_bits (pw_dlw e) ++ se_bits (pw_lo e))
                   ++ opt_bits (hs_cat_nz sp && pw_chroma_flag e)
                        (se_bits (pw_dcw0 e) ++ se_bits (pw_dco0 e) ++ se_bits (pw_dcw1 e) ++ se_bits (pw_dco1 e)))
                   lst) <= 378 * lenN lst).
  { apply hlen_flat_map_le. intros e Hin. rewrite forallb_forall in Hok. specialize (Hok e Hin).
    unfold hpwt_ok in Hok. split_all. eapply N.le_trans; [lb|]. lia. }
  eapply N.le_trans; [lbc|]. lia.
Qed.

(* ------------------------------------------------------------------ inter block *)
Lemma len_inter_le sp pp v : hpps_valid pp = true -> hslice_valid sp pp v = true ->
  lenN (ser_hslice_inter sp pp v) <= 20000.
Proof.
  intros Hp Hv.
  destruct (hs_l01_le14 sp pp v Hp Hv) as [Hl0 Hl1].
  unfold hslice_valid in Hv. split_all.
  assert (Hb : hs_list_entry_bits sp pp v <= 32) by (unfold hs_list_entry_bits; apply log2_up_le32; lia).
  assert (R0 : hs_rplm sp pp v = true -> sx_ref_pic_list_modification_flag_l0 v = true ->
               lenN (flat_map (u (hs_list_entry_bits sp pp v)) (sx_list_entry_l0 v)) <= 32 * 15).
  { intros Hr Hf.
    match goal with H : (if hs_rplm sp pp v && sx_ref_pic_list_modification_flag_l0 v then _ else true) = true |- _ =>
      rewrite Hr, Hf in H; cbn [andb] in H; apply andb_prop in H; destruct H as [Hlen _] end.
    eapply N.le_trans; [apply hlen_flat_u|]. apply N.mul_le_mono; lia. }
  assert (R1 : hs_rplm sp pp v = true -> hs_is_b pp v = true -> sx_ref_pic_list_modification_flag_l1 v = true ->
               lenN (flat_map (u (hs_list_entry_bits sp pp v)) (sx_list_entry_l1 v)) <= 32 * 15).
  { intros Hr Hbb Hf.
    match goal with H : (if hs_rplm sp pp v && hs_is_b pp v && sx_ref_pic_list_modification_flag_l1 v then _ else true) = true |- _ =>
      rewrite Hr, Hbb, Hf in H; cbn [andb] in H; apply andb_prop in H; destruct H as [Hlen _] end.
    eapply N.le_trans; [apply hlen_flat_u|]. apply N.mul_le_mono; lia. }
  assert (W0 : hs_pwt pp v = true -> lenN (ser_hpwt_list sp (sx_pwt_l0 v)) <= 6000).
  { intros Hw.
    match goal with H : (if hs_pwt pp v then _ else true) = true |- _ => rewrite Hw in H; split_all end.
    apply len_pwt_list_le; [lia | assumption]. }
  assert (W1 : hs_pwt pp v = true -> hs_is_b pp v = true -> lenN (ser_hpwt_list sp (sx_pwt_l1 v)) <= 6000).
  { intros Hw Hbb.
    match goal with H : (if hs_pwt pp v then _ else true) = true |- _ => rewrite Hw, Hbb in H; split_all end.
    apply len_pwt_list_le; [lia | assumption]. }
  unfold ser_hslice_inter.
  eapply N.le_trans; [lbc|]. lia.
Qed.

(* ------------------------------------------------------------------ the non-dependent block *)
Lemma len_main_le sp pp v :
  hsps_valid sp = true -> hpps_valid pp = true -> hslice_valid sp pp v = true -> hs_main pp v = true ->
  lenN (ser_hslice_main sp pp v) <= 40000.
Proof.
  intros Hs Hp Hv Hm.
  pose proof (len_inter_le sp pp v Hp Hv) as Hinter.
  pose proof (len_lt_le sp pp v Hs Hv) as Hlt.
  assert (Hpb : hs_poc_bits sp <= 16)
    by (unfold hsps_valid in Hs; cbv zeta in Hs; split_all; unfold hs_poc_bits; lia).
  assert (Hx : sx_num_extra_slice_header_bits pp < 8)
    by (unfold hpps_valid in Hp; cbv zeta in Hp; split_all; lia).
  destruct (sps_sets_rel sp Hs) as [_ H64].
  assert (Hrp : negb (hs_idr v) = true ->
                lenN (if sx_short_term_ref_pic_set_sps_flag v
                      then opt_bits (1 <? hs_num_st sp)
                                    (u (N.log2_up (hs_num_st sp)) (sx_short_term_ref_pic_set_idx v))
                      else ser_hrps (hs_num_st sp) (hs_num_st sp) (sx_slice_st_rps v)) <= 3000).
  { intros Hi. destruct (sx_short_term_ref_pic_set_sps_flag v) eqn:Hf.
    - assert (N.log2_up (hs_num_st sp) <= 32) by (apply log2_up_le32; lia).
      eapply N.le_trans; [lb|]. lia.
    - apply (len_hrps_le (hs_sps_derived sp)); [apply sps_derived_le32; exact Hs | | exact H64].
      unfold hslice_valid in Hv. split_all.
      match goal with H : (if hs_st_coded pp v then _ else true) = true |- _ =>
        unfold hs_st_coded, hs_nidr in H; rewrite Hm, Hi, Hf in H; exact H end. }
  unfold hslice_valid in Hv. split_all.
  assert (Hres : lenN (sx_slice_reserved_flags v) <= 8) by lia.
  unfold ser_hslice_main.
  eapply N.le_trans; [lbc|]. lia.
Qed.

(* ------------------------------------------------------------------ the header *)
Lemma len_hdr_le sp pp v :
  hsps_valid sp = true -> hpps_valid pp = true -> hslice_valid sp pp v = true ->
  lenN (hslice_hdr_bits sp pp v) <= 200000.
Proof.
  intros Hs Hp Hv.
  assert (Hmain : hs_main pp v = true -> lenN (ser_hslice_main sp pp v) <= 40000)
    by (intros Hm; apply len_main_le; assumption).
  destruct (hslice_ctb sp Hs) as (_ & _ & _ & _ & C5).
  assert (Ha : hs_address_bits sp <= 32)
    by (unfold hs_address_bits; apply log2_up_le32; change (2 ^ 32) with 4294967296 in C5; exact C5).
  assert (Hid : sx_slice_pic_parameter_set_id v <= 63)
    by (unfold hpps_valid in Hp; cbv zeta in Hp; unfold hslice_valid in Hv; split_all; lia).
  unfold hslice_valid in Hv. split_all.
  assert (Hh : lenN (hnal_header (hs_nt v) (sx_sl_nuh_layer_id v) (sx_sl_nuh_temporal_id_plus1 v)) <= 16)
    by (unfold hnal_header; rewrite !lenN_app, !lenN_u; cbn; lia).
  assert (He : lenN (flat_map (u (sx_offset_len_minus1 v + 1)) (sx_entry_point_offset_minus1 v)) <= 32 * 2048)
    by (eapply N.le_trans; [apply hlen_flat_u|]; apply N.mul_le_mono; lia).
  assert (Hx : lenN (flat_map (u 8) (sx_slice_segment_header_extension_data v)) <= 8 * 256)
    by (eapply N.le_trans; [apply hlen_flat_u|]; apply N.mul_le_mono; lia).
  unfold hslice_hdr_bits, ser_hslice_header.
  eapply N.le_trans; [lbc|]. lia.
Qed.

Lemma hslice_size_lt sp pp v :
  hsps_valid sp = true -> hpps_valid pp = true -> hslice_valid sp pp v = true ->
  nbytes_at (hraw_slice sp pp v) (hslice_size_bits sp pp v) < 4294967296.
Proof.
  intros Hs Hp Hv.
  pose proof (len_hdr_le sp pp v Hs Hp Hv) as H.
  pose proof (hnbytes_at_le (hraw_slice sp pp v) (hslice_size_bits sp pp v)) as Hn.
  assert (Hb : hslice_size_bits sp pp v <= 200008).
  { unfold hslice_size_bits, trailing_bits. rewrite lenN_cons, lenN_repeat, N2Nat.id. lia. }
  lia.
Qed.
