(* C15HypProofs.v — (1) the executable hypothesis predicates of C15HypModel are the predicates of the
   reader-tie theorems; hyp_tie_raw nalu = true exhibits the raw of the ties; (2) decoder invariant:
   EVERY SPS avc.ParseSPSNALUnit returns (any reader, any input) satisfies sps_narrow, so the
   sps_narrow hypothesis of the AVC slice ties holds of every map filled by the parser.  No axioms. *)
From V.lib Require Import Base.
From V.c13 Require Import C13Spec C13Model.
From V.c15 Require Import C15Model C15Spec C15HevcModel C15HevcSpec C15Hevc2Model C15Avc2Model C15Avc2DimsProofs C15HypModel
  C15TieBaseProofs C15TieAvcProofs C15TieAvc2Proofs C15TieHevcProofs C15TieHevcSpsProofs C15TieHevc2Proofs
  C15TieMainProofs.

Lemma hyp_zr_eq l : forall c, hyp_zr c l = zr c l.
Proof. induction l as [|b t IH]; intros c; [reflexivity|]. destruct b; cbn [hyp_zr zr]; rewrite IH; reflexivity. Qed.

Lemma hyp_zrun_ok_eq raw : hyp_zrun_ok raw = zrun_ok raw.
Proof. unfold hyp_zrun_ok, zrun_ok. apply hyp_zr_eq. Qed.

Lemma hyp_list_eqb_eq a : forall b, hyp_list_eqb a b = true -> a = b.
Proof.
  induction a as [|x a IH]; intros [|y b] H; cbn [hyp_list_eqb] in H; try discriminate; [reflexivity|].
  apply andb_true_iff in H. destruct H as [H1 H2]. apply N.eqb_eq in H1. subst y. f_equal. apply IH, H2.
Qed.

Lemma hyp_list_eqb_refl a : hyp_list_eqb a a = true.
Proof. induction a as [|x a IH]; [reflexivity|]. cbn [hyp_list_eqb]. rewrite N.eqb_refl, IH. reflexivity. Qed.

Lemma hyp_sps_narrow_eq s : hyp_sps_narrow s = sps_narrow s.      Proof. reflexivity. Qed.
Lemma hyp_pps_narrow_eq p : hyp_pps_narrow p = pps_narrow p.      Proof. reflexivity. Qed.
Lemma hyp_hsps_narrow_eq s : hyp_hsps_narrow s = hsps_narrow s.   Proof. reflexivity. Qed.
Lemma hyp_hsps_depths_ok_eq s : hyp_hsps_depths_ok s = hsps_depths_ok s. Proof. reflexivity. Qed.

(* the executable predicate exhibits the raw of the tie theorems, and is exact *)
Lemma hyp_tie_raw_sound nalu : hyp_tie_raw nalu = true ->
  exists raw, bytes_ok raw = true /\ zrun_ok raw = true /\ nalu = escape raw.
Proof.
  unfold hyp_tie_raw. intros H. apply andb_true_iff in H. destruct H as [H H3].
  apply andb_true_iff in H. destruct H as [H1 H2]. exists (unescape nalu).
  rewrite hyp_zrun_ok_eq in H2. apply hyp_list_eqb_eq in H3. auto.
Qed.

Section Inv.
  Context {St : Type} (R : reader St).

  (* one bind: the first computation answered Ok (the other answers end the parser without a result) *)
  Ltac step H :=
    unfold bind at 1 in H;
    match type of H with
    | match ?m with _ => _ end = _ => destruct m as [[? ?]| | |] eqn:?; try discriminate H
    end.
  Ltac tuples :=
    repeat match goal with x : (_ * _)%type |- _ => destruct x end.

  Lemma parse_sps_poc_narrow pt st l dz o1 o2 cyc st' :
    parse_sps_poc R pt st = Ok ((l, dz, o1, o2, cyc), st') -> l <= 12.
  Proof.
    unfold parse_sps_poc. intros H.
    destruct (pt =? 0).
    - step H. destruct (12 <? n) eqn:E; [discriminate H|]. unfold ret in H. injection H as -> _ _ _ _ _.
      apply N.ltb_ge in E. exact E.
    - destruct (pt =? 1).
      + step H. step H. step H. step H.
        match type of H with (if ?c then _ else _) _ = _ => destruct c; [discriminate H|] end.
        step H. unfold ret in H. injection H as <- _ _ _ _ _. lia.
      + unfold ret in H. injection H as <- _ _ _ _ _. lia.
  Qed.

  Lemma parse_sps_data_narrow beyond st s st' :
    parse_sps_data R beyond st = Ok (s, st') -> sps_narrow s = true.
  Proof.
    unfold parse_sps_data. intros H.
    step H. step H. step H. step H. step H. tuples.
    step H.
    match type of H with (if 12 <? ?x then _ else _) _ = _ => destruct (12 <? x) eqn:El; [discriminate H|] end.
    apply N.ltb_ge in El.
    step H. step H. tuples.
    match goal with E : parse_sps_poc _ _ _ = Ok _ |- _ => apply parse_sps_poc_narrow in E; rename E into Ep end.
    step H. step H. step H. step H. step H. step H. step H. step H. step H. tuples.
    step H. step H. step H. step H. step H.
    match type of H with (if ?c then _ else _) _ = _ => destruct c; [discriminate H|] end.
    unfold ret in H. injection H as <- _.
    unfold sps_narrow. cbn [sps_log2_max_frame_num_minus4 sps_log2_max_pic_order_cnt_lsb_minus4].
    apply andb_true_iff. split; apply N.leb_le; assumption.
  Qed.

  Lemma parse_sps_narrow beyond st s st' :
    parse_sps R beyond st = Ok (s, st') -> sps_narrow s = true.
  Proof.
    unfold parse_sps. intros H. step H.
    match type of H with (if ?c then _ else _) _ = _ => destruct c; [discriminate H|] end.
    eapply parse_sps_data_narrow, H.
  Qed.
End Inv.

(* for both instances: whatever the input *)
Lemma sps_narrow_parsed_er beyond nalu s : parse_sps_er beyond nalu = Ok s -> sps_narrow s = true.
Proof.
  unfold parse_sps_er, run. intros H.
  destruct (parse_sps ER beyond (rinit nalu)) as [[a s']| | |] eqn:E; try discriminate H.
  injection H as ->. eapply parse_sps_narrow, E.
Qed.
Lemma sps_narrow_parsed_br beyond nalu s : parse_sps_br beyond nalu = Ok s -> sps_narrow s = true.
Proof.
  unfold parse_sps_br, run. intros H.
  destruct (parse_sps BR beyond (binit nalu)) as [[a s']| | |] eqn:E; try discriminate H.
  injection H as ->. eapply parse_sps_narrow, E.
Qed.

(* a map every entry of which was returned by the SPS parser (on whatever bytes): spsMap as the
   callers of avc.ParseSliceHeader fill it *)
Definition sps_map_parsed (spsmap : N -> option sps) : Prop :=
  forall id s, spsmap id = Some s ->
    exists beyond nalu, parse_sps_er beyond nalu = Ok s \/ parse_sps_br beyond nalu = Ok s.

Lemma sps_map_parsed_narrow spsmap : sps_map_parsed spsmap ->
  forall id s, spsmap id = Some s -> sps_narrow s = true.
Proof.
  intros Hm id s E. destruct (Hm id s E) as (b & n & [H | H]);
    [eapply sps_narrow_parsed_er, H | eapply sps_narrow_parsed_br, H].
Qed.

(* the AVC slice tie (repaired text) with NO hypothesis on the parameter sets beyond "parsed" *)
Lemma tie_avc_slice2_parsed raw spsmap ppsmap :
  bytes_ok raw = true -> zrun_ok raw = true -> sps_map_parsed spsmap ->
  parse_slice2_er spsmap ppsmap (escape raw) = parse_slice2_br spsmap ppsmap (escape raw).
Proof. intros Hb Hz Hm. apply tie_avc_slice2; auto. apply sps_map_parsed_narrow, Hm. Qed.

(* the ties in the form the driver evaluates: hypothesis = executable predicate on the NAL unit *)
Lemma tie_applies_avc_sps nalu beyond : hyp_tie_raw nalu = true ->
  parse_sps_er beyond nalu = parse_sps_br beyond nalu.
Proof. intros H. destruct (hyp_tie_raw_sound _ H) as (raw & Hb & Hz & ->). apply tie_avc_sps; assumption. Qed.

Lemma tie_applies_avc_pps nalu spsmap : hyp_tie_raw nalu = true ->
  parse_pps_er spsmap nalu = parse_pps_br spsmap nalu.
Proof. intros H. destruct (hyp_tie_raw_sound _ H) as (raw & Hb & Hz & ->). apply tie_avc_pps; assumption. Qed.

Lemma tie_applies_avc_slice2 nalu spsmap ppsmap : hyp_tie_raw nalu = true ->
  (forall id s, spsmap id = Some s -> hyp_sps_narrow s = true) ->
  parse_slice2_er spsmap ppsmap nalu = parse_slice2_br spsmap ppsmap nalu.
Proof. intros H Hn. destruct (hyp_tie_raw_sound _ H) as (raw & Hb & Hz & ->). apply tie_avc_slice2; assumption. Qed.

Lemma tie_applies_hevc_pps nalu spsmap : hyp_tie_raw nalu = true ->
  hparse_pps_er spsmap nalu = hparse_pps_br spsmap nalu.
Proof. intros H. destruct (hyp_tie_raw_sound _ H) as (raw & Hb & Hz & ->). apply tie_hevc_pps; assumption. Qed.

Lemma tie_applies_hevc_pps2 nalu spsmap : hyp_tie_raw nalu = true ->
  hparse_pps2_er spsmap nalu = hparse_pps2_br spsmap nalu.
Proof. intros H. destruct (hyp_tie_raw_sound _ H) as (raw & Hb & Hz & ->). apply tie_hevc_pps2; assumption. Qed.

Lemma tie_applies_hevc_slice nalu spsmap ppsmap : hyp_tie_raw nalu = true ->
  (forall id s, spsmap id = Some s -> hyp_hsps_narrow s = true) ->
  hparse_slice_er spsmap ppsmap nalu = hparse_slice_br spsmap ppsmap nalu.
Proof. intros H Hn. destruct (hyp_tie_raw_sound _ H) as (raw & Hb & Hz & ->). apply tie_hevc_slice; assumption. Qed.

Lemma tie_applies_hevc_sps nalu s : hyp_tie_raw nalu = true ->
  hparse_sps_br nalu = Ok s -> hyp_hsps_depths_ok s = true -> hparse_sps_er nalu = Ok s.
Proof. intros H Hp Hd. destruct (hyp_tie_raw_sound _ H) as (raw & Hb & Hz & ->). apply tie_hevc_sps; assumption. Qed.

(* the predicate is exact: it holds of escape raw for every raw within the ties' hypotheses *)
Lemma hyp_tie_raw_complete raw : bytes_ok raw = true -> zrun_ok raw = true ->
  unescape (escape raw) = raw -> hyp_tie_raw (escape raw) = true.
Proof.
  intros Hb Hz Hu. unfold hyp_tie_raw. rewrite Hu, Hb, hyp_zrun_ok_eq, Hz, hyp_list_eqb_refl. reflexivity.
Qed.

Lemma hsps_narrow_valid v : hsps_valid v = true -> hsps_narrow (expected_hsps v) = true.
Proof.
  intros H. apply hsps_valid_depths in H. unfold hsps_depths_ok in H.
  apply andb_true_iff in H. destruct H as [_ H]. exact H.
Qed.

(* C15_avc_slice_all_er with the parameter-set hypothesis discharged for parser-filled maps *)
Lemma avc_slice2_er_parsed spsmap ppsmap sp pp v beyond cm s p :
  sps_valid sp = true -> pps_valid (eff_chroma_format_idc sp) pp = true -> slice_valid sp pp v = true ->
  pic_size_in_map_units sp < 4294967296 ->
  (pps_has_tail pp && pic_scaling_matrix_present_flag pp = true ->
   cm (pps_seq_parameter_set_id pp) = Some (eff_chroma_format_idc sp)) ->
  zrun_ok (raw_sps sp) = true -> zrun_ok (raw_pps pp) = true -> zrun_ok (raw_slice sp pp v) = true ->
  sps_map_parsed spsmap ->
  parse_sps_er beyond (nalu_sps sp) = Ok s -> parse_pps_er cm (nalu_pps pp) = Ok p ->
  ppsmap (sl_pic_parameter_set_id v) = Some p -> spsmap (pps_seq_parameter_set_id pp) = Some s ->
  parse_slice2_er spsmap ppsmap (nalu_slice sp pp v) = Ok (expected_slice sp pp v).
Proof.
  intros. eapply avc_slice2_er; eauto. apply sps_map_parsed_narrow. assumption.
Qed.
