(* Extraction of the C15 models, serialisers and expected values. ExtrOcamlBasic only. *)
From V.lib Require Import Base.
From V.c13 Require Import C13Spec C13Model.
From V.c15 Require Import C15Model C15Spec.
From V.c15 Require Import C15AvcConfModel C15AvcConfSpec.
From V.c15 Require Import C15HevcModel C15HevcSpec.
From V.c15 Require Import C15HevcConfModel C15HevcConfSpec.
From V.c15 Require Import C15InitModel C15InitSpec.
From V.c15 Require Import C15Hevc2Model C15Hevc2Spec C15Avc2Model.
From V.c15 Require Import C15HypModel.
Require Import ExtrOcamlBasic.
Separate Extraction
  parse_sps_er parse_sps_br flat_sps
  nalu_sps expected_sps sps_valid sps_offsets_zero
  parse_pps_er parse_pps_br flat_pps nalu_pps expected_pps pps_valid
  parse_slice_er parse_slice_br flat_slice nalu_slice expected_slice slice_valid
  eff_l0 eff_l1 slice_group_change_cycle_bits sl_has_fmo_cycle eff_chroma_format_idc
  conf_obs_er expected_conf_obs decode_obs expected_decode_obs confrec_syntax_valid confrec_of_sps ser_confrec
  hparse_sps_er hparse_sps_br flat_hsps hnalu_sps expected_hsps hsps_valid
  derive_one derive_all d_num_delta d_num_used hrps_valid expected_himage_size
  hparse_pps_er hparse_pps_br flat_hpps hnalu_pps expected_hpps hpps_valid
  hparse_slice_er hparse_slice_br flat_hslice hnalu_slice expected_hslice hslice_valid
  hs_address_bits hs_poc_bits hs_num_pic_total_curr hs_l0 hs_l1 hs_lt_idx_bits hs_list_entry_bits
  hconf_observe hconf_decode_observe expected_hconf_observe spec_hvcc nalus_fit hconf_depths_fit
  ainit_observe hinit_observe expected_ainit expected_hinit ainit_fits
  hparse_pps2_er hparse_pps2_br flat_hpps2 hnalu_pps2 expected_hpps2 hpps2_valid
  parse_slice2_er parse_slice2_br
  hyp_tie_raw hyp_sps_narrow hyp_pps_narrow hyp_hsps_narrow hyp_hsps_depths_ok.
