(* C15HevcConfSpec.v — INDEPENDENT description of the HEVCDecoderConfigurationRecord (ISO/IEC 14496-15
   8.3.3.1.2, written as the bit fields of the syntax table) built from an SPS and parameter-set NAL
   units, and of the codecs parameter of ISO/IEC 14496-15 Annex E.3 ("hvc1.A1.80.L93.B0").
   Definitions only; trusted base. *)
From V.lib Require Import Base.
From V.c13 Require Import C13Spec.
From V.c15 Require Import C15Model C15Spec C15HevcModel C15HevcSpec C15HevcConfModel.
From V.c16 Require Import C16ConfRecModel.

Definition hprofile_constraint_bits (g : hprofile_syntax) : list bool :=
  fl (sx_progressive_source_flag g) ++ fl (sx_interlaced_source_flag g)
  ++ fl (sx_non_packed_constraint_flag g) ++ fl (sx_frame_only_constraint_flag g)
  ++ u 43 (sx_constraint_43bits g) ++ fl (sx_inbld_flag g).

(* the fixed part of the record (23 bytes with numOfArrays) as CreateHEVCDecConfRec fills it *)
Definition spec_hvcc_fixed (v : hsps_syntax) (num_arrays : N) : list bool :=
  let g := sx_general (sx_sps_ptl v) in
  u 8 1                                                     (* configurationVersion *)
  ++ u 2 (sx_profile_space g) ++ fl (sx_tier_flag g) ++ u 5 (sx_profile_idc g)
  ++ u 32 (sx_profile_compatibility_flags g)
  ++ hprofile_constraint_bits g                             (* general_constraint_indicator_flags, 48 bits *)
  ++ u 8 (sx_general_level_idc (sx_sps_ptl v))
  ++ u 4 15 ++ u 12 0                                       (* reserved, min_spatial_segmentation_idc *)
  ++ u 6 63 ++ u 2 0                                        (* reserved, parallelismType *)
  ++ u 6 63 ++ u 2 (sx_chroma_format_idc v)                 (* reserved, chromaFormat *)
  ++ u 5 31 ++ u 3 (sx_bit_depth_luma_minus8 v)
  ++ u 5 31 ++ u 3 (sx_bit_depth_chroma_minus8 v)
  ++ u 16 0                                                 (* avgFrameRate *)
  ++ u 2 0 ++ u 3 0 ++ fl false ++ u 2 3                    (* constantFrameRate, numTemporalLayers, temporalIdNested, lengthSizeMinusOne *)
  ++ u 8 num_arrays.

Definition spec_hvcc_array (complete : bool) (typ : N) (nalus : list (list N)) : list N :=
  bytes_of_bits (fl complete ++ fl false ++ u 6 typ ++ u 16 (lenN nalus))
  ++ flat_map (fun n => bytes_of_bits (u 16 (lenN n)) ++ n) nalus.

Definition spec_hvcc (v : hsps_syntax) (vps sps pps : list (list N)) (vc sc pc include_ps : bool) : list N :=
  bytes_of_bits (spec_hvcc_fixed v (if include_ps then 3 else 0))
  ++ (if include_ps then spec_hvcc_array vc 32 vps ++ spec_hvcc_array sc 33 sps ++ spec_hvcc_array pc 34 pps
      else []).

Definition expected_hconf (v : hsps_syntax) (vps sps pps : list (list N)) (vc sc pc include_ps : bool) : hevc_rec :=
  let g := sx_general (sx_sps_ptl v) in
  let arr (c : bool) (t : N) (l : list (list N)) := ((if c then 128 else 0) + t, l) in
  mkHevcRec 1 (sx_profile_space g) (sx_tier_flag g) (sx_profile_idc g) (sx_profile_compatibility_flags g)
            (constraint48 g) (sx_general_level_idc (sx_sps_ptl v)) 0 0
            (sx_chroma_format_idc v) (sx_bit_depth_luma_minus8 v) (sx_bit_depth_chroma_minus8 v)
            0 0 0 0 3
            (if include_ps then [arr vc 32 vps; arr sc 33 sps; arr pc 34 pps] else []).

(* the NAL unit lists fit the 16-bit count / length fields, and are bytes *)
Definition nalus_fit (l : list (list N)) : bool :=
  (lenN l <? 65536) && forallb (fun n => (lenN n <? 65536) && forallb (fun b => b <? 256) n) l.

(* the record's 3-bit depth fields *)
Definition hconf_depths_fit (v : hsps_syntax) : bool :=
  (sx_bit_depth_luma_minus8 v <=? 7) && (sx_bit_depth_chroma_minus8 v <=? 7).

(* ---- codecs parameter (14496-15 E.3) *)
Fixpoint drop_zero_bytes (l : list N) : list N :=
  match l with
  | 0 :: t => drop_zero_bytes t
  | _ => l
  end.

Definition spec_hcodec_string (sample_entry : list N) (v : hsps_syntax) : list N :=
  let g := sx_general (sx_sps_ptl v) in
  let space := match sx_profile_space g with 1 => [65] | 2 => [66] | 3 => [67] | _ => [] end in
  (* the 32 compatibility flags in reverse bit order: flag[0] is the least significant bit *)
  let reversed := bval (rev (ubits 32 (sx_profile_compatibility_flags g))) in
  (* the six constraint bytes; trailing zero bytes omitted (the first byte is always written) *)
  let cbytes := bytes_of_bits (hprofile_constraint_bits g) in
  let kept := hd 0 cbytes :: rev (drop_zero_bytes (rev (tl cbytes))) in
  sample_entry ++ [46] ++ space ++ digits 10 (sx_profile_idc g)
  ++ [46] ++ digits 16 reversed
  ++ [46] ++ (if sx_tier_flag g then [72] else [76]) ++ digits 10 (sx_general_level_idc (sx_sps_ptl v))
  ++ flat_map (fun b => [46] ++ digits 16 b) kept.

(* expected observable of hconf_observe *)
Definition expected_hconf_observe (v : hsps_syntax) (vps sps pps : list (list N))
           (vc sc pc include_ps : bool) : list Z :=
  let r := expected_hconf v vps sps pps vc sc pc include_ps in
  let enc := spec_hvcc v vps sps pps vc sc pc include_ps in
  flat_hevc_rec r ++ [zn (lenN enc)] ++ flat_nlist enc ++ flat_hevc_rec r
  ++ flat_nlist (spec_hcodec_string [104; 118; 99; 49] v).
